package main

// C14 — Tokens tile the source and every reported position is faithful.
//
// Correspondence (case files evaluated by Coq, Lex/LexCheck.v):
//   c14tok_*.v    Go token stream (type, start byte, end byte) of LexConfig /
//                 LexExpression / LexTemplate vs the scanner model HclLex.hcl_scan
//   c14pos_*.v    Go Start/End (line, column, byte) with an arbitrary start
//                 position vs Positions.emit_token_cl (per-token textseg clusters)
//   c14posat_*.v  the same Go positions vs Positions.pos_at on the whole-input
//                 segmentation: the property's position oracle, in Coq
//   c14rs_*.v     (sub-command c14rs) RangeScanner ranges vs Positions.range_scanner
//   c14id_*.v     (sub-command c14id) hclsyntax.ValidIdentifier vs the identOnly scanner model
// Direct oracle (real code only, independent of the model): tiling, recount of
// every position with textseg, range fidelity of error-free parses.

import (
	"bufio"
	"bytes"
	"fmt"
	"os"
	"path/filepath"
	"strings"

	"github.com/apparentlymart/go-textseg/v15/textseg"
	"github.com/hashicorp/hcl/v2"
	"github.com/hashicorp/hcl/v2/hclsyntax"
	"github.com/zclconf/go-cty/cty"
	"golang.org/x/text/unicode/norm"
	"hclverif/hv"
)

func main() {
	hv.Main(map[string]func(*hv.RunCfg) error{"c14": runC14, "c14rs": runC14RS, "c14id": runC14ID})
}

const (
	modeConfig   = 0 // LexConfig
	modeTemplate = 1 // LexTemplate
	modeExpr     = 2 // LexExpression (same scanner as LexConfig)
)

var modeName = []string{"config", "template", "expr"}

// Coq's scanMode code: scanNormal = 0, scanTemplate = 1
func coqMode(m int) int {
	if m == modeTemplate {
		return 1
	}
	return 0
}

var utf8BOM = []byte{0xef, 0xbb, 0xbf}

// clusters returns the byte lengths of textseg's grapheme clusters of b,
// obtained exactly as emitToken obtains them.
func clusters(b []byte) []int {
	var out []int
	for len(b) > 0 {
		adv, _, _ := textseg.ScanGraphemeClusters(b, true)
		if adv <= 0 {
			adv = len(b)
		}
		out = append(out, adv)
		b = b[adv:]
	}
	return out
}

// lenHex encodes cluster lengths as a hex byte string; ok=false if one is > 255.
func lenHex(cl []int) (string, bool) {
	b := make([]byte, len(cl))
	for i, n := range cl {
		if n > 255 {
			return "", false
		}
		b[i] = byte(n)
	}
	return hv.Hexs(b), true
}

func lexReal(mode int, src []byte, start hcl.Pos) (toks hclsyntax.Tokens, panicked any) {
	defer func() { panicked = recover() }()
	switch mode {
	case modeTemplate:
		toks, _ = hclsyntax.LexTemplate(src, "f", start)
	case modeExpr:
		toks, _ = hclsyntax.LexExpression(src, "f", start)
	default:
		toks, _ = hclsyntax.LexConfig(src, "f", start)
	}
	return
}

func isBlank(b []byte) bool {
	for _, c := range b {
		if c != ' ' && c != '\t' {
			return false
		}
	}
	return true
}

// tilingOracle checks the tiling half of the property on the real tokens.
// Offsets in the tokens are absolute: start.Byte + offset into src.
func tilingOracle(src []byte, start hcl.Pos, toks hclsyntax.Tokens) (kind, detail string) {
	if len(toks) == 0 {
		return "eof-token", "no tokens at all"
	}
	prev := 0
	for i, t := range toks {
		s := t.Range.Start.Byte - start.Byte
		e := t.Range.End.Byte - start.Byte
		if s < prev || e < s || e > len(src) {
			return "tokens-overlap-or-gap", fmt.Sprintf("token %d %s [%d:%d] after end %d (len %d)", i, t.Type, s, e, prev, len(src))
		}
		gap := src[prev:s]
		if prev == 0 && bytes.HasPrefix(gap, utf8BOM) {
			gap = gap[3:]
		}
		if !isBlank(gap) {
			return "gap-not-blank", fmt.Sprintf("gap %q before token %d %s at %d", gap, i, t.Type, s)
		}
		if !bytes.Equal(t.Bytes, src[s:e]) {
			return "token-bytes-differ", fmt.Sprintf("token %d %s bytes %q, source slice %q", i, t.Type, t.Bytes, src[s:e])
		}
		if t.Type == hclsyntax.TokenEOF && i != len(toks)-1 {
			return "eof-token", fmt.Sprintf("EOF token at index %d of %d", i, len(toks))
		}
		prev = e
	}
	last := toks[len(toks)-1]
	if last.Type != hclsyntax.TokenEOF {
		return "eof-token", "last token is " + last.Type.String()
	}
	if s, e := last.Range.Start.Byte-start.Byte, last.Range.End.Byte-start.Byte; s != len(src) || e != len(src) {
		return "eof-token", fmt.Sprintf("EOF token at [%d:%d], input length %d", s, e, len(src))
	}
	return "", ""
}

// recount computes the canonical position of every cluster boundary of data,
// counting from start (the position of data[0]): a "\n" or "\r\n" cluster (or,
// with rsConv, any cluster starting with '\r' or '\n') is a line break, every
// other cluster one column. Keys are offsets into data.
func recount(data []byte, start hcl.Pos, rsConv bool) map[int]hcl.Pos {
	m := map[int]hcl.Pos{0: start}
	p := start
	off := 0
	for _, n := range clusters(data) {
		c := data[off : off+n]
		nl := (n == 1 && c[0] == '\n') || (n == 2 && c[0] == '\r' && c[1] == '\n')
		if rsConv {
			nl = c[0] == '\r' || c[0] == '\n'
		}
		if nl {
			p.Line++
			p.Column = 1
		} else {
			p.Column++
		}
		off += n
		p.Byte += n
		m[off] = p
	}
	return m
}

// positionOracle recounts every Start/End. Tokens are checked in order up to
// the first token boundary (or gap byte) that is not a cluster boundary of the
// whole input — the property's caveat. Returns the failure (if any) and
// whether all boundaries were aligned.
func positionOracle(src []byte, start hcl.Pos, toks hclsyntax.Tokens) (kind, detail string, aligned bool) {
	bom := 0
	if bytes.HasPrefix(src, utf8BOM) {
		bom = 3
	}
	data := src[bom:]
	st := start
	st.Byte += bom
	canon := recount(data, st, false)
	cur := 0
	for i, t := range toks {
		s := t.Range.Start.Byte - st.Byte
		e := t.Range.End.Byte - st.Byte
		for o := cur; o <= s; o++ {
			if _, ok := canon[o]; !ok {
				return "", "", false
			}
		}
		if want := canon[s]; want != t.Range.Start {
			return "position-differs-from-recount", fmt.Sprintf("token %d %s Start %d:%d@%d, recount %d:%d@%d", i, t.Type,
				t.Range.Start.Line, t.Range.Start.Column, t.Range.Start.Byte, want.Line, want.Column, want.Byte), true
		}
		want, ok := canon[e]
		if !ok {
			return "", "", false
		}
		if want != t.Range.End {
			return "position-differs-from-recount", fmt.Sprintf("token %d %s End %d:%d@%d, recount %d:%d@%d", i, t.Type,
				t.Range.End.Line, t.Range.End.Column, t.Range.End.Byte, want.Line, want.Column, want.Byte), true
		}
		cur = e
	}
	return "", "", true
}

// ---- range fidelity of error-free parses -----------------------------------------

type fidelity struct {
	src   []byte
	fails []hv.Failure
	nExpr int
	nStru int
	// end offsets of the TemplateInterp tokens of src (lazily computed)
	interpEnds map[int]bool
}

func (f *fidelity) slice(r hcl.Range) (string, bool) {
	if r.Start.Byte < 0 || r.End.Byte < r.Start.Byte || r.End.Byte > len(f.src) {
		return "", false
	}
	return string(f.src[r.Start.Byte:r.End.Byte]), true
}

func (f *fidelity) fail(kind, detail string) {
	f.fails = append(f.fails, hv.Failure{Kind: kind, Detail: detail, Input: string(f.src)})
}

func (f *fidelity) want(what string, r hcl.Range, ok func(string) bool, expect string) {
	f.nStru++
	s, in := f.slice(r)
	if !in {
		f.fail("structural-range-wrong", fmt.Sprintf("%s: range [%d:%d] outside the source", what, r.Start.Byte, r.End.Byte))
		return
	}
	if !ok(s) {
		f.fail("structural-range-wrong", fmt.Sprintf("%s: range [%d:%d] slices to %q, expected %s", what, r.Start.Byte, r.End.Byte, s, expect))
	}
}

func (f *fidelity) wantEq(what string, r hcl.Range, lit string) {
	f.want(what, r, func(s string) bool { return s == lit }, fmt.Sprintf("%q", lit))
}

func labelOK(label string) func(string) bool {
	return func(s string) bool {
		if s == label {
			return true // bare identifier label
		}
		if len(s) < 2 || s[0] != '"' || s[len(s)-1] != '"' {
			return false
		}
		e, diags := hclsyntax.ParseExpression([]byte(s), "l", hcl.InitialPos)
		if diags.HasErrors() {
			return false
		}
		v, vd := e.Value(nil)
		// a cty string is NFC-normalised, Block.Labels is not: compare modulo NFC (`"e\u0323\u0301"` is the literal of that label)
		return !vd.HasErrors() && v.Type() == cty.String && v.IsKnown() && !v.IsNull() && v.AsString() == norm.NFC.String(label)
	}
}

func (f *fidelity) body(b *hclsyntax.Body) {
	for _, a := range b.Attributes {
		f.wantEq("Attribute.NameRange of "+a.Name, a.NameRange, a.Name)
		f.wantEq("Attribute.EqualsRange of "+a.Name, a.EqualsRange, "=")
		if a.SrcRange.Start != a.NameRange.Start || a.SrcRange.End != a.Expr.Range().End {
			f.fail("structural-range-wrong", fmt.Sprintf("Attribute.SrcRange of %s is [%d:%d], name starts at %d and expression ends at %d",
				a.Name, a.SrcRange.Start.Byte, a.SrcRange.End.Byte, a.NameRange.Start.Byte, a.Expr.Range().End.Byte))
		}
		f.expr(a.Expr)
	}
	for _, bl := range b.Blocks {
		f.wantEq("Block.TypeRange of "+bl.Type, bl.TypeRange, bl.Type)
		if len(bl.LabelRanges) != len(bl.Labels) {
			f.fail("structural-range-wrong", fmt.Sprintf("block %s: %d labels, %d label ranges", bl.Type, len(bl.Labels), len(bl.LabelRanges)))
		} else {
			for i, l := range bl.Labels {
				f.want(fmt.Sprintf("Block.LabelRanges[%d] of %s", i, bl.Type), bl.LabelRanges[i], labelOK(l), fmt.Sprintf("the literal of label %q", l))
			}
		}
		f.wantEq("Block.OpenBraceRange of "+bl.Type, bl.OpenBraceRange, "{")
		f.wantEq("Block.CloseBraceRange of "+bl.Type, bl.CloseBraceRange, "}")
		f.body(bl.Body)
	}
}

// interpolated reports whether the template part starting at byte `at` directly
// follows a `${` / `${~` token (blanks and newlines in between allowed).
func (f *fidelity) interpolated(at int) bool {
	if f.interpEnds == nil {
		f.interpEnds = map[int]bool{}
		toks, _ := hclsyntax.LexConfig(f.src, "f", hcl.InitialPos)
		for _, t := range toks {
			if t.Type == hclsyntax.TokenTemplateInterp {
				f.interpEnds[t.Range.End.Byte] = true
			}
		}
	}
	i := at
	for i > 0 && (f.src[i-1] == ' ' || f.src[i-1] == '\t' || f.src[i-1] == '\n' || f.src[i-1] == '\r') {
		i--
	}
	return f.interpEnds[i]
}

func (f *fidelity) expr(e hclsyntax.Expression) {
	if e == nil {
		return
	}
	r := e.Range()
	s, in := f.slice(r)
	if !in {
		f.fail("structural-range-wrong", fmt.Sprintf("%T: range [%d:%d] outside the source", e, r.Start.Byte, r.End.Byte))
		return
	}
	if !strings.Contains(s, "<<") { // heredocs cannot be re-parsed from their own range (the final newline is outside it)
		f.nExpr++
		e2, diags := hclsyntax.ParseExpression([]byte(s), "e", hcl.InitialPos)
		if diags.HasErrors() {
			f.fail("expr-range-does-not-reparse", fmt.Sprintf("%T range [%d:%d] = %q does not parse: %s", e, r.Start.Byte, r.End.Byte, s, diags.Error()))
		} else if d1, d2 := hv.DumpExprS(e), hv.DumpExprS(e2); d1 != d2 {
			f.fail("expr-range-does-not-reparse", fmt.Sprintf("%T range [%d:%d] = %q re-parses to %s, original is %s", e, r.Start.Byte, r.End.Byte, s, d2, d1))
		}
	}
	switch x := e.(type) {
	case *hclsyntax.BinaryOpExpr:
		f.expr(x.LHS)
		f.expr(x.RHS)
	case *hclsyntax.UnaryOpExpr:
		f.expr(x.Val)
	case *hclsyntax.ConditionalExpr:
		f.expr(x.Condition)
		f.expr(x.TrueResult)
		f.expr(x.FalseResult)
	case *hclsyntax.ParenthesesExpr:
		f.expr(x.Expression)
	case *hclsyntax.FunctionCallExpr:
		// a namespaced name is several tokens (`ns :: f`); blanks and comments may sit between them, so
		// the range must slice to the name's tokens in order with only blanks / comments in between
		f.want("FunctionCallExpr.NameRange", x.NameRange, func(sl string) bool {
			toks, _ := hclsyntax.LexExpression([]byte(sl), "n", hcl.InitialPos)
			var sb strings.Builder
			for _, t := range toks {
				switch t.Type {
				case hclsyntax.TokenIdent, hclsyntax.TokenDoubleColon:
					sb.Write(t.Bytes)
				case hclsyntax.TokenComment, hclsyntax.TokenNewline, hclsyntax.TokenEOF:
				default:
					return false
				}
			}
			return sb.String() == x.Name
		}, fmt.Sprintf("the tokens of %q", x.Name))
		f.wantEq("FunctionCallExpr.OpenParenRange", x.OpenParenRange, "(")
		f.wantEq("FunctionCallExpr.CloseParenRange", x.CloseParenRange, ")")
		for _, a := range x.Args {
			f.expr(a)
		}
	case *hclsyntax.TupleConsExpr:
		f.wantEq("TupleConsExpr.OpenRange", x.OpenRange, "[")
		for _, a := range x.Exprs {
			f.expr(a)
		}
	case *hclsyntax.ObjectConsExpr:
		f.wantEq("ObjectConsExpr.OpenRange", x.OpenRange, "{")
		for _, it := range x.Items {
			f.expr(it.ValueExpr)
		}
	case *hclsyntax.IndexExpr:
		f.wantEq("IndexExpr.OpenRange", x.OpenRange, "[")
		f.expr(x.Collection)
		f.expr(x.Key)
	case *hclsyntax.RelativeTraversalExpr:
		f.expr(x.Source)
	case *hclsyntax.SplatExpr:
		f.expr(x.Source)
	case *hclsyntax.ForExpr:
		f.want("ForExpr.OpenRange", x.OpenRange, func(s string) bool { return s == "[" || s == "{" }, "\"[\" or \"{\"")
		f.want("ForExpr.CloseRange", x.CloseRange, func(s string) bool { return s == "]" || s == "}" }, "\"]\" or \"}\"")
		f.expr(x.CollExpr)
		f.expr(x.KeyExpr)
		f.expr(x.ValExpr)
		f.expr(x.CondExpr)
	case *hclsyntax.ScopeTraversalExpr:
		for i, st := range x.Traversal {
			switch t := st.(type) {
			case hcl.TraverseRoot:
				f.wantEq("TraverseRoot.SrcRange", t.SrcRange, t.Name)
			case hcl.TraverseAttr:
				name := t.Name
				f.want(fmt.Sprintf("TraverseAttr.SrcRange (step %d)", i), t.SrcRange,
					func(s string) bool { return strings.HasPrefix(s, ".") && strings.HasSuffix(s, name) }, "\".\" … "+name)
			case hcl.TraverseIndex:
				f.want(fmt.Sprintf("TraverseIndex.SrcRange (step %d)", i), t.SrcRange,
					func(s string) bool {
						return (strings.HasPrefix(s, "[") && strings.HasSuffix(s, "]")) || strings.HasPrefix(s, ".")
					}, "\"[\" … \"]\" or legacy \".N\"")
			}
		}
	case *hclsyntax.TemplateWrapExpr:
		f.expr(x.Wrapped)
	case *hclsyntax.TemplateExpr:
		for _, p := range x.Parts {
			if _, lit := p.(*hclsyntax.LiteralValueExpr); lit {
				continue
			}
			if f.interpolated(p.Range().Start.Byte) {
				f.expr(p)
			}
		}
	}
}

// ---- input generation -----------------------------------------------------------------

var special = []string{
	// invalid UTF-8
	"\xff", "\xc3", "\xe2\x82", "\xf0\x9f", "\x80", "\xc0\x80", "\xed\xa0\x80", "\xf8", "\xc4A", "\xf4\x90\x80\x80",
	// multi-byte; white space that bytes.TrimSpace knows (NBSP, EM SPACE, IDEOGRAPHIC SPACE, NEL, LINE SEPARATOR); ZWNBSP
	"\u00e9", "\u65e5\u672c", "\U0001F600", "\u00df", "\u00a0", "\u2003", "\u3000", "\u0085", "\u2028", "\ufeff",
	// combining / prepend / joiners
	"a\u0301", "\u0301", "e\u0323\u0301", "\u0600", "\u200d", "\u0600 ", " \u0301",
	// emoji sequences, regional indicators, skin tone
	"\U0001F468\u200d\U0001F469\u200d\U0001F467", "\U0001F3F3\ufe0f\u200d\U0001F308", "\U0001F1EF\U0001F1F5", "\U0001F1EF\U0001F1F5\U0001F1EB", "\U0001F1EF", "\U0001F44D\U0001F3FD",
	// CR/LF mixtures
	"\r", "\r\n", "\n\r", "\r\r\n", "\n", "\n\n",
	// templates
	"\"${\"a${b}\"}\"", "${", "%{", "~}", "}", "{", "\"", "$${", "%%{", "$", "%", "$$", "%%", "${~", "%{~", "$%{", "\\\"", "\\",
	// heredocs
	"<<EOT\n", "<<-EOT\n", "EOT\n", "EOT", "  EOT  \n", "EOT\u00a0\n", "EOT\r\n", "<<E\n${<<F\nx\nF\n}\nE\n", "<<EOT\r\n", "<<\u00e9\n\u00e9\n",
	// unterminated things
	"/*", "*/", "#", "//", "<<X\n",
	// BOM, NUL, tabs, control
	"\xef\xbb\xbf", "\x00", "\t", "\t\t", " \t ", "\x7f", "\v", "\f",
	// numbers, operators, identifiers
	"1.5.e-3", "1e", "1.", "0x1F", "...", "..", "=>", "::", ":::", "&&", "||", "&", "==", "!=", "<=", ">=", "<<", "a-b", "_x", "-", "~", "?", ";", "'", "`", "@",
}

func mutateBytes(r *hv.Rng, s string) string {
	b := []byte(s)
	k := 1 + r.Small(3)
	for i := 0; i < k; i++ {
		p := r.Intn(len(b) + 1)
		switch r.Intn(8) {
		case 0, 1, 2: // insert a special
			t := special[r.Intn(len(special))]
			b = append(b[:p], append([]byte(t), b[p:]...)...)
		case 3: // replace one byte by a special
			if p < len(b) {
				t := special[r.Intn(len(special))]
				b = append(b[:p], append([]byte(t), b[p+1:]...)...)
			}
		case 4: // delete a short run
			q := p + 1 + r.Intn(3)
			if q > len(b) {
				q = len(b)
			}
			b = append(b[:p], b[q:]...)
		case 5: // random byte
			if p < len(b) {
				b[p] = byte(r.Intn(256))
			}
		case 6: // truncate
			b = b[:p]
		case 7: // turn newlines into CRLF / lone CR from p on
			nl := r.Pick("\r\n", "\r", "\n\r")
			b = append(b[:p], []byte(strings.ReplaceAll(string(b[p:]), "\n", nl))...)
		}
	}
	if r.Chance(0.04) {
		b = append([]byte("\xef\xbb\xbf"), b...)
	}
	return string(b)
}

var tplChunks = []string{"a", "hello ", " ", "x y", "\u00e9", "\u65e5\u672c", "a\u0301", "\U0001F600", "\n", "\r\n", "\n\n", "\t", "$", "%", "$$", "%%", "$${", "%%{", "$${~", "$x", "%y",
	"\"", "\\", "\\n", "}", "~}", "{", "#", "//", "/*", "<<EOT\n", "EOT\n", "1.5", "$\n", "%\r\n", "$x\n", "\r", "x\ry", "$\r", "\U0001F468\u200d\U0001F469\u200d\U0001F467"}

func genTemplate(r *hv.Rng, depth int) string {
	var sb strings.Builder
	n := 1 + r.Small(7)
	for i := 0; i < n; i++ {
		switch x := r.Intn(10); {
		case x < 6:
			sb.WriteString(tplChunks[r.Intn(len(tplChunks))])
		case x < 9 || depth > 2:
			e, _ := hv.GenExprText(r)
			sb.WriteString("${" + r.Pick("", "~", " ", "~ ") + e + r.Pick("", "~", " ", " ~") + "}")
		default:
			e, _ := hv.GenExprText(r)
			if r.Chance(0.5) {
				sb.WriteString("%{ if " + e + " }" + genTemplate(r, depth+1))
				if r.Chance(0.4) {
					sb.WriteString("%{ else }" + genTemplate(r, depth+1))
				}
				sb.WriteString("%{" + r.Pick("", " ", "~") + "endif" + r.Pick("", " ", "~") + "}")
			} else {
				sb.WriteString("%{ for x in " + e + " }" + genTemplate(r, depth+1) + "%{ endfor }")
			}
		}
	}
	return sb.String()
}

func genSoup(r *hv.Rng) string {
	var sb strings.Builder
	n := 1 + r.Intn(12)
	for i := 0; i < n; i++ {
		if r.Chance(0.3) {
			sb.WriteString(r.Pick("a", "foo", "x = 1", " ", "  ", "b", "0", "12", "\"s\"", "[1, 2]", "f(x)", "a.b[0]"))
		} else {
			sb.WriteString(special[r.Intn(len(special))])
		}
	}
	return sb.String()
}

type input struct {
	src  string
	mode int
	kind string
}

func genInput(r *hv.Rng, rep *hv.Report) input {
	var in input
	addFeat := func(feat map[string]int) {
		for k, v := range feat {
			rep.Histogram["feat:"+k] += v
		}
	}
	addPos := func(feat map[string]int) {
		for k, v := range feat {
			rep.Histogram["posgen:"+k] += v
		}
		rep.Histogram["posgen:cases"]++
	}
	switch x := r.Intn(100); {
	case x < 14:
		s, feat := hv.GenConfig(r)
		addFeat(feat)
		in = input{s, modeConfig, "config"}
	case x < 31:
		// the "positions" stream (posgen.go): column != byte offset almost everywhere, ranges the parser adjusts
		s, feat := genPosConfig(r)
		addPos(feat)
		in = input{s, modeConfig, "positions-config"}
	case x < 36:
		s, feat := hv.GenExprText(r)
		addFeat(feat)
		in = input{s, modeExpr, "expr"}
	case x < 40:
		s, feat := genPosExpr(r)
		addPos(feat)
		in = input{s, modeExpr, "positions-expr"}
	case x < 50:
		in = input{genTemplate(r, 0), modeTemplate, "template"}
	case x < 70:
		s, _ := hv.GenConfig(r)
		in = input{mutateBytes(r, s), modeConfig, "config-mutated"}
	case x < 76:
		s, _ := hv.GenExprText(r)
		in = input{mutateBytes(r, s), modeExpr, "expr-mutated"}
	case x < 86:
		in = input{mutateBytes(r, genTemplate(r, 0)), modeTemplate, "template-mutated"}
	case x < 93:
		in = input{genSoup(r), modeConfig, "soup-config"}
	default:
		in = input{genSoup(r), modeTemplate, "soup-template"}
	}
	// occasionally lex a configuration as a template and vice versa
	if r.Chance(0.04) && !strings.HasPrefix(in.kind, "positions") {
		in.mode = (in.mode + 1) % 3
		in.kind += "-crossmode"
	}
	return in
}

var c14Corpus = []struct {
	mode int
	src  string
}{
	{modeConfig, "a = 1\n"},
	{modeConfig, "\xef\xbb\xbfa = 1"},
	{modeConfig, "a\rb\nc\n"},
	{modeConfig, "\"x$y$${q}\""},
	{modeConfig, "\"$"},
	{modeConfig, "\"a\\"},
	{modeConfig, "\"a\r\nb\rc\""},
	{modeConfig, "a = <<EOT\n$x\nEOT\n"},
	{modeConfig, "a = <<EOT\n$x\r\ny\nEOT\n"},
	{modeConfig, "a = <<EOT\n$x\ry\nEOT\n"},
	{modeConfig, "a = <<EOT\n$\r\ny\nEOT\n"},
	{modeConfig, "a = <<EOT\n$\n\nEOT\n"},
	{modeConfig, "a = <<EOT\nab\rcd\nEOT\n"},
	{modeConfig, "a = <<EOT\nab$"},
	{modeConfig, "a = <<EOT\n  EOT  \nb"},
	{modeConfig, "a = <<EOT\nEOT \nb"},
	{modeConfig, "a = <<EOT\n\u3000EOT\u2003\nb"},
	{modeConfig, "a = <<EOT\nEOT\v\f\nb"},
	{modeConfig, "a = <<EOT\nEOT\x85\nb"},
	{modeConfig, "a = <<EOT\r\nfoo\r\nEOT\r\nb"},
	{modeConfig, "a = <<-EOT\n foo\n EOT\nb"},
	{modeConfig, "a = <<EOT\n${<<FOO\nx\nFOO\n}\nEOT\nb"},
	{modeConfig, "a = <<EOT\nx${a}EOT\nEOT\n"},
	{modeConfig, "a = <<EOT-\nEOT-\n"},
	{modeConfig, "a = <<\xc4AOT\n\xc4AOT\n"},
	{modeConfig, "<<EOT x"},
	{modeConfig, "1.5.e-3 1. 1e 1e+ 1e+5 1.e5 1..2 0x1F 1_000"},
	{modeConfig, "#a\r\nb #c\rd\ne //x"},
	{modeConfig, "/*/ /**/ /* a */ */ /* x"},
	{modeConfig, "a~}b } ~ }"},
	{modeConfig, "x = \"${a}~}\""},
	{modeConfig, "... .. . ::: :: : => =>= == === != !== && &&& || |"},
	{modeConfig, "a\tb \t c"},
	{modeConfig, "\xc4A \xc3\xa9 \xc3 \xe2\x82\xac \xe2\x82 \xf0\x9f\x98\x80 \xf8 \x80 \xc0\x80 \xed\xa0\x80"},
	{modeConfig, "a\xef\xbb\xbfb"},
	{modeConfig, "a-b -c _d é ée á ́a"},
	{modeConfig, "@ $ \\ \x00 \x7f `x` 'y' ; ^ ~ & |"},
	{modeConfig, "x = \"👨‍👩‍👧 ${a} é́\" # 🇯🇵🇫\n"},
	{modeConfig, "block \"l\" {\n  a = f(1, [2, 3]...)\n  b = {x = y.z[0], (k) = !v}\n}\n"},
	{modeTemplate, "$x"},
	{modeTemplate, "$"},
	{modeTemplate, "a$"},
	{modeTemplate, "ab\rcd"},
	{modeTemplate, "$x\r\ny"},
	{modeTemplate, "$x\ry"},
	{modeTemplate, "$\r\ny"},
	{modeTemplate, "$\n\ny"},
	{modeTemplate, "$${~\r\ny"},
	{modeTemplate, "$%{x}"},
	{modeTemplate, "a\r"},
	{modeTemplate, "\r"},
	// a lone CR at the top level of a bare template is a one-byte literal and scanning goes on
	// (/repo 70c81c0; before, the rest of the template was one literal); below the top level
	// (heredoc inside an interpolation) the rest is still one TokenInvalid
	{modeTemplate, "a\r${x}"},
	{modeTemplate, "\r$$${"},
	{modeTemplate, "${x}\r${x}\r"},
	{modeTemplate, "\r\r\n\r"},
	{modeTemplate, "$\rX"},
	{modeTemplate, "%\r%{if true}y%{endif}"},
	{modeTemplate, "a\r\nb\rc\n$$${"},
	{modeTemplate, "${\"\r\"}\r"},
	{modeTemplate, "${<<E\n\rz\nE\n}\r${x}"},
	{modeTemplate, "${ {\r"},
	{modeTemplate, "\xef\xbb\xbfa${b}"},
	{modeTemplate, "a\x00b\xc3"},
	{modeTemplate, "${\"a\nb\"}"},
	{modeTemplate, "%{if x}a%{endif}"},
	{modeTemplate, "a${~ x ~}b"},
	{modeTemplate, "${ {a=1} } ~} }"},
	{modeTemplate, "${ \"$"},
	{modeExpr, "a ? b : c"},
	{modeExpr, "\"${\"${\"${x}\"}\"}\""},
}

// ---- the run ---------------------------------------------------------------------

func startFor(r *hv.Rng) hcl.Pos {
	if r.Chance(0.5) {
		return hcl.InitialPos
	}
	return hcl.Pos{Line: 1 + r.Intn(500), Column: 1 + r.Intn(120), Byte: r.Intn(5000)}
}

func coqTokCase(mode int, src []byte, toks hclsyntax.Tokens) string {
	items := make([]string, len(toks))
	for i, t := range toks {
		items[i] = fmt.Sprintf("(%d, %d, %d)", int(t.Type), t.Range.Start.Byte, t.Range.End.Byte)
	}
	return fmt.Sprintf("(%d, %s, %s)", coqMode(mode), hv.Hexs(src), hv.CoqList(items))
}

func coqPosCase(mode int, src []byte, start hcl.Pos, toks hclsyntax.Tokens) (string, bool) {
	data := src
	if bytes.HasPrefix(src, utf8BOM) {
		data = src[3:]
	}
	gcs, ok := lenHex(clusters(data))
	if !ok {
		return "", false
	}
	cls := make([]string, len(toks))
	items := make([]string, len(toks))
	for i, t := range toks {
		h, ok := lenHex(clusters(t.Bytes))
		if !ok {
			return "", false
		}
		cls[i] = h
		items[i] = fmt.Sprintf("T %d %d %d %d %d %d %d", int(t.Type),
			t.Range.Start.Line, t.Range.Start.Column, t.Range.Start.Byte,
			t.Range.End.Line, t.Range.End.Column, t.Range.End.Byte)
	}
	return fmt.Sprintf("PC %d (P %d %d %d) %s %s %s %s", coqMode(mode), start.Line, start.Column, start.Byte,
		hv.Hexs(src), gcs, hv.CoqList(cls), hv.CoqList(items)), true
}

func features(src []byte, rep *hv.Report) {
	s := string(src)
	has := func(k string, c bool) {
		if c {
			rep.Hist("in:" + k)
		}
	}
	has("bom", bytes.HasPrefix(src, utf8BOM))
	has("crlf", strings.Contains(s, "\r\n"))
	loneCR := false
	for i := 0; i < len(src); i++ {
		if src[i] == '\r' && (i+1 >= len(src) || src[i+1] != '\n') {
			loneCR = true
		}
	}
	has("lone-cr", loneCR)
	has("tab", strings.Contains(s, "\t"))
	has("nul", strings.Contains(s, "\x00"))
	has("zwj", strings.Contains(s, "\u200d"))
	has("combining", strings.Contains(s, "\u0301"))
	has("regional-indicator", strings.Contains(s, "\U0001F1EF"))
	has("non-ascii", func() bool {
		for _, c := range src {
			if c >= 0x80 {
				return true
			}
		}
		return false
	}())
	has("invalid-utf8", !isValidUTF8(src))
}

func isValidUTF8(b []byte) bool { return strings.ToValidUTF8(string(b), "") == string(b) }

const perShard = 150

func runC14(cfg *hv.RunCfg) error {
	rep := hv.NewReport("C14", cfg.Seed)
	rep.Rule = "inputs: hand corpus, then generated configurations / expressions / templates (hv.GenConfig, hv.GenExprText, local template generator; the positions stream of posgen.go: valid configurations / expressions with multi-byte clusters before the constructs of a line, flush heredocs indented with multi-byte white space and tabs, strip markers next to multi-byte white space, legacy splat / index traversals, CRLF, BOM), byte-level mutations of them (invalid UTF-8, multi-byte, combining, ZWJ and regional-indicator sequences, CR/LF mixtures, lone CR, nested templates and heredocs, unterminated strings/heredocs/comments, BOM, NUL, tabs) and fragment soups; LexConfig, LexExpression and LexTemplate; a random start position for half of the position cases; non-trivial = at least 3 tokens; distinct by SHA-256 of mode+input"
	r := hv.NewRng(cfg.Seed, 14)
	imports := "From Coq Require Import String.\nFrom HclV Require Import Base.Prelude Lex.Scanner Lex.Positions Lex.HclLex Lex.LexCheck."
	cfTok := &hv.CaseFile{Dir: cfg.Out, Name: "c14tok", Imports: imports, Ctype: "Z * string * list (Z * Z * Z)", Checker: "check_tok_cases"}
	cfPos := &hv.CaseFile{Dir: cfg.Out, Name: "c14pos", Imports: imports, Ctype: "pcase", Checker: "check_pos_cases"}
	// c14posat: the token positions AND (second component) every position of a node range / diagnostic range of the
	// error-free parse of the same input (start = InitialPos) whose column is defined: judged by pos_at in Coq
	cfPosAt := &hv.CaseFile{Dir: cfg.Out, Name: "c14posat", Imports: imports, Ctype: "pcase * list pos", Checker: "check_posat_node_cases"}

	var ins []input
	if cfg.Replay != "" {
		b, err := os.ReadFile(cfg.Replay)
		if err != nil {
			return err
		}
		for m := 0; m < 3; m++ {
			ins = append(ins, input{string(b), m, "replay"})
		}
	} else {
		for _, c := range c14Corpus {
			ins = append(ins, input{c.src, c.mode, "corpus"})
		}
		for _, c := range posCorpus {
			ins = append(ins, input{c, modeConfig, "corpus"})
		}
		if extra, err := filepath.Glob("/verif/corpus/C14/*"); err == nil {
			for _, p := range extra {
				if b, err := os.ReadFile(p); err == nil {
					ins = append(ins, input{string(b), modeConfig, "corpus-file"}, input{string(b), modeTemplate, "corpus-file"})
				}
			}
		}
		for i := 0; i < cfg.N; i++ {
			ins = append(ins, genInput(r, rep))
		}
	}

	fail := func(kind, detail string, in input) {
		rep.Fail(hv.Failure{Kind: kind, Detail: detail, Input: in.src, Extra: map[string]string{"mode": modeName[in.mode]}})
		rep.Hist("oracle-fail:" + kind)
	}

	for _, in := range ins {
		src := []byte(in.src)
		// token-stream case: start = InitialPos
		toks0, p0 := lexReal(in.mode, src, hcl.InitialPos)
		if p0 != nil {
			fail("panic", fmt.Sprintf("Lex (%s) panicked: %v", modeName[in.mode], p0), in)
			continue
		}
		// position case: possibly another start position
		start := startFor(r)
		toks, p1 := lexReal(in.mode, src, start)
		if p1 != nil {
			fail("panic", fmt.Sprintf("Lex (%s) with start %v panicked: %v", modeName[in.mode], start, p1), in)
			continue
		}
		posCase, ok := coqPosCase(in.mode, src, start, toks)
		if !ok {
			rep.Hist("skipped:cluster-longer-than-255-bytes")
			continue
		}
		cfTok.Add(coqTokCase(in.mode, src, toks0))
		cfPos.Add(posCase)
		var nodePoints []string // filled below; the c14posat case is added at the end of the iteration
		rep.Idx(modeName[in.mode] + ":" + in.src)
		rep.Count(modeName[in.mode]+":"+in.src, len(toks0) >= 3)
		rep.Hist("kind:" + in.kind)
		rep.Hist("mode:" + modeName[in.mode])
		if start != hcl.InitialPos {
			rep.Hist("start:arbitrary")
		}
		features(src, rep)
		for _, t := range toks0 {
			rep.Hist("tok:" + t.Type.String())
		}
		if n := len(toks0); n >= 2 && (toks0[n-2].Type == hclsyntax.TokenInvalid || toks0[n-2].Type == hclsyntax.TokenStringLit) && len(toks0[n-2].Bytes) > 1 && toks0[n-2].Range.End.Byte == len(src) {
			rep.Hist("maybe-error-state-rest-token")
		}
		if len(in.src) < 100 {
			rep.Sample(modeName[in.mode] + ":" + in.src)
		}

		// direct oracle on the real code
		okAll := true
		for _, run := range []struct {
			start hcl.Pos
			toks  hclsyntax.Tokens
		}{{hcl.InitialPos, toks0}, {start, toks}} {
			if kind, detail := tilingOracle(src, run.start, run.toks); kind != "" {
				fail(kind, detail, in)
				okAll = false
				break
			}
			kind, detail, aligned := positionOracle(src, run.start, run.toks)
			if kind != "" {
				fail(kind, detail, in)
				okAll = false
				break
			}
			if run.start == hcl.InitialPos {
				if aligned {
					rep.Hist("pos:all-boundaries-aligned")
				} else {
					rep.Hist("pos:some-boundary-inside-a-cluster")
				}
			}
		}
		// range fidelity for error-free parses
		if in.mode == modeConfig || in.mode == modeExpr {
			fd := &fidelity{src: src}
			func() {
				defer func() {
					if p := recover(); p != nil {
						fail("panic", fmt.Sprintf("parse/range walk panicked: %v", p), in)
						okAll = false
					}
				}()
				var rw *rangeWalker
				if in.mode == modeConfig {
					f, diags := hclsyntax.ParseConfig(src, "f", hcl.InitialPos)
					if !diags.HasErrors() {
						rep.Hist("parse:error-free-config")
						fd.body(f.Body.(*hclsyntax.Body))
						rw = nodeRangeOracle(src, toks0, f, diags, f.Body.(*hclsyntax.Body), nil)
					}
				} else {
					e, diags := hclsyntax.ParseExpression(src, "f", hcl.InitialPos)
					if !diags.HasErrors() {
						rep.Hist("parse:error-free-expr")
						fd.expr(e)
						rw = nodeRangeOracle(src, toks0, e, diags, nil, e)
					}
				}
				if rw != nil {
					nodePoints = rw.coqPoints()
					rw.report(rep, strings.HasPrefix(in.kind, "positions"))
					fd.fails = append(fd.fails, rw.fails...)
				} else if strings.HasPrefix(in.kind, "positions") {
					rep.Hist("posgen-parse:has-errors")
				}
			}()
			rep.Histogram["fidelity:structural-ranges-checked"] += fd.nStru
			rep.Histogram["fidelity:expression-ranges-reparsed"] += fd.nExpr
			seen := map[string]bool{}
			for _, fl := range fd.fails {
				if seen[fl.Kind+fl.Detail] {
					continue
				}
				seen[fl.Kind+fl.Detail] = true
				fl.Extra = map[string]string{"mode": modeName[in.mode]}
				rep.Fail(fl)
				rep.Hist("oracle-fail:" + fl.Kind)
				okAll = false
			}
		}
		if okAll {
			rep.Hist("oracle-ok")
		}
		cfPosAt.Add("(" + posCase + ", " + hv.CoqList(nodePoints) + ")")
	}

	var names []string
	for _, cf := range []*hv.CaseFile{cfTok, cfPos, cfPosAt} {
		n, err := cf.Flush(perShard)
		if err != nil {
			return err
		}
		names = append(names, n...)
	}
	rep.CaseFiles = names
	rep.Notes = append(rep.Notes,
		"c14tok/c14pos/c14posat shards share one case numbering (case i of each family is input i of case_index)",
		"c14posat_*.v is the property's position oracle evaluated in Coq (Go positions vs pos_at): token positions with the case's start position, and the Start/End of every node range, computed range and diagnostic range of the error-free parse (start = InitialPos) found by a reflective walk over the tree (noderanges.go); c14pos_*.v ties emit_token_cl to token.go",
		"node-range:<Type.Field> = number of ranges judged per field; lines:* = lines of error-free cases with a node starting on them / with a node start whose column differs from its byte offset in the line")
	return rep.Write(cfg.Out)
}

// ---- RangeScanner ------------------------------------------------------------------

type splitRec struct {
	adv, tok int
	prefix   bool // the token is a prefix of the bytes advanced over
}

func recording(f bufio.SplitFunc, rec *[]splitRec) bufio.SplitFunc {
	return func(data []byte, atEOF bool) (int, []byte, error) {
		adv, tok, err := f(data, atEOF)
		if !(adv == 0 && tok == nil && err == nil) && err == nil {
			*rec = append(*rec, splitRec{adv, len(tok), len(tok) == 0 || (len(data) > 0 && &tok[0] == &data[0])})
		}
		return adv, tok, err
	}
}

// scanClusters is a split function whose tokens are runs of k grapheme clusters.
func scanClusters(k int) bufio.SplitFunc {
	return func(data []byte, atEOF bool) (int, []byte, error) {
		if len(data) == 0 {
			return 0, nil, nil
		}
		n := 0
		for i := 0; i < k && n < len(data); i++ {
			adv, _, _ := textseg.ScanGraphemeClusters(data[n:], true)
			if adv <= 0 {
				break
			}
			n += adv
		}
		return n, data[:n], nil
	}
}

var rsCorpus = []string{
	"a\rb\nc\n",
	"ab\r\ncd\r\n",
	"a = 1\nb = 2\n",
	"x\n\ny",
	"é́\n日本 語\n",
	"\r",
	"a\r",
	"a\r\r\nb",
	"no newline",
	"",
}

func runC14RS(cfg *hv.RunCfg) error {
	rep := hv.NewReport("C14", cfg.Seed)
	rep.Rule = "hcl.RangeScanner over generated and mutated configuration text with bufio.ScanLines, bufio.ScanWords and a k-grapheme-cluster split function; fragments with an arbitrary start position (line, column, byte); non-trivial = at least 2 ranges"
	r := hv.NewRng(cfg.Seed, 1401)
	cf := &hv.CaseFile{Dir: cfg.Out, Name: "c14rs",
		Imports: "From Coq Require Import String.\nFrom HclV Require Import Base.Prelude Lex.Scanner Lex.Positions Lex.HclLex Lex.LexCheck.",
		Ctype:   "rcase", Checker: "check_rs_cases"}
	var srcs []string
	if cfg.Replay != "" {
		b, err := os.ReadFile(cfg.Replay)
		if err != nil {
			return err
		}
		srcs = []string{string(b)}
	} else {
		srcs = append(srcs, rsCorpus...)
		for i := 0; i < cfg.N; i++ {
			var s string
			switch r.Intn(4) {
			case 0:
				s, _ = hv.GenConfig(r)
			case 1:
				s, _ = hv.GenConfig(r)
				s = mutateBytes(r, s)
			case 2:
				s = mutateBytes(r, genTemplate(r, 0))
			default:
				s = genSoup(r)
			}
			srcs = append(srcs, s)
		}
	}
	splits := []struct {
		name string
		f    bufio.SplitFunc
	}{{"lines", bufio.ScanLines}, {"words", bufio.ScanWords}, {"clusters3", scanClusters(3)}}

	for i, s := range srcs {
		src := []byte(s)
		sp := splits[i%len(splits)]
		if cfg.Replay != "" || i < len(rsCorpus) {
			sp = splits[0]
		}
		start := hcl.InitialPos
		fragment := false
		if cfg.Replay == "" && i >= len(rsCorpus) && r.Chance(0.15) {
			// a fragment of a larger file: arbitrary line, column and byte
			start = hcl.Pos{Line: 1 + r.Intn(50), Column: 1 + r.Intn(20), Byte: 0}
			if r.Chance(0.6) {
				start.Byte = r.Intn(5000)
				fragment = true
			}
		}
		var rec []splitRec
		var ranges []hcl.Range
		var toks [][]byte
		var panicked any
		func() {
			defer func() { panicked = recover() }()
			sc := hcl.NewRangeScannerFragment(src, "f", start, recording(sp.f, &rec))
			for sc.Scan() {
				ranges = append(ranges, sc.Range())
				toks = append(toks, sc.Bytes())
			}
		}()
		in := fmt.Sprintf("%s:%d:%d:%d:%s", sp.name, start.Line, start.Column, start.Byte, s)
		if panicked != nil {
			rep.Fail(hv.Failure{Kind: "panic", Detail: fmt.Sprintf("RangeScanner (%s) panicked: %v", sp.name, panicked), Input: s})
			rep.Hist("oracle-fail:panic")
			continue
		}
		// Coq case: results and clusters of every adv slice of a successful Scan
		n := len(ranges)
		if len(rec) < n {
			rep.Fail(hv.Failure{Kind: "harness", Detail: "fewer recorded split results than ranges", Input: s})
			continue
		}
		results := make([]string, n)
		cls := make([]string, n)
		rgs := make([]string, n)
		okLen := true
		pos := 0 // sc.off
		for k := 0; k < n; k++ {
			results[k] = fmt.Sprintf("(%d, %d)", rec[k].adv, rec[k].tok)
			h, ok := lenHex(clusters(src[pos : pos+rec[k].adv]))
			okLen = okLen && ok
			cls[k] = h
			pos += rec[k].adv
			rg := ranges[k]
			rgs[k] = fmt.Sprintf("R6 %d %d %d %d %d %d", rg.Start.Line, rg.Start.Column, rg.Start.Byte, rg.End.Line, rg.End.Column, rg.End.Byte)
		}
		if !okLen {
			rep.Hist("skipped:cluster-longer-than-255-bytes")
			continue
		}
		cf.Add(fmt.Sprintf("RC (P %d %d %d) %s %s %s %s", start.Line, start.Column, start.Byte, hv.Hexs(src),
			hv.CoqList(results), hv.CoqList(cls), hv.CoqList(rgs)))
		rep.Idx(in)
		rep.Count(in, n >= 2)
		rep.Hist("split:" + sp.name)
		if len(s) < 80 {
			rep.Sample(in)
		}

		// direct oracle. (1) the whole buffer is scanned, from its first byte,
		// whatever the start position (all three split functions consume all input)
		if fragment {
			rep.Hist("fragment-with-start-byte")
		}
		if len(src) > 0 && (n == 0 || ranges[0].Start != start || pos != len(src)) {
			rep.Fail(hv.Failure{Kind: "tokens-overlap-or-gap",
				Detail: fmt.Sprintf("RangeScanner with start %d:%d@%d over a %d-byte buffer visited %d ranges covering %d bytes", start.Line, start.Column, start.Byte, len(src), n, pos), Input: in})
			rep.Hist("oracle-fail:tokens-overlap-or-gap")
			continue
		}
		// (2) every Start/End equals the recount under the lexer's (= the
		// property's) convention, up to the first misaligned boundary
		canon := recount(src, start, false) // keyed by offset into src
		okAll := true
		for k := 0; k < n; k++ {
			rg := ranges[k]
			bad := ""
			for _, p := range []hcl.Pos{rg.Start, rg.End} {
				want, aligned := canon[p.Byte-start.Byte]
				if !aligned {
					bad = "misaligned"
					break
				}
				if want != p {
					rep.Fail(hv.Failure{Kind: "position-differs-from-recount", Detail: fmt.Sprintf("range %d: %d:%d@%d, recount (newline = LF or CRLF) %d:%d@%d", k, p.Line, p.Column, p.Byte, want.Line, want.Column, want.Byte), Input: in})
					rep.Hist("oracle-fail:position-differs-from-recount")
					bad = "fail"
					break
				}
			}
			if bad != "" {
				okAll = bad == "misaligned"
				if bad == "misaligned" {
					rep.Hist("pos:some-boundary-inside-a-cluster")
				}
				break
			}
			// the range slices the buffer to the token (RangeScanner assumes
			// that the token starts where the advance starts; bufio.ScanWords
			// skips leading blanks, which is recorded but not judged here)
			so, eo := rg.Start.Byte-start.Byte, rg.End.Byte-start.Byte
			if !rec[k].prefix {
				rep.Hist("rs:token-not-at-start-of-advance")
			} else if _, ok := canon[so+len(toks[k])]; !ok {
				// the token ends inside a grapheme cluster: documented limitation
				rep.Hist("pos:some-boundary-inside-a-cluster")
			} else if so < 0 || eo > len(src) || so > eo || !bytes.Equal(src[so:eo], toks[k]) {
				rep.Fail(hv.Failure{Kind: "token-bytes-differ", Detail: fmt.Sprintf("range %d [%d:%d] does not slice the buffer to the token %q", k, so, eo, toks[k]), Input: in})
				rep.Hist("oracle-fail:token-bytes-differ")
				okAll = false
				break
			}
		}
		if okAll {
			rep.Hist("oracle-ok")
		}
	}
	names, err := cf.Flush(perShard)
	if err != nil {
		return err
	}
	rep.CaseFiles = names
	sub := filepath.Join(cfg.Out, "rs")
	if err := os.MkdirAll(sub, 0o755); err != nil {
		return err
	}
	return rep.Write(sub)
}

// ---- identOnly scanner (hclsyntax.ValidIdentifier) ----------------------------------------

// randomRune draws code points from the ranges where ID_Start / ID_Continue
// change most often, plus the whole BMP and the astral planes.
func randomRune(r *hv.Rng) rune {
	switch r.Intn(10) {
	case 0, 1:
		return rune(0x20 + r.Intn(0x5f)) // ASCII
	case 2:
		return rune(0x80 + r.Intn(0x780)) // Latin-1 .. Arabic
	case 3:
		return rune(0x800 + r.Intn(0x2800)) // Indic scripts .. punctuation
	case 4:
		return rune(0x3000 + r.Intn(0xa000)) // CJK
	case 5:
		return rune(0xd000 + r.Intn(0x3000)) // Hangul end, surrogates (become U+FFFD), private use, compatibility forms
	case 6:
		return rune(0x10000 + r.Intn(0x10000)) // SMP
	case 7:
		return rune(0x20000 + r.Intn(0xf0000)) // SIP .. plane 16
	case 8:
		return []rune{'_', '-', '0', '9', 'a', 'Z', 0x0301, 0x200d, 0xb7, 0x387, 0x1369, 0x19da, 0x2118, 0x212e, 0x309b, 0xfeff}[r.Intn(16)]
	default:
		return rune(r.Intn(0x110000))
	}
}

func runC14ID(cfg *hv.RunCfg) error {
	rep := hv.NewReport("C14", cfg.Seed)
	rep.Rule = "hclsyntax.ValidIdentifier (the identOnly scanner) on strings of 1..5 random code points drawn from all planes, raw byte strings with invalid UTF-8, and identifier-like words; 20 strings per generated case unit; non-trivial = contains a non-ASCII byte"
	r := hv.NewRng(cfg.Seed, 1402)
	cf := &hv.CaseFile{Dir: cfg.Out, Name: "c14id",
		Imports: "From Coq Require Import String.\nFrom HclV Require Import Base.Prelude Lex.Scanner Lex.Positions Lex.HclLex Lex.LexCheck.",
		Ctype:   "string * bool", Checker: "check_ident_cases"}
	var ins []string
	if cfg.Replay != "" {
		b, err := os.ReadFile(cfg.Replay)
		if err != nil {
			return err
		}
		ins = []string{string(b)}
	} else {
		ins = append(ins, "a", "_", "-", "a-b", "a b", "", "1a", "a1", "\xc4A", "\xef\xbb\xbfa", "é", "e\u0301", "\u0301", "a\xff", "\xffa", "a\n", "日本語", "a·b", "℘", "_-_")
		for i := 0; i < cfg.N*20; i++ {
			var sb strings.Builder
			switch r.Intn(6) {
			case 0: // raw bytes
				n := 1 + r.Intn(4)
				for k := 0; k < n; k++ {
					sb.WriteByte(byte(r.Intn(256)))
				}
			case 1: // identifier-like prefix, then one random rune
				sb.WriteString(r.Pick("a", "_", "foo", "x1", "é"))
				sb.WriteRune(randomRune(r))
			default:
				n := 1 + r.Small(4)
				for k := 0; k < n; k++ {
					sb.WriteRune(randomRune(r))
				}
			}
			ins = append(ins, sb.String())
		}
	}
	for _, s := range ins {
		var got bool
		var panicked any
		func() {
			defer func() { panicked = recover() }()
			got = hclsyntax.ValidIdentifier(s)
		}()
		if panicked != nil {
			rep.Fail(hv.Failure{Kind: "panic", Detail: fmt.Sprintf("ValidIdentifier panicked: %v", panicked), Input: s})
			continue
		}
		cf.Add(fmt.Sprintf("(%s, %s)", hv.Hexs([]byte(s)), hv.CoqBool(got)))
		rep.Idx(s)
		nonASCII := false
		for i := 0; i < len(s); i++ {
			if s[i] >= 0x80 {
				nonASCII = true
			}
		}
		rep.Count(s, nonASCII)
		if got {
			rep.Hist("valid-identifier")
		} else {
			rep.Hist("not-an-identifier")
		}
		// direct oracle: s is a valid identifier iff the main scanner (same
		// Ident rule) yields exactly one Ident token covering ALL of s — a
		// leading BOM, which the scanner skips, is not part of an identifier
		toks, _ := hclsyntax.LexConfig([]byte(s), "f", hcl.InitialPos)
		asConfig := len(toks) == 2 && toks[0].Type == hclsyntax.TokenIdent && toks[1].Type == hclsyntax.TokenEOF && len(toks[0].Bytes) == len(s)
		if asConfig != got {
			rep.Fail(hv.Failure{Kind: "token-bytes-differ", Detail: fmt.Sprintf("ValidIdentifier = %v but LexConfig yields one identifier token covering the whole string = %v", got, asConfig), Input: s})
			rep.Hist("oracle-fail:token-bytes-differ")
		}
	}
	names, err := cf.Flush(4000)
	if err != nil {
		return err
	}
	rep.CaseFiles = names
	sub := filepath.Join(cfg.Out, "id")
	if err := os.MkdirAll(sub, 0o755); err != nil {
		return err
	}
	return rep.Write(sub)
}
