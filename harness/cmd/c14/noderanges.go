package main

// C14 — line / column of EVERY range the parser hands out agrees with its byte offset.
//
// The range-fidelity oracle of c14.go slices the source by BYTES; a range whose
// Byte is right and whose Line or Column is wrong passes it. This file adds
//
//   posRef        an independent reference pos(src, byte) -> (line, column): the
//                 source is cut into lines at '\n'; the column of a byte is 1 + the
//                 number of textseg grapheme clusters between the start of its line
//                 and the byte. Nothing of hcl is used (no lexer, no RangeScanner,
//                 no hcl.Pos arithmetic).
//   rangeWalker   a reflective walk over the parsed tree: every struct field of type
//                 hcl.Range / *hcl.Range / []hcl.Range reachable from the root (node
//                 fields, traversal steps, template parts, object items, …) plus the
//                 computed ranges Range(), StartRange(), DefRange(),
//                 Traversal.SourceRange(), AsHCLBlock/AsHCLAttribute copies and the
//                 Subject / Context of every diagnostic of the parse (warnings) and
//                 of evaluating every attribute expression with a nil context.
//
// Conventions (the same as for tokens, see positionOracle): a leading BOM is not
// part of line 1; a line break is "\n" or "\r\n", a lone '\r' is one column; a
// column is only judged when no token boundary on the same line before the
// position (and not the position itself) lies inside a grapheme cluster — the
// property's own caveat; the line is always judged.

import (
	"fmt"
	"reflect"
	"sort"
	"unicode/utf8"

	"github.com/apparentlymart/go-textseg/v15/textseg"
	"github.com/hashicorp/hcl/v2"
	"github.com/hashicorp/hcl/v2/hclsyntax"
	"hclverif/hv"
)

type lc struct{ line, col int32 } // col == 0: the offset is not a cluster boundary

type posRef struct {
	src  []byte
	bom  int
	tab  []lc    // by byte offset, len(src)+1 entries
	line []int32 // line of every byte offset (offsets inside a cluster included)
	// first token boundary / gap byte of each line that is inside a cluster
	badOnLine map[int32]int
}

func newPosRef(src []byte) *posRef {
	p := &posRef{src: src, tab: make([]lc, len(src)+1), line: make([]int32, len(src)+1), badOnLine: map[int32]int{}}
	if len(src) >= 3 && src[0] == 0xef && src[1] == 0xbb && src[2] == 0xbf {
		p.bom = 3
	}
	ln := int32(1)
	for i := 0; i < p.bom; i++ {
		p.line[i] = 1
	}
	i := p.bom
	p.tab[i] = lc{1, 1}
	p.line[i] = 1
	for i < len(src) {
		le := len(src)
		for k := i; k < len(src); k++ {
			if src[k] == '\n' {
				le = k + 1
				break
			}
		}
		col := int32(1)
		b := src[i:le]
		o := i
		for len(b) > 0 {
			adv, _, _ := textseg.ScanGraphemeClusters(b, true)
			if adv <= 0 {
				adv = len(b)
			}
			p.tab[o] = lc{ln, col}
			for k := o; k < o+adv; k++ {
				p.line[k] = ln
			}
			o += adv
			b = b[adv:]
			col++
		}
		if src[le-1] == '\n' {
			ln++
			p.tab[le] = lc{ln, 1}
		} else {
			p.tab[le] = lc{ln, col}
		}
		p.line[le] = ln
		i = le
	}
	return p
}

// noteTokens records, per line, the first token boundary (or byte of a gap
// between tokens) that is not a cluster boundary.
func (p *posRef) noteTokens(toks hclsyntax.Tokens) {
	note := func(o int) {
		if o < p.bom || o > len(p.src) || p.tab[o].col != 0 {
			return
		}
		l := p.line[o]
		if old, ok := p.badOnLine[l]; !ok || o < old {
			p.badOnLine[l] = o
		}
	}
	prev := p.bom
	for _, t := range toks {
		s, e := t.Range.Start.Byte, t.Range.End.Byte
		if s < prev || e < s || e > len(p.src) {
			return // tiling is judged elsewhere
		}
		for o := prev; o <= s; o++ {
			note(o)
		}
		note(e)
		prev = e
	}
}

// utf8Boundary: off does not split a well-formed UTF-8 sequence of src.
func (p *posRef) utf8Boundary(off int) bool {
	if off <= 0 || off >= len(p.src) {
		return true
	}
	if !utf8.RuneStart(p.src[off]) {
		// a continuation byte: inside a sequence iff the sequence that covers it is valid
		for k := off - 1; k >= 0 && k >= off-3; k-- {
			if utf8.RuneStart(p.src[k]) {
				_, n := utf8.DecodeRune(p.src[k:])
				return !(n > 1 && k+n > off)
			}
		}
	}
	return true
}

// eligible: the column of byte offset off is defined and judged (off is a cluster
// boundary of its line and no token boundary before it on the line splits a cluster).
func (p *posRef) eligible(off int) bool {
	if off < p.bom || off > len(p.src) {
		return false
	}
	w := p.tab[off]
	if w.col == 0 {
		return false // inside a grapheme cluster: no column defined
	}
	if bad, ok := p.badOnLine[w.line]; ok && bad <= off {
		return false // a token boundary earlier on this line splits a cluster: the property's caveat
	}
	return true
}

// check judges one position. Returns a failure kind ("" = fine) and whether the
// column was judged.
func (p *posRef) check(pos hcl.Pos) (kind, detail string, colJudged bool) {
	if pos.Byte < 0 || pos.Byte > len(p.src) {
		return "node-position-outside-source", fmt.Sprintf("%d:%d@%d, source has %d bytes", pos.Line, pos.Column, pos.Byte, len(p.src)), false
	}
	if !p.utf8Boundary(pos.Byte) {
		return "node-position-inside-utf8-sequence", fmt.Sprintf("%d:%d@%d", pos.Line, pos.Column, pos.Byte), false
	}
	if pos.Byte < p.bom {
		// byte 0 of a file with a BOM: only 1:1 makes sense
		if pos.Byte != 0 || pos.Line != 1 || pos.Column != 1 {
			return "node-position-differs-from-recount", fmt.Sprintf("%d:%d@%d lies inside the BOM", pos.Line, pos.Column, pos.Byte), false
		}
		return "", "", false
	}
	colJudged = p.eligible(pos.Byte)
	wantLine := int(p.line[pos.Byte])
	insideCRLF := pos.Byte > 0 && pos.Byte < len(p.src) && p.src[pos.Byte-1] == '\r' && p.src[pos.Byte] == '\n'
	if pos.Line != wantLine && !insideCRLF {
		return "node-position-differs-from-recount", fmt.Sprintf("%d:%d@%d, recount: line %d (1 + newlines before byte %d)", pos.Line, pos.Column, pos.Byte, wantLine, pos.Byte), colJudged
	}
	if !colJudged {
		return "", "", false
	}
	if w := p.tab[pos.Byte]; pos.Column != int(w.col) {
		return "node-position-differs-from-recount", fmt.Sprintf("%d:%d@%d, recount %d:%d@%d (column = 1 + grapheme clusters since the start of the line)",
			pos.Line, pos.Column, pos.Byte, w.line, w.col, pos.Byte), true
	}
	return "", "", true
}

// ---- the reflective walk -------------------------------------------------------------------

var (
	rangeType = reflect.TypeOf(hcl.Range{})
	travType  = reflect.TypeOf(hcl.Traversal{})
)

type rangeWalker struct {
	ref      *posRef
	file     string
	seen     map[uintptr]bool
	byField  map[string]int
	nRanges  int
	nCol     int // positions whose column was judged
	nNoCol   int
	segDiff  int // judged positions that are not a boundary of the whole-input segmentation (expected: 0)
	zero     map[string]int
	fails    []hv.Failure
	failSeen map[string]bool
	pts      map[hcl.Pos]bool // positions judged in full (line and column): input of the Coq pos_at check
	// lines (by number) on which some judged range starts / starts at a column that differs from 1 + byte offset in the line
	startLines, wideLines map[int]bool
}

func newRangeWalker(ref *posRef, file string) *rangeWalker {
	return &rangeWalker{ref: ref, file: file, seen: map[uintptr]bool{}, byField: map[string]int{}, zero: map[string]int{},
		failSeen: map[string]bool{}, pts: map[hcl.Pos]bool{}, startLines: map[int]bool{}, wideLines: map[int]bool{}}
}

func (w *rangeWalker) fail(kind, detail string) {
	if w.failSeen[kind+detail] {
		return
	}
	w.failSeen[kind+detail] = true
	w.fails = append(w.fails, hv.Failure{Kind: kind, Detail: detail, Input: string(w.ref.src)})
}

func (w *rangeWalker) rng(what string, r hcl.Range) {
	if r == (hcl.Range{}) {
		w.zero[what]++
		return
	}
	w.nRanges++
	w.byField[what]++
	if r.Filename != w.file {
		w.fail("node-range-filename", fmt.Sprintf("%s: filename %q, parsed as %q", what, r.Filename, w.file))
	}
	if r.End.Byte < r.Start.Byte {
		w.fail("node-range-end-before-start", fmt.Sprintf("%s: [%d:%d]", what, r.Start.Byte, r.End.Byte))
	}
	for i, p := range []hcl.Pos{r.Start, r.End} {
		kind, detail, col := w.ref.check(p)
		if col && i == 0 {
			ls := p.Byte
			for ls > w.ref.bom && w.ref.src[ls-1] != '\n' {
				ls--
			}
			w.startLines[p.Line] = true
			if int(w.ref.tab[p.Byte].col)-1 != p.Byte-ls {
				w.wideLines[p.Line] = true
			}
		}
		if col {
			// judged in full by Go here and, independently, by pos_at in Coq (whatever Go's verdict)
			w.nCol++
			w.pts[p] = true
		} else {
			w.nNoCol++
		}
		if kind != "" {
			w.fail(kind, fmt.Sprintf("%s.%s = %s", what, [2]string{"Start", "End"}[i], detail))
		}
	}
}

func rangeOfValue(v reflect.Value) hcl.Range {
	// works on values reached through unexported fields as well (no Interface())
	pos := func(p reflect.Value) hcl.Pos {
		return hcl.Pos{Line: int(p.Field(0).Int()), Column: int(p.Field(1).Int()), Byte: int(p.Field(2).Int())}
	}
	return hcl.Range{Filename: v.Field(0).String(), Start: pos(v.Field(1)), End: pos(v.Field(2))}
}

func skipType(t reflect.Type) bool {
	switch t.PkgPath() {
	case "github.com/zclconf/go-cty/cty", "github.com/zclconf/go-cty/cty/function", "sync", "math/big", "sync/atomic":
		return true
	}
	return t.PkgPath() == "github.com/hashicorp/hcl/v2" && t.Name() == "EvalContext"
}

func typeLabel(t reflect.Type) string {
	for t.Kind() == reflect.Ptr {
		t = t.Elem()
	}
	if t.Name() != "" {
		return t.Name()
	}
	return t.String()
}

// methods: the computed ranges of a node
func (w *rangeWalker) methods(v reflect.Value) {
	if !v.CanInterface() {
		return
	}
	x := v.Interface()
	name := typeLabel(v.Type())
	if n, ok := x.(hclsyntax.Node); ok {
		w.rng(name+".Range()", n.Range())
	}
	if e, ok := x.(hclsyntax.Expression); ok {
		w.rng(name+".StartRange()", e.StartRange())
		for _, tr := range e.Variables() {
			w.rng("Variables().SourceRange()", tr.SourceRange())
		}
	}
	switch n := x.(type) {
	case *hclsyntax.Block:
		w.rng("Block.DefRange()", n.DefRange())
		hb := n.AsHCLBlock()
		w.rng("AsHCLBlock.DefRange", hb.DefRange)
		w.rng("AsHCLBlock.TypeRange", hb.TypeRange)
		for _, lr := range hb.LabelRanges {
			w.rng("AsHCLBlock.LabelRanges", lr)
		}
	case *hclsyntax.Attribute:
		ha := n.AsHCLAttribute()
		w.rng("AsHCLAttribute.Range", ha.Range)
		w.rng("AsHCLAttribute.NameRange", ha.NameRange)
	case *hclsyntax.Body:
		w.rng("Body.MissingItemRange()", n.MissingItemRange())
	}
}

func (w *rangeWalker) walk(v reflect.Value, owner string) {
	switch v.Kind() {
	case reflect.Ptr:
		if v.IsNil() {
			return
		}
		if v.Type().Elem() == rangeType {
			w.rng(owner, rangeOfValue(v.Elem()))
			return
		}
		if skipType(v.Type().Elem()) {
			return
		}
		if w.seen[v.Pointer()] {
			return
		}
		w.seen[v.Pointer()] = true
		w.methods(v)
		w.walk(v.Elem(), owner)
	case reflect.Interface:
		if !v.IsNil() {
			w.walk(v.Elem(), owner)
		}
	case reflect.Struct:
		t := v.Type()
		if t == rangeType {
			w.rng(owner, rangeOfValue(v))
			return
		}
		if skipType(t) {
			return
		}
		name := typeLabel(t)
		for i := 0; i < t.NumField(); i++ {
			w.walk(v.Field(i), name+"."+t.Field(i).Name)
		}
	case reflect.Slice, reflect.Array:
		if v.Kind() == reflect.Slice && v.IsNil() {
			return
		}
		if v.Type() == travType && v.CanInterface() && v.Len() > 0 {
			w.rng("Traversal.SourceRange()", v.Interface().(hcl.Traversal).SourceRange())
		}
		for i := 0; i < v.Len(); i++ {
			w.walk(v.Index(i), owner)
		}
	case reflect.Map:
		if v.IsNil() || skipType(v.Type().Elem()) {
			return
		}
		it := v.MapRange()
		for it.Next() {
			w.walk(it.Value(), owner)
		}
	}
}

func (w *rangeWalker) diags(what string, ds hcl.Diagnostics) {
	for _, d := range ds {
		if d.Subject != nil {
			w.rng(what+".Subject", *d.Subject)
		}
		if d.Context != nil {
			w.rng(what+".Context", *d.Context)
		}
		if d.Expression != nil {
			w.rng(what+".Expression.Range()", d.Expression.Range())
		}
	}
}

// evalDiags evaluates every attribute expression below b with a nil context and
// judges the ranges of the diagnostics ("Variables not allowed", "Function calls
// not allowed", type errors: Subject / Context are copies of, or computed from,
// node ranges).
func (w *rangeWalker) evalDiags(b *hclsyntax.Body, count *int) {
	for _, a := range b.Attributes {
		w.evalExpr(a.Expr, count)
	}
	for _, bl := range b.Blocks {
		w.evalDiags(bl.Body, count)
	}
}

func (w *rangeWalker) evalExpr(e hclsyntax.Expression, count *int) {
	defer func() {
		if p := recover(); p != nil {
			w.zero["eval-panic"]++ // not this property's business (C15)
		}
	}()
	_, ds := e.Value(nil)
	*count += len(ds)
	w.diags("eval-diag", ds)
}

// coqPoints: the fully judged positions, ascending by byte, as Coq `P l c b`.
func (w *rangeWalker) coqPoints() []string {
	ps := make([]hcl.Pos, 0, len(w.pts))
	for p := range w.pts {
		ps = append(ps, p)
	}
	sort.Slice(ps, func(i, j int) bool {
		if ps[i].Byte != ps[j].Byte {
			return ps[i].Byte < ps[j].Byte
		}
		if ps[i].Line != ps[j].Line {
			return ps[i].Line < ps[j].Line
		}
		return ps[i].Column < ps[j].Column
	})
	out := make([]string, len(ps))
	for i, p := range ps {
		out[i] = fmt.Sprintf("P %d %d %d", p.Line, p.Column, p.Byte)
	}
	return out
}

// nodeRangeOracle judges every range of one error-free parse. root is what the
// reflective walk starts from (*hcl.File or the expression).
func nodeRangeOracle(src []byte, toks hclsyntax.Tokens, root any, parseDiags hcl.Diagnostics, body *hclsyntax.Body, expr hclsyntax.Expression) *rangeWalker {
	ref := newPosRef(src)
	ref.noteTokens(toks)
	w := newRangeWalker(ref, "f")
	w.walk(reflect.ValueOf(root), "root")
	w.diags("parse-diag", parseDiags)
	nd := 0
	if body != nil {
		w.evalDiags(body, &nd)
	}
	if expr != nil {
		w.evalExpr(expr, &nd)
	}
	w.byField["(evaluation diagnostics seen)"] += nd
	// The Coq check walks the segmentation of the WHOLE input (the gcs of the case); the reference above
	// segments line by line. They are the same boundaries (a line break is always a cluster of its own);
	// should they ever differ, the position is left to the Go verdict and the difference is counted.
	whole := map[int]bool{ref.bom: true}
	o := ref.bom
	for _, n := range clusters(src[ref.bom:]) {
		o += n
		whole[o] = true
	}
	for p := range w.pts {
		if !whole[p.Byte] {
			delete(w.pts, p)
			w.segDiff++
		}
	}
	return w
}

func (w *rangeWalker) report(rep *hv.Report, posStream bool) {
	for k, v := range w.byField {
		rep.Histogram["node-range:"+k] += v
	}
	for k, v := range w.zero {
		if v > 0 {
			rep.Histogram["node-range-zero:"+k] += v
		}
	}
	rep.Histogram["node-ranges:judged"] += w.nRanges
	if w.segDiff > 0 {
		rep.Histogram["node-positions:line-wise and whole-input segmentation differ (not sent to Coq)"] += w.segDiff
	}
	rep.Histogram["node-positions:line-and-column-judged"] += w.nCol
	rep.Histogram["node-positions:line-only (inside a cluster / after a split cluster on the line / BOM)"] += w.nNoCol
	rep.Histogram["node-positions:distinct, sent to the Coq pos_at check"] += len(w.pts)
	switch n := w.nRanges; {
	case n < 10:
		rep.Hist("node-ranges-per-case:1-9")
	case n < 50:
		rep.Hist("node-ranges-per-case:10-49")
	case n < 200:
		rep.Hist("node-ranges-per-case:50-199")
	default:
		rep.Hist("node-ranges-per-case:200+")
	}
	lines := 0 // a final newline does not start another line
	for i, c := range w.ref.src {
		if c == '\n' || i == len(w.ref.src)-1 {
			lines++
		}
	}
	pre := "lines:"
	for i := 0; i < 2; i++ {
		rep.Histogram[pre+"in-error-free-cases"] += lines
		rep.Histogram[pre+"with-a-node-start"] += len(w.startLines)
		rep.Histogram[pre+"with-a-node-start-after-a-multibyte-cluster"] += len(w.wideLines)
		if !posStream {
			break
		}
		pre = "posgen-lines:"
	}
	if posStream {
		rep.Hist("posgen-parse:error-free")
	}
	if len(w.fails) > 6 {
		w.fails = w.fails[:6]
	}
}
