package main

// C14 — the "positions" generator stream: valid configurations / expressions in
// which the column of (almost) every construct differs from its byte offset in
// the line, and in which the parser ADJUSTS ranges after scanning:
//   * flush heredocs (<<-) whose indentation is made of / contains multi-byte
//     white space (NBSP, EM SPACE, IDEOGRAPHIC SPACE, NEL, LINE SEPARATOR …) and
//     tabs, first line a literal or an interpolation, nested in blocks, object
//     constructors, tuples and calls;
//   * templates with strip markers (~) around multi-byte white space;
//   * legacy splat / legacy index / full splat / index traversals;
//   * CRLF line ends, BOM at file start;
//   * multi-byte characters, combining sequences, ZWJ / flag / skin-tone emoji in
//     comments, string literals, identifiers and labels BEFORE constructs on the
//     same line.
// Histogram keys: posgen:<feature>.

import (
	"strings"

	"hclverif/hv"
)

var wideText = []string{"\u00e9", "\u65e5\u672c", "a\u0301", "\U0001F468\u200d\U0001F469\u200d\U0001F467", "\U0001F1EF\U0001F1F5", "\U0001F44D\U0001F3FD",
	"e\u0323\u0301", "\u00df", "\U0001F600", "\u00a0", "\u2003", "\u3000", "\U0001F3F3\ufe0f\u200d\U0001F308", "\ud55c\uad6d", "\u0600\u0967"}
var wideIdent = []string{"\u00fcn\u00ef", "\u65e5\u672c", "a\u0301b", "\u00e91", "\u00df_x", "\u540d\u524d", "k\u0323\u0301"}
var wideSpace = []string{"\u00a0", "\u2003", "\u3000", "\u2002", "\u1680", "\u0085", "\u2028", "\u205f"}
var asciiIdent = []string{"a", "b", "foo", "bar", "x1", "a-b", "_u", "count", "tags", "k_2"}

type posGen struct {
	r       *hv.Rng
	nl      string
	feat    map[string]int
	depth   int
	wide    float64 // probability of a wide choice
	heredoc int     // heredocs written so far
}

func (g *posGen) f(k string) { g.feat[k]++ }

func (g *posGen) wideChunk() string { return wideText[g.r.Intn(len(wideText))] }

func (g *posGen) ident() string {
	if g.r.Chance(g.wide * 0.6) {
		g.f("wide-identifier")
		return wideIdent[g.r.Intn(len(wideIdent))]
	}
	return asciiIdent[g.r.Intn(len(asciiIdent))]
}

// lead: something with a multi-byte cluster that may stand before a construct
// where blanks may stand: an inline comment.
func (g *posGen) lead() string {
	if g.r.Chance(g.wide * 0.5) {
		g.f("wide-inline-comment-before-node")
		return "/*" + g.wideChunk() + g.r.Pick("", " x", g.wideChunk()) + "*/" + g.r.Pick("", " ", "\t")
	}
	return ""
}

func (g *posGen) blanks() string { return g.r.Pick("", " ", " ", "  ", "\t", " \t") }

// space: white space inside a template literal (what strip markers remove)
func (g *posGen) tplSpace() string {
	var sb strings.Builder
	n := 1 + g.r.Small(3)
	wide := false
	for i := 0; i < n; i++ {
		switch x := g.r.Intn(10); {
		case x < 5:
			sb.WriteString(wideSpace[g.r.Intn(len(wideSpace))])
			wide = true
		case x < 7:
			sb.WriteString("\t")
		default:
			sb.WriteString(" ")
		}
	}
	if wide {
		g.f("template-multibyte-white-space")
	}
	return sb.String()
}

func (g *posGen) literalChunk(heredoc bool) string {
	if g.r.Chance(g.wide) {
		return g.wideChunk() + g.r.Pick("", "x", " ", g.wideChunk())
	}
	c := g.r.Pick("a", "hello ", "x y", "1.5", "{", "}", "#", "//", "'", "$$", "%%", "lit", "\\n", "\\\"", "\\\\", "$${x}", "%%{y}")
	if heredoc && strings.HasPrefix(c, "\\") {
		c = "back\\slash"
	}
	return c
}

// templateParts writes the inside of a quoted template or one heredoc line.
func (g *posGen) templateParts(heredoc bool, n int) string {
	var sb strings.Builder
	for i := 0; i < n; i++ {
		switch x := g.r.Intn(12); {
		case x < 5:
			sb.WriteString(g.literalChunk(heredoc))
		case x < 9 || g.depth > 3:
			// interpolation, possibly with strip markers next to (multi-byte) white space
			l, r := "", ""
			if g.r.Chance(0.4) {
				l = "~"
				sb.WriteString(g.tplSpace())
				g.f("strip-marker")
			}
			if g.r.Chance(0.4) {
				r = "~"
				g.f("strip-marker")
			}
			sb.WriteString("${" + l + g.blanks() + g.exprNoHeredoc() + g.blanks() + r + "}")
			if r != "" {
				sb.WriteString(g.tplSpace())
			}
		default:
			g.depth++
			c := g.exprNoHeredoc()
			lm, rm := g.r.Pick("", "~"), g.r.Pick("", "~")
			if g.r.Chance(0.5) {
				g.f("template-if")
				sb.WriteString("%{" + lm + " if " + c + " " + rm + "}" + g.tplSpace() + g.templateParts(heredoc, 1+g.r.Small(2)))
				if g.r.Chance(0.4) {
					sb.WriteString(g.tplSpace() + "%{" + g.r.Pick("", "~") + " else " + g.r.Pick("", "~") + "}" + g.tplSpace() + g.templateParts(heredoc, 1))
				}
				sb.WriteString(g.tplSpace() + "%{" + g.r.Pick("", "~") + " endif " + g.r.Pick("", "~") + "}")
			} else {
				g.f("template-for")
				sb.WriteString("%{" + lm + " for " + g.r.Pick("v", "k, v", "\u540d\u524d") + " in " + c + " " + rm + "}" + g.tplSpace() + g.templateParts(heredoc, 1+g.r.Small(2)) +
					"%{" + g.r.Pick("", "~") + " endfor " + g.r.Pick("", "~") + "}")
			}
			g.depth--
		}
		if s := sb.String(); strings.HasSuffix(s, "$") || strings.HasSuffix(s, "%") {
			sb.WriteString(" ")
		}
	}
	return sb.String()
}

// guardSigil: a literal ending in `$` or `%` must not run into a following `{`, `${` or `%{`.
func guardSigil(s string) string {
	if strings.HasSuffix(s, "$") || strings.HasSuffix(s, "%") {
		return s + " "
	}
	return s
}

func (g *posGen) quoted() string {
	g.f("quoted-template")
	return "\"" + g.templateParts(false, g.r.Small(5)) + "\""
}

// indentation of a heredoc line: blanks, tabs and multi-byte white space
func (g *posGen) indentation(min int, wide bool) string {
	var sb strings.Builder
	n := min + g.r.Small(4)
	for i := 0; i < n; i++ {
		switch x := g.r.Intn(10); {
		case wide && x < 5:
			sb.WriteString(wideSpace[g.r.Intn(len(wideSpace))])
		case x < 7:
			sb.WriteString(" ")
		default:
			sb.WriteString("\t")
		}
	}
	return sb.String()
}

// heredoc writes `<<[-]MARKER NL lines… closer NL` (the newline after the closer included).
func (g *posGen) heredocExpr(where string) string {
	g.heredoc++
	g.f("heredoc")
	g.f("heredoc-in-" + where)
	marker := g.r.Pick("EOT", "EOF", "E_1", "\u7d42")
	flush := g.r.Chance(0.75)
	wide := g.r.Chance(0.7)
	var sb strings.Builder
	if flush {
		sb.WriteString("<<-" + marker + g.nl)
		g.f("flush-heredoc")
		if wide {
			g.f("flush-heredoc-multibyte-indentation")
		}
	} else {
		sb.WriteString("<<" + marker + g.nl)
	}
	lines := 1 + g.r.Small(4)
	minIndent := 0
	if g.r.Chance(0.8) {
		minIndent = 1 + g.r.Intn(3)
	}
	for i := 0; i < lines; i++ {
		if i > 0 && g.r.Chance(0.12) {
			// a blank line (does not count for the common indentation)
			sb.WriteString(g.r.Pick("", " ", "\u3000\t") + g.nl)
			g.f("heredoc-blank-line")
			continue
		}
		sb.WriteString(g.indentation(minIndent, wide))
		first := ""
		switch x := g.r.Intn(10); {
		case x < 5:
			// first thing on the line is a literal
			first = "literal"
			sb.WriteString(guardSigil(g.literalChunk(true)) + g.templateParts(true, g.r.Small(3)))
		case x < 8:
			first = "interpolation"
			sb.WriteString("${" + g.r.Pick("", "~") + g.exprNoHeredoc() + g.r.Pick("", "~") + "}" + g.templateParts(true, g.r.Small(3)))
		case x < 9:
			first = "directive"
			sb.WriteString("%{ if " + g.exprNoHeredoc() + " }" + guardSigil(g.literalChunk(true)) + "%{ endif }" + g.templateParts(true, g.r.Small(2)))
		default:
			first = "nothing"
		}
		if i == 0 && flush {
			g.f("flush-heredoc-first-line-" + first)
		}
		sb.WriteString(g.nl)
	}
	if flush {
		sb.WriteString(g.indentation(0, wide && g.r.Chance(0.3)))
	} else if g.r.Chance(0.2) {
		sb.WriteString(g.indentation(1, false))
	}
	sb.WriteString(marker + g.nl)
	return sb.String()
}

func (g *posGen) traversal() string {
	var sb strings.Builder
	n := 1 + g.r.Small(4)
	afterLegacySplat := false
	for i := 0; i < n; i++ {
		x := g.r.Intn(20)
		if afterLegacySplat && x >= 14 && x < 17 {
			x = 17 // `.*` directly after an attribute-only splat is "nested splat": take the full splat
		}
		if x >= 14 && x < 17 {
			afterLegacySplat = true
		} else if x >= 6 && x < 12 || x >= 17 {
			afterLegacySplat = false // a bracket ends the attribute-only splat; `.name` / `.0` steps are still inside it
		}
		switch {
		case x < 6:
			sb.WriteString("." + g.ident())
		case x < 8:
			sb.WriteString("[" + g.r.Pick("0", "1", "12") + "]")
		case x < 10:
			g.f("index-string-key")
			sb.WriteString("[\"" + g.wideChunk() + "\"]")
		case x < 12:
			g.f("index-expression")
			sb.WriteString("[" + g.lead() + g.exprNoHeredoc() + "]")
		case x < 14:
			g.f("legacy-index")
			sb.WriteString("." + g.r.Pick("0", "1", "7"))
			if i < n-1 || g.r.Chance(0.5) {
				sb.WriteString("." + g.ident()) // `.0.1` would be the number 0.1
			}
		case x < 17:
			g.f("legacy-splat")
			sb.WriteString(".*")
			for k := g.r.Small(3); k > 0; k-- {
				if g.r.Chance(0.3) {
					g.f("legacy-splat-legacy-index")
					sb.WriteString("." + g.r.Pick("0", "2"))
					if k > 1 || i < n-1 || g.r.Chance(0.5) {
						sb.WriteString("." + g.ident())
					}
				} else {
					sb.WriteString("." + g.ident())
				}
			}
		default:
			g.f("full-splat")
			sb.WriteString("[*]")
			for k := g.r.Small(3); k > 0; k-- {
				sb.WriteString(g.r.Pick("."+g.ident(), "[0]", "[\""+g.wideChunk()+"\"]"))
			}
		}
	}
	return sb.String()
}

func (g *posGen) exprNoHeredoc() string { return g.expr(false, "") }

// sep: separator inside brackets (newlines allowed there)
func (g *posGen) sep() string {
	if g.r.Chance(0.25) {
		return g.blanks() + g.nl + g.blanks()
	}
	return g.r.Pick("", " ", " ")
}

// expr writes an expression; heredocOK: a heredoc may be the LAST thing written
// (the caller copes with the newline that ends it); where names the place.
func (g *posGen) expr(heredocOK bool, where string) string {
	g.depth++
	defer func() { g.depth-- }()
	if heredocOK && g.r.Chance(0.35) {
		return g.heredocExpr(where)
	}
	c := g.r.Intn(26)
	if g.depth > 3 {
		c = g.r.Intn(9)
	}
	switch {
	case c < 2:
		return g.r.Pick("1", "0", "12.5", "1e3", "true", "null")
	case c < 6:
		return g.ident() + g.traversal()
	case c < 9:
		s := g.quoted()
		if g.r.Chance(0.15) {
			s += g.traversal()
		}
		return s
	case c < 12:
		g.f("tuple")
		var sb strings.Builder
		sb.WriteString("[")
		n := g.r.Small(4)
		for i := 0; i < n; i++ {
			sb.WriteString(g.sep() + g.lead())
			if g.r.Chance(0.12) {
				sb.WriteString(g.heredocExpr("tuple") + g.blanks())
			} else {
				sb.WriteString(g.exprNoHeredoc() + g.sep())
			}
			if i < n-1 || g.r.Chance(0.2) {
				sb.WriteString(",")
			}
		}
		sb.WriteString(g.sep() + "]")
		if g.r.Chance(0.2) {
			sb.WriteString(g.traversal())
		}
		return sb.String()
	case c < 15:
		return g.object()
	case c < 18:
		g.f("call")
		var sb strings.Builder
		sb.WriteString(g.r.Pick("f", "upper", "ns::f", "a::b::c", "\u00fcn\u00ef", "\u540d\u524d::f") + "(")
		n := g.r.Small(3)
		for i := 0; i < n; i++ {
			sb.WriteString(g.sep() + g.lead())
			if g.r.Chance(0.12) {
				sb.WriteString(g.heredocExpr("call") + g.blanks())
			} else {
				sb.WriteString(g.exprNoHeredoc() + g.sep())
			}
			if i < n-1 {
				sb.WriteString(",")
			} else if g.r.Chance(0.2) {
				sb.WriteString("...")
			}
		}
		sb.WriteString(")")
		if g.r.Chance(0.2) {
			sb.WriteString(g.traversal())
		}
		return sb.String()
	case c < 19:
		return "(" + g.sep() + g.lead() + g.exprNoHeredoc() + g.sep() + ")" + g.r.Pick("", "", g.traversal())
	case c < 21:
		g.f("for-expr")
		kv := g.r.Pick("v", "k, v", "\u540d\u524d, v")
		coll := g.exprNoHeredoc()
		cond := ""
		if g.r.Chance(0.4) {
			cond = " " + g.sep() + "if " + g.lead() + g.exprNoHeredoc()
		}
		if g.r.Chance(0.5) {
			return "[" + g.sep() + "for " + kv + " in " + g.lead() + coll + " :" + g.sep() + g.lead() + g.exprNoHeredoc() + cond + g.sep() + "]"
		}
		return "{" + g.sep() + "for " + kv + " in " + g.lead() + coll + " :" + g.sep() + g.exprNoHeredoc() + " => " + g.lead() + g.exprNoHeredoc() + g.r.Pick("", "...") + cond + g.sep() + "}"
	case c < 23:
		g.f("binary-op")
		return g.exprNoHeredoc() + " " + g.r.Pick("+", "-", "*", "==", "&&", "||", "<=", "%") + " " + g.lead() + g.exprNoHeredoc()
	case c < 24:
		g.f("conditional")
		return g.exprNoHeredoc() + " ? " + g.lead() + g.exprNoHeredoc() + " : " + g.lead() + g.exprNoHeredoc()
	case c < 25:
		return g.r.Pick("!", "-") + g.lead() + g.exprNoHeredoc()
	default:
		return g.ident()
	}
}

func (g *posGen) object() string {
	g.f("object")
	var sb strings.Builder
	sb.WriteString("{")
	n := g.r.Small(4)
	multiline := g.r.Chance(0.6)
	for i := 0; i < n; i++ {
		if multiline {
			sb.WriteString(g.nl + g.r.Pick("  ", "\t", "    ", ""))
		} else {
			sb.WriteString(" ")
		}
		sb.WriteString(g.lead())
		switch x := g.r.Intn(10); {
		case x < 4:
			sb.WriteString(g.ident())
		case x < 7:
			sb.WriteString("\"" + g.wideChunk() + g.r.Pick("", "k") + "\"")
		case x < 8:
			sb.WriteString("(" + g.exprNoHeredoc() + ")")
		default:
			sb.WriteString(g.quoted())
		}
		sb.WriteString(g.r.Pick(" = ", " : ", "=", " =\t") + g.lead())
		if multiline && g.r.Chance(0.3) {
			sb.WriteString(strings.TrimSuffix(g.heredocExpr("object"), g.nl)) // the newline is the item separator
			continue
		}
		sb.WriteString(g.exprNoHeredoc())
		if !multiline && i < n-1 {
			sb.WriteString(",")
		} else if g.r.Chance(0.3) {
			sb.WriteString(",")
		}
	}
	if multiline && n > 0 {
		sb.WriteString(g.nl)
	} else {
		sb.WriteString(" ")
	}
	sb.WriteString("}")
	return sb.String()
}

func (g *posGen) lineEnd() string {
	if g.r.Chance(0.2) {
		return g.blanks() + g.r.Pick("#", "//") + g.wideChunk() + " c" + g.nl
	}
	return g.blanks() + g.nl
}

func (g *posGen) attr(ind, name, where string) string {
	g.f("attribute")
	s := ind + g.lead() + name + g.r.Pick(" = ", "=", "  =  ", "\t= ") + g.lead()
	e := g.expr(true, where)
	if strings.HasSuffix(e, g.nl) && strings.Contains(e, "<<") && (strings.HasPrefix(e, "<<")) {
		return s + e // a heredoc: its own newline ends the attribute
	}
	return s + e + g.lineEnd()
}

func (g *posGen) label() string {
	switch g.r.Intn(4) {
	case 0:
		return g.ident()
	case 1:
		return "\"" + g.wideChunk() + "\""
	case 2:
		return "\"l " + g.wideChunk() + g.wideChunk() + "\""
	default:
		return "\"lbl\""
	}
}

func (g *posGen) body(level int) string {
	var sb strings.Builder
	n := 1 + g.r.Small(4)
	ind := strings.Repeat(g.r.Pick("  ", "\t", " "), level)
	used := map[string]bool{}
	for i := 0; i < n; i++ {
		if g.r.Chance(0.1) {
			sb.WriteString(ind + g.r.Pick("#", "//") + " " + g.wideChunk() + g.nl)
		}
		if level < 3 && g.r.Chance(0.3) {
			g.f("block")
			sb.WriteString(ind + g.lead() + g.ident())
			for k := g.r.Small(3); k > 0; k-- {
				sb.WriteString(" " + g.lead() + g.label())
			}
			sb.WriteString(" " + g.lead() + "{")
			switch x := g.r.Intn(10); {
			case x < 1:
				sb.WriteString("}" + g.lineEnd())
			case x < 3:
				g.f("one-line-block")
				sb.WriteString(" " + g.lead() + g.ident() + " = " + g.lead() + g.exprOneLine() + " }" + g.lineEnd())
			default:
				sb.WriteString(g.lineEnd() + g.body(level+1) + ind + g.lead() + "}" + g.lineEnd())
			}
		} else {
			where := "attribute"
			if level > 0 {
				where = "block"
			}
			// attribute names are unique within a body
			nm := g.ident()
			for k := 0; used[nm] && k < 6; k++ {
				nm = g.ident()
			}
			if used[nm] {
				continue
			}
			used[nm] = true
			sb.WriteString(g.attr(ind, nm, where))
		}
	}
	return sb.String()
}

// exprOneLine: an expression without any newline (one-line blocks)
func (g *posGen) exprOneLine() string {
	for i := 0; i < 8; i++ {
		e := g.exprNoHeredoc()
		if !strings.ContainsAny(e, "\r\n") {
			return e
		}
	}
	return "\"" + g.wideChunk() + "\""
}

func newPosGen(r *hv.Rng) *posGen {
	g := &posGen{r: r, nl: "\n", feat: map[string]int{}, wide: []float64{0.5, 0.7, 0.9}[r.Intn(3)]}
	if r.Chance(0.25) {
		g.nl = "\r\n"
		g.f("crlf")
	}
	return g
}

// maxPosInput bounds the size of one generated input (the recursive grammar has a
// long tail; every byte is evaluated three times by the Coq checkers).
const maxPosInput = 1200

func genPosConfig(r *hv.Rng) (string, map[string]int) {
	s, feat := genPosConfig1(r)
	for i := 0; i < 4 && len(s) > maxPosInput; i++ {
		s, feat = genPosConfig1(r)
	}
	return s, feat
}

func genPosConfig1(r *hv.Rng) (string, map[string]int) {
	g := newPosGen(r)
	var sb strings.Builder
	if r.Chance(0.12) {
		sb.WriteString("\xef\xbb\xbf")
		g.f("bom")
	}
	sb.WriteString(g.body(0))
	s := sb.String()
	if t := strings.TrimRight(s, "\r\n"); r.Chance(0.1) && !strings.HasSuffix(t, "EOT") && !strings.HasSuffix(t, "EOF") && !strings.HasSuffix(t, "E_1") && !strings.HasSuffix(t, "\u7d42") {
		s = strings.TrimSuffix(s, g.nl)
		g.f("no-final-newline")
	}
	return s, g.feat
}

func genPosExpr(r *hv.Rng) (string, map[string]int) {
	g := newPosGen(r)
	s := g.lead() + g.exprNoHeredoc()
	for i := 0; i < 4 && len(s) > maxPosInput/2; i++ {
		g = newPosGen(r)
		s = g.lead() + g.exprNoHeredoc()
	}
	return s, g.feat
}

// hand corpus for the node-position oracle (error-free; every one has a range
// whose column differs from its byte offset in the line)
var posCorpus = []string{
	// flush heredocs, indentation with multi-byte white space, first line a literal
	"a = <<-EOT\n\u00a0\u00a0x\n\u00a0\u00a0y\n  EOT\n",
	"a = <<-EOT\n\u3000\tfoo ${b}\n\u3000\t  bar\n\tEOT\n",
	"blk \"\u65e5\u672c\" {\n  o = {\n    k = <<-EOT\n\t\u2003\u00e9 ${v}\n\t\u2003${w}\n    EOT\n  }\n}\n",
	// first line an interpolation, second a literal; CRLF
	"a = <<-E\r\n \u2003${x}\r\n \u2003\u2003y\r\n E\r\n",
	// strip markers around multi-byte white space
	"a = \"\u00e9\u3000${~ b ~}\u00a0\u2003x%{ if c ~}\u3000y\u2003%{~ endif }\"\n",
	// legacy splat / legacy index / full splat after wide text on the line
	"a = [\"\u65e5\u672c\", foo.*.bar.0.baz, \"\U0001f468\u200d\U0001f469\u200d\U0001f467\", foo.0.\u00fcn\u00ef, x[*].a[\"\u00e9\"]] # \U0001f1ef\U0001f1f5\n",
	// BOM, comment with ZWJ emoji before the attribute on its line
	"\xef\xbb\xbf/*\U0001f468\u200d\U0001f469\u200d\U0001f467*/ a = f(\"\u00e9\u0301\", [for k, v in m : \"${k}\u00e9\" if v]...)\n",
	"/*\u00e9*/ \u00fcn\u00ef /*\u65e5\u672c*/ \"l \u00e9\" /*\U0001f1ef\U0001f1f5*/ {/*\u00df*/ a = {\"\ud55c\uad6d\" = \u540d\u524d::f(x), (k) = !v} }\n",
}
