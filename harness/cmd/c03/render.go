package main

// Rendering: configurations as native-syntax text, JSON trees as JSON text (with
// whitespace and escape variation), and JSON text read back — by encoding/json's
// tokenizer, independently of hcl — as a Coq term of Body/Json.v [jvalue].

import (
	"bytes"
	"encoding/json"
	"fmt"
	"io"
	"strings"
	"unicode/utf8"

	"hclverif/hv"
)

// ---- native ---------------------------------------------------------------------------

var keywords = map[string]bool{"true": true, "false": true, "null": true, "for": true, "if": true, "in": true, "else": true, "endif": true, "endfor": true}

func isIdent(s string) bool {
	if s == "" {
		return false
	}
	for i, c := range s {
		if !(c == '_' || (c >= 'a' && c <= 'z') || (c >= 'A' && c <= 'Z') || (i > 0 && (c == '-' || (c >= '0' && c <= '9')))) {
			return false
		}
	}
	return true
}

// nativeQuote renders s as a quoted template consisting of one literal.
func nativeQuote(s string) string {
	var b strings.Builder
	b.WriteByte('"')
	for i := 0; i < len(s); i++ {
		c := s[i]
		switch {
		case c == '"':
			b.WriteString(`\"`)
		case c == '\\':
			b.WriteString(`\\`)
		case c == '\n':
			b.WriteString(`\n`)
		case c == '\t':
			b.WriteString(`\t`)
		case c == '\r':
			b.WriteString(`\r`)
		case (c == '$' || c == '%') && i+1 < len(s) && s[i+1] == '{':
			b.WriteByte(c)
			b.WriteByte(c)
		default:
			b.WriteByte(c)
		}
	}
	b.WriteByte('"')
	return b.String()
}

func nativeLit(l *Lit, r *hv.Rng) string {
	switch l.K {
	case "s":
		return nativeQuote(l.S)
	case "n":
		return l.Num
	case "b":
		if l.B {
			return "true"
		}
		return "false"
	case "z":
		return "null"
	case "a":
		var ps []string
		for _, e := range l.Elems {
			ps = append(ps, nativeLit(e, r))
		}
		s := strings.Join(ps, ", ")
		if len(ps) > 0 && r.Chance(0.2) {
			s += ","
		}
		return "[" + s + "]"
	case "o":
		var ps []string
		for i, e := range l.Elems {
			k := l.Keys[i]
			ks := nativeQuote(k)
			if isIdent(k) && !keywords[k] && !strings.Contains(k, "-") && r.Chance(0.6) {
				ks = k
			}
			sep := " = "
			if r.Chance(0.25) {
				sep = ": "
			}
			ps = append(ps, ks+sep+nativeLit(e, r))
		}
		if len(ps) == 0 {
			return "{}"
		}
		return "{ " + strings.Join(ps, ", ") + " }"
	}
	panic("lit kind")
}

func renderNative(c *Cfg, r *hv.Rng) string {
	var sb strings.Builder
	renderNativeBody(&sb, c, 0, r)
	return sb.String()
}

func renderNativeBody(sb *strings.Builder, c *Cfg, d int, r *hv.Rng) {
	ind := strings.Repeat("  ", d)
	for i := range c.Items {
		it := &c.Items[i]
		if r.Chance(0.08) {
			sb.WriteString(ind + r.Pick("# a comment", "// another", "/* block */") + "\n")
		}
		if r.Chance(0.08) {
			sb.WriteString("\n")
		}
		sb.WriteString(ind)
		if it.IsAttr() {
			eq := " = "
			if r.Chance(0.2) {
				eq = "="
			}
			sb.WriteString(it.Attr + eq + nativeLit(it.Val, r) + "\n")
			continue
		}
		sb.WriteString(it.Type)
		for _, l := range it.Labels {
			if isIdent(l) && r.Chance(0.3) {
				sb.WriteString(" " + l)
			} else {
				sb.WriteString(" " + nativeQuote(l))
			}
		}
		if len(it.Body.Items) == 0 && r.Chance(0.5) {
			sb.WriteString(" {}\n")
			continue
		}
		sb.WriteString(" {\n")
		renderNativeBody(sb, it.Body, d+1, r)
		sb.WriteString(ind + "}\n")
	}
}

// ---- JSON text --------------------------------------------------------------------------

func sp(sb *strings.Builder, r *hv.Rng) {
	if r.Chance(0.3) {
		sb.WriteString([]string{" ", "\n", "  ", "\t", "\r\n"}[r.Intn(5)])
	}
}

func jsonQuote(s string, r *hv.Rng) string {
	var b strings.Builder
	b.WriteByte('"')
	for _, c := range s {
		switch {
		case c == '"':
			b.WriteString(`\"`)
		case c == '\\':
			b.WriteString(`\\`)
		case c == '\n':
			b.WriteString(`\n`)
		case c == '\t':
			b.WriteString(`\t`)
		case c == '\r':
			b.WriteString(`\r`)
		case c < 0x20:
			fmt.Fprintf(&b, `\u%04x`, c)
		case c == '/' && r.Chance(0.3):
			b.WriteString(`\/`)
		case c == utf8.RuneError:
			b.WriteRune(c)
		case (c > 0x7e && c < 0x10000 && r.Chance(0.3)) || c == 0xfeff:
			fmt.Fprintf(&b, `\u%04X`, c)
		default:
			b.WriteRune(c)
		}
	}
	b.WriteByte('"')
	return b.String()
}

func writeJSON(sb *strings.Builder, n *jn, r *hv.Rng) {
	switch n.kind {
	case 'o':
		sb.WriteString("{")
		for i, m := range n.mem {
			if i > 0 {
				sb.WriteString(",")
			}
			sp(sb, r)
			sb.WriteString(jsonQuote(m.name, r))
			sp(sb, r)
			sb.WriteString(":")
			sp(sb, r)
			writeJSON(sb, m.val, r)
		}
		sp(sb, r)
		sb.WriteString("}")
	case 'a':
		sb.WriteString("[")
		for i, e := range n.elems {
			if i > 0 {
				sb.WriteString(",")
			}
			sp(sb, r)
			writeJSON(sb, e, r)
		}
		sp(sb, r)
		sb.WriteString("]")
	case 's':
		sb.WriteString(jsonQuote(n.s, r))
	case 'n':
		sb.WriteString(n.s)
	case 'z':
		sb.WriteString("null")
	case 'b':
		if n.b {
			sb.WriteString("true")
		} else {
			sb.WriteString("false")
		}
	}
}

func renderJSON(root *jn, r *hv.Rng) string {
	var sb strings.Builder
	sp(&sb, r)
	writeJSON(&sb, root, r)
	sb.WriteString("\n")
	return sb.String()
}

// ---- JSON text -> Coq jvalue ---------------------------------------------------------------

// unescT undoes escT. NOT applied to the JSON value handed to the Coq model any more
// (coqJValue is called with tmpl=false): which property names are templates depends on how
// the schema reads them — keys of object VALUES are, attribute names / block types / labels
// are not — so the un-escaping is done by the checker at evaluation (json_sem_t).
func unescT(s string, tmpl bool) string {
	if !tmpl {
		return s
	}
	s = strings.ReplaceAll(s, "$${", "${")
	return strings.ReplaceAll(s, "%%{", "%{")
}

type jparser struct {
	dec  *json.Decoder
	tmpl bool
}

func (p *jparser) value(tok json.Token) (string, error) {
	switch v := tok.(type) {
	case json.Delim:
		switch v {
		case '{':
			var ms []string
			for p.dec.More() {
				kt, err := p.dec.Token()
				if err != nil {
					return "", err
				}
				k, ok := kt.(string)
				if !ok {
					return "", fmt.Errorf("object key is not a string")
				}
				vt, err := p.dec.Token()
				if err != nil {
					return "", err
				}
				x, err := p.value(vt)
				if err != nil {
					return "", err
				}
				ms = append(ms, "("+coqName(unescT(k, p.tmpl))+", "+x+")")
			}
			if _, err := p.dec.Token(); err != nil {
				return "", err
			}
			return "(JObj " + hv.CoqList(ms) + ")", nil
		case '[':
			var es []string
			for p.dec.More() {
				vt, err := p.dec.Token()
				if err != nil {
					return "", err
				}
				x, err := p.value(vt)
				if err != nil {
					return "", err
				}
				es = append(es, x)
			}
			if _, err := p.dec.Token(); err != nil {
				return "", err
			}
			return "(JArr " + hv.CoqList(es) + ")", nil
		}
		return "", fmt.Errorf("unexpected delimiter %v", v)
	case string:
		return "(JStr " + coqName(unescT(v, p.tmpl)) + ")", nil
	case json.Number:
		t, ok := numTag(string(v))
		if !ok {
			return "", fmt.Errorf("number %q outside the tag encoding", string(v))
		}
		return "(JLeaf " + coqZBig(t) + ")", nil
	case bool:
		if v {
			return "(JLeaf 1)", nil
		}
		return "(JLeaf 0)", nil
	case nil:
		return "JNull", nil
	}
	return "", fmt.Errorf("unexpected token %v", tok)
}

// coqJValue reads JSON text (object member order and duplicates preserved).
func coqJValue(src string, tmpl bool) (string, error) {
	dec := json.NewDecoder(bytes.NewReader([]byte(src)))
	dec.UseNumber()
	p := &jparser{dec: dec, tmpl: tmpl}
	tok, err := dec.Token()
	if err != nil {
		return "", err
	}
	s, err := p.value(tok)
	if err != nil {
		return "", err
	}
	if _, err := dec.Token(); err != io.EOF {
		return "", fmt.Errorf("trailing data")
	}
	return s, nil
}
