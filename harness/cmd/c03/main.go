package main

// C03 — Native and JSON syntaxes denote the same configuration.
//
// One case = (hcldec spec tree, abstract configuration, its native text, ONE
// JSON encoding chosen at random among the admissible ones — or a mutation of
// one). Real code: json.Parse + hclsyntax.ParseConfig; Content / PartialContent
// / JustAttributes with the implied schema at every level of the spec, on both
// bodies; hcldec.Decode / PartialDecode on both.
//
// Correspondence (Coq, Body/JsonEncodesCheck.v): the JSON and native body models
// agree with the observed trees; for admissible cases json_encodes_b holds (the
// theorems of Props/C03.v apply) and the two observed trees are equal.
//
// Direct oracle (real code only, independent of Coq), for admissible cases:
// attributes (names, values, evaluation error-ness), block sequences with labels,
// recursively; Content / PartialContent / JustAttributes error-ness at every
// level; decoded values and error-ness of Decode and PartialDecode — equal
// between the two syntaxes.

import (
	"encoding/json"
	"fmt"
	"os"
	"sort"
	"strings"

	"github.com/hashicorp/hcl/v2"
	"github.com/hashicorp/hcl/v2/hcldec"
	"github.com/hashicorp/hcl/v2/hclsyntax"
	hcljson "github.com/hashicorp/hcl/v2/json"
	"github.com/zclconf/go-cty/cty"
	"hclverif/hv"
)

func main() { hv.Main(map[string]func(*hv.RunCfg) error{"c03": runC03}) }

// CaseSpec is the replayable input of one case.
type CaseSpec struct {
	Spec   *gspec `json:"spec"`
	Cfg    *Cfg   `json:"cfg"`
	Native string `json:"native"`
	JSON   string `json:"json"`
	Adm    bool   `json:"adm"`             // the JSON text is an admissible encoding of Cfg under Spec's schema tree
	Tmpl   bool   `json:"tmpl,omitempty"`  // evaluate with a non-nil (empty) EvalContext; JSON strings are template-escaped
	Known  string `json:"known,omitempty"` // a deliberately generated known shape: differences are reported under this kind
	Wild   string `json:"wild,omitempty"`  // the mutation that made the case non-admissible
	forms  map[string]bool
}

// ---- observation ------------------------------------------------------------------------

type OAttr struct {
	Name string
	Val  cty.Value
	Err  bool
}
type OBlock struct {
	Type   string
	Labels []string
	Sub    *OTree
}
type OTree struct {
	Attrs      []OAttr
	Blocks     []OBlock
	CErr, PErr bool
	PartialDif string // PartialContent returned something else than Content
}

func evalAttr(a *hcl.Attribute, ctx *hcl.EvalContext) OAttr {
	v, d := a.Expr.Value(ctx)
	return OAttr{a.Name, v, d.HasErrors()}
}

func sortedAttrs(m hcl.Attributes, ctx *hcl.EvalContext) []OAttr {
	var out []OAttr
	for _, n := range hv.SortedKeys(m) {
		out = append(out, evalAttr(m[n], ctx))
	}
	return out
}

func contentKey(c *hcl.BodyContent) string {
	var sb strings.Builder
	for _, n := range hv.SortedKeys(c.Attributes) {
		fmt.Fprintf(&sb, "%q;", n)
	}
	for _, b := range c.Blocks {
		fmt.Fprintf(&sb, "%q%q;", b.Type, b.Labels)
	}
	return sb.String()
}

func observe(body hcl.Body, t *STree, ctx *hcl.EvalContext) *OTree {
	o := &OTree{}
	if t.Just {
		attrs, diags := body.JustAttributes()
		o.Attrs = sortedAttrs(attrs, ctx)
		o.CErr, o.PErr = diags.HasErrors(), diags.HasErrors()
		return o
	}
	sch := t.schema()
	content, diags := body.Content(sch)
	pcontent, _, pdiags := body.PartialContent(sch)
	o.CErr, o.PErr = diags.HasErrors(), pdiags.HasErrors()
	if a, b := contentKey(content), contentKey(pcontent); a != b {
		o.PartialDif = "Content " + a + " / PartialContent " + b
	}
	o.Attrs = sortedAttrs(content.Attributes, ctx)
	for _, b := range content.Blocks {
		o.Blocks = append(o.Blocks, OBlock{b.Type, append([]string{}, b.Labels...), observe(b.Body, t.kid(b.Type), ctx)})
	}
	return o
}

func (o *OTree) coq(info *hv.ValInfo) string {
	var as, bs []string
	for _, a := range o.Attrs {
		as = append(as, fmt.Sprintf("(%s, %s, %s)", coqName(a.Name), hv.CoqVal(a.Val, info), hv.CoqBool(a.Err)))
	}
	for _, b := range o.Blocks {
		bs = append(bs, fmt.Sprintf("(%s, %s, %s)", coqName(b.Type), coqNames(b.Labels), b.Sub.coq(info)))
	}
	return fmt.Sprintf("(ONode %s %s %s %s)", hv.CoqList(as), hv.CoqList(bs), hv.CoqBool(o.CErr), hv.CoqBool(o.PErr))
}

// dump: content only (flags=false) or content with the error-ness flags.
func (o *OTree) dump(sb *strings.Builder, flags bool) {
	sb.WriteString("{")
	for _, a := range o.Attrs {
		fmt.Fprintf(sb, "%q=%s", a.Name, hv.DumpVal(a.Val))
		if flags && a.Err {
			sb.WriteString("!")
		}
		sb.WriteString(";")
	}
	for _, b := range o.Blocks {
		fmt.Fprintf(sb, "%q%q", b.Type, b.Labels)
		b.Sub.dump(sb, flags)
	}
	if flags {
		fmt.Fprintf(sb, "|cerr=%v perr=%v", o.CErr, o.PErr)
	}
	sb.WriteString("}")
}
func (o *OTree) str(flags bool) string {
	var sb strings.Builder
	o.dump(&sb, flags)
	return sb.String()
}
func (o *OTree) partialDif() string {
	if o.PartialDif != "" {
		return o.PartialDif
	}
	for _, b := range o.Blocks {
		if s := b.Sub.partialDif(); s != "" {
			return s
		}
	}
	return ""
}

// ---- one case -----------------------------------------------------------------------------

type decRes struct {
	val    string
	err    bool
	panicv any
}

func safeDecode(body hcl.Body, spec hcldec.Spec, ctx *hcl.EvalContext, partial bool) (res decRes) {
	defer func() {
		if p := recover(); p != nil {
			res.panicv = p
		}
	}()
	var v cty.Value
	var d hcl.Diagnostics
	if partial {
		v, _, d = hcldec.PartialDecode(body, spec, ctx)
	} else {
		v, d = hcldec.Decode(body, spec, ctx)
	}
	return decRes{val: hv.DumpVal(v), err: d.HasErrors()}
}

func safeObserve(body hcl.Body, t *STree, ctx *hcl.EvalContext) (o *OTree, p any) {
	defer func() {
		if x := recover(); x != nil {
			p = x
		}
	}()
	return observe(body, t, ctx), nil
}

type runner struct {
	rep *hv.Report
	cf  *hv.CaseFile
}

func (rn *runner) fail(cs *CaseSpec, input, kind, detail string) {
	if cs.Known != "" && kind != "panic" {
		kind = cs.Known
	}
	rn.rep.Fail(hv.Failure{Kind: kind, Detail: detail, Input: input})
	rn.rep.Hist("fail:" + kind)
}

func hasMultiLabelMap(s *gspec) bool {
	if s.Kind == "blockmap" && len(s.Labels) >= 2 {
		return true
	}
	for _, k := range s.Kids {
		if hasMultiLabelMap(k) {
			return true
		}
	}
	return false
}

func trimTo(s string, n int) string {
	if len(s) > n {
		return s[:n] + "..."
	}
	return s
}

func (rn *runner) runCase(cs *CaseSpec) error {
	rep := rn.rep
	inb, _ := json.Marshal(cs)
	input := string(inb)
	t := streeOf(cs.Spec)
	var ctx *hcl.EvalContext
	if cs.Tmpl {
		ctx = &hcl.EvalContext{}
	}
	nf, nd := hclsyntax.ParseConfig([]byte(cs.Native), "c.hcl", hcl.InitialPos)
	jf, jd := hcljson.Parse([]byte(cs.JSON), "c.json")
	if nd.HasErrors() || jd.HasErrors() {
		// the generator only writes well-formed text: a parse error is a harness defect or a finding
		rn.fail(cs, input, "parse-error", fmt.Sprintf("native: %v; json: %v", nd, jd))
		rn.cf.Add("mkCase SJust [] (JObj []) false false true (ONode [] [] false false) (ONode [] [] false false)")
		rep.Idx(input)
		rep.Count(input, false)
		return nil
	}
	oj, pj := safeObserve(jf.Body, t, ctx)
	on, pn := safeObserve(nf.Body, t, ctx)
	if pj != nil || pn != nil {
		rn.fail(cs, input, "panic", fmt.Sprintf("Content: json %v / native %v", pj, pn))
		rn.cf.Add("mkCase SJust [] (JObj []) false false true (ONode [] [] false false) (ONode [] [] false false)")
		rep.Idx(input)
		rep.Count(input, false)
		return nil
	}

	// ---- the Coq case
	// the document as written: template un-escaping is part of EVALUATION (Body/JsonEncodesCheck.v
	// json_sem_t), property names read as attribute names / block types / labels are not templates
	jv, err := coqJValue(cs.JSON, false)
	if err != nil {
		return fmt.Errorf("reading back JSON text: %v\n%s", err, cs.JSON)
	}
	info := &hv.ValInfo{}
	ojc, onc := oj.coq(info), on.coq(info)
	skip := cs.Cfg.inexact() || info.Unsupported || cs.Known != ""
	adm := cs.Adm && cs.Known == ""
	rn.cf.Add(fmt.Sprintf("mkCase %s\n %s\n %s\n %s %s %s\n %s\n %s", t.coq(), cs.Cfg.coq(), jv, hv.CoqBool(cs.Tmpl), hv.CoqBool(adm), hv.CoqBool(skip), ojc, onc))
	rep.Idx(input)
	rep.Count(input, cs.Cfg.nblocks() > 0)
	if len(input) < 700 {
		rep.Sample(json.RawMessage(inb))
	}

	// ---- histogram
	kinds := map[string]bool{}
	cs.Spec.kinds(kinds)
	for k := range kinds {
		rep.Hist("spec:" + k)
	}
	for k := range cs.forms {
		rep.Hist("x:" + k)
	}
	switch {
	case cs.Known != "":
		rep.Hist("stream:known-shape:" + cs.Known)
	case cs.Adm:
		rep.Hist("stream:admissible")
	default:
		rep.Hist("stream:mutated:" + cs.Wild)
	}
	if cs.Tmpl {
		rep.Hist("ctx:non-nil")
	} else {
		rep.Hist("ctx:nil")
	}
	if oj.CErr {
		rep.Hist("obs:json-content-error")
	}
	if on.CErr {
		rep.Hist("obs:native-content-error")
	}

	// ---- decode (every case: panics; admissible cases: equality)
	spec := cs.Spec.toGo()
	dj, dn := safeDecode(jf.Body, spec, ctx, false), safeDecode(nf.Body, spec, ctx, false)
	pdj, pdn := safeDecode(jf.Body, spec, ctx, true), safeDecode(nf.Body, spec, ctx, true)
	decodePanic := func() bool {
		for _, r := range []decRes{dj, dn, pdj, pdn} {
			if r.panicv != nil {
				msg := fmt.Sprint(r.panicv)
				// BlockMapSpec with >= 2 label names and no blocks returns
				// cty.MapValEmpty(nested type) instead of a map of maps; collected by an
				// enclosing map spec next to a non-empty sibling, go-cty panics. This is C08's
				// recorded finding; when BOTH syntaxes panic the same way in all four calls the
				// two syntaxes do not differ, which is all C03 speaks about: counted, not reported
				// (for mutated non-encodings the two bodies differ anyway, so only the shape is required).
				// (the message lists two element types in map-iteration order, so only its shape is compared)
				shape := func(p any) string {
					if p == nil {
						return "-"
					}
					if strings.Contains(fmt.Sprint(p), "inconsistent map element types") {
						return "inconsistent-map-element-types"
					}
					return fmt.Sprint(p)
				}
				same := shape(dj.panicv) == shape(dn.panicv) && shape(pdj.panicv) == shape(pdn.panicv)
				if (same || !cs.Adm) && strings.Contains(msg, "inconsistent map element types") && hasMultiLabelMap(cs.Spec) {
					rep.Hist("obs:both-syntaxes-panic-alike(C08 finding blockmap-multilabel-empty)")
					return true
				}
				rn.fail(cs, input, "panic", fmt.Sprintf("hcldec: json %v / native %v", dj.panicv, dn.panicv))
				return true
			}
		}
		return false
	}
	if dj.err {
		rep.Hist("obs:json-decode-error")
	}
	if dn.err {
		rep.Hist("obs:native-decode-error")
	}
	if !cs.Adm {
		decodePanic()
		return nil
	}

	// ---- the direct oracle
	if a, b := oj.str(false), on.str(false); a != b {
		rn.fail(cs, input, "content-differs", "json "+trimTo(a, 600)+"\nnative "+trimTo(b, 600))
		return nil
	}
	if s := oj.partialDif(); s != "" {
		rn.fail(cs, input, "content-differs", "json body: "+s)
		return nil
	}
	if s := on.partialDif(); s != "" {
		rn.fail(cs, input, "content-differs", "native body: "+s)
		return nil
	}
	if a, b := oj.str(true), on.str(true); a != b {
		rn.fail(cs, input, "error-ness-differs", "json "+trimTo(a, 600)+"\nnative "+trimTo(b, 600))
		return nil
	}
	if decodePanic() {
		return nil
	}
	if dj.val != dn.val {
		rn.fail(cs, input, "decode-differs", "Decode: json "+trimTo(dj.val, 500)+"\nnative "+trimTo(dn.val, 500))
		return nil
	}
	if pdj.val != pdn.val {
		rn.fail(cs, input, "decode-differs", "PartialDecode: json "+trimTo(pdj.val, 500)+"\nnative "+trimTo(pdn.val, 500))
		return nil
	}
	if dj.err != dn.err || pdj.err != pdn.err {
		rn.fail(cs, input, "error-ness-differs", fmt.Sprintf("Decode errors: json %v native %v; PartialDecode: json %v native %v", dj.err, dn.err, pdj.err, pdn.err))
		return nil
	}
	if cs.Known != "" {
		rep.Hist("known-shape-not-observed:" + cs.Known)
	}
	return nil
}

// ---- generation of one case ---------------------------------------------------------------------

func (g *gen) genCase() *CaseSpec {
	g.hist = map[string]bool{}
	cs := &CaseSpec{Adm: true}
	cs.Tmpl = g.r.Chance(0.3)
	g.tmplOK = true
	cs.Spec = g.genLevel(0, 0, false)
	t := streeOf(cs.Spec)
	cs.Cfg = g.genCfg(t, 0)
	e := &enc{g: g, tmpl: cs.Tmpl, x: map[string]bool{}}

	wild := ""
	if g.r.Chance(0.15) {
		wild = g.mutateCfg(cs, t)
	}
	root := e.body(cs.Cfg, t, true, "")
	if wild == "" && g.r.Chance(0.12) {
		wild = g.mutateJSON(cs, t, root)
	}
	if wild == "" && cs.Tmpl && g.r.Chance(0.04) {
		// known shape: a string value starting with a byte order mark
		if g.bomString(cs.Cfg) {
			cs.Known = "json-template-leading-bom"
			root = e.body(cs.Cfg, t, true, "")
		}
	}
	if wild != "" {
		cs.Adm = false
		cs.Wild = wild
	}
	cs.Native = renderNative(cs.Cfg, g.r)
	cs.JSON = renderJSON(root, g.r)
	cs.forms = e.x
	return cs
}

// bomString prefixes the first string attribute value with U+FEFF.
func (g *gen) bomString(c *Cfg) bool {
	for i := range c.Items {
		it := &c.Items[i]
		if it.IsAttr() && it.Val.K == "s" {
			it.Val.S = "\ufeff" + it.Val.S
			return true
		}
	}
	return false
}

// mutateCfg makes the configuration something JSON cannot express under the
// schema tree (the native side still parses): the models must still agree with
// the real code on each side; no cross-syntax claim is made.
func (g *gen) mutateCfg(cs *CaseSpec, t *STree) string {
	c := cs.Cfg
	var blocks []int
	for i := range c.Items {
		if !c.Items[i].IsAttr() {
			blocks = append(blocks, i)
		}
	}
	switch g.r.Intn(5) {
	case 0: // a block with one label more or less than the schema wants
		if len(blocks) == 0 {
			return ""
		}
		it := &c.Items[blocks[g.r.Intn(len(blocks))]]
		if len(it.Labels) > 0 && g.r.Chance(0.5) {
			it.Labels = it.Labels[1:]
		} else {
			it.Labels = append(it.Labels, "extra")
		}
		return "label-count-deviates"
	case 1: // kind confusion: an attribute named like a block type of the schema
		if len(t.Blocks) == 0 {
			return ""
		}
		b := t.Blocks[g.r.Intn(len(t.Blocks))]
		for i := range c.Items {
			if c.Items[i].Attr == b.Type {
				return ""
			}
		}
		c.Items = append(c.Items, Item{Attr: b.Type, Val: g.genLit(1)})
		return "kind-confusion-attr-for-block"
	case 2: // kind confusion: a block named like an attribute of the schema
		if len(t.Attrs) == 0 {
			return ""
		}
		a := t.Attrs[g.r.Intn(len(t.Attrs))]
		c.Items = append(c.Items, Item{Type: a.Name, Labels: []string{}, Body: &Cfg{Items: []Item{}}})
		return "kind-confusion-block-for-attr"
	case 3: // an object value with a duplicate key (JSON: error, native: last one wins)
		for i := range c.Items {
			it := &c.Items[i]
			if it.IsAttr() && it.Val.K == "o" && len(it.Val.Keys) > 0 {
				it.Val.Keys = append(it.Val.Keys, it.Val.Keys[0])
				it.Val.Elems = append(it.Val.Elems, g.genNumber())
				return "duplicate-object-key"
			}
		}
		return ""
	default: // a block inside a JustAttributes body
		for _, bi := range blocks {
			it := &c.Items[bi]
			if !t.Just && t.kid(it.Type).Just && t.Kind[it.Type] != "" {
				it.Body.Items = append(it.Body.Items, Item{Type: "inner", Labels: []string{}, Body: &Cfg{Items: []Item{}}})
				return "block-in-attrs-body"
			}
		}
		return ""
	}
}

func rootMembers(root *jn) []*jm {
	var out []*jm
	switch root.kind {
	case 'o':
		for i := range root.mem {
			out = append(out, &root.mem[i])
		}
	case 'a':
		for _, e := range root.elems {
			if e.kind == 'o' {
				for i := range e.mem {
					out = append(out, &e.mem[i])
				}
			}
		}
	}
	return out
}

// mutateJSON edits the chosen encoding into something that is not an encoding
// of the configuration any more.
func (g *gen) mutateJSON(cs *CaseSpec, t *STree, root *jn) string {
	ms := rootMembers(root)
	switch g.r.Intn(6) {
	case 0:
		if len(ms) == 0 {
			return ""
		}
		ms[g.r.Intn(len(ms))].val = jnull()
		return "json-value-null"
	case 1:
		if len(ms) == 0 {
			return ""
		}
		ms[g.r.Intn(len(ms))].val = &jn{kind: 'n', s: "5"}
		return "json-value-number"
	case 2:
		if root.kind == 'o' {
			cp := *root
			*root = jn{kind: 'a', elems: []*jn{&cp}}
		}
		at := g.r.Intn(len(root.elems) + 1)
		bad := []*jn{{kind: 'n', s: "7"}, jnull(), jstr("q"), jarr(nil)}[g.r.Intn(4)]
		root.elems = append(root.elems[:at:at], append([]*jn{bad}, root.elems[at:]...)...)
		return "json-root-array-bad-element"
	case 3:
		if len(ms) == 0 {
			return ""
		}
		src := ms[g.r.Intn(len(ms))]
		dup := jm{src.name, &jn{kind: 'n', s: "99"}}
		if root.kind == 'o' {
			root.mem = append(root.mem, dup)
		} else {
			root.elems = append(root.elems, jobj([]jm{dup}))
		}
		return "json-duplicate-property"
	case 4:
		if len(ms) == 0 {
			return ""
		}
		m := ms[g.r.Intn(len(ms))]
		if m.val.kind == 'o' || m.val.kind == 'a' {
			if g.r.Chance(0.5) {
				m.val = jobj(nil)
			} else {
				m.val = jarr([]*jn{jobj(nil), {kind: 'n', s: "3"}})
			}
			return "json-value-emptied"
		}
		return ""
	default:
		if len(ms) == 0 {
			return ""
		}
		m := ms[g.r.Intn(len(ms))]
		m.val = jstr("text")
		return "json-value-string"
	}
}

// ---- hand corpus ---------------------------------------------------------------------------------

func attrS(n string, ty cty.Type, req bool) *gspec {
	return &gspec{Kind: "attr", Name: n, Type: tyJSON(ty), Req: req}
}
func objS(kv ...any) *gspec {
	o := &gspec{Kind: "object"}
	for i := 0; i+1 < len(kv); i += 2 {
		o.Keys = append(o.Keys, kv[i].(string))
		o.Kids = append(o.Kids, kv[i+1].(*gspec))
	}
	return o
}
func blkS(kind, t string, nested *gspec, labels ...string) *gspec {
	s := &gspec{Kind: kind, Name: t, Labels: labels}
	if nested != nil {
		s.Kids = []*gspec{nested}
	}
	return s
}
func lblS(i int) *gspec {
	return &gspec{Kind: "blocklabel", Index: i, Name: fmt.Sprintf("label%d", i)}
}
func str(s string) *Lit { return &Lit{K: "s", S: s} }
func num(s string) *Lit { return &Lit{K: "n", Num: s, NumJ: s, Exact: true} }
func at(n string, v *Lit) Item {
	return Item{Attr: n, Val: v}
}
func bl(t string, labels []string, items ...Item) Item {
	if labels == nil {
		labels = []string{}
	}
	if items == nil {
		items = []Item{}
	}
	return Item{Type: t, Labels: labels, Body: &Cfg{Items: items}}
}
func cfgOf(items ...Item) *Cfg {
	if items == nil {
		items = []Item{}
	}
	return &Cfg{Items: items}
}

func corpus() []*CaseSpec {
	r := hv.NewRng(1, 33)
	mk := func(spec *gspec, c *Cfg, js string) *CaseSpec {
		return &CaseSpec{Spec: spec, Cfg: c, Native: renderNative(c, r), JSON: js, Adm: true, forms: map[string]bool{}}
	}
	child := objS("child_attr", attrS("child_attr", cty.String, false))
	fooList := objS("foo", blkS("blocklist", "foo", child))
	// json/spec.md, block type "foo" with no labels
	c1 := cfgOf(bl("foo", nil, at("child_attr", str("baz"))))
	c2 := cfgOf(bl("foo", nil, at("child_attr", str("baz"))), bl("foo", nil, at("child_attr", str("boz"))))
	// json/spec.md, block type "foo" with two labels: four spellings of the same blocks
	foo2 := objS("foo", blkS("blockmap", "foo", child, "k1", "k2"))
	cA := cfgOf(bl("foo", []string{"bar", "baz"}, at("child_attr", str("baz"))),
		bl("foo", []string{"bar", "boz"}, at("child_attr", str("baz"))),
		bl("foo", []string{"boz", "baz"}, at("child_attr", str("baz"))))
	foo2l := objS("foo", blkS("blocklist", "foo", objS("child_attr", attrS("child_attr", cty.String, false), "l0", lblS(0), "l1", lblS(1))))
	cB := cfgOf(bl("foo", []string{"bar", "baz"}, at("child_attr", str("baz"))),
		bl("foo", []string{"bar", "boz"}, at("child_attr", str("baz"))),
		bl("foo", []string{"boz", "baz"}, at("child_attr", str("baz"))),
		bl("foo", []string{"boz", "baz"}, at("child_attr", str("boz"))))
	cC := cfgOf(bl("foo", []string{"bar", "baz"}, at("child_attr", str("baz"))),
		bl("foo", []string{"bar", "boz"}, at("child_attr", str("baz"))),
		bl("foo", []string{"bar", "baz"}, at("child_attr", str("baz"))),
		bl("foo", []string{"bar", "baz"}, at("child_attr", str("boz"))))
	attrsSpec := objS("a", attrS("a", cty.Number, true), "m", &gspec{Kind: "blockattrs", Name: "m", Type: tyJSON(cty.String)})
	out := []*CaseSpec{
		mk(fooList, c1, `{"foo": {"child_attr": "baz"}}`),
		mk(fooList, c2, `{"foo": [{"child_attr": "baz"}, {"child_attr": "boz"}]}`),
		mk(fooList, cfgOf(), `{"foo": []}`),
		mk(fooList, cfgOf(), `{"foo": null}`),
		mk(fooList, c2, `[{"foo": {"child_attr": "baz"}}, {"//": "comment"}, {"foo": {"child_attr": "boz", "//": 1}}]`),
		mk(foo2, cA, `{"foo": {"bar": {"baz": {"child_attr": "baz"}, "boz": {"child_attr": "baz"}}, "boz": {"baz": {"child_attr": "baz"}}}}`),
		mk(foo2l, cB, `{"foo": {"bar": {"baz": {"child_attr": "baz"}, "boz": {"child_attr": "baz"}}, "boz": {"baz": [{"child_attr": "baz"}, {"child_attr": "boz"}]}}}`),
		mk(foo2l, cC, `{"foo": [{"bar": {"baz": {"child_attr": "baz"}, "boz": {"child_attr": "baz"}}}, {"bar": {"baz": [{"child_attr": "baz"}, {"child_attr": "boz"}]}}]}`),
		mk(foo2l, cC, `{"foo": {"bar": {"baz": {"child_attr": "baz"}, "boz": {"child_attr": "baz"}}, "bar": {"baz": [{"child_attr": "baz"}, {"child_attr": "boz"}]}}}`),
		mk(foo2, cfgOf(), `{"foo": {"bar": {"q": null}}}`),
		mk(foo2, cfgOf(), `{"foo": {"bar": {"x": []}, "y": [{"z": null}]}}`),
		mk(attrsSpec, cfgOf(at("a", num("1.5")), bl("m", nil, at("k1", str("v")), at("k2", str("w")))),
			`{"a": 15e-1, "m": {"//": "comment", "k1": "v", "k2": "w"}}`),
		mk(attrsSpec, cfgOf(bl("m", nil, at("k1", str("v")))), `{"m": [{"k1": "v"}]}`),
		mk(objS("a", attrS("a", cty.DynamicPseudoType, false)), cfgOf(at("a", &Lit{K: "o", Keys: []string{"x", "y"}, Elems: []*Lit{num("1"), {K: "a", Elems: []*Lit{{K: "z"}, {K: "b", B: true}, str("caf\u00e9")}}}})),
			`{"a": {"x": 1, "y": [null, true, "caf\u00e9"]}}`),
	}
	// four and more labels, siblings sharing every proper prefix: in ONE innermost label
	// object, in an array of objects at the innermost level, split over duplicate names
	lab5 := objS("v", attrS("v", cty.Number, false), "l0", lblS(0), "l1", lblS(1), "l2", lblS(2), "l3", lblS(3), "l4", lblS(4))
	deep := objS("foo", blkS("blocklist", "foo", lab5))
	sib := func(ls ...string) Item { return bl("foo", ls, at("v", num(fmt.Sprint(len(ls[4]))))) }
	cD := cfgOf(sib("a", "b", "c", "d", "e1"), sib("a", "b", "c", "d", "e22"), sib("a", "b", "c", "x", "e333"), sib("a", "b", "y", "d", "e1"), sib("a", "b", "y", "d", "e1"))
	out = append(out,
		mk(deep, cD, `{"foo": {"a": {"b": {"c": {"d": {"e1": {"v": 2}, "e22": {"v": 3}}, "x": {"e333": {"v": 4}}}, "y": {"d": {"e1": [{"v": 2}, {"v": 2}]}}}}}}`),
		mk(deep, cD, `{"foo": {"a": {"b": {"c": {"d": [{"e1": {"v": 2}}, {"e22": {"v": 3}}], "x": {"e333": {"v": 4}}}, "y": [{"d": {"e1": {"v": 2}}}, {"d": {"e1": {"v": 2}}}]}}}}`),
		mk(deep, cD, `{"foo": {"a": {"b": {"c": {"d": {"e1": {"v": 2}}}}}}, "foo": {"a": {"b": {"c": {"d": {"e22": {"v": 3}}, "x": {"e333": {"v": 4}}}}}}, "foo": [{"a": {"b": {"y": {"d": {"e1": {"v": 2}}}}}}, {"a": {"b": {"y": {"d": {"e1": {"v": 2}}}}}}]}`))
	map4 := objS("foo", blkS("blockmap", "foo", objS("v", attrS("v", cty.Number, false)), "k0", "k1", "k2", "k3"))
	sib4 := func(ls ...string) Item { return bl("foo", ls, at("v", num(fmt.Sprint(len(ls[3]))))) }
	cE := cfgOf(sib4("a", "b", "c", "d1"), sib4("a", "b", "c", "d22"), sib4("a", "b", "c", "d333"))
	out = append(out,
		mk(map4, cE, `{"foo": {"a": {"b": {"c": {"d1": {"v": 2}, "d22": {"v": 3}, "d333": {"v": 4}}}}}}`),
		mk(map4, cE, `{"foo": {"a": {"b": {"c": [{"d1": {"v": 2}}, {"d22": {"v": 3}}, {"d333": {"v": 4}}]}}}}`))
	// a label level given as null or {}: json/spec.md describes no such form (labels are given by
	// object properties; null is only accepted by the implementation in place of a block BODY), so it
	// is outside the encodings the property quantifies over: run as a non-encoding (panic check only;
	// Body/JsonEncodesProofs.v null_at_label_level_is_an_error records what the code does)
	k := mk(foo2, cfgOf(), `{"foo": null}`)
	k.Adm, k.Wild = false, "null-at-label-level"
	out = append(out, k)
	k2 := mk(foo2, cfgOf(), `{"foo": {}}`)
	k2.Adm, k2.Wild = false, "empty-object-at-label-level"
	out = append(out, k2)
	// template evaluation strips a leading byte order mark
	k3 := mk(objS("a", attrS("a", cty.String, false)), cfgOf(at("a", str("\ufeffx"))), `{"a": "\ufeffx"}`)
	k3.Tmpl, k3.Known = true, "json-template-leading-bom"
	out = append(out, k3)
	// escaped template sequences under a non-nil context
	k4 := mk(objS("a", attrS("a", cty.String, false)), cfgOf(at("a", str("a${b}%{c}"))), `{"a": "a$${b}%%{c}"}`)
	k4.Tmpl = true
	out = append(out, k4)
	return out
}

// ---- run ----------------------------------------------------------------------------------------------

func runC03(cfg *hv.RunCfg) error {
	rep := hv.NewReport("C03", cfg.Seed)
	rep.Rule = "hcldec spec trees (Object/Attr/Literal/Default/Block/BlockList/BlockSet/BlockTuple/BlockMap(1-5 label names)/BlockObject(1-5)/BlockAttrs/BlockLabel; block headers with 0-6 labels for every kind that can carry them, BlockLabelSpecs reading each index; depth <= 3) with configurations mostly conforming to them (literal attribute values of every JSON type, sibling blocks of a labelled type sharing a label PREFIX of every length 0..L incl. identical tuples, unknown names, missing required attributes), rendered as native text and as ONE randomly chosen admissible JSON encoding (object / array-of-objects bodies, label objects / arrays / repeated labels, runs merged or split over duplicate names, arrays of bodies, null / [] runs, \"//\" comments, number spellings, escapes, whitespace); 15%+12% mutated into non-encodings (label count, kind confusion, duplicate object keys, null / mistyped / duplicate JSON values); nil and non-nil EvalContext; non-trivial = the configuration has at least one block; distinct by SHA-256 of the replay form"
	cf := &hv.CaseFile{Dir: cfg.Out, Name: "c03cases",
		Imports: "From Coq Require Import QArith String.\nFrom HclV Require Import Base.Prelude Body.Laws Body.Native Body.Json Cty.Values Body.JsonEncodes Body.JsonEncodesCheck.",
		Ctype:   "c03case", Checker: "check_c03_cases",
		Extras: [][2]string{{"applicable", "c03_applicable"}}}
	rn := &runner{rep: rep, cf: cf}
	g := &gen{r: hv.NewRng(cfg.Seed, 3), feat: map[string]int{}, hist: map[string]bool{}}

	var cases []*CaseSpec
	if cfg.Replay != "" {
		b, err := os.ReadFile(cfg.Replay)
		if err != nil {
			return err
		}
		cs := &CaseSpec{}
		if err := json.Unmarshal(b, cs); err != nil {
			return fmt.Errorf("replay file: %v", err)
		}
		cs.forms = map[string]bool{}
		cases = []*CaseSpec{cs}
	} else {
		cases = append(cases, corpus()...)
		for i := 0; i < cfg.N; i++ {
			cases = append(cases, g.genCase())
		}
	}
	for _, cs := range cases {
		if err := rn.runCase(cs); err != nil {
			return err
		}
	}
	keys := make([]string, 0, len(g.feat))
	for k := range g.feat {
		keys = append(keys, k)
	}
	sort.Strings(keys)
	for _, k := range keys {
		rep.Histogram["feat:"+k] += g.feat[k]
	}
	names, err := cf.Flush(100)
	if err != nil {
		return err
	}
	rep.CaseFiles = names
	return rep.Write(cfg.Out)
}
