package main

// Generators for C03: literal values, spec trees over every hcldec spec kind
// that makes sense for literal configurations, configurations conforming
// (mostly) to the spec, and the random choice of one admissible JSON encoding.

import (
	"fmt"
	"math/big"
	"sort"
	"strings"

	"github.com/zclconf/go-cty/cty"
	"hclverif/hv"
)

// ---- literals -----------------------------------------------------------------------

// Lit is a JSON-expressible literal value.
type Lit struct {
	K     string   `json:"k"`            // s n b z a o
	S     string   `json:"s,omitempty"`  // string content
	Num   string   `json:"n,omitempty"`  // number: text used in the native syntax
	NumJ  string   `json:"nj,omitempty"` // number: text used in JSON (same value)
	Exact bool     `json:"x,omitempty"`  // number: exactly representable (value compared in Coq)
	B     bool     `json:"b,omitempty"`
	Elems []*Lit   `json:"e,omitempty"`
	Keys  []string `json:"keys,omitempty"` // object keys, parallel to Elems
}

// numTag maps decimal text to the canonical leaf tag of Body/JsonEncodes.v
// [leaf_val]: 2 + 1000*zigzag(m) + d for the value m * 10^-d, m not divisible by
// 10 unless d = 0.
func numTag(text string) (*big.Int, bool) {
	s := text
	neg := false
	if strings.HasPrefix(s, "-") {
		neg, s = true, s[1:]
	}
	exp := 0
	if i := strings.IndexAny(s, "eE"); i >= 0 {
		if _, err := fmt.Sscanf(s[i+1:], "%d", &exp); err != nil {
			return nil, false
		}
		s = s[:i]
	}
	frac := ""
	if i := strings.IndexByte(s, '.'); i >= 0 {
		frac, s = s[i+1:], s[:i]
	}
	m, ok := new(big.Int).SetString(s+frac, 10)
	if !ok {
		return nil, false
	}
	d := len(frac) - exp
	ten := big.NewInt(10)
	for d < 0 {
		m.Mul(m, ten)
		d++
	}
	for d > 0 && new(big.Int).Mod(m, ten).Sign() == 0 {
		m.Div(m, ten)
		d--
	}
	if m.Sign() == 0 {
		d = 0
	}
	if d >= 1000 {
		return nil, false
	}
	if neg {
		m.Neg(m)
	}
	zz := new(big.Int)
	if m.Sign() >= 0 {
		zz.Mul(m, big.NewInt(2))
	} else {
		zz.Mul(m, big.NewInt(-2))
		zz.Sub(zz, big.NewInt(1))
	}
	tag := new(big.Int).Mul(zz, big.NewInt(1000))
	tag.Add(tag, big.NewInt(int64(d+2)))
	return tag, true
}

func coqZBig(z *big.Int) string {
	if z.Sign() < 0 {
		return "(" + z.String() + ")"
	}
	return z.String()
}

func coqStrLit(s string) string { return coqName(s) }

func (l *Lit) coq() string {
	switch l.K {
	case "s":
		return "(LStr " + coqStrLit(l.S) + ")"
	case "n":
		t, ok := numTag(l.Num)
		if !ok {
			panic("bad number " + l.Num)
		}
		return "(LLeaf " + coqZBig(t) + ")"
	case "b":
		if l.B {
			return "(LLeaf 1)"
		}
		return "(LLeaf 0)"
	case "z":
		return "LNull"
	case "a":
		var ps []string
		for _, e := range l.Elems {
			ps = append(ps, e.coq())
		}
		return "(LArr " + hv.CoqList(ps) + ")"
	case "o":
		var ps []string
		for i, e := range l.Elems {
			ps = append(ps, "("+coqStrLit(l.Keys[i])+", "+e.coq()+")")
		}
		return "(LObj " + hv.CoqList(ps) + ")"
	}
	panic("lit kind " + l.K)
}

// inexact reports whether the literal contains a number the Coq value model
// cannot compare (not exactly representable) or a string that is not NFC-stable.
func (l *Lit) inexact() bool {
	switch l.K {
	case "n":
		return !l.Exact
	case "s":
		return !nfcStable(l.S)
	case "a", "o":
		for _, e := range l.Elems {
			if e.inexact() {
				return true
			}
		}
		for _, k := range l.Keys {
			if !nfcStable(k) {
				return true
			}
		}
	}
	return false
}

func (l *Lit) visitStrings(f func(s string)) {
	switch l.K {
	case "s":
		f(l.S)
	case "a", "o":
		for _, k := range l.Keys {
			f(k)
		}
		for _, e := range l.Elems {
			e.visitStrings(f)
		}
	}
}

// ---- abstract configurations ---------------------------------------------------------

type Item struct {
	Attr   string   `json:"attr,omitempty"`
	Val    *Lit     `json:"val,omitempty"`
	Type   string   `json:"type,omitempty"`
	Labels []string `json:"labels,omitempty"`
	Body   *Cfg     `json:"body,omitempty"`
}
type Cfg struct {
	Items []Item `json:"items"`
}

func (it *Item) IsAttr() bool { return it.Attr != "" }

func (c *Cfg) coq() string {
	var ps []string
	for i := range c.Items {
		it := &c.Items[i]
		if it.IsAttr() {
			ps = append(ps, fmt.Sprintf("CAttr %s %s", coqName(it.Attr), it.Val.coq()))
		} else {
			ps = append(ps, fmt.Sprintf("CBlock %s %s %s", coqName(it.Type), coqNames(it.Labels), it.Body.coq()))
		}
	}
	return hv.CoqList(ps)
}

func (c *Cfg) inexact() bool {
	for i := range c.Items {
		it := &c.Items[i]
		if it.IsAttr() {
			if it.Val.inexact() {
				return true
			}
		} else if it.Body.inexact() {
			return true
		}
	}
	return false
}

func (c *Cfg) visitStrings(f func(s string)) {
	for i := range c.Items {
		it := &c.Items[i]
		if it.IsAttr() {
			it.Val.visitStrings(f)
		} else {
			it.Body.visitStrings(f)
		}
	}
}

func (c *Cfg) nblocks() int {
	n := 0
	for i := range c.Items {
		if !c.Items[i].IsAttr() {
			n += 1 + c.Items[i].Body.nblocks()
		}
	}
	return n
}

// ---- generator state -------------------------------------------------------------------

type gen struct {
	r    *hv.Rng
	feat map[string]int
	// per case
	tmplOK bool // strings with template sequences may be generated (rendered escaped for the ctx mode)
	hist   map[string]bool
}

func (g *gen) f(k string) { g.feat[k]++; g.hist[k] = true }

var attrPool = []string{"a", "b", "c", "d", "e"}
var blockPool = []string{"blk", "foo", "bar", "svc", "m"}
var labelPool = []string{"l1", "l2", "l3", "l1", "l2", "//", "a b", "caf\u00e9", "x-y", "7", ""}

// NFC-stable strings (ASCII, precomposed, CJK, emoji), with the characters both
// syntaxes must escape
var strPool = []string{"", "x", "hello", "two words", "q\"uote", "back\\slash", "line\nbreak", "tab\there",
	"caf\u00e9", "\u65e5\u672c", "\U0001f600", "a/b", "//", "null", "true", "1", "$", "%", "$$", "a$b", "{}", "#no comment", "/* no */"}
var nonNFC = []string{"café", "Å"}
var tmplStrs = []string{"a${b}", "%{if x}", "$${esc}", "x$${", "100%{"}

func nfcStable(s string) bool {
	for _, x := range nonNFC {
		if strings.Contains(s, x) {
			return false
		}
	}
	return true
}

func (g *gen) genString() string {
	switch {
	case g.r.Chance(0.04):
		g.f("lit:string-non-nfc")
		return nonNFC[g.r.Intn(len(nonNFC))]
	case g.tmplOK && g.r.Chance(0.15):
		g.f("lit:string-template-sequence")
		return tmplStrs[g.r.Intn(len(tmplStrs))]
	}
	return strPool[g.r.Intn(len(strPool))]
}

func pow(b, e int) *big.Int { return new(big.Int).Exp(big.NewInt(int64(b)), big.NewInt(int64(e)), nil) }

// decimal text of m * 10^-d
func decText(m *big.Int, d int) string {
	neg := m.Sign() < 0
	s := new(big.Int).Abs(m).String()
	for len(s) <= d {
		s = "0" + s
	}
	if d > 0 {
		s = s[:len(s)-d] + "." + s[len(s)-d:]
	}
	if neg {
		s = "-" + s
	}
	return s
}

func (g *gen) genNumber() *Lit {
	l := &Lit{K: "n", Exact: true}
	switch c := g.r.Intn(100); {
	case c < 50: // small integers
		k := g.r.Intn(40) - 8
		l.Num = fmt.Sprint(k)
	case c < 65: // dyadic fractions k / 2^d, exact
		d := 1 + g.r.Intn(3)
		k := big.NewInt(int64(g.r.Intn(400) - 100))
		m := new(big.Int).Mul(k, pow(5, d))
		l.Num = decText(m, d)
		g.f("lit:number-fraction-exact")
	case c < 75: // big integers
		k, _ := new(big.Int).SetString("123456789012345678901234567890", 10)
		k.Add(k, big.NewInt(int64(g.r.Intn(1000))))
		if g.r.Chance(0.3) {
			k.Neg(k)
		}
		l.Num = k.String()
		g.f("lit:number-big-integer")
	case c < 85: // trailing zeros: exponent form available
		k := (1 + g.r.Intn(99)) * 100
		l.Num = fmt.Sprint(k)
	default: // inexact decimals: the same text in both syntaxes, value not compared in Coq
		l.Num = g.r.Pick("0.1", "3.14159", "1e-7", "2.5e-3", "0.30000000000000004", "123456.789")
		l.Exact = false
		g.f("lit:number-inexact")
	}
	l.NumJ = l.Num
	if l.Exact && g.r.Chance(0.3) {
		// another spelling of the same (exact) value in JSON
		t := l.Num
		neg := strings.HasPrefix(t, "-")
		t = strings.TrimPrefix(t, "-")
		switch {
		case !strings.Contains(t, ".") && strings.HasSuffix(t, "00"):
			t = strings.TrimSuffix(t, "00") + g.r.Pick("e2", "E2", "e+2", "E+02")
			g.f("lit:number-json-exponent-form")
		case strings.Contains(t, "."):
			i := strings.IndexByte(t, '.')
			d := len(t) - i - 1
			t = strings.TrimLeft(t[:i]+t[i+1:], "0")
			if t == "" {
				t = "0"
			}
			t = fmt.Sprintf("%se-%d", t, d)
			g.f("lit:number-json-exponent-form")
		default:
			t = t + ".0"
			g.f("lit:number-json-trailing-zero")
		}
		if neg {
			t = "-" + t
		}
		l.NumJ = t
	}
	return l
}

func (g *gen) genLit(depth int) *Lit {
	c := g.r.Intn(100)
	if depth >= 2 && c >= 70 {
		c = g.r.Intn(70)
	}
	switch {
	case c < 25:
		return &Lit{K: "s", S: g.genString()}
	case c < 50:
		return g.genNumber()
	case c < 60:
		return &Lit{K: "b", B: g.r.Chance(0.5)}
	case c < 70:
		g.f("lit:null")
		return &Lit{K: "z"}
	case c < 85:
		l := &Lit{K: "a"}
		n := g.r.Small(3)
		for i := 0; i < n; i++ {
			l.Elems = append(l.Elems, g.genLit(depth+1))
		}
		g.f("lit:array")
		return l
	default:
		l := &Lit{K: "o"}
		n := g.r.Small(3)
		used := map[string]bool{}
		for i := 0; i < n; i++ {
			k := g.r.Pick("k", "x", "y", "key two", "caf\u00e9", "for", "null", "1", "")
			if g.tmplOK && g.r.Chance(0.05) {
				k = "k${v}"
			}
			if used[k] {
				continue
			}
			used[k] = true
			l.Keys = append(l.Keys, k)
			l.Elems = append(l.Elems, g.genLit(depth+1))
		}
		g.f("lit:object")
		return l
	}
}

// genLitFor draws a literal that converts to ty (mostly).
func (g *gen) genLitFor(ty cty.Type, depth int) *Lit {
	if g.r.Chance(0.04) {
		g.f("cfg:attr-value-random-type")
		return g.genLit(depth)
	}
	switch {
	case ty == cty.String:
		if g.r.Chance(0.15) {
			return g.genNumber() // converts to string
		}
		return &Lit{K: "s", S: g.genString()}
	case ty == cty.Number:
		if g.r.Chance(0.1) {
			return &Lit{K: "s", S: g.r.Pick("12", "1.5", "-3")} // converts to number
		}
		return g.genNumber()
	case ty == cty.Bool:
		if g.r.Chance(0.1) {
			return &Lit{K: "s", S: g.r.Pick("true", "false")}
		}
		return &Lit{K: "b", B: g.r.Chance(0.5)}
	case ty == cty.DynamicPseudoType:
		return g.genLit(depth)
	case ty.IsListType() || ty.IsSetType():
		l := &Lit{K: "a"}
		n := g.r.Small(3)
		for i := 0; i < n; i++ {
			l.Elems = append(l.Elems, g.genLitFor(ty.ElementType(), depth+1))
		}
		return l
	case ty.IsMapType():
		l := &Lit{K: "o"}
		n := g.r.Small(3)
		used := map[string]bool{}
		for i := 0; i < n; i++ {
			k := g.r.Pick("k", "x", "y", "key two", "caf\u00e9")
			if used[k] {
				continue
			}
			used[k] = true
			l.Keys = append(l.Keys, k)
			l.Elems = append(l.Elems, g.genLitFor(ty.ElementType(), depth+1))
		}
		return l
	case ty.IsObjectType():
		l := &Lit{K: "o"}
		for _, k := range hv.SortedKeys(ty.AttributeTypes()) {
			if g.r.Chance(0.1) {
				continue // missing attribute: conversion error on both sides
			}
			l.Keys = append(l.Keys, k)
			l.Elems = append(l.Elems, g.genLitFor(ty.AttributeType(k), depth+1))
		}
		return l
	}
	return g.genLit(depth)
}

// ---- specs --------------------------------------------------------------------------------

func (g *gen) genAttrType(static bool) cty.Type {
	c := g.r.Intn(100)
	switch {
	case c < 25:
		return cty.String
	case c < 45:
		return cty.Number
	case c < 55:
		return cty.Bool
	case c < 65:
		return cty.List(cty.String)
	case c < 72:
		return cty.Map(cty.Number)
	case c < 78:
		return cty.Set(cty.Number)
	case c < 86:
		return cty.Object(map[string]cty.Type{"x": cty.Number, "y": cty.String})
	default:
		if static {
			return cty.String
		}
		return cty.DynamicPseudoType
	}
}

// genLevel draws the object spec of one body level. nlabels: number of
// BlockLabelSpecs to place at this level (indices 0..nlabels-1). static: the
// implied type must not contain the dynamic pseudo-type (below a BlockMapSpec).
func (g *gen) genLevel(depth int, nlabels int, static bool) *gspec {
	o := &gspec{Kind: "object"}
	add := func(k string, s *gspec) { o.Keys = append(o.Keys, k); o.Kids = append(o.Kids, s) }
	na := g.r.Small(3)
	if depth == 0 && na == 0 {
		na = 1
	}
	used := map[string]bool{}
	for i := 0; i < na; i++ {
		n := attrPool[g.r.Intn(len(attrPool))]
		if used[n] {
			continue
		}
		used[n] = true
		ty := g.genAttrType(static)
		a := &gspec{Kind: "attr", Name: n, Type: tyJSON(ty), Req: g.r.Chance(0.2)}
		if g.r.Chance(0.2) && (ty == cty.String || ty == cty.Number) {
			// DefaultSpec: primary attribute, default literal (or another attribute) of the same type
			var d *gspec
			if g.r.Chance(0.3) {
				n2 := n + "_alt"
				d = &gspec{Kind: "attr", Name: n2, Type: tyJSON(ty)}
				used[n2] = true
			} else if ty == cty.String {
				d = &gspec{Kind: "literal", Lit: litJSON(cty.StringVal("dflt"))}
			} else {
				d = &gspec{Kind: "literal", Lit: litJSON(cty.NumberIntVal(7))}
			}
			a.Req = false
			add(n, &gspec{Kind: "default", Kids: []*gspec{a, d}})
			g.f("spec:default")
			continue
		}
		add(n, a)
	}
	for i := 0; i < nlabels; i++ {
		add(fmt.Sprintf("lbl%d", i), &gspec{Kind: "blocklabel", Index: i, Name: fmt.Sprintf("label%d", i)})
	}
	if g.r.Chance(0.12) {
		add("lit", &gspec{Kind: "literal", Lit: litJSON(cty.StringVal("fixed"))})
	}
	if depth < 3 {
		nb := g.r.Small(3)
		if depth == 0 && nb == 0 {
			nb = 1
		}
		if depth == 2 && nb > 1 {
			nb = 1
		}
		usedT := map[string]bool{}
		for i := 0; i < nb; i++ {
			t := blockPool[g.r.Intn(len(blockPool))]
			if usedT[t] {
				continue
			}
			usedT[t] = true
			add(t, g.genBlockSpec(t, depth, static))
		}
	}
	return o
}

func (g *gen) genBlockSpec(t string, depth int, static bool) *gspec {
	kinds := []string{"block", "blocklist", "blockset", "blocktuple", "blockmap", "blockmap", "blockobject", "blockattrs"}
	if static {
		kinds = []string{"block", "blocklist", "blockset", "blockmap", "blockattrs"}
	}
	k := kinds[g.r.Intn(len(kinds))]
	s := &gspec{Kind: k, Name: t}
	defer func() {
		if k != "blockattrs" {
			g.f(fmt.Sprintf("labels:schema-count=%d|%s", len(s.Labels)+s.Kids[0].nLabelSpecs(), k))
		}
	}()
	// total label count of the block header: 0..6, for EVERY kind that can carry
	// labels (BlockLabelSpec children read each index; BlockMap/BlockObject take
	// 1..5 of them as LabelNames and leave the rest to BlockLabelSpecs)
	total := 0
	if g.r.Chance(0.55) {
		total = 1 + g.r.Intn(6)
	}
	switch k {
	case "block":
		s.Req = g.r.Chance(0.3)
		s.Kids = []*gspec{g.genLevel(depth+1, total, static)}
	case "blocklist", "blockset", "blocktuple":
		if g.r.Chance(0.15) {
			s.Min = g.r.Intn(3)
		}
		if g.r.Chance(0.15) {
			s.Max = 1 + g.r.Intn(3)
		}
		s.Kids = []*gspec{g.genLevel(depth+1, total, static)}
	case "blockmap", "blockobject":
		if total == 0 || g.r.Chance(0.3) {
			total = 1 + g.r.Intn(6)
		}
		n := 1 + g.r.Intn(total)
		if n > 5 {
			n = 5
		}
		for i := 0; i < n; i++ {
			s.Labels = append(s.Labels, fmt.Sprintf("key%d", i))
		}
		s.Kids = []*gspec{g.genLevel(depth+1, total-n, static || k == "blockmap")}
	case "blockattrs":
		ty := []cty.Type{cty.String, cty.Number, cty.Bool, cty.List(cty.String)}[g.r.Intn(4)]
		if !static && g.r.Chance(0.2) {
			ty = cty.DynamicPseudoType
		}
		s.Type = tyJSON(ty)
		s.Req = g.r.Chance(0.3)
	}
	return s
}

// ---- configurations -------------------------------------------------------------------------

// labels that differ from the pool's favourites, to end a shared prefix
var freshLabels = []string{"z1", "z2", "z3", "other"}

func lcp(a, b []string) int {
	n := 0
	for n < len(a) && n < len(b) && a[n] == b[n] {
		n++
	}
	return n
}

func lessLabels(a, b []string) bool {
	for i := 0; i < len(a) && i < len(b); i++ {
		if a[i] != b[i] {
			return a[i] < b[i]
		}
	}
	return len(a) < len(b)
}

func (g *gen) labels(n int) []string {
	out := make([]string, n)
	for i := range out {
		out[i] = labelPool[g.r.Intn(len(labelPool))]
	}
	return out
}

// genCfg draws a configuration for the body level described by t.
func (g *gen) genCfg(t *STree, depth int) *Cfg {
	c := &Cfg{Items: []Item{}}
	if t.Just {
		n := g.r.Small(4)
		used := map[string]bool{}
		for i := 0; i < n; i++ {
			name := g.r.Pick("a", "b", "k1", "k2", "zz", "name")
			if used[name] {
				continue
			}
			used[name] = true
			ty := t.EType
			if ty == cty.NilType {
				ty = cty.DynamicPseudoType
			}
			c.Items = append(c.Items, Item{Attr: name, Val: g.genLitFor(ty, 1)})
		}
		return c
	}
	var attrs, blocks []Item
	for _, a := range t.Attrs {
		p := 0.75
		if strings.HasSuffix(a.Name, "_alt") {
			p = 0.5
		}
		if g.r.Chance(p) {
			ty, ok := t.ATypes[a.Name]
			if !ok {
				ty = cty.DynamicPseudoType
			}
			attrs = append(attrs, Item{Attr: a.Name, Val: g.genLitFor(ty, 0)})
		} else if a.Req {
			g.f("cfg:required-attr-missing")
		}
	}
	for _, b := range t.Blocks {
		n := 0
		switch kind := t.Kind[b.Type]; {
		case strings.HasPrefix(kind, "blockattrs"), kind == "block":
			n = []int{0, 1, 1, 1, 1, 2}[g.r.Intn(6)]
		default:
			n = g.r.Small(4)
		}
		if b.Labels > 0 && n > 0 && g.r.Chance(0.6) {
			n += 1 + g.r.Intn(3) // labelled types: enough siblings for names to collide
		}
		var sibs []Item
		for i := 0; i < n; i++ {
			var body *Cfg
			if depth < 4 && (b.Labels < 3 || i < 2 || g.r.Chance(0.3)) {
				body = g.genCfg(t.kid(b.Type), depth+1)
			} else {
				body = &Cfg{Items: []Item{}}
			}
			ls := g.labels(b.Labels)
			if i > 0 && b.Labels > 0 && g.r.Chance(0.8) {
				// share a label PREFIX of a chosen length with an earlier sibling: every
				// length 0..L (L = the identical tuple, which BlockMap/BlockObject reject)
				prev := sibs[g.r.Intn(len(sibs))].Labels
				p := g.r.Intn(b.Labels + 1)
				copy(ls, prev[:p])
				if p < b.Labels && ls[p] == prev[p] {
					ls[p] = freshLabels[g.r.Intn(len(freshLabels))] // differ right after the prefix
				}
			}
			sibs = append(sibs, Item{Type: b.Type, Labels: ls, Body: body})
		}
		if b.Labels > 0 && len(sibs) > 1 {
			if g.r.Chance(0.6) {
				// siblings with a common prefix next to each other: they can share nested label objects
				sort.SliceStable(sibs, func(i, j int) bool { return lessLabels(sibs[i].Labels, sibs[j].Labels) })
				g.f("cfg:siblings-sorted-by-labels")
			}
			for i := range sibs {
				for j := i + 1; j < len(sibs); j++ {
					g.f(fmt.Sprintf("cfg:sibling-pair labels=%d shared-prefix=%d", b.Labels, lcp(sibs[i].Labels, sibs[j].Labels)))
				}
			}
		}
		blocks = append(blocks, sibs...)
	}
	if g.r.Chance(0.05) {
		// names the schema does not know: reported by both syntaxes
		if g.r.Chance(0.5) {
			attrs = append(attrs, Item{Attr: "zz", Val: g.genLit(1)})
			g.f("cfg:unknown-attribute")
		} else {
			blocks = append(blocks, Item{Type: "nob", Labels: g.labels(g.r.Intn(5)), Body: &Cfg{Items: []Item{}}})
			g.f("cfg:unknown-block-type")
		}
	}
	all := append(attrs, blocks...)
	if g.r.Chance(0.35) {
		g.r.Shuffle(len(all), func(i, j int) { all[i], all[j] = all[j], all[i] })
		g.f("cfg:items-shuffled")
	}
	c.Items = append(c.Items, all...)
	return c
}

// ---- JSON trees ---------------------------------------------------------------------------------

type jn struct {
	kind  byte // 'o' object, 'a' array, 's' string, 'n' number, 'z' null, 'b' bool
	mem   []jm
	elems []*jn
	s     string // string content / number text
	b     bool
}
type jm struct {
	name string
	val  *jn
}

func jstr(s string) *jn { return &jn{kind: 's', s: s} }
func jnull() *jn        { return &jn{kind: 'z'} }
func jobj(m []jm) *jn   { return &jn{kind: 'o', mem: m} }
func jarr(e []*jn) *jn  { return &jn{kind: 'a', elems: e} }

// escT escapes template introducers for JSON strings evaluated with a non-nil
// context (json/spec.md "Strings": full expression mode).
func escT(s string, tmpl bool) string {
	if !tmpl {
		return s
	}
	s = strings.ReplaceAll(s, "${", "$${")
	return strings.ReplaceAll(s, "%{", "%%{")
}

func litJn(l *Lit, tmpl bool) *jn {
	switch l.K {
	case "s":
		return jstr(escT(l.S, tmpl))
	case "n":
		return &jn{kind: 'n', s: l.NumJ}
	case "b":
		return &jn{kind: 'b', b: l.B}
	case "z":
		return jnull()
	case "a":
		es := []*jn{}
		for _, e := range l.Elems {
			es = append(es, litJn(e, tmpl))
		}
		return jarr(es)
	case "o":
		ms := []jm{}
		for i, e := range l.Elems {
			ms = append(ms, jm{escT(l.Keys[i], tmpl), litJn(e, tmpl)})
		}
		return jobj(ms)
	}
	panic("lit kind")
}

// enc chooses one derivation of json_encodes.
type enc struct {
	g    *gen
	tmpl bool
	x    map[string]bool // encoding form | spec kind pairs used (histogram)
}

func (e *enc) form(form, kind string) {
	e.g.f("enc:" + form)
	if kind != "" {
		e.x[form+"|"+kind] = true
	}
}

// splitRuns cuts a list of n elements into consecutive non-empty pieces.
func (e *enc) cuts(n int, p float64) [][2]int {
	var out [][2]int
	i := 0
	for i < n {
		j := i + 1
		for j < n && !e.g.r.Chance(p) {
			j++
		}
		out = append(out, [2]int{i, j})
		i = j
	}
	return out
}

// layout puts a property sequence into one object or an array of objects.
func (e *enc) layout(ms []jm, allowArray bool, form, kind string) *jn {
	if allowArray && e.g.r.Chance(0.25) {
		e.form(form, kind)
		var es []*jn
		for _, c := range e.cuts(len(ms), 0.5) {
			es = append(es, jobj(append([]jm(nil), ms[c[0]:c[1]]...)))
			if e.g.r.Chance(0.1) {
				es = append(es, jobj(nil))
			}
		}
		if len(ms) == 0 || e.g.r.Chance(0.1) {
			es = append(es, jobj(nil))
		}
		return jarr(es)
	}
	return jobj(ms)
}

func (e *enc) body(c *Cfg, t *STree, allowArray bool, kind string) *jn {
	ms := e.members(c, t)
	if e.g.r.Chance(0.15) {
		n := 1 + e.g.r.Intn(2)
		for i := 0; i < n; i++ {
			at := e.g.r.Intn(len(ms) + 1)
			v := []*jn{jstr("comment"), jnull(), jobj([]jm{{"x", jstr("y")}}), jarr([]*jn{jstr("c")}), {kind: 'n', s: "1"}}[e.g.r.Intn(5)]
			ms = append(ms[:at:at], append([]jm{{"//", v}}, ms[at:]...)...)
		}
		e.form("comment-property", kind)
	}
	if t.Just {
		return jobj(ms)
	}
	return e.layout(ms, allowArray, "body-array-of-objects", kind)
}

// emptyRun: "no blocks" of a type with k labels.
func (e *enc) emptyRun(k int, kind string) *jn {
	if k == 0 {
		if e.g.r.Chance(0.5) {
			e.form("run-null", kind)
			return jnull()
		}
		e.form("run-empty-array", kind)
		return jarr(nil)
	}
	e.form("run-empty-below-labels", kind)
	l := labelPool[e.g.r.Intn(len(labelPool))]
	inner := e.emptyRun(k-1, "")
	if e.g.r.Chance(0.3) {
		return jarr([]*jn{jobj([]jm{{l, inner}})})
	}
	return jobj([]jm{{l, inner}})
}

func (e *enc) members(c *Cfg, t *STree) []jm {
	var ms []jm
	i := 0
	for i < len(c.Items) {
		it := &c.Items[i]
		if it.IsAttr() {
			ms = append(ms, jm{it.Attr, litJn(it.Val, e.tmpl)})
			i++
			continue
		}
		j := i + 1
		for j < len(c.Items) && !c.Items[j].IsAttr() && c.Items[j].Type == it.Type &&
			len(c.Items[j].Labels) == len(it.Labels) {
			j++
		}
		kind := ""
		var kid *STree = justTree
		if !t.Just {
			kind = t.Kind[it.Type]
			kid = t.kid(it.Type)
		}
		if _, known := t.labelsOf(it.Type); !known {
			kind = "unknown-type"
			kid = justTree // the default child of the Coq schema tree
		}
		// the run i..j of consecutive blocks of one type: one property, or split
		// over repeated property names
		cs := e.cuts(j-i, 0.4)
		if j-i > 1 {
			if len(cs) == 1 {
				e.form("run-merged-under-one-property", kind)
			} else if len(cs) == j-i {
				e.form("run-split-duplicate-names", kind)
			} else {
				e.form("run-partly-merged", kind)
			}
		}
		for _, cc := range cs {
			var run []*Item
			for k := i + cc[0]; k < i+cc[1]; k++ {
				run = append(run, &c.Items[k])
			}
			ms = append(ms, jm{it.Type, e.run(run, 0, kid, kind)})
		}
		i = j
	}
	// degenerate "no blocks" properties of block types the schema knows
	if !t.Just && len(t.Blocks) > 0 && e.g.r.Chance(0.12) {
		b := t.Blocks[e.g.r.Intn(len(t.Blocks))]
		if k, ok := t.labelsOf(b.Type); ok && !t.hasAttr(b.Type) {
			at := e.g.r.Intn(len(ms) + 1)
			ms = append(ms[:at:at], append([]jm{{b.Type, e.emptyRun(k, t.Kind[b.Type])}}, ms[at:]...)...)
		}
	}
	return ms
}

// run encodes consecutive blocks of one type below label level `level`.
func (e *enc) run(blocks []*Item, level int, kid *STree, kind string) *jn {
	k := len(blocks[0].Labels)
	if level == k {
		if len(blocks) == 1 && e.g.r.Chance(0.65) {
			e.form("block-single-object", kind)
			return e.body(blocks[0].Body, kid, false, kind)
		}
		e.form("block-array-of-bodies", kind)
		var es []*jn
		for _, b := range blocks {
			nested := !kid.Just && e.g.r.Chance(0.2)
			x := e.body(b.Body, kid, nested, kind)
			if x.kind == 'a' {
				e.form("block-array-element-is-array-body", kind)
			}
			es = append(es, x)
		}
		return jarr(es)
	}
	// maximal groups of consecutive blocks with the same label at this level,
	// possibly cut further (the same label repeated)
	type group struct {
		label string
		items []*Item
	}
	var groups []group
	for _, b := range blocks {
		l := b.Labels[level]
		if n := len(groups); n > 0 && groups[n-1].label == l && !e.g.r.Chance(0.25) {
			groups[n-1].items = append(groups[n-1].items, b)
		} else {
			if n > 0 && groups[n-1].label == l {
				e.form("label-repeated-property", kind)
			}
			groups = append(groups, group{l, []*Item{b}})
		}
	}
	var m []jm
	for _, gr := range groups {
		if len(gr.items) > 1 {
			e.form("label-shared-by-several-blocks", kind)
		}
		m = append(m, jm{gr.label, e.run(gr.items, level+1, kid, kind)})
	}
	if e.g.r.Chance(0.08) {
		// a label property that denotes no block
		at := e.g.r.Intn(len(m) + 1)
		m = append(m[:at:at], append([]jm{{labelPool[e.g.r.Intn(len(labelPool))], e.emptyRun(k-level-1, kind)}}, m[at:]...)...)
	}
	if len(groups) > 1 {
		e.form("label-level-several-properties", kind)
		// siblings that share their first `level` labels meet in ONE label object
		// (or array of objects) at depth level+1 of k
		e.g.f(fmt.Sprintf("enc:siblings-meet labels=%d at-level=%d", k, level+1))
	}
	return e.layout(m, true, "label-level-array-of-objects", kind)
}
