package main

// Specs and schema trees for C03: the harness's own representation of an hcldec
// spec tree (one object spec per body level), the Go hcldec.Spec made from it,
// and the schema TREE it implies (Body/JsonEncodes.v [stree]).

import (
	"fmt"
	"sort"
	"strings"

	"github.com/hashicorp/hcl/v2"
	"github.com/hashicorp/hcl/v2/hcldec"
	"github.com/zclconf/go-cty/cty"
	ctyjson "github.com/zclconf/go-cty/cty/json"
	"hclverif/hv"
)

// gspec: one node of the spec tree. A body level is always an "object" whose
// members are attr / default / literal / blocklabel / block* specs.
type gspec struct {
	Kind   string   `json:"k"`
	Name   string   `json:"n,omitempty"` // attribute name / block type / label name
	Type   string   `json:"t,omitempty"` // cty type (JSON) of AttrSpec.Type / BlockAttrsSpec.ElementType
	Req    bool     `json:"req,omitempty"`
	Min    int      `json:"min,omitempty"`
	Max    int      `json:"max,omitempty"`
	Labels []string `json:"labels,omitempty"`
	Index  int      `json:"idx,omitempty"`
	Keys   []string `json:"keys,omitempty"` // ObjectSpec keys, parallel to Kids
	Kids   []*gspec `json:"kids,omitempty"` // object members; nested = Kids[0]; default = primary, default
	Lit    string   `json:"lit,omitempty"`  // LiteralSpec value (typed JSON)
}

func tyJSON(t cty.Type) string {
	b, err := t.MarshalJSON()
	if err != nil {
		panic(err)
	}
	return string(b)
}
func tyOf(s string) cty.Type {
	t, err := ctyjson.UnmarshalType([]byte(s))
	if err != nil {
		panic(fmt.Sprintf("bad type %q: %v", s, err))
	}
	return t
}
func litJSON(v cty.Value) string {
	b, err := ctyjson.Marshal(v, cty.DynamicPseudoType)
	if err != nil {
		panic(err)
	}
	return string(b)
}
func litOf(s string) cty.Value {
	v, err := ctyjson.Unmarshal([]byte(s), cty.DynamicPseudoType)
	if err != nil {
		panic(fmt.Sprintf("bad literal %q: %v", s, err))
	}
	return v
}

func (s *gspec) nested() *gspec { return s.Kids[0] }

func (s *gspec) toGo() hcldec.Spec {
	switch s.Kind {
	case "object":
		m := hcldec.ObjectSpec{}
		for i, k := range s.Keys {
			m[k] = s.Kids[i].toGo()
		}
		return m
	case "attr":
		return &hcldec.AttrSpec{Name: s.Name, Type: tyOf(s.Type), Required: s.Req}
	case "literal":
		return &hcldec.LiteralSpec{Value: litOf(s.Lit)}
	case "block":
		return &hcldec.BlockSpec{TypeName: s.Name, Nested: s.nested().toGo(), Required: s.Req}
	case "blocklist":
		return &hcldec.BlockListSpec{TypeName: s.Name, Nested: s.nested().toGo(), MinItems: s.Min, MaxItems: s.Max}
	case "blocktuple":
		return &hcldec.BlockTupleSpec{TypeName: s.Name, Nested: s.nested().toGo(), MinItems: s.Min, MaxItems: s.Max}
	case "blockset":
		return &hcldec.BlockSetSpec{TypeName: s.Name, Nested: s.nested().toGo(), MinItems: s.Min, MaxItems: s.Max}
	case "blockmap":
		return &hcldec.BlockMapSpec{TypeName: s.Name, LabelNames: append([]string(nil), s.Labels...), Nested: s.nested().toGo()}
	case "blockobject":
		return &hcldec.BlockObjectSpec{TypeName: s.Name, LabelNames: append([]string(nil), s.Labels...), Nested: s.nested().toGo()}
	case "blockattrs":
		return &hcldec.BlockAttrsSpec{TypeName: s.Name, ElementType: tyOf(s.Type), Required: s.Req}
	case "blocklabel":
		return &hcldec.BlockLabelSpec{Index: s.Index, Name: s.Name}
	case "default":
		return &hcldec.DefaultSpec{Primary: s.Kids[0].toGo(), Default: s.Kids[1].toGo()}
	}
	panic("unknown spec kind " + s.Kind)
}

// nLabelSpecs: the BlockLabelSpecs placed at this body level.
func (s *gspec) nLabelSpecs() int {
	n := 0
	for _, k := range s.Kids {
		if k.Kind == "blocklabel" {
			n++
		}
	}
	return n
}

func (s *gspec) isBlockKind() bool {
	switch s.Kind {
	case "block", "blocklist", "blocktuple", "blockset", "blockmap", "blockobject", "blockattrs":
		return true
	}
	return false
}

// kindName distinguishes the label arities of BlockMapSpec in histograms.
func (s *gspec) kindName() string {
	if s.Kind == "blockmap" || s.Kind == "blockobject" {
		return fmt.Sprintf("%s(%d)", s.Kind, len(s.Labels))
	}
	return s.Kind
}

// sameBodyKids mirrors visitSameBodyChildren for the kinds generated here.
func (s *gspec) sameBodyKids() []*gspec {
	switch s.Kind {
	case "object", "default":
		return s.Kids
	}
	return nil
}

func (s *gspec) kinds(into map[string]bool) {
	into[s.kindName()] = true
	for _, k := range s.Kids {
		k.kinds(into)
	}
}

func (s *gspec) String() string {
	var b strings.Builder
	s.write(&b)
	return b.String()
}

func (s *gspec) write(b *strings.Builder) {
	b.WriteString(s.Kind)
	switch s.Kind {
	case "attr", "blockattrs":
		fmt.Fprintf(b, "(%s:%s req=%v)", s.Name, tyOf(s.Type).FriendlyName(), s.Req)
	case "literal":
		fmt.Fprintf(b, "(%s)", s.Lit)
	case "blocklabel":
		fmt.Fprintf(b, "(%d)", s.Index)
	case "block":
		fmt.Fprintf(b, "(%s req=%v)", s.Name, s.Req)
	case "blocklist", "blocktuple", "blockset":
		fmt.Fprintf(b, "(%s %d..%d)", s.Name, s.Min, s.Max)
	case "blockmap", "blockobject":
		fmt.Fprintf(b, "(%s %v)", s.Name, s.Labels)
	}
	if len(s.Kids) > 0 {
		b.WriteString("[")
		for i, k := range s.Kids {
			if i > 0 {
				b.WriteString(", ")
			}
			if s.Kind == "object" {
				b.WriteString(s.Keys[i] + "=")
			}
			k.write(b)
		}
		b.WriteString("]")
	}
}

// ---- schema trees -------------------------------------------------------------------

type SAttr struct {
	Name string
	Req  bool
}
type SBlock struct {
	Type   string
	Labels int
}

// STree mirrors Body/JsonEncodes.v [stree]: Just = JustAttributes level.
type STree struct {
	Just   bool
	Attrs  []SAttr
	Blocks []SBlock
	Kids   map[string]*STree
	// bookkeeping for the generator and the histogram (not part of the Coq term)
	Kind   map[string]string   // block type -> spec kind
	ATypes map[string]cty.Type // attribute name -> wanted type
	EType  cty.Type            // Just: BlockAttrsSpec.ElementType
}

var justTree = &STree{Just: true}

func (t *STree) labelsOf(typ string) (int, bool) {
	// the LAST entry wins, as in Go's map built from the schema slice
	n, ok := 0, false
	for _, b := range t.Blocks {
		if b.Type == typ {
			n, ok = b.Labels, true
		}
	}
	return n, ok
}

func (t *STree) hasAttr(name string) bool {
	for _, a := range t.Attrs {
		if a.Name == name {
			return true
		}
	}
	return false
}

func (t *STree) kid(typ string) *STree {
	if k, ok := t.Kids[typ]; ok {
		return k
	}
	return justTree
}

func (t *STree) schema() *hcl.BodySchema {
	s := &hcl.BodySchema{}
	for _, a := range t.Attrs {
		s.Attributes = append(s.Attributes, hcl.AttributeSchema{Name: a.Name, Required: a.Req})
	}
	for _, b := range t.Blocks {
		ls := make([]string, b.Labels)
		for i := range ls {
			ls[i] = fmt.Sprintf("label%d", i)
		}
		s.Blocks = append(s.Blocks, hcl.BlockHeaderSchema{Type: b.Type, LabelNames: ls})
	}
	return s
}

// streeOf computes the schema tree a body-level spec implies: the level schema
// is hcldec.ImpliedSchema of the real spec, the children come from the block
// specs decoded against the same body.
func streeOf(s *gspec) *STree {
	t := &STree{Kids: map[string]*STree{}, Kind: map[string]string{}, ATypes: map[string]cty.Type{}}
	sch := hcldec.ImpliedSchema(s.toGo())
	for _, a := range sch.Attributes {
		t.Attrs = append(t.Attrs, SAttr{a.Name, a.Required})
	}
	for _, b := range sch.Blocks {
		t.Blocks = append(t.Blocks, SBlock{b.Type, len(b.LabelNames)})
	}
	// hcldec walks ObjectSpec (a Go map) in random order: fix the order
	sort.Slice(t.Attrs, func(i, j int) bool { return t.Attrs[i].Name < t.Attrs[j].Name })
	sort.SliceStable(t.Blocks, func(i, j int) bool { return t.Blocks[i].Type < t.Blocks[j].Type })
	var visit func(x *gspec)
	visit = func(x *gspec) {
		switch {
		case x.Kind == "attr":
			t.ATypes[x.Name] = tyOf(x.Type)
		case x.Kind == "blockattrs":
			t.Kids[x.Name] = &STree{Just: true, EType: tyOf(x.Type)}
			t.Kind[x.Name] = x.kindName()
		case x.isBlockKind():
			t.Kids[x.Name] = streeOf(x.nested())
			t.Kind[x.Name] = x.kindName()
		}
		for _, k := range x.sameBodyKids() {
			visit(k)
		}
	}
	visit(s)
	return t
}

func coqName(s string) string {
	plain := s != ""
	for _, c := range []byte(s) {
		if c < 0x20 || c > 0x7e || c == '"' {
			plain = false
		}
	}
	if plain {
		return "\"" + s + "\""
	}
	if s == "" {
		return "\"\""
	}
	return "(sx " + hv.Hexs([]byte(s)) + ")"
}

func coqNames(xs []string) string {
	parts := make([]string, len(xs))
	for i, x := range xs {
		parts[i] = coqName(x)
	}
	return hv.CoqList(parts)
}

func (t *STree) coq() string {
	if t.Just {
		return "SJust"
	}
	var as, bs []string
	for _, a := range t.Attrs {
		as = append(as, fmt.Sprintf("(%s, %s)", coqName(a.Name), hv.CoqBool(a.Req)))
	}
	for _, b := range t.Blocks {
		bs = append(bs, fmt.Sprintf("(%s, %d%%nat)", coqName(b.Type), b.Labels))
	}
	keys := make([]string, 0, len(t.Kids))
	for k := range t.Kids {
		keys = append(keys, k)
	}
	sort.Strings(keys)
	fn := "SJust"
	for i := len(keys) - 1; i >= 0; i-- {
		fn = fmt.Sprintf("if String.eqb t %s then %s else %s", coqName(keys[i]), t.Kids[keys[i]].coq(), fn)
	}
	return fmt.Sprintf("(SNode %s %s (fun t => %s))", hv.CoqList(as), hv.CoqList(bs), fn)
}
