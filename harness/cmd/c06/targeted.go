package main

// targeted.go: a stream aimed at the laundering shapes the Coq development (Eval/MarksNI*.v) found
// while proving non-interference: a marked value used as a SELECTOR (index, key, condition, length of
// an expanded or iterated collection) whose choice changes the TYPE or SHAPE of a sub-result that is
// then discarded, converted or unified (unselected conditional arm, empty expansion, dynamically
// typed index key, splat element type). The two scopes are built by hand: same types, same marks,
// different marked contents chosen from small sets that hit different elements.
import (
	"strings"

	"hclverif/hv"

	"github.com/hashicorp/hcl/v2"
	"github.com/hashicorp/hcl/v2/hclsyntax"
	"github.com/zclconf/go-cty/cty"
)

type tgtVar struct {
	name    string
	choices []cty.Value // all of one type; marked by the generator
}

func n(i int64) cty.Value { return cty.NumberIntVal(i) }

var tgtMarked = []tgtVar{
	{"i", []cty.Value{n(0), n(1), n(0), n(1), n(2), n(5), cty.UnknownVal(cty.Number)}},
	{"k", []cty.Value{cty.StringVal("a"), cty.StringVal("b"), cty.StringVal("zz"), cty.UnknownVal(cty.String)}},
	{"ml", []cty.Value{cty.ListValEmpty(cty.Number), cty.ListVal([]cty.Value{n(1)}), cty.ListVal([]cty.Value{n(1), n(2)}), cty.ListVal([]cty.Value{n(3), n(4), n(5)})}},
	{"mb", []cty.Value{cty.True, cty.False, cty.NullVal(cty.Bool), cty.UnknownVal(cty.Bool)}},
	{"mn", []cty.Value{cty.NullVal(cty.String), cty.StringVal("a"), cty.NullVal(cty.String), cty.StringVal("b")}},
	{"mob", []cty.Value{cty.NullVal(cty.Object(map[string]cty.Type{"a": cty.Number})), cty.ObjectVal(map[string]cty.Value{"a": n(1)})}},
	{"mm", []cty.Value{cty.MapValEmpty(cty.String), cty.MapVal(map[string]cty.Value{"a": cty.StringVal("x")}), cty.MapVal(map[string]cty.Value{"a": cty.StringVal("y"), "b": cty.StringVal("z")})}},
}

// nested marks: the mark sits on an element, not on the variable
var tgtNested = []tgtVar{
	{"nn", []cty.Value{n(0), n(1), n(7)}},
}

func tgtScope(r *hv.Rng) (*hcl.EvalContext, *hcl.EvalContext) {
	fixed := map[string]cty.Value{
		"mt": cty.TupleVal([]cty.Value{n(1), cty.StringVal("a"), cty.True}),
		"mo": cty.ObjectVal(map[string]cty.Value{"a": n(1), "b": cty.StringVal("x")}),
		"l":  cty.ListVal([]cty.Value{n(10), n(20)}),
		"lt": cty.ListVal([]cty.Value{cty.TupleVal([]cty.Value{cty.StringVal("a"), n(1)})}),
		"ls": cty.ListVal([]cty.Value{cty.StringVal("p"), cty.StringVal("q")}),
		"ub": cty.UnknownVal(cty.Bool),
	}
	v1, v2 := map[string]cty.Value{}, map[string]cty.Value{}
	for k, v := range fixed {
		v1[k], v2[k] = v, v
	}
	mark := "m" + string(rune('0'+r.Intn(2)))
	for _, tv := range tgtMarked {
		a := r.Intn(len(tv.choices))
		b := r.Intn(len(tv.choices))
		v1[tv.name] = tv.choices[a].Mark(mark)
		v2[tv.name] = tv.choices[b].Mark(mark)
	}
	for _, tv := range tgtNested {
		a, b := tv.choices[r.Intn(len(tv.choices))], tv.choices[r.Intn(len(tv.choices))]
		v1["nl"] = cty.TupleVal([]cty.Value{a.Mark(mark), n(2)})
		v2["nl"] = cty.TupleVal([]cty.Value{b.Mark(mark), n(2)})
	}
	// collections whose ELEMENTS carry the mark (the collection itself is unmarked): filters, keys and
	// conditions computed from the iterated element
	srv := func() cty.Value {
		var es []cty.Value
		for _, nm := range []string{"a", "b", "c"} {
			es = append(es, cty.ObjectVal(map[string]cty.Value{"name": cty.StringVal(nm), "on": cty.BoolVal(r.Chance(0.5)).Mark(mark),
				"w": n(int64(r.Intn(3))).Mark(mark)}))
		}
		return cty.ListVal(es)
	}
	v1["srv"], v2["srv"] = srv(), srv()
	mv := func() cty.Value {
		return cty.MapVal(map[string]cty.Value{"a": cty.StringVal(r.Pick("x", "y")).Mark(mark), "b": cty.StringVal(r.Pick("x", "z")).Mark(mark)})
	}
	v1["mv"], v2["mv"] = mv(), mv()
	return &hcl.EvalContext{Variables: v1, Functions: hv.HarnessFuncs}, &hcl.EvalContext{Variables: v2, Functions: hv.HarnessFuncs}
}

var tgtAtoms = []string{
	"mt[i]", "l[i]", "ls[i]", "ml[0]", "nl[0]", "mt[nl[0]]", "i", "mo[k]", "mm[k]", "k", "ml", "[mt[i]]", "[for x in ml : x]",
	"ml[*]", "mb", "i == 0", "[mt[i], 1]", "{a = mt[i]}", "mm", "[for x in ml : mt[x]]", "nl", "lt[0][i]",
	"mn[*]", "mob[*]", "mob.*.a", "mb[*]", "mn[*] == [] ? \"unset\" : \"set\"", "[for x in mn[*] : x]", "mob[*].a", "mn == null", "mob == null ? 0 : 1",
	"[for s in srv : s.name if s.on]", "{for s in srv : s.name => 1 if s.on}", "{for s in srv : s.name => s.name... if s.w == 1}",
	"[for s in srv : s.name if s.w != 0]", "{for s in srv : \"k${s.w}\" => s.name...}", "[for k, v in mv : k if v == \"x\"]",
	"{for k, v in mv : v => k...}", "srv[*].name", "[for s in srv : s.on ? s.name : \"-\"]", "srv[srv[0].w].name", "mt[srv[1].w]",
	"\"%{ for s in srv }%{ if s.on }${s.name}%{ endif }%{ endfor }\"", "[for s in srv : s.name if s.on][0]",
}

// contexts: H is replaced by a sub-expression
var tgtCtx = []string{
	"false ? [H] : l", "true ? l : [H]", "mb ? [H] : l", "true ? 1 : H", "false ? H : ls", "ub ? H : l", "true ? {a = 1} : {a = H}",
	"sum(H...)", "first(H...)", "pair(H, 1)", "sum(1, H...)", "isnull(H)", "upper(H)",
	"l[H]", "mt[H]", "ls[H]", "lt[*][H]", "{(H) = 1}", "\"x${H}\"", "[for x in l : x if H]", "[for x in H : x]", "[for x in l : H]",
	"{for x in ls : x => H}", "{for x in H : \"k${x}\" => x}", "H == 1", "true || H", "false && H", "H ? 1 : \"a\"", "[H, 1]", "{a = H}",
	"[H][0]", "H[*]", "[for x in l : x if x != H]", "\"%{ for x in H }${x}%{ endfor }\"", "\"%{ if H }a%{ else }b%{ endif }\"",
}

// tgtMarkOf returns the single mark label used by a targeted scope.
func tgtMarkOf(ctx *hcl.EvalContext) string {
	for _, k := range hv.SortedKeys(ctx.Variables) {
		v := ctx.Variables[k]
		if v.IsMarked() {
			for m := range v.Marks() {
				if s, ok := m.(string); ok {
					return s
				}
			}
		}
	}
	return ""
}

// conditional contexts (the hole is an arm or nested inside an arm), chosen with high probability:
// the arm that is NOT selected still drives the result type
var tgtCond = []string{"false ? [H] : l", "true ? l : [H]", "true ? [5] : [H]", "false ? [H] : [5]", "true ? {v = 5} : {v = H}", "false ? {v = H} : {v = 5}",
	"mb ? [H] : l", "ub ? [H] : l", "ub ? H : 1", "true ? 1 : H", "false ? H : ls", "true ? [[5]] : [[H]]", "true ? {a = {b = 5}} : {a = {b = H}}",
	"i == 0 ? [H] : l", "true ? ls : [H, H]"}

func wrapH(c, h string, first bool) string {
	if !first && !strings.HasPrefix(h, "[") && !strings.HasPrefix(h, "{") && !strings.HasPrefix(h, "\"") {
		h = "(" + h + ")"
	}
	return strings.ReplaceAll(c, "H", h)
}

func tgtExpr(r *hv.Rng) string {
	e := tgtAtoms[r.Intn(len(tgtAtoms))]
	first := true
	for d := r.Intn(2); d > 0; d-- {
		e = wrapH(tgtCtx[r.Intn(len(tgtCtx))], e, first)
		first = false
	}
	if r.Chance(0.5) {
		e = wrapH(tgtCond[r.Intn(len(tgtCond))], e, first)
		first = false
	}
	for d := r.Intn(2); d > 0; d-- {
		e = wrapH(tgtCtx[r.Intn(len(tgtCtx))], e, first)
		first = false
	}
	return e
}

// ---- the "error in the unselected conditional arm" finding -------------------------------------------
//
// ConditionalExpr.Value evaluates both arms, lets BOTH result types drive unification/conversion, and
// then drops the diagnostics of the unselected arm. Operations that fail return an unmarked DynamicVal,
// so when a marked value decides WHETHER the unselected arm fails (an index out of range, a missing
// key), the selected value is converted or not, and the run in which the arm failed carries no mark.
// Recognised narrowly: some conditional of the expression has an unselected arm that FAILS in at
// least one of the two scopes (iterator names of enclosing for expressions bound to DynamicVal);
// with an unknown condition both arms count as unselected (the diagnostics of both are dropped).
type condWalker struct {
	ctx1, ctx2 *hcl.EvalContext
	locals     []map[string]struct{}
	found      bool
}

func (w *condWalker) child(ctx *hcl.EvalContext) *hcl.EvalContext {
	if len(w.locals) == 0 {
		return ctx
	}
	c := ctx.NewChild()
	c.Variables = map[string]cty.Value{}
	for _, m := range w.locals {
		for k := range m {
			c.Variables[k] = cty.DynamicVal
		}
	}
	return c
}

func unselectedArmFails(ce *hclsyntax.ConditionalExpr, ctx *hcl.EvalContext) (fails, decided bool) {
	defer func() {
		if recover() != nil {
			fails, decided = false, false
		}
	}()
	cv, cd := ce.Condition.Value(ctx)
	if cd.HasErrors() {
		return false, false
	}
	cv, _ = cv.Unmark()
	if !cv.IsKnown() && (cv.Type() == cty.Bool || cv.Type() == cty.DynamicPseudoType) {
		// unknown condition: the result is derived from BOTH arms and the diagnostics of both are dropped
		_, td := ce.TrueResult.Value(ctx)
		_, fd := ce.FalseResult.Value(ctx)
		return td.HasErrors() || fd.HasErrors(), true
	}
	if !cv.IsKnown() || cv.IsNull() || cv.Type() != cty.Bool {
		return false, false
	}
	other := ce.FalseResult
	if cv.False() {
		other = ce.TrueResult
	}
	_, od := other.Value(ctx)
	return od.HasErrors(), true
}

func (w *condWalker) Enter(n hclsyntax.Node) hcl.Diagnostics {
	switch t := n.(type) {
	case hclsyntax.ChildScope:
		w.locals = append(w.locals, t.LocalNames)
	case *hclsyntax.ConditionalExpr:
		f1, d1 := unselectedArmFails(t, w.child(w.ctx1))
		f2, d2 := unselectedArmFails(t, w.child(w.ctx2))
		// an arm whose diagnostics are dropped fails in at least one of the two runs: what it
		// leaves behind (an unmarked DynamicVal, or a typed residue) then drives the result type
		if d1 && d2 && (f1 || f2) {
			w.found = true
		}
	}
	return nil
}

func (w *condWalker) Exit(n hclsyntax.Node) hcl.Diagnostics {
	if _, ok := n.(hclsyntax.ChildScope); ok {
		w.locals = w.locals[:len(w.locals)-1]
	}
	return nil
}

func condUnselectedErrorDiffers(e hclsyntax.Expression, ctx1, ctx2 *hcl.EvalContext) bool {
	w := &condWalker{ctx1: ctx1, ctx2: ctx2}
	hclsyntax.Walk(e, w)
	return w.found
}
