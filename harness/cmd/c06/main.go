package main

// c06 — direct oracle for "value marks propagate to everything they influence":
// two evaluations that differ only in the CONTENT of marked (sub)values; if the
// error-free results differ anywhere outside subtrees carrying the mark, the
// mark was laundered. Expressions (hclsyntax), bodies under hcldec specs, and
// bodies with dynamic blocks. The Coq side (Eval/MarksNI.v) proves the same
// statement for the evaluator model, whose correspondence is checked by `ceval`.

import (
	"fmt"
	"os"
	"sort"
	"strings"

	"github.com/hashicorp/hcl/v2"
	"github.com/hashicorp/hcl/v2/ext/dynblock"
	"github.com/hashicorp/hcl/v2/hcldec"
	"github.com/hashicorp/hcl/v2/hclsyntax"
	"github.com/zclconf/go-cty/cty"
	"hclverif/hv"
)

func main() { hv.Main(map[string]func(*hv.RunCfg) error{"c06": run}) }

// perturb returns a copy of v in which the content of every marked subtree is
// replaced by fresh content of the same type (marks kept). changed reports
// whether anything was replaced.
func perturb(g *hv.EvalGen, v cty.Value, changed *bool) cty.Value {
	if v.IsMarked() {
		u, m := v.Unmark()
		if u.ContainsMarked() {
			// keep the nested marks: only contents change
			return perturb(g, u, changed).WithMarks(m)
		}
		save := g.Marks
		g.Marks = 0
		var nu cty.Value
		if !u.IsKnown() {
			nu = u // keep unknown-ness: "same type and mark"
			// half of the time turn it into a known value: contents may be anything
			if g.R.Chance(0.5) {
				nu = g.GenValue(u.Type())
			}
		} else {
			for i := 0; i < 5; i++ {
				nu = g.GenValue(u.Type())
				if !nu.RawEquals(u) {
					break
				}
			}
		}
		g.Marks = save
		if !nu.RawEquals(u) {
			*changed = true
		}
		return nu.WithMarks(m)
	}
	if !v.IsKnown() || v.IsNull() {
		return v
	}
	ty := v.Type()
	switch {
	case ty.IsListType() || ty.IsTupleType():
		if v.LengthInt() == 0 {
			return v
		}
		var vs []cty.Value
		for it := v.ElementIterator(); it.Next(); {
			_, e := it.Element()
			vs = append(vs, perturb(g, e, changed))
		}
		if ty.IsListType() {
			return cty.ListVal(vs)
		}
		return cty.TupleVal(vs)
	case ty.IsMapType() || ty.IsObjectType():
		if v.LengthInt() == 0 {
			return v
		}
		m := map[string]cty.Value{}
		for it := v.ElementIterator(); it.Next(); {
			k, e := it.Element()
			m[k.AsString()] = perturb(g, e, changed)
		}
		if ty.IsMapType() {
			return cty.MapVal(m)
		}
		return cty.ObjectVal(m)
	}
	return v
}

// erased dumps v with every marked subtree replaced by a placeholder that shows
// only its marks and type.
func erased(v cty.Value) string {
	if v == cty.NilVal {
		return "(nil)"
	}
	if v.IsMarked() {
		_, m := v.Unmark()
		var ls []string
		for k := range m {
			ls = append(ls, fmt.Sprint(k))
		}
		sort.Strings(ls)
		// the type of a marked subtree can depend on its content (tuple length, object
		// attribute names), so only the marks stay visible
		return "(★ " + strings.Join(ls, ",") + ")"
	}
	if !v.IsKnown() || v.IsNull() {
		return hv.DumpVal(v)
	}
	ty := v.Type()
	switch {
	case ty.IsListType() || ty.IsTupleType() || ty.IsSetType():
		var parts []string
		for it := v.ElementIterator(); it.Next(); {
			_, e := it.Element()
			parts = append(parts, erased(e))
		}
		if ty.IsSetType() {
			sort.Strings(parts)
		}
		return "(" + kindName(ty) + " " + strings.Join(parts, " ") + ")"
	case ty.IsMapType() || ty.IsObjectType():
		var parts []string
		for it := v.ElementIterator(); it.Next(); {
			k, e := it.Element()
			parts = append(parts, fmt.Sprintf("(%q %s)", k.AsString(), erased(e)))
		}
		sort.Strings(parts)
		return "(" + kindName(ty) + " " + strings.Join(parts, " ") + ")"
	}
	return hv.DumpVal(v)
}

// laundered reports a position at which the two results differ and that is not
// under a mark in BOTH results ("" if none): the property only speaks about
// differences of the result, so equal contents with different mark sets are fine.
func laundered(a, b cty.Value, path string) string {
	if a == cty.NilVal || b == cty.NilVal {
		if a == b {
			return ""
		}
		return path + ": nil vs value"
	}
	if a.IsMarked() && b.IsMarked() {
		return ""
	}
	if a.IsMarked() || b.IsMarked() {
		ua, _ := a.UnmarkDeep()
		ub, _ := b.UnmarkDeep()
		if hv.DumpVal(ua) == hv.DumpVal(ub) {
			return ""
		}
		return path + ": marked in only one result: " + hv.DumpVal(a) + " VS " + hv.DumpVal(b)
	}
	if !a.IsKnown() || !b.IsKnown() || a.IsNull() || b.IsNull() {
		if hv.DumpVal(a) == hv.DumpVal(b) {
			return ""
		}
		return path + ": " + hv.DumpVal(a) + " VS " + hv.DumpVal(b)
	}
	ta, tb := a.Type(), b.Type()
	if kindName(ta) != kindName(tb) {
		return path + ": " + hv.DumpVal(a) + " VS " + hv.DumpVal(b)
	}
	switch {
	case ta.IsListType() || ta.IsTupleType():
		if a.LengthInt() != b.LengthInt() {
			return path + ": length differs"
		}
		ia, ib := a.ElementIterator(), b.ElementIterator()
		i := 0
		for ia.Next() && ib.Next() {
			_, ea := ia.Element()
			_, eb := ib.Element()
			if r := laundered(ea, eb, fmt.Sprintf("%s[%d]", path, i)); r != "" {
				return r
			}
			i++
		}
		return ""
	case ta.IsMapType() || ta.IsObjectType():
		ma, mb := a.AsValueMap(), b.AsValueMap()
		if len(ma) != len(mb) {
			return path + ": key set differs"
		}
		for _, k := range hv.SortedKeys(ma) {
			eb, ok := mb[k]
			if !ok {
				return path + ": key set differs"
			}
			if r := laundered(ma[k], eb, path+"."+k); r != "" {
				return r
			}
		}
		return ""
	case ta.IsSetType():
		ua, _ := a.UnmarkDeep()
		ub, _ := b.UnmarkDeep()
		if hv.DumpVal(ua) == hv.DumpVal(ub) {
			return ""
		}
		return path + ": sets differ"
	}
	if hv.DumpVal(a) == hv.DumpVal(b) {
		return ""
	}
	return path + ": " + hv.DumpVal(a) + " VS " + hv.DumpVal(b)
}

func kindName(ty cty.Type) string {
	switch {
	case ty.IsListType():
		return "list"
	case ty.IsSetType():
		return "set"
	case ty.IsTupleType():
		return "tuple"
	case ty.IsMapType():
		return "map"
	case ty.IsObjectType():
		return "obj"
	}
	return "?"
}

func cloneCtx(ctx *hcl.EvalContext, f func(name string, v cty.Value) cty.Value) *hcl.EvalContext {
	if ctx == nil {
		return nil
	}
	p := cloneCtx(ctx.Parent(), f)
	var c *hcl.EvalContext
	if p != nil {
		c = p.NewChild()
	} else {
		c = &hcl.EvalContext{}
	}
	c.Functions = ctx.Functions
	if ctx.Variables != nil {
		c.Variables = map[string]cty.Value{}
		for _, k := range hv.SortedKeys(ctx.Variables) {
			c.Variables[k] = f(k, ctx.Variables[k])
		}
	}
	return c
}

func scopeDump(ctx *hcl.EvalContext) string {
	var sb strings.Builder
	for c := ctx; c != nil; c = c.Parent() {
		sb.WriteString("{")
		for _, k := range hv.SortedKeys(c.Variables) {
			sb.WriteString(k + "=" + hv.DumpVal(c.Variables[k]) + "; ")
		}
		sb.WriteString("} ")
	}
	return sb.String()
}

// objectIndexMarkedKey reports whether the expression contains an index
// operation on an object-typed collection with a marked key — the known,
// test-pinned behaviour of hcl.Index (marks of the key are not maintained).
func objectIndexMarkedKey(e hclsyntax.Expression, ctx *hcl.EvalContext) bool {
	found := false
	hclsyntax.VisitAll(e, func(n hclsyntax.Node) hcl.Diagnostics {
		if ix, ok := n.(*hclsyntax.IndexExpr); ok {
			func() {
				defer func() { recover() }()
				c, _ := ix.Collection.Value(ctx)
				k, _ := ix.Key.Value(ctx)
				if c != cty.NilVal && k != cty.NilVal && (c.Type().IsObjectType() || c.Type() == cty.DynamicPseudoType) && k.IsMarked() {
					found = true
				}
			}()
		}
		return nil
	})
	return found
}

type evalFn func(ctx *hcl.EvalContext) (cty.Value, hcl.Diagnostics)

func evalSafe(f evalFn, ctx *hcl.EvalContext) (v cty.Value, d hcl.Diagnostics, p any) {
	defer func() { p = recover() }()
	v, d = f(ctx)
	return
}

var corpus = []string{
	`!b`, `-n`, `"%{ for x in l }${x}%{ endfor }"`, `l[n]`, `mp[s]`, `o[s]`, `tp[n]`,
	`{for k, v in mp : k => v}`, `[for v in l : v if v != s]`, `l[*]`, `o.*.a`, `s == t ? 1 : 2`,
	`upper(s)`, `first(l...)`, `"${s}"`, `{(s) = 1}`, `[s, t][n]`, `b && d`, `n + m`, `isnull(s)`,
}

func run(cfg *hv.RunCfg) error {
	rep := hv.NewReport("C06", cfg.Seed)
	rep.Rule = "pairs of scopes that differ only in the content of marked (sub)values (same types, same marks; marks at top level or nested in collections); typed expression generator + hcldec bodies + dynamic blocks; non-trivial = the scope contains a marked value that the expression can reach and the perturbation changed it; distinct by SHA-256 of (scope, text)"
	r := hv.NewRng(cfg.Seed, 606)
	type job struct {
		text string
		kind string // expr | body | dyn
	}
	var jobs []job
	if cfg.Replay != "" {
		b, err := os.ReadFile(cfg.Replay)
		if err != nil {
			return err
		}
		jobs = append(jobs, job{string(b), "expr"})
	} else {
		for _, c := range corpus {
			jobs = append(jobs, job{c, "expr"})
		}
		for i := 0; i < cfg.N; i++ {
			jobs = append(jobs, job{"", []string{"expr", "expr", "expr", "body", "dyn"}[r.Intn(5)]})
		}
	}
	for _, j := range jobs {
		g := hv.NewEvalGen(r)
		g.Marks, g.Unknowns, g.Nulls = 0.3, 0.08, 0.03
		ctx1 := g.GenScope()
		text := j.text
		var f evalFn
		var exprForClass hclsyntax.Expression
		switch j.kind {
		case "expr":
			if text == "" {
				text = g.GenTopExpr()
			}
			e, pd := hclsyntax.ParseExpression([]byte(text), "e.hcl", hcl.InitialPos)
			if pd.HasErrors() {
				rep.Hist("parse-error")
				continue
			}
			exprForClass = e
			f = func(ctx *hcl.EvalContext) (cty.Value, hcl.Diagnostics) { return e.Value(ctx) }
		case "body":
			// attributes decoded with hcldec (dynamic-typed AttrSpecs and a conversion to string)
			a1, a2 := g.GenTopExpr(), g.GenTopExpr()
			text = "x = " + a1 + "\ny = " + a2 + "\n"
			file, pd := hclsyntax.ParseConfig([]byte(text), "b.hcl", hcl.InitialPos)
			if pd.HasErrors() {
				rep.Hist("parse-error")
				continue
			}
			spec := hcldec.ObjectSpec{
				"x": &hcldec.AttrSpec{Name: "x", Type: cty.DynamicPseudoType},
				"y": &hcldec.AttrSpec{Name: "y", Type: cty.DynamicPseudoType},
			}
			f = func(ctx *hcl.EvalContext) (cty.Value, hcl.Diagnostics) { return hcldec.Decode(file.Body, spec, ctx) }
		case "dyn":
			coll := r.Pick("l", "mp", "st", "tp", "o", "d", "u", "z")
			shape := r.Intn(3)
			switch shape {
			case 0:
				text = "dynamic \"blk\" {\n  for_each = " + coll + "\n  content {\n    x = blk.value\n    k = blk.key\n  }\n}\n"
			case 1:
				text = "dynamic \"blk\" {\n  for_each = " + coll + "\n  iterator = it\n  content {\n    x = " + g.GenTopExpr() + "\n    k = it.key\n  }\n}\n"
			default:
				text = "dynamic \"blk\" {\n  for_each = " + coll + "\n  content {\n    x = 1\n    k = 2\n    inner {\n      v = blk.value\n    }\n  }\n}\n"
			}
			file, pd := hclsyntax.ParseConfig([]byte(text), "d.hcl", hcl.InitialPos)
			if pd.HasErrors() {
				rep.Hist("parse-error")
				continue
			}
			inner := hcldec.ObjectSpec{"v": &hcldec.AttrSpec{Name: "v", Type: cty.DynamicPseudoType}}
			spec := &hcldec.BlockTupleSpec{TypeName: "blk", Nested: hcldec.ObjectSpec{
				"x":     &hcldec.AttrSpec{Name: "x", Type: cty.DynamicPseudoType},
				"k":     &hcldec.AttrSpec{Name: "k", Type: cty.DynamicPseudoType},
				"inner": &hcldec.BlockTupleSpec{TypeName: "inner", Nested: inner},
			}}
			sh := shape
			f = func(ctx *hcl.EvalContext) (cty.Value, hcl.Diagnostics) {
				_ = sh
				return hcldec.Decode(dynblock.Expand(file.Body, ctx), spec, ctx)
			}
		}
		changed := false
		ctx2 := cloneCtx(ctx1, func(name string, v cty.Value) cty.Value { return perturb(g, v, &changed) })
		v1, d1, p1 := evalSafe(f, ctx1)
		v2, d2, p2 := evalSafe(f, ctx2)
		key := text + "##" + scopeDump(ctx1)
		rep.Count(key, changed)
		rep.Hist("kind:" + j.kind)
		if p1 != nil || p2 != nil {
			rep.Fail(hv.Failure{Kind: "panic", Detail: fmt.Sprint(p1, p2), Input: text, Extra: map[string]string{"scope1": scopeDump(ctx1)}})
			continue
		}
		if d1.HasErrors() || d2.HasErrors() {
			rep.Hist("outcome:error-in-a-run")
			continue
		}
		if !changed {
			rep.Hist("outcome:nothing-marked-to-perturb")
			continue
		}
		e1, e2 := erased(v1), erased(v2)
		if len(text) < 70 {
			rep.Sample(text)
		}
		where := laundered(v1, v2, "result")
		if where == "" {
			if hv.DumpVal(v1) != hv.DumpVal(v2) {
				rep.Hist("outcome:differs-under-mark-only")
			} else {
				rep.Hist("outcome:equal")
			}
			continue
		}
		kind := "mark-laundered"
		switch {
		case j.kind == "expr" && exprForClass != nil && (objectIndexMarkedKey(exprForClass, ctx1) || objectIndexMarkedKey(exprForClass, ctx2)):
			kind = "object-index-marked-key"
		case j.kind == "dyn" && (strings.Contains(where, "length differs") || where == "result: "+hv.DumpVal(v1)+" VS "+hv.DumpVal(v2) && (!v1.IsKnown() || !v2.IsKnown())):
			// the NUMBER of blocks generated from a marked for_each is visible (inherent to dynblock)
			kind = "dynblock-marked-foreach-block-count"
		case j.kind == "dyn":
			kind = "dynblock-mark-laundered"
		case j.kind == "body":
			kind = "decode-mark-laundered"
		}
		rep.Hist("outcome:" + kind)
		rep.Fail(hv.Failure{Kind: kind, Detail: "results differ outside marked subtrees at " + where + " ;; " + e1 + "  VS  " + e2, Input: text,
			Extra: map[string]string{"scope1": scopeDump(ctx1), "scope2": scopeDump(ctx2), "v1": hv.DumpVal(v1), "v2": hv.DumpVal(v2)}})
	}
	for k, v := range rep.Histogram {
		_ = k
		_ = v
	}
	rep.CaseFiles = nil
	return rep.Write(cfg.Out)
}
