package main

// c06 — direct oracle for "value marks propagate to everything they influence":
// two evaluations that differ only in the CONTENT of marked (sub)values; if the
// error-free results differ anywhere outside subtrees carrying the mark, the
// mark was laundered. Expressions (hclsyntax), bodies under hcldec specs, and
// bodies with dynamic blocks. The Coq side (Eval/MarksNI.v) proves the same
// statement for the evaluator model, whose correspondence is checked by `ceval`.

import (
	"fmt"
	"os"
	"sort"
	"strings"

	"github.com/hashicorp/hcl/v2"
	"github.com/hashicorp/hcl/v2/ext/dynblock"
	"github.com/hashicorp/hcl/v2/hcldec"
	"github.com/hashicorp/hcl/v2/hclsyntax"
	"github.com/zclconf/go-cty/cty"
	"github.com/zclconf/go-cty/cty/function"
	"hclverif/hv"
)

func main() { hv.Main(map[string]func(*hv.RunCfg) error{"c06": run}) }

// perturb returns a copy of v in which the content of every marked subtree is
// replaced by fresh content of the same type (marks kept). changed reports
// whether anything was replaced.
// onlyMark: when non-empty, only subtrees carrying THAT mark are perturbed (the two scopes then
// differ under one mark label, which is what the Coq case format of Eval/MarksNI_Check.v expects).
var onlyMark string

func perturb(g *hv.EvalGen, v cty.Value, changed *bool) cty.Value {
	if v.IsMarked() {
		u, m := v.Unmark()
		if _, has := m[onlyMark]; onlyMark != "" && !has {
			// marked with other labels only: keep the layer, look inside
			return perturbInside(g, u, changed).WithMarks(m)
		}
		if u.ContainsMarked() {
			// keep the nested marks: only contents change
			return perturb(g, u, changed).WithMarks(m)
		}
		save := g.Marks
		g.Marks = 0
		var nu cty.Value
		if !u.IsKnown() {
			nu = u // keep unknown-ness: "same type and mark"
			// half of the time turn it into a known value: contents may be anything
			if g.R.Chance(0.5) {
				nu = g.GenValue(u.Type())
			}
		} else {
			for i := 0; i < 5; i++ {
				nu = g.GenValue(u.Type())
				if !nu.RawEquals(u) {
					break
				}
			}
		}
		g.Marks = save
		if !nu.RawEquals(u) {
			*changed = true
		}
		return nu.WithMarks(m)
	}
	return perturbInside(g, v, changed)
}

func perturbInside(g *hv.EvalGen, v cty.Value, changed *bool) cty.Value {
	if v.IsMarked() {
		return perturb(g, v, changed)
	}
	if !v.IsKnown() || v.IsNull() {
		return v
	}
	ty := v.Type()
	switch {
	case ty.IsListType() || ty.IsTupleType():
		if v.LengthInt() == 0 {
			return v
		}
		var vs []cty.Value
		for it := v.ElementIterator(); it.Next(); {
			_, e := it.Element()
			vs = append(vs, perturb(g, e, changed))
		}
		if ty.IsListType() {
			return cty.ListVal(vs)
		}
		return cty.TupleVal(vs)
	case ty.IsMapType() || ty.IsObjectType():
		if v.LengthInt() == 0 {
			return v
		}
		m := map[string]cty.Value{}
		for it := v.ElementIterator(); it.Next(); {
			k, e := it.Element()
			m[k.AsString()] = perturb(g, e, changed)
		}
		if ty.IsMapType() {
			return cty.MapVal(m)
		}
		return cty.ObjectVal(m)
	}
	return v
}

// erased dumps v with every marked subtree replaced by a placeholder that shows
// only its marks and type.
func erased(v cty.Value) string {
	if v == cty.NilVal {
		return "(nil)"
	}
	if v.IsMarked() {
		_, m := v.Unmark()
		var ls []string
		for k := range m {
			ls = append(ls, fmt.Sprint(k))
		}
		sort.Strings(ls)
		// the type of a marked subtree can depend on its content (tuple length, object
		// attribute names), so only the marks stay visible
		return "(★ " + strings.Join(ls, ",") + ")"
	}
	if !v.IsKnown() || v.IsNull() {
		return hv.DumpVal(v)
	}
	ty := v.Type()
	switch {
	case ty.IsListType() || ty.IsTupleType() || ty.IsSetType():
		var parts []string
		for it := v.ElementIterator(); it.Next(); {
			_, e := it.Element()
			parts = append(parts, erased(e))
		}
		if ty.IsSetType() {
			sort.Strings(parts)
		}
		return "(" + kindName(ty) + " " + strings.Join(parts, " ") + ")"
	case ty.IsMapType() || ty.IsObjectType():
		var parts []string
		for it := v.ElementIterator(); it.Next(); {
			k, e := it.Element()
			parts = append(parts, fmt.Sprintf("(%q %s)", k.AsString(), erased(e)))
		}
		sort.Strings(parts)
		return "(" + kindName(ty) + " " + strings.Join(parts, " ") + ")"
	}
	return hv.DumpVal(v)
}

// laundered reports a position at which the two results differ and that is not
// under a mark in BOTH results ("" if none): the property only speaks about
// differences of the result, so equal contents with different mark sets are fine.
func laundered(a, b cty.Value, path string) string {
	if a == cty.NilVal || b == cty.NilVal {
		if a == b {
			return ""
		}
		return path + ": nil vs value"
	}
	if a.IsMarked() && b.IsMarked() {
		return ""
	}
	if a.IsMarked() || b.IsMarked() {
		ua, _ := a.UnmarkDeep()
		ub, _ := b.UnmarkDeep()
		if hv.DumpVal(ua) == hv.DumpVal(ub) {
			return ""
		}
		return path + ": marked in only one result: " + hv.DumpVal(a) + " VS " + hv.DumpVal(b)
	}
	if !a.IsKnown() || !b.IsKnown() || a.IsNull() || b.IsNull() {
		if hv.DumpVal(a) == hv.DumpVal(b) {
			return ""
		}
		return path + ": " + hv.DumpVal(a) + " VS " + hv.DumpVal(b)
	}
	ta, tb := a.Type(), b.Type()
	if kindName(ta) != kindName(tb) {
		return path + ": " + hv.DumpVal(a) + " VS " + hv.DumpVal(b)
	}
	switch {
	case ta.IsListType() || ta.IsTupleType():
		if a.LengthInt() != b.LengthInt() {
			return path + ": length differs"
		}
		ia, ib := a.ElementIterator(), b.ElementIterator()
		i := 0
		for ia.Next() && ib.Next() {
			_, ea := ia.Element()
			_, eb := ib.Element()
			if r := laundered(ea, eb, fmt.Sprintf("%s[%d]", path, i)); r != "" {
				return r
			}
			i++
		}
		return ""
	case ta.IsMapType() || ta.IsObjectType():
		ma, mb := a.AsValueMap(), b.AsValueMap()
		if len(ma) != len(mb) {
			return path + ": key set differs"
		}
		for _, k := range hv.SortedKeys(ma) {
			eb, ok := mb[k]
			if !ok {
				return path + ": key set differs"
			}
			if r := laundered(ma[k], eb, path+"."+k); r != "" {
				return r
			}
		}
		return ""
	case ta.IsSetType():
		ua, _ := a.UnmarkDeep()
		ub, _ := b.UnmarkDeep()
		if hv.DumpVal(ua) == hv.DumpVal(ub) {
			return ""
		}
		return path + ": sets differ"
	}
	if hv.DumpVal(a) == hv.DumpVal(b) {
		return ""
	}
	return path + ": " + hv.DumpVal(a) + " VS " + hv.DumpVal(b)
}

func kindName(ty cty.Type) string {
	switch {
	case ty.IsListType():
		return "list"
	case ty.IsSetType():
		return "set"
	case ty.IsTupleType():
		return "tuple"
	case ty.IsMapType():
		return "map"
	case ty.IsObjectType():
		return "obj"
	}
	return "?"
}

func cloneCtx(ctx *hcl.EvalContext, f func(name string, v cty.Value) cty.Value) *hcl.EvalContext {
	if ctx == nil {
		return nil
	}
	p := cloneCtx(ctx.Parent(), f)
	var c *hcl.EvalContext
	if p != nil {
		c = p.NewChild()
	} else {
		c = &hcl.EvalContext{}
	}
	c.Functions = ctx.Functions
	if ctx.Variables != nil {
		c.Variables = map[string]cty.Value{}
		for _, k := range hv.SortedKeys(ctx.Variables) {
			c.Variables[k] = f(k, ctx.Variables[k])
		}
	}
	return c
}

func scopeDump(ctx *hcl.EvalContext) string {
	var sb strings.Builder
	for c := ctx; c != nil; c = c.Parent() {
		sb.WriteString("{")
		for _, k := range hv.SortedKeys(c.Variables) {
			sb.WriteString(k + "=" + hv.DumpVal(c.Variables[k]) + "; ")
		}
		sb.WriteString("} ")
	}
	return sb.String()
}

// objectIndexMarkedKey reports whether the expression contains an index
// operation on an object-typed collection with a marked key — the known,
// test-pinned behaviour of hcl.Index (marks of the key are not maintained).
func objectIndexMarkedKey(e hclsyntax.Expression, ctx *hcl.EvalContext) bool {
	found := false
	hclsyntax.VisitAll(e, func(n hclsyntax.Node) hcl.Diagnostics {
		if ix, ok := n.(*hclsyntax.IndexExpr); ok {
			func() {
				defer func() { recover() }()
				c, _ := ix.Collection.Value(ctx)
				k, _ := ix.Key.Value(ctx)
				if c != cty.NilVal && k != cty.NilVal && c.Type().IsObjectType() && k.IsMarked() {
					found = true
				}
			}()
		}
		return nil
	})
	return found
}

// ---- the object-index finding, decided by re-evaluation ---------------------------------------------
//
// hcl.Index on an object drops the marks of the key (pinned by ops_test.go).  Whether THAT is what
// launders the mark in a given case is decided by evaluating the case again with this one behaviour
// repaired, expressed in the language itself: every index expression  C[K]  of the source becomes
// idxfix__(C[K], C, K), where idxfix__ returns its first argument, with the marks of K added when C is an
// object.  If the two results then no longer differ outside marked subtrees, the finding explains the
// failure; otherwise something else launders a mark and the failure keeps its generic kind.

var idxParam = func(n string) function.Parameter {
	return function.Parameter{Name: n, Type: cty.DynamicPseudoType, AllowNull: true, AllowUnknown: true, AllowDynamicType: true, AllowMarked: true}
}

var idxFixFunc = function.New(&function.Spec{
	Params: []function.Parameter{idxParam("r"), idxParam("c"), idxParam("k")},
	Type:   func(args []cty.Value) (cty.Type, error) { return args[0].Type(), nil },
	Impl: func(args []cty.Value, rt cty.Type) (cty.Value, error) {
		c, _ := args[1].Unmark()
		if c.Type().IsObjectType() {
			_, km := args[2].Unmark()
			return args[0].WithMarks(km), nil
		}
		return args[0], nil
	},
})

type ixRange struct{ ws, we, cs, ce, ks, ke int }

// rewriteIndexes returns src with every index expression wrapped as described above.
func rewriteIndexes(src []byte, e hclsyntax.Expression) (string, bool) {
	var ixs []ixRange
	bad := false
	hclsyntax.VisitAll(e, func(n hclsyntax.Node) hcl.Diagnostics {
		if ix, ok := n.(*hclsyntax.IndexExpr); ok {
			w, c, k := ix.Range(), ix.Collection.Range(), ix.Key.Range()
			r := ixRange{w.Start.Byte, w.End.Byte, c.Start.Byte, c.End.Byte, k.Start.Byte, k.End.Byte}
			if _, anon := ix.Collection.(*hclsyntax.AnonSymbolExpr); anon {
				// the index step of a splat body ( x[*][K] ): its collection has no source text of its
				// own, so it cannot be wrapped; it is left as it is (the elements it indexes are
				// whatever the splat iterates over; an index expression INSIDE K is still rewritten)
				return nil
			}
			if !(r.ws <= r.cs && r.cs <= r.ce && r.ce <= r.ks && r.ks <= r.ke && r.ke <= r.we && r.we <= len(src)) {
				bad = true
			}
			ixs = append(ixs, r)
		}
		return nil
	})
	if bad || len(ixs) == 0 {
		return "", false
	}
	budget := 1 << 20
	var render func(lo, hi int, skip int) string
	one := func(i int) string {
		r := ixs[i]
		c, k := render(r.cs, r.ce, -1), render(r.ks, r.ke, -1)
		return "idxfix__(" + string(src[r.ws:r.cs]) + c + string(src[r.ce:r.ks]) + k + string(src[r.ke:r.we]) + ", " + c + ", " + k + ")"
	}
	render = func(lo, hi int, skip int) string {
		// outermost index expressions inside [lo, hi)
		var sb strings.Builder
		pos := lo
		for pos < hi {
			best := -1
			for i, r := range ixs {
				if r.ws >= pos && r.we <= hi && (best < 0 || r.ws < ixs[best].ws || (r.ws == ixs[best].ws && r.we > ixs[best].we)) {
					best = i
				}
			}
			if best < 0 {
				break
			}
			sb.Write(src[pos:ixs[best].ws])
			t := one(best)
			budget -= len(t)
			if budget < 0 {
				return ""
			}
			sb.WriteString(t)
			pos = ixs[best].we
		}
		sb.Write(src[pos:hi])
		return sb.String()
	}
	out := render(0, len(src), -1)
	if budget < 0 {
		return "", false
	}
	return out, true
}

// explainedByObjectIndex: with hcl.Index repaired for objects the two scopes no longer give results that
// differ outside marked subtrees.
func explainedByObjectIndex(text string, e hclsyntax.Expression, ctx1, ctx2 *hcl.EvalContext) bool {
	src, ok := rewriteIndexes([]byte(text), e)
	if !ok {
		return false
	}
	e2, pd := hclsyntax.ParseExpression([]byte(src), "e.hcl", hcl.InitialPos)
	if pd.HasErrors() {
		return false
	}
	with := func(ctx *hcl.EvalContext) *hcl.EvalContext {
		c := ctx.NewChild()
		c.Functions = map[string]function.Function{"idxfix__": idxFixFunc}
		return c
	}
	f := func(ctx *hcl.EvalContext) (cty.Value, hcl.Diagnostics) { return e2.Value(ctx) }
	v1, d1, p1 := evalSafe(f, with(ctx1))
	v2, d2, p2 := evalSafe(f, with(ctx2))
	if p1 != nil || p2 != nil || d1.HasErrors() || d2.HasErrors() {
		return false
	}
	return laundered(v1, v2, "result") == ""
}

func lookupVar(ctx *hcl.EvalContext, name string) (cty.Value, bool) {
	for c := ctx; c != nil; c = c.Parent() {
		if v, ok := c.Variables[name]; ok {
			return v, true
		}
	}
	return cty.NilVal, false
}

// blockCountExplains: the block-count finding, decided on the values.  The difference must be at the TOP
// of the result (the tuple of generated blocks) and the for_each collection must be marked (at the top) in
// both scopes.  Exactly two shapes are the finding:
//   (known/known)    for_each is known and non-null in both scopes, its LENGTH differs between them, and
//                    each result is the unmarked tuple of exactly that many blocks
//                    (laundered: "result: length differs");
//   (known/unknown)  for_each is known in one scope - the result there is the unmarked tuple of exactly
//                    that many blocks (0 blocks: nothing is left that could carry the mark) - and UNKNOWN in
//                    the other, where the whole result is a wholly unknown value carrying the for_each marks
//                    (laundered: "result: marked in only one result: ...").
// A length difference anywhere else in the result, one that the for_each lengths do not account for, an
// unknown result WITHOUT the marks, or a known one of another length is not this finding.
func blockCountExplains(ctx1, ctx2 *hcl.EvalContext, coll string, v1, v2 cty.Value, where string) bool {
	f1, ok1 := lookupVar(ctx1, coll)
	f2, ok2 := lookupVar(ctx2, coll)
	if !ok1 || !ok2 || !f1.IsMarked() || !f2.IsMarked() {
		return false
	}
	// the result in a scope where for_each is known: the unmarked tuple of as many blocks
	knownSide := func(f, v cty.Value) bool {
		u, _ := f.Unmark()
		return u.IsKnown() && !u.IsNull() && u.CanIterateElements() &&
			!v.IsMarked() && v.IsKnown() && !v.IsNull() && v.Type().IsTupleType() && v.LengthInt() == u.LengthInt()
	}
	// the result in a scope where for_each is unknown: wholly unknown, with (at least) the for_each marks
	unknownSide := func(f, v cty.Value) bool {
		u, fm := f.Unmark()
		r, rm := v.Unmark()
		if u.IsKnown() || r.IsKnown() {
			return false
		}
		for m := range fm {
			if _, ok := rm[m]; !ok {
				return false
			}
		}
		return len(fm) > 0
	}
	switch {
	case where == "result: length differs":
		u1, _ := f1.Unmark()
		u2, _ := f2.Unmark()
		return knownSide(f1, v1) && knownSide(f2, v2) && u1.LengthInt() != u2.LengthInt()
	case strings.HasPrefix(where, "result: marked in only one result: "):
		return (knownSide(f1, v1) && unknownSide(f2, v2)) || (unknownSide(f1, v1) && knownSide(f2, v2))
	}
	return false
}

type evalFn func(ctx *hcl.EvalContext) (cty.Value, hcl.Diagnostics)

func evalSafe(f evalFn, ctx *hcl.EvalContext) (v cty.Value, d hcl.Diagnostics, p any) {
	defer func() { p = recover() }()
	v, d = f(ctx)
	return
}

var corpus = []string{
	`!b`, `-n`, `"%{ for x in l }${x}%{ endfor }"`, `l[n]`, `mp[s]`, `o[s]`, `tp[n]`,
	`{for k, v in mp : k => v}`, `[for v in l : v if v != s]`, `l[*]`, `o.*.a`, `s == t ? 1 : 2`,
	`upper(s)`, `first(l...)`, `"${s}"`, `{(s) = 1}`, `[s, t][n]`, `b && d`, `n + m`, `isnull(s)`,
}

func run(cfg *hv.RunCfg) error {
	rep := hv.NewReport("C06", cfg.Seed)
	rep.Rule = "pairs of scopes that differ only in the content of marked (sub)values (same types, same marks; marks at top level or nested in collections); typed expression generator + hcldec bodies + dynamic blocks; non-trivial = the scope contains a marked value that the expression can reach and the perturbation changed it; distinct by SHA-256 of (scope, text)"
	r := hv.NewRng(cfg.Seed, 606)
	cf := &hv.CaseFile{Dir: cfg.Out, Name: "c06cases",
		Imports: "From Coq Require Import QArith String.\nFrom HclV Require Import Base.Prelude Cty.Values Cty.Convert Cty.Ops Eval.Impl Eval.Funcs Eval.MarksNI_Check.",
		Ctype:   "ni_case", Checker: "MarksNI_Check.bad",
		Extras:  [][2]string{{"ni_covered", "ni_covered"}, {"ni_violations", "ni_violations"}, {"ni_skipped", "ni_skipped"}}}
	type job struct {
		text string
		kind string // expr | body | dyn
	}
	var jobs []job
	if cfg.Replay != "" {
		b, err := os.ReadFile(cfg.Replay)
		if err != nil {
			return err
		}
		jobs = append(jobs, job{string(b), "expr"})
	} else {
		for _, c := range corpus {
			jobs = append(jobs, job{c, "expr"})
		}
		for i := 0; i < cfg.N; i++ {
			jobs = append(jobs, job{"", []string{"expr", "expr", "tgt", "tgt", "body", "dyn"}[r.Intn(6)]})
		}
	}
	for _, j := range jobs {
		g := hv.NewEvalGen(r)
		g.Marks, g.Unknowns, g.Nulls = 0.3, 0.08, 0.03
		ctx1 := g.GenScope()
		text := j.text
		var f evalFn
		var exprForClass hclsyntax.Expression
		dynColl := ""
		switch j.kind {
		case "expr", "tgt":
			if text == "" && j.kind == "tgt" {
				text = tgtExpr(r)
			}
			if text == "" {
				text = g.GenTopExpr()
			}
			e, pd := hclsyntax.ParseExpression([]byte(text), "e.hcl", hcl.InitialPos)
			if pd.HasErrors() {
				rep.Hist("parse-error")
				continue
			}
			exprForClass = e
			f = func(ctx *hcl.EvalContext) (cty.Value, hcl.Diagnostics) { return e.Value(ctx) }
		case "body":
			// attributes decoded with hcldec (dynamic-typed AttrSpecs and a conversion to string)
			a1, a2 := g.GenTopExpr(), g.GenTopExpr()
			text = "x = " + a1 + "\ny = " + a2 + "\n"
			file, pd := hclsyntax.ParseConfig([]byte(text), "b.hcl", hcl.InitialPos)
			if pd.HasErrors() {
				rep.Hist("parse-error")
				continue
			}
			spec := hcldec.ObjectSpec{
				"x": &hcldec.AttrSpec{Name: "x", Type: cty.DynamicPseudoType},
				"y": &hcldec.AttrSpec{Name: "y", Type: cty.DynamicPseudoType},
			}
			f = func(ctx *hcl.EvalContext) (cty.Value, hcl.Diagnostics) { return hcldec.Decode(file.Body, spec, ctx) }
		case "dyn":
			coll := r.Pick("l", "mp", "st", "tp", "o", "d", "u", "z")
			dynColl = coll
			shape := r.Intn(3)
			switch shape {
			case 0:
				text = "dynamic \"blk\" {\n  for_each = " + coll + "\n  content {\n    x = blk.value\n    k = blk.key\n  }\n}\n"
			case 1:
				text = "dynamic \"blk\" {\n  for_each = " + coll + "\n  iterator = it\n  content {\n    x = " + g.GenTopExpr() + "\n    k = it.key\n  }\n}\n"
			default:
				text = "dynamic \"blk\" {\n  for_each = " + coll + "\n  content {\n    x = 1\n    k = 2\n    inner {\n      v = blk.value\n    }\n  }\n}\n"
			}
			file, pd := hclsyntax.ParseConfig([]byte(text), "d.hcl", hcl.InitialPos)
			if pd.HasErrors() {
				rep.Hist("parse-error")
				continue
			}
			inner := hcldec.ObjectSpec{"v": &hcldec.AttrSpec{Name: "v", Type: cty.DynamicPseudoType}}
			spec := &hcldec.BlockTupleSpec{TypeName: "blk", Nested: hcldec.ObjectSpec{
				"x":     &hcldec.AttrSpec{Name: "x", Type: cty.DynamicPseudoType},
				"k":     &hcldec.AttrSpec{Name: "k", Type: cty.DynamicPseudoType},
				"inner": &hcldec.BlockTupleSpec{TypeName: "inner", Nested: inner},
			}}
			sh := shape
			f = func(ctx *hcl.EvalContext) (cty.Value, hcl.Diagnostics) {
				_ = sh
				return hcldec.Decode(dynblock.Expand(file.Body, ctx), spec, ctx)
			}
		}
		changed := false
		var ctx2 *hcl.EvalContext
		// expression cases perturb ONE mark label in 70 % of the cases (those become Coq cases)
		onlyMark = ""
		if j.kind == "expr" && r.Chance(0.7) {
			onlyMark = fmt.Sprintf("m%d", 1+r.Intn(3))
		}
		if j.kind == "tgt" {
			// hand-built pair of scopes (same types and marks, marked contents from small sets)
			ctx1, ctx2 = tgtScope(r)
			changed = scopeDump(ctx1) != scopeDump(ctx2)
		} else {
			ctx2 = cloneCtx(ctx1, func(name string, v cty.Value) cty.Value { return perturb(g, v, &changed) })
		}
		v1, d1, p1 := evalSafe(f, ctx1)
		v2, d2, p2 := evalSafe(f, ctx2)
		key := text + "##" + scopeDump(ctx1)
		rep.Count(key, changed)
		rep.Hist("kind:" + j.kind)
		if p1 != nil || p2 != nil {
			rep.Fail(hv.Failure{Kind: "panic", Detail: fmt.Sprint(p1, p2), Input: text, Extra: map[string]string{"scope1": scopeDump(ctx1)}})
			continue
		}
		if exprForClass != nil && (onlyMark != "" || j.kind == "tgt") && changed {
			// the Coq case: mark label, both scopes, the expression, both observed runs
			label := onlyMark
			if j.kind == "tgt" {
				label = tgtMarkOf(ctx1)
			}
			if label != "" {
				info := &hv.ValInfo{}
				c1, c2 := hv.CoqCtx(ctx1, info), hv.CoqCtx(ctx2, info)
				es := hv.CoqExpr(exprForClass, info)
				s1, s2 := hv.CoqVal(v1, info), hv.CoqVal(v2, info)
				mode := 0
				ra, rb := hv.NumRisk(exprForClass, ctx1), hv.NumRisk(exprForClass, ctx2)
				if info.Inexact || ra == 1 || rb == 1 {
					mode = 1
				}
				if ra == 2 || rb == 2 || info.Unsupported {
					mode = 2
				}
				cf.Add(fmt.Sprintf("mkNI %d %s\n  %s\n  %s\n  %d %s %s\n  %s %s", hv.MarkID(label), c1, c2, es, mode, s1, hv.CoqDiagSummaries(d1), s2, hv.CoqDiagSummaries(d2)))
				rep.Idx(text + "   ## scope1: " + scopeDump(ctx1) + "   ## scope2: " + scopeDump(ctx2))
				rep.Hist("coq-case:" + j.kind)
			}
		}
		if d1.HasErrors() || d2.HasErrors() {
			rep.Hist("outcome:error-in-a-run")
			continue
		}
		if !changed {
			rep.Hist("outcome:nothing-marked-to-perturb")
			continue
		}
		e1, e2 := erased(v1), erased(v2)
		if len(text) < 70 {
			rep.Sample(text)
		}
		where := laundered(v1, v2, "result")
		if where == "" {
			if hv.DumpVal(v1) != hv.DumpVal(v2) {
				rep.Hist("outcome:differs-under-mark-only")
			} else {
				rep.Hist("outcome:equal")
			}
			continue
		}
		kind := "mark-laundered"
		switch {
		case (j.kind == "expr" || j.kind == "tgt") && exprForClass != nil && (objectIndexMarkedKey(exprForClass, ctx1) || objectIndexMarkedKey(exprForClass, ctx2)) &&
			explainedByObjectIndex(text, exprForClass, ctx1, ctx2):
			// an object is indexed with a marked key AND repairing exactly that removes the difference
			kind = "object-index-marked-key"
		case (j.kind == "expr" || j.kind == "tgt") && exprForClass != nil && condUnselectedErrorDiffers(exprForClass, ctx1, ctx2):
			// the unselected arm of a conditional fails in exactly one of the two runs
			kind = "cond-unselected-arm-error-dropped"
		case j.kind == "dyn" && blockCountExplains(ctx1, ctx2, dynColl, v1, v2, where):
			// the NUMBER of blocks generated from a marked for_each (0, n, or unknown) is visible
			// (inherent to dynblock): the top-level tuple of blocks, and only when the for_each values
			// of the two scopes account for it
			kind = "dynblock-marked-foreach-block-count"
		case j.kind == "dyn":
			kind = "dynblock-mark-laundered"
		case j.kind == "body" && bodyCondErrorDropped(text, ctx1, ctx2):
			// the same finding inside an attribute expression decoded by hcldec
			kind = "cond-unselected-arm-error-dropped"
		case j.kind == "body":
			kind = "decode-mark-laundered"
		}
		rep.Hist("outcome:" + kind)
		rep.Fail(hv.Failure{Kind: kind, Detail: "results differ outside marked subtrees at " + where + " ;; " + e1 + "  VS  " + e2, Input: text,
			Extra: map[string]string{"scope1": scopeDump(ctx1), "scope2": scopeDump(ctx2), "v1": hv.DumpVal(v1), "v2": hv.DumpVal(v2)}})
	}
	for k, v := range rep.Histogram {
		_ = k
		_ = v
	}
	names, err := cf.Flush(120)
	if err != nil {
		return err
	}
	rep.CaseFiles = names
	return rep.Write(cfg.Out)
}

// bodyCondErrorDropped applies condUnselectedErrorDiffers to every attribute expression of a body text.
func bodyCondErrorDropped(text string, ctx1, ctx2 *hcl.EvalContext) bool {
	file, pd := hclsyntax.ParseConfig([]byte(text), "b.hcl", hcl.InitialPos)
	if pd.HasErrors() {
		return false
	}
	body, ok := file.Body.(*hclsyntax.Body)
	if !ok {
		return false
	}
	for _, name := range hv.SortedKeys(body.Attributes) {
		if condUnselectedErrorDiffers(body.Attributes[name].Expr, ctx1, ctx2) {
			return true
		}
	}
	return false
}
