package main

// Generators of cparse: template texts, heredoc expressions, traversal texts,
// abstract body trees with random legal renderings (C02), and re-layout of a
// valid expression (C01 layout invariance).

import (
	"fmt"
	"strings"

	"github.com/hashicorp/hcl/v2"
	"github.com/hashicorp/hcl/v2/hclsyntax"
	"hclverif/hv"
)

// ---- templates -------------------------------------------------------------------------

var tplLits = []string{"a", "hello ", " ", "  ", "x y", "é", "日本", "\n", "\n  ", "  \n", "\t", "$${", "%%{", "$", "%", "$$", "1.5", "{", "}", "#", "//", "\"", "\\", "\\n", "'", "é", " ́x", " ", "  ", "\r\n", "\r"}

type tplGen struct {
	r     *hv.Rng
	b     strings.Builder
	depth int
	feat  map[string]int
	// quoted: the template will sit between double quotes (no raw newlines, escapes for " and \)
	quoted bool
}

func (g *tplGen) lit() {
	c := tplLits[g.r.Intn(len(tplLits))]
	if g.quoted {
		switch c {
		case "\"":
			c = "\\\""
		case "\\":
			c = "\\\\"
		case "\n", "\n  ", "  \n", "\r\n", "\r":
			c = g.r.Pick("\\n", "\\r\\n", " ")
		}
	}
	g.b.WriteString(c)
	g.feat["tpl:literal"]++
}

func (g *tplGen) exprText() string {
	if g.r.Chance(0.6) {
		return g.r.Pick("x", "a.b", "1", "f(x)", "[1, 2]", "a ? b : c", "a[0]", "\"s\"", "a.*.b", "!a", "x + 1", "null", "\"in ${y}\"")
	}
	// a generated expression without heredocs and, inside quotes, without newlines
	for i := 0; i < 20; i++ {
		s, _ := hv.GenExprText(g.r)
		if strings.ContainsAny(s, "\n\r") && g.quoted {
			continue
		}
		if strings.Contains(s, "#") || strings.Contains(s, "//") {
			// a line comment would need its newline
			if g.quoted {
				continue
			}
		}
		if len(s) > 120 {
			continue
		}
		return s
	}
	return "x"
}

func (g *tplGen) open(intro string) {
	g.b.WriteString(intro)
	if g.r.Chance(0.2) {
		g.b.WriteString("~")
		g.feat["tpl:strip-open"]++
	}
	g.b.WriteString(g.r.Pick("", " ", "  "))
}
func (g *tplGen) close() {
	g.b.WriteString(g.r.Pick("", " "))
	if g.r.Chance(0.2) {
		g.b.WriteString("~")
		g.feat["tpl:strip-close"]++
	}
	g.b.WriteString("}")
}

func (g *tplGen) parts() {
	n := g.r.Small(5)
	for i := 0; i < n; i++ {
		switch x := g.r.Intn(12); {
		case x < 6:
			g.lit()
		case x < 9 || g.depth > 2:
			g.feat["tpl:interp"]++
			g.open("${")
			g.b.WriteString(g.exprText())
			g.close()
		case x < 11:
			g.feat["tpl:if"]++
			g.depth++
			g.open("%{")
			g.b.WriteString("if " + g.exprText())
			g.close()
			g.parts()
			if g.r.Chance(0.4) {
				g.feat["tpl:else"]++
				g.open("%{")
				g.b.WriteString("else")
				g.close()
				g.parts()
			}
			g.open("%{")
			g.b.WriteString("endif")
			g.close()
			g.depth--
		default:
			g.feat["tpl:for"]++
			g.depth++
			g.open("%{")
			if g.r.Chance(0.3) {
				g.b.WriteString("for k, v in " + g.exprText())
			} else {
				g.b.WriteString("for v in " + g.exprText())
			}
			g.close()
			g.parts()
			g.open("%{")
			g.b.WriteString("endfor")
			g.close()
			g.depth--
		}
		// a lone "$" / "%" must not meet a following "{"
		if s := g.b.String(); strings.HasSuffix(s, "$") || strings.HasSuffix(s, "%") {
			g.b.WriteString(" ")
		}
	}
}

// genTemplate returns a bare template text (for hclsyntax.ParseTemplate).
func genTemplate(r *hv.Rng, feat map[string]int) string {
	g := &tplGen{r: r, feat: feat}
	g.parts()
	return g.b.String()
}

// genQuoted returns a quoted template expression.
func genQuoted(r *hv.Rng, feat map[string]int) string {
	g := &tplGen{r: r, feat: feat, quoted: true}
	g.parts()
	feat["gen:quoted-template"]++
	return "\"" + g.b.String() + "\""
}

// genHeredoc returns a heredoc template expression (including the final newline
// the closing marker needs).
func genHeredoc(r *hv.Rng, feat map[string]int) string {
	marker := r.Pick("EOT", "EOF", "E_1")
	flush := r.Chance(0.5)
	nl := "\n"
	if r.Chance(0.15) {
		nl = "\r\n"
		feat["gen:heredoc-crlf"]++
	}
	var b strings.Builder
	if flush {
		b.WriteString("<<-" + marker + nl)
		feat["gen:heredoc-flush"]++
	} else {
		b.WriteString("<<" + marker + nl)
		feat["gen:heredoc"]++
	}
	lines := r.Small(5)
	for i := 0; i < lines; i++ {
		switch r.Intn(8) {
		case 0:
			// blank line
		case 1:
			b.WriteString(strings.Repeat(" ", r.Intn(4)))
		default:
			b.WriteString(r.Pick("", " ", "  ", "    ", "\t", " \t", "  ", "  ́"))
			g := &tplGen{r: r, feat: feat}
			g.depth = 1
			g.parts()
			s := g.b.String()
			s = strings.ReplaceAll(s, "\r\n", " ")
			s = strings.ReplaceAll(s, "\r", " ")
			if nl == "\r\n" {
				s = strings.ReplaceAll(s, "\n", "\r\n")
			}
			b.WriteString(s)
		}
		b.WriteString(nl)
	}
	if flush {
		b.WriteString(strings.Repeat(" ", r.Intn(4)))
	}
	b.WriteString(marker + nl)
	return b.String()
}

// ---- traversals ------------------------------------------------------------------------------

func genTraversalText(r *hv.Rng) string {
	var b strings.Builder
	b.WriteString(r.Pick("a", "foo", "var", "ünï", "a-b", "_x"))
	n := r.Small(6)
	for i := 0; i < n; i++ {
		if r.Chance(0.1) {
			b.WriteString(r.Pick(" ", "\n", " /* c */ "))
		}
		switch r.Intn(9) {
		case 0, 1, 2:
			b.WriteString("." + r.Pick("b", "name", "in", "x1"))
		case 3, 4:
			b.WriteString(fmt.Sprintf("[%d]", r.Intn(10)))
		case 5:
			b.WriteString("[" + r.Pick("1.5", "1e2", "007") + "]")
		case 6:
			b.WriteString("[\"" + r.Pick("k", "a b", "", "ü", "x\\ny", "$${", "a\\\"b") + "\"]")
		case 7:
			b.WriteString("[*]")
		case 8:
			b.WriteString(r.Pick(".0", ".*", "[x]", "[\"${a}\"]", "[ 1 ]", "[\n2\n]"))
		}
	}
	return b.String()
}

// ---- abstract body trees (C02) ------------------------------------------------------------------

type aLabel struct {
	val    string
	quoted bool
}

type aItem struct {
	isAttr bool
	name   string // attribute name or block type
	expr   string // attribute expression source (one line unless heredoc)
	labels []aLabel
	body   []*aItem
	// block layout
	oneLine bool // `t { a = 1 }` or `t {}` on one line
}

var bodyNames = []string{"a", "b", "foo", "bar", "baz", "x1", "a-b", "_u", "name", "count", "tags", "ünï", "in", "for", "if", "k_2", "true", "null", "each"}
var simpleExprs = []string{
	"1", "2.5", "true", "null", "\"s\"", "\"\"", "foo", "foo.bar", "foo.bar[0]", "[1, 2]", "[]", "{}", "{ a = 1 }", "f(x)", "f()",
	"a + b * c", "!x", "-1", "x ? 1 : 2", "\"a${b}c\"", "\"${x}\"", "[for v in l : v]", "{ for k, v in m : k => v }", "a.*.b", "a[*].b",
	"ns::f(1, 2...)", "(1)", "a == b && c", "\"q\\\"q\\\\\"", "\"$${x} %%{y}\"",
}

var labelRunes = []rune{'a', 'b', 'Z', '0', '9', ' ', '_', '-', '.', '"', '\\', '\n', '\t', '\r', '$', '%', '{', '}', '#', '/', '*', '\'', '`', 'é', 'ü', '日', '😀', '́', ' ', '\u0001', '\u007f', '~', '<', '=', ':'}

func genLabelValue(r *hv.Rng) string {
	switch r.Intn(6) {
	case 0:
		return r.Pick("", "l", "a b", "ü", "x.y", "${", "%{", "$${", "%%{", "$", "%", "$$", "a$", "$a", "${x}", "%{ if }", "\\", "\"", "\\\"", "\n", "a\nb", "#", "//", "/* */", "{ }")
	}
	n := r.Small(8)
	var b strings.Builder
	for i := 0; i < n; i++ {
		b.WriteRune(labelRunes[r.Intn(len(labelRunes))])
	}
	return b.String()
}

// quoteLabel renders s as a quoted string literal without template sequences,
// choosing randomly among the legal spellings of each character.
func quoteLabel(r *hv.Rng, s string) string {
	var b strings.Builder
	b.WriteByte('"')
	rs := []rune(s)
	for i := 0; i < len(rs); i++ {
		c := rs[i]
		switch {
		case c == '"':
			b.WriteString(`\"`)
		case c == '\\':
			b.WriteString(`\\`)
		case c == '\n':
			b.WriteString(`\n`)
		case c == '\r':
			b.WriteString(`\r`)
		case c == '\t':
			if r.Chance(0.5) {
				b.WriteString(`\t`)
			} else {
				b.WriteRune(c)
			}
		case (c == '$' || c == '%') && i+1 < len(rs) && rs[i+1] == '{':
			// "${" must be written "$${"
			b.WriteRune(c)
			b.WriteRune(c)
		case c < 0x20 || c == 0x7f:
			fmt.Fprintf(&b, `\u%04x`, c)
		case c == '$' || c == '%' || c == '{':
			// written literally: the "$${" escape is recognised on the raw characters only
			b.WriteRune(c)
		default:
			switch {
			case r.Chance(0.1) && c <= 0xffff:
				fmt.Fprintf(&b, `\u%04X`, c)
			case r.Chance(0.05):
				fmt.Fprintf(&b, `\U%08x`, c)
			default:
				b.WriteRune(c)
			}
		}
	}
	b.WriteByte('"')
	return b.String()
}

type treeGen struct {
	r    *hv.Rng
	feat map[string]int
}

func (g *treeGen) genBody(depth int, maxItems int) []*aItem {
	n := g.r.Small(maxItems)
	var items []*aItem
	used := map[string]bool{}
	labelCount := map[string]int{}
	for i := 0; i < n; i++ {
		if g.r.Chance(0.55) || depth > 3 {
			name := bodyNames[g.r.Intn(len(bodyNames))]
			if used[name] {
				continue
			}
			used[name] = true
			it := &aItem{isAttr: true, name: name, expr: simpleExprs[g.r.Intn(len(simpleExprs))]}
			if g.r.Chance(0.08) {
				body := g.r.Pick("", "hello\n", "  a\n    b\n", "x ${y}\n", "\n", "  \n  z\n", "  %{ if c }\n  y\n  %{ endif }\n")
				if g.r.Chance(0.5) {
					it.expr = "<<-EOT\n" + body + g.r.Pick("", "  ", "\t") + "EOT"
				} else {
					it.expr = "<<EOT\n" + body + "EOT"
				}
				g.feat["tree:heredoc-attr"]++
			}
			g.feat["tree:attr"]++
			items = append(items, it)
		} else {
			ty := bodyNames[g.r.Intn(len(bodyNames))]
			nl, ok := labelCount[ty]
			if !ok {
				nl = g.r.Intn(4)
				labelCount[ty] = nl
			}
			it := &aItem{name: ty}
			for j := 0; j < nl; j++ {
				if g.r.Chance(0.4) {
					it.labels = append(it.labels, aLabel{val: bodyNames[g.r.Intn(len(bodyNames))]})
					g.feat["tree:label-bare"]++
				} else {
					it.labels = append(it.labels, aLabel{val: genLabelValue(g.r), quoted: true})
					g.feat["tree:label-quoted"]++
				}
			}
			switch x := g.r.Intn(10); {
			case x < 2:
				g.feat["tree:empty-block"]++
				it.oneLine = g.r.Chance(0.5)
			case x < 4:
				g.feat["tree:oneline-block"]++
				it.oneLine = true
				e := simpleExprs[g.r.Intn(len(simpleExprs))]
				it.body = []*aItem{{isAttr: true, name: bodyNames[g.r.Intn(len(bodyNames))], expr: e}}
			default:
				it.body = g.genBody(depth+1, 4)
			}
			g.feat["tree:block"]++
			items = append(items, it)
		}
	}
	return items
}

// renderer: every gap between structural tokens is a random legal layout.
type renderer struct {
	r    *hv.Rng
	b    strings.Builder
	feat map[string]int
	crlf float64
	wild float64
}

func (w *renderer) nl() {
	if w.r.Chance(w.crlf) {
		w.b.WriteString("\r\n")
		w.feat["lay:crlf"]++
	} else {
		w.b.WriteString("\n")
	}
}

var commentTexts = []string{"c", " todo: x = 1 ", "a { b }", "\"q", "${x}", "é", "", "#", "//", "}", "{", "= 1", "<<EOT"}

// hgap: horizontal gap between two tokens of one line (at least min blanks).
func (w *renderer) hgap(min int) {
	n := min
	if w.r.Chance(w.wild) {
		n += w.r.Intn(3)
	}
	for i := 0; i < n; i++ {
		if w.r.Chance(w.wild * 0.3) {
			w.b.WriteString("\t")
		} else {
			w.b.WriteString(" ")
		}
	}
	if w.r.Chance(w.wild * 0.3) {
		t := commentTexts[w.r.Intn(len(commentTexts))]
		if w.r.Chance(0.2) {
			t += "\n more"
			w.feat["lay:multiline-block-comment"]++
		}
		w.b.WriteString("/*" + strings.ReplaceAll(t, "*/", "* /") + "*/")
		w.feat["lay:inline-comment"]++
		if w.r.Chance(0.5) {
			w.b.WriteString(" ")
		}
	}
}

// eol: end of a line item: optional trailing comment, then the line break.
func (w *renderer) eol(last bool) {
	w.hgap(0)
	if w.r.Chance(w.wild * 0.5) {
		w.b.WriteString(w.r.Pick("#", "//") + commentTexts[w.r.Intn(len(commentTexts))])
		w.feat["lay:line-comment"]++
		// a single-line comment is ended by LF (CR LF also ends in LF)
		w.nl()
		return
	}
	if last {
		w.feat["lay:no-final-newline"]++
		return
	}
	w.nl()
}

// vgap: blank lines and comment lines between items.
func (w *renderer) vgap() {
	for w.r.Chance(w.wild * 0.4) {
		switch w.r.Intn(4) {
		case 0:
			w.hgap(0)
			w.nl()
			w.feat["lay:blank-line"]++
		case 1:
			w.hgap(0)
			w.b.WriteString("#" + commentTexts[w.r.Intn(len(commentTexts))])
			w.nl()
			w.feat["lay:comment-line"]++
		case 2:
			w.hgap(0)
			w.b.WriteString("//" + commentTexts[w.r.Intn(len(commentTexts))])
			w.nl()
			w.feat["lay:comment-line"]++
		case 3:
			w.hgap(0)
			w.b.WriteString("/* block\n comment */")
			w.hgap(0)
			w.nl()
			w.feat["lay:comment-line"]++
		}
	}
}

func (w *renderer) indent(level int) {
	if w.r.Chance(w.wild) {
		w.b.WriteString(strings.Repeat(w.r.Pick(" ", "\t", "   "), w.r.Intn(5)))
	} else {
		w.b.WriteString(strings.Repeat("  ", level))
	}
}

// renderExpr writes the expression; heredocs carry their own line structure.
func (w *renderer) expr(e string) (rendered string) {
	if strings.HasPrefix(e, "<<") {
		// line endings inside a heredoc follow the file's style too
		lines := strings.Split(e, "\n")
		var b strings.Builder
		for i, l := range lines {
			b.WriteString(l)
			if i < len(lines)-1 {
				if w.r.Chance(w.crlf) {
					b.WriteString("\r\n")
				} else {
					b.WriteString("\n")
				}
			}
		}
		rendered = b.String()
	} else {
		rendered = e
	}
	w.b.WriteString(rendered)
	return rendered
}

// renderItems writes the items of one body; `lastOfFile` tells that the final
// line break may be omitted. Fills in it.exprRendered through the map.
func (w *renderer) items(items []*aItem, level int, top bool, rendered map[*aItem]string) {
	for i, it := range items {
		w.vgap()
		w.indent(level)
		last := top && i == len(items)-1 && w.r.Chance(0.2)
		if it.isAttr {
			w.b.WriteString(it.name)
			w.hgap(0)
			w.b.WriteString("=")
			w.hgap(0)
			rendered[it] = w.expr(it.expr)
			if strings.HasPrefix(it.expr, "<<") {
				// the closing marker must be followed by a newline (spec.md: heredocTemplate
				// ends with `Identifier Newline`), even at the end of the file
				w.nl()
			} else {
				w.eol(last)
			}
			continue
		}
		w.b.WriteString(it.name)
		for _, l := range it.labels {
			w.hgap(1)
			if l.quoted {
				w.b.WriteString(quoteLabel(w.r, l.val))
			} else {
				w.b.WriteString(l.val)
			}
		}
		w.hgap(1)
		w.b.WriteString("{")
		switch {
		case it.oneLine && len(it.body) == 0:
			w.hgap(0)
			w.b.WriteString("}")
		case it.oneLine:
			a := it.body[0]
			w.hgap(1)
			w.b.WriteString(a.name)
			w.hgap(0)
			w.b.WriteString("=")
			w.hgap(0)
			rendered[a] = w.expr(a.expr)
			w.hgap(1)
			w.b.WriteString("}")
		default:
			w.eol(false)
			w.items(it.body, level+1, false, rendered)
			w.vgap()
			w.indent(level)
			w.b.WriteString("}")
		}
		w.eol(last)
	}
	if top {
		w.vgap()
	}
}

func renderTree(r *hv.Rng, items []*aItem, feat map[string]int) (string, map[*aItem]string) {
	w := &renderer{r: r, feat: feat}
	w.wild = []float64{0.0, 0.15, 0.4, 0.8}[r.Intn(4)]
	w.crlf = []float64{0, 0, 1, 0.3}[r.Intn(4)]
	if r.Chance(0.05) {
		w.b.WriteString("\xef\xbb\xbf")
		feat["lay:bom"]++
	}
	rendered := map[*aItem]string{}
	w.items(items, 0, true, rendered)
	return w.b.String(), rendered
}

// ---- re-layout of a valid expression (C01) ---------------------------------------------------------

// relayout re-renders the token stream of src with different gaps. It keeps a gap
// wherever the original had one (never glues tokens), may add gaps elsewhere, and
// uses newlines / line comments only where the parser ignores newlines (outside
// object-constructor braces and outside template literals).
func relayout(r *hv.Rng, src string, feat map[string]int) (string, bool) {
	toks, diags := hclsyntax.LexExpression([]byte(src), "e.hcl", hcl.InitialPos)
	if diags.HasErrors() {
		return "", false
	}
	type ctx int
	const (
		cExpr  ctx = iota // newlines ignored
		cBrace            // object constructor / unknown brace: newlines significant
		cTmpl             // template literal context: no gaps at all
	)
	stack := []ctx{cExpr}
	top := func() ctx { return stack[len(stack)-1] }
	var b strings.Builder
	prevEnd := 0
	var prev *hclsyntax.Token
	for i := range toks {
		t := toks[i]
		if t.Type == hclsyntax.TokenEOF {
			break
		}
		gap := src[prevEnd:t.Range.Start.Byte]
		// decide the new gap (between prev and t) in the context of prev
		if prev != nil {
			switch {
			case top() == cTmpl:
				b.WriteString(gap) // always empty
			case t.Type == hclsyntax.TokenComment || prev.Type == hclsyntax.TokenComment || t.Type == hclsyntax.TokenNewline || prev.Type == hclsyntax.TokenNewline:
				b.WriteString(gap)
			case prev.Type == hclsyntax.TokenCHeredoc || prev.Type == hclsyntax.TokenOHeredoc:
				b.WriteString(gap)
			default:
				g := gap
				choice := r.Intn(10)
				switch {
				case choice < 3:
					// keep
				case choice < 5:
					g = gap + " "
				case choice < 6:
					g = gap + " /* c */ "
					feat["relayout:inline-comment"]++
				case choice < 8 && top() == cExpr:
					g = gap + "\n  "
					feat["relayout:newline"]++
				case choice < 9 && top() == cExpr:
					g = gap + " # c\n"
					feat["relayout:line-comment"]++
				case gap != "":
					g = r.Pick(" ", "  ", "\t")
					if strings.ContainsAny(gap, "\n") {
						g = gap
					}
				}
				b.WriteString(g)
			}
		}
		b.Write(t.Bytes)
		// context after t
		switch t.Type {
		case hclsyntax.TokenOBrack:
			// the brackets of a full splat `[*]` do not switch newlines off (only index
			// brackets do: spec.md "Within the brackets that delimit the index key...")
			j := i + 1
			for j < len(toks) && (toks[j].Type == hclsyntax.TokenComment || toks[j].Type == hclsyntax.TokenNewline) {
				j++
			}
			if j < len(toks) && toks[j].Type == hclsyntax.TokenStar {
				stack = append(stack, top())
			} else {
				stack = append(stack, cExpr)
			}
		case hclsyntax.TokenOParen, hclsyntax.TokenTemplateInterp, hclsyntax.TokenTemplateControl:
			stack = append(stack, cExpr)
		case hclsyntax.TokenOBrace:
			stack = append(stack, cBrace)
		case hclsyntax.TokenOQuote, hclsyntax.TokenOHeredoc:
			stack = append(stack, cTmpl)
		case hclsyntax.TokenCParen, hclsyntax.TokenCBrack, hclsyntax.TokenCBrace, hclsyntax.TokenTemplateSeqEnd, hclsyntax.TokenCQuote, hclsyntax.TokenCHeredoc:
			if len(stack) > 1 {
				stack = stack[:len(stack)-1]
			}
		}
		prevEnd = t.Range.End.Byte
		prev = &toks[i]
	}
	b.WriteString(src[prevEnd:])
	return b.String(), true
}

// significant token sequence: types and bytes without comments and newlines
func sigTokens(src string) string {
	toks, _ := hclsyntax.LexExpression([]byte(src), "e.hcl", hcl.InitialPos)
	var b strings.Builder
	for _, t := range toks {
		if t.Type == hclsyntax.TokenComment || t.Type == hclsyntax.TokenNewline {
			continue
		}
		fmt.Fprintf(&b, "%d:%x|", int(t.Type), t.Bytes)
	}
	return b.String()
}

// wrapSubexpr wraps the source range of one random sub-expression in redundant
// parentheses. Candidates are nodes whose source text, parsed on its own, gives
// the same tree (a self-contained expression), excluding object-constructor keys
// (parentheses change their meaning) and anything below a splat's anonymous symbol.
func wrapSubexpr(r *hv.Rng, src string, root hclsyntax.Expression) (string, bool) {
	type cand struct{ s, e int }
	var cands []cand
	var visit func(n hclsyntax.Node, blocked bool)
	visit = func(n hclsyntax.Node, blocked bool) {
		e, isExpr := n.(hclsyntax.Expression)
		if !isExpr {
			return
		}
		switch x := e.(type) {
		case *hclsyntax.ObjectConsKeyExpr:
			// neither the key node nor its wrapped expression; deeper nodes are fine
			for _, c := range childExprs(x.Wrapped) {
				visit(c, blocked)
			}
			return
		case *hclsyntax.SplatExpr:
			visit(x.Source, blocked)
			visit(x.Each, true)
			return
		case *hclsyntax.AnonSymbolExpr:
			return
		}
		if !blocked {
			rng := e.Range()
			if rng.Start.Byte >= 0 && rng.End.Byte <= len(src) && rng.Start.Byte < rng.End.Byte {
				sub := src[rng.Start.Byte:rng.End.Byte]
				pe, d := hclsyntax.ParseExpression([]byte(sub), "s.hcl", hcl.InitialPos)
				if !d.HasErrors() && hv.DumpExprS(pe) == hv.DumpExprS(e) {
					cands = append(cands, cand{rng.Start.Byte, rng.End.Byte})
				}
			}
		}
		for _, c := range childExprs(e) {
			visit(c, blocked)
		}
	}
	visit(root, false)
	if len(cands) == 0 {
		return "", false
	}
	c := cands[r.Intn(len(cands))]
	sub := src[c.s:c.e]
	open, close := "(", ")"
	if strings.Contains(sub, "<<") {
		open, close = "(\n", "\n)"
	}
	if r.Chance(0.3) {
		open, close = "( ", " )"
		if strings.Contains(sub, "<<") {
			open, close = "(\n", "\n)"
		}
	}
	return src[:c.s] + open + sub + close + src[c.e:], true
}

func childExprs(e hclsyntax.Expression) []hclsyntax.Expression {
	switch x := e.(type) {
	case *hclsyntax.RelativeTraversalExpr:
		return []hclsyntax.Expression{x.Source}
	case *hclsyntax.FunctionCallExpr:
		return x.Args
	case *hclsyntax.ConditionalExpr:
		return []hclsyntax.Expression{x.Condition, x.TrueResult, x.FalseResult}
	case *hclsyntax.IndexExpr:
		return []hclsyntax.Expression{x.Collection, x.Key}
	case *hclsyntax.TupleConsExpr:
		return x.Exprs
	case *hclsyntax.ObjectConsExpr:
		var out []hclsyntax.Expression
		for _, it := range x.Items {
			out = append(out, it.KeyExpr, it.ValueExpr)
		}
		return out
	case *hclsyntax.ObjectConsKeyExpr:
		return []hclsyntax.Expression{x.Wrapped}
	case *hclsyntax.ForExpr:
		out := []hclsyntax.Expression{x.CollExpr}
		if x.KeyExpr != nil {
			out = append(out, x.KeyExpr)
		}
		out = append(out, x.ValExpr)
		if x.CondExpr != nil {
			out = append(out, x.CondExpr)
		}
		return out
	case *hclsyntax.SplatExpr:
		return []hclsyntax.Expression{x.Source, x.Each}
	case *hclsyntax.BinaryOpExpr:
		return []hclsyntax.Expression{x.LHS, x.RHS}
	case *hclsyntax.UnaryOpExpr:
		return []hclsyntax.Expression{x.Val}
	case *hclsyntax.TemplateExpr:
		return x.Parts
	case *hclsyntax.TemplateJoinExpr:
		return []hclsyntax.Expression{x.Tuple}
	case *hclsyntax.TemplateWrapExpr:
		return []hclsyntax.Expression{x.Wrapped}
	case *hclsyntax.ParenthesesExpr:
		return []hclsyntax.Expression{x.Expression}
	}
	return nil
}
