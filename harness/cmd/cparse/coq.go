package main

// Printers: Go tokens / ASTs / diagnostics -> Coq terms of Parse/Peeker.v,
// Eval/Impl.v (expr), Parse/BodyParser.v (pbody), Parse/Traversal.v.

import (
	"fmt"
	"regexp"
	"sort"
	"strings"
	"unicode"
	"unicode/utf8"

	"github.com/apparentlymart/go-textseg/v15/textseg"
	"github.com/hashicorp/hcl/v2"
	"github.com/hashicorp/hcl/v2/hclsyntax"
	"golang.org/x/text/unicode/norm"
	"hclverif/hv"
)

// ---- diagnostics -------------------------------------------------------------------

var diagIDs = map[string]int{
	"Attribute redefined":                             1,
	"Invalid argument name":                           2,
	"Unclosed configuration block":                    3,
	"Unclosed configuration body":                     4,
	"Argument or block definition required":           5,
	"Argument definition required":                    6,
	"Missing newline after argument":                  7,
	"Unexpected comma after argument":                 8,
	"Invalid block definition":                        9,
	"Invalid single-argument block definition":        10,
	"Missing newline after block definition":          11,
	"Missing false expression in conditional":         12,
	"Invalid legacy index syntax":                     13,
	"Nested splat expression not allowed":             14,
	"Invalid attribute name":                          15,
	"Missing close bracket on splat index":            16,
	"Missing close bracket on index":                  17,
	"Unbalanced parentheses":                          18,
	"Missing expression":                              19,
	"Invalid expression":                              20,
	"Invalid number literal":                          21,
	"Missing function name":                           22,
	"Missing open parenthesis":                        23,
	"Missing closing parenthesis":                     24,
	"Unterminated function call":                      25,
	"Missing argument separator":                      26,
	"Unterminated tuple constructor expression":       27,
	"Missing item separator":                          28,
	"Missing attribute value":                         29,
	"Missing key/value separator":                     30,
	"Unterminated object constructor expression":      31,
	"Missing attribute separator":                     32,
	"Invalid 'for' expression":                        33,
	"Invalid string literal":                          34,
	"Unterminated string literal":                     35,
	"Unexpected end of template":                      36,
	"Unclosed template interpolation sequence":        38,
	"Extra characters after interpolation expression": 39,
	"Invalid template directive":                      40,
	"Invalid 'for' directive":                         41,
	"Invalid template control keyword":                42,
	"Unterminated template string":                    44,
	"Extra characters after expression":               45,
	"Variable name required":                          46,
	"Attribute name required":                         47,
	"Unclosed index brackets":                         48,
	"Index value required":                            49,
	"Invalid character":                               50,
	"Unsupported operator":                            51,
	"Invalid character encoding":                      52,
	"Invalid multi-line string":                       53,
	"Invalid escape sequence":                         54,
}

func diagID(d *hcl.Diagnostic) int {
	if id, ok := diagIDs[d.Summary]; ok {
		return id
	}
	if strings.HasPrefix(d.Summary, "Unexpected ") && strings.HasSuffix(d.Summary, " directive") {
		return 37
	}
	if strings.HasPrefix(d.Summary, "Extra characters in ") && strings.HasSuffix(d.Summary, " marker") {
		return 43
	}
	return 999
}

// errorIDs lists the kinds of the error diagnostics, in order; warnings (the
// native parser has none) are listed negated so that they are noticed.
func errorIDs(diags hcl.Diagnostics) []int {
	var ids []int
	for _, d := range diags {
		if d.Severity == hcl.DiagError {
			ids = append(ids, diagID(d))
		} else {
			ids = append(ids, -diagID(d))
		}
	}
	return ids
}

// ---- tokens --------------------------------------------------------------------------

// gextra: see Parse/Peeker.v pgextra.
func gextra(s string) int {
	prefixLen := len(s) - len(strings.TrimLeftFunc(s, unicode.IsSpace))
	if prefixLen == 0 || prefixLen == len(s) {
		return 0
	}
	b := []byte(s)
	off := 0
	for off < prefixLen {
		adv, _, _ := textseg.ScanGraphemeClusters(b[off:], true)
		if adv == 0 {
			break
		}
		off += adv
	}
	return off - prefixLen
}

// nfcInert says that cty.StringVal's NFC normalisation is the identity on every
// string assembled from pieces of s (each rune is a normalised starter that does
// not combine with what precedes it).
func nfcInert(s string) bool {
	for i := 0; i < len(s); {
		r, w := utf8.DecodeRuneInString(s[i:])
		if r == utf8.RuneError && w <= 1 {
			return false
		}
		if r >= 0x300 {
			p := norm.NFC.PropertiesString(s[i : i+w])
			if !p.BoundaryBefore() || !norm.NFC.IsNormalString(s[i:i+w]) {
				return false
			}
		}
		i += w
	}
	return true
}

var hugeExp = regexp.MustCompile(`[eE][+-]?[0-9]{4,}`)

type tokInfo struct {
	nfcSensitive bool
	hugeNumber   bool
	feat         map[string]int
}

func decodeLit(t hclsyntax.Token) (s string, errs int) {
	defer func() {
		if recover() != nil {
			s, errs = string(t.Bytes), 0
		}
	}()
	str, d := hclsyntax.ParseStringLiteralToken(t)
	return str, len(d)
}

func coqTokens(toks hclsyntax.Tokens, info *tokInfo) string {
	items := make([]string, len(toks))
	for i, t := range toks {
		switch t.Type {
		case hclsyntax.TokenQuotedLit, hclsyntax.TokenStringLit:
			s, errs := decodeLit(t)
			if !nfcInert(s) {
				info.nfcSensitive = true
			}
			items[i] = fmt.Sprintf("kl %d %s %s %d %d", int(t.Type), hv.Hexs(t.Bytes), hv.Hexs([]byte(s)), errs, gextra(s))
		default:
			if t.Type == hclsyntax.TokenNumberLit && (hugeExp.Match(t.Bytes) || len(t.Bytes) > 60) {
				info.hugeNumber = true
			}
			items[i] = fmt.Sprintf("k %d %s", int(t.Type), hv.Hexs(t.Bytes))
		}
		if info.feat != nil {
			switch t.Type {
			case hclsyntax.TokenOHeredoc:
				if strings.HasPrefix(string(t.Bytes), "<<-") {
					info.feat["tok:heredoc-flush"]++
				} else {
					info.feat["tok:heredoc"]++
				}
			case hclsyntax.TokenTemplateInterp, hclsyntax.TokenTemplateControl:
				if len(t.Bytes) == 3 {
					info.feat["tok:strip-open"]++
				}
			case hclsyntax.TokenTemplateSeqEnd:
				if len(t.Bytes) == 2 {
					info.feat["tok:strip-close"]++
				}
			case hclsyntax.TokenComment:
				info.feat["tok:comment"]++
			}
		}
	}
	return hv.CoqList(items)
}

// ---- expressions ------------------------------------------------------------------------

func coqStepsP(t hcl.Traversal, info *hv.ValInfo) string {
	var parts []string
	for _, s := range t {
		switch st := s.(type) {
		case hcl.TraverseAttr:
			parts = append(parts, "SAttr "+hv.CoqStr(st.Name))
		case hcl.TraverseIndex:
			parts = append(parts, "SIndex "+hv.CoqVal(st.Key, info))
		case hcl.TraverseRoot:
		default:
			info.Unsupported = true
		}
	}
	return hv.CoqList(parts)
}

// coqExprP is hv.CoqExpr extended with the parser's placeholder node
// (ExprSyntaxError = e_syntax_error of Parse/ExprParser.v) and a feature count.
func coqExprP(e hclsyntax.Expression, info *hv.ValInfo, feat map[string]int) string {
	f := func(k string) {
		if feat != nil {
			feat["ast:"+k]++
		}
	}
	rec := func(x hclsyntax.Expression) string { return coqExprP(x, info, feat) }
	switch x := e.(type) {
	case nil:
		info.Unsupported = true
		return "EAnon"
	case *hclsyntax.ExprSyntaxError:
		f("syntax-error-node")
		return "e_syntax_error"
	case *hclsyntax.LiteralValueExpr:
		return "(ELit " + hv.CoqVal(x.Val, info) + ")"
	case *hclsyntax.ScopeTraversalExpr:
		for _, s := range x.Traversal[1:] {
			if ix, ok := s.(hcl.TraverseIndex); ok {
				if !ix.Key.IsKnown() {
					f("step-index-placeholder")
				} else {
					f("step-index-literal")
				}
			}
		}
		return "(EScopeTrav " + hv.CoqStr(x.Traversal.RootName()) + " " + coqStepsP(x.Traversal[1:], info) + ")"
	case *hclsyntax.RelativeTraversalExpr:
		f("relative-traversal")
		return "(ERelTrav " + rec(x.Source) + " " + coqStepsP(x.Traversal, info) + ")"
	case *hclsyntax.FunctionCallExpr:
		f("call")
		if x.ExpandFinal {
			f("call-expand")
		}
		if strings.Contains(x.Name, "::") {
			f("call-namespaced")
		}
		var args []string
		for _, a := range x.Args {
			args = append(args, rec(a))
		}
		return "(ECall " + hv.CoqStr(x.Name) + " " + hv.CoqList(args) + " " + hv.CoqBool(x.ExpandFinal) + ")"
	case *hclsyntax.ConditionalExpr:
		f("conditional")
		return "(ECond " + rec(x.Condition) + " " + rec(x.TrueResult) + " " + rec(x.FalseResult) + ")"
	case *hclsyntax.IndexExpr:
		f("index-expr")
		return "(EIndex " + rec(x.Collection) + " " + rec(x.Key) + ")"
	case *hclsyntax.TupleConsExpr:
		f("tuple")
		var es []string
		for _, a := range x.Exprs {
			es = append(es, rec(a))
		}
		return "(ETuple " + hv.CoqList(es) + ")"
	case *hclsyntax.ObjectConsExpr:
		f("object")
		var items []string
		for _, it := range x.Items {
			items = append(items, "("+rec(it.KeyExpr)+", "+rec(it.ValueExpr)+")")
		}
		return "(EObj " + hv.CoqList(items) + ")"
	case *hclsyntax.ObjectConsKeyExpr:
		if x.ForceNonLiteral {
			f("object-key-paren")
		} else {
			switch x.Wrapped.(type) {
			case *hclsyntax.ScopeTraversalExpr:
				f("object-key-ident-or-traversal")
			case *hclsyntax.TemplateExpr:
				f("object-key-quoted")
			default:
				f("object-key-other")
			}
		}
		return "(EObjKey " + rec(x.Wrapped) + " " + hv.CoqBool(x.ForceNonLiteral) + ")"
	case *hclsyntax.ForExpr:
		if x.KeyExpr != nil {
			f("for-object")
		} else {
			f("for-tuple")
		}
		if x.Group {
			f("for-group")
		}
		if x.CondExpr != nil {
			f("for-if")
		}
		if x.KeyVar != "" {
			f("for-keyvar")
		}
		opt := func(e hclsyntax.Expression) string {
			if e == nil {
				return "None"
			}
			return "(Some " + rec(e) + ")"
		}
		return "(EFor " + hv.CoqStr(x.KeyVar) + " " + hv.CoqStr(x.ValVar) + " " + rec(x.CollExpr) + " " + opt(x.KeyExpr) + " " + rec(x.ValExpr) + " " + opt(x.CondExpr) + " " + hv.CoqBool(x.Group) + ")"
	case *hclsyntax.SplatExpr:
		f("splat")
		return "(ESplat " + rec(x.Source) + " " + rec(x.Each) + ")"
	case *hclsyntax.AnonSymbolExpr:
		return "EAnon"
	case *hclsyntax.BinaryOpExpr:
		f("binop")
		return "(EBin " + opCoq(x.Op) + " " + rec(x.LHS) + " " + rec(x.RHS) + ")"
	case *hclsyntax.UnaryOpExpr:
		f("unop")
		return "(EUn " + opCoq(x.Op) + " " + rec(x.Val) + ")"
	case *hclsyntax.TemplateExpr:
		f("template")
		var ps []string
		for _, p := range x.Parts {
			ps = append(ps, rec(p))
		}
		return "(ETmpl " + hv.CoqList(ps) + ")"
	case *hclsyntax.TemplateJoinExpr:
		f("template-for")
		return "(EJoin " + rec(x.Tuple) + ")"
	case *hclsyntax.TemplateWrapExpr:
		f("template-wrap")
		return "(EWrap " + rec(x.Wrapped) + ")"
	case *hclsyntax.ParenthesesExpr:
		f("paren")
		return "(EParen " + rec(x.Expression) + ")"
	}
	info.Unsupported = true
	return "EAnon"
}

func opCoq(op *hclsyntax.Operation) string {
	switch op {
	case hclsyntax.OpLogicalOr:
		return "OpOr"
	case hclsyntax.OpLogicalAnd:
		return "OpAnd"
	case hclsyntax.OpLogicalNot:
		return "OpNot"
	case hclsyntax.OpEqual:
		return "OpEq"
	case hclsyntax.OpNotEqual:
		return "OpNe"
	case hclsyntax.OpGreaterThan:
		return "OpGt"
	case hclsyntax.OpGreaterThanOrEqual:
		return "OpGe"
	case hclsyntax.OpLessThan:
		return "OpLt"
	case hclsyntax.OpLessThanOrEqual:
		return "OpLe"
	case hclsyntax.OpAdd:
		return "OpAdd"
	case hclsyntax.OpSubtract:
		return "OpSub"
	case hclsyntax.OpMultiply:
		return "OpMul"
	case hclsyntax.OpDivide:
		return "OpDiv"
	case hclsyntax.OpModulo:
		return "OpMod"
	case hclsyntax.OpNegate:
		return "OpNeg"
	}
	return "OpAdd (* unknown operation *)"
}

// ---- bodies ---------------------------------------------------------------------------------

type bodyItem struct {
	start int
	seq   int
	text  string
}

// coqBody prints a *hclsyntax.Body as a pbody term, items in source order
// (by start byte; ties keep attributes first, then block order).
func coqBody(b *hclsyntax.Body, info *hv.ValInfo, feat map[string]int) string {
	if b == nil {
		info.Unsupported = true
		return "[]"
	}
	var items []bodyItem
	for name, a := range b.Attributes {
		items = append(items, bodyItem{a.SrcRange.Start.Byte, -1, "PAttr " + hv.CoqStr(name) + " " + coqExprP(a.Expr, info, feat)})
	}
	for i, bl := range b.Blocks {
		var ls []string
		for _, l := range bl.Labels {
			ls = append(ls, hv.CoqStr(l))
		}
		if feat != nil {
			feat["ast:block"]++
			if bl.Body != nil && bl.OpenBraceRange.Start.Line == bl.CloseBraceRange.Start.Line && len(bl.Body.Attributes) == 1 {
				feat["ast:oneline-block"]++
			}
		}
		items = append(items, bodyItem{bl.TypeRange.Start.Byte, i, "PBlock " + hv.CoqStr(bl.Type) + " " + hv.CoqList(ls) + " " + coqBody(bl.Body, info, feat)})
	}
	sort.SliceStable(items, func(i, j int) bool {
		if items[i].start != items[j].start {
			return items[i].start < items[j].start
		}
		return items[i].seq < items[j].seq
	})
	parts := make([]string, len(items))
	for i, it := range items {
		parts[i] = it.text
	}
	return hv.CoqList(parts)
}

// ---- traversals -------------------------------------------------------------------------------

func coqTraversal(t hcl.Traversal, info *hv.ValInfo) string {
	var parts []string
	for _, s := range t {
		switch st := s.(type) {
		case hcl.TraverseRoot:
			parts = append(parts, "TRoot "+hv.CoqStr(st.Name))
		case hcl.TraverseAttr:
			parts = append(parts, "TAttr "+hv.CoqStr(st.Name))
		case hcl.TraverseIndex:
			parts = append(parts, "TIndex "+hv.CoqVal(st.Key, info))
		case hcl.TraverseSplat:
			parts = append(parts, "TSplat")
		default:
			info.Unsupported = true
		}
	}
	return hv.CoqList(parts)
}

// ---- S-expression dumps modulo (paren ...) ------------------------------------------------------

// stripParens removes every "(paren X)" wrapper from a DumpExprS string.
func stripParens(s string) string {
	var out strings.Builder
	// stack of booleans: is the open list a paren wrapper?
	var stack []bool
	i := 0
	for i < len(s) {
		switch {
		case strings.HasPrefix(s[i:], "(paren "):
			stack = append(stack, true)
			i += len("(paren ")
		case s[i] == '(':
			stack = append(stack, false)
			out.WriteByte('(')
			i++
		case s[i] == ')':
			if len(stack) > 0 {
				top := stack[len(stack)-1]
				stack = stack[:len(stack)-1]
				if !top {
					out.WriteByte(')')
				}
			} else {
				out.WriteByte(')')
			}
			i++
		default:
			out.WriteByte(s[i])
			i++
		}
	}
	return out.String()
}
