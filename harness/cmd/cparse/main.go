package main

// cparse — correspondence of the native-syntax parser model (coq/theories/Parse/*.v)
// with hclsyntax's parser, shared by C01 (parser part), C02 and C15.
//
// Sub-commands:
//   cparse-expr  hclsyntax.ParseExpression  (+ direct oracle C01 layout invariance)
//   cparse-tmpl  hclsyntax.ParseTemplate
//   cparse-body  hclsyntax.ParseConfig      (+ direct oracle C02: abstract trees in random layouts)
//   cparse-trav  hclsyntax.ParseTraversalAbs / ParseTraversalPartial
//
// Every case hands the implementation's OWN token stream to the model (the
// scanner is another model's business), with the observed AST and diagnostics.

import (
	"fmt"
	"os"
	"path/filepath"
	"sort"
	"strings"

	"github.com/hashicorp/hcl/v2"
	"github.com/hashicorp/hcl/v2/hclsyntax"
	"github.com/zclconf/go-cty/cty"
	"hclverif/hv"
)

func main() {
	hv.Main(map[string]func(*hv.RunCfg) error{
		"cparse-expr": runExpr,
		"cparse-tmpl": runTmpl,
		"cparse-body": runBody,
		"cparse-trav": runTrav,
	})
}

const imports = "From Coq Require Import QArith String.\nFrom HclV Require Import Base.Prelude Gen.TokenTypes Cty.Values Cty.Convert Cty.Ops Eval.Impl Parse.Peeker Parse.TemplateParser Parse.ExprParser Parse.BodyParser Parse.Traversal Parse.ParseCheck."

const maxTokens = 1500

func readReplay(cfg *hv.RunCfg) ([]string, error) {
	b, err := os.ReadFile(cfg.Replay)
	if err != nil {
		return nil, err
	}
	return []string{string(b)}, nil
}

func corpusFiles(sub string) []string {
	var out []string
	if extra, err := filepath.Glob("/verif/corpus/" + sub + "/*"); err == nil {
		sort.Strings(extra)
		for _, p := range extra {
			if b, err := os.ReadFile(p); err == nil {
				out = append(out, string(b))
			}
		}
	}
	return out
}

func histDiags(rep *hv.Report, diags hcl.Diagnostics) {
	seen := map[string]bool{}
	for _, d := range diags {
		k := "diag:" + d.Summary
		if strings.HasPrefix(d.Summary, "Unexpected ") && strings.HasSuffix(d.Summary, " directive") {
			k = "diag:Unexpected X directive"
		}
		if strings.HasPrefix(d.Summary, "Extra characters in ") {
			k = "diag:Extra characters in X marker"
		}
		if !seen[k] {
			seen[k] = true
			rep.Hist(k)
		}
		if diagID(d) == 999 {
			rep.Fail(hv.Failure{Kind: "unknown-diagnostic-summary", Detail: d.Summary})
		}
	}
}

func addFeat(rep *hv.Report, feat map[string]int) {
	for k, v := range feat {
		rep.Histogram[k] += v
	}
}

// exprMode decides how far a case is compared (see Parse/ParseCheck.v).
func exprMode(rep *hv.Report, ti *tokInfo, vi *hv.ValInfo) int {
	mode := 0
	if ti.nfcSensitive {
		mode = 1
		rep.Hist("mode:diags-only(NFC-sensitive literal)")
	}
	if vi.Unsupported {
		mode = 1
		rep.Hist("mode:diags-only(value outside model universe)")
	}
	return mode
}

// ---- expressions --------------------------------------------------------------------------

var exprCorpus = []string{
	`1 + 2 * 3`, `a || b && c == d < e + f * g`, `a * b + c < d == e && f || g`, `1 - 2 - 3`, `a / b * c % d`,
	`-a.b[0]`, `!a.b`, `- - 1`, `!!x`, `-1 + 2`, `a ? b : c ? d : e`, `a ? b ? c : d : e`, `(a ? b : c) ? d : e`,
	`foo.0`, `foo.0.1`, `foo.0.bar`, `foo .0`, `foo.*`, `foo.*.bar.0.baz`, `foo.*.0.0`, `foo.*.*`, `foo.*.`, `foo[*]`, `foo[*].bar[0].baz`,
	`foo[*][*]`, `foo[*`, `foo[* x`, `foo[1]`, `foo["a"]`, `foo[true]`, `foo[null]`, `foo[x]`, `foo["a${b}"]`, `foo["${b}"]`, `foo[(1)]`, `foo[1`, `foo[1 2]`,
	`foo.`, `foo..bar`, `foo.[0]`, `1.x`, `"a".b`, `[1][0]`, `{a=1}.a`, `f(x).y`, `(a).b`, `(a)[0]`, `a.b(c)`,
	`f()`, `f(1)`, `f(1,)`, `f(1, 2...)`, `f(...)`, `f(1...,)`, `f(1... 2)`, `f(1 2)`, `f(1`, `f(`, `f(,)`, `ns::f(1)`, `a::b::c()`, `a::`, `a::1`, `a::b`, `a::b c`, `a::(1)`,
	`[]`, `[1]`, `[1,]`, `[1,2]`, `[1 2]`, `[1`, `[`, `[,]`, "[\n1\n,\n2\n]", "[1\n2]",
	`{}`, `{a=1}`, `{a:1}`, `{a=1,b=2}`, "{a=1\nb=2}", "{a=1,\nb=2,\n}", "{\n\n}", `{"a"=1}`, `{(a)=1}`, `{a.b=1}`, `{1=2}`, `{a}`, `{a=}`, `{a=1 b=2}`, `{a=1`, `{`, `{a b}`, "{a\n=1}", `{for=1}`, `{ a = b. }`, `{ a = f::. }`,
	`[for x in y: x]`, `[for k, v in y: v if k]`, `{for k, v in y: k => v}`, `{for k, v in y: k => v...}`, `{for k, v in y: k => v... if v}`, "{\nfor\nx\nin\ny\n:\nx\n=>\nx\n}",
	`[for x in y: k => x]`, `[for x in y: x...]`, `{for x in y: x}`, `[for in y: x]`, `[for x, in y: x]`, `[for x y: x]`, `[for x in : x]`, `[for x in y x]`, `[for x in y: ]`, `[for x in y: x`, `[for x in y: x if ]`, `[for x in y: x extra]`, `[for`, `{for`,
	`"a"`, `""`, `"a${b}c"`, `"${b}"`, `" ${b}"`, `"${~ b ~}"`, `" ${~ b ~} "`, `"a ${~ b}"`, `"%{if a}b%{else}c%{endif}"`, `"%{if a}%{endif}"`, `"%{for x in y}${x}%{endfor}"`, `"%{for k, v in y}%{endfor}"`,
	`"%{if a}"`, `"%{endif}"`, `"%{else}"`, `"%{endfor}"`, `"%{if a}%{endfor}"`, `"%{for x in y}%{else}%{endfor}"`, `"%{if a}%{else}%{else}%{endif}"`, `"%{foo}"`, `"%{}"`, `"%{1}"`, `"%{for}"`, `"%{for x}"`, `"%{for x,}"`, `"%{for x in}"`, `"%{if a b}"`, `"%{ if a ~}  x  %{~ endif }"`,
	`"${a`, `"${a:b}"`, `"${a"b"}"`, `"${a b}"`, `"${}"`, `"a`, `"`, `"\q"`, `"\u12"`, `"\UFFFFFFFF"`, `"$${a} %%{b} $ % $$ %% $$$ {"`,
	"<<EOT\nhello\nEOT\n", "<<-EOT\n  hello\n    world\n  EOT\n", "<<-EOT\n  a\n\n   b\n EOT\n", "<<-EOT\n  ${a}\n b\n  EOT\n", "<<-EOT\n\ta\n  b\nEOT\n", "<<EOT\nEOT\n", "<<EOT\n${a}\nEOT\n", "<<EOT\n%{ if a ~}\n  x\n%{ endif ~}\nEOT\n", "<<EOT\nhello", "<<-EOT\n  \xcc\x81a\n    b\nEOT\n", "<<-EOT\n \r\n  a\r\nEOT\r\n",
	`(1`, `(1 2)`, `()`, `(`, `)`, `1 2`, `1 +`, `+ 1`, `* 1`, `a ? b`, `a ? b :`, `a ? : c`, `? b : c`, ``, ` `, "\n", `#c`, `1 /* c */ + 2`, "1 # c\n+ 2", "1 // c\n+ 2",
	`1.5.2`, `1e`, `1e5`, `1.5e-3`, `0x10`, `1_0`, `12345678901234567890123456789012345678901234567890`, `0.1`, `1e400`, `true`, `false`, `null`, `true.x`, `null[0]`, `true(1)`,
	`a & b`, `a | b`, `~a`, `a ^ b`, `a ** b`, `'a'`, "`a`", `a; b`, "\ta", "a \t b", "\xff", `“a”`, `a = b`, `a => b`, `a : b`, `...`, `a ... b`, `@`, `$`, `%`, `${a}`, `%{a}`, `a }`, `a ]`, `a )`, `a "b"`,
	`{a = {b = [1, {c = "x${y}"}]}}`, `f(g(h(1)), [for x in y: {k = x}]...)`, `x[0][1].a[*].b[2]`, `((((a))))`,
}

func parseExprSafe(src []byte) (e hclsyntax.Expression, d hcl.Diagnostics, p any) {
	defer func() { p = recover() }()
	e, d = hclsyntax.ParseExpression(src, "e.hcl", hcl.InitialPos)
	return
}

func runExpr(cfg *hv.RunCfg) error {
	rep := hv.NewReport("PARSE-EXPR", cfg.Seed)
	rep.Rule = "expression texts: hand corpus (every production and every error path of parser.go), hv.GenExprText (grammar-directed, 4 wildness levels), hv.EvalGen.GenTopExpr (typed generator), quoted and heredoc/flush-heredoc templates, and hv.Mutate'd near-valid variants of all of them; non-trivial = more than 2 tokens; distinct by SHA-256 of the text"
	r := hv.NewRng(cfg.Seed, 201)
	cf := &hv.CaseFile{Dir: cfg.Out, Name: "pexprcases", Imports: imports, Ctype: "ecase", Checker: "check_expr_cases",
		Extras: [][2]string{{"bad_partial", "partial_expr_cases"}}}
	var srcs []string
	if cfg.Replay != "" {
		s, err := readReplay(cfg)
		if err != nil {
			return err
		}
		srcs = s
	} else {
		srcs = append(srcs, exprCorpus...)
		srcs = append(srcs, corpusFiles("PARSE-EXPR")...)
		feat := map[string]int{}
		for i := 0; i < cfg.N; i++ {
			var s string
			switch x := r.Intn(10); {
			case x < 4:
				s, _ = hv.GenExprText(r)
				rep.Hist("gen:GenExprText")
			case x < 6:
				g := hv.NewEvalGen(r)
				g.GenScope()
				s = g.GenTopExpr()
				rep.Hist("gen:EvalGen")
			case x < 8:
				s = genQuoted(r, feat)
			default:
				s = genHeredoc(r, feat)
				if r.Chance(0.3) {
					s = "[" + s + ", 1]"
				}
			}
			if r.Chance(0.3) {
				s = hv.Mutate(r, s)
				rep.Hist("gen:mutated")
			}
			srcs = append(srcs, s)
		}
		addFeat(rep, feat)
	}
	for _, s := range srcs {
		src := []byte(s)
		toks, _ := hclsyntax.LexExpression(src, "e.hcl", hcl.InitialPos)
		if len(toks) > maxTokens {
			rep.Hist("skipped:too-many-tokens")
			continue
		}
		e, diags, p := parseExprSafe(src)
		if p != nil {
			rep.Fail(hv.Failure{Kind: "panic", Detail: fmt.Sprint(p), Input: s})
			continue
		}
		feat := map[string]int{}
		ti := &tokInfo{feat: feat}
		ts := coqTokens(toks, ti)
		if ti.hugeNumber {
			rep.Hist("skipped:huge-number-literal")
			continue
		}
		vi := &hv.ValInfo{}
		es := coqExprP(e, vi, feat)
		addFeat(rep, feat)
		mode := exprMode(rep, ti, vi)
		cf.Add(fmt.Sprintf("mkECase %s\n  %d %s\n  %s", ts, mode, es, hv.CoqZList(errorIDs(diags))))
		rep.Idx(s)
		rep.Count(s, len(toks) > 2)
		histDiags(rep, diags)
		if diags.HasErrors() {
			rep.Hist("input:has-errors")
		} else {
			rep.Hist("input:valid")
			if len(s) < 100 {
				rep.Sample(s)
			}
			// C15 (f): an error-free result holds no placeholder
			if d := hv.DumpExprS(e); strings.Contains(d, "(syntaxerror)") {
				rep.Fail(hv.Failure{Kind: "placeholder-without-error", Detail: d, Input: s})
			}
			layoutOracle(rep, r, s, e)
		}
		if e == nil {
			rep.Fail(hv.Failure{Kind: "nil-result", Detail: "ParseExpression returned a nil expression", Input: s})
		}
	}
	names, err := cf.Flush(150)
	if err != nil {
		return err
	}
	rep.CaseFiles = names
	return rep.Write(cfg.Out)
}

// layoutOracle (C01, real code only): re-render the same expression with other
// whitespace / newlines inside brackets / comments / redundant parentheses; the
// AST must be the same modulo ParenthesesExpr nodes.
func layoutOracle(rep *hv.Report, r *hv.Rng, s string, e hclsyntax.Expression) {
	want := stripParens(hv.DumpExprS(e))
	feat := map[string]int{}
	for k := 0; k < 2; k++ {
		var s2 string
		var ok bool
		what := "relayout"
		if k == 0 {
			s2, ok = relayout(r, s, feat)
			if ok && sigTokens(s2) != sigTokens(s) {
				rep.Hist("layout:relayout-changed-tokens(skipped)")
				continue
			}
		} else {
			what = "redundant-parens"
			s2, ok = wrapSubexpr(r, s, e)
		}
		if !ok {
			continue
		}
		e2, d2, p := parseExprSafe([]byte(s2))
		if p != nil {
			rep.Fail(hv.Failure{Kind: "panic", Detail: fmt.Sprint(p), Input: s2})
			continue
		}
		rep.Hist("layout:" + what)
		if d2.HasErrors() {
			rep.Fail(hv.Failure{Kind: "layout-changes-ast", Detail: what + ": re-rendered expression is rejected: " + d2.Error() + " ## original: " + s, Input: s2})
			continue
		}
		if got := stripParens(hv.DumpExprS(e2)); got != want {
			rep.Fail(hv.Failure{Kind: "layout-changes-ast", Detail: what + ": " + want + " ## became ## " + got + " ## original: " + s, Input: s2})
		}
	}
	addFeat(rep, feat)
}

// ---- templates -------------------------------------------------------------------------------

var tmplCorpus = []string{
	``, `a`, `a${b}c`, `${b}`, ` ${b}`, `${b} `, `${~ b ~}`, ` ${~ b ~} `, `%{if a}b%{else}c%{endif}`, `%{if a}%{endif}`, `%{ for x in y }${x}, %{ endfor }`,
	"a\nb\n", "  a ${~ b }\n  %{~ if c ~}\n  d\n  %{~ endif ~}\n", `$${a}`, `%%{a}`, `$`, `%`, `$$`, `${`, `%{`, `${a`, `%{if`, `%{if a}`, `%{endif}`, `%{else}`, `%{endfor}`,
	`%{for}`, `%{for x}`, `%{for x, y in z}%{endfor}`, `%{for x,}`, `%{foo}`, `%{}`, `${}`, `${a b}`, `${a:b}`, `%{if a b}c%{endif}`, `%{if a}%{else}%{else}%{endif}`, `%{for x in y}%{else}%{endfor}`, `%{if a}%{endfor}`,
	`"quoted"`, `\n`, `\`, "a\r\nb", "\xff", "${\"\xff\"}", `${"a${"b${c}"}"}`, `${[for x in y: "${x}"]}`, `%{ if a }%{ for x in y }${x}%{ endfor }%{ endif }`, " \n\t${~a~}\n \t", "́${~a}", "é ${~a}",
}

func parseTmplSafe(src []byte) (e hclsyntax.Expression, d hcl.Diagnostics, p any) {
	defer func() { p = recover() }()
	e, d = hclsyntax.ParseTemplate(src, "t.tmpl", hcl.InitialPos)
	return
}

func runTmpl(cfg *hv.RunCfg) error {
	rep := hv.NewReport("PARSE-TMPL", cfg.Seed)
	rep.Rule = "bare template texts: hand corpus + grammar-directed template generator (literals incl. $${ %%{ lone $ %, interpolations with generated expressions, if/else/for directives nested, strip markers on every introducer and closer) + hv.Mutate'd variants; non-trivial = more than 2 tokens; distinct by SHA-256 of the text"
	r := hv.NewRng(cfg.Seed, 202)
	cf := &hv.CaseFile{Dir: cfg.Out, Name: "ptmplcases", Imports: imports, Ctype: "ecase", Checker: "check_tmpl_cases",
		Extras: [][2]string{{"bad_partial", "partial_tmpl_cases"}}}
	var srcs []string
	if cfg.Replay != "" {
		s, err := readReplay(cfg)
		if err != nil {
			return err
		}
		srcs = s
	} else {
		srcs = append(srcs, tmplCorpus...)
		srcs = append(srcs, corpusFiles("PARSE-TMPL")...)
		feat := map[string]int{}
		for i := 0; i < cfg.N; i++ {
			s := genTemplate(r, feat)
			if r.Chance(0.3) {
				s = hv.Mutate(r, s)
				rep.Hist("gen:mutated")
			}
			srcs = append(srcs, s)
		}
		addFeat(rep, feat)
	}
	for _, s := range srcs {
		src := []byte(s)
		toks, _ := hclsyntax.LexTemplate(src, "t.tmpl", hcl.InitialPos)
		if len(toks) > maxTokens {
			rep.Hist("skipped:too-many-tokens")
			continue
		}
		e, diags, p := parseTmplSafe(src)
		if p != nil {
			rep.Fail(hv.Failure{Kind: "panic", Detail: fmt.Sprint(p), Input: s})
			continue
		}
		feat := map[string]int{}
		ti := &tokInfo{feat: feat}
		ts := coqTokens(toks, ti)
		if ti.hugeNumber {
			rep.Hist("skipped:huge-number-literal")
			continue
		}
		vi := &hv.ValInfo{}
		es := coqExprP(e, vi, feat)
		addFeat(rep, feat)
		mode := exprMode(rep, ti, vi)
		cf.Add(fmt.Sprintf("mkECase %s\n  %d %s\n  %s", ts, mode, es, hv.CoqZList(errorIDs(diags))))
		rep.Idx(s)
		rep.Count(s, len(toks) > 2)
		histDiags(rep, diags)
		if diags.HasErrors() {
			rep.Hist("input:has-errors")
		} else {
			rep.Hist("input:valid")
			if len(s) < 100 {
				rep.Sample(s)
			}
			if d := hv.DumpExprS(e); strings.Contains(d, "(syntaxerror)") {
				rep.Fail(hv.Failure{Kind: "placeholder-without-error", Detail: d, Input: s})
			}
		}
		if e == nil {
			rep.Fail(hv.Failure{Kind: "nil-result", Detail: "ParseTemplate returned a nil expression", Input: s})
		}
	}
	names, err := cf.Flush(150)
	if err != nil {
		return err
	}
	rep.CaseFiles = names
	return rep.Write(cfg.Out)
}

// ---- bodies ------------------------------------------------------------------------------------

var bodyCorpus = []string{
	"", "\n", "a = 1\n", "a = 1", "a = 1\nb = 2\n", "a = 1\na = 2\n", "b {}\n", "b {\n}\n", "b { a = 1 }\n", "b \"l\" x \"m\" {\n  a = 1\n}\n",
	"b {\n  c {\n    d = 1\n  }\n}\n", "b { a = 1 } # c\n", "b { a = 1 } /* c */\n", "b { a = 1, b = 2 }\n", "b { a = 1\n}\n", "b { a = 1 b = 2 }\n", "b { c { } }\n", "b { c {} }\n", "b { a }\n", "b { 1 }\n", "b { a = 1",
	"b {", "b", "b\n", "b = \n", "b \"l\"\n{\n}\n", "b \"l\" = 1\n", "b 1 {}\n", "b \"${x}\" {}\n", "b \"%{x}\" {}\n", "b \"a\\qb\" {}\n", "b \"a\nb\" {}\n", "b \"a", "b \"a\" \"b", "\"a\" = 1\n", "1 = 2\n", "= 1\n",
	"a = 1, b = 2\n", "a = 1 b = 2\n", "a = [\n1,\n2\n]\n", "a = {\nb = 1\n}\n", "a = (\n1\n)\n", "a = <<EOT\nhi\nEOT\n", "a = <<EOT\nhi\nEOT", "a = <<-EOT\n  hi\n  EOT\nb = 1\n",
	"}\n", "a = 1\n}\nb = 2\n", "b {\n  a = 1\n", "b {\n  a = (\n}\nc = 1\n", "b {\n  a = [1, \n}\nc = 1\n", "a = \"${\n\nb = 1\n", "a = f(\nb = 1\n",
	"\xef\xbb\xbfa = 1\n", "a = 1\r\nb = 2\r\n", "# c\na = 1 // d\n/* e */ b = 2\n", "a /* x */ = /* y */ 1 /* z */\n", "b /* x */ \"l\" /* y */ { /* z */ }\n", "b { /* x */ a = 1 /* y */ }\n", "b /*\n*/ {\n}\n", "a = 1 /*\n*/\n",
	"a = 1;\n", "a = 'x'\n", "\ta = 1\n", "a = 1 \x00\n", "a = b.\n", "a = b.\nc = 1\n", "a = [for\n", "a = {for\n", "a = \"\n", "a = ${b}\n",
}

func parseConfigSafe(src []byte) (f *hcl.File, d hcl.Diagnostics, p any) {
	defer func() { p = recover() }()
	f, d = hclsyntax.ParseConfig(src, "t.hcl", hcl.InitialPos)
	return
}

func runBody(cfg *hv.RunCfg) error {
	rep := hv.NewReport("PARSE-BODY", cfg.Seed)
	rep.Rule = "configuration texts: hand corpus, hv.GenConfig (grammar-directed, 4 wildness levels, heredocs, templates, comments), abstract body trees rendered in random legal layouts (C02 oracle; also with one attribute duplicated), and hv.Mutate'd variants; non-trivial = more than 4 tokens; distinct by SHA-256 of the text"
	r := hv.NewRng(cfg.Seed, 203)
	cf := &hv.CaseFile{Dir: cfg.Out, Name: "pbodycases", Imports: imports, Ctype: "bcase", Checker: "check_body_cases",
		Extras: [][2]string{{"bad_partial", "partial_body_cases"}}}
	type job struct {
		src     string
		tree    []*aItem
		hasTree bool // C02 oracle applies
		rend    map[*aItem]string
		dup     bool
	}
	var jobs []job
	if cfg.Replay != "" {
		s, err := readReplay(cfg)
		if err != nil {
			return err
		}
		jobs = append(jobs, job{src: s[0]})
	} else {
		for _, s := range bodyCorpus {
			jobs = append(jobs, job{src: s})
		}
		for _, s := range corpusFiles("PARSE-BODY") {
			jobs = append(jobs, job{src: s})
		}
		feat := map[string]int{}
		for i := 0; i < cfg.N; i++ {
			switch x := r.Intn(10); {
			case x < 4:
				s, f2 := hv.GenConfig(r)
				for k, v := range f2 {
					feat["genconfig:"+k] += v
				}
				if r.Chance(0.35) {
					s = hv.Mutate(r, s)
					rep.Hist("gen:mutated")
				}
				jobs = append(jobs, job{src: s})
			case x < 9:
				g := &treeGen{r: r, feat: feat}
				tree := g.genBody(0, 6)
				s, rend := renderTree(r, tree, feat)
				jobs = append(jobs, job{src: s, tree: tree, rend: rend, hasTree: true})
			default:
				// a body defining an attribute twice must be rejected
				g := &treeGen{r: r, feat: feat}
				tree := g.genBody(0, 6)
				if !duplicateSomeAttr(r, &tree) {
					continue
				}
				s, rend := renderTree(r, tree, feat)
				jobs = append(jobs, job{src: s, tree: tree, rend: rend, dup: true, hasTree: true})
			}
		}
		addFeat(rep, feat)
	}
	for _, j := range jobs {
		s := j.src
		src := []byte(s)
		toks, _ := hclsyntax.LexConfig(src, "t.hcl", hcl.InitialPos)
		if len(toks) > maxTokens {
			rep.Hist("skipped:too-many-tokens")
			continue
		}
		f, diags, p := parseConfigSafe(src)
		if p != nil {
			rep.Fail(hv.Failure{Kind: "panic", Detail: fmt.Sprint(p), Input: s})
			continue
		}
		body, _ := f.Body.(*hclsyntax.Body)
		if body == nil {
			rep.Fail(hv.Failure{Kind: "nil-result", Detail: "ParseConfig returned a nil body", Input: s})
			continue
		}
		// direct oracle C02
		if j.hasTree {
			if j.dup {
				rep.Hist("oracle:duplicate-attr")
				if !diags.HasErrors() {
					rep.Fail(hv.Failure{Kind: "duplicate-attr-accepted", Detail: "a body defining an attribute twice parses without error", Input: s})
				}
			} else {
				rep.Hist("oracle:tree-roundtrip")
				if kind, detail := treeOracle(j.tree, j.rend, f, body, diags); kind != "" {
					rep.Fail(hv.Failure{Kind: kind, Detail: detail, Input: s})
				}
			}
		}
		feat := map[string]int{}
		ti := &tokInfo{feat: feat}
		ts := coqTokens(toks, ti)
		if ti.hugeNumber {
			rep.Hist("skipped:huge-number-literal")
			continue
		}
		vi := &hv.ValInfo{}
		bs := coqBody(body, vi, feat)
		addFeat(rep, feat)
		mode := exprMode(rep, ti, vi)
		cf.Add(fmt.Sprintf("mkBCase %s\n  %d %s\n  %s", ts, mode, bs, hv.CoqZList(errorIDs(diags))))
		rep.Idx(s)
		rep.Count(s, len(toks) > 4)
		histDiags(rep, diags)
		if diags.HasErrors() {
			rep.Hist("input:has-errors")
		} else {
			rep.Hist("input:valid")
			if len(s) < 100 {
				rep.Sample(s)
			}
			var sb strings.Builder
			hv.DumpBody(&sb, body)
			if d := sb.String(); strings.Contains(d, "(syntaxerror)") {
				rep.Fail(hv.Failure{Kind: "placeholder-without-error", Detail: d, Input: s})
			}
		}
		if k := nilBodies(body); k != "" {
			rep.Fail(hv.Failure{Kind: "nil-result", Detail: k, Input: s})
		}
	}
	names, err := cf.Flush(150)
	if err != nil {
		return err
	}
	rep.CaseFiles = names
	return rep.Write(cfg.Out)
}

func nilBodies(b *hclsyntax.Body) string {
	for _, a := range b.Attributes {
		if a.Expr == nil {
			return "attribute " + a.Name + " has a nil expression"
		}
	}
	for _, bl := range b.Blocks {
		if bl.Body == nil {
			return "block " + bl.Type + " has a nil body"
		}
		if k := nilBodies(bl.Body); k != "" {
			return k
		}
	}
	return ""
}

// duplicateSomeAttr copies one attribute of some body of the tree under the same
// name (with another value) at a random later position of that body.
func duplicateSomeAttr(r *hv.Rng, tree *[]*aItem) bool {
	type site struct {
		items *[]*aItem
		idx   int
	}
	var sites []site
	var walk func(items *[]*aItem)
	walk = func(items *[]*aItem) {
		for i, it := range *items {
			if it.isAttr {
				sites = append(sites, site{items, i})
			} else if !it.oneLine {
				walk(&it.body)
			}
		}
	}
	walk(tree)
	if len(sites) == 0 {
		return false
	}
	s := sites[r.Intn(len(sites))]
	orig := (*s.items)[s.idx]
	dup := &aItem{isAttr: true, name: orig.name, expr: simpleExprs[r.Intn(len(simpleExprs))]}
	pos := s.idx + 1 + r.Intn(len(*s.items)-s.idx)
	out := append([]*aItem{}, (*s.items)[:pos]...)
	out = append(out, dup)
	out = append(out, (*s.items)[pos:]...)
	*s.items = out
	return true
}

// treeOracle (C02, real code only): a rendered abstract tree must parse without
// error diagnostics and expose exactly the written attributes / blocks / labels /
// nesting / order, through *hclsyntax.Body and through hcl.Body.Content /
// JustAttributes with the implied schema.
func treeOracle(tree []*aItem, rend map[*aItem]string, f *hcl.File, body *hclsyntax.Body, diags hcl.Diagnostics) (string, string) {
	if diags.HasErrors() {
		return "valid-body-rejected", diags.Error()
	}
	if d := compareBody(tree, rend, body, "root"); d != "" {
		return "structure-differs", d
	}
	if d := compareContent(tree, rend, f.Body, "root"); d != "" {
		return "structure-differs", "via hcl.Body: " + d
	}
	return "", ""
}

func refDump(src string) string {
	if strings.HasPrefix(src, "<<") {
		src += "\n"
	}
	e, d := hclsyntax.ParseExpression([]byte(src), "r.hcl", hcl.InitialPos)
	if d.HasErrors() {
		return "(reference expression does not parse: " + d.Error() + ")"
	}
	return hv.DumpExprS(e)
}

func compareBody(tree []*aItem, rend map[*aItem]string, b *hclsyntax.Body, path string) string {
	var blocks []*aItem
	nattr := 0
	for _, it := range tree {
		if it.isAttr {
			nattr++
			a, ok := b.Attributes[it.name]
			if !ok {
				return fmt.Sprintf("%s: attribute %q missing", path, it.name)
			}
			if a.Name != it.name {
				return fmt.Sprintf("%s: attribute %q has Name %q", path, it.name, a.Name)
			}
			if got, want := hv.DumpExprS(a.Expr), refDump(rend[it]); got != want {
				return fmt.Sprintf("%s: attribute %q expression %s, want %s", path, it.name, got, want)
			}
		} else {
			blocks = append(blocks, it)
		}
	}
	if len(b.Attributes) != nattr {
		return fmt.Sprintf("%s: %d attributes, want %d", path, len(b.Attributes), nattr)
	}
	if len(b.Blocks) != len(blocks) {
		return fmt.Sprintf("%s: %d blocks, want %d", path, len(b.Blocks), len(blocks))
	}
	for i, it := range blocks {
		bl := b.Blocks[i]
		p := fmt.Sprintf("%s/%s[%d]", path, it.name, i)
		if bl.Type != it.name {
			return fmt.Sprintf("%s: block type %q, want %q", p, bl.Type, it.name)
		}
		if len(bl.Labels) != len(it.labels) {
			return fmt.Sprintf("%s: %d labels, want %d", p, len(bl.Labels), len(it.labels))
		}
		for k, l := range it.labels {
			if bl.Labels[k] != l.val {
				return fmt.Sprintf("%s: label %d is %q, want %q", p, k, bl.Labels[k], l.val)
			}
		}
		if bl.Body == nil {
			return p + ": nil body"
		}
		if d := compareBody(it.body, rend, bl.Body, p); d != "" {
			return d
		}
	}
	return ""
}

func compareContent(tree []*aItem, rend map[*aItem]string, b hcl.Body, path string) string {
	schema := &hcl.BodySchema{}
	var blocks []*aItem
	seenType := map[string]bool{}
	nattr := 0
	for _, it := range tree {
		if it.isAttr {
			nattr++
			schema.Attributes = append(schema.Attributes, hcl.AttributeSchema{Name: it.name, Required: true})
		} else {
			blocks = append(blocks, it)
			if !seenType[it.name] {
				seenType[it.name] = true
				var names []string
				for k := range it.labels {
					names = append(names, fmt.Sprintf("l%d", k))
				}
				schema.Blocks = append(schema.Blocks, hcl.BlockHeaderSchema{Type: it.name, LabelNames: names})
			}
		}
	}
	content, diags := b.Content(schema)
	if diags.HasErrors() {
		return fmt.Sprintf("%s: Content with the implied schema: %s", path, diags.Error())
	}
	if len(content.Attributes) != nattr {
		return fmt.Sprintf("%s: Content has %d attributes, want %d", path, len(content.Attributes), nattr)
	}
	for _, it := range tree {
		if !it.isAttr {
			continue
		}
		a, ok := content.Attributes[it.name]
		if !ok {
			return fmt.Sprintf("%s: Content lacks attribute %q", path, it.name)
		}
		se, ok := a.Expr.(hclsyntax.Expression)
		if !ok {
			return fmt.Sprintf("%s: attribute %q is not a native expression", path, it.name)
		}
		if got, want := hv.DumpExprS(se), refDump(rend[it]); got != want {
			return fmt.Sprintf("%s: Content attribute %q expression %s, want %s", path, it.name, got, want)
		}
	}
	if len(content.Blocks) != len(blocks) {
		return fmt.Sprintf("%s: Content has %d blocks, want %d", path, len(content.Blocks), len(blocks))
	}
	for i, it := range blocks {
		bl := content.Blocks[i]
		p := fmt.Sprintf("%s/%s[%d]", path, it.name, i)
		if bl.Type != it.name {
			return fmt.Sprintf("%s: Content block type %q, want %q", p, bl.Type, it.name)
		}
		if len(bl.Labels) != len(it.labels) {
			return fmt.Sprintf("%s: Content block has %d labels, want %d", p, len(bl.Labels), len(it.labels))
		}
		for k, l := range it.labels {
			if bl.Labels[k] != l.val {
				return fmt.Sprintf("%s: Content label %d is %q, want %q", p, k, bl.Labels[k], l.val)
			}
		}
		if d := compareContent(it.body, rend, bl.Body, p); d != "" {
			return d
		}
	}
	if len(blocks) == 0 {
		attrs, diags := b.JustAttributes()
		if diags.HasErrors() {
			return fmt.Sprintf("%s: JustAttributes: %s", path, diags.Error())
		}
		if len(attrs) != nattr {
			return fmt.Sprintf("%s: JustAttributes has %d attributes, want %d", path, len(attrs), nattr)
		}
		for _, it := range tree {
			if _, ok := attrs[it.name]; !ok {
				return fmt.Sprintf("%s: JustAttributes lacks %q", path, it.name)
			}
		}
	}
	return ""
}

// ---- traversals -----------------------------------------------------------------------------------

var travCorpus = []string{
	`a`, `a.b`, `a.b.c`, `a[0]`, `a["k"]`, `a[0].b["k"][1]`, `a[*]`, `a[*].b`, `a.*`, `a.0`, `a.`, `a[`, `a[]`, `a[0`, `a["k"`, `a[x]`, `a["${x}"]`, `a["a\nb"]`, `a[1.5]`, `a[1e2]`, `a[1.5.2]`,
	``, `1`, `.a`, `a b`, `a + b`, `a()`, "a\n.b", "a /* c */ . b", "a # c\n.b", `a[ 0 ]`, `a [0]`, `a["x" "y"]`, `a["`, `a[*`, `a[* ]`, `a[*]]`, `ünï.ü`, `a.b-c`, `a["é́"]`,
}

func runTrav(cfg *hv.RunCfg) error {
	rep := hv.NewReport("PARSE-TRAV", cfg.Seed)
	rep.Rule = "traversal texts: hand corpus + generated chains of attribute / numeric index / string index / splat steps with whitespace and comments + hv.Mutate'd variants, each through ParseTraversalAbs and ParseTraversalPartial; non-trivial = more than 2 tokens; distinct by SHA-256 of the text and entry point"
	r := hv.NewRng(cfg.Seed, 204)
	cf := &hv.CaseFile{Dir: cfg.Out, Name: "ptravcases", Imports: imports, Ctype: "tcase", Checker: "check_trav_cases"}
	var srcs []string
	if cfg.Replay != "" {
		s, err := readReplay(cfg)
		if err != nil {
			return err
		}
		srcs = s
	} else {
		srcs = append(srcs, travCorpus...)
		srcs = append(srcs, corpusFiles("PARSE-TRAV")...)
		for i := 0; i < cfg.N; i++ {
			s := genTraversalText(r)
			if r.Chance(0.3) {
				s = hv.Mutate(r, s)
				rep.Hist("gen:mutated")
			}
			srcs = append(srcs, s)
		}
	}
	for _, s := range srcs {
		src := []byte(s)
		toks, _ := hclsyntax.LexExpression(src, "t.hcl", hcl.InitialPos)
		if len(toks) > maxTokens {
			continue
		}
		for _, partial := range []bool{false, true} {
			var t hcl.Traversal
			var diags hcl.Diagnostics
			var p any
			func() {
				defer func() { p = recover() }()
				if partial {
					t, diags = hclsyntax.ParseTraversalPartial(src, "t.hcl", hcl.InitialPos)
				} else {
					t, diags = hclsyntax.ParseTraversalAbs(src, "t.hcl", hcl.InitialPos)
				}
			}()
			if p != nil {
				rep.Fail(hv.Failure{Kind: "panic", Detail: fmt.Sprint(p), Input: s})
				continue
			}
			ti := &tokInfo{}
			ts := coqTokens(toks, ti)
			if ti.hugeNumber {
				rep.Hist("skipped:huge-number-literal")
				continue
			}
			vi := &hv.ValInfo{}
			trs := coqTraversal(t, vi)
			mode := exprMode(rep, ti, vi)
			cf.Add(fmt.Sprintf("mkTCase %s\n  %s %d %s\n  %s", ts, hv.CoqBool(partial), mode, trs, hv.CoqZList(errorIDs(diags))))
			rep.Idx(fmt.Sprintf("partial=%v: %s", partial, s))
			rep.Count(fmt.Sprintf("%v|%s", partial, s), len(toks) > 2)
			histDiags(rep, diags)
			for _, st := range t {
				switch x := st.(type) {
				case hcl.TraverseAttr:
					rep.Hist("step:attr")
				case hcl.TraverseIndex:
					if x.Key.Type() == cty.String {
						rep.Hist("step:index-string")
					} else {
						rep.Hist("step:index-number")
					}
				case hcl.TraverseSplat:
					rep.Hist("step:splat")
				}
			}
			if diags.HasErrors() {
				rep.Hist("input:has-errors")
			} else {
				rep.Hist("input:valid")
				if len(s) < 80 {
					rep.Sample(s)
				}
			}
		}
	}
	names, err := cf.Flush(300)
	if err != nil {
		return err
	}
	rep.CaseFiles = names
	return rep.Write(cfg.Out)
}
