package main

// Source-text generator of C01: expressions and templates over the whole native
// expression grammar, typed loosely for the scope at hand so that most cases
// evaluate without error, with NO redundant parentheses in operator chains
// (precedence and associativity decide the reading).

import (
	"sort"
	"strings"

	"github.com/zclconf/go-cty/cty"
	"hclverif/hv"
)

type kind int

const (
	kNum kind = iota
	kStr
	kBool
	kSeq // list / tuple / set
	kObj // map / object
	kAny
)

// pf is a piece of source text in two renderings: as generated (p) and with
// every operator application parenthesised by the reference printer (f).
type pf struct{ p, f string }

func same(s string) pf { return pf{s, s} }

// tok is an element of a flat operator chain: an operand, or one of the
// operators / `?` / `:`.
type tok struct {
	op string
	x  pf
}

type gen struct {
	r      *hv.Rng
	vars   map[string]cty.Value
	feat   map[string]int
	depth  int
	budget int // remaining operands of the expression being generated
}

func (g *gen) reset() { g.depth = 0; g.budget = 3 + g.r.Intn(8) }

func (g *gen) f(s string) { g.feat[s]++ }

func kindOfTy(ty cty.Type) kind {
	switch {
	case ty == cty.Number:
		return kNum
	case ty == cty.String:
		return kStr
	case ty == cty.Bool:
		return kBool
	case ty.IsListType(), ty.IsTupleType(), ty.IsSetType():
		return kSeq
	case ty.IsMapType(), ty.IsObjectType():
		return kObj
	}
	return kAny
}

func (g *gen) varsWhere(p func(string, cty.Value) bool) []string {
	var out []string
	for n, v := range g.vars {
		if p(n, v) {
			out = append(out, n)
		}
	}
	sort.Strings(out)
	return out
}

func (g *gen) varOf(k kind) (string, bool) {
	c := g.varsWhere(func(_ string, v cty.Value) bool { return k == kAny || kindOfTy(v.Type()) == k })
	if len(c) == 0 {
		return "", false
	}
	return c[g.r.Intn(len(c))], true
}

func (g *gen) with(bind map[string]cty.Value, body func() string) string {
	save := g.vars
	nv := map[string]cty.Value{}
	for k, v := range save {
		nv[k] = v
	}
	for k, v := range bind {
		nv[k] = v
	}
	g.vars = nv
	defer func() { g.vars = save }()
	return body()
}

// ---- leaves ---------------------------------------------------------------------------

func (g *gen) lit(k kind) string {
	g.f("lit")
	switch k {
	case kNum:
		return g.r.Pick("0", "1", "2", "3", "4", "7", "10", "2.5", "0.25", "1.5", "100", "1e2", "12")
	case kStr:
		return `"` + g.r.Pick("", "a", "b", "hello", "x y", "1", "2", "true", "false", "2.5", "k", "name", "ü") + `"`
	case kBool:
		return g.r.Pick("true", "false")
	case kSeq:
		return "[" + g.r.Pick("", "1", "1, 2", "3, 2, 1", `"a", "b"`, "true", `1, "a"`, "null", `{a = 1}, {a = 2}`, `[1], [2, 3]`) + "]"
	case kObj:
		return "{" + g.r.Pick("", "a = 1", `a = "x", b = 2`, "k = null", "a = [1]", `name = "n", a = {b = 1}`) + "}"
	}
	if g.r.Chance(0.25) {
		return "null"
	}
	return g.lit(kind(g.r.Intn(5)))
}

func (g *gen) leaf(k kind) string {
	if g.r.Chance(0.65) {
		if n, ok := g.varOf(k); ok {
			g.f("var")
			return n
		}
	}
	if g.r.Chance(0.015) {
		g.f("undefined-var")
		return "nosuch"
	}
	return g.lit(k)
}

// ---- terms (bind tighter than every operator) -------------------------------------------

// atom of the wanted kind, in both renderings
func (g *gen) atom(k kind) pf {
	g.depth++
	defer func() { g.depth-- }()
	g.budget--
	if g.depth > 4 || g.budget <= 0 || g.r.Chance(0.5) {
		return same(g.leaf(k))
	}
	switch g.r.Intn(10) {
	case 0: // parenthesised operator chain (the parentheses are needed or not: both occur)
		g.f("paren")
		x := g.opExpr(k)
		return pf{"(" + x.p + ")", "(" + x.f + ")"}
	case 1:
		return same(g.call(k))
	case 2, 3:
		return same(g.indexed(k))
	case 4:
		if k == kStr {
			return same(g.quoted())
		}
		return same(g.leaf(k))
	case 5, 8:
		if k == kSeq {
			if g.r.Chance(0.5) {
				return same(g.splat())
			}
			return same(g.forExpr(false))
		}
		if k == kObj {
			return same(g.forExpr(true))
		}
		return same(g.leaf(k))
	case 6, 9:
		if k == kSeq {
			return same(g.tupleCons())
		}
		if k == kObj {
			return same(g.objectCons())
		}
		return same(g.leaf(k))
	case 7: // parenthesised conditional
		g.f("cond-paren")
		x := g.condExpr(k)
		return pf{"(" + x.p + ")", "(" + x.f + ")"}
	}
	return same(g.leaf(k))
}

func (g *gen) call(k kind) string {
	g.f("call")
	switch k {
	case kNum:
		switch g.r.Intn(4) {
		case 0:
			g.f("call-variadic")
			n := g.r.Small(4)
			a := make([]string, n)
			for i := range a {
				a[i] = g.expr(kNum)
			}
			return "sum(" + strings.Join(a, ", ") + ")"
		case 1:
			g.f("call-expand")
			return "sum(" + g.r.Pick("[1, 2, 3]...", "[]...", "1, [2, 3]...", g.seqOfNum()+"...") + ")"
		case 2:
			g.f("call-expand")
			return "first(" + g.seqOfNum() + "...)"
		}
		return "first(" + g.expr(kNum) + ", " + g.expr(kAny) + ")"
	case kStr:
		if g.r.Chance(0.15) {
			return "fail(" + g.expr(kStr) + ")"
		}
		return "upper(" + g.expr(kStr) + ")"
	case kBool:
		return "isnull(" + g.expr(kAny) + ")"
	case kSeq:
		return "pair(" + g.expr(kStr) + ", " + g.r.Pick("null", g.expr(kNum)) + ")"
	}
	switch g.r.Intn(5) {
	case 0:
		return "first(" + g.expr(kAny) + ")"
	case 1:
		g.f("call-expand")
		return "first(" + g.expr(kSeq) + "...)"
	case 2:
		return "nosuchfn(" + g.expr(kAny) + ")"
	case 3:
		return "upper(" + g.expr(kStr) + ", " + g.expr(kStr) + ")" // too many arguments
	}
	return "pair(" + g.expr(kStr) + ")" // not enough arguments
}

func (g *gen) seqOfNum() string {
	c := g.varsWhere(func(_ string, v cty.Value) bool {
		ty := v.Type()
		return (ty.IsListType() || ty.IsSetType()) && ty.ElementType() == cty.Number
	})
	if len(c) > 0 && g.r.Chance(0.6) {
		return c[g.r.Intn(len(c))]
	}
	return g.r.Pick("[1, 2]", "[n, m]", "[]", "l", "tp", "st")
}

// index / attribute / legacy index on something that plausibly yields kind k
func (g *gen) indexed(k kind) string {
	colls := g.varsWhere(func(_ string, v cty.Value) bool {
		ty := v.Type()
		return ty.IsListType() || ty.IsMapType() || ty.IsTupleType() || ty.IsObjectType() || ty.IsSetType()
	})
	if len(colls) == 0 || g.r.Chance(0.25) {
		g.f("index-cons")
		if g.r.Chance(0.5) {
			return "[" + g.expr(k) + ", " + g.expr(k) + "][" + g.r.Pick("0", "1", "2", "n", "-1", "0.5", `"1"`) + "]"
		}
		return `{a = ` + g.expr(k) + `, b = ` + g.expr(k) + `}` + g.r.Pick(".a", ".b", `["a"]`, `["zz"]`, ".zz", "[s]")
	}
	n := colls[g.r.Intn(len(colls))]
	ty := g.vars[n].Type()
	switch {
	case ty.IsListType() || ty.IsTupleType() || ty.IsSetType():
		switch g.r.Intn(6) {
		case 0:
			g.f("index-legacy")
			return n + "." + g.r.Pick("0", "1", "2")
		case 1:
			g.f("index-expr")
			return n + "[" + g.expr(kNum) + "]"
		case 2:
			return n + `["` + g.r.Pick("0", "1", "x") + `"]`
		case 3:
			g.f("index-chain")
			return n + "[" + g.r.Pick("0", "1") + "]" + g.r.Pick(".a", ".k", "[0]", `["a"]`, ".name")
		}
		g.f("index")
		return n + "[" + g.r.Pick("0", "1", "2", "5", "-1", "0.5") + "]"
	}
	switch g.r.Intn(5) {
	case 0, 1:
		g.f("getattr")
		return n + "." + g.r.Pick("a", "b", "k", "name", "zz") + g.r.Pick("", "", "", ".b", "[0]")
	case 2:
		g.f("index-expr")
		return n + "[" + g.expr(kStr) + "]"
	}
	g.f("index")
	return n + `["` + g.r.Pick("a", "b", "k", "name", "x y", "0") + `"]`
}

func (g *gen) collection() string {
	c := g.varsWhere(func(_ string, v cty.Value) bool {
		ty := v.Type()
		return ty.IsCollectionType() || ty.IsTupleType() || ty.IsObjectType()
	})
	if len(c) > 0 && g.r.Chance(0.6) {
		return c[g.r.Intn(len(c))]
	}
	switch g.r.Intn(8) {
	case 0:
		return g.expr(kAny)
	case 1, 2:
		return g.lit(kObj)
	case 3:
		return "null"
	}
	return g.lit(kSeq)
}

func (g *gen) forExpr(obj bool) string {
	g.f("for")
	coll := g.collection()
	two := g.r.Chance(0.5)
	hdr := "v"
	bind := map[string]cty.Value{"v": cty.DynamicVal}
	if two {
		hdr = "k, v"
		bind["k"] = cty.DynamicVal
	}
	return g.with(bind, func() string {
		body := g.r.Pick("v", "v", "[v]", `"${v}"`, "v == null", "upper(v)", "v + 1", "v * 2", "v.a", "v[0]", "!v")
		if two && g.r.Chance(0.4) {
			body = g.r.Pick("k", `"${k}=${v}"`, "[k, v]", "k + 1")
		}
		if g.r.Chance(0.25) {
			body = g.expr(kAny)
		}
		cond := ""
		if g.r.Chance(0.4) {
			g.f("for-if")
			cond = " if " + g.r.Pick("v != null", "true", "false", "v == 1", "v", "v > 1", `v != "a"`, g.expr(kBool), g.expr(kBool), "null", `"x"`, "nosuch")
			if two && g.r.Chance(0.3) {
				cond = " if " + g.r.Pick("k != 0", `k != "a"`, "k == v")
			}
		}
		if obj {
			key := g.r.Pick("v", `"${v}"`, `"x"`, "upper(v)", g.expr(kStr), "v.name")
			if two && g.r.Chance(0.5) {
				key = g.r.Pick("k", `"${k}"`, `"k${k}"`)
			}
			grp := ""
			if g.r.Chance(0.35) {
				grp = "..."
				g.f("for-group")
			}
			return "{for " + hdr + " in " + coll + " : " + key + " => " + body + grp + cond + "}"
		}
		return "[for " + hdr + " in " + coll + " : " + body + cond + "]"
	})
}

func (g *gen) splat() string {
	src := g.collection()
	if strings.HasPrefix(src, "[") || strings.HasPrefix(src, "{") || strings.ContainsAny(src, " ?") {
		src = "(" + src + ")"
	}
	if g.r.Chance(0.5) {
		g.f("splat-attr")
		return src + ".*" + g.r.Pick("", ".a", ".name", ".a.b", ".k")
	}
	g.f("splat-full")
	return src + "[*]" + g.r.Pick("", ".a", ".name", "[0]", ".a.b", `["k"]`, ".a[*].b", "[0].a", ".a[0]")
}

func (g *gen) tupleCons() string {
	g.f("tuple-cons")
	n := g.r.Small(4)
	ek := kind(g.r.Intn(3))
	parts := make([]string, n)
	for i := range parts {
		if g.r.Chance(0.15) {
			parts[i] = g.expr(kAny)
		} else {
			parts[i] = g.expr(ek)
		}
	}
	s := strings.Join(parts, ", ")
	if n > 0 && g.r.Chance(0.15) {
		s += ","
	}
	return "[" + s + "]"
}

func (g *gen) objectCons() string {
	g.f("object-cons")
	n := g.r.Small(3)
	parts := make([]string, n)
	for i := range parts {
		var key string
		switch g.r.Intn(8) {
		case 0:
			key = `"` + g.r.Pick("a", "b", "x y", "k") + `"`
		case 1:
			key = "(" + g.expr(kStr) + ")"
			g.f("object-key-expr")
		case 2:
			key = g.r.Pick("null", "true", "1", "false")
		case 3:
			key = `"${` + g.expr(kStr) + `}"`
		case 4:
			if g.r.Chance(0.3) {
				g.f("object-key-traversal")
				key = g.r.Pick("o.name", "o.a", "tp.0", "mp.a")
			} else {
				key = g.r.Pick("a", "b", "k")
			}
		default:
			key = g.r.Pick("a", "b", "k", "name", "c")
		}
		parts[i] = key + g.r.Pick(" = ", " = ", ": ") + g.expr(kAny)
	}
	return "{" + strings.Join(parts, g.r.Pick(", ", ", ", "\n")) + "}"
}

// ---- operator chains -----------------------------------------------------------------------
// Typed by precedence level so that the reading spec.md assigns is well-typed; the text has no
// parentheses except around atoms that are themselves parenthesised expressions.

func (g *gen) unary(k kind) pf {
	a := g.atom(k)
	switch {
	case k == kNum && g.r.Chance(0.07):
		g.f("op:neg")
		return pf{"-" + a.p, "(-" + a.f + ")"}
	case k == kBool && g.r.Chance(0.2):
		g.f("op:not")
		return pf{"!" + a.p, "(!" + a.f + ")"}
	}
	return a
}

func (g *gen) chainOf(k kind, ops []string, max int, next func() []tok) []tok {
	ts := next()
	n := g.r.Small(max)
	if n > g.budget {
		n = g.budget
	}
	if n < 0 {
		n = 0
	}
	for i := 0; i < n; i++ {
		op := ops[g.r.Intn(len(ops))]
		g.f("op:" + op)
		ts = append(ts, tok{op: op})
		ts = append(ts, next()...)
	}
	return ts
}

func (g *gen) numProd() []tok {
	ts := []tok{{x: g.unary(kNum)}}
	n := g.r.Small(2)
	if n > g.budget {
		n = g.budget
	}
	for i := 0; i < n; i++ {
		op := g.r.Pick("*", "*", "/", "%")
		g.f("op:" + op)
		ts = append(ts, tok{op: op})
		if op != "*" && g.r.Chance(0.85) {
			ts = append(ts, tok{x: same(g.r.Pick("2", "4", "8", "0.5", "2", "16"))}) // mostly exact (dyadic), non-zero divisors
		} else {
			ts = append(ts, tok{x: g.unary(kNum)})
		}
	}
	return ts
}
func (g *gen) numSum() []tok { return g.chainOf(kNum, []string{"+", "-"}, 3, g.numProd) }
func (g *gen) rel() []tok {
	ts := g.numSum()
	op := g.r.Pick("<", "<=", ">", ">=")
	g.f("op:" + op)
	ts = append(ts, tok{op: op})
	return append(ts, g.numSum()...)
}
func (g *gen) eqOperand() []tok {
	switch g.r.Intn(6) {
	case 0, 1:
		return g.numSum()
	case 2:
		return g.rel()
	case 3:
		return []tok{{x: g.unary(kStr)}}
	case 4:
		return []tok{{x: g.unary(kAny)}}
	}
	return []tok{{x: g.unary(kBool)}}
}
func (g *gen) boolEq() []tok {
	switch g.r.Intn(6) {
	case 0, 1:
		return []tok{{x: g.unary(kBool)}}
	case 2, 3:
		return g.rel()
	}
	ts := g.eqOperand()
	n := 1 + g.r.Small(1) // a == b, sometimes a == b != c
	if g.budget <= 0 {
		n = 1
	}
	for i := 0; i < n; i++ {
		op := g.r.Pick("==", "!=")
		g.f("op:" + op)
		ts = append(ts, tok{op: op})
		ts = append(ts, g.eqOperand()...)
	}
	return ts
}
func (g *gen) boolAnd() []tok { return g.chainOf(kBool, []string{"&&"}, 2, g.boolEq) }
func (g *gen) boolOr() []tok  { return g.chainOf(kBool, []string{"||"}, 2, g.boolAnd) }

func (g *gen) chain(k kind) []tok {
	switch k {
	case kNum:
		return g.numSum()
	case kBool:
		return g.boolOr()
	}
	return []tok{{x: g.unary(k)}}
}

// conditional with operator chains as parts; the false arm may itself be a conditional
// (right-associative), the arms are never parenthesised
func (g *gen) condToks(k kind) []tok {
	g.f("cond")
	ts := g.boolOr()
	ts = append(ts, tok{op: "?"})
	t := g.chain(k)
	f := g.chain(k)
	switch g.r.Intn(12) {
	case 0:
		t = []tok{{x: same("null")}}
		g.f("cond-null-arm")
	case 1:
		f = []tok{{x: same("null")}}
		g.f("cond-null-arm")
	case 2:
		f = g.chain(kind(g.r.Intn(6)))
		g.f("cond-mixed-arms")
	case 3, 4:
		if g.depth < 3 {
			g.depth++
			f = g.condToks(k)
			g.depth--
			g.f("cond-nested")
		}
	}
	ts = append(ts, t...)
	ts = append(ts, tok{op: ":"})
	return append(ts, f...)
}

func plainOf(ts []tok) string {
	var sb strings.Builder
	for i, t := range ts {
		if i > 0 {
			sb.WriteString(" ")
		}
		if t.op != "" {
			sb.WriteString(t.op)
		} else {
			sb.WriteString(t.x.p)
		}
	}
	return sb.String()
}

func (g *gen) render(ts []tok) pf { return pf{plainOf(ts), fullParen(ts)} }

func (g *gen) opExpr(k kind) pf   { return g.render(g.chain(k)) }
func (g *gen) condExpr(k kind) pf { return g.render(g.condToks(k)) }

// general expression text of (mostly) the wanted kind
func (g *gen) exprPF(k kind) pf {
	if k == kAny {
		k = kind(g.r.Intn(5))
	}
	if g.r.Chance(0.03) {
		g.f("ill-typed-position")
		k = kind(g.r.Intn(5))
	}
	if g.depth > 4 {
		return same(g.leaf(k))
	}
	g.depth++
	defer func() { g.depth-- }()
	if g.depth == 1 && g.r.Chance(0.12) {
		return g.condExpr(k) // unparenthesised conditional only at the top
	}
	return g.opExpr(k)
}
func (g *gen) expr(k kind) string { return g.exprPF(k).p }

// ---- templates --------------------------------------------------------------------------------

// template body; heredoc says whether raw newlines / quotes may appear in literals
func (g *gen) templateBody(heredoc bool, indent string) string {
	var sb strings.Builder
	n := 1 + g.r.Small(4)
	lit := func() string {
		if heredoc {
			return g.r.Pick("a", "x ", " - ", "é", "1", "say \"hi\"", "$${", "%%{", "=", "  two  ", "\n"+indent, "\n"+indent+"  ", "\\n")
		}
		return g.r.Pick("a", "x ", " - ", "é", "1", "\\n", "\\t", "\\\"", "\\\\", "$${", "%%{", "=", "  two  ", "\\u00e9")
	}
	strip := func(open bool) string {
		if g.r.Chance(0.2) {
			g.f("tmpl-strip")
			return "~"
		}
		_ = open
		return ""
	}
	for i := 0; i < n; i++ {
		switch g.r.Intn(9) {
		case 0, 1, 2:
			sb.WriteString(lit())
		case 3, 4, 5:
			g.f("tmpl-interp")
			sb.WriteString("${" + strip(true) + g.r.Pick("", " ") + g.expr(kind(g.r.Intn(5))) + g.r.Pick("", " ") + strip(false) + "}")
		case 6:
			g.f("tmpl-if")
			sb.WriteString("%{" + strip(true) + " if " + g.expr(kBool) + " " + strip(false) + "}")
			sb.WriteString(g.r.Pick("y", " yes ", "${"+g.expr(kStr)+"}", ""))
			if g.r.Chance(0.5) {
				g.f("tmpl-else")
				sb.WriteString("%{" + strip(true) + " else " + strip(false) + "}" + g.r.Pick("n", " no ", "${"+g.expr(kNum)+"}"))
			}
			sb.WriteString("%{" + strip(true) + " endif " + strip(false) + "}")
		case 7:
			g.f("tmpl-for")
			coll := g.collection()
			hdr, bind := "x", map[string]cty.Value{"x": cty.DynamicVal}
			if g.r.Chance(0.3) {
				hdr = "i, x"
				bind["i"] = cty.DynamicVal
			}
			sb.WriteString("%{" + strip(true) + " for " + hdr + " in " + coll + " " + strip(false) + "}")
			sb.WriteString(g.with(bind, func() string {
				return g.r.Pick("${x}", "${x},", " - ", "${upper(x)}", "${x + 1} ", "[${x}]")
			}))
			sb.WriteString("%{" + strip(true) + " endfor " + strip(false) + "}")
		case 8:
			sb.WriteString(lit() + lit())
		}
	}
	return sb.String()
}

func (g *gen) quoted() string {
	g.f("template-quoted")
	return `"` + g.templateBody(false, "") + `"`
}

func (g *gen) heredoc() string {
	marker := g.r.Pick("EOT", "END", "X")
	if g.r.Chance(0.5) {
		g.f("template-heredoc-flush")
		ind := g.r.Pick("  ", "    ", "\t")
		body := g.templateBody(true, ind)
		return "<<-" + marker + "\n" + ind + body + "\n" + g.r.Pick("", ind, " ") + marker + "\n"
	}
	g.f("template-heredoc")
	return "<<" + marker + "\n" + g.templateBody(true, "") + "\n" + marker + "\n"
}

// ---- the reference printer of spec.md's precedence table ------------------------------------
// hclsyntax/spec.md § Operations: level 6 `* / %`, 5 `+ -`, 4 `> >= < <=`, 3 `== !=`, 2 `&&`, 1 `||`,
// "Operators within the same precedence level have left-to-right associativity", "The unary
// operators have the highest precedence" (already part of the operands here); the conditional
// `p ? t : f` has an Expression in each position, hence binds weakest and nests to the right.

var specLevel = map[string]int{
	"||": 1, "&&": 2, "==": 3, "!=": 3, "<": 4, ">": 4, "<=": 4, ">=": 4, "+": 5, "-": 5, "*": 6, "/": 6, "%": 6,
}

func fullParen(ts []tok) string {
	i := 0
	s := refTernary(ts, &i)
	if i != len(ts) {
		return "<<reference printer: trailing tokens>>"
	}
	return s
}

func refTernary(ts []tok, i *int) string {
	c := refBinary(ts, i, 1)
	if *i < len(ts) && ts[*i].op == "?" {
		*i++
		t := refTernary(ts, i)
		if *i >= len(ts) || ts[*i].op != ":" {
			return "<<reference printer: missing colon>>"
		}
		*i++
		f := refTernary(ts, i)
		return "(" + c + " ? " + t + " : " + f + ")"
	}
	return c
}

func refBinary(ts []tok, i *int, min int) string {
	if *i >= len(ts) || ts[*i].op != "" {
		return "<<reference printer: operand expected>>"
	}
	lhs := ts[*i].x.f
	*i++
	for *i < len(ts) {
		lv, ok := specLevel[ts[*i].op]
		if !ok || lv < min {
			break
		}
		op := ts[*i].op
		*i++
		rhs := refBinary(ts, i, lv+1)
		lhs = "(" + lhs + " " + op + " " + rhs + ")"
	}
	return lhs
}
