package main

// Template reference oracle of C01.  Templates are generated as a TREE in the harness,
// rendered as source text (quoted, heredoc, flush heredoc) and the EXPECTED result is
// computed from the tree by the rules of hclsyntax/spec.md § Templates — without going
// through the hclsyntax template parser:
//   * a strip marker `~` immediately after `${` / `%{` removes the whitespace at the END of
//     the literal immediately BEFORE the sequence, a `~` immediately before `}` removes the
//     whitespace at the START of the literal immediately AFTER it ("Space characters are
//     interpreted as per Unicode's definition"); only the directly adjacent literal is
//     affected ("Stripping is done at syntax level rather than value level");
//   * `%{ if }` contributes the selected sub-template (empty string without else),
//     `%{ for }` the concatenation of its sub-template for every element;
//   * a template that is a single interpolation is unwrapped (value returned verbatim);
//   * an interpolated null is an error;
//   * `<<-`: "any literal string at the start of each line is analyzed to find the minimum
//     number of leading spaces, and then that number of prefix spaces is removed from all
//     line-leading literal strings" (a line that starts with a sequence has none).
// A second rendering of the same rules with the granularity the implementation is known to
// use in heredocs (one literal token per source line; flush after stripping) only serves to
// give a NARROW kind to that documented deviation; everything else that differs from the
// reference is `template-differs-from-reference`.

import (
	"fmt"
	"strings"
	"unicode"

	"github.com/hashicorp/hcl/v2"
	"github.com/zclconf/go-cty/cty"
	"hclverif/hv"
)

const (
	tLit = iota
	tInterp
	tIf
	tFor
)

type tenv map[string]string

type tnode struct {
	kind int
	text string // tLit: the literal as it reads in the template (before stripping)
	// tInterp
	src  string
	sval func(tenv) (string, bool) // string value, null?
	cval func(tenv) cty.Value      // the value itself (for unwrapping)
	// tIf
	cond    func(tenv) bool
	then    []*tnode
	els     []*tnode
	hasElse bool
	// tFor
	keyVar, valVar string
	elems          [][2]string // (key, value) as strings
	body           []*tnode
	// strip markers: index 0 = the opening sequence (or the interpolation), 1 = else, 2 = endif / endfor
	ls, rs [3]bool
}

func refCtx() *hcl.EvalContext {
	return &hcl.EvalContext{
		Variables: map[string]cty.Value{
			"a": cty.StringVal("A"), "b": cty.StringVal("B"), "n": cty.NumberIntVal(7),
			"t": cty.True, "f": cty.False, "nul": cty.NullVal(cty.String),
			"xs":  cty.TupleVal([]cty.Value{cty.StringVal("x"), cty.StringVal("y")}),
			"e":   cty.EmptyTupleVal,
			"one": cty.TupleVal([]cty.Value{cty.StringVal("p")}),
			"mp":  cty.ObjectVal(map[string]cty.Value{"k1": cty.StringVal("v1"), "k2": cty.StringVal("v2")}),
		},
		Functions: hv.HarnessFuncs,
	}
}

type tgen struct {
	r     *hv.Rng
	feat  map[string]int
	flush bool // literals avoid tabs (the indentation rule speaks of spaces)
}

func (g *tgen) f(s string) { g.feat["tref:"+s]++ }

func constInterp(src, s string, v cty.Value) *tnode {
	return &tnode{kind: tInterp, src: src,
		sval: func(tenv) (string, bool) { return s, false },
		cval: func(tenv) cty.Value { return v }}
}
func varInterp(name string) *tnode {
	return &tnode{kind: tInterp, src: name,
		sval: func(e tenv) (string, bool) { return e[name], false },
		cval: func(e tenv) cty.Value { return cty.StringVal(e[name]) }}
}

func (g *tgen) interp(vars []string, numKeys map[string]bool) *tnode {
	var n *tnode
	if len(vars) > 0 && g.r.Chance(0.45) {
		v := vars[g.r.Intn(len(vars))]
		n = varInterp(v)
		if numKeys[v] { // index of a tuple: a number
			n.cval = func(e tenv) cty.Value { x, _ := cty.ParseNumberVal(e[v]); return x }
		}
	} else {
		switch g.r.Intn(12) {
		case 0, 1:
			n = constInterp("a", "A", cty.StringVal("A"))
		case 2:
			n = constInterp("b", "B", cty.StringVal("B"))
		case 3:
			n = constInterp("n", "7", cty.NumberIntVal(7))
		case 4:
			n = constInterp("t", "true", cty.True)
		case 5:
			n = constInterp(`"lit"`, "lit", cty.StringVal("lit"))
		case 6: // whitespace VALUES are not subject to stripping
			g.f("whitespace-value")
			n = constInterp(`"  "`, "  ", cty.StringVal("  "))
		case 7:
			g.f("whitespace-value")
			n = constInterp(`" w "`, " w ", cty.StringVal(" w "))
		case 8:
			n = constInterp("1 + 2", "3", cty.NumberIntVal(3))
		case 9:
			n = constInterp(`upper("q")`, "Q", cty.StringVal("Q"))
		case 10:
			n = constInterp("n * 2", "14", cty.NumberIntVal(14))
		default:
			if g.r.Chance(0.3) {
				g.f("null-interpolation")
				n = &tnode{kind: tInterp, src: "nul",
					sval: func(tenv) (string, bool) { return "", true },
					cval: func(tenv) cty.Value { return cty.NullVal(cty.String) }}
			} else {
				n = constInterp("a", "A", cty.StringVal("A"))
			}
		}
	}
	n.ls[0], n.rs[0] = g.r.Chance(0.4), g.r.Chance(0.4)
	return n
}

func (g *tgen) literal() *tnode {
	var sb strings.Builder
	ws := func() string {
		if g.flush {
			return g.r.Pick(" ", "  ", "   ", "\n", " \n", "\n\n")
		}
		return g.r.Pick(" ", "  ", "\t", " \t ", "\n", " \n", "\n ", "\n\n", "  \n  ")
	}
	word := func() string { return g.r.Pick("w", "foo", "p q", "-", "é", "${", "%{", "x=1", ",", "\"", "\\", "z") }
	switch g.r.Intn(10) {
	case 0, 1, 2: // whitespace only
		g.f("whitespace-only-literal")
		sb.WriteString(ws())
		if g.r.Chance(0.3) {
			sb.WriteString(ws())
		}
	case 3, 4, 5, 6: // whitespace on both sides
		sb.WriteString(ws() + word() + ws())
	case 7:
		sb.WriteString(ws() + word())
	case 8:
		sb.WriteString(word() + ws())
	default:
		sb.WriteString(word())
		if g.r.Chance(0.4) {
			sb.WriteString(ws() + word())
		}
	}
	return &tnode{kind: tLit, text: sb.String()}
}

// a sequence of items; consecutive literals are never produced
func (g *tgen) items(depth int, vars []string, numKeys map[string]bool, max int) []*tnode {
	n := 1 + g.r.Small(max)
	var out []*tnode
	lastLit := false
	for i := 0; i < n; i++ {
		k := g.r.Intn(10)
		switch {
		case k < 3 && !lastLit:
			out = append(out, g.literal())
			lastLit = true
			continue
		case k < 7 || depth >= 3:
			out = append(out, g.interp(vars, numKeys))
		case k < 9:
			out = append(out, g.ifNode(depth, vars, numKeys))
		default:
			out = append(out, g.forNode(depth, vars, numKeys))
		}
		lastLit = false
	}
	// bodies of directives often begin / end with a whitespace-carrying literal: the literals the
	// strip markers of the directive's own sequences act on
	if depth > 0 {
		if out[0].kind != tLit && g.r.Chance(0.5) {
			out = append([]*tnode{{kind: tLit, text: g.r.Pick(" ", "  ", "\n", " w", "\n w", "  ,")}}, out...)
		}
		if out[len(out)-1].kind != tLit && g.r.Chance(0.5) {
			out = append(out, &tnode{kind: tLit, text: g.r.Pick(" ", "  ", "\n", "w ", "w\n", ",  ")})
		}
	}
	return out
}

func (g *tgen) ifNode(depth int, vars []string, numKeys map[string]bool) *tnode {
	g.f("if")
	n := &tnode{kind: tIf}
	switch g.r.Intn(8) {
	case 0, 1:
		n.src, n.cond = "true", func(tenv) bool { return true }
	case 2:
		n.src, n.cond = "false", func(tenv) bool { return false }
	case 3:
		n.src, n.cond = "t", func(tenv) bool { return true }
	case 4:
		n.src, n.cond = "f", func(tenv) bool { return false }
	case 5:
		n.src, n.cond = "n == 7", func(tenv) bool { return true }
	case 6:
		n.src, n.cond = "n > 9 || !t", func(tenv) bool { return false }
	default:
		n.src, n.cond = "true", func(tenv) bool { return true }
		for _, v := range vars {
			if !numKeys[v] && g.r.Chance(0.7) {
				v := v
				lit := g.r.Pick("x", "y", "p", "v1")
				n.src, n.cond = v+` == "`+lit+`"`, func(e tenv) bool { return e[v] == lit }
				g.f("if-on-loop-variable")
				break
			}
		}
	}
	n.then = g.items(depth+1, vars, numKeys, 2)
	if g.r.Chance(0.55) {
		n.hasElse = true
		n.els = g.items(depth+1, vars, numKeys, 2)
		if g.r.Chance(0.2) {
			n.els = nil
		}
	}
	if g.r.Chance(0.15) {
		n.then = nil
	}
	for i := 0; i < 3; i++ {
		n.ls[i], n.rs[i] = g.r.Chance(0.4), g.r.Chance(0.4)
	}
	if n.hasElse && (n.ls[1] || n.rs[1]) {
		g.f("strip-on-else")
	}
	if n.ls[2] || n.rs[2] {
		g.f("strip-on-endif")
	}
	return n
}

func (g *tgen) forNode(depth int, vars []string, numKeys map[string]bool) *tnode {
	g.f("for")
	n := &tnode{kind: tFor}
	n.valVar = []string{"x", "y", "z", "u"}[depth%4]
	tupleKeys := true
	switch g.r.Intn(7) {
	case 0, 1, 2:
		n.src, n.elems = "xs", [][2]string{{"0", "x"}, {"1", "y"}}
	case 3:
		n.src, n.elems = "e", nil
		g.f("for-over-empty")
	case 4:
		n.src, n.elems = "one", [][2]string{{"0", "p"}}
	case 5:
		n.src, n.elems = "mp", [][2]string{{"k1", "v1"}, {"k2", "v2"}}
		tupleKeys = false
	default:
		n.src, n.elems = `[" s ", "m"]`, [][2]string{{"0", " s "}, {"1", "m"}}
	}
	nk := map[string]bool{}
	for k, v := range numKeys {
		nk[k] = v
	}
	inner := append([]string{}, vars...)
	inner = append(inner, n.valVar)
	if g.r.Chance(0.4) {
		n.keyVar = []string{"i", "j", "k", "q"}[depth%4]
		inner = append(inner, n.keyVar)
		nk[n.keyVar] = tupleKeys
		g.f("for-with-key")
	}
	n.body = g.items(depth+1, inner, nk, 3)
	n.ls[0], n.rs[0] = g.r.Chance(0.4), g.r.Chance(0.45)
	n.ls[2], n.rs[2] = g.r.Chance(0.45), g.r.Chance(0.4)
	if n.ls[2] || n.rs[2] {
		g.f("strip-on-endfor")
	}
	return n
}

// ---- rendering ----------------------------------------------------------------------------------

func escLit(s string, quoted bool) string {
	s = strings.ReplaceAll(s, "${", "$${")
	s = strings.ReplaceAll(s, "%{", "%%{")
	if !quoted {
		return s
	}
	var sb strings.Builder
	for _, c := range s {
		switch c {
		case '\\':
			sb.WriteString(`\\`)
		case '"':
			sb.WriteString(`\"`)
		case '\n':
			sb.WriteString(`\n`)
		case '\t':
			sb.WriteString(`\t`)
		default:
			sb.WriteRune(c)
		}
	}
	return sb.String()
}

func seqText(open string, l bool, inner string, r bool) string {
	s := open
	if l {
		s += "~"
	}
	s += " " + inner + " "
	if r {
		s += "~"
	}
	return s + "}"
}

func render(items []*tnode, quoted bool, sb *strings.Builder) {
	for _, n := range items {
		switch n.kind {
		case tLit:
			sb.WriteString(escLit(n.text, quoted))
		case tInterp:
			sb.WriteString(seqText("${", n.ls[0], n.src, n.rs[0]))
		case tIf:
			sb.WriteString(seqText("%{", n.ls[0], "if "+n.src, n.rs[0]))
			render(n.then, quoted, sb)
			if n.hasElse {
				sb.WriteString(seqText("%{", n.ls[1], "else", n.rs[1]))
				render(n.els, quoted, sb)
			}
			sb.WriteString(seqText("%{", n.ls[2], "endif", n.rs[2]))
		case tFor:
			hdr := n.valVar
			if n.keyVar != "" {
				hdr = n.keyVar + ", " + n.valVar
			}
			sb.WriteString(seqText("%{", n.ls[0], "for "+hdr+" in "+n.src, n.rs[0]))
			render(n.body, quoted, sb)
			sb.WriteString(seqText("%{", n.ls[2], "endfor", n.rs[2]))
		}
	}
}

// ---- the reference semantics -----------------------------------------------------------------------

// ftok is one element of the template in source order: a literal (as its source lines) or a
// template sequence with its two strip markers
type ftok struct {
	lit    *tnode
	pieces []string // the literal cut after every newline (one piece per source line)
	l, r   bool
}

func clone(items []*tnode) []*tnode {
	out := make([]*tnode, len(items))
	for i, n := range items {
		c := *n
		c.then, c.els, c.body = clone(n.then), clone(n.els), clone(n.body)
		out[i] = &c
	}
	return out
}

func flatten(items []*tnode, out *[]*ftok) {
	for _, n := range items {
		switch n.kind {
		case tLit:
			*out = append(*out, &ftok{lit: n, pieces: strings.SplitAfter(n.text, "\n")})
		case tInterp:
			*out = append(*out, &ftok{l: n.ls[0], r: n.rs[0]})
		case tIf:
			*out = append(*out, &ftok{l: n.ls[0], r: n.rs[0]})
			flatten(n.then, out)
			if n.hasElse {
				*out = append(*out, &ftok{l: n.ls[1], r: n.rs[1]})
				flatten(n.els, out)
			}
			*out = append(*out, &ftok{l: n.ls[2], r: n.rs[2]})
		case tFor:
			*out = append(*out, &ftok{l: n.ls[0], r: n.rs[0]})
			flatten(n.body, out)
			*out = append(*out, &ftok{l: n.ls[2], r: n.rs[2]})
		}
	}
}

func trimL(s string) string { return strings.TrimLeftFunc(s, unicode.IsSpace) }
func trimR(s string) string { return strings.TrimRightFunc(s, unicode.IsSpace) }

// strip markers by the text of the specification: the WHOLE adjacent literal
func stripSpec(toks []*ftok) {
	for i, t := range toks {
		if t.lit != nil {
			continue
		}
		if t.l && i > 0 && toks[i-1].lit != nil {
			toks[i-1].lit.text = trimR(toks[i-1].lit.text)
		}
		if t.r && i+1 < len(toks) && toks[i+1].lit != nil {
			toks[i+1].lit.text = trimL(toks[i+1].lit.text)
		}
	}
}

// flush heredoc by the text of the specification, applied to the source lines
func dedentSpec(toks []*ftok) {
	type lead struct {
		t   *ftok
		pi  int // piece index
		cnt int
	}
	var leads []lead
	min := -1
	upd := func(c int) {
		if min < 0 || c < min {
			min = c
		}
	}
	lineStart := true
	for _, t := range toks {
		if t.lit == nil {
			if lineStart {
				upd(0) // the line starts with a sequence: no leading spaces
			}
			lineStart = false
			continue
		}
		for pi, p := range t.pieces {
			if p == "" {
				continue
			}
			if lineStart {
				body := strings.TrimSuffix(p, "\n")
				rest := trimL(body)
				if rest == "" && strings.HasSuffix(p, "\n") {
					// blank line: not considered
				} else {
					c := len([]rune(body)) - len([]rune(rest))
					upd(c)
					leads = append(leads, lead{t, pi, c})
				}
			}
			lineStart = strings.HasSuffix(p, "\n")
		}
	}
	if min <= 0 {
		return
	}
	for _, l := range leads {
		l.t.pieces[l.pi] = string([]rune(l.t.pieces[l.pi])[min:])
	}
	for _, t := range toks {
		if t.lit != nil {
			t.lit.text = strings.Join(t.pieces, "")
		}
	}
}

// the same rules at the granularity of one literal token per source line, with the flush rule
// applied AFTER stripping to the tokens that still follow a token ending in a newline
// (hclsyntax parseTemplateParts / flushHeredocTemplateParts); only used to name the deviation
func stripAndFlushByLineTokens(toks []*ftok, flush bool) {
	type piece struct {
		t  *ftok
		pi int
	}
	var seq []piece // literal pieces and (t.lit == nil) sequences in source order
	for _, t := range toks {
		if t.lit == nil {
			seq = append(seq, piece{t, -1})
			continue
		}
		for pi := range t.pieces {
			if t.pieces[pi] != "" {
				seq = append(seq, piece{t, pi})
			}
		}
	}
	for i, p := range seq {
		if p.pi >= 0 {
			continue
		}
		if p.t.l && i > 0 && seq[i-1].pi >= 0 {
			q := seq[i-1]
			q.t.pieces[q.pi] = trimR(q.t.pieces[q.pi])
		}
		if p.t.r && i+1 < len(seq) && seq[i+1].pi >= 0 {
			q := seq[i+1]
			q.t.pieces[q.pi] = trimL(q.t.pieces[q.pi])
		}
	}
	if flush {
		const big = 1 << 30
		min := big
		newline := true
		var adjust []piece
		for _, p := range seq {
			if newline {
				newline = false
				spaces := 0
				if p.pi >= 0 {
					orig := p.t.pieces[p.pi]
					tr := trimL(orig)
					if tr == "" && strings.HasSuffix(orig, "\n") {
						spaces = big
					} else {
						spaces = len([]rune(orig)) - len([]rune(tr))
						adjust = append(adjust, p)
					}
				}
				if spaces < min {
					min = spaces
				}
			}
			if p.pi >= 0 && strings.HasSuffix(p.t.pieces[p.pi], "\n") {
				newline = true
			}
		}
		if min != big {
			for _, p := range adjust {
				p.t.pieces[p.pi] = string([]rune(p.t.pieces[p.pi])[min:])
			}
		}
	}
	for _, t := range toks {
		if t.lit != nil {
			t.lit.text = strings.Join(t.pieces, "")
		}
	}
}

type texpect struct {
	err bool
	val cty.Value
}

func evalItems(items []*tnode, env tenv, sb *strings.Builder) bool { // false = error (null interpolated)
	for _, n := range items {
		switch n.kind {
		case tLit:
			sb.WriteString(n.text)
		case tInterp:
			s, null := n.sval(env)
			if null {
				return false
			}
			sb.WriteString(s)
		case tIf:
			if n.cond(env) {
				if !evalItems(n.then, env, sb) {
					return false
				}
			} else if n.hasElse {
				if !evalItems(n.els, env, sb) {
					return false
				}
			}
		case tFor:
			for _, kv := range n.elems {
				e2 := tenv{}
				for k, v := range env {
					e2[k] = v
				}
				e2[n.valVar] = kv[1]
				if n.keyVar != "" {
					e2[n.keyVar] = kv[0]
				}
				if !evalItems(n.body, e2, sb) {
					return false
				}
			}
		}
	}
	return true
}

// expectation for the template `items` (already in the form it has in the source: with the
// final newline of a heredoc, with the indentation of a flush heredoc)
func expect(items []*tnode, flush, lineTokens bool) texpect {
	if len(items) == 1 && items[0].kind == tInterp {
		return texpect{val: items[0].cval(tenv{})} // unwrapping
	}
	work := clone(items)
	var toks []*ftok
	flatten(work, &toks)
	if lineTokens {
		stripAndFlushByLineTokens(toks, flush)
	} else {
		if flush {
			dedentSpec(toks)
		}
		stripSpec(toks)
	}
	var sb strings.Builder
	if !evalItems(work, tenv{}, &sb) {
		return texpect{err: true}
	}
	return texpect{val: cty.StringVal(sb.String())}
}

// ---- source forms -----------------------------------------------------------------------------------

func withFinalNewline(items []*tnode) []*tnode {
	out := clone(items)
	if n := len(out); n > 0 && out[n-1].kind == tLit {
		out[n-1].text += "\n"
		return out
	}
	return append(out, &tnode{kind: tLit, text: "\n"})
}

// indent inserts the indentation of a flush heredoc at the beginning of the source lines
func (g *tgen) indent(items []*tnode, base int, lineStart *bool) []*tnode {
	ind := func() string {
		n := base
		switch g.r.Intn(8) {
		case 0:
			n += 2
		case 1:
			n += 4
		case 2:
			if n >= 2 {
				n -= 2
				g.f("flush-shallower-line")
			}
		}
		return strings.Repeat(" ", n)
	}
	var out []*tnode
	for _, n := range items {
		if n.kind == tLit {
			var sb strings.Builder
			for _, p := range strings.SplitAfter(n.text, "\n") {
				if p == "" {
					continue
				}
				if *lineStart && p != "\n" {
					sb.WriteString(ind())
				}
				sb.WriteString(p)
				*lineStart = strings.HasSuffix(p, "\n")
			}
			n.text = sb.String()
			out = append(out, n)
			continue
		}
		if *lineStart {
			if g.r.Chance(0.75) {
				// indentation in front of a sequence that begins a line
				if k := len(out); k > 0 && out[k-1].kind == tLit {
					out[k-1].text += ind()
				} else {
					out = append(out, &tnode{kind: tLit, text: ind()})
				}
			} else {
				g.f("flush-line-starts-with-sequence")
			}
			*lineStart = false
		}
		// the bodies of directives follow the opening sequence on the same line; an `else` /
		// `endif` / `endfor` that begins a line gets its indentation at the end of the body
		closeLine := func(body []*tnode) []*tnode {
			if *lineStart {
				if k := len(body); k > 0 && body[k-1].kind == tLit && g.r.Chance(0.75) {
					body[k-1].text += ind()
				} else {
					g.f("flush-line-starts-with-sequence")
				}
				*lineStart = false
			}
			return body
		}
		switch n.kind {
		case tIf:
			n.then = closeLine(g.indent(n.then, base, lineStart))
			if n.hasElse {
				n.els = closeLine(g.indent(n.els, base, lineStart))
			}
		case tFor:
			n.body = closeLine(g.indent(n.body, base, lineStart))
		}
		out = append(out, n)
	}
	return out
}

type trefCase struct {
	src    string
	form   string
	spec   texpect // by the text of the specification
	byLine texpect // with the implementation's line-token granularity (heredocs)
}

func (g *tgen) shapes(items []*tnode) {
	var toks []*ftok
	flatten(items, &toks)
	if len(toks) == 0 {
		return
	}
	if toks[0].lit == nil {
		g.f("sequence-at-start")
	}
	if toks[len(toks)-1].lit == nil {
		g.f("sequence-at-end")
	}
	run := 0
	stripInRun := false
	for i, t := range toks {
		if t.lit == nil {
			run++
			stripInRun = stripInRun || t.l || t.r
			if run >= 2 && stripInRun {
				g.f("adjacent-sequences-with-strip")
			}
			if t.r && i+1 < len(toks) && toks[i+1].lit != nil && strings.HasPrefix(toks[i+1].lit.text, "\n") {
				g.f("strip-before-newline")
			}
			continue
		}
		if run >= 2 && t.lit.text != trimL(t.lit.text) {
			g.f("whitespace-leading-literal-after-two-sequences")
		}
		run, stripInRun = 0, false
	}
}

func (g *tgen) gen() trefCase {
	form := g.r.Pick("quoted", "quoted", "heredoc", "heredoc", "flush")
	g.flush = form == "flush"
	items := g.items(0, nil, map[string]bool{}, 5)
	if g.r.Chance(0.04) {
		g.f("single-interpolation")
		items = []*tnode{g.interp(nil, map[string]bool{})}
	}
	g.f("form:" + form)
	var sb strings.Builder
	c := trefCase{form: form}
	switch form {
	case "quoted":
		g.shapes(items)
		sb.WriteString(`"`)
		render(items, true, &sb)
		sb.WriteString(`"`)
		c.spec = expect(items, false, false)
		c.byLine = c.spec
	case "heredoc":
		items = withFinalNewline(items)
		g.shapes(items)
		sb.WriteString("<<EOT\n")
		render(items, false, &sb)
		sb.WriteString("EOT\n")
		c.spec = expect(items, false, false)
		c.byLine = expect(items, false, true)
	default:
		items = withFinalNewline(items)
		ls := true
		items = g.indent(items, 2*(1+g.r.Intn(3)), &ls)
		g.shapes(items)
		sb.WriteString("<<-EOT\n")
		render(items, false, &sb)
		sb.WriteString(strings.Repeat(" ", g.r.Intn(7)) + "EOT\n")
		c.spec = expect(items, true, false)
		c.byLine = expect(items, true, true)
	}
	c.src = sb.String()
	return c
}

func (e texpect) String() string {
	if e.err {
		return "error"
	}
	return hv.DumpVal(e.val)
}

func sameOutcome(e texpect, v cty.Value, d hcl.Diagnostics) bool {
	if e.err || d.HasErrors() {
		return e.err == d.HasErrors()
	}
	return v.RawEquals(e.val)
}

// hand cases (expected results by the rules above)
var trefHand = []struct {
	src  string
	want cty.Value
}{
	{`"${a ~}${" w "} c"`, cty.StringVal("A w  c")},
	{`"x ${~ a ~} ${~ b ~} y"`, cty.StringVal("xABy")},
	{`"%{ if f ~} yes %{~ else ~} no %{~ endif ~} z"`, cty.StringVal("noz")},
	{`"%{ for x in xs ~} ${x} %{~ endfor } ."`, cty.StringVal("xy .")},
	{`"${~ n ~}"`, cty.NumberIntVal(7)},
	{`" ${~ n}"`, cty.StringVal("7")},
	{`"%{ if t }${a}%{~ endif } ${~ b}"`, cty.StringVal("AB")},
	{"<<EOT\n${a ~} \t ${b}\nEOT\n", cty.StringVal("AB\n")},
	{`"%{ for i, x in xs }${i}=${x ~} %{ endfor ~} ;"`, cty.StringVal("0=x1=y;")},
	{`"a%{ if f } b %{ endif ~} ${a}"`, cty.StringVal("aA")},
	{`"$${a ~} ${~ b}"`, cty.StringVal("${a ~}B")},
	{`"%{ if t ~}${a} ${b ~}%{ else } - %{ endif } ."`, cty.StringVal("A B .")},
	{"<<-EOT\n    ${a}\n      ${b}\n    EOT\n", cty.StringVal("A\n  B\n")},
}

func describe(v cty.Value, d hcl.Diagnostics) string {
	if d.HasErrors() {
		return "error (" + summaries(d) + ")"
	}
	return hv.DumpVal(v)
}

// A failing input of this oracle is recorded together with its expectation so that it can be
// replayed without the generator: `<source>   ## tref-expect <encoding>`.
const trefMark = "   ## tref-expect "

func encodeExpect(e texpect) string {
	switch {
	case e.err:
		return "error"
	case e.val.IsNull():
		return "null"
	case e.val.Type() == cty.String:
		return fmt.Sprintf("s:%x", e.val.AsString())
	case e.val.Type() == cty.Number:
		return "n:" + e.val.AsBigFloat().Text('f', -1)
	case e.val.Type() == cty.Bool:
		return fmt.Sprintf("b:%v", e.val.True())
	}
	return "?"
}

func decodeExpect(s string) (texpect, bool) {
	s = strings.TrimSpace(s)
	switch {
	case s == "error":
		return texpect{err: true}, true
	case s == "null":
		return texpect{val: cty.NullVal(cty.String)}, true
	case strings.HasPrefix(s, "s:"):
		var b []byte
		if _, err := fmt.Sscanf(s[2:], "%x", &b); err != nil && len(s) > 2 {
			return texpect{}, false
		}
		return texpect{val: cty.StringVal(string(b))}, true
	case strings.HasPrefix(s, "n:"):
		v, err := cty.ParseNumberVal(s[2:])
		return texpect{val: v}, err == nil
	case strings.HasPrefix(s, "b:"):
		return texpect{val: cty.BoolVal(s[2:] == "true")}, true
	}
	return texpect{}, false
}
