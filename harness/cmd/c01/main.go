package main

// c01 — Expression evaluation conforms to the language specification.
//
// Generates SOURCE TEXT of expressions and templates over the whole native
// expression grammar (gen.go), parses it with hclsyntax.ParseExpression /
// ParseTemplate, evaluates it with Value, and emits each case (scope, the AST
// the real parser built, the value and diagnostics the real evaluator returned)
// in the format of Eval/EvalCheck.v.  The case files compute
//   bad             Impl-model / Go correspondence (check_eval_cases),
//   spec_bad        Go differs from the SPECIFICATION semantics (Eval/Spec.v) outside
//                   every excluded deviation shape: contradicts impl_refines_spec, must be [],
//   spec_dev        (case, code): Go differs under a refuted deviation shape (known findings),
//   spec_other      (case, code): Go differs under an AST-shape / model-limitation guard,
//   spec_applicable cases meeting every hypothesis of the theorem
// (Eval/SpecCheck.v).  Direct oracle on the Go side, independent of every model:
// precedence and associativity — the generated operator text evaluates like the
// fully parenthesised text of a reference printer that applies the precedence
// table of hclsyntax/spec.md.

import (
	"fmt"
	"os"
	"path/filepath"
	"strings"

	"github.com/hashicorp/hcl/v2"
	"github.com/hashicorp/hcl/v2/hclsyntax"
	"github.com/zclconf/go-cty/cty"
	"github.com/zclconf/go-cty/cty/function"
	"hclverif/hv"
)

func main() { hv.Main(map[string]func(*hv.RunCfg) error{"c01": run}) }

func evalSafe(e hclsyntax.Expression, ctx *hcl.EvalContext) (v cty.Value, d hcl.Diagnostics, panicked any) {
	defer func() { panicked = recover() }()
	v, d = e.Value(ctx)
	return
}

// ---- hand corpus ---------------------------------------------------------------------------------

// the scope of the refuted witnesses (Eval/SpecRefines.v wctx)
func witnessCtx() *hcl.EvalContext {
	return &hcl.EvalContext{
		Variables: map[string]cty.Value{
			"l":  cty.ListVal([]cty.Value{cty.NumberIntVal(1), cty.NumberIntVal(2)}),
			"m":  cty.MapVal(map[string]cty.Value{"a": cty.NumberIntVal(1)}),
			"o":  cty.ObjectVal(map[string]cty.Value{"a": cty.NumberIntVal(1)}),
			"st": cty.SetVal([]cty.Value{cty.NumberIntVal(1), cty.NumberIntVal(2)}),
		},
		Functions: hv.HarnessFuncs,
	}
}

// specdev_call_dynnull_refuted: a dynamically typed parameter that accepts null but not
// dynamically typed values (Eval/SpecRefines.v fn_probe)
func probeCtx() *hcl.EvalContext {
	return &hcl.EvalContext{
		Variables: map[string]cty.Value{},
		Functions: map[string]function.Function{
			"probe": function.New(&function.Spec{
				Params: []function.Parameter{{Name: "v", Type: cty.DynamicPseudoType, AllowNull: true}},
				Type:   function.StaticReturnType(cty.Bool),
				Impl: func(args []cty.Value, rt cty.Type) (cty.Value, error) {
					return cty.BoolVal(args[0].IsNull()), nil
				},
			}),
		},
	}
}

var witnesses = []string{
	`false && nosuchvar`, `true || nosuchvar`, `true && null`, `null || true`,
	`{a = 1, a = 2}`, `{o.a = 1}`, `m.a`, `l[*]`,
	`true ? 1 : !"x"`, `true ? 1 : "${null}x"`, `[for v in [] : v if null]`, `sum(st...)`,
}

// Props/C01.v c01_examples, and the corpus of the evaluator correspondence
var examples = []string{
	`1 + 2 * 3`, `"a${1}b"`, `true ? 1 : "a"`, `[for v in [1,2,3] : v * 2 if v != 2]`,
	`{for k, v in {a = 1, b = 2} : v => k...}`, `[{a=1},{a=2}][*].a`, `sum(1, 2, 3)`, `first([1,2]...)`,
	`"%{ for x in [1,2] }${x}%{ endfor }"`, `l[1]`, `o.a`, `!true || false && true`, `false ? l[7] : 0`, `"a" + 1`,
	`[1,2,3][*]`, `null`, `upper("abc")`, `{a = 1}.a`, `[1,2][5]`, `{a = 1}["b"]`, `"x" == 1`, `5 % 3`, `-(1)`, `"${true}"`,
	`"%{ if true }y%{ else }n%{ endif }"`, `null == null`, `[null][0]`, `{(null) = 1}`, `true ? null : 1`,
	`true ? [1] : ["a"]`, `fail("x")`, `nosuchfn(1)`, `pair("a", null)`, `isnull(null)`, `[for v in null : v]`,
	`[for v in 1 : v]`, `{for v in ["a","a"] : v => 1}`, `"1" + 1`, `1 < "2"`, `null + 1`, `l.0`, `"abc".x`,
	`[{a=1},{a=2}].*.a`, `null[*]`, `1[*]`, `true ? {a=1} : {b=2}`, `true ? [1] : [1, 2]`, `"1e3" + 0`,
	`1 - 2 - 3`, `8 / 4 / 2`, `2 * 3 % 4`, `1 < 2 == 2 < 3`, `true || false && false`, `1 + 1 == 2 && 2 * 2 != 5`,
	`false ? 1 : true ? 2 : 3`, `-2 * 3`, `!false == true`, `<<EOT` + "\n" + `  hello ${o.a}` + "\n" + `EOT` + "\n",
	`<<-EOT` + "\n" + `    a` + "\n" + `      b ${1 + 1}` + "\n" + `    EOT` + "\n", `"x${~ " y " ~}z"`, `"a ${~ 1} b"`,
}

var templateExamples = []string{
	`hello ${o.a}!`, `${true}`, `${"${true}"}`, `hello ${true}`, `${""}${true}`, `%{ for v in [true] }${v}%{ endfor }`,
	`%{ if true ~} hello %{~ endif }`, `hello ${~ "world" }`, `${"hello" ~}${" world"}`, `$${literal} %%{literal}`,
	`%{ if false }a%{ else }b%{ endif }`, `${null}`, `x${null}`,
}

var zeroExpr, _ = hclsyntax.ParseExpression([]byte("null"), "z.hcl", hcl.InitialPos)

func scopeRisk(ctx *hcl.EvalContext) int { return hv.NumRisk(zeroExpr, ctx) }

type job struct {
	ref   *trefCase  // template reference oracle: the expectation computed from the generated tree
	want  *cty.Value // hand case of the template reference oracle
	text  string
	full  string // the reference printer's rendering ("" = no precedence oracle)
	ctx   *hcl.EvalContext
	tmpl  bool // parse with ParseTemplate
	label string
}

func parse(text string, tmpl bool) (hclsyntax.Expression, hcl.Diagnostics) {
	if tmpl {
		return hclsyntax.ParseTemplate([]byte(text), "e.hcl", hcl.InitialPos)
	}
	return hclsyntax.ParseExpression([]byte(text), "e.hcl", hcl.InitialPos)
}

func summaries(d hcl.Diagnostics) string {
	var s []string
	for _, x := range d {
		s = append(s, fmt.Sprintf("%d:%s", x.Severity, x.Summary))
	}
	return strings.Join(s, "|")
}

const specTail = `Set Printing Width 1000000.
Definition c01v := Eval vm_compute in c01_verdicts cases.
Definition spec_bad := Eval vm_compute in map (fun i => base_index + i) (c01_bad c01v).
Print spec_bad.
Definition spec_applicable := Eval vm_compute in map (fun i => base_index + i) (c01_applicable c01v).
Print spec_applicable.
Definition spec_dev := Eval vm_compute in map (fun p => (base_index + fst p, snd p)) (c01_dev c01v).
Print spec_dev.
Definition spec_other := Eval vm_compute in map (fun p => (base_index + fst p, snd p)) (c01_other c01v).
Print spec_other.
Definition spec_excluded_agree := Eval vm_compute in map (fun p => (base_index + fst p, snd p)) (c01_excluded_agree c01v).
Print spec_excluded_agree.
`

func run(cfg *hv.RunCfg) error {
	rep := hv.NewReport("C01", cfg.Seed)
	rep.Rule = "source text of expressions and templates generated over the whole native expression grammar (operator chains of mixed precedence without redundant parentheses, conditionals incl. nested, tuple/object constructors, index / attribute / legacy index, both splats, for expressions with grouping and filter, calls incl. variadic and `...`, quoted / heredoc / flush-heredoc templates and stand-alone templates with interpolation, strip markers, if/else and for directives), typed loosely for a generated scope of 1-3 frames (about 72% wholly known and unmarked, the rest with unknown / marked values); parsed by hclsyntax.ParseExpression / ParseTemplate and evaluated by Value; non-trivial = parses and has at least one operator / traversal / call / template / collection node; distinct by SHA-256 of (scope, text)"
	r := hv.NewRng(cfg.Seed, 201)
	cf := &hv.CaseFile{Dir: cfg.Out, Name: "c01cases",
		Imports: "From Coq Require Import QArith String.\nFrom HclV Require Import Base.Prelude Cty.Values Cty.Convert Cty.Ops Eval.Impl Eval.Funcs Eval.EvalCheck Eval.Spec Eval.SpecRefines Eval.SpecCheck.",
		Ctype:   "ecase", Checker: "check_eval_cases", Extras: [][2]string{{"skipped", "skipped_eval_cases"}}}

	var jobs []job
	if cfg.Replay != "" {
		b, err := os.ReadFile(cfg.Replay)
		if err != nil {
			return err
		}
		// replay: "text" or "text   ## ..." as recorded in the case index; the witness scope is used
		txt := string(b)
		if i := strings.Index(txt, trefMark); i >= 0 {
			// a recorded failure of the template reference oracle: source and expectation
			if e, ok := decodeExpect(txt[i+len(trefMark):]); ok {
				c := trefCase{src: txt[:i], form: "replay", spec: e, byLine: e}
				jobs = append(jobs, job{text: c.src, ctx: refCtx(), ref: &c, label: "replay"})
			}
		} else {
			if i := strings.Index(txt, "   ## "); i >= 0 {
				txt = txt[:i]
			}
			jobs = append(jobs, job{text: txt, ctx: witnessCtx(), label: "replay"})
		}
	} else {
		for _, w := range witnesses {
			jobs = append(jobs, job{text: w, ctx: witnessCtx(), label: "corpus:witness"})
		}
		jobs = append(jobs, job{text: `probe(null)`, ctx: probeCtx(), label: "corpus:witness"})
		for _, e := range examples {
			jobs = append(jobs, job{text: e, ctx: witnessCtx(), label: "corpus:example"})
		}
		for _, e := range templateExamples {
			jobs = append(jobs, job{text: e, ctx: witnessCtx(), tmpl: true, label: "corpus:template"})
		}
		for _, h := range trefHand {
			w := h.want
			jobs = append(jobs, job{text: h.src, ctx: refCtx(), want: &w, label: "corpus:template-reference"})
		}
		feat := map[string]int{}
		tg := &tgen{r: hv.NewRng(cfg.Seed, 202), feat: feat}
		for i := 0; i < cfg.N; i++ {
			if r.Intn(100) < 30 { // template reference oracle: independent of the template parser
				c := tg.gen()
				jobs = append(jobs, job{text: c.src, ctx: refCtx(), ref: &c, label: "stream:template-reference"})
				rep.Hist("scope:known-unmarked")
				continue
			}
			eg := hv.NewEvalGen(r)
			switch x := r.Intn(100); {
			case x < 72:
				eg.Unknowns, eg.Marks, eg.Nulls = 0, 0, 0.03 // wholly known, unmarked: the theorem's hypothesis
				rep.Hist("scope:known-unmarked")
			case x < 82:
				eg.Unknowns, eg.Marks, eg.Nulls = 0.15, 0, 0.03
				rep.Hist("scope:with-unknowns")
			case x < 92:
				eg.Unknowns, eg.Marks, eg.Nulls = 0, 0.2, 0.03
				rep.Hist("scope:with-marks")
			default:
				eg.Unknowns, eg.Marks, eg.Nulls = 0.1, 0.1, 0.05
				rep.Hist("scope:with-unknowns-and-marks")
			}
			ctx := eg.GenScope()
			// numbers outside the model's exact domain in the SCOPE would put the whole case into
			// type-only / skipped mode: draw again (a few inexact scopes are kept on purpose)
			for try := 0; try < 6 && scopeRisk(ctx) > 0 && !r.Chance(0.1); try++ {
				ctx = eg.GenScope()
			}
			g := &gen{r: r, vars: eg.Vars, feat: feat}
			g.reset()
			var j job
			switch x := r.Intn(100); {
			case x < 26: // operator chains: precedence / associativity
				k := kind(r.Intn(3))
				var x pf
				if r.Chance(0.3) {
					x = g.condExpr(k)
				} else if k == kStr {
					x = g.opExpr(kBool)
				} else {
					x = g.opExpr(k)
				}
				j = job{text: x.p, full: x.f, label: "stream:operators"}
			case x < 46:
				x := g.exprPF(kind(r.Intn(6)))
				j = job{text: x.p, full: x.f, label: "stream:expression"}
			case x < 52:
				j = job{text: eg.GenTopExpr(), label: "stream:ceval-generator"}
				for k, v := range eg.Feat {
					feat["ceval:"+k] += v
				}
			case x < 61:
				j = job{text: g.quoted(), label: "stream:quoted-template"}
			case x < 69:
				h := g.heredoc()
				if r.Chance(0.3) {
					h = "[" + h + "]" // inside brackets, where newlines are insignificant
				}
				j = job{text: h, label: "stream:heredoc"}
			case x < 78:
				j = job{text: g.templateBody(true, ""), tmpl: true, label: "stream:standalone-template"}
			default:
				switch r.Intn(5) {
				case 0:
					j = job{text: g.forExpr(r.Chance(0.5))}
				case 1:
					j = job{text: g.splat()}
				case 2:
					j = job{text: g.call(kind(r.Intn(6)))}
				case 3:
					j = job{text: g.objectCons()}
				default:
					j = job{text: g.indexed(kind(r.Intn(6)))}
				}
				j.label = "stream:term"
			}
			j.ctx = ctx
			jobs = append(jobs, j)
		}
		for k, v := range feat {
			rep.Histogram[k] += v
		}
	}

	for _, j := range jobs {
		rep.Hist(j.label)
		expr, pd := parse(j.text, j.tmpl)
		if pd.HasErrors() {
			rep.Hist("parse-error")
			rep.Evaluations++
			continue
		}
		v, diags, p := evalSafe(expr, j.ctx)
		if p != nil {
			rep.Fail(hv.Failure{Kind: "panic", Detail: fmt.Sprint(p), Input: j.text})
			continue
		}
		// direct oracle: precedence and associativity against the reference printer
		if j.full != "" && j.full != j.text {
			rep.Hist("oracle:precedence-checked")
			fe, fd := parse(j.full, false)
			if fd.HasErrors() {
				rep.Fail(hv.Failure{Kind: "precedence-differs", Detail: "the fully parenthesised rendering does not parse: " + j.full + ": " + fd.Error(), Input: j.text})
			} else {
				fv, fdiags, fp := evalSafe(fe, j.ctx)
				switch {
				case fp != nil:
					rep.Fail(hv.Failure{Kind: "panic", Detail: fmt.Sprint(fp), Input: j.full})
				case summaries(diags) != summaries(fdiags) || !v.RawEquals(fv):
					rep.Fail(hv.Failure{Kind: "precedence-differs",
						Detail: fmt.Sprintf("as written: %s %q; as spec.md groups it, %s: %s %q", hv.DumpVal(v), summaries(diags), j.full, hv.DumpVal(fv), summaries(fdiags)),
						Input:  j.text})
				}
			}
		}
		// direct oracle: templates against the reference computed from the generated tree
		if j.want != nil && (diags.HasErrors() || !v.RawEquals(*j.want)) {
			rep.Fail(hv.Failure{Kind: "template-differs-from-reference",
				Detail: fmt.Sprintf("hand case: evaluates to %s, hclsyntax/spec.md § Templates gives %s", describe(v, diags), hv.DumpVal(*j.want)),
				Input:  j.text + trefMark + encodeExpect(texpect{val: *j.want})})
		}
		if j.ref != nil {
			rep.Hist("oracle:template-reference-checked")
			switch {
			case sameOutcome(j.ref.spec, v, diags):
			case sameOutcome(j.ref.byLine, v, diags):
				kind := "template-strip-marker-limited-to-heredoc-line"
				if j.ref.form == "flush" {
					kind = "template-flush-heredoc-strip-marker-interplay"
				}
				rep.Fail(hv.Failure{Kind: kind,
					Detail: fmt.Sprintf("evaluates to %s; the specification (strip markers act on the whole adjacent literal, indentation is removed from every line-leading literal) gives %s", describe(v, diags), j.ref.spec), Input: j.text})
			default:
				rep.Fail(hv.Failure{Kind: "template-differs-from-reference",
					Detail: fmt.Sprintf("evaluates to %s; hclsyntax/spec.md § Templates gives %s (%s form)", describe(v, diags), j.ref.spec, j.ref.form),
					Input:  j.text + trefMark + encodeExpect(j.ref.spec)})
			}
		}
		info := &hv.ValInfo{}
		ctxs := hv.CoqCtx(j.ctx, info)
		es := hv.CoqExpr(expr, info)
		vs := hv.CoqVal(v, info)
		mode := 0
		risk := hv.NumRisk(expr, j.ctx)
		if info.Inexact || risk == 1 {
			mode = 1
			rep.Hist("mode:type-only(inexact number)")
		}
		if risk == 2 {
			mode = 2
			rep.Hist("mode:skipped(infinity or division by zero)")
		}
		if info.Unsupported {
			mode = 2
			rep.Hist("mode:skipped(outside value universe)")
		}
		cf.Add(fmt.Sprintf("mkCase %s\n  %s\n  %d %s %s\n  %s", ctxs, es, mode, vs, hv.CoqDiagSummaries(diags), hv.CoqTraversals(expr.Variables(), info)))
		kindTag := "expr: "
		if j.tmpl {
			kindTag = "template: "
		}
		rep.Idx(kindTag + j.text + "   ## ctx: " + strings.ReplaceAll(ctxs, "\n", " "))
		rep.Count(j.text+ctxs, len(j.text) > 3)
		if diags.HasErrors() {
			rep.Hist("result:error")
		} else if !v.IsWhollyKnown() {
			rep.Hist("result:unknown")
		} else {
			rep.Hist("result:known")
		}
		if len(j.text) < 80 {
			rep.Sample(j.text)
		}
	}
	names, err := cf.Flush(150)
	if err != nil {
		return err
	}
	// the specification oracle: further lists printed by every case file
	for _, n := range names {
		f, err := os.OpenFile(filepath.Join(cfg.Out, n), os.O_APPEND|os.O_WRONLY, 0o644)
		if err != nil {
			return err
		}
		if _, err := f.WriteString(specTail); err != nil {
			return err
		}
		f.Close()
	}
	rep.CaseFiles = names
	rep.Notes = append(rep.Notes,
		"each case file prints `bad` (Impl model / Go disagreements, must be []), `spec_bad` (Go differs from spec_eval outside every excluded shape: contradicts impl_refines_spec, must be []), `spec_applicable` (cases meeting all hypotheses of the theorem), `spec_dev` / `spec_other` / `spec_excluded_agree` : list (Z * Z) = [(case index, deviation code of Eval/SpecCheck.v)]")
	return rep.Write(cfg.Out)
}
