package main

// Decoding an expanded body in SEVERAL STEPS, with names reused across nesting levels.
//
// "A body containing dynamic blocks decodes, under any specification, to the same value
// as the written-out body" also holds when the specification is applied in parts:
// hcldec.PartialDecode with the first part, PartialDecode / Decode of the REMAINING body
// with the next one, and so on (applications with "meta arguments", gohcl `remain`
// fields, Body.PartialContent + Content by hand).  What an earlier step consumed at the
// outer level (attribute names, block types) is hidden from the later steps at THAT
// level only: a nested attribute or block of the same name, in a static child or in a
// generated block at any depth, is untouched.
//
// This file has
//   - the history type mPlan: per level of the specification tree a list of steps, each
//     a PartialContent or a Content call with part of the level's names; below a step the
//     bodies of its blocks are read with plans of their own (mostly one Content step, as
//     hcldec does; sometimes two steps again, so that remaining bodies of CHILD bodies and
//     children of those occur too);
//   - the generator stream `multi-step` (stream 210000+idx): specification trees whose
//     attribute names and block types come from one small pool at EVERY level, so that a
//     nested name nearly always equals a name consumed by an earlier outer step;
//   - the observation of a history on a real body (for the Coq correspondence, type
//     gmtree of Dyn/ExpandCheck.v) and the hcldec chain;
//   - the direct oracle: the value of every part equals (a) the value of the same part
//     decoded with the same step sequence from the harness-unrolled text, (b) the
//     corresponding attribute of the ONE-step decode of the unrolled text, (c) the
//     corresponding attribute of the one-step decode of the expanded body; diagnostics
//     per step equal modulo ranges and details; the by-hand PartialContent/Content
//     history observes the same on the expanded and on the unrolled body.
//     (a), (b) and the by-hand comparison do not use dynblock for the expectation.
//     It runs on EVERY case of every stream (with a plan drawn from the case's own plan
//     stream 220000+idx); only the cases of the multi-step stream carry their histories
//     to the Coq checker.

import (
	"fmt"
	"sort"
	"strings"

	"github.com/hashicorp/hcl/v2"
	"github.com/hashicorp/hcl/v2/ext/dynblock"
	"github.com/hashicorp/hcl/v2/hcldec"
	"github.com/hashicorp/hcl/v2/hclsyntax"
	"github.com/zclconf/go-cty/cty"
	"hclverif/hv"
)

// ---- histories ------------------------------------------------------------------------------

type mBlock struct {
	Def *blockDef
	Sub *mPlan // nil: read with JustAttributes (BlockAttrsSpec)
}

type mStep struct {
	Partial bool
	Attrs   []attrDef
	Blocks  []mBlock
}

type mPlan struct {
	Steps []mStep
}

func (s *mStep) schema() *hcl.BodySchema {
	out := &hcl.BodySchema{}
	for _, a := range s.Attrs {
		out.Attributes = append(out.Attributes, hcl.AttributeSchema{Name: a.Name, Required: a.Required})
	}
	for _, b := range s.Blocks {
		out.Blocks = append(out.Blocks, hcl.BlockHeaderSchema{Type: b.Def.Type, LabelNames: b.Def.LabelNames})
	}
	return out
}

func (s *mStep) block(t string) *mBlock {
	for i := len(s.Blocks) - 1; i >= 0; i-- {
		if s.Blocks[i].Def.Type == t {
			return &s.Blocks[i]
		}
	}
	return nil
}

// the part of the specification a top-level step decodes: the same keys as specNode.spec()
func (s *mStep) spec() hcldec.Spec {
	n := &specNode{Attrs: s.Attrs}
	for _, b := range s.Blocks {
		n.Blocks = append(n.Blocks, *b.Def)
	}
	return n.spec()
}

func (s *mStep) keys() []string {
	var ks []string
	for _, a := range s.Attrs {
		ks = append(ks, a.Name)
	}
	for _, b := range s.Blocks {
		ks = append(ks, "blk_"+b.Def.Type)
	}
	return ks
}

func (p *mPlan) describe() string {
	var parts []string
	for _, s := range p.Steps {
		var ns []string
		for _, a := range s.Attrs {
			ns = append(ns, a.Name)
		}
		for _, b := range s.Blocks {
			sub := ""
			if b.Sub != nil && len(b.Sub.Steps) > 1 {
				sub = b.Sub.describe()
			}
			ns = append(ns, b.Def.Type+"{}"+sub)
		}
		call := "Content"
		if s.Partial {
			call = "PartialContent"
		}
		parts = append(parts, call+"("+strings.Join(ns, " ")+")")
	}
	return "[" + strings.Join(parts, " ; ") + "]"
}

// Coq term of type msch (Dyn/ExpandCheck.v)
func (p *mPlan) coq() string {
	if p == nil {
		return "MJust"
	}
	var steps []string
	for _, s := range p.Steps {
		var as, bs []string
		for _, a := range s.Attrs {
			as = append(as, "("+hv.CoqStr(a.Name)+", "+hv.CoqBool(a.Required)+")")
		}
		for _, b := range s.Blocks {
			bs = append(bs, fmt.Sprintf("(%s, %d, %s)", hv.CoqStr(b.Def.Type), len(b.Def.LabelNames), b.Sub.coq()))
		}
		steps = append(steps, fmt.Sprintf("(%s, %s, %s)", hv.CoqBool(s.Partial), hv.CoqList(as), hv.CoqList(bs)))
	}
	return "(MSch " + hv.CoqList(steps) + ")"
}

// the plan of a nested body: one Content step (what hcldec does), or — with probability
// split — PartialContent with some of the names and Content of the rest
func nestedPlan(n *specNode, r *hv.Rng, split float64) *mPlan {
	if n == nil {
		return nil
	}
	two := len(n.Attrs)+len(n.Blocks) >= 2 && r.Chance(split)
	steps := []mStep{{Partial: two}}
	if two {
		steps = append(steps, mStep{})
	}
	put := func() *mStep {
		if two && r.Chance(0.5) {
			return &steps[1]
		}
		return &steps[0]
	}
	for _, a := range n.Attrs {
		s := put()
		s.Attrs = append(s.Attrs, a)
	}
	for i := range n.Blocks {
		s := put()
		s.Blocks = append(s.Blocks, mBlock{Def: &n.Blocks[i], Sub: nestedPlan(n.Blocks[i].Nested, r, split)})
	}
	return &mPlan{Steps: steps}
}

// makePlans splits the top-level names of the specification into 2-3 parts and returns the
// history that consumes them in that order and the one with the opposite order.  All steps
// but the last are PartialContent / PartialDecode; the last is Content / Decode, or, for
// lastPartial, partial as well.
func makePlans(n *specNode, r *hv.Rng, split float64) []*mPlan {
	total := len(n.Attrs) + len(n.Blocks)
	k := 2
	if total >= 3 && r.Chance(0.4) {
		k = 3
	}
	// every part non-empty when there are enough names: a random surjection
	assign := make([]int, total)
	for i := range assign {
		assign[i] = r.Intn(k)
	}
	if total >= k {
		perm := r.Perm(total)
		for j := 0; j < k; j++ {
			assign[perm[j]] = j
		}
	}
	lastPartial := r.Chance(0.3)
	parts := make([]mStep, k)
	for i, a := range n.Attrs {
		p := &parts[assign[i]]
		p.Attrs = append(p.Attrs, a)
	}
	for i := range n.Blocks {
		p := &parts[assign[len(n.Attrs)+i]]
		p.Blocks = append(p.Blocks, mBlock{Def: &n.Blocks[i], Sub: nestedPlan(n.Blocks[i].Nested, r, split)})
	}
	mk := func(order []int) *mPlan {
		pl := &mPlan{}
		for i, j := range order {
			s := parts[j]
			s.Partial = i < len(order)-1 || lastPartial
			pl.Steps = append(pl.Steps, s)
		}
		return pl
	}
	fwd := make([]int, k)
	rev := make([]int, k)
	for i := range fwd {
		fwd[i] = i
		rev[i] = k - 1 - i
	}
	return []*mPlan{mk(fwd), mk(rev)}
}

// names consumed by an earlier top-level step that occur again (as an attribute name / a
// block type) below a block of a LATER step: the specification-level precondition of the
// defect class
func (p *mPlan) reuse() (attr, block bool) {
	seenA, seenB := map[string]bool{}, map[string]bool{}
	var walk func(n *specNode)
	walk = func(n *specNode) {
		if n == nil {
			return
		}
		for _, a := range n.Attrs {
			if seenA[a.Name] {
				attr = true
			}
		}
		for _, b := range n.Blocks {
			if seenB[b.Type] {
				block = true
			}
			walk(b.Nested)
		}
	}
	for _, s := range p.Steps {
		for _, b := range s.Blocks {
			walk(b.Def.Nested)
		}
		for _, a := range s.Attrs {
			seenA[a.Name] = true
		}
		for _, b := range s.Blocks {
			seenB[b.Def.Type] = true
		}
	}
	return
}

// ---- observation of a history on a real body ------------------------------------------------------------

type mObsBlock struct {
	Type   string
	Labels []string
	Sub    *mObs
}
type mObsStep struct {
	Err     bool
	Attrs   []obsAttr
	Blocks  []mObsBlock
	Marks   cty.ValueMarks // of the body the call was made on
	Unknown bool
}
type mObs struct {
	Steps []mObsStep
}

func observeM(body hcl.Body, p *mPlan, rho *hcl.EvalContext) *mObs {
	if p == nil {
		j := observeJust(body, rho)
		return &mObs{Steps: []mObsStep{{Err: j.Err, Attrs: j.Attrs, Marks: j.Marks, Unknown: j.Unknown}}}
	}
	out := &mObs{}
	cur := body
	for i := range p.Steps {
		s := &p.Steps[i]
		schema := s.schema()
		var content *hcl.BodyContent
		var diags hcl.Diagnostics
		st := mObsStep{Marks: bodyMarks(cur), Unknown: bodyUnknown(cur)}
		if s.Partial {
			var remain hcl.Body
			content, remain, diags = cur.PartialContent(schema)
			cur = remain
		} else {
			content, diags = cur.Content(schema)
		}
		st.Err = diags.HasErrors()
		st.Attrs = evalAttrs(inSchemaOrder(schema, content.Attributes), rho)
		for _, blk := range content.Blocks {
			ob := mObsBlock{Type: blk.Type, Labels: blk.Labels}
			if mb := s.block(blk.Type); mb != nil {
				ob.Sub = observeM(blk.Body, mb.Sub, rho)
			} else {
				ob.Sub = &mObs{}
			}
			st.Blocks = append(st.Blocks, ob)
		}
		out.Steps = append(out.Steps, st)
	}
	return out
}

// Coq term of type gmtree
func (t *mObs) coq(info *hv.ValInfo) string {
	var steps []string
	for _, s := range t.Steps {
		var bs []string
		for _, b := range s.Blocks {
			bs = append(bs, fmt.Sprintf("(%s, %s, %s)", hv.CoqStr(b.Type), coqLabels(b.Labels), b.Sub.coq(info)))
		}
		steps = append(steps, fmt.Sprintf("(%s, %s,\n   %s, %s, %s)", hv.CoqBool(s.Err), coqObsAttrs(s.Attrs, info), hv.CoqList(bs), hv.CoqMarks(s.Marks), hv.CoqBool(s.Unknown)))
	}
	return "(GM " + hv.CoqList(steps) + ")"
}

// canonical text for comparisons on the Go side.  cumulative: the error flag of a step says
// whether this step OR an earlier step of the same body reported an error.  (An expanded
// body repeats, in every later step, the label-count error of a static block whose type an
// earlier step consumed — extendSchema puts the hidden header back into the schema given to
// the native body — where the native body reports it once; the steps together fail in both.)
func (t *mObs) dump(cumulative bool) string {
	var b strings.Builder
	b.WriteString("<")
	soFar := false
	for i, s := range t.Steps {
		if i > 0 {
			b.WriteString(" ;")
		}
		soFar = soFar || s.Err
		e := s.Err
		if cumulative {
			e = soFar
		}
		fmt.Fprintf(&b, "{err=%v marks=%s unk=%v", e, hv.CoqMarks(s.Marks), s.Unknown)
		for _, a := range s.Attrs {
			fmt.Fprintf(&b, " %s=%s/%v", a.Name, hv.DumpVal(a.Val), a.Diags.HasErrors())
		}
		for _, blk := range s.Blocks {
			fmt.Fprintf(&b, " %s%q%s", blk.Type, blk.Labels, blk.Sub.dump(cumulative))
		}
		b.WriteString("}")
	}
	b.WriteString(">")
	return b.String()
}

// does a step after the first expose, BELOW its own level, an attribute or a block whose
// name an earlier step of the top level consumed?  (the body-level precondition)
func (t *mObs) reuseObserved(p *mPlan) bool {
	seenA, seenB := map[string]bool{}, map[string]bool{}
	var below func(o *mObs) bool
	below = func(o *mObs) bool {
		for _, s := range o.Steps {
			for _, a := range s.Attrs {
				if seenA[a.Name] {
					return true
				}
			}
			for _, b := range s.Blocks {
				if seenB[b.Type] || below(b.Sub) {
					return true
				}
			}
		}
		return false
	}
	for i, s := range t.Steps {
		for _, b := range s.Blocks {
			if below(b.Sub) {
				return true
			}
		}
		if i < len(p.Steps) {
			for _, a := range p.Steps[i].Attrs {
				seenA[a.Name] = true
			}
			for _, b := range p.Steps[i].Blocks {
				seenB[b.Def.Type] = true
			}
		}
	}
	return false
}

// ---- the hcldec chain ------------------------------------------------------------------------------------

type chainStep struct {
	Val   cty.Value
	Diags hcl.Diagnostics
}

// PartialDecode part after part over the chain of remaining bodies; the last step is
// Decode unless the plan says partial
func runChain(body hcl.Body, p *mPlan, ctx *hcl.EvalContext) (out []chainStep, pan any) {
	defer func() { pan = recover() }()
	cur := body
	for i := range p.Steps {
		s := &p.Steps[i]
		spec := s.spec()
		if s.Partial {
			v, rem, d := hcldec.PartialDecode(cur, spec, ctx)
			out = append(out, chainStep{v, d})
			cur = rem
		} else {
			v, d := hcldec.Decode(cur, spec, ctx)
			out = append(out, chainStep{v, d})
		}
	}
	return
}

// diagnostics modulo ranges (and details, which quote iterator names): severity + summary
func diagKeys(ds hcl.Diagnostics) string {
	var ks []string
	for _, d := range ds {
		sev := "E"
		if d.Severity != hcl.DiagError {
			sev = "W"
		}
		ks = append(ks, sev+":"+d.Summary)
	}
	sort.Strings(ks)
	return strings.Join(ks, " | ")
}

// the same as a set, over the steps up to and including step i
func diagSetUpTo(steps []chainStep, i int) string {
	set := map[string]bool{}
	for _, st := range steps[:i+1] {
		for _, d := range st.Diags {
			sev := "E"
			if d.Severity != hcl.DiagError {
				sev = "W"
			}
			set[sev+":"+d.Summary] = true
		}
	}
	return strings.Join(hv.SortedKeys(set), " | ")
}

func attrOf(v cty.Value, key string) (cty.Value, bool) {
	if v == cty.NilVal || v.IsMarked() || !v.IsKnown() || v.IsNull() || !v.Type().IsObjectType() || !v.Type().HasAttribute(key) {
		return cty.NilVal, false
	}
	return v.GetAttr(key), true
}

// multiStepOracle: see the head of the file.  v1/d1: the one-step decode of the expanded body.
func multiStepOracle(c *genCase, body hcl.Body, v1 cty.Value, d1 hcl.Diagnostics, rep *hv.Report, fail func(kind, detail string)) {
	if len(c.Plans) == 0 {
		return
	}
	conf := conformance(c.Items, c.Spec, false)
	// the written-out text (the harness's own unroller) and its one-step decode
	var ubody hcl.Body
	var uctx *hcl.EvalContext
	var vU cty.Value
	var utext string
	if conf == "" {
		u := &unroller{ectx: c.ECtx, bindings: map[string]cty.Value{}}
		var ub strings.Builder
		u.items(c.Items, map[string]string{}, "", &ub, true)
		if u.stuck == "" {
			if uf, upd := hclsyntax.ParseConfig([]byte(ub.String()), "unrolled.hcl", hcl.InitialPos); !upd.HasErrors() {
				uctx = c.DCtx.NewChild()
				uctx.Variables = map[string]cty.Value{}
				for k, v := range u.bindings {
					uctx.Variables[k] = v
				}
				v, _, p := decodeSafe(uf.Body, c.Spec.spec(), uctx)
				if p == nil {
					ubody, vU, utext = uf.Body, v, ub.String()
				}
			}
		}
	}
	for pi, plan := range c.Plans {
		tag := fmt.Sprintf("history %d %s", pi, plan.describe())
		stream := "any-stream"
		if c.Multi {
			stream = "multi-step-stream"
		}
		chainE, pan := runChain(dynblock.Expand(body, c.ECtx), plan, c.DCtx)
		if pan != nil {
			fail("panic", fmt.Sprintf("%s: PartialDecode chain on the expanded body panicked: %v", tag, pan))
			continue
		}
		var obsE *mObs
		func() {
			defer func() { pan = recover() }()
			obsE = observeM(dynblock.Expand(body, c.ECtx), plan, c.DCtx)
		}()
		if pan != nil {
			fail("panic", fmt.Sprintf("%s: PartialContent chain on the expanded body panicked: %v", tag, pan))
			continue
		}
		if obsE.reuseObserved(plan) {
			rep.Hist("multi:nested-name-consumed-by-earlier-outer-step(observed," + stream + ")")
		}
		// (c) against the one-step decode of the same expanded body
		ok := true
		anyErr := false
		for i, st := range chainE {
			anyErr = anyErr || st.Diags.HasErrors()
			for _, key := range plan.Steps[i].keys() {
				got, g1 := attrOf(st.Val, key)
				want, g2 := attrOf(v1, key)
				if !g1 || !g2 {
					ok = false
					fail("multi-step-differs-from-one-step", fmt.Sprintf("%s step %d: no attribute %q in %s / one-step %s", tag, i, key, hv.DumpVal(st.Val), hv.DumpVal(v1)))
					break
				}
				if hv.DumpVal(got) != hv.DumpVal(want) {
					ok = false
					fail("multi-step-differs-from-one-step", fmt.Sprintf("%s step %d: %q decodes to %s from the chain of remaining bodies, to %s in one step", tag, i, key, hv.DumpVal(got), hv.DumpVal(want)))
					break
				}
			}
		}
		last := plan.Steps[len(plan.Steps)-1]
		if ok && (anyErr && !d1.HasErrors() || !last.Partial && anyErr != d1.HasErrors()) {
			ok = false
			fail("multi-step-differs-from-one-step", fmt.Sprintf("%s: errors in the chain %v, in one step %v (%s)", tag, anyErr, d1.HasErrors(), diagKeys(d1)))
		}
		if ok {
			rep.Hist("oracle:multi-step==one-step(" + stream + ")")
		}
		// (a), (b) against the written-out text
		if ubody == nil {
			continue
		}
		chainU, pan := runChain(ubody, plan, uctx)
		if pan != nil {
			rep.Hist("oracle:multi-step-unrolled-decode-panics")
			continue
		}
		ok = true
		for i, st := range chainE {
			if hv.DumpVal(st.Val) != hv.DumpVal(chainU[i].Val) {
				ok = false
				fail("multi-step-differs-from-unroll", fmt.Sprintf("%s step %d:\nexpanded: %s\nunrolled: %s\nunrolled text:\n%s", tag, i, hv.DumpVal(st.Val), hv.DumpVal(chainU[i].Val), utext))
				break
			}
			for _, key := range plan.Steps[i].keys() {
				got, g1 := attrOf(st.Val, key)
				want, g2 := attrOf(vU, key)
				if !g1 || !g2 || hv.DumpVal(got) != hv.DumpVal(want) {
					ok = false
					fail("multi-step-differs-from-unroll", fmt.Sprintf("%s step %d: %q decodes to %s from the chain of remaining bodies of the expanded body; the written-out body decodes in one step to %s\nunrolled text:\n%s", tag, i, key, hv.DumpVal(st.Val), hv.DumpVal(vU), utext))
					break
				}
			}
			if !ok {
				break
			}
			if diagKeys(st.Diags) != diagKeys(chainU[i].Diags) {
				// the kinds of diagnostics reported so far must agree; an expanded body may
				// repeat one of an earlier step (see mObs.dump)
				if diagSetUpTo(chainE, i) != diagSetUpTo(chainU, i) {
					ok = false
					fail("multi-step-diagnostics-differ-from-unroll", fmt.Sprintf("%s step %d:\nexpanded: %s\nunrolled: %s\nunrolled text:\n%s", tag, i, diagKeys(st.Diags), diagKeys(chainU[i].Diags), utext))
					break
				}
				rep.Hist("multi:later-step-repeats-diagnostic-of-earlier-step(expanded body only)")
			}
		}
		if ok {
			var obsU *mObs
			func() {
				defer func() { pan = recover() }()
				obsU = observeM(ubody, plan, uctx)
			}()
			if pan == nil && obsE.dump(true) != obsU.dump(true) {
				ok = false
				fail("multi-step-differs-from-unroll", fmt.Sprintf("%s: PartialContent / Content by hand\nexpanded: %s\nunrolled: %s\nunrolled text:\n%s", tag, obsE.dump(true), obsU.dump(true), utext))
			} else if pan == nil && obsE.dump(false) != obsU.dump(false) {
				rep.Hist("multi:later-step-repeats-error-of-earlier-step(expanded body only, by hand)")
			}
		}
		if ok {
			// gohcl: structs with `remain` fields (gohclremain.go)
			gE, pE := gohclChain(dynblock.Expand(body, c.ECtx), plan, c.DCtx)
			gU, pU := gohclChain(ubody, plan, uctx)
			switch {
			case pE != nil && pU == nil:
				ok = false
				fail("panic", fmt.Sprintf("%s: gohcl.DecodeBody chain on the expanded body panicked: %v", tag, pE))
			case pE != nil || pU != nil || len(gE) != len(gU):
				rep.Hist("oracle:multi-step-gohcl-n/a")
			default:
				errE, errU := false, false
				for i := range gE {
					errE, errU = errE || gE[i].Err, errU || gU[i].Err
					if gE[i].Dump != gU[i].Dump || errE != errU {
						ok = false
						fail("multi-step-differs-from-unroll", fmt.Sprintf("%s step %d: gohcl.DecodeBody with a `remain` field\nexpanded: errors=%v %s\nunrolled: errors=%v %s\nunrolled text:\n%s", tag, i, errE, gE[i].Dump, errU, gU[i].Dump, utext))
						break
					}
				}
				if ok {
					rep.Hist("oracle:multi-step-gohcl-remain==unroll(" + stream + ")")
				}
			}
		}
		if ok {
			rep.Hist("oracle:multi-step==unroll(" + stream + ")")
		}
	}
}

// ---- the generator stream ---------------------------------------------------------------------------------

// one pool for every level
var msAttrPool = []string{"name", "id", "p", "q"}
var msTypePool = []string{"meta", "service", "a", "b"}

func (g *bodyGen) msSpec(level, depth int, dynOK bool) *specNode {
	r := g.r
	n := &specNode{}
	na := 1 + r.Intn(3)
	if level == 0 {
		na = 2 + r.Intn(2)
	}
	pa := r.Perm(len(msAttrPool))
	for i := 0; i < na; i++ {
		ty := cty.String
		switch r.Intn(7) {
		case 0:
			ty = cty.Number
		case 1:
			if dynOK {
				ty = cty.DynamicPseudoType
			}
		}
		n.Attrs = append(n.Attrs, attrDef{msAttrPool[pa[i]], ty, r.Chance(0.15)})
	}
	if level >= depth {
		return n
	}
	nb := 1 + r.Small(2)
	if level == 0 {
		nb = 2 + r.Intn(2)
	}
	pt := r.Perm(len(msTypePool))
	for i := 0; i < nb; i++ {
		k := blockKind(r.Intn(7))
		if k == kAttrs && !r.Chance(0.35) {
			k = kList
		}
		if !dynOK && (k == kTuple || k == kObject) {
			k = []blockKind{kList, kSet, kMap, kSingle}[r.Intn(4)]
		}
		b := blockDef{Type: msTypePool[pt[i]], Kind: k}
		switch k {
		case kMap:
			b.LabelNames = []string{"key"}
		case kObject:
			b.LabelNames = []string{"key"}
			if r.Chance(0.3) {
				b.LabelNames = []string{"key", "sub"}
			}
		}
		if k != kAttrs {
			b.Nested = g.msSpec(level+1, depth, dynOK && (k == kSingle || k == kTuple || k == kObject))
		}
		n.Blocks = append(n.Blocks, b)
	}
	return n
}

func countDyn(items []gItem) int {
	n := 0
	for _, it := range items {
		switch {
		case it.Dyn != nil:
			n += 1 + countDyn(it.Dyn.Content)
		case it.Block != nil:
			n += countDyn(it.Block.Body)
		}
	}
	return n
}

func generateMulti(r *hv.Rng) *genCase {
	cg := &ctxGen{r: r}
	ectx := cg.gen()
	var g *bodyGen
	var spec *specNode
	var items []gItem
	var plans []*mPlan
	for try := 0; ; try++ {
		g = &bodyGen{r: r, cg: cg, feat: map[string]int{}, maxD: 1 + r.Intn(3), clean: r.Chance(0.7)}
		spec = g.msSpec(0, 1+r.Intn(2), true)
		items = g.genBody(spec, nil, 0)
		plans = makePlans(spec, r, 0.3)
		ra, rb := plans[0].reuse()
		ra2, rb2 := plans[1].reuse()
		if (countDyn(items) > 0 && (ra || rb || ra2 || rb2)) || try >= 6 {
			break
		}
	}
	if g.clean {
		g.f("mode:clean")
	} else {
		g.f("mode:mixed")
		if r.Chance(0.15) {
			items = g.mutate(items)
		}
	}
	g.f("shape:multi-step")
	g.f(fmt.Sprintf("multi:parts=%d", len(plans[0].Steps)))
	if plans[0].Steps[len(plans[0].Steps)-1].Partial {
		g.f("multi:final-step=PartialDecode")
	} else {
		g.f("multi:final-step=Decode")
	}
	for _, p := range plans {
		ra, rb := p.reuse()
		if ra {
			g.f("multi:spec-reuses-attribute-name-of-earlier-outer-step(histories)")
		}
		if rb {
			g.f("multi:spec-reuses-block-type-of-earlier-outer-step(histories)")
		}
	}
	var nestedSplit func(p *mPlan) bool
	nestedSplit = func(p *mPlan) bool {
		for _, s := range p.Steps {
			for _, b := range s.Blocks {
				if b.Sub != nil && (len(b.Sub.Steps) > 1 || nestedSplit(b.Sub)) {
					return true
				}
			}
		}
		return false
	}
	if nestedSplit(plans[0]) {
		g.f("multi:nested-body-read-in-two-steps")
	}
	dctx := ectx
	switch x := r.Intn(10); {
	case x < 2:
		g.f("ctx:decode-child")
		dctx = ectx.NewChild()
		dctx.Variables = map[string]cty.Value{"dv": cty.StringVal("D"), "v_str": cty.StringVal("decode-time")}
	default:
		g.f("ctx:same")
	}
	return &genCase{Spec: spec, Items: items, ECtx: ectx, DCtx: dctx, Feat: g.feat, Plans: plans, Multi: true}
}

// ---- hand corpus ------------------------------------------------------------------------------------------------

func multiCorpus() []corpusCase {
	str := func(n string) attrDef { return attrDef{n, cty.String, false} }
	metaLeaf := func() *specNode { return &specNode{Attrs: []attrDef{str("id")}} }
	return []corpusCase{
		// the shape of an application with meta arguments: `name` and `meta` taken first at the
		// outer level, then the services, which have a `name` and `meta` blocks of their own
		{"multi-step: outer name/meta consumed first, services have name and meta", &specNode{
			Attrs: []attrDef{{"name", cty.String, true}},
			Blocks: []blockDef{
				{"meta", kList, nil, metaLeaf()},
				{"service", kList, nil, &specNode{Attrs: []attrDef{str("name")}, Blocks: []blockDef{{"meta", kList, nil, metaLeaf()}}}},
			}}, []gItem{
			at("name", `"top"`),
			blk("meta", nil, at("id", `"m0"`)),
			blk("service", nil, at("name", `"static-first"`), blk("meta", nil, at("id", `"s0"`))),
			dyn("service", `["a", "b"]`, "", nil, at("name", `"dyn-${«service».value}"`),
				dyn("meta", `[«service».key]`, "", nil, at("id", `"d${«meta».value}"`))),
			blk("service", nil, at("name", `"static-last"`)),
		}},
		// the same type nested in itself, three levels, labels from the iterators
		{"multi-step: block type nested in itself below a later part", &specNode{
			Attrs: []attrDef{str("p"), str("q")},
			Blocks: []blockDef{
				{"a", kMap, []string{"key"}, &specNode{Attrs: []attrDef{str("p")}, Blocks: []blockDef{
					{"a", kList, nil, &specNode{Attrs: []attrDef{str("p"), str("q")}, Blocks: []blockDef{{"b", kList, nil, leaf("p")}}}}}}},
				{"b", kList, nil, leaf("q")},
			}}, []gItem{
			at("p", `"P"`), at("q", `"Q"`),
			dyn("b", `["x"]`, "", nil, at("q", "«b».value")),
			dyn("a", "m_str", "", []string{"«a».key"}, at("p", "«a».value"),
				dyn("a", `["i", "j"]`, "it", nil, at("p", "«it».value"), at("q", "«a».key"),
					dyn("b", `[«it».key]`, "", nil, at("p", `"${«a».key}-${«b».value}"`)))),
		}},
		// a BlockAttrsSpec body and a single block below the later part
		{"multi-step: JustAttributes body and single block reuse outer names", &specNode{
			Attrs: []attrDef{str("u"), str("id")},
			Blocks: []blockDef{
				{"meta", kAttrs, nil, nil},
				{"service", kSingle, nil, &specNode{Attrs: []attrDef{str("id")}, Blocks: []blockDef{{"meta", kAttrs, nil, nil}}}},
			}}, []gItem{
			at("u", `"U"`), at("id", `"I"`),
			blk("meta", nil, at("u", `"mu"`)),
			dyn("service", `["only"]`, "", nil, at("id", "«service».value"), blk("meta", nil, at("u", "«service».value"), at("id", `"x"`))),
		}},
	}
}

// the histories of a hand-corpus case: the attributes and the first block type, then the
// other block types; and the opposite order.  Nested bodies as in makePlans.
func positionalPlans(n *specNode, r *hv.Rng) []*mPlan {
	parts := make([]mStep, 2)
	parts[0].Attrs = n.Attrs
	for i := range n.Blocks {
		j := 1
		if i == 0 {
			j = 0
		}
		parts[j].Blocks = append(parts[j].Blocks, mBlock{Def: &n.Blocks[i], Sub: nestedPlan(n.Blocks[i].Nested, r, 0.3)})
	}
	a, b := parts[0], parts[1]
	a.Partial = true
	fwd := &mPlan{Steps: []mStep{a, b}}
	a, b = parts[0], parts[1]
	b.Partial = true
	return []*mPlan{fwd, {Steps: []mStep{b, a}}}
}
