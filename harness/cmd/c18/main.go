package main

// C18 — Dynamic blocks expand to exactly the blocks they describe.
//
// Correspondence: dynblock.Expand on generated bodies, observed level by level
// through Content / JustAttributes / PartialContent with the schemata of a hcldec
// specification, against the Coq model Dyn/Expand.v (and the reference Dyn/Unroll.v
// where it applies).  Direct oracle (real code only): see oracle.go.

import (
	"fmt"
	"os"
	"regexp"
	"strconv"
	"strings"

	"github.com/hashicorp/hcl/v2"
	"github.com/hashicorp/hcl/v2/ext/dynblock"
	"github.com/hashicorp/hcl/v2/hclsyntax"
	"github.com/zclconf/go-cty/cty"
	"hclverif/hv"
)

func main() { hv.Main(map[string]func(*hv.RunCfg) error{"c18": run}) }

// ---- hand corpus ------------------------------------------------------------------------------------

func strAttr(names ...string) []attrDef {
	var out []attrDef
	for _, n := range names {
		out = append(out, attrDef{n, cty.String, false})
	}
	return out
}
func leaf(names ...string) *specNode { return &specNode{Attrs: strAttr(names...)} }
func at(n, e string) gItem           { return gItem{Attr: &gAttr{n, e}} }
func blk(t string, labels []string, body ...gItem) gItem {
	return gItem{Block: &gBlock{t, labels, body}}
}
func dyn(t, fe, iter string, labels []string, content ...gItem) gItem {
	return gItem{Dyn: &gDyn{Type: t, ForEach: fe, Iterator: iter, Labels: labels, Content: content}}
}

type corpusCase struct {
	Name  string
	Spec  *specNode
	Items []gItem
}

func corpus() []corpusCase {
	listOf := func(t string, k blockKind, labels []string, nested *specNode) *specNode {
		return &specNode{Blocks: []blockDef{{t, k, labels, nested}}}
	}
	cs := []corpusCase{
		{"readme", listOf("a", kList, nil, leaf("p")), []gItem{
			blk("a", nil, at("p", `"static block 1"`)),
			dyn("a", `["a", "b", "c"]`, "it", nil, at("p", `"dynamic block ${«it».value}"`)),
			blk("a", nil, at("p", `"static block 2"`))}},
		{"default-iterator-map-labels", listOf("a", kMap, []string{"key"}, leaf("p")), []gItem{
			dyn("a", "m_str", "", []string{"«a».key"}, at("p", "«a».value"))}},
		{"nested-outer-reference", listOf("a", kList, nil, &specNode{Attrs: strAttr("p"), Blocks: []blockDef{{"b", kMap, []string{"key"}, leaf("p", "q")}}}), []gItem{
			dyn("a", "lo", "", nil, at("p", "«a».value.k"),
				dyn("b", "«a».value.v", "", []string{`"${«a».key}-${«b».key}"`}, at("p", "«a».value.k"), at("q", "«b».value")))}},
		{"static-in-content", listOf("a", kList, nil, &specNode{Blocks: []blockDef{{"b", kSingle, nil, leaf("p")}}}), []gItem{
			dyn("a", "l_str", "", nil, blk("b", nil, at("p", "«a».value")))}},
		{"shadowing", listOf("a", kList, nil, &specNode{Attrs: strAttr("p"), Blocks: []blockDef{{"a", kList, nil, leaf("p")}}}), []gItem{
			dyn("a", "ll", "", nil, at("p", "«a».key"), dyn("a", "«a».value", "", nil, at("p", "«a».value")))}},
		{"unknown-for_each", listOf("a", kList, nil, leaf("p")), []gItem{
			blk("a", nil, at("p", `"s"`)), dyn("a", "u_list", "", nil, at("p", "«a».value"))}},
		{"unknown-for_each-single", listOf("a", kSingle, nil, leaf("p")), []gItem{
			dyn("a", "u_dyn", "", nil, at("p", "«a».value"))}},
		{"marked-static-child (#18)", listOf("a", kSingle, nil, &specNode{Blocks: []blockDef{{"b", kSingle, nil, leaf("p")}}}), []gItem{
			dyn("a", "mk_list", "", nil, blk("b", nil, at("p", "«a».value")))}},
		{"marked-empty (#9)", listOf("a", kList, nil, leaf("p")), []gItem{
			dyn("a", "mk_empty", "", nil, at("p", "«a».value"))}},
		{"marked-list", listOf("a", kList, nil, leaf("p")), []gItem{
			dyn("a", "mk_list", "", nil, at("p", "«a».value"))}},
		{"marked-partial-remain (#10)", listOf("a", kList, nil, leaf("p", "q")), []gItem{
			dyn("a", "mk_list", "", nil, at("p", `"x"`), at("q", "«a».value"))}},
		{"marked-unknown-for_each-collections", &specNode{Blocks: []blockDef{{"a", kList, nil, leaf("p")}, {"b", kSet, nil, leaf("p")}, {"c", kTuple, nil, leaf("p")}, {"d", kMap, []string{"key"}, leaf("p")}, {"e", kObject, []string{"key"}, leaf("p")}}}, []gItem{
			dyn("a", "mk_ulist", "", nil, at("p", `"x"`)),
			dyn("b", "mk_ulist", "", nil, at("p", `"x"`)),
			dyn("c", "mk_ulist", "", nil, at("p", `"x"`)),
			dyn("d", "mk_ulist", "", []string{`"l"`}, at("p", `"x"`)),
			dyn("e", "mk_ulist", "", []string{`"l"`}, at("p", `"x"`))}},
		{"marked-single-empty-content", listOf("a", kSingle, nil, leaf("p")), []gItem{
			dyn("a", "mk_list", "", nil)}},
		{"shadowed-ancestor-explicit-iterator", listOf("a", kList, nil, &specNode{Attrs: strAttr("p"), Blocks: []blockDef{{"b", kList, nil, &specNode{Attrs: strAttr("p"), Blocks: []blockDef{{"c", kMap, []string{"key"}, leaf("p", "q")}}}}}}), []gItem{
			dyn("a", "sh_o", "it", nil, at("p", "«it».key"),
				dyn("b", "sh_i", "it", nil, at("p", "«it».value.k"),
					dyn("c", "«it».value.v", "", []string{`"${«it».key}-${«c».key}"`}, at("p", "«it».value.k"), at("q", "«c».value"))))}},
		{"shadowed-ancestor-same-block-type", listOf("a", kList, nil, &specNode{Attrs: strAttr("p"), Blocks: []blockDef{{"a", kList, nil, &specNode{Attrs: strAttr("p"), Blocks: []blockDef{{"b", kList, nil, leaf("p", "q")}}}}}}), []gItem{
			dyn("a", "sh_o", "", nil, at("p", "«a».key"),
				dyn("a", "sh_i", "", nil, at("p", "«a».value.k"),
					dyn("b", `["u", "w"]`, "", nil, at("p", `"${«a».key}/${«b».value}"`), at("q", "«a».value.k"))))}},
		{"block-attrs-in-dynamic", listOf("a", kAttrs, nil, nil), []gItem{
			dyn("a", `["x"]`, "", nil, at("u", "«a».value"))}},
		{"null-for_each", listOf("a", kList, nil, leaf("p")), []gItem{dyn("a", "nul_list", "", nil, at("p", `"x"`))}},
		{"non-iterable-for_each", listOf("a", kList, nil, leaf("p")), []gItem{dyn("a", "v_str", "", nil, at("p", `"x"`))}},
		{"label-errors", listOf("a", kMap, []string{"key"}, leaf("p")), []gItem{
			dyn("a", `["x"]`, "", []string{"u_str"}, at("p", `"x"`)),
			dyn("a", `["x"]`, "", []string{"mk_str"}, at("p", `"x"`)),
			dyn("a", `["x"]`, "", []string{"nul_str"}, at("p", `"x"`)),
			dyn("a", `["x"]`, "", []string{"[1]"}, at("p", `"x"`)),
			dyn("a", `["x"]`, "", []string{"«a».key"}, at("p", `"x"`))}},
		{"unrequested-empty", listOf("a", kList, nil, leaf("p")), []gItem{dyn("zz", "l_empty", "", nil, at("p", `"x"`))}},
		{"set-and-tuple-and-object", &specNode{Blocks: []blockDef{{"a", kSet, nil, leaf("p")}, {"b", kTuple, nil, leaf("p")}, {"c", kObject, []string{"key"}, leaf("p")}}}, []gItem{
			dyn("a", "s_str", "x", nil, at("p", "«x».key")),
			dyn("b", "tp", "", nil, at("p", `"${«b».key}"`)),
			dyn("c", "o_mix", "each", []string{"«each».key"}, at("p", "«each».value"))}},
	}
	// appended last so that the indices of the cases above stay what they were
	return append(append(append(cs, collideCorpus()...), partialCorpus()...), multiCorpus()...)
}

// ---- one case ---------------------------------------------------------------------------------------------

var hdrRe = regexp.MustCompile(`^# c18 seed=(\d+) case=(c?)(\d+)`)

// caseFor: the case, with the multi-step histories the direct oracle runs on it (drawn from a
// stream of their own, so that the cases themselves are what they were without them; the
// cases of the multi-step stream bring theirs)
func caseFor(seed uint64, corp bool, idx int) *genCase {
	c := caseFor0(seed, corp, idx)
	if c.Plans == nil {
		off := 0
		if corp {
			off = 5000
		}
		rp := hv.NewRng(seed, uint64(220000+off+idx))
		if strings.HasPrefix(c.Note, "multi-step:") {
			c.Plans, c.Multi = positionalPlans(c.Spec, rp), true
		} else {
			c.Plans = makePlans(c.Spec, rp, 0.3)
		}
	}
	return c
}

func caseFor0(seed uint64, corp bool, idx int) *genCase {
	r := hv.NewRng(seed, uint64(180000+idx))
	if corp {
		cc := corpus()[idx]
		cg := &ctxGen{r: hv.NewRng(seed, uint64(170000+idx))}
		ectx := cg.gen()
		// the corpus relies on these variables being present
		full := flatten(ectx)
		for k, v := range map[string]cty.Value{
			"m_str":   cty.MapVal(map[string]cty.Value{"k1": cty.StringVal("v1"), "k2": cty.StringVal("v2")}),
			"l_str":   cty.ListVal([]cty.Value{cty.StringVal("x"), cty.StringVal("y")}),
			"l_empty": cty.ListValEmpty(cty.String),
			"s_str":   cty.SetVal([]cty.Value{cty.StringVal("b"), cty.StringVal("a")}),
			"ll":      cty.ListVal([]cty.Value{cty.ListVal([]cty.Value{cty.StringVal("p")}), cty.ListValEmpty(cty.String), cty.ListVal([]cty.Value{cty.StringVal("q"), cty.StringVal("r")})}),
			"lo": cty.ListVal([]cty.Value{cty.ObjectVal(map[string]cty.Value{"k": cty.StringVal("K"), "v": cty.ListVal([]cty.Value{cty.StringVal("1"), cty.StringVal("2")})}),
				cty.ObjectVal(map[string]cty.Value{"k": cty.StringVal("L"), "v": cty.ListVal([]cty.Value{cty.StringVal("3")})})}),
			"tp":       cty.TupleVal([]cty.Value{cty.StringVal("t"), cty.NumberIntVal(2), cty.True}),
			"o_mix":    cty.ObjectVal(map[string]cty.Value{"a": cty.StringVal("A"), "b": cty.NumberIntVal(3)}),
			"mk_list":  cty.ListVal([]cty.Value{cty.StringVal("secret")}).Mark("m1"),
			"mk_ulist": cty.UnknownVal(cty.List(cty.String)).Mark("m4"),
		} {
			full[k] = v
		}
		for k, v := range collideCorpusVars(cc.Name) {
			full[k] = v
		}
		for k, v := range partialCorpusVars(cc.Name) {
			full[k] = v
		}
		ectx = &hcl.EvalContext{Variables: full, Functions: hv.HarnessFuncs}
		return &genCase{Spec: cc.Spec, Items: cc.Items, ECtx: ectx, DCtx: ectx, Feat: map[string]int{"corpus": 1}, Note: cc.Name}
	}
	// the iterator-name-collision stream (collide.go) has its own random stream, so the
	// cases of the general stream are what they were before it existed
	if rc := hv.NewRng(seed, uint64(190000+idx)); rc.Chance(0.10) {
		return generateCollide(rc)
	}
	// the partially-unknown-for_each stream (partial.go), likewise
	if rp := hv.NewRng(seed, uint64(200000+idx)); rp.Chance(0.10) {
		return generatePartial(rp)
	}
	// the multi-step stream (multistep.go): 0.81 * 0.26 = 21 % of the cases
	if rm := hv.NewRng(seed, uint64(210000+idx)); rm.Chance(0.26) {
		return generateMulti(rm)
	}
	return generate(r)
}

type runner struct {
	rep *hv.Report
	cf  *hv.CaseFile
}

func (rn *runner) one(seed uint64, corp bool, idx int) {
	rep := rn.rep
	c := caseFor(seed, corp, idx)
	tag := ""
	if corp {
		tag = "c"
	}
	text := c.text()
	input := fmt.Sprintf("# c18 seed=%d case=%s%d spec: %s\n%s", seed, tag, idx, c.Spec.describe(), text)
	for _, k := range sortedFeat(c.Feat) {
		rep.Histogram[k] += c.Feat[k]
	}
	f, pd := hclsyntax.ParseConfig([]byte(text), "c18.hcl", hcl.InitialPos)
	if pd.HasErrors() {
		// the generator writes well-formed syntax; count and go on
		rep.Hist("parse-error")
		rep.Evaluations++
		return
	}
	// ---- observed behaviour of the real code, as a Coq case ----
	var obs *obsTree
	var twos, multis []string
	info := &hv.ValInfo{}
	var panicked any
	func() {
		defer func() { panicked = recover() }()
		expanded := dynblock.Expand(f.Body, c.ECtx)
		obs = observe(expanded, c.Spec, c.DCtx)
		if c.Multi {
			// the histories of the multi-step stream, each on a fresh expanded body
			for _, pl := range c.Plans {
				multis = append(multis, "("+pl.coq()+",\n  "+observeM(dynblock.Expand(f.Body, c.ECtx), pl, c.DCtx).coq(info)+")")
			}
			return
		}
		for _, b := range obs.Blocks {
			bd := c.Spec.block(b.Type)
			if bd == nil || bd.Kind == kAttrs {
				twos = append(twos, "None")
				continue
			}
			s1, s2 := twoStep(b.Body, bd.Nested, c.DCtx)
			twos = append(twos, "(Some ("+s1.coq(info)+", "+s2.coq(info)+"))")
		}
	}()
	if panicked != nil {
		rep.Fail(hv.Failure{Kind: "panic", Detail: fmt.Sprint(panicked), Input: input})
		rep.Evaluations++
		return
	}
	body := coqBody(f.Body.(*hclsyntax.Body), info)
	ectx := hv.CoqCtx(c.ECtx, info)
	dctx := hv.CoqCtx(c.DCtx, info)
	obsS := obs.coq(info)
	mode := 0
	if info.Unsupported || info.Inexact {
		mode = 2
		rep.Hist("mode:skipped(outside value universe)")
	}
	rn.cf.Add(fmt.Sprintf("mkXCase %s\n  %s\n  %s\n  %s\n  %d\n  %s\n  %s\n  %s\n  %s", c.Spec.coq(), body, ectx, dctx, mode, obsS, hv.CoqList(twos), coqReportedVars(f.Body, c.Spec.spec()), hv.CoqList(multis)))
	rep.Idx(input)
	nblocks := strings.Count(obs.shape(false), `"`) // rough: labelled blocks
	_ = nblocks
	rep.Count(input+ectx, strings.Contains(text, "dynamic"))
	if obs.Err {
		rep.Hist("result:top-level-errors")
	} else {
		rep.Hist("result:top-level-ok")
	}
	if len(rep.Samples) < 8 && len(text) < 400 && strings.Contains(text, "dynamic") {
		rep.Sample(input)
	}
	depth := func() int {
		var d func(t *obsTree) int
		d = func(t *obsTree) int {
			m := 0
			for _, b := range t.Blocks {
				if x := 1 + d(b.Sub); x > m {
					m = x
				}
			}
			return m
		}
		return d(obs)
	}()
	rep.Hist("observed-depth:" + strconv.Itoa(depth))
	// ---- direct oracle ----
	for _, o := range runOracle(c, text, rep) {
		rep.Fail(hv.Failure{Kind: o.Kind, Detail: o.Detail, Input: input})
		rep.Hist("FAIL:" + o.Kind)
	}
}

func run(cfg *hv.RunCfg) error {
	rep := hv.NewReport("C18", cfg.Seed)
	rep.Rule = "per case: a hcldec specification tree (1-3 levels; BlockList/Set/Map/Single/Tuple/Object/Attrs kinds, 0-2 labels), an expansion context with list/set/map/object/tuple collections of sizes 0-3 incl. nested ones, unknown, marked, null and non-iterable values (1-2 frames), a decoding context (same / child / separate), and a body mixing static and dynamic blocks (nesting 1-3, default and custom iterators incl. shadowing, labels computed from the iterator, content referring to outer iterators, static blocks inside content); 10% structurally mutated (malformed dynamic blocks, unrequested types); 10% of the cases from the partially-unknown-for_each stream (known list/tuple/set/map/object collections of primitives, objects and lists with unknown, refined-unknown or marked-unknown values at different depths, also marked as a whole or known by a length refinement, next to wholly unknown refined ones; used in labels, attributes and nested for_each); 21% of the cases from the multi-step stream (attribute names and block types from ONE pool of four at every level, so that nested names equal names of the outer levels; the top-level names split into 2-3 parts, read part after part with PartialContent / hcldec.PartialDecode over the chain of remaining bodies and finished with Content / Decode or partially, in both orders; nested bodies in one step or again in two); the multi-step oracle also runs on every case of the other streams; non-trivial = the body contains a dynamic block; distinct by SHA-256 of (text, contexts)"
	cf := &hv.CaseFile{Dir: cfg.Out, Name: "c18cases",
		Imports: "From Coq Require Import QArith String.\nFrom HclV Require Import Base.Prelude Cty.Values Cty.Convert Cty.Ops Eval.Impl Eval.Funcs Dyn.Expand Dyn.Unroll Dyn.ExpandCheck.",
		Ctype:   "xcase", Checker: "check_expand_cases",
		Extras: [][2]string{{"skipped", "skipped_expand_cases"}, {"unroll_bad", "check_unroll_cases"}, {"unroll_applicable", "unroll_applicable_cases"}, {"vars_bad", "check_vars_cases"}, {"vars_applicable", "vars_applicable_cases"}}}
	rn := &runner{rep, cf}
	if cfg.Replay != "" {
		b, err := os.ReadFile(cfg.Replay)
		if err != nil {
			return err
		}
		m := hdrRe.FindSubmatch(b)
		if m == nil {
			return fmt.Errorf("replay input has no '# c18 seed=… case=…' header")
		}
		seed, _ := strconv.ParseUint(string(m[1]), 10, 64)
		idx, _ := strconv.Atoi(string(m[3]))
		rn.one(seed, string(m[2]) == "c", idx)
	} else {
		for i := range corpus() {
			rn.one(cfg.Seed, true, i)
		}
		for i := 0; i < cfg.N; i++ {
			rn.one(cfg.Seed, false, i)
		}
	}
	names, err := cf.Flush(100)
	if err != nil {
		return err
	}
	rep.CaseFiles = names
	return rep.Write(cfg.Out)
}
