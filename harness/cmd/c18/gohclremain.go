package main

// The multi-step reading through gohcl: every top-level step of a history is a struct type
// (built with reflect.StructOf from the step's part of the specification) with a
// `hcl:",remain"` field of type hcl.Body; gohcl.DecodeBody fills it and the next step decodes
// the remaining body.  Attributes are hcl.Expression fields (evaluated afterwards in the
// decoding context), blocks are slices of nested structs with their labels, BlockAttrsSpec
// bodies are hcl.Attributes `remain` fields.  Used by multiStepOracle: the expanded body and
// the harness-unrolled body must give the same.

import (
	"fmt"
	"reflect"
	"sort"
	"strings"

	"github.com/hashicorp/hcl/v2"
	"github.com/hashicorp/hcl/v2/gohcl"
	"hclverif/hv"
)

var (
	ghExprT  = reflect.TypeOf((*hcl.Expression)(nil)).Elem()
	ghBodyT  = reflect.TypeOf((*hcl.Body)(nil)).Elem()
	ghAttrsT = reflect.TypeOf(hcl.Attributes(nil))
	ghStrT   = reflect.TypeOf("")
)

func ghTag(name, kind string) reflect.StructTag {
	return reflect.StructTag(fmt.Sprintf(`hcl:"%s,%s"`, name, kind))
}

func gohclStruct(attrs []attrDef, blocks []blockDef, labels []string, remain bool) reflect.Type {
	var fs []reflect.StructField
	for i, l := range labels {
		fs = append(fs, reflect.StructField{Name: fmt.Sprintf("L%d", i), Type: ghStrT, Tag: ghTag(l, "label")})
	}
	for i, a := range attrs {
		kind := "optional"
		if a.Required {
			kind = "attr"
		}
		fs = append(fs, reflect.StructField{Name: fmt.Sprintf("A%d", i), Type: ghExprT, Tag: ghTag(a.Name, kind)})
	}
	for i, b := range blocks {
		var et reflect.Type
		if b.Kind == kAttrs || b.Nested == nil {
			var lf []reflect.StructField
			for j, l := range b.LabelNames {
				lf = append(lf, reflect.StructField{Name: fmt.Sprintf("L%d", j), Type: ghStrT, Tag: ghTag(l, "label")})
			}
			et = reflect.StructOf(append(lf, reflect.StructField{Name: "Attrs", Type: ghAttrsT, Tag: ghTag("", "remain")}))
		} else {
			et = gohclStruct(b.Nested.Attrs, b.Nested.Blocks, b.LabelNames, false)
		}
		fs = append(fs, reflect.StructField{Name: fmt.Sprintf("B%d", i), Type: reflect.SliceOf(et), Tag: ghTag(b.Type, "block")})
	}
	if remain {
		fs = append(fs, reflect.StructField{Name: "Rest", Type: ghBodyT, Tag: ghTag("", "remain")})
	}
	return reflect.StructOf(fs)
}

func gohclDump(v reflect.Value, rho *hcl.EvalContext, b *strings.Builder) {
	t := v.Type()
	b.WriteString("{")
	for i := 0; i < t.NumField(); i++ {
		f := t.Field(i)
		name := strings.Split(f.Tag.Get("hcl"), ",")[0]
		fv := v.Field(i)
		switch {
		case f.Type == ghStrT:
			fmt.Fprintf(b, " label=%q", fv.String())
		case f.Type == ghExprT:
			if fv.IsNil() {
				fmt.Fprintf(b, " %s=<no expression>", name)
				continue
			}
			val, d := fv.Interface().(hcl.Expression).Value(rho)
			fmt.Fprintf(b, " %s=%s/%v", name, hv.DumpVal(val), d.HasErrors())
		case f.Type == ghAttrsT:
			attrs, _ := fv.Interface().(hcl.Attributes)
			var names []string
			for n := range attrs {
				names = append(names, n)
			}
			sort.Strings(names)
			for _, n := range names {
				val, d := attrs[n].Expr.Value(rho)
				fmt.Fprintf(b, " %s=%s/%v", n, hv.DumpVal(val), d.HasErrors())
			}
		case f.Type == ghBodyT:
			// the remaining body: read by the next step
		case f.Type.Kind() == reflect.Slice:
			for j := 0; j < fv.Len(); j++ {
				fmt.Fprintf(b, " %s", name)
				gohclDump(fv.Index(j), rho, b)
			}
		}
	}
	b.WriteString("}")
}

type gohclStepRes struct {
	Dump string
	Err  bool
}

// the top-level steps of the history through gohcl.DecodeBody
func gohclChain(body hcl.Body, p *mPlan, rho *hcl.EvalContext) (out []gohclStepRes, pan any) {
	defer func() { pan = recover() }()
	cur := body
	for i := range p.Steps {
		s := &p.Steps[i]
		var blocks []blockDef
		for _, mb := range s.Blocks {
			blocks = append(blocks, *mb.Def)
		}
		target := reflect.New(gohclStruct(s.Attrs, blocks, nil, s.Partial))
		diags := gohcl.DecodeBody(cur, rho, target.Interface())
		var b strings.Builder
		gohclDump(target.Elem(), rho, &b)
		out = append(out, gohclStepRes{b.String(), diags.HasErrors()})
		if s.Partial {
			rest, _ := target.Elem().FieldByName("Rest").Interface().(hcl.Body)
			if rest == nil {
				break
			}
			cur = rest
		}
	}
	return
}
