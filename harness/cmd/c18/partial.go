package main

// The partially-unknown-for_each shape: the boundary between "expand" and "unknown body".
//
// A for_each collection that is KNOWN (its length and keys are known) but contains
// unknown values inside its elements -- an unknown element of a list / map / tuple /
// set, an unknown attribute of one object, an unknown nested list or an unknown element
// of a nested list, refined unknowns, a known list obtained from a length refinement,
// marked collections and marked unknown elements -- must still expand to one block per
// element, the unknown flowing into the content through the iterator.  Only a for_each
// that is unknown AS A WHOLE (also: unknown with a refined but open length) collapses into
// the single unknown block.
//
// The stream generates contexts holding such collections of every iterable kind and
// bodies (through the general body generator of gen.go, 1-3 dynamic levels) whose
// for_each expressions mostly name them; their iterators are used in labels, attributes
// and nested for_each expressions by the general generator.  The references are not
// computed here: the unroller of oracle.go writes out one block per element of any KNOWN
// collection (shallow IsKnown of the evaluated for_each), and expansionShapeOracle below
// states the expected (type, unknown-body) sequence of the top level from the evaluated
// for_each values alone.

import (
	"fmt"
	"strings"

	"github.com/hashicorp/hcl/v2"
	"github.com/zclconf/go-cty/cty"
	"hclverif/hv"
)

type partialVar struct {
	Name string
	Elem elemKind
	KeyS bool
	Note string // collection kind / where the unknown sits (histogram)
	Val  cty.Value
}

type partialCfg struct {
	Plain   []partialVar // known collections containing unknown values
	Marked  []partialVar // the same, marked as a whole
	Unknown []partialVar // unknown as a whole (refined): must collapse
	// only the unmarked known collections are used (the written-out form exists for the
	// whole body, so the unroll comparison applies)
	Pure bool
}

func (p *partialCfg) all() []partialVar {
	return append(append(append([]partialVar{}, p.Plain...), p.Marked...), p.Unknown...)
}

func (p *partialCfg) find(name string) *partialVar {
	for _, v := range p.all() {
		if v.Name == name {
			return &v
		}
	}
	return nil
}

// an unknown value of a primitive type: plain, or refined (not null / string prefix /
// number bounds)
func unkPrim(r *hv.Rng, ty cty.Type) (cty.Value, string) {
	u := cty.UnknownVal(ty)
	switch x := r.Intn(10); {
	case x < 6:
		return u, "plain"
	case x < 8:
		return u.RefineNotNull(), "refined"
	default:
		switch ty {
		case cty.String:
			return u.Refine().NotNull().StringPrefix("pre").NewValue(), "refined"
		case cty.Number:
			return u.Refine().NotNull().NumberRangeLowerBound(cty.NumberIntVal(1), true).NewValue(), "refined"
		}
		return u.RefineNotNull(), "refined"
	}
}

// positions 0..n-1, a non-empty subset of them (all of them sometimes)
func unknownPositions(r *hv.Rng, n int) map[int]bool {
	out := map[int]bool{r.Intn(n): true}
	for i := 0; i < n; i++ {
		if r.Chance(0.25) {
			out[i] = true
		}
	}
	return out
}

var objKVType = cty.Object(map[string]cty.Type{"k": cty.String, "v": cty.List(cty.String)})

func genPartialVars(r *hv.Rng) *partialCfg {
	str := func() cty.Value { return cty.StringVal(strPool[r.Intn(len(strPool))]) }
	strs := func(n int) []cty.Value {
		vs := make([]cty.Value, n)
		for i := range vs {
			vs[i] = str()
		}
		return vs
	}
	refined := map[string]bool{}
	primList := func(ty cty.Type, name string, known func() cty.Value) []cty.Value {
		n := 2 + r.Intn(2)
		unk := unknownPositions(r, n)
		vs := make([]cty.Value, n)
		for i := range vs {
			if unk[i] {
				var note string
				vs[i], note = unkPrim(r, ty)
				if note == "refined" {
					refined[name] = true
				}
			} else {
				vs[i] = known()
			}
		}
		return vs
	}
	note := func(name, base string) string {
		if refined[name] {
			return base + "(refined)"
		}
		return base
	}
	p := &partialCfg{}
	// list / tuple / set / map / object of primitives
	{
		vs := primList(cty.String, "lp_str", str)
		p.Plain = append(p.Plain, partialVar{"lp_str", eStr, false, note("lp_str", "list(string):unknown-element"), cty.ListVal(vs)})
	}
	{
		vs := primList(cty.Number, "lp_num", func() cty.Value { return cty.NumberIntVal(int64(r.Intn(9))) })
		p.Plain = append(p.Plain, partialVar{"lp_num", eNum, false, note("lp_num", "list(number):unknown-element"), cty.ListVal(vs)})
	}
	{
		m := map[string]cty.Value{}
		keys := []string{"k1", "k2", "zz"}[:2+r.Intn(2)]
		unk := unknownPositions(r, len(keys))
		for i, k := range keys {
			if unk[i] {
				var nt string
				m[k], nt = unkPrim(r, cty.String)
				if nt == "refined" {
					refined["mp_str"] = true
				}
			} else {
				m[k] = str()
			}
		}
		p.Plain = append(p.Plain, partialVar{"mp_str", eStr, true, note("mp_str", "map(string):unknown-element"), cty.MapVal(m)})
	}
	{
		a, b := str(), cty.NumberIntVal(int64(r.Intn(5)))
		switch r.Intn(3) {
		case 0:
			a, _ = unkPrim(r, cty.String)
		case 1:
			b, _ = unkPrim(r, cty.Number)
		default:
			a, b = cty.UnknownVal(cty.String), cty.UnknownVal(cty.Number)
		}
		p.Plain = append(p.Plain, partialVar{"o_pmix", eMixed, true, "object:unknown-attribute", cty.ObjectVal(map[string]cty.Value{"a": a, "b": b})})
	}
	{
		vs := []cty.Value{str(), cty.NumberIntVal(int64(r.Intn(5))), cty.BoolVal(r.Chance(0.5))}
		for i := range unknownPositions(r, 3) {
			vs[i] = cty.UnknownVal(vs[i].Type())
		}
		if r.Chance(0.2) {
			vs[r.Intn(3)] = cty.DynamicVal
		}
		p.Plain = append(p.Plain, partialVar{"tp_p", eMixed, false, "tuple:unknown-element", cty.TupleVal(vs)})
	}
	{
		// one unknown element next to known ones (two unknown strings would be one element
		// or two depending on go-cty's set rules: not the subject here)
		u, nt := unkPrim(r, cty.String)
		vs := append(strs(1+r.Intn(2)), u)
		if nt == "refined" {
			refined["s_pstr"] = true
		}
		p.Plain = append(p.Plain, partialVar{"s_pstr", eStr, true, note("s_pstr", "set(string):unknown-element"), cty.SetVal(vs)})
	}
	// a known list produced by refining an unknown list to an exact length
	{
		n := 1 + r.Intn(3)
		v := cty.UnknownVal(cty.List(cty.String)).Refine().NotNull().CollectionLength(n).NewValue()
		p.Plain = append(p.Plain, partialVar{"lp_len", eStr, false, "list(string):known-by-length-refinement", v})
	}
	// list of objects {k, v = list(string)}: the unknown at different depths
	{
		n := 2 + r.Intn(2)
		vs := make([]cty.Value, n)
		for i := range vs {
			vs[i] = cty.ObjectVal(map[string]cty.Value{"k": str(), "v": cty.ListVal(strs(1 + r.Intn(2)))})
		}
		where := ""
		for i := range unknownPositions(r, n) {
			switch r.Intn(4) {
			case 0:
				vs[i] = cty.UnknownVal(objKVType)
				where += "+element"
			case 1:
				ku, _ := unkPrim(r, cty.String)
				vs[i] = cty.ObjectVal(map[string]cty.Value{"k": ku, "v": cty.ListVal(strs(1 + r.Intn(2)))})
				where += "+attribute"
			case 2:
				vs[i] = cty.ObjectVal(map[string]cty.Value{"k": str(), "v": cty.UnknownVal(cty.List(cty.String))})
				where += "+nested-collection"
			default:
				in := append(strs(1+r.Intn(2)), cty.UnknownVal(cty.String))
				if r.Chance(0.5) {
					in[0], in[len(in)-1] = in[len(in)-1], in[0]
				}
				vs[i] = cty.ObjectVal(map[string]cty.Value{"k": str(), "v": cty.ListVal(in)})
				where += "+nested-element"
			}
		}
		_ = where
		p.Plain = append(p.Plain, partialVar{"lp_obj", eObjKV, false, "list(object):unknown-inside-element", cty.ListVal(vs)})
	}
	// list / map of lists of strings: a nested list unknown, or one of its elements
	nestedList := func() cty.Value {
		switch r.Intn(3) {
		case 0:
			return cty.UnknownVal(cty.List(cty.String))
		case 1:
			return cty.ListVal(append(strs(1+r.Intn(2)), cty.UnknownVal(cty.String)))
		default:
			return cty.ListVal(append([]cty.Value{cty.UnknownVal(cty.String)}, strs(1+r.Intn(2))...))
		}
	}
	{
		n := 2 + r.Intn(2)
		vs := make([]cty.Value, n)
		unk := unknownPositions(r, n)
		for i := range vs {
			if unk[i] {
				vs[i] = nestedList()
			} else {
				vs[i] = cty.ListVal(strs(1 + r.Intn(2)))
			}
		}
		p.Plain = append(p.Plain, partialVar{"lp_list", eListStr, false, "list(list):unknown-nested", cty.ListVal(vs)})
	}
	{
		m := map[string]cty.Value{"k1": cty.ListVal(strs(1 + r.Intn(2))), "k2": nestedList()}
		if r.Chance(0.5) {
			m["a"] = cty.ListVal(strs(1))
		}
		p.Plain = append(p.Plain, partialVar{"mp_list", eListStr, true, "map(list):unknown-nested", cty.MapVal(m)})
	}
	// a known list one of whose elements is a MARKED unknown (the collection itself unmarked)
	{
		vs := strs(2)
		vs[r.Intn(2)] = cty.UnknownVal(cty.String).Mark("m8")
		p.Plain = append(p.Plain, partialVar{"lp_emk", eStr, false, "list(string):marked-unknown-element", cty.ListVal(vs)})
	}
	// marked as a whole
	{
		vs := primList(cty.String, "mk_lp", str)
		p.Marked = append(p.Marked, partialVar{"mk_lp", eStr, false, "marked list(string):unknown-element", cty.ListVal(vs).Mark("m6")})
		m := map[string]cty.Value{"k1": str(), "k2": cty.UnknownVal(cty.String)}
		p.Marked = append(p.Marked, partialVar{"mk_mp", eStr, true, "marked map(string):unknown-element", cty.MapVal(m).Mark("m7")})
		os := []cty.Value{
			cty.ObjectVal(map[string]cty.Value{"k": str(), "v": cty.ListVal(strs(1))}),
			cty.ObjectVal(map[string]cty.Value{"k": cty.UnknownVal(cty.String), "v": cty.ListVal(strs(2))}),
		}
		p.Marked = append(p.Marked, partialVar{"mk_lpo", eObjKV, false, "marked list(object):unknown-inside-element", cty.ListVal(os).Mark("m9")})
	}
	// unknown as a whole, with refinements that leave the length open: the other side of
	// the boundary
	{
		v := cty.UnknownVal(cty.List(cty.String)).Refine().NotNull().CollectionLengthLowerBound(1).NewValue()
		p.Unknown = append(p.Unknown, partialVar{"u_len", eStr, false, "unknown list refined(length>=1)", v})
		v2 := cty.UnknownVal(cty.Map(cty.String)).Refine().NotNull().CollectionLengthUpperBound(3).NewValue()
		p.Unknown = append(p.Unknown, partialVar{"u_mlen", eStr, true, "unknown map refined(length<=3)", v2})
	}
	return p
}

// choose a for_each for the general body generator (called from bodyGen.forEach)
func (p *partialCfg) choose(g *bodyGen) feChoice {
	r := g.r
	var v partialVar
	x := r.Intn(100)
	if p.Pure {
		x = r.Intn(82)
	}
	switch {
	case x < 25 && g.depth+1 < g.maxD:
		// a collection of collections: the content can hold a dynamic block whose for_each
		// is this iterator's (partially or wholly unknown) value
		var nested []partialVar
		for _, c := range p.Plain {
			if c.Elem == eListStr || c.Elem == eObjKV {
				nested = append(nested, c)
			}
		}
		v = nested[r.Intn(len(nested))]
	case x < 82:
		v = p.Plain[r.Intn(len(p.Plain))]
	case x < 94:
		v = p.Marked[r.Intn(len(p.Marked))]
	default:
		v = p.Unknown[r.Intn(len(p.Unknown))]
	}
	g.f("for_each:var:" + v.Name)
	return feChoice{v.Name, v.Elem, v.KeyS, "partial"}
}

// what the generated body does with the partially unknown collections (histogram)
func partialFeatures(items []gItem, p *partialCfg, feat map[string]int) (uses int) {
	refers := func(t, name string) bool { return strings.Contains(t, "«"+name+"»") }
	var walk func(is []gItem, depth int)
	walk = func(is []gItem, depth int) {
		for _, it := range is {
			switch {
			case it.Block != nil:
				walk(it.Block.Body, depth)
			case it.Dyn != nil:
				d := it.Dyn
				if v := p.find(d.ForEach); v != nil {
					if len(p.Unknown) > 0 && strings.HasPrefix(v.Name, "u_") {
						feat["partial:for_each=wholly-unknown-refined (must collapse)"]++
					} else {
						uses++
						feat["partial:for_each="+v.Note]++
						feat[fmt.Sprintf("partial:dynamic-level%d", depth+1)]++
						own := d.iterName()
						for _, l := range d.Labels {
							if refers(l, own) {
								feat["partial:iterator-in-label"]++
								break
							}
						}
						attr, nested, static := false, false, false
						var inner func(is []gItem)
						inner = func(is []gItem) {
							for _, x := range is {
								switch {
								case x.Attr != nil:
									attr = attr || refers(x.Attr.Expr, own)
								case x.Block != nil:
									static = true
									inner(x.Block.Body)
								case x.Dyn != nil:
									nested = nested || refers(x.Dyn.ForEach, own)
									inner(x.Dyn.Content)
								}
							}
						}
						inner(d.Content)
						if attr {
							feat["partial:iterator-in-attribute"]++
						}
						if nested {
							feat["partial:iterator-in-nested-for_each"]++
						}
						if static {
							feat["partial:static-block-in-content"]++
						}
					}
				}
				walk(d.Content, depth+1)
			}
		}
	}
	walk(items, 0)
	// static sibling blocks of a type that a top-level partial dynamic block generates
	for _, it := range items {
		if it.Dyn != nil && p.find(it.Dyn.ForEach) != nil {
			for _, o := range items {
				if o.Block != nil && o.Block.Type == it.Dyn.Type {
					feat["partial:static-sibling-of-same-type"]++
					break
				}
			}
		}
	}
	return uses
}

// the case of the partially-unknown stream: the usual context plus the collections above
func generatePartial(r *hv.Rng) *genCase {
	cg := &ctxGen{r: r}
	ectx0 := cg.gen()
	p := genPartialVars(r)
	p.Pure = r.Chance(0.55)
	full := flatten(ectx0)
	for _, v := range p.all() {
		full[v.Name] = v.Val
	}
	ectx := &hcl.EvalContext{Variables: full, Functions: hv.HarnessFuncs}
	var spec *specNode
	var items []gItem
	var g *bodyGen
	for try := 0; ; try++ {
		g = &bodyGen{r: r, cg: cg, feat: map[string]int{}, maxD: 1 + r.Intn(3), clean: p.Pure || r.Chance(0.5), partial: p}
		if g.clean {
			g.f("mode:clean")
		} else {
			g.f("mode:mixed")
		}
		spec = g.genSpec(1+r.Intn(3), true)
		items = g.genBody(spec, nil, 0)
		if partialFeatures(items, p, map[string]int{}) > 0 || try >= 6 {
			break
		}
	}
	if partialFeatures(items, p, g.feat) > 0 {
		g.f("shape:partial-unknown-for_each")
	} else {
		g.f("shape:partial-unknown-for_each(context only)")
	}
	dctx := ectx
	if r.Chance(0.15) {
		g.f("ctx:decode-child")
		dctx = ectx.NewChild()
		dctx.Variables = map[string]cty.Value{"dv": cty.StringVal("D"), "v_str": cty.StringVal("decode-time")}
	} else {
		g.f("ctx:same")
	}
	return &genCase{Spec: spec, Items: items, ECtx: ectx, DCtx: dctx, Feat: g.feat}
}

// ---- hand corpus ---------------------------------------------------------------------------------

func partialCorpusVars(name string) map[string]cty.Value {
	if !strings.HasPrefix(name, "partial-") {
		return nil
	}
	obj := func(k cty.Value, v ...cty.Value) cty.Value {
		return cty.ObjectVal(map[string]cty.Value{"k": k, "v": cty.ListVal(v)})
	}
	return map[string]cty.Value{
		"lp_obj": cty.ListVal([]cty.Value{
			obj(cty.StringVal("K0"), cty.StringVal("x")),
			obj(cty.UnknownVal(cty.String), cty.StringVal("y"), cty.UnknownVal(cty.String)),
			cty.ObjectVal(map[string]cty.Value{"k": cty.StringVal("K2"), "v": cty.UnknownVal(cty.List(cty.String))}),
		}),
		"mp_str": cty.MapVal(map[string]cty.Value{"a": cty.StringVal("known"), "b": cty.UnknownVal(cty.String)}),
		"lp_len": cty.UnknownVal(cty.List(cty.String)).Refine().NotNull().CollectionLength(2).NewValue(),
		"mk_lp":  cty.ListVal([]cty.Value{cty.StringVal("s"), cty.UnknownVal(cty.String)}).Mark("m6"),
		"tp_p":   cty.TupleVal([]cty.Value{cty.StringVal("t"), cty.UnknownVal(cty.Number), cty.True}),
		"u_len":  cty.UnknownVal(cty.List(cty.String)).Refine().NotNull().CollectionLengthLowerBound(1).NewValue(),
	}
}

func partialCorpus() []corpusCase {
	one := func(t string, k blockKind, labels []string, nested *specNode) *specNode {
		return &specNode{Attrs: strAttr("p"), Blocks: []blockDef{{t, k, labels, nested}}}
	}
	return []corpusCase{
		// static siblings around a dynamic block over a list of objects with unknown attributes
		{"partial-list-of-objects-between-static-blocks", one("a", kList, nil, leaf("p", "q")), []gItem{
			blk("a", nil, at("p", `"first"`)),
			dyn("a", "lp_obj", "", nil, at("p", "«a».value.k"), at("q", `"${«a».key}"`)),
			blk("a", nil, at("p", `"last"`))}},
		// labels computed from the (known) keys of a map with an unknown element
		{"partial-map-labels-from-keys", one("a", kMap, []string{"key"}, leaf("p")), []gItem{
			dyn("a", "mp_str", "", []string{"«a».key"}, at("p", "«a».value"))}},
		// nested: the inner for_each is a known list with an unknown element / wholly unknown
		{"partial-nested-for_each-from-iterator", one("a", kList, nil, &specNode{Attrs: strAttr("p"), Blocks: []blockDef{{"b", kMap, []string{"key"}, leaf("p", "q")}}}), []gItem{
			dyn("a", "lp_obj", "it", nil, at("p", "«it».value.k"),
				dyn("b", "«it».value.v", "", []string{`"${«it».key}-${«b».key}"`}, at("p", "«b».value"), at("q", "«it».value.k")))}},
		// marked, length-refined and tuple collections; a wholly unknown refined one next to them
		{"partial-marked-refined-tuple-and-wholly-unknown", &specNode{Blocks: []blockDef{{"a", kList, nil, leaf("p")}, {"b", kTuple, nil, leaf("p")}, {"c", kSingle, nil, leaf("p")}, {"d", kList, nil, leaf("p")}}}, []gItem{
			dyn("a", "mk_lp", "", nil, at("p", "«a».value")),
			dyn("b", "tp_p", "x", nil, at("p", `"${«x».key}"`)),
			dyn("a", "lp_len", "", nil, at("p", "«a».value")),
			dyn("d", "u_len", "", nil, at("p", "«d».value"))}},
	}
}

// ---- the expected top-level expansion shape ----------------------------------------------------------
//
// Independent of expandBody: the for_each expression of every top-level dynamic block is
// evaluated here with the expression evaluator; a static block stands for itself, a
// dynamic block whose (unmarked) for_each is known, non-null and iterable stands for as
// many blocks as the collection has elements, each with an ordinary body; one whose
// for_each is unknown stands for exactly one block with an unknown body.  The sequence of
// (type, unknown) must be what Content exposes, provided Content reports no error (label
// errors and the like remove blocks).  Unlike the unroller this also covers MARKED
// collections.
func expansionShapeOracle(c *genCase, obs1 *obsTree, conf string, rep *hv.Report, fail func(kind, detail string)) {
	if conf != "" || obs1.Err {
		return
	}
	type exp struct {
		Type    string
		Unknown bool
	}
	var want []exp
	partials := 0
	u := &unroller{ectx: c.ECtx, bindings: map[string]cty.Value{}}
	for _, it := range c.Items {
		switch {
		case it.Block != nil:
			want = append(want, exp{it.Block.Type, false})
		case it.Dyn != nil:
			d := it.Dyn
			if d.malformed() {
				return
			}
			v, ok := u.eval(renderT(d.ForEach, nil))
			if !ok {
				return
			}
			v, _ = v.Unmark()
			switch {
			case !v.IsKnown():
				want = append(want, exp{d.Type, true})
			case v.IsNull() || !v.CanIterateElements():
				return
			default:
				if !v.IsWhollyKnown() {
					partials++
				}
				for ei := v.ElementIterator(); ei.Next(); {
					want = append(want, exp{d.Type, false})
				}
			}
		}
	}
	var got []exp
	for _, b := range obs1.Blocks {
		got = append(got, exp{b.Type, b.Sub.Unknown})
	}
	if fmt.Sprint(want) != fmt.Sprint(got) {
		fail("expansion-shape-differs", fmt.Sprintf("top-level blocks expected from the evaluated for_each values (type, unknown body): %v\nexposed by the expanded body: %v", want, got))
		return
	}
	rep.Hist("oracle:top-level-shape-as-expected")
	if partials > 0 {
		rep.Hist("oracle:top-level-shape-as-expected(partially unknown for_each)")
	}
}
