package main

// "The variables reported for expansion are sufficient to perform it."
//
// Two independent checks on the real code, on every case:
//
//  1. sufficiency (semantic): a context holding EXACTLY the root variables reported by
//     ExpandVariablesHCLDec (for Expand) resp. VariablesHCLDec (for Expand and Decode),
//     functions kept, gives the same decoded value and the same error-ness as the full
//     context.                                         kind reported-variables-insufficient
//  2. expectation (structural): the set of reported roots equals the set computed here
//     from the generated body's structure and the scoping rules of the README: the own
//     iterator of a dynamic block is bound in its labels and content but NOT in its
//     for_each; inherited (enclosing) iterators are bound everywhere inside; anything
//     else is the caller's.  Neither dynblock's walk nor its iteration type is used.
//                                                       kind reported-variables-differ
//     Also: the manual level-by-level walk (WalkVariables / WalkExpandVariables + Visit
//     with the harness's own schemata) must report what the HCLDec wrappers report.

import (
	"fmt"
	"sort"
	"strings"

	"github.com/hashicorp/hcl/v2"
	"github.com/hashicorp/hcl/v2/ext/dynblock"
	"github.com/hashicorp/hcl/v2/hcldec"
	"github.com/hashicorp/hcl/v2/hclsyntax"
	"github.com/zclconf/go-cty/cty"
	"hclverif/hv"
)

func rootSet(trs []hcl.Traversal) map[string]bool {
	out := map[string]bool{}
	for _, t := range trs {
		if len(t) > 0 {
			out[t.RootName()] = true
		}
	}
	return out
}

func setText(s map[string]bool) string { return "{" + strings.Join(hv.SortedKeys(s), " ") + "}" }

func setDiff(a, b map[string]bool) []string {
	var out []string
	for k := range a {
		if !b[k] {
			out = append(out, k)
		}
	}
	sort.Strings(out)
	return out
}

// a single-frame context with exactly the named variables of ctx (as seen from ctx)
func pruneCtx(ctx *hcl.EvalContext, keep map[string]bool) *hcl.EvalContext {
	vars := map[string]cty.Value{}
	for k, v := range flatten(ctx) {
		if keep[k] {
			vars[k] = v
		}
	}
	return &hcl.EvalContext{Variables: vars, Functions: hv.HarnessFuncs}
}

// root names of the free variables of an expression template (iterator marks removed)
func exprRoots(tmpl string) ([]string, bool) {
	e, d := hclsyntax.ParseExpression([]byte(renderT(tmpl, nil)), "roots.hcl", hcl.InitialPos)
	if d.HasErrors() {
		return nil, false
	}
	var out []string
	for _, t := range e.Variables() {
		out = append(out, t.RootName())
	}
	return out, true
}

// ---- the structural expectation -----------------------------------------------------------

type expectWalk struct {
	content bool            // include attribute expressions (VariablesHCLDec) or not (ExpandVariablesHCLDec)
	roots   map[string]bool // expected
	inexact string          // why no exact expectation exists ("" = it does)
	// roots that only BlockAttrsSpec bodies need (hcldec.Variables reports them;
	// whether dynblock does is classified separately)
	justOnly map[string]bool
}

func (w *expectWalk) add(tmpl string, bound map[string]bool, just bool) {
	rs, ok := exprRoots(tmpl)
	if !ok {
		w.inexact = "expression-does-not-parse"
		return
	}
	for _, r := range rs {
		if bound[r] {
			continue
		}
		if just {
			if !w.roots[r] {
				w.justOnly[r] = true
			}
			continue
		}
		w.roots[r] = true
	}
}

func withName(bound map[string]bool, nm string) map[string]bool {
	out := map[string]bool{nm: true}
	for k := range bound {
		out[k] = true
	}
	return out
}

func (w *expectWalk) body(items []gItem, n *specNode, bound map[string]bool) {
	declared := map[string]bool{}
	for _, a := range n.Attrs {
		declared[a.Name] = true
	}
	for _, it := range items {
		switch {
		case it.Attr != nil:
			// an argument the schema does not declare is an error, never evaluated
			if w.content && declared[it.Attr.Name] {
				w.add(it.Attr.Expr, bound, false)
			}
		case it.Block != nil:
			bd := n.block(it.Block.Type)
			if bd == nil || len(bd.LabelNames) != len(it.Block.Labels) {
				continue // rejected by the schema, not descended into
			}
			if bd.Kind == kAttrs {
				w.just(it.Block.Body, bound)
				continue
			}
			w.body(it.Block.Body, bd.Nested, bound)
		case it.Dyn != nil:
			d := it.Dyn
			if d.malformed() {
				w.inexact = "malformed-dynamic"
				continue
			}
			bd := n.block(d.Type)
			if bd == nil {
				w.inexact = "dynamic-unrequested-type"
				continue
			}
			// for_each: enclosing iterators only
			w.add(d.ForEach, bound, false)
			inner := withName(bound, d.iterName())
			for _, l := range d.Labels {
				w.add(l, inner, false)
			}
			if len(d.Labels) != len(bd.LabelNames) {
				w.inexact = "dynamic-label-count"
			}
			if bd.Kind == kAttrs {
				w.just(d.Content, inner)
				continue
			}
			w.body(d.Content, bd.Nested, inner)
		}
	}
}

// a body read with JustAttributes: every argument is evaluated
func (w *expectWalk) just(items []gItem, bound map[string]bool) {
	for _, it := range items {
		switch {
		case it.Attr != nil:
			if w.content {
				w.add(it.Attr.Expr, bound, true)
			}
		case it.Dyn != nil:
			w.inexact = "dynamic-in-just-attributes"
		}
	}
}

func expectedRoots(c *genCase, content bool) *expectWalk {
	w := &expectWalk{content: content, roots: map[string]bool{}, justOnly: map[string]bool{}}
	w.body(c.Items, c.Spec, map[string]bool{})
	for k := range w.roots {
		delete(w.justOnly, k)
	}
	return w
}

// ---- the manual walk with the harness's schemata -----------------------------------------------

func manualWalk(node dynblock.WalkVariablesNode, n *specNode) []hcl.Traversal {
	schema := &hcl.BodySchema{}
	if n != nil {
		schema = n.schema()
	}
	vars, children := node.Visit(schema)
	for _, ch := range children {
		if n == nil {
			continue
		}
		bd := n.block(ch.BlockTypeName)
		if bd == nil {
			continue
		}
		vars = append(vars, manualWalk(ch.Node, bd.Nested)...) // nil for BlockAttrsSpec: empty schema
	}
	return vars
}

// ---- the oracle --------------------------------------------------------------------------------

func varsOracle(c *genCase, body hcl.Body, spec hcldec.Spec, v1 cty.Value, d1 hcl.Diagnostics, rep *hv.Report, fail func(kind, detail string)) {
	var expTrs, allTrs, expWalk, allWalk []hcl.Traversal
	var p any
	func() {
		defer func() { p = recover() }()
		expTrs = dynblock.ExpandVariablesHCLDec(body, spec)
		allTrs = dynblock.VariablesHCLDec(body, spec)
		expWalk = manualWalk(dynblock.WalkExpandVariables(body), c.Spec)
		allWalk = manualWalk(dynblock.WalkVariables(body), c.Spec)
	}()
	if p != nil {
		fail("panic", fmt.Sprintf("reporting the variables panicked: %v", p))
		return
	}
	repE, repV := rootSet(expTrs), rootSet(allTrs)
	full1 := hv.DumpVal(v1)

	// 1. sufficiency
	type attempt struct {
		name       string
		roots      map[string]bool
		ectx, dctx *hcl.EvalContext
	}
	pe := pruneCtx(c.ECtx, repE)
	pv := pruneCtx(c.ECtx, repV)
	pvd := pv
	if c.DCtx != c.ECtx {
		pvd = pruneCtx(c.DCtx, repV)
	}
	insufficient := false
	for _, a := range []attempt{
		{"ExpandVariablesHCLDec (Expand pruned, Decode with the full context)", repE, pe, c.DCtx},
		{"VariablesHCLDec (Expand and Decode pruned)", repV, pv, pvd},
	} {
		v2, d2, p2 := decodeSafe(dynblock.Expand(body, a.ectx), spec, a.dctx)
		switch {
		case p2 != nil:
			fail("panic", fmt.Sprintf("Expand+Decode with the context pruned to the roots reported by %s panicked: %v", a.name, p2))
		case hv.DumpVal(v2) != full1 || d2.HasErrors() != d1.HasErrors():
			insufficient = true
			kind := "reported-variables-insufficient"
			// Narrow class (genuine, reported): the walk does not descend into the bodies of
			// blocks decoded by BlockAttrsSpec (hcldec.ChildBlockTypes gives them an empty
			// spec), which hcldec.Variables does report.  Recognised by: the roots that ONLY
			// such bodies need (computed from the body structure) repair the pruned context.
			if just := expectedRoots(c, true).justOnly; len(just) > 0 && len(setDiff(just, a.roots)) > 0 {
				more := map[string]bool{}
				for k := range a.roots {
					more[k] = true
				}
				for k := range just {
					more[k] = true
				}
				ectx3, dctx3 := pruneCtx(c.ECtx, more), a.dctx
				if a.dctx != c.DCtx {
					dctx3 = pruneCtx(c.DCtx, more)
				}
				if v3, d3, p3 := decodeSafe(dynblock.Expand(body, ectx3), spec, dctx3); p3 == nil && hv.DumpVal(v3) == full1 && d3.HasErrors() == d1.HasErrors() {
					kind = "reported-variables-omit-blockattrs-body"
				}
			}
			detail := fmt.Sprintf("context pruned to the roots reported by %s = %s\nfull context:   %s errors=%v\npruned context: %s errors=%v", a.name, setText(a.roots), full1, d1.HasErrors(), hv.DumpVal(v2), d2.HasErrors())
			if d2.HasErrors() && !d1.HasErrors() {
				detail += "\nfirst error: " + d2[0].Error()
			}
			fail(kind, detail)
		default:
			rep.Hist("oracle:reported-variables-sufficient")
			if len(a.roots) > 0 {
				rep.Hist("oracle:reported-variables-sufficient(nonempty)")
			}
		}
	}
	_ = insufficient

	// 2a. the manual walk agrees with the hcldec-driven one
	if we, wv := rootSet(expWalk), rootSet(allWalk); setText(we) != setText(repE) || setText(wv) != setText(repV) {
		fail("reported-variables-differ", fmt.Sprintf("the level-by-level walk and the HCLDec wrapper disagree\nWalkExpandVariables %s ExpandVariablesHCLDec %s\nWalkVariables %s VariablesHCLDec %s", setText(we), setText(repE), setText(wv), setText(repV)))
	}

	// 2b. the structural expectation
	for _, x := range []struct {
		name    string
		content bool
		got     map[string]bool
	}{{"ExpandVariablesHCLDec", false, repE}, {"VariablesHCLDec", true, repV}} {
		w := expectedRoots(c, x.content)
		if w.inexact != "" {
			rep.Hist("oracle:reported-roots-expectation-n/a:" + w.inexact)
			continue
		}
		missing := setDiff(w.roots, x.got)
		extra := setDiff(x.got, w.roots)
		// what only a BlockAttrsSpec body needs
		var extra2 []string
		for _, e := range extra {
			if !w.justOnly[e] {
				extra2 = append(extra2, e)
			}
		}
		justMissing := setDiff(w.justOnly, x.got)
		switch {
		case len(missing) > 0 || len(extra2) > 0:
			fail("reported-variables-differ", fmt.Sprintf("%s reports roots %s, expected from the body structure %s: not reported %v, reported without need %v", x.name, setText(x.got), setText(w.roots), missing, extra2))
		case len(justMissing) > 0:
			fail("reported-variables-omit-blockattrs-body", fmt.Sprintf("%s reports roots %s; the arguments of a block decoded by BlockAttrsSpec (read with JustAttributes) also need %v", x.name, setText(x.got), justMissing))
		default:
			rep.Hist("oracle:reported-roots-as-expected")
			if len(w.roots) > 0 {
				rep.Hist("oracle:reported-roots-as-expected(nonempty)")
			}
		}
	}
}

// the reported root names as the Coq field k_vars of Dyn/ExpandCheck.v
func coqReportedVars(body hcl.Body, spec hcldec.Spec) (out string) {
	defer func() {
		if recover() != nil {
			out = "None"
		}
	}()
	list := func(trs []hcl.Traversal) string {
		var p []string
		for _, k := range hv.SortedKeys(rootSet(trs)) {
			p = append(p, hv.CoqStr(k))
		}
		return hv.CoqList(p)
	}
	return "(Some (" + list(dynblock.ExpandVariablesHCLDec(body, spec)) + ", " + list(dynblock.VariablesHCLDec(body, spec)) + "))"
}
