package main

// Direct oracle on the real code, independent of the Coq model.
//
// The harness itself writes out the unrolled configuration the README describes:
// one static block per element of each for_each collection (evaluated with the real
// expression evaluator in the context given to Expand), every iterator instance
// renamed to a fresh variable bound to object{key, value}; then decodes it with
// the same specification and compares with Expand + Decode.

import (
	"fmt"
	"sort"
	"strings"

	"github.com/hashicorp/hcl/v2"
	"github.com/hashicorp/hcl/v2/ext/dynblock"
	"github.com/hashicorp/hcl/v2/hcldec"
	"github.com/hashicorp/hcl/v2/hclsyntax"
	"github.com/zclconf/go-cty/cty"
	"github.com/zclconf/go-cty/cty/convert"
	"hclverif/hv"
)

type unroller struct {
	ectx     *hcl.EvalContext
	bindings map[string]cty.Value
	n        int
	stuck    string // why the unrolled form does not exist ("" = it does)
	unknowns int
	partial  int // for_each values that are known but not wholly known (marks aside)
}

func (u *unroller) evalCtx() *hcl.EvalContext {
	c := u.ectx.NewChild()
	c.Variables = map[string]cty.Value{}
	for k, v := range u.bindings {
		c.Variables[k] = v
	}
	return c
}

func (u *unroller) eval(text string) (cty.Value, bool) {
	e, d := hclsyntax.ParseExpression([]byte(text), "oracle.hcl", hcl.InitialPos)
	if d.HasErrors() {
		return cty.NilVal, false
	}
	v, d := e.Value(u.evalCtx())
	if d.HasErrors() {
		return cty.NilVal, false
	}
	return v, true
}

func (u *unroller) items(items []gItem, scope map[string]string, ind string, b *strings.Builder, top bool) {
	for _, it := range items {
		if u.stuck != "" {
			return
		}
		switch {
		case it.Attr != nil:
			fmt.Fprintf(b, "%s%s = %s\n", ind, it.Attr.Name, renderT(it.Attr.Expr, scope))
		case it.Block != nil:
			b.WriteString(ind + it.Block.Type)
			for _, l := range it.Block.Labels {
				b.WriteString(" " + quote(l))
			}
			b.WriteString(" {\n")
			u.items(it.Block.Body, scope, ind+"  ", b, false)
			b.WriteString(ind + "}\n")
		case it.Dyn != nil:
			d := it.Dyn
			if d.malformed() {
				u.stuck = "malformed"
				return
			}
			v, ok := u.eval(renderT(d.ForEach, scope))
			if !ok {
				u.stuck = "for_each-error"
				return
			}
			if uv, _ := v.Unmark(); uv.IsKnown() && !uv.IsNull() && uv.CanIterateElements() && !uv.IsWhollyKnown() {
				u.partial++
			}
			if v.IsMarked() {
				uv, _ := v.Unmark()
				_ = uv
				u.stuck = "for_each-marked"
				return
			}
			if !v.IsKnown() {
				u.unknowns++
				u.stuck = "for_each-unknown"
				return
			}
			if v.IsNull() || !v.CanIterateElements() {
				u.stuck = "for_each-not-iterable"
				return
			}
			for ei := v.ElementIterator(); ei.Next(); {
				k, ev := ei.Element()
				u.n++
				name := fmt.Sprintf("it_%d", u.n)
				u.bindings[name] = cty.ObjectVal(map[string]cty.Value{"key": k, "value": ev})
				sc := map[string]string{}
				for a, c := range scope {
					sc[a] = c
				}
				sc[d.iterName()] = name
				b.WriteString(ind + d.Type)
				for _, l := range d.Labels {
					lv, ok := u.eval(renderT(l, sc))
					if !ok {
						u.stuck = "label-error"
						return
					}
					lv, err := convert.Convert(lv, cty.String)
					if err != nil || lv.IsMarked() || !lv.IsKnown() || lv.IsNull() {
						u.stuck = "label-not-a-string"
						return
					}
					b.WriteString(" " + quote(lv.AsString()))
				}
				b.WriteString(" {\n")
				u.items(d.Content, sc, ind+"  ", b, false)
				b.WriteString(ind + "}\n")
			}
		}
	}
}

// conformance of the generated body with the specification tree (the side condition
// of expand_equals_unroll): dynamic only for requested types with the right number of
// labels; no BlockAttrsSpec body containing dynamic blocks.
// Returns "" or the reason.
func conformance(items []gItem, n *specNode, inside bool) string {
	for _, it := range items {
		switch {
		case it.Block != nil:
			bd := n.block(it.Block.Type)
			if bd == nil || len(bd.LabelNames) != len(it.Block.Labels) {
				continue
			}
			if bd.Kind == kAttrs {
				if r := conformJust(it.Block.Body, inside); r != "" {
					return r
				}
				continue
			}
			if r := conformance(it.Block.Body, bd.Nested, inside); r != "" {
				return r
			}
		case it.Dyn != nil:
			d := it.Dyn
			bd := n.block(d.Type)
			if bd == nil {
				return "dynamic-unrequested-type"
			}
			if len(bd.LabelNames) != len(d.Labels) {
				return "dynamic-label-count"
			}
			if bd.Kind == kAttrs {
				if r := conformJust(d.Content, true); r != "" {
					return r
				}
				continue
			}
			if r := conformance(d.Content, bd.Nested, true); r != "" {
				return r
			}
		}
	}
	return ""
}

func conformJust(items []gItem, inside bool) string {
	for _, it := range items {
		if it.Dyn != nil {
			return "dynamic-in-just-attributes"
		}
	}
	return ""
}

func hasUnknownDeep(v cty.Value) bool { return !v.IsWhollyKnown() }

// v1 approximates v2: wherever v1 is known (shallowly) v2 has the same structure
func approximates(v1, v2 cty.Value) bool {
	v1, _ = v1.Unmark()
	v2, _ = v2.Unmark()
	if !v1.IsKnown() {
		return true
	}
	if !v2.IsKnown() {
		return false
	}
	if v1.IsNull() || v2.IsNull() {
		return v1.IsNull() == v2.IsNull()
	}
	t1, t2 := v1.Type(), v2.Type()
	switch {
	case t1.IsPrimitiveType():
		return t2 == t1 && v1.RawEquals(v2)
	case t1.IsListType() || t1.IsTupleType():
		if !(t2.IsListType() || t2.IsTupleType()) || v1.LengthInt() != v2.LengthInt() {
			return false
		}
		i1, i2 := v1.ElementIterator(), v2.ElementIterator()
		for i1.Next() && i2.Next() {
			_, a := i1.Element()
			_, b := i2.Element()
			if !approximates(a, b) {
				return false
			}
		}
		return true
	case t1.IsMapType() || t1.IsObjectType():
		if !(t2.IsMapType() || t2.IsObjectType()) || v1.LengthInt() != v2.LengthInt() {
			return false
		}
		m2 := v2.AsValueMap()
		for k, a := range v1.AsValueMap() {
			b, ok := m2[k]
			if !ok || !approximates(a, b) {
				return false
			}
		}
		return true
	case t1.IsSetType():
		// no positional correspondence; compare only when wholly known
		if v1.IsWhollyKnown() && v2.IsWhollyKnown() {
			return v1.RawEquals(v2)
		}
		return true
	}
	return true
}

func decodeSafe(body hcl.Body, spec hcldec.Spec, ctx *hcl.EvalContext) (v cty.Value, d hcl.Diagnostics, p any) {
	defer func() { p = recover() }()
	v, d = hcldec.Decode(body, spec, ctx)
	return
}

func flatten(ctx *hcl.EvalContext) map[string]cty.Value {
	var chain []*hcl.EvalContext
	for c := ctx; c != nil; c = c.Parent() {
		chain = append(chain, c)
	}
	out := map[string]cty.Value{}
	for i := len(chain) - 1; i >= 0; i-- {
		for k, v := range chain[i].Variables {
			out[k] = v
		}
	}
	return out
}

// concretise replaces unknown collections by one-element collections
func concretise(ctx *hcl.EvalContext) *hcl.EvalContext {
	vars := flatten(ctx)
	for k, v := range vars {
		uv, m := v.Unmark()
		if uv.IsKnown() {
			continue
		}
		ty := uv.Type()
		var nv cty.Value
		switch {
		case ty == cty.DynamicPseudoType:
			nv = cty.ListVal([]cty.Value{cty.StringVal("c")})
		case ty.IsListType():
			nv = cty.ListVal([]cty.Value{cty.StringVal("c")})
		case ty.IsSetType():
			nv = cty.SetVal([]cty.Value{cty.StringVal("c")})
		case ty.IsMapType():
			nv = cty.MapVal(map[string]cty.Value{"ck": cty.StringVal("c")})
		default:
			continue
		}
		vars[k] = nv.WithMarks(m)
	}
	return &hcl.EvalContext{Variables: vars, Functions: hv.HarnessFuncs}
}

type oracleResult struct {
	Kind, Detail string
}

// runOracle checks the property on the real code for one case.
func runOracle(c *genCase, text string, rep *hv.Report) []oracleResult {
	var out []oracleResult
	fail := func(kind, detail string) { out = append(out, oracleResult{kind, detail}) }
	f, pd := hclsyntax.ParseConfig([]byte(text), "c18.hcl", hcl.InitialPos)
	if pd.HasErrors() {
		return nil
	}
	spec := c.Spec.spec()
	expanded := dynblock.Expand(f.Body, c.ECtx)
	v1, d1, p := decodeSafe(expanded, spec, c.DCtx)
	if p != nil {
		fail("panic", fmt.Sprintf("Expand+Decode panicked: %v", p))
		return out
	}
	obs1 := observe(expanded, c.Spec, c.DCtx)
	conf := conformance(c.Items, c.Spec, false)

	// ---- expand == unroll -------------------------------------------------------------------
	u := &unroller{ectx: c.ECtx, bindings: map[string]cty.Value{}}
	var ub strings.Builder
	u.items(c.Items, map[string]string{}, "", &ub, true)
	if u.partial > 0 {
		// known collections containing unknown values: they expand like any known one
		rep.Hist("for_each:partially-unknown(cases)")
		rep.Histogram["for_each:partially-unknown(evaluations)"] += u.partial
		if u.stuck == "" {
			rep.Hist("oracle:unroll-applies(partially unknown for_each)")
		}
	}
	expansionShapeOracle(c, obs1, conf, rep, fail)
	switch {
	case u.stuck != "":
		rep.Hist("oracle:unroll-n/a:" + u.stuck)
	default:
		uf, upd := hclsyntax.ParseConfig([]byte(ub.String()), "unrolled.hcl", hcl.InitialPos)
		if upd.HasErrors() {
			rep.Hist("oracle:unrolled-text-does-not-parse")
			break
		}
		dctx2 := c.DCtx.NewChild()
		dctx2.Variables = map[string]cty.Value{}
		for k, v := range u.bindings {
			dctx2.Variables[k] = v
		}
		v2, d2, p2 := decodeSafe(uf.Body, spec, dctx2)
		if p2 != nil {
			rep.Hist("oracle:unrolled-decode-panics")
			break
		}
		obs2 := observe(uf.Body, c.Spec, dctx2)
		same := hv.DumpVal(v1) == hv.DumpVal(v2) && d1.HasErrors() == d2.HasErrors() && obs1.dump(true) == obs2.dump(true)
		switch {
		case same:
			rep.Hist("oracle:expand==unroll")
			if len(u.bindings) > 0 {
				rep.Hist("oracle:expand==unroll(with generated blocks)")
			}
		case conf != "":
			// outside the equation's side condition: Expand reports dynamic blocks of
			// unrequested types / wrong label counts even when they generate nothing
			rep.Hist("oracle:differs-but-nonconforming:" + conf)
		case obs1.shape(false) != obs2.shape(false) && obs1.shape(true) == obs2.shape(true):
			fail("order-differs", fmt.Sprintf("same blocks in a different order\nexpanded: %s\nunrolled: %s\nunrolled text:\n%s", obs1.shape(false), obs2.shape(false), ub.String()))
		default:
			fail("expand-differs-from-unroll", fmt.Sprintf("expanded: %s errors=%v\n  content %s\nunrolled: %s errors=%v\n  content %s\nunrolled text:\n%s", hv.DumpVal(v1), d1.HasErrors(), obs1.dump(true), hv.DumpVal(v2), d2.HasErrors(), obs2.dump(true), ub.String()))
		}
	}

	// ---- marks ---------------------------------------------------------------------------------
	// every top-level dynamic block of a requested type whose for_each is marked: the mark
	// must be found somewhere in the decoded value.  A marked EMPTY collection generates
	// nothing that could carry it (known finding, classified separately).
	if conf == "" && !d1.HasErrors() {
		have := map[string]bool{}
		cty.Walk(v1, func(_ cty.Path, x cty.Value) (bool, error) {
			for m := range x.Marks() {
				have[fmt.Sprint(m)] = true
			}
			return true, nil
		})
		for _, it := range c.Items {
			d := it.Dyn
			if d == nil || d.malformed() {
				continue
			}
			mu := &unroller{ectx: c.ECtx, bindings: map[string]cty.Value{}}
			fv, ok := mu.eval(renderT(d.ForEach, nil))
			if !ok || !fv.IsMarked() {
				continue
			}
			uv, ms := fv.Unmark()
			empty := uv.IsKnown() && !uv.IsNull() && uv.CanIterateElements() && uv.LengthInt() == 0
			for m := range ms {
				switch {
				case have[fmt.Sprint(m)]:
					rep.Hist("oracle:marks-present")
				case empty:
					fail("marks-lost-empty-for_each", fmt.Sprintf("dynamic %q: the marked EMPTY for_each %s leaves no mark %v in the decoded value: %s", d.Type, d.ForEach, m, hv.DumpVal(v1)))
				case c.Spec.block(d.Type) != nil && (c.Spec.block(d.Type).Kind == kSingle || c.Spec.block(d.Type).Kind == kAttrs):
					// hcldec.BlockSpec / BlockAttrsSpec never apply the body's value marks
					// (no prepareBodyVal): a generated block without a marked attribute value
					// carries nothing
					fail("marks-lost-single-block-spec", fmt.Sprintf("dynamic %q decoded by BlockSpec/BlockAttrsSpec: the marked for_each %s leaves no mark %v in the decoded value: %s", d.Type, d.ForEach, m, hv.DumpVal(v1)))
				default:
					fail("marks-lost", fmt.Sprintf("dynamic %q: the marked for_each %s leaves no mark %v in the decoded value: %s", d.Type, d.ForEach, m, hv.DumpVal(v1)))
				}
			}
		}
	}

	// ---- unknown for_each ------------------------------------------------------------------------
	if u.stuck == "for_each-unknown" || strings.Contains(text, "u_list") || strings.Contains(text, "u_map") || strings.Contains(text, "u_set") || strings.Contains(text, "u_dyn") || strings.Contains(text, "mk_ulist") {
		ity := hcldec.ImpliedType(spec)
		uv1, _ := v1.UnmarkDeep()
		if errs := uv1.Type().TestConformance(ity); len(errs) > 0 {
			fail("unknown-foreach-not-conforming", fmt.Sprintf("result %s does not conform to implied type %s: %v", hv.DumpVal(v1), hv.DumpType(ity), errs))
		} else {
			rep.Hist("oracle:unknown-conforms")
		}
		ectx2 := concretise(c.ECtx)
		dctx3 := c.DCtx
		if c.DCtx == c.ECtx {
			dctx3 = ectx2
		}
		v3, d3, p3 := decodeSafe(dynblock.Expand(f.Body, ectx2), spec, dctx3)
		if p3 == nil && !d1.HasErrors() && !d3.HasErrors() {
			if !approximates(v1, v3) {
				fail("unknown-foreach-not-conforming", fmt.Sprintf("result with unknown for_each %s is not an approximation of the result with a one-element collection %s", hv.DumpVal(v1), hv.DumpVal(v3)))
			} else {
				rep.Hist("oracle:unknown-approximates")
			}
		}
	}

	// ---- variables needed for expansion -----------------------------------------------------------
	{
		var trs []hcl.Traversal
		func() {
			defer func() {
				if p := recover(); p != nil {
					fail("panic", fmt.Sprintf("ExpandVariablesHCLDec panicked: %v", p))
				}
			}()
			trs = dynblock.ExpandVariablesHCLDec(f.Body, spec)
		}()
		roots := map[string]bool{}
		for _, t := range trs {
			roots[t.RootName()] = true
		}
		all := flatten(c.ECtx)
		restricted := map[string]cty.Value{}
		for k, v := range all {
			if roots[k] {
				restricted[k] = v
			}
		}
		rctx := &hcl.EvalContext{Variables: restricted, Functions: hv.HarnessFuncs}
		var obsR *obsTree
		var pr any
		func() {
			defer func() { pr = recover() }()
			obsR = observe(dynblock.Expand(f.Body, rctx), c.Spec, c.DCtx)
		}()
		if pr != nil {
			fail("panic", fmt.Sprintf("Expand with restricted context panicked: %v", pr))
		} else if obsR.dump(true) != obs1.dump(true) {
			fail("expand-variables-insufficient", fmt.Sprintf("reported roots %v\nfull context: %s\nrestricted:   %s", hv.SortedKeys(roots), obs1.dump(false), obsR.dump(false)))
		} else {
			rep.Hist("oracle:expand-variables-sufficient")
			if len(roots) > 0 {
				rep.Hist("oracle:expand-variables-sufficient(nonempty)")
			}
		}
	}

	// ---- reported variables: sufficiency and expected root sets (varsoracle.go) --------------------
	varsOracle(c, f.Body, spec, v1, d1, rep, fail)

	// ---- decoding in several steps over the chain of remaining bodies (multistep.go) ---------------
	multiStepOracle(c, f.Body, v1, d1, rep, fail)

	// ---- PartialContent then Content of the rest == Content ------------------------------------------
	for _, blk := range obs1.Blocks {
		bd := c.Spec.block(blk.Type)
		if bd == nil || bd.Kind == kAttrs {
			continue
		}
		s1, s2 := twoStep(blk.Body, bd.Nested, c.DCtx)
		got := map[string]string{}
		for _, a := range append(append([]obsAttr{}, s1.Attrs...), s2.Attrs...) {
			got[a.Name] = hv.DumpVal(a.Val)
		}
		// every attribute exactly once over the two steps, the same set as in one step
		var twoNames, oneNames []string
		for _, a := range s1.Attrs {
			twoNames = append(twoNames, a.Name)
		}
		for _, a := range s2.Attrs {
			twoNames = append(twoNames, a.Name)
		}
		for _, a := range blk.Sub.Attrs {
			oneNames = append(oneNames, a.Name)
		}
		sort.Strings(twoNames)
		sort.Strings(oneNames)
		if strings.Join(twoNames, ",") != strings.Join(oneNames, ",") {
			fail("partial-differs-from-content", fmt.Sprintf("block %s%q: Content returns attributes [%s], PartialContent + remain.Content return [%s]", blk.Type, blk.Labels, strings.Join(oneNames, ","), strings.Join(twoNames, ",")))
			continue
		}
		for _, a := range blk.Sub.Attrs {
			if g, ok := got[a.Name]; ok && g != hv.DumpVal(a.Val) {
				kind := "partial-differs-from-content"
				if len(blk.Sub.Marks) > 0 {
					kind = "partial-remain-loses-marks"
				}
				fail(kind, fmt.Sprintf("block %s%q attribute %s: Content gives %s, PartialContent+remain.Content gives %s", blk.Type, blk.Labels, a.Name, hv.DumpVal(a.Val), g))
				break
			}
		}
	}
	return out
}
