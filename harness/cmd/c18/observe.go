package main

// Observation of a body level by level (the harness's own walk, not hcldec):
// Content(schema) at each level of the specification tree, JustAttributes for
// BlockAttrsSpec children, every exposed attribute expression evaluated in the
// decoding context.  Printed as the Coq type gtree of Dyn/ExpandCheck.v; and the
// conversion of the parsed configuration to the model's input type dbody.

import (
	"fmt"
	"sort"
	"strings"

	"github.com/hashicorp/hcl/v2"
	"github.com/hashicorp/hcl/v2/hcldec"
	"github.com/hashicorp/hcl/v2/hclsyntax"
	"github.com/zclconf/go-cty/cty"
	"hclverif/hv"
)

type obsAttr struct {
	Name  string
	Val   cty.Value
	Diags hcl.Diagnostics
}
type obsBlock struct {
	Type   string
	Labels []string
	Sub    *obsTree
	Body   hcl.Body
}
type obsTree struct {
	Err     bool
	Attrs   []obsAttr
	Blocks  []obsBlock
	Marks   cty.ValueMarks
	Unknown bool
}

func bodyMarks(b hcl.Body) cty.ValueMarks {
	if m, ok := b.(hcldec.MarkedBody); ok {
		return m.BodyValueMarks()
	}
	return nil
}
func bodyUnknown(b hcl.Body) bool {
	if u, ok := b.(hcldec.UnknownBody); ok {
		return u.Unknown()
	}
	return false
}

func evalAttrs(attrs []*hcl.Attribute, rho *hcl.EvalContext) []obsAttr {
	var out []obsAttr
	for _, a := range attrs {
		v, d := a.Expr.Value(rho)
		out = append(out, obsAttr{a.Name, v, d})
	}
	return out
}

// attributes returned by Content / PartialContent: those the schema names in schema
// order, then any the schema does NOT name (there must be none: the model never returns
// one; a body that hands back an attribute consumed by an earlier PartialContent shows
// up here), by name
func inSchemaOrder(schema *hcl.BodySchema, attrs hcl.Attributes) []*hcl.Attribute {
	var out []*hcl.Attribute
	named := map[string]bool{}
	for _, as := range schema.Attributes {
		named[as.Name] = true
		if a, ok := attrs[as.Name]; ok {
			out = append(out, a)
		}
	}
	var extra []string
	for n := range attrs {
		if !named[n] {
			extra = append(extra, n)
		}
	}
	sort.Strings(extra)
	for _, n := range extra {
		out = append(out, attrs[n])
	}
	return out
}

func observe(body hcl.Body, n *specNode, rho *hcl.EvalContext) *obsTree {
	t := &obsTree{Marks: bodyMarks(body), Unknown: bodyUnknown(body)}
	schema := n.schema()
	content, diags := body.Content(schema)
	t.Err = diags.HasErrors()
	t.Attrs = evalAttrs(inSchemaOrder(schema, content.Attributes), rho)
	for _, blk := range content.Blocks {
		bd := n.block(blk.Type)
		ob := obsBlock{Type: blk.Type, Labels: blk.Labels, Body: blk.Body}
		switch {
		case bd == nil:
			ob.Sub = &obsTree{}
		case bd.Kind == kAttrs:
			ob.Sub = observeJust(blk.Body, rho)
		default:
			ob.Sub = observe(blk.Body, bd.Nested, rho)
		}
		t.Blocks = append(t.Blocks, ob)
	}
	return t
}

func observeJust(body hcl.Body, rho *hcl.EvalContext) *obsTree {
	t := &obsTree{Marks: bodyMarks(body), Unknown: bodyUnknown(body)}
	attrs, diags := body.JustAttributes()
	t.Err = diags.HasErrors()
	var as []*hcl.Attribute
	for _, a := range attrs {
		as = append(as, a)
	}
	sort.Slice(as, func(i, j int) bool { return as[i].Range.Start.Byte < as[j].Range.Start.Byte })
	t.Attrs = evalAttrs(as, rho)
	return t
}

func coqLabels(ls []string) string {
	var p []string
	for _, l := range ls {
		p = append(p, hv.CoqStr(l))
	}
	return hv.CoqList(p)
}

func coqObsAttrs(as []obsAttr, info *hv.ValInfo) string {
	var p []string
	for _, a := range as {
		p = append(p, fmt.Sprintf("(%s, (%s, %s))", hv.CoqStr(a.Name), hv.CoqVal(a.Val, info), hv.CoqDiagSummaries(a.Diags)))
	}
	return hv.CoqList(p)
}

func (t *obsTree) coq(info *hv.ValInfo) string {
	var bs []string
	for _, b := range t.Blocks {
		bs = append(bs, fmt.Sprintf("(%s, %s, %s)", hv.CoqStr(b.Type), coqLabels(b.Labels), b.Sub.coq(info)))
	}
	return fmt.Sprintf("(GNode %s %s\n   %s %s %s)", hv.CoqBool(t.Err), coqObsAttrs(t.Attrs, info), hv.CoqList(bs), hv.CoqMarks(t.Marks), hv.CoqBool(t.Unknown))
}

// a canonical text of the observation, for comparisons on the Go side
func (t *obsTree) dump(withValues bool) string {
	var b strings.Builder
	fmt.Fprintf(&b, "{err=%v marks=%s unk=%v", t.Err, hv.CoqMarks(t.Marks), t.Unknown)
	for _, a := range t.Attrs {
		if withValues {
			fmt.Fprintf(&b, " %s=%s/%v", a.Name, hv.DumpVal(a.Val), a.Diags.HasErrors())
		} else {
			fmt.Fprintf(&b, " %s", a.Name)
		}
	}
	for _, blk := range t.Blocks {
		fmt.Fprintf(&b, " %s%q%s", blk.Type, blk.Labels, blk.Sub.dump(withValues))
	}
	b.WriteString("}")
	return b.String()
}

// the (type, labels) sequence of every level, as a multiset-comparable text
func (t *obsTree) shape(sorted bool) string {
	var parts []string
	for _, blk := range t.Blocks {
		parts = append(parts, fmt.Sprintf("%s%q%s", blk.Type, blk.Labels, blk.Sub.shape(sorted)))
	}
	if sorted {
		sort.Strings(parts)
	}
	return "[" + strings.Join(parts, " ") + "]"
}

// ---- the two-step observation (PartialContent, then Content of the rest) -----------------------------

type shallow struct {
	Err    bool
	Attrs  []obsAttr
	Blocks []obsBlock
}

func splitSchema(s *hcl.BodySchema) (a, b *hcl.BodySchema) {
	a, b = &hcl.BodySchema{}, &hcl.BodySchema{}
	for i, x := range s.Attributes {
		if i%2 == 0 {
			a.Attributes = append(a.Attributes, x)
		} else {
			b.Attributes = append(b.Attributes, x)
		}
	}
	for i, x := range s.Blocks {
		if i%2 == 0 {
			a.Blocks = append(a.Blocks, x)
		} else {
			b.Blocks = append(b.Blocks, x)
		}
	}
	return
}

func mkShallow(schema *hcl.BodySchema, c *hcl.BodyContent, d hcl.Diagnostics, rho *hcl.EvalContext) *shallow {
	s := &shallow{Err: d.HasErrors()}
	s.Attrs = evalAttrs(inSchemaOrder(schema, c.Attributes), rho)
	for _, blk := range c.Blocks {
		s.Blocks = append(s.Blocks, obsBlock{Type: blk.Type, Labels: blk.Labels, Body: blk.Body})
	}
	return s
}

func twoStep(body hcl.Body, n *specNode, rho *hcl.EvalContext) (s1, s2 *shallow) {
	sa, sb := splitSchema(n.schema())
	c1, remain, d1 := body.PartialContent(sa)
	s1 = mkShallow(sa, c1, d1, rho)
	c2, d2 := remain.Content(sb)
	s2 = mkShallow(sb, c2, d2, rho)
	return
}

func (s *shallow) coq(info *hv.ValInfo) string {
	var bs []string
	for _, b := range s.Blocks {
		bs = append(bs, fmt.Sprintf("(%s, %s, %s, %s)", hv.CoqStr(b.Type), coqLabels(b.Labels), hv.CoqMarks(bodyMarks(b.Body)), hv.CoqBool(bodyUnknown(b.Body))))
	}
	return fmt.Sprintf("(mkGS %s %s %s)", hv.CoqBool(s.Err), coqObsAttrs(s.Attrs, info), hv.CoqList(bs))
}

// ---- parsed configuration -> dbody -------------------------------------------------------------------

type srcItem struct {
	pos  int
	term string
}

func coqBody(b *hclsyntax.Body, info *hv.ValInfo) string {
	var items []srcItem
	for _, a := range b.Attributes {
		items = append(items, srcItem{a.SrcRange.Start.Byte, "DAttr " + hv.CoqStr(a.Name) + " " + hv.CoqExpr(a.Expr, info)})
	}
	for _, blk := range b.Blocks {
		items = append(items, srcItem{blk.TypeRange.Start.Byte, coqBlock(blk, info)})
	}
	sort.Slice(items, func(i, j int) bool { return items[i].pos < items[j].pos })
	var ts []string
	for _, it := range items {
		ts = append(ts, it.term)
	}
	return hv.CoqList(ts)
}

func coqBlock(blk *hclsyntax.Block, info *hv.ValInfo) string {
	if blk.Type != "dynamic" {
		return "DBlock " + hv.CoqStr(blk.Type) + " " + coqLabels(blk.Labels) + " " + coqBody(blk.Body, info)
	}
	if len(blk.Labels) != 1 {
		return "DDynBad None"
	}
	t := blk.Labels[0]
	bad := "DDynBad (Some " + hv.CoqStr(t) + ")"
	var forEach hclsyntax.Expression
	iter := "None"
	var labels []string
	for name, a := range blk.Body.Attributes {
		switch name {
		case "for_each":
			forEach = a.Expr
		case "iterator":
			tr, d := hcl.AbsTraversalForExpr(a.Expr)
			if d.HasErrors() || len(tr) != 1 {
				return bad
			}
			iter = "(Some " + hv.CoqStr(tr.RootName()) + ")"
		case "labels":
			es, d := hcl.ExprList(a.Expr)
			if d.HasErrors() || len(es) == 0 {
				// an explicit empty list is an error whatever the schema says: with label
				// names "Insufficient dynamic block labels", without "Unsupported argument"
				return bad
			}
			for _, e := range es {
				se, ok := e.(hclsyntax.Expression)
				if !ok {
					info.Unsupported = true
					return bad
				}
				labels = append(labels, hv.CoqExpr(se, info))
			}
		default:
			return bad
		}
	}
	if forEach == nil {
		return bad
	}
	if len(blk.Body.Blocks) != 1 || blk.Body.Blocks[0].Type != "content" || len(blk.Body.Blocks[0].Labels) != 0 {
		return bad
	}
	return fmt.Sprintf("DDynamic %s %s %s %s %s", hv.CoqStr(t), hv.CoqExpr(forEach, info), iter, hv.CoqList(labels), coqBody(blk.Body.Blocks[0].Body, info))
}
