package main

// The iterator-name-collision shape.
//
// The caller's scope contains root variables whose names EQUAL iterator names used in
// the body (block type names, which are the default iterator names, and the explicit
// `iterator = x` names).  Which binding a reference sees depends on where it stands:
//
//   - the for_each of a dynamic block is evaluated WITHOUT that block's own iterator:
//     a root name equal to the own iterator name is the caller's variable there, unless
//     an ENCLOSING dynamic block binds the same name (then it is the inherited iterator);
//   - labels and content see the own iterator and every inherited one;
//   - the iterator name of a SIBLING dynamic block, or of a dynamic block NESTED inside
//     the content, is never in scope: it is the caller's variable.
//
// Every name in play is bound in the context to object{key, value = list(string),
// alt = map(string)}: usable as a for_each collection (`n.value`, `n.alt`) and, when
// wrongly taken for an iterator (or an iterator wrongly taken for it), giving another
// value or an error.  The generator knows the scoping only to pick an expression form
// that is well-typed under the right reading; the references (unrolled text, pruned
// contexts, expected root sets) are computed in oracle.go / varsoracle.go.

import (
	"fmt"
	"sort"

	"github.com/hashicorp/hcl/v2"
	"github.com/zclconf/go-cty/cty"
	"hclverif/hv"
)

var collideTypes = []string{"a", "b", "c"}
var collideIters = []string{"it", "x"}

// the caller's variable of the given name
func collideVar(name string, n int) cty.Value {
	vs := []cty.Value{cty.StringVal(name + "0")}
	if n > 1 {
		vs = append(vs, cty.StringVal(name+"1"))
	}
	return cty.ObjectVal(map[string]cty.Value{
		"key":   cty.StringVal(name + "K"),
		"value": cty.ListVal(vs),
		"alt":   cty.MapVal(map[string]cty.Value{"m": cty.StringVal(name + "m"), "n": cty.StringVal(name + "n")}),
	})
}

type collideGen struct {
	r    *hv.Rng
	feat map[string]int
	maxL int
}

func (g *collideGen) f(s string) { g.feat[s]++ }

func inNames(xs []string, x string) bool {
	for _, y := range xs {
		if y == x {
			return true
		}
	}
	return false
}

// ---- specification and skeleton ---------------------------------------------------------

func (g *collideGen) spec(level, depth int) *specNode {
	r := g.r
	n := &specNode{Attrs: []attrDef{{"p", cty.String, false}, {"q", cty.String, false}}}
	if level >= depth {
		return n
	}
	nb := 1
	if level == 0 && r.Chance(0.3) {
		nb = 2
	}
	perm := r.Perm(len(collideTypes))
	for i := 0; i < nb; i++ {
		b := blockDef{Type: collideTypes[perm[i]], Kind: kList}
		switch x := r.Intn(100); {
		case x < 30:
			b.Kind = kMap
			b.LabelNames = []string{"key"}
		case x < 38:
			b.Kind = kSet
		case x < 48 && level+1 >= depth:
			b.Kind = kAttrs
		}
		if b.Kind != kAttrs {
			b.Nested = g.spec(level+1, depth)
		}
		n.Blocks = append(n.Blocks, b)
	}
	return n
}

// the dynamic (and a few static) blocks of one body, without expressions
func (g *collideGen) skeleton(n *specNode, level int, types []string) []gItem {
	r := g.r
	var items []gItem
	for i := range n.Blocks {
		b := &n.Blocks[i]
		cnt := 1
		if r.Chance([]float64{0.45, 0.3, 0.2}[minInt(level, 2)]) {
			cnt = 2
		}
		for k := 0; k < cnt; k++ {
			d := &gDyn{Type: b.Type}
			if r.Chance(0.5) {
				// explicit iterator: a neutral name, or the name of a block type in play
				if r.Chance(0.6) {
					d.Iterator = collideIters[r.Intn(len(collideIters))]
				} else {
					d.Iterator = types[r.Intn(len(types))]
				}
			}
			if b.Kind != kAttrs {
				d.Content = g.skeleton(b.Nested, level+1, types)
			}
			items = append(items, gItem{Dyn: d})
		}
		if r.Chance(0.2) {
			sb := &gBlock{Type: b.Type}
			for range b.LabelNames {
				sb.Labels = append(sb.Labels, "st")
			}
			if b.Kind != kAttrs && r.Chance(0.5) {
				sb.Body = g.skeleton(b.Nested, level+1, types)
			}
			items = append(items, gItem{Block: sb})
		}
	}
	r.Shuffle(len(items), func(i, j int) { items[i], items[j] = items[j], items[i] })
	return items
}

func minInt(a, b int) int {
	if a < b {
		return a
	}
	return b
}

func specTypes(n *specNode, acc map[string]bool) {
	for _, b := range n.Blocks {
		acc[b.Type] = true
		if b.Nested != nil {
			specTypes(b.Nested, acc)
		}
	}
}

// iterator names of the dynamic blocks in items (deep)
func innerIterNames(items []gItem, acc *[]string) {
	for _, it := range items {
		switch {
		case it.Dyn != nil:
			if !inNames(*acc, it.Dyn.iterName()) {
				*acc = append(*acc, it.Dyn.iterName())
			}
			innerIterNames(it.Dyn.Content, acc)
		case it.Block != nil:
			innerIterNames(it.Block.Body, acc)
		}
	}
}

// ---- expressions -------------------------------------------------------------------------

// a string-valued expression referring to root name nm; scope = the iterator names bound there
func (g *collideGen) strRef(nm string, scope []string) string {
	ref := "«" + nm + "»"
	if inNames(scope, nm) {
		return g.r.Pick(ref+".value", `"${`+ref+`.key}"`, `"${`+ref+`.key}:${`+ref+`.value}"`, "upper("+ref+".value)")
	}
	return g.r.Pick(ref+".key", ref+".value[0]", `"${`+ref+`.key}!"`, ref+".alt.m")
}

// a collection of strings computed from root name nm
func (g *collideGen) collRef(nm string, scope []string) string {
	ref := "«" + nm + "»"
	if inNames(scope, nm) {
		return g.r.Pick("["+ref+`.value, "${`+ref+`.key}"]`, "{k = "+ref+".value}", "["+ref+".value]")
	}
	return g.r.Pick(ref+".value", ref+".value", ref+".alt", "[for v in "+ref+".value : upper(v)]")
}

// pick a name of the wanted relation; "" when there is none
func (g *collideGen) pickName(cands []string, not ...string) string {
	var ok []string
	for _, c := range cands {
		if !inNames(not, c) {
			ok = append(ok, c)
		}
	}
	if len(ok) == 0 {
		return ""
	}
	return ok[g.r.Intn(len(ok))]
}

// one attribute expression of a body whose enclosing iterators are encl (own = last);
// inner = iterator names of dynamic blocks inside this body, all = every name in play
func (g *collideGen) contentExpr(encl, inner, all []string, where string) string {
	r := g.r
	for try := 0; try < 4; try++ {
		switch x := r.Intn(100); {
		case x < 30 && len(encl) > 0:
			g.f("collide:" + where + "=own-iterator")
			return g.strRef(encl[len(encl)-1], encl)
		case x < 42 && len(encl) > 1:
			g.f("collide:" + where + "=enclosing-iterator")
			return g.strRef(encl[r.Intn(len(encl)-1)], encl)
		case x < 64:
			if nm := g.pickName(inner, encl...); nm != "" {
				g.f("collide:" + where + "=inner-iterator-name(caller)")
				return g.strRef(nm, encl)
			}
		case x < 86:
			if nm := g.pickName(all, append(append([]string{}, encl...), inner...)...); nm != "" {
				g.f("collide:" + where + "=other-iterator-name(caller)")
				return g.strRef(nm, encl)
			}
		default:
			g.f("collide:" + where + "=plain")
			return r.Pick(`"lit"`, "v_str", `"${v_str}!"`)
		}
	}
	g.f("collide:" + where + "=plain")
	return `"lit"`
}

// ---- filling in -----------------------------------------------------------------------------

func (g *collideGen) fill(items []gItem, n *specNode, encl, all []string, level int) []gItem {
	r := g.r
	var inner []string
	innerIterNames(items, &inner)
	var sibs []string
	for _, it := range items {
		if it.Dyn != nil {
			sibs = append(sibs, it.Dyn.iterName())
		}
	}
	where := "content"
	if len(encl) == 0 {
		where = "top-level-attr"
	}
	var out []gItem
	for _, a := range n.Attrs {
		if r.Chance(0.65) {
			out = append(out, gItem{Attr: &gAttr{a.Name, g.contentExpr(encl, inner, all, where)}})
		}
	}
	for idx, it := range items {
		switch {
		case it.Block != nil:
			bd := n.block(it.Block.Type)
			if bd.Kind == kAttrs {
				it.Block.Body = []gItem{{Attr: &gAttr{"u", g.contentExpr(encl, nil, all, "static-just-attr")}}}
			} else {
				it.Block.Body = g.fill(it.Block.Body, bd.Nested, encl, all, level+1)
			}
		case it.Dyn != nil:
			d := it.Dyn
			bd := n.block(d.Type)
			own := d.iterName()
			if d.Iterator != "" {
				g.f("collide:explicit-iterator")
			} else {
				g.f("collide:default-iterator")
			}
			g.f(fmt.Sprintf("collide:dynamic-level%d", level+1))
			if level+1 > g.maxL {
				g.maxL = level + 1
			}
			var dInner []string
			innerIterNames(d.Content, &dInner)
			var dSibs []string
			for j, s := range sibs {
				if j != idxOfDyn(items, idx) && s != own {
					dSibs = append(dSibs, s)
				}
			}
			// for_each: scope = encl (the own iterator is NOT bound)
			d.ForEach = ""
			for try := 0; try < 4 && d.ForEach == ""; try++ {
				switch x := r.Intn(100); {
				case x < 38:
					if inNames(encl, own) {
						g.f("collide:for_each=own-name(bound-by-enclosing)")
					} else {
						g.f("collide:for_each=own-name(caller)")
					}
					d.ForEach = g.collRef(own, encl)
				case x < 54 && len(encl) > 0:
					g.f("collide:for_each=enclosing-iterator")
					d.ForEach = g.collRef(encl[r.Intn(len(encl))], encl)
				case x < 68:
					if nm := g.pickName(dSibs, encl...); nm != "" {
						g.f("collide:for_each=sibling-iterator-name(caller)")
						d.ForEach = g.collRef(nm, encl)
					}
				case x < 82:
					if nm := g.pickName(dInner, append([]string{own}, encl...)...); nm != "" {
						g.f("collide:for_each=inner-iterator-name(caller)")
						d.ForEach = g.collRef(nm, encl)
					}
				case x < 90:
					if nm := g.pickName(all, append(append(append([]string{own}, encl...), dInner...), dSibs...)...); nm != "" {
						g.f("collide:for_each=other-iterator-name(caller)")
						d.ForEach = g.collRef(nm, encl)
					}
				default:
					g.f("collide:for_each=plain")
					d.ForEach = r.Pick(`["p", "q"]`, "sh_o", `{k1 = "v1"}`)
				}
			}
			if d.ForEach == "" {
				g.f("collide:for_each=plain")
				d.ForEach = `["p", "q"]`
			}
			scope := append(append([]string{}, encl...), own)
			// labels: scope = encl + own
			for range bd.LabelNames {
				ownKey := `${«` + own + `».key}`
				switch x := r.Intn(100); {
				case x < 25:
					g.f("collide:label=own-iterator")
					d.Labels = append(d.Labels, `"`+ownKey+`"`)
				case x < 45 && len(encl) > 0:
					g.f("collide:label=enclosing-iterator")
					e := encl[r.Intn(len(encl))]
					d.Labels = append(d.Labels, `"`+ownKey+`-${«`+e+`».key}"`)
				case x < 65:
					if nm := g.pickName(dSibs, scope...); nm != "" {
						g.f("collide:label=sibling-iterator-name(caller)")
						d.Labels = append(d.Labels, `"`+ownKey+`-${`+g.strRef(nm, scope)+`}"`)
						break
					}
					fallthrough
				case x < 85:
					if nm := g.pickName(dInner, scope...); nm != "" {
						g.f("collide:label=inner-iterator-name(caller)")
						d.Labels = append(d.Labels, `"`+ownKey+`-${`+g.strRef(nm, scope)+`}"`)
						break
					}
					fallthrough
				default:
					if nm := g.pickName(all, scope...); nm != "" {
						g.f("collide:label=other-iterator-name(caller)")
						d.Labels = append(d.Labels, `"`+ownKey+`-${`+g.strRef(nm, scope)+`}"`)
					} else {
						g.f("collide:label=own-iterator")
						d.Labels = append(d.Labels, `"`+ownKey+`"`)
					}
				}
			}
			if bd.Kind == kAttrs {
				d.Content = nil
				for _, nm := range []string{"u", "v"} {
					if nm == "u" || r.Chance(0.5) {
						d.Content = append(d.Content, gItem{Attr: &gAttr{nm, g.contentExpr(scope, nil, all, "just-attr")}})
					}
				}
			} else {
				d.Content = g.fill(d.Content, bd.Nested, scope, all, level+1)
			}
		}
		out = append(out, it)
	}
	return out
}

// position of items[idx] among the dynamic items
func idxOfDyn(items []gItem, idx int) int {
	k := 0
	for i := 0; i < idx; i++ {
		if items[i].Dyn != nil {
			k++
		}
	}
	return k
}

// genCollide returns the specification, the body and the caller's variables to add.
func genCollide(r *hv.Rng, feat map[string]int) (*specNode, []gItem, map[string]cty.Value) {
	g := &collideGen{r: r, feat: feat}
	depth := 1 + r.Intn(3)
	spec := g.spec(0, depth)
	spec.Attrs = spec.Attrs[:1]
	ts := map[string]bool{}
	specTypes(spec, ts)
	types := hv.SortedKeys(ts)
	items := g.skeleton(spec, 0, types)
	var all []string
	innerIterNames(items, &all)
	for _, t := range types {
		if !inNames(all, t) {
			all = append(all, t)
		}
	}
	sort.Strings(all)
	items = g.fill(items, spec, nil, all, 0)
	vars := map[string]cty.Value{}
	for _, nm := range all {
		vars[nm] = collideVar(nm, 1+r.Intn(2))
	}
	g.f("shape:iterator-name-collision")
	g.f(fmt.Sprintf("shape:iterator-name-collision:%d-levels", g.maxL))
	return spec, items, vars
}

// the case of the collision stream: the usual context plus the colliding variables
func generateCollide(r *hv.Rng) *genCase {
	cg := &ctxGen{r: r}
	ectx := cg.gen()
	feat := map[string]int{}
	spec, items, vars := genCollide(r, feat)
	full := flatten(ectx)
	for k, v := range vars {
		full[k] = v
	}
	ctx := &hcl.EvalContext{Variables: full, Functions: hv.HarnessFuncs}
	feat["ctx:same"]++
	return &genCase{Spec: spec, Items: items, ECtx: ctx, DCtx: ctx, Feat: feat}
}

// variables the collision corpus cases rely on
func collideCorpusVars(name string) map[string]cty.Value {
	if len(name) < 8 || name[:8] != "collide-" {
		return nil
	}
	out := map[string]cty.Value{}
	for _, nm := range []string{"a", "b", "c", "it", "x"} {
		out[nm] = collideVar(nm, 2)
	}
	return out
}

func collideCorpus() []corpusCase {
	listOf := func(t string, k blockKind, labels []string, nested *specNode) *specNode {
		return &specNode{Attrs: strAttr("p"), Blocks: []blockDef{{t, k, labels, nested}}}
	}
	return []corpusCase{
		// for_each names the caller's variable called like the block's own (default) iterator
		{"collide-for_each-own-default-iterator", listOf("a", kList, nil, leaf("p", "q")), []gItem{
			blk("a", nil, at("p", `"static"`)),
			dyn("a", "«a».value", "", nil, at("p", "«a».value"), at("q", `"${«a».key}"`))}},
		// the same with an explicit iterator, next to a sibling whose iterator name it also uses
		{"collide-for_each-own-explicit-iterator-and-sibling", listOf("a", kMap, []string{"key"}, leaf("p", "q")), []gItem{
			at("p", "«x».key"),
			dyn("a", "«x».alt", "x", []string{`"${«x».key}-${«it».key}"`}, at("p", "«x».value"), at("q", "«it».value[0]")),
			dyn("a", "«x».value", "it", []string{`"${«it».key}+${«x».key}"`}, at("p", "«it».value"), at("q", "«a».key"))}},
		// three levels: the innermost for_each names its own iterator, which an enclosing block binds;
		// the middle one names the inner block's iterator (caller's) and its own (caller's)
		{"collide-nested-own-inherited-inner", listOf("a", kList, nil, &specNode{Attrs: strAttr("p"), Blocks: []blockDef{{"b", kList, nil, &specNode{Attrs: strAttr("p"), Blocks: []blockDef{{"a", kMap, []string{"key"}, leaf("p", "q")}}}}}}), []gItem{
			dyn("a", "«a».value", "", nil, at("p", `"${«a».key}:${«a».value}"`),
				dyn("b", "«b».alt", "", nil, at("p", `"${«b».key}/${«c».key}"`),
					dyn("a", `[«a».value, "${«b».key}"]`, "", []string{`"${«a».key}-${«b».key}"`}, at("p", "«a».value"), at("q", "«it».key"))),
				dyn("b", "«c».value", "c", nil, at("p", `"${«c».value}${«b».key}"`)))}},
		// a block read with JustAttributes
		{"collide-just-attributes", &specNode{Attrs: strAttr("p"), Blocks: []blockDef{{"a", kAttrs, nil, nil}}}, []gItem{
			dyn("a", "[«a».key]", "", nil, at("u", "«a».value"), at("v", "«b».key"))}},
	}
}
