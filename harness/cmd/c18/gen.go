package main

// Generator for C18: a hcldec specification tree, evaluation contexts with
// collections of every iterable kind (and unknown / marked / null / non-iterable
// values), and a body mixing static and dynamic blocks.  Expressions that refer to
// iterators are kept as templates («name» marks an iterator reference) so that the
// oracle can write out the unrolled body with every iterator instance bound to its
// own variable.

import (
	"fmt"
	"sort"
	"strings"

	"github.com/hashicorp/hcl/v2"
	"github.com/hashicorp/hcl/v2/hcldec"
	"github.com/zclconf/go-cty/cty"
	"hclverif/hv"
)

// ---- specification tree ---------------------------------------------------------------

type blockKind int

const (
	kList blockKind = iota
	kSet
	kMap
	kSingle
	kTuple
	kObject
	kAttrs // hcldec.BlockAttrsSpec: body read with JustAttributes
)

var kindNames = []string{"list", "set", "map", "single", "tuple", "object", "attrs"}

type attrDef struct {
	Name     string
	Type     cty.Type
	Required bool
}

type blockDef struct {
	Type       string
	Kind       blockKind
	LabelNames []string
	Nested     *specNode // nil for kAttrs
}

type specNode struct {
	Attrs  []attrDef
	Blocks []blockDef
}

// the block definition the specification applies to a block of type t. A type named more than
// once: the LAST entry wins — spec() keys the ObjectSpec by the type (a later entry replaces the
// earlier one), and hclsyntax, the JSON body, hiddenBlocks and (since /repo 5052f97) expandBlocks
// all decode a block under the last schema header of its type. The generators never name a type
// twice (coq() checks it: the Coq schemata tree assumes distinct types, as [conforms] does).
func (n *specNode) block(t string) *blockDef {
	for i := len(n.Blocks) - 1; i >= 0; i-- {
		if n.Blocks[i].Type == t {
			return &n.Blocks[i]
		}
	}
	return nil
}

func (n *specNode) schema() *hcl.BodySchema {
	s := &hcl.BodySchema{}
	for _, a := range n.Attrs {
		s.Attributes = append(s.Attributes, hcl.AttributeSchema{Name: a.Name, Required: a.Required})
	}
	for _, b := range n.Blocks {
		s.Blocks = append(s.Blocks, hcl.BlockHeaderSchema{Type: b.Type, LabelNames: b.LabelNames})
	}
	return s
}

func (n *specNode) spec() hcldec.Spec {
	obj := hcldec.ObjectSpec{}
	for _, a := range n.Attrs {
		obj[a.Name] = &hcldec.AttrSpec{Name: a.Name, Type: a.Type, Required: a.Required}
	}
	for _, b := range n.Blocks {
		key := "blk_" + b.Type
		switch b.Kind {
		case kList:
			obj[key] = &hcldec.BlockListSpec{TypeName: b.Type, Nested: b.Nested.spec()}
		case kSet:
			obj[key] = &hcldec.BlockSetSpec{TypeName: b.Type, Nested: b.Nested.spec()}
		case kMap:
			obj[key] = &hcldec.BlockMapSpec{TypeName: b.Type, LabelNames: b.LabelNames, Nested: b.Nested.spec()}
		case kSingle:
			obj[key] = &hcldec.BlockSpec{TypeName: b.Type, Nested: b.Nested.spec()}
		case kTuple:
			obj[key] = &hcldec.BlockTupleSpec{TypeName: b.Type, Nested: b.Nested.spec()}
		case kObject:
			obj[key] = &hcldec.BlockObjectSpec{TypeName: b.Type, LabelNames: b.LabelNames, Nested: b.Nested.spec()}
		case kAttrs:
			obj[key] = &hcldec.BlockAttrsSpec{TypeName: b.Type, ElementType: cty.String}
		}
	}
	return obj
}

// Coq term of type sch
func (n *specNode) coq() string {
	var as, bs []string
	for _, a := range n.Attrs {
		as = append(as, "("+hv.CoqStr(a.Name)+", "+hv.CoqBool(a.Required)+")")
	}
	seen := map[string]bool{}
	for _, b := range n.Blocks {
		if seen[b.Type] {
			panic("c18: a specification names block type " + b.Type + " twice (spec() would drop an entry)")
		}
		seen[b.Type] = true
		sub := "SJust"
		if b.Kind != kAttrs {
			sub = b.Nested.coq()
		}
		bs = append(bs, fmt.Sprintf("(%s, %d, %s)", hv.CoqStr(b.Type), len(b.LabelNames), sub))
	}
	return "(Sch " + hv.CoqList(as) + " " + hv.CoqList(bs) + ")"
}

func (n *specNode) describe() string {
	var parts []string
	for _, a := range n.Attrs {
		r := ""
		if a.Required {
			r = "!"
		}
		parts = append(parts, a.Name+r+":"+a.Type.FriendlyName())
	}
	for _, b := range n.Blocks {
		sub := ""
		if b.Nested != nil {
			sub = b.Nested.describe()
		}
		parts = append(parts, fmt.Sprintf("%s<%s/%d>{%s}", b.Type, kindNames[b.Kind], len(b.LabelNames), sub))
	}
	return strings.Join(parts, " ")
}

// ---- body AST -----------------------------------------------------------------------------

type gItem struct {
	// exactly one of the three
	Attr  *gAttr
	Block *gBlock
	Dyn   *gDyn
}
type gAttr struct {
	Name string
	Expr string // template
}
type gBlock struct {
	Type   string
	Labels []string
	Body   []gItem
}
type gDyn struct {
	Type     string
	ForEach  string   // template
	Iterator string   // "" = default (the block type)
	Labels   []string // templates; nil = no labels attribute
	Content  []gItem
	// malformations (mutated stream)
	NoForEach   bool
	NoContent   bool
	TwoContent  bool
	ExtraAttr   bool
	BadIterator bool // iterator = a.b
	LabelsNoTup bool // labels = "x"
	LabelsEmpty bool // labels = []
	HeadLabels  int  // 0 = normal (one label), 1 = no label, 2 = two labels
}

func (d *gDyn) iterName() string {
	if d.Iterator != "" {
		return d.Iterator
	}
	return d.Type
}

// render a template: «name» becomes ren[name] when present, else name
func renderT(t string, ren map[string]string) string {
	var b strings.Builder
	for {
		i := strings.Index(t, "«")
		if i < 0 {
			b.WriteString(t)
			break
		}
		j := strings.Index(t[i:], "»")
		if j < 0 {
			b.WriteString(t)
			break
		}
		name := t[i+len("«") : i+j]
		b.WriteString(t[:i])
		if r, ok := ren[name]; ok {
			b.WriteString(r)
		} else {
			b.WriteString(name)
		}
		t = t[i+j+len("»"):]
	}
	return b.String()
}

func quote(s string) string {
	s = strings.ReplaceAll(s, `\`, `\\`)
	s = strings.ReplaceAll(s, `"`, `\"`)
	s = strings.ReplaceAll(s, "\n", `\n`)
	s = strings.ReplaceAll(s, "${", "$${")
	s = strings.ReplaceAll(s, "%{", "%%{")
	return `"` + s + `"`
}

// the configuration text with its dynamic blocks
func renderItems(items []gItem, ind string, b *strings.Builder) {
	for _, it := range items {
		switch {
		case it.Attr != nil:
			fmt.Fprintf(b, "%s%s = %s\n", ind, it.Attr.Name, renderT(it.Attr.Expr, nil))
		case it.Block != nil:
			b.WriteString(ind + it.Block.Type)
			for _, l := range it.Block.Labels {
				b.WriteString(" " + quote(l))
			}
			b.WriteString(" {\n")
			renderItems(it.Block.Body, ind+"  ", b)
			b.WriteString(ind + "}\n")
		case it.Dyn != nil:
			d := it.Dyn
			b.WriteString(ind + "dynamic")
			switch d.HeadLabels {
			case 0:
				b.WriteString(" " + quote(d.Type))
			case 2:
				b.WriteString(" " + quote(d.Type) + ` "extra"`)
			}
			b.WriteString(" {\n")
			in := ind + "  "
			if !d.NoForEach {
				fmt.Fprintf(b, "%sfor_each = %s\n", in, renderT(d.ForEach, nil))
			}
			if d.BadIterator {
				fmt.Fprintf(b, "%siterator = a.b\n", in)
			} else if d.Iterator != "" {
				fmt.Fprintf(b, "%siterator = %s\n", in, d.Iterator)
			}
			switch {
			case d.LabelsNoTup:
				fmt.Fprintf(b, "%slabels = \"x\"\n", in)
			case d.LabelsEmpty:
				fmt.Fprintf(b, "%slabels = []\n", in)
			case len(d.Labels) > 0:
				var ls []string
				for _, l := range d.Labels {
					ls = append(ls, renderT(l, nil))
				}
				fmt.Fprintf(b, "%slabels = [%s]\n", in, strings.Join(ls, ", "))
			}
			if d.ExtraAttr {
				fmt.Fprintf(b, "%sbogus = 1\n", in)
			}
			if !d.NoContent {
				b.WriteString(in + "content {\n")
				renderItems(d.Content, in+"  ", b)
				b.WriteString(in + "}\n")
			}
			if d.TwoContent {
				b.WriteString(in + "content {\n" + in + "}\n")
			}
			b.WriteString(ind + "}\n")
		}
	}
}

func (d *gDyn) malformed() bool {
	return d.NoForEach || d.NoContent || d.TwoContent || d.ExtraAttr || d.BadIterator || d.LabelsNoTup || d.LabelsEmpty || d.HeadLabels != 0
}

// ---- contexts -------------------------------------------------------------------------------

type elemKind int

const (
	eStr elemKind = iota
	eNum
	eBool
	eListStr // value is list(string)
	eObjKV   // value is object{k = string, v = list(string)}
	eMixed
)

type collVar struct {
	Name string
	Elem elemKind
}

var strPool = []string{"a", "b", "k1", "x y", "0", "1", "hello", "v", "w"}
var keyPool = []string{"a", "b", "k1", "k2", "x y", "0", "zz"}

type ctxGen struct {
	r     *hv.Rng
	Colls []collVar // well-formed iterable variables present
	Vars  map[string]cty.Value
}

func (g *ctxGen) str() cty.Value { return cty.StringVal(strPool[g.r.Intn(len(strPool))]) }

func (g *ctxGen) strList(min int) cty.Value {
	n := min + g.r.Small(3)
	if n == 0 {
		return cty.ListValEmpty(cty.String)
	}
	vs := make([]cty.Value, n)
	for i := range vs {
		vs[i] = g.str()
	}
	return cty.ListVal(vs)
}

func (g *ctxGen) strMap(min int) cty.Value {
	n := min + g.r.Small(3)
	m := map[string]cty.Value{}
	for i := 0; i < n; i++ {
		m[keyPool[g.r.Intn(len(keyPool))]] = g.str()
	}
	if len(m) == 0 {
		return cty.MapValEmpty(cty.String)
	}
	return cty.MapVal(m)
}

func (g *ctxGen) gen() *hcl.EvalContext {
	r := g.r
	v := map[string]cty.Value{}
	add := func(name string, val cty.Value, e elemKind, coll bool) {
		if r.Chance(0.12) {
			return
		}
		v[name] = val
		if coll {
			g.Colls = append(g.Colls, collVar{name, e})
		}
	}
	add("l_str", g.strList(0), eStr, true)
	{
		n := r.Small(3)
		vs := []cty.Value{}
		for i := 0; i < n; i++ {
			vs = append(vs, cty.NumberIntVal(int64(r.Intn(9))))
		}
		if n == 0 {
			add("l_num", cty.ListValEmpty(cty.Number), eNum, true)
		} else {
			add("l_num", cty.ListVal(vs), eNum, true)
		}
	}
	{
		n := r.Small(3)
		vs := []cty.Value{}
		for i := 0; i < n; i++ {
			vs = append(vs, g.str())
		}
		if n == 0 {
			add("s_str", cty.SetValEmpty(cty.String), eStr, true)
		} else {
			add("s_str", cty.SetVal(vs), eStr, true)
		}
	}
	add("m_str", g.strMap(0), eStr, true)
	add("o_mix", cty.ObjectVal(map[string]cty.Value{"a": g.str(), "b": cty.NumberIntVal(int64(r.Intn(5)))}), eMixed, true)
	add("tp", cty.TupleVal([]cty.Value{g.str(), cty.NumberIntVal(int64(r.Intn(5))), cty.BoolVal(r.Chance(0.5))}), eMixed, true)
	{
		n := 1 + r.Small(2)
		vs := make([]cty.Value, n)
		for i := range vs {
			vs[i] = g.strList(0)
		}
		add("ll", cty.ListVal(vs), eListStr, true)
	}
	{
		m := map[string]cty.Value{}
		n := 1 + r.Small(2)
		for i := 0; i < n; i++ {
			m[keyPool[r.Intn(len(keyPool))]] = g.strList(0)
		}
		add("ml", cty.MapVal(m), eListStr, true)
	}
	{
		n := 1 + r.Small(2)
		vs := make([]cty.Value, n)
		for i := range vs {
			vs[i] = cty.ObjectVal(map[string]cty.Value{"k": g.str(), "v": g.strList(0)})
		}
		add("lo", cty.ListVal(vs), eObjKV, true)
	}
	add("l_empty", cty.ListValEmpty(cty.String), eStr, true)
	add("m_empty", cty.MapValEmpty(cty.String), eStr, true)
	// the rest is not "well-formed iterable": referenced deliberately
	v["u_list"] = cty.UnknownVal(cty.List(cty.String))
	v["u_map"] = cty.UnknownVal(cty.Map(cty.String))
	v["u_set"] = cty.UnknownVal(cty.Set(cty.String))
	v["u_dyn"] = cty.DynamicVal
	v["u_str"] = cty.UnknownVal(cty.String)
	_ = r.Intn(3)
	// one mark per variable, so that the oracle can tell whose mark survived
	v["mk_list"] = g.strList(0).Mark("m1")
	v["mk_empty"] = cty.ListValEmpty(cty.String).Mark("m2")
	v["mk_map"] = g.strMap(0).Mark("m3")
	v["mk_ulist"] = cty.UnknownVal(cty.List(cty.String)).Mark("m4")
	v["mk_str"] = g.str().Mark("m5")
	v["sh_o"] = shadowOuter
	v["sh_i"] = shadowInner
	v["nul_list"] = cty.NullVal(cty.List(cty.String))
	v["nul_dyn"] = cty.NullVal(cty.DynamicPseudoType)
	v["nul_str"] = cty.NullVal(cty.String)
	v["v_str"] = g.str()
	v["v_num"] = cty.NumberIntVal(int64(r.Intn(9)))
	v["v_bool"] = cty.BoolVal(r.Chance(0.5))
	g.Vars = v
	root := &hcl.EvalContext{Variables: v, Functions: hv.HarnessFuncs}
	if r.Chance(0.25) {
		// split over two frames
		child := root.NewChild()
		child.Variables = map[string]cty.Value{}
		for _, k := range hv.SortedKeys(v) {
			if r.Chance(0.3) {
				child.Variables[k] = v[k]
				if r.Chance(0.5) {
					// shadowed value in the parent
					root.Variables[k] = cty.StringVal("shadowed")
				}
			}
		}
		return child
	}
	return root
}

// ---- bodies -----------------------------------------------------------------------------------

type iterScope struct {
	Name string
	Elem elemKind
	KeyS bool // key is a string (map/object), else number (or set element)
}

type bodyGen struct {
	r     *hv.Rng
	cg    *ctxGen
	feat  map[string]int
	depth int // number of enclosing dynamic blocks
	maxD  int
	clean bool // only well-formed for_each and label expressions (the unrolled form exists)
	// the partially-unknown-for_each stream (partial.go): for_each expressions mostly name
	// its collections; nil in the general stream
	partial *partialCfg
}

func (g *bodyGen) f(s string) { g.feat[s]++ }

var typePool = []string{"a", "b", "c", "d", "e"}
var iterPool = []string{"it", "each", "x", "y"}

// genSpec builds a specification tree of the given depth.  dynOK says whether
// attributes of the dynamic pseudo-type may appear (not under list/set/map kinds).
func (g *bodyGen) genSpec(depth int, dynOK bool) *specNode {
	r := g.r
	n := &specNode{}
	na := 1 + r.Small(2)
	names := []string{"p", "q", "s"}
	for i := 0; i < na; i++ {
		ty := cty.String
		switch r.Intn(6) {
		case 0:
			ty = cty.Number
		case 1:
			if dynOK {
				ty = cty.DynamicPseudoType
			}
		}
		n.Attrs = append(n.Attrs, attrDef{names[i], ty, r.Chance(0.2)})
	}
	if depth <= 0 {
		return n
	}
	nb := 1 + r.Small(2)
	perm := r.Perm(len(typePool))
	for i := 0; i < nb; i++ {
		t := typePool[perm[i]]
		k := blockKind(r.Intn(7))
		if k == kAttrs && !r.Chance(0.35) {
			k = kList
		}
		if !dynOK && (k == kTuple || k == kObject) {
			// BlockTupleSpec / BlockObjectSpec imply the dynamic pseudo-type, which hcldec
			// does not support below BlockList/Set/MapSpec (panics or finding #12 of C08)
			k = []blockKind{kList, kSet, kMap, kSingle}[r.Intn(4)]
		}
		b := blockDef{Type: t, Kind: k}
		switch k {
		case kMap:
			b.LabelNames = []string{"key"}
		case kObject:
			b.LabelNames = []string{"key"}
			if r.Chance(0.3) {
				b.LabelNames = []string{"key", "sub"}
			}
		}
		if k != kAttrs {
			sub := dynOK && (k == kSingle || k == kTuple || k == kObject)
			b.Nested = g.genSpec(depth-1, sub)
		}
		n.Blocks = append(n.Blocks, b)
	}
	return n
}

// an expression for an attribute of the given type using the iterators in scope
func (g *bodyGen) attrExpr(ty cty.Type, scope []iterScope) string {
	r := g.r
	if len(scope) > 0 && r.Chance(0.8) {
		// innermost mostly, outer sometimes
		it := scope[len(scope)-1]
		if len(scope) > 1 && r.Chance(0.35) {
			it = scope[r.Intn(len(scope)-1)]
			g.f("attr:outer-iterator")
		} else {
			g.f("attr:iterator")
		}
		ref := "«" + it.Name + "»"
		switch {
		case ty == cty.DynamicPseudoType:
			return r.Pick(ref, "["+ref+".key, "+ref+".value]", ref+".value", "{k = "+ref+".key}")
		case ty == cty.Number:
			if it.Elem == eNum {
				return r.Pick(ref+".value", ref+".value + 1", ref+".value * 2")
			}
			if !it.KeyS {
				return r.Pick(ref+".key", ref+".key + 10")
			}
			return r.Pick("v_num", "sum(1, 2)", ref+".key") // last: may fail to convert
		default:
			switch it.Elem {
			case eStr:
				return r.Pick(ref+".value", `"${`+ref+`.key}-${`+ref+`.value}"`, "upper("+ref+".value)", ref+".key", `"${`+ref+`.value}${v_str}"`)
			case eNum, eBool:
				return r.Pick(ref+".value", `"n${`+ref+`.value}"`, ref+".key")
			case eListStr:
				return r.Pick(ref+".key", `"${`+ref+`.key}:${`+ref+`.value[0]}"`, ref+".value[0]", ref+".value")
			case eObjKV:
				return r.Pick(ref+".value.k", `"${`+ref+`.key}/${`+ref+`.value.k}"`, ref+".value.v[0]")
			default:
				return r.Pick(ref+".key", `"${`+ref+`.key}"`, ref+".value")
			}
		}
	}
	g.f("attr:plain")
	switch {
	case ty == cty.Number:
		return r.Pick("1", "v_num", "v_num + 2", "7")
	case ty == cty.DynamicPseudoType:
		return r.Pick(`"d"`, "[1, 2]", "v_str", "null")
	}
	return r.Pick(`"lit"`, "v_str", `"${v_str}!"`, "upper(v_str)", "u_str", "mk_str", "v_num", "nosuch", "dv")
}

type feChoice struct {
	Expr string
	Elem elemKind
	KeyS bool
	Note string
}

func (g *bodyGen) forEach(scope []iterScope) feChoice {
	r := g.r
	// derived from an outer iterator whose value is a collection
	if len(scope) > 0 && r.Chance(0.4) {
		var cands []iterScope
		for _, s := range scope {
			if s.Elem == eListStr || s.Elem == eObjKV {
				cands = append(cands, s)
			}
		}
		if len(cands) > 0 {
			s := cands[r.Intn(len(cands))]
			g.f("for_each:outer-iterator")
			if s.Elem == eListStr {
				return feChoice{"«" + s.Name + "».value", eStr, false, "outer"}
			}
			return feChoice{"«" + s.Name + "».value.v", eStr, false, "outer"}
		}
	}
	if g.partial != nil && r.Chance(0.85) {
		return g.partial.choose(g)
	}
	x := r.Intn(100)
	if g.clean {
		x = r.Intn(66)
	}
	switch {
	case x < 58 && len(g.cg.Colls) > 0:
		c := g.cg.Colls[r.Intn(len(g.cg.Colls))]
		keyS := strings.HasPrefix(c.Name, "m") || strings.HasPrefix(c.Name, "o_") || strings.HasPrefix(c.Name, "s_")
		g.f("for_each:var:" + c.Name)
		return feChoice{c.Name, c.Elem, keyS, "var"}
	case x < 66:
		g.f("for_each:literal")
		switch r.Intn(4) {
		case 0:
			return feChoice{`["p", "q"]`, eStr, false, "lit"}
		case 1:
			return feChoice{`{k1 = "v1", k2 = "v2"}`, eStr, true, "lit"}
		case 2:
			return feChoice{`[]`, eStr, false, "lit"}
		default:
			return feChoice{`[for s in ["b", "a"] : upper(s)]`, eStr, false, "lit"}
		}
	case x < 76:
		g.f("for_each:unknown")
		return feChoice{r.Pick("u_list", "u_map", "u_set", "u_dyn", "mk_ulist"), eStr, false, "unknown"}
	case x < 86:
		g.f("for_each:marked")
		return feChoice{r.Pick("mk_list", "mk_empty", "mk_map"), eStr, false, "marked"}
	case x < 91:
		g.f("for_each:null")
		return feChoice{r.Pick("nul_list", "nul_dyn", "null"), eStr, false, "null"}
	case x < 96:
		g.f("for_each:non-iterable")
		return feChoice{r.Pick("v_str", "v_num", "v_bool", `"abc"`, "u_str"), eStr, false, "noniter"}
	default:
		g.f("for_each:error")
		return feChoice{r.Pick("nosuch", "fail(v_str)", "l_str[9]", "«self»"), eStr, false, "error"}
	}
}

func (g *bodyGen) labelExpr(it iterScope, scope []iterScope) string {
	r := g.r
	ref := "«" + it.Name + "»"
	x := r.Intn(100)
	if g.clean {
		x = r.Intn(75)
	}
	switch {
	case x < 50:
		g.f("label:iterator-key")
		return ref + ".key"
	case x < 65:
		g.f("label:template")
		return `"${` + ref + `.key}-l"`
	case x < 75:
		g.f("label:literal")
		return quote(strPool[r.Intn(len(strPool))])
	case x < 85:
		g.f("label:iterator-value")
		return ref + ".value" // may be a non-string
	case x < 90 && len(scope) > 0:
		g.f("label:outer-iterator")
		return "«" + scope[r.Intn(len(scope))].Name + "».key"
	default:
		g.f("label:bad")
		return r.Pick("u_str", "mk_str", "nul_str", "nosuch", "[1]", "v_num", "v_bool")
	}
}

func (g *bodyGen) genBody(n *specNode, scope []iterScope, nest int) []gItem {
	r := g.r
	var items []gItem
	for _, a := range n.Attrs {
		if a.Required || r.Chance(0.7) {
			items = append(items, gItem{Attr: &gAttr{a.Name, g.attrExpr(a.Type, scope)}})
		}
	}
	if r.Chance(0.04) {
		g.f("body:unexpected-attr")
		items = append(items, gItem{Attr: &gAttr{"zzz", `"u"`}})
	}
	if nest > 4 {
		return items
	}
	for _, b := range n.Blocks {
		cnt := r.Small(3)
		if b.Kind == kSingle || b.Kind == kAttrs {
			cnt = r.Intn(2)
		}
		for i := 0; i < cnt+1; i++ {
			if i == cnt && !r.Chance(0.3) {
				break
			}
			items = append(items, g.genBlockItem(n, &b, scope, nest))
		}
	}
	if r.Chance(0.05) {
		g.f("body:unrequested-static-block")
		items = append(items, gItem{Block: &gBlock{"zz", nil, nil}})
	}
	// interleave blocks (attributes keep their relative order; native bodies do not order them anyway)
	r.Shuffle(len(items), func(i, j int) { items[i], items[j] = items[j], items[i] })
	return items
}

func (g *bodyGen) subBody(b *blockDef, scope []iterScope, nest int) []gItem {
	if b.Kind == kAttrs {
		// a body of arbitrary string attributes
		var items []gItem
		n := g.r.Small(3)
		for i := 0; i < n; i++ {
			items = append(items, gItem{Attr: &gAttr{[]string{"u", "v", "w"}[i], g.attrExpr(cty.String, scope)}})
		}
		return items
	}
	return g.genBody(b.Nested, scope, nest+1)
}

func (g *bodyGen) genBlockItem(n *specNode, b *blockDef, scope []iterScope, nest int) gItem {
	r := g.r
	dyn := r.Chance(0.6) && g.depth < g.maxD
	if !dyn {
		if len(scope) > 0 {
			g.f("static-block-in-content")
		} else {
			g.f("static-block")
		}
		var labels []string
		for range b.LabelNames {
			labels = append(labels, keyPool[r.Intn(len(keyPool))])
		}
		if len(b.LabelNames) > 0 && r.Chance(0.05) {
			g.f("static-block:wrong-label-count")
			labels = labels[:len(labels)-1]
		}
		return gItem{Block: &gBlock{b.Type, labels, g.subBody(b, scope, nest)}}
	}
	g.f(fmt.Sprintf("dynamic:depth%d", g.depth+1))
	g.f("dynamic:kind:" + kindNames[b.Kind])
	fe := g.forEach(scope)
	d := &gDyn{Type: b.Type, ForEach: fe.Expr}
	if r.Chance(0.45) {
		d.Iterator = iterPool[r.Intn(len(iterPool))]
		g.f("dynamic:custom-iterator")
		if r.Chance(0.15) && len(scope) > 0 {
			d.Iterator = scope[r.Intn(len(scope))].Name
			g.f("dynamic:iterator-shadows-outer")
		}
	} else {
		for _, s := range scope {
			if s.Name == b.Type {
				g.f("dynamic:iterator-shadows-outer")
			}
		}
	}
	me := iterScope{d.iterName(), fe.Elem, fe.KeyS}
	if fe.Expr == "«self»" {
		d.ForEach = "«" + me.Name + "».value"
	}
	for range b.LabelNames {
		d.Labels = append(d.Labels, g.labelExpr(me, scope))
	}
	if len(d.Labels) > 0 && r.Chance(0.04) {
		g.f("dynamic:wrong-label-count")
		if r.Chance(0.5) {
			d.Labels = d.Labels[:len(d.Labels)-1]
		} else {
			d.Labels = append(d.Labels, `"extra"`)
		}
	} else if len(d.Labels) == 0 && r.Chance(0.02) {
		g.f("dynamic:wrong-label-count")
		d.Labels = []string{`"extra"`}
	}
	g.depth++
	d.Content = g.subBody(b, append(append([]iterScope{}, scope...), me), nest)
	g.depth--
	return gItem{Dyn: d}
}

// mutate makes one dynamic block of the body malformed, or adds a dynamic block of an
// unrequested type.
func (g *bodyGen) mutate(items []gItem) []gItem {
	r := g.r
	var dyns []*gDyn
	var walk func(is []gItem)
	walk = func(is []gItem) {
		for _, it := range is {
			if it.Dyn != nil {
				dyns = append(dyns, it.Dyn)
				walk(it.Dyn.Content)
			}
			if it.Block != nil {
				walk(it.Block.Body)
			}
		}
	}
	walk(items)
	if len(dyns) == 0 || r.Chance(0.25) {
		g.f("mutation:unrequested-dynamic-type")
		fe := r.Pick("l_str", "l_empty", `["p"]`, "[]", "u_list")
		items = append(items, gItem{Dyn: &gDyn{Type: "zz", ForEach: fe, Content: []gItem{{Attr: &gAttr{"p", `"x"`}}}}})
		return items
	}
	d := dyns[r.Intn(len(dyns))]
	switch r.Intn(9) {
	case 0:
		d.NoForEach = true
		g.f("mutation:no-for_each")
	case 1:
		d.NoContent = true
		g.f("mutation:no-content")
	case 2:
		d.TwoContent = true
		g.f("mutation:two-content")
	case 3:
		d.ExtraAttr = true
		g.f("mutation:extra-attr")
	case 4:
		d.BadIterator = true
		g.f("mutation:bad-iterator")
	case 5:
		d.LabelsNoTup = true
		g.f("mutation:labels-not-tuple")
	case 6:
		d.LabelsEmpty = true
		g.f("mutation:labels-empty")
	case 7:
		d.HeadLabels = 1
		g.f("mutation:header-no-label")
	default:
		d.HeadLabels = 2
		g.f("mutation:header-two-labels")
	}
	return items
}

// ---- one generated case ----------------------------------------------------------------------------

type genCase struct {
	Spec  *specNode
	Items []gItem
	ECtx  *hcl.EvalContext // for Expand
	DCtx  *hcl.EvalContext // for decoding
	Feat  map[string]int
	Note  string
	// multi-step histories (multistep.go): the direct oracle runs them on every case; the
	// cases of the multi-step stream (Multi) also carry them to the Coq checker
	Plans []*mPlan
	Multi bool
}

func (c *genCase) text() string {
	var b strings.Builder
	renderItems(c.Items, "", &b)
	return b.String()
}

func generate(r *hv.Rng) *genCase {
	cg := &ctxGen{r: r}
	ectx := cg.gen()
	if r.Chance(0.12) {
		feat := map[string]int{}
		spec, items := genShadow(r, feat)
		feat["ctx:same"]++
		return &genCase{Spec: spec, Items: items, ECtx: ectx, DCtx: ectx, Feat: feat}
	}
	g := &bodyGen{r: r, cg: cg, feat: map[string]int{}, maxD: 1 + r.Intn(3), clean: r.Chance(0.5)}
	if g.clean {
		g.f("mode:clean")
	} else {
		g.f("mode:mixed")
	}
	spec := g.genSpec(1+r.Intn(3), true)
	items := g.genBody(spec, nil, 0)
	if !g.clean && r.Chance(0.2) {
		items = g.mutate(items)
	}
	dctx := ectx
	switch x := r.Intn(10); {
	case x < 2:
		g.f("ctx:decode-child")
		dctx = ectx.NewChild()
		dctx.Variables = map[string]cty.Value{"dv": cty.StringVal("D"), "v_str": cty.StringVal("decode-time")}
	case x < 3:
		g.f("ctx:decode-separate")
		dctx = &hcl.EvalContext{Variables: map[string]cty.Value{"dv": cty.StringVal("D"), "v_str": cty.StringVal("other"), "v_num": cty.NumberIntVal(100), "u_str": cty.UnknownVal(cty.String), "mk_str": cty.StringVal("s").Mark("m2")}, Functions: hv.HarnessFuncs}
	default:
		g.f("ctx:same")
	}
	return &genCase{Spec: spec, Items: items, ECtx: ectx, DCtx: dctx, Feat: g.feat}
}

func sortedFeat(m map[string]int) []string {
	ks := make([]string, 0, len(m))
	for k := range m {
		ks = append(ks, k)
	}
	sort.Strings(ks)
	return ks
}

// ---- the shadowed-ancestor shape ------------------------------------------------------------------
// Three or four levels of dynamic nesting in which two ENCLOSING dynamic blocks share an
// iterator name (explicit `iterator =` on both, or the same block type nested in itself
// with default names) and a dynamic block below the inner one, with another iterator
// name, refers to the shared name in an attribute, its for_each or a label: it must see
// the NEAREST iteration of that name.  The two collections have keys of different types
// (strings vs indices), so the outermost and the nearest binding never coincide.

var shadowOuter = cty.MapVal(map[string]cty.Value{"oa": cty.StringVal("OA"), "ob": cty.StringVal("OB")})
var shadowInner = cty.ListVal([]cty.Value{
	cty.ObjectVal(map[string]cty.Value{"k": cty.StringVal("K0"), "v": cty.ListVal([]cty.Value{cty.StringVal("v00"), cty.StringVal("v01")})}),
	cty.ObjectVal(map[string]cty.Value{"k": cty.StringVal("K1"), "v": cty.ListVal([]cty.Value{cty.StringVal("v10")})}),
})

type shadowLevel struct {
	Type   string
	Iter   string // "" = default
	Shared bool
}

func genShadow(r *hv.Rng, feat map[string]int) (*specNode, []gItem) {
	sameType := r.Chance(0.5)
	var levels []shadowLevel
	shape := r.Intn(8) // 0-5: three levels; 6: S S o o; 7: S o S o
	shared := "it"
	S := func(t string) shadowLevel {
		if sameType {
			return shadowLevel{"a", "", true}
		}
		return shadowLevel{t, "it", true}
	}
	O := func(t string) shadowLevel {
		it := ""
		if r.Chance(0.5) {
			it = []string{"x", "y", "each"}[r.Intn(3)]
		}
		return shadowLevel{t, it, false}
	}
	if sameType {
		shared = "a"
	}
	switch {
	case shape < 6:
		levels = []shadowLevel{S("a"), S("b"), O("c")}
		feat["shape:shadowed-ancestor:3-levels"]++
	case shape == 6:
		levels = []shadowLevel{S("a"), S("b"), O("c"), O("d")}
		feat["shape:shadowed-ancestor:4-levels(SSoo)"]++
	default:
		levels = []shadowLevel{S("a"), O("b"), S("c"), O("d")}
		feat["shape:shadowed-ancestor:4-levels(SoSo)"]++
	}
	feat["shape:shadowed-ancestor"]++
	if sameType {
		feat["shape:shadowed-ancestor:same-block-type"]++
	} else {
		feat["shape:shadowed-ancestor:explicit-iterator"]++
	}
	ref := "«" + shared + "»"
	// which shared level is the nearest one for level i (index of the last shared level above i)
	sharedSeen := 0
	// build from the innermost level outwards
	type built struct {
		spec  *specNode
		items []gItem
	}
	n := len(levels)
	// number of shared levels above each level
	above := make([]int, n)
	for i, l := range levels {
		above[i] = sharedSeen
		if l.Shared {
			sharedSeen++
		}
	}
	var inner built
	for i := n - 1; i >= 0; i-- {
		l := levels[i]
		node := &specNode{Attrs: []attrDef{{"p", cty.String, false}, {"q", cty.String, false}}}
		d := &gDyn{Type: l.Type, Iterator: l.Iter}
		kind := kList
		var labelNames []string
		switch {
		case l.Shared && above[i] == 0:
			d.ForEach = "sh_o"
			d.Content = []gItem{{Attr: &gAttr{"p", ref + ".key"}}}
		case l.Shared:
			d.ForEach = "sh_i"
			d.Content = []gItem{{Attr: &gAttr{"p", `"${` + ref + `.key}:${` + ref + `.value.k}"`}}}
		case above[i] >= 2:
			// below two enclosing blocks of the shared name: refer to it
			own := "«" + d.iterName() + "»"
			d.ForEach = `["p", "q"]`
			uses := 0
			if r.Chance(0.5) {
				d.ForEach = ref + ".value.v"
				feat["shape:shadowed-ancestor:ref-in-for_each"]++
				uses++
			}
			if r.Chance(0.4) {
				kind = kMap
				labelNames = []string{"key"}
				d.Labels = []string{`"${` + ref + `.key}-${` + own + `.key}"`}
				feat["shape:shadowed-ancestor:ref-in-label"]++
				uses++
			}
			if uses == 0 || r.Chance(0.6) {
				d.Content = append(d.Content, gItem{Attr: &gAttr{"p", r.Pick(ref+".key", ref+".value.k", `"${`+ref+`.key}/${`+own+`.value}"`)}})
				feat["shape:shadowed-ancestor:ref-in-attribute"]++
			}
			d.Content = append(d.Content, gItem{Attr: &gAttr{"q", own + ".value"}})
		default:
			// a level of another name between / above: plain
			own := "«" + d.iterName() + "»"
			d.ForEach = `["m", "n"]`
			d.Content = []gItem{{Attr: &gAttr{"q", own + ".value"}}}
			if above[i] >= 1 {
				d.Content = append(d.Content, gItem{Attr: &gAttr{"p", ref + ".key"}})
			}
		}
		if inner.spec != nil {
			node.Blocks = inner.spec.Blocks
			d.Content = append(d.Content, inner.items...)
			if r.Chance(0.3) {
				// a static block of the same type next to the generated ones
				d.Content = append(d.Content, gItem{Block: &gBlock{Type: levels[i+1].Type, Labels: staticLabels(inner.spec.Blocks[0]), Body: []gItem{{Attr: &gAttr{"q", `"static"`}}}}})
			}
		}
		outer := &specNode{Blocks: []blockDef{{l.Type, kind, labelNames, node}}}
		inner = built{outer, []gItem{{Dyn: d}}}
	}
	top := inner.spec
	top.Attrs = []attrDef{{"p", cty.String, false}}
	items := inner.items
	if r.Chance(0.5) {
		items = append([]gItem{{Block: &gBlock{Type: levels[0].Type, Body: []gItem{{Attr: &gAttr{"q", `"s"`}}}}}}, items...)
	}
	return top, items
}

func staticLabels(b blockDef) []string {
	var ls []string
	for range b.LabelNames {
		ls = append(ls, "sl")
	}
	return ls
}
