package main

import (
	"fmt"
	"os"
	"strconv"
	"strings"
	"time"

	"github.com/hashicorp/hcl/v2"
	"github.com/hashicorp/hcl/v2/hclsyntax"
	hcljson "github.com/hashicorp/hcl/v2/json"
)

func main() {
	d, _ := strconv.Atoi(os.Args[2])
	t := time.Now()
	switch os.Args[1] {
	case "tuple":
		_, diags := hclsyntax.ParseExpression([]byte(strings.Repeat("[", d)), "x", hcl.InitialPos)
		fmt.Println("tuple", d, len(diags), time.Since(t))
	case "json":
		_, diags := hcljson.Parse([]byte(strings.Repeat("[", d)), "x")
		fmt.Println("json", d, len(diags), time.Since(t))
	case "tmpl":
		_, diags := hclsyntax.ParseExpression([]byte(strings.Repeat("\"${", d)), "x", hcl.InitialPos)
		fmt.Println("tmpl", d, len(diags), time.Since(t))
	}
}
