package main

// Generators for C13: grammar-directed JSON texts, near-miss mutations, and
// template strings for the full-expression-mode check.

import (
	"bytes"
	"fmt"
	"strings"
	"unicode/utf8"

	"hclverif/hv"
)

type jgen struct {
	r    *hv.Rng
	feat map[string]int
	b    bytes.Buffer
	wild bool // allow Prepend code points / non-NFC text / extreme numbers
}

func (g *jgen) f(k string) { g.feat[k]++ }

var wsForms = []string{"", "", "", " ", " ", "\n", "\t", "\r", "\r\n", "  ", " \t\n\r ", "\n\n    "}

func (g *jgen) ws() {
	s := wsForms[g.r.Intn(len(wsForms))]
	switch s {
	case "":
	case " ", "  ":
		g.f("ws:space")
	case "\n", "\n\n    ":
		g.f("ws:lf")
	case "\t":
		g.f("ws:tab")
	case "\r", "\r\n":
		g.f("ws:cr")
	default:
		g.f("ws:mixed")
	}
	g.b.WriteString(s)
}

var specialNumbers = []string{
	"0", "-0", "0.0", "-0.0", "0e0", "0E-0", "1e400", "0.1", "1E+2", "1e+2", "1e-2", "2.50e+3",
	"123456789012345678901234567890.5", "0.5", "0.25", "-0.125", "1e22", "1e23", "1e100", "1e220", "1e221",
	"4.9406564584124654e-324", "1.7976931348623157e308", "3.141592653589793238462643383279502884197169399375105820974944592307816406286",
	"1e999999999", "-1e999999999", "1e-999999999", "1e2147483646", "1e2147483647", "1e2147483648", "1e-2147483649", "1e-2147483650",
	"1e99999999999", "1e-99999999999", "1e9223372036854775807", "1e9223372036854775808", "1e-9223372036854775808", "1e-9223372036854775809",
	"0e99999999999999999999", "0.000e99999999999", "0e9223372036854775807", "12345678901234567890123456789012345678901234567890123456789012345678901234567890123456789012345678901234567890123456789012345678901234567890123456789012345678901234567890",
	"0.000000000000000000000000000000000000000000000000000001", "100000000000000000000000000000000000000000000000000000000000000000000000000000000000000000000000000000e-100",
	"9007199254740993", "18446744073709551616", "340282366920938463463374607431768211456",
}

func (g *jgen) digits(n int, nonzeroFirst bool) string {
	var sb strings.Builder
	for i := 0; i < n; i++ {
		d := g.r.Intn(10)
		if i == 0 && nonzeroFirst && d == 0 {
			d = 1 + g.r.Intn(9)
		}
		sb.WriteByte(byte('0' + d))
	}
	return sb.String()
}

func (g *jgen) number() string {
	if g.r.Chance(0.22) {
		g.f("num:special")
		if g.r.Chance(0.15) {
			g.f("num:400-digit-int")
			return g.digits(400, true)
		}
		return specialNumbers[g.r.Intn(len(specialNumbers))]
	}
	var sb strings.Builder
	if g.r.Chance(0.3) {
		sb.WriteByte('-')
		g.f("num:neg")
	}
	if g.r.Chance(0.25) {
		sb.WriteByte('0')
	} else {
		n := 1 + g.r.Small(6)
		if g.r.Chance(0.05) {
			n = 20 + g.r.Intn(60)
			g.f("num:long-int")
		}
		sb.WriteString(g.digits(n, true))
	}
	if g.r.Chance(0.4) {
		g.f("num:frac")
		n := 1 + g.r.Small(6)
		if g.r.Chance(0.05) {
			n = 20 + g.r.Intn(60)
			g.f("num:long-frac")
		}
		sb.WriteByte('.')
		sb.WriteString(g.digits(n, false))
	}
	if g.r.Chance(0.35) {
		g.f("num:exp")
		sb.WriteString(g.r.Pick("e", "E"))
		sb.WriteString(g.r.Pick("", "+", "-"))
		n := 1 + g.r.Small(3)
		if g.r.Chance(0.08) {
			n = 4 + g.r.Intn(8)
			g.f("num:extreme-exp")
		}
		sb.WriteString(g.digits(n, false))
	}
	return sb.String()
}

var asciiRuns = []string{"a", "abc", "hello world", "x y", "0", "true", "null", "//", "/", "'", "=", ":", ",", "[", "]", "{", "}", "#", "\x7f", "~", "A_b-9"}
var rawMulti = []string{"\u00e9", "\u00fc", "\u00df", "\u20ac", "\u4e2d", "\u65e5\u672c", "\U0001f600", "\U0001d11e", "\u00a0", "\u2028", "\ufffd", "\uffff", "\U0010ffff", "\u0080", "\u07ff", "\u0800", "\ud7ff", "\ue000", "\U00010000", "\u200d", "\u0301"}
var templateSeqs = []string{"${x}", "%{if}", "${", "%{", "$${", "%%{", "${ a + b }", "%{ for x in y }", "}", "~}", "$", "%"}
var prependRaw = []string{"\u0600", "\u0605", "\u06dd", "\u070f", "\u0890", "\u08e2", "\u0d4e", "\U000110bd", "\U000110cd", "\U000111c2", "\U0001193f", "\U00011941", "\U00011a3a", "\U00011a84", "\U00011d46", "\U00011f02"}
var nonNFC = []string{"e\u0301", "A\u030a", "\u212b", "\u1e9b\u0323", "o\u0323\u0302", "\u2126"}
var simpleEsc = []string{`\"`, `\\`, `\/`, `\b`, `\f`, `\n`, `\r`, `\t`}

func (g *jgen) hex4(v int) string {
	s := fmt.Sprintf("%04x", v)
	if g.r.Chance(0.5) {
		s = strings.ToUpper(s)
	} else if g.r.Chance(0.3) {
		// mixed case
		b := []byte(s)
		for i := range b {
			if g.r.Chance(0.5) {
				b[i] = strings.ToUpper(string(b[i]))[0]
			}
		}
		s = string(b)
	}
	return s
}

// strBody emits the inside of a string literal (already JSON-escaped).
func (g *jgen) strBody(key bool) string {
	var sb strings.Builder
	n := g.r.Small(6)
	if key && n == 0 && g.r.Chance(0.8) {
		n = 1
	}
	for i := 0; i < n; i++ {
		switch k := g.r.Intn(20); {
		case k < 6:
			sb.WriteString(asciiRuns[g.r.Intn(len(asciiRuns))])
			g.f("str:ascii")
		case k < 9:
			e := simpleEsc[g.r.Intn(len(simpleEsc))]
			sb.WriteString(e)
			g.f("str:esc:" + e[1:])
		case k < 11:
			// BMP, non-surrogate
			v := g.r.Intn(0x10000)
			if g.r.Chance(0.3) {
				v = []int{0, 0x1f, 0x20, 0x22, 0x5c, 0x7f, 0x80, 0x7ff, 0x800, 0xd7ff, 0xe000, 0xfffd, 0xffff, 0x24, 0x25, 0x7b}[g.r.Intn(16)]
			}
			if v >= 0xd800 && v < 0xe000 {
				v = 0x41
			}
			sb.WriteString(`\u` + g.hex4(v))
			g.f("str:esc:uXXXX")
		case k < 12:
			hi := 0xd800 + g.r.Intn(0x400)
			lo := 0xdc00 + g.r.Intn(0x400)
			sb.WriteString(`\u` + g.hex4(hi) + `\u` + g.hex4(lo))
			g.f("str:esc:surrogate-pair")
		case k < 13:
			switch g.r.Intn(5) {
			case 0:
				sb.WriteString(`\u` + g.hex4(0xd800+g.r.Intn(0x400)))
				g.f("str:esc:lone-high")
			case 1:
				sb.WriteString(`\u` + g.hex4(0xdc00+g.r.Intn(0x400)))
				g.f("str:esc:lone-low")
			case 2:
				sb.WriteString(`\u` + g.hex4(0xd800+g.r.Intn(0x400)) + `\u` + g.hex4(0x41+g.r.Intn(26)))
				g.f("str:esc:high-then-bmp")
			case 3:
				sb.WriteString(`\u` + g.hex4(0xd800+g.r.Intn(0x400)) + `\u` + g.hex4(0xd800+g.r.Intn(0x400)) + `\u` + g.hex4(0xdc00+g.r.Intn(0x400)))
				g.f("str:esc:high-high-low")
			case 4:
				sb.WriteString(`\u` + g.hex4(0xdc00+g.r.Intn(0x400)) + `\u` + g.hex4(0xd800+g.r.Intn(0x400)))
				g.f("str:esc:low-then-high")
			}
		case k < 16:
			sb.WriteString(rawMulti[g.r.Intn(len(rawMulti))])
			g.f("str:raw-multibyte")
		case k < 18:
			sb.WriteString(templateSeqs[g.r.Intn(len(templateSeqs))])
			g.f("str:template-seq")
		case k < 19:
			if g.wild && g.r.Chance(0.5) {
				sb.WriteString(prependRaw[g.r.Intn(len(prependRaw))])
				g.f("str:raw-prepend")
				if g.r.Chance(0.3) {
					sb.WriteString(prependRaw[g.r.Intn(len(prependRaw))])
				}
				if g.r.Chance(0.3) {
					sb.WriteString(g.r.Pick(`\\`, `\n`, " ", "a", "\u0301", "\u00e9"))
				}
			} else {
				sb.WriteString("z")
			}
		default:
			if g.wild && !key && g.r.Chance(0.5) {
				sb.WriteString(nonNFC[g.r.Intn(len(nonNFC))])
				g.f("str:raw-non-nfc")
			} else {
				sb.WriteString("q")
			}
		}
	}
	return sb.String()
}

var keyPool = []string{"a", "b", "k", "name", "x", "", "a b", "\u00e9", "${k}", "//"}

func (g *jgen) value(depth int) {
	k := g.r.Intn(12)
	if depth <= 0 && k >= 7 {
		k = g.r.Intn(7)
	}
	switch {
	case k == 0:
		g.b.WriteString("null")
		g.f("val:null")
	case k == 1:
		g.b.WriteString(g.r.Pick("true", "false"))
		g.f("val:bool")
	case k < 5:
		g.b.WriteString(g.number())
		g.f("val:number")
	case k < 7:
		g.b.WriteString(`"` + g.strBody(false) + `"`)
		g.f("val:string")
	case k < 10:
		g.f("val:array")
		g.b.WriteByte('[')
		n := g.r.Small(5)
		if n == 0 {
			g.ws()
			g.f("val:array-empty")
		}
		for i := 0; i < n; i++ {
			if i > 0 {
				g.b.WriteByte(',')
			}
			g.ws()
			g.value(depth - 1)
			g.ws()
		}
		g.b.WriteByte(']')
	default:
		g.f("val:object")
		g.b.WriteByte('{')
		n := g.r.Small(5)
		if n == 0 {
			g.ws()
			g.f("val:object-empty")
		}
		var used []string
		for i := 0; i < n; i++ {
			if i > 0 {
				g.b.WriteByte(',')
			}
			g.ws()
			var key string
			switch {
			case len(used) > 0 && g.r.Chance(0.12):
				key = used[g.r.Intn(len(used))]
				g.f("obj:duplicate-name")
			case g.r.Chance(0.6):
				key = keyPool[g.r.Intn(len(keyPool))] + g.r.Pick("", "", "1", "2", "_")
			default:
				key = g.strBody(true)
			}
			used = append(used, key)
			g.b.WriteString(`"` + key + `"`)
			g.ws()
			g.b.WriteByte(':')
			g.ws()
			g.value(depth - 1)
			g.ws()
		}
		g.b.WriteByte('}')
	}
}

// genJSON returns one valid JSON text (valid by construction, modulo the
// deliberately included Prepend / extreme-number cases which are still JSON).
func genJSON(r *hv.Rng, feat map[string]int) string {
	g := &jgen{r: r, feat: feat, wild: r.Chance(0.35)}
	depth := 1 + r.Small(4)
	if r.Chance(0.15) {
		depth = 0
	}
	if r.Chance(0.03) {
		// deep nesting
		d := 20 + r.Intn(180)
		g.f("deep-nesting")
		open, cl := "[", "]"
		var sb strings.Builder
		for i := 0; i < d; i++ {
			if r.Chance(0.3) {
				sb.WriteString(`{"a":`)
			} else {
				sb.WriteString(open)
			}
		}
		_ = cl
		inner := &jgen{r: r, feat: feat}
		inner.value(1)
		s := sb.String()
		// close in reverse
		var tail strings.Builder
		for i := len(s) - 1; i >= 0; i-- {
			switch s[i] {
			case '[':
				tail.WriteByte(']')
			case '{':
				tail.WriteByte('}')
			}
		}
		return s + inner.b.String() + tail.String()
	}
	g.ws()
	g.value(depth)
	g.ws()
	return g.b.String()
}

// ---- near-miss mutations ------------------------------------------------------

var insertions = []string{
	"tru", "True", "nul", "undefined", "NaN", "Infinity", "+1", ".5", "1.", "01", "-", "1e", "1e+", "0x10", "-01", "1.e1", "--1", "1ee1", "1e1.5",
	"'a'", "//c\n", "/*c*/", "#c\n", "\xef\xbb\xbf", "\x00", "\x7f", "\x1f", "\x0b", "\x0c", "\xff", "\xc3", "\xe2\x82", "\xed\xa0\x80", "\xc0\xaf", "\xf4\x90\x80\x80", "\xf8",
	"=", ":", ",", "[", "]", "{", "}", "\"", "\\", "\\x", "\\u12", "\\uD83D", "\\'", "\n", "\t", " ", "_", "e", "E", "null", "true", "1", "\"k\"", "\u0600", "\u00a0", "\u2028", "\ufeff",
}

func findAll(b []byte, c byte) []int {
	var out []int
	for i, x := range b {
		if x == c {
			out = append(out, i)
		}
	}
	return out
}

func insertAt(b []byte, p int, s string) []byte {
	out := make([]byte, 0, len(b)+len(s))
	out = append(out, b[:p]...)
	out = append(out, s...)
	out = append(out, b[p:]...)
	return out
}

// mutate applies one named near-miss mutation; returns the new text and its name.
func mutate(r *hv.Rng, s string) (string, string) {
	b := []byte(s)
	pick := func(ps []int) (int, bool) {
		if len(ps) == 0 {
			return 0, false
		}
		return ps[r.Intn(len(ps))], true
	}
	switch r.Intn(16) {
	case 0: // trailing comma
		ps := append(findAll(b, ']'), findAll(b, '}')...)
		if p, ok := pick(ps); ok {
			return string(insertAt(b, p, ",")), "trailing-comma"
		}
	case 1: // unterminated string: delete a quote
		if p, ok := pick(findAll(b, '"')); ok {
			return string(append(b[:p:p], b[p+1:]...)), "delete-quote"
		}
	case 2: // control character / invalid UTF-8 inside a string
		if p, ok := pick(findAll(b, '"')); ok {
			ins := r.Pick("\x00", "\x1f", "\n", "\t", "\r", "\xff", "\xc3", "\xe2\x82", "\xed\xa0\x80", "\xc0\xaf", "\xf4\x90\x80\x80", "\x80", "\xfe", "\xe0\x80\x80", "\xf0\x80\x80\x80")
			name := "control-char-in-string"
			if ins[0] >= 0x80 {
				name = "invalid-utf8-in-string"
			}
			return string(insertAt(b, p+1, ins)), name
		}
	case 3: // trailing garbage
		return s + r.Pick(" x", "1", "]", "}", "{}", "[]", "\x00", ",", " null", "\"", "\xff", ":", "=", " \n\t 0"), "trailing-garbage"
	case 4: // BOM / leading garbage
		return r.Pick("\xef\xbb\xbf", "\ufeff ", "x", ",", "\x00", "//\n", "\xff") + s, "leading-garbage"
	case 5: // single quotes
		if bytes.IndexByte(b, '"') >= 0 {
			return strings.ReplaceAll(s, `"`, `'`), "single-quotes"
		}
	case 6: // delete a byte
		if len(b) > 0 {
			p := r.Intn(len(b))
			return string(append(b[:p:p], b[p+1:]...)), "delete-byte"
		}
	case 7: // truncate
		if len(b) > 0 {
			return string(b[:r.Intn(len(b))]), "truncate"
		}
	case 8: // replace a byte
		if len(b) > 0 {
			p := r.Intn(len(b))
			c := append([]byte(nil), b...)
			c[p] = byte(r.Intn(256))
			return string(c), "replace-byte"
		}
	case 9: // delete a structural character
		ps := append(append(append(findAll(b, ','), findAll(b, ':')...), findAll(b, '[')...), findAll(b, '}')...)
		if p, ok := pick(ps); ok {
			return string(append(b[:p:p], b[p+1:]...)), "delete-structural"
		}
	case 10: // swap a bracket kind
		ps := append(findAll(b, ']'), findAll(b, '}')...)
		if p, ok := pick(ps); ok {
			c := append([]byte(nil), b...)
			if c[p] == ']' {
				c[p] = '}'
			} else {
				c[p] = ']'
			}
			return string(c), "swap-bracket"
		}
	case 11: // colon <-> equals / comma
		if p, ok := pick(findAll(b, ':')); ok {
			c := append([]byte(nil), b...)
			c[p] = r.Pick("=", ",", " ")[0]
			return string(c), "replace-colon"
		}
	case 12: // duplicate a chunk
		if len(b) > 1 {
			p := r.Intn(len(b))
			q := p + 1 + r.Intn(4)
			if q > len(b) {
				q = len(b)
			}
			return string(insertAt(b, q, string(b[p:q]))), "duplicate-chunk"
		}
	case 13: // a colon where a comma belongs / after an opening bracket (colon in array, doubled colon)
		ps := append(findAll(b, ','), findAll(b, '[')...)
		if p, ok := pick(ps); ok {
			if b[p] == ',' && r.Chance(0.5) {
				c := append([]byte(nil), b...)
				c[p] = ':'
				return string(c), "comma-to-colon"
			}
			return string(insertAt(b, p+1, ":")), "stray-colon"
		}
	case 14: // object member without value, or trailing comma in an object
		if p, ok := pick(findAll(b, ':')); ok {
			if r.Chance(0.5) {
				// drop the colon and everything up to the next , or }
				q := p
				for q < len(b) && b[q] != ',' && b[q] != '}' {
					q++
				}
				return string(append(b[:p:p], b[q:]...)), "member-without-value"
			}
		}
		if p, ok := pick(findAll(b, '}')); ok {
			return string(insertAt(b, p, ",")), "trailing-comma-object"
		}
	}
	// default: insert a near-miss fragment at a random place
	ins := insertions[r.Intn(len(insertions))]
	p := r.Intn(len(b) + 1)
	return string(insertAt(b, p, ins)), "insert-fragment"
}

// ---- hand corpus ----------------------------------------------------------------

var c13Corpus = []string{
	// valid
	`null`, `true`, `false`, `0`, `-0`, `1e400`, `0.1`, `1E+2`, `123456789012345678901234567890.5`, `""`, `"a"`, `[]`, `{}`, ` [ ] `, "\t{\r\n}\n",
	`[1,2,3]`, `{"a":1,"b":[true,false,null],"c":{"d":"e"}}`, `{"a":1,"a":2}`, `[{"k":1,"k":2}]`, `{"a":{"b":1,"b":2}}`,
	`"\"\\\/\b\f\n\r\t"`, "\"A\u00e9\u20ac\"", "\"\U0001f600\"", `"\ud83d\ude00"`, `"\u00e9\u20AC"`, `"\ud800"`, `"\udc00"`, `"\ud800A"`, `"\ud800\ud800\udc00"`, `"\udc00\ud800"`, `"\u0000"`,
	`"${x}"`, `"%{if}"`, `"$${x} %%{y}"`, "\"\u00e9\u20ac\U0001f600\"", "\"\x7f\"", `[[[[[[[[[[[[[[[[[[[[1]]]]]]]]]]]]]]]]]]]]`,
	`{"":""}`, `{"//":"c","a":1}`, `[1 ,2 , 3 ]`, `1e999999999`, `1e-999999999`, `-1e999999999`, `1e2147483646`, `1e2147483647`, `1e2147483648`, `1e99999999999`, `0e99999999999999999999`,
	"\"\u0600\"", "[\"\u0600\",0]", "[\"\u0600\\\\\"]", "\"\u0600\" ", "[\"\u0600\" \n]", "\"a\u0600\u0605\"", "[\"\U000110bd\",\"x\"]", "\"\u0600\\n\"", "{\"\u06dd\":1}", "\"e\u0301\"", "\"\u212b\"",
	// near misses
	``, ` `, `[1,]`, `{"a":1,}`, `[,1]`, `[1,,2]`, `tru`, `True`, `nul`, `undefined`, `NaN`, `Infinity`, `-Infinity`, `"abc`, `"abc\`, `"abc\"`, "\"a\nb\"", "\"a\tb\"", "\"a\x00b\"", "\"a\x1fb\"",
	"\"\xff\"", "\"\xc3\"", "\"\xc3\x28\"", "\"\xe2\x82\"", "\"\xed\xa0\x80\"", "\"\xc0\xaf\"", "\"\xf4\x90\x80\x80\"", "[\"\xff\",1]", "{\"\xff\":1}", "\xff", "[\xff]",
	`1 2`, `[] []`, `{} x`, `null,`, `01`, `-01`, `+1`, `.5`, `1.`, `1.e1`, `1e`, `1e+`, `-`, `--1`, `0x10`, `1_000`, `1e1.5`, `'a'`, `{'a':1}`, `//c` + "\n1", `/*c*/1`, `#c` + "\n1",
	"\xef\xbb\xbf1", "\xef\xbb\xbf{}", `[1 2]`, `{"a" 1}`, `{"a":1 "b":2}`, `{"a"=1}`, `{"a"}`, `{"a",}`, `{"a":}`, `{1:2}`, `{null:1}`, `{tru:1}`, `[1:2]`, `[1}`, `{"a":1]`, `[`, `{`, `[[`, `{"a":[`, `]`, `}`, `:`, `,`, `=`,
	`"\x"`, `"\u12"`, `"\u12G4"`, `"\'"`, `"\U0041"`, `[1,2`, `{"a":1`, `[[1,2],[3`, `{"a":{"b":[1,{"c":2}]},"d":}`, `[}]`, `{]}`, `[{]`, `[[]`, `{{}}`, `[1]]`, `{"a":1}}`, "\x00", "1\x00", "[1\x0b]", "[1\x0c]", "[\u00a01]", "[\u20281]", "[\ufeff1]",
	`{"a":1,"b"}`, `{"a":1,"b",}`, `[1,2,3,]`, `{"a":[1,2,],"b":1}`, `e1`, `E`, `1E`, `tRUE`, `nullx`, `truefalse`, `true_`, `_`, `-a`, `1a`, `"a"b`, `"a""b"`, `[1"a"]`,
}

// ---- template strings for full-expression mode -------------------------------------

func genTemplate(r *hv.Rng, feat map[string]int) string {
	var sb strings.Builder
	if r.Chance(0.08) {
		// what the native template parser does with a leading U+FEFF (its scanner drops ONE, in
		// every mode) is part of "exactly what the native template parser assigns"
		sb.WriteString(r.Pick("\ufeff", "\ufeff\ufeff", "\ufeff "))
		feat["tmpl:leading-bom"]++
	}
	n := 1 + r.Small(5)
	for i := 0; i < n; i++ {
		switch r.Intn(14) {
		case 0, 1, 2:
			sb.WriteString(r.Pick("hello ", "a", " ", "x=", "\u00e9\u20ac", "\U0001f600", "tab\t", "line\n", "q\"q", "b\\s", "{}", "}", "~"))
			feat["tmpl:literal"]++
		case 3, 4:
			sb.WriteString("${" + r.Pick("name", " name ", "n", "n + 1", "n * 2 - 1", "lst[0]", "lst[1]", "upper(name)", "c ? name : n", "obj.k", "\"in ${name}\"", "~ name ~", "null", "[n, name]", "{a = n}") + "}")
			feat["tmpl:interp"]++
		case 5:
			sb.WriteString("%{ if " + r.Pick("c", "!c", "n > 2", "true") + " }" + r.Pick("yes", "${name}", "") + r.Pick("%{ else }no", "", "%{~ else ~} no ") + "%{ endif }")
			feat["tmpl:if"]++
		case 6:
			sb.WriteString("%{ for x in lst }" + r.Pick("${x},", "[${x}]", "x", "") + "%{ endfor }")
			feat["tmpl:for"]++
		case 7:
			sb.WriteString(r.Pick("$${", "%%{", "$${name}", "%%{ if }", "$$", "%%", "$", "%"))
			feat["tmpl:escape"]++
		case 8:
			// broken sequences
			sb.WriteString(r.Pick("${", "%{", "${name", "%{ if c }", "%{ endif }", "${}", "${ + }", "%{ for }", "${undefined}", "${name.foo}", "${1/0}", "%{ else }"))
			feat["tmpl:broken"]++
		case 9:
			sb.WriteString("${" + r.Pick("name", "n") + "}")
			feat["tmpl:interp"]++
		default:
			sb.WriteString(r.Pick("w", "or", "ld ", "-", "1", "\u0600", "e\u0301"))
			feat["tmpl:literal"]++
		}
	}
	if r.Chance(0.15) && !strings.HasPrefix(sb.String(), "\ufeff") {
		// exactly one interpolation: the unwrapping rule
		feat["tmpl:single-interp"]++
		return "${" + r.Pick("n", "name", "lst", "c", "null", "n + 1", "obj") + "}"
	}
	return sb.String()
}

// jsonEscape renders s as a JSON string literal choosing randomly among the
// admissible spellings of every character.
func jsonEscape(r *hv.Rng, s string) string {
	var sb strings.Builder
	sb.WriteByte('"')
	for _, c := range s {
		must := c < 0x20 || c == '"' || c == '\\'
		if !must && r.Chance(0.8) {
			sb.WriteRune(c)
			continue
		}
		switch {
		case c == '"' && r.Chance(0.7):
			sb.WriteString(`\"`)
		case c == '\\' && r.Chance(0.7):
			sb.WriteString(`\\`)
		case c == '/' && r.Chance(0.5):
			sb.WriteString(`\/`)
		case c == '\n' && r.Chance(0.7):
			sb.WriteString(`\n`)
		case c == '\t' && r.Chance(0.7):
			sb.WriteString(`\t`)
		case c == '\r' && r.Chance(0.7):
			sb.WriteString(`\r`)
		case c == '\b' && r.Chance(0.7):
			sb.WriteString(`\b`)
		case c == '\f' && r.Chance(0.7):
			sb.WriteString(`\f`)
		case c >= 0x10000:
			c2 := c - 0x10000
			fmt.Fprintf(&sb, `\u%04x\u%04X`, 0xd800+(c2>>10), 0xdc00+(c2&0x3ff))
		default:
			fmt.Fprintf(&sb, `\u%04x`, c)
		}
	}
	sb.WriteByte('"')
	return sb.String()
}

var _ = utf8.RuneError
