package main

// C13 — The JSON syntax accepts exactly JSON and maps literals faithfully.
//
// Correspondence: json.scan (hook VerifScan), json.ParseExpression, json.Parse
// and expr.Value(nil) on generated JSON texts and near-miss mutations, against
// the Coq model Json/Scanner.v, Json/Parser.v, Json/Literal.v (checker
// Json/JsonCheck.v).  The case files also evaluate the strict RFC 8259
// recogniser Rfc8259.json_text_dec on every input and print, as `strict`, the
// cases where it disagrees with Go (the part of the oracle the harness cannot
// compute itself; see JsonCheck.v for the kinds).
//
// Direct oracle (real code only):
//   * Value(nil) of an accepted text equals an independent evaluation through
//     encoding/json's Decoder with UseNumber (keys in order, duplicates found
//     by hand)                      -> literal-mapping-differs, panic
//   * numbers: the big.Float equals the exact decimal; an integer that is not
//     represented precisely, an overflow to infinity or an underflow to zero
//     must be an error per spec.md  -> number-precision-lost
//   * strings verbatim              -> string-nfc-normalised (cty normalises)
//   * an accepted text is valid UTF-8     -> invalid-utf8-in-string
//   * acceptance vs encoding/json.Valid (lax about invalid UTF-8 only)
//                                   -> accepts-what-encoding-json-rejects,
//                                      rejects-what-encoding-json-accepts, or, when the
//                                      cause is recognisable, rejects-valid-json-number-exponent
//                                      (known finding) / rejects-valid-json-grapheme-prepend
//                                      (fixed in /repo 97334cf; a regression if it occurs)
//   * full-expression mode: Value(ctx) of a JSON string == Value(ctx) of
//     hclsyntax.ParseTemplate of its content -> template-mode-differs

import (
	"bytes"
	stdjson "encoding/json"
	"fmt"
	"io"
	"math/big"
	"os"
	"path/filepath"
	"sort"
	"strings"
	"unicode/utf8"

	"github.com/hashicorp/hcl/v2"
	"github.com/hashicorp/hcl/v2/hclsyntax"
	hcljson "github.com/hashicorp/hcl/v2/json"
	"github.com/zclconf/go-cty/cty"
	"github.com/zclconf/go-cty/cty/function"
	"github.com/zclconf/go-cty/cty/function/stdlib"
	"hclverif/hv"
)

func main() { hv.Main(map[string]func(*hv.RunCfg) error{"c13": runC13}) }

var diagCodes = map[string]int{
	"Extraneous data after value":       1,
	"Missing JSON value":                2,
	"Missing array element value":       3,
	"Missing value":                     4,
	"Invalid start of value":            5,
	"Invalid object property name":      6,
	"Missing object value":              7,
	"Missing property value colon":      8,
	"Trailing comma in object":          9,
	"Unclosed object":                   10,
	"Mismatched braces":                 11,
	"Missing attribute seperator comma": 12,
	"Trailing comma in array":           13,
	"Invalid array value":               14,
	"Mismatched brackets":               15,
	"Invalid JSON number":               16,
	"Invalid JSON string":               17,
	"Invalid JSON keyword":              18,
	"Root value must be object":         19,
}

// ---- independent evaluation through encoding/json --------------------------------

type jnode struct {
	kind byte // 'n' null, 'b' bool, 'N' number, 's' string, 'a' array, 'o' object
	b    bool
	num  string
	s    string
	arr  []*jnode
	keys []string
	vals []*jnode
}

func decodeVal(dec *stdjson.Decoder) (*jnode, error) {
	t, err := dec.Token()
	if err != nil {
		return nil, err
	}
	switch x := t.(type) {
	case nil:
		return &jnode{kind: 'n'}, nil
	case bool:
		return &jnode{kind: 'b', b: x}, nil
	case stdjson.Number:
		return &jnode{kind: 'N', num: string(x)}, nil
	case string:
		return &jnode{kind: 's', s: x}, nil
	case stdjson.Delim:
		switch x {
		case '[':
			n := &jnode{kind: 'a'}
			for dec.More() {
				e, err := decodeVal(dec)
				if err != nil {
					return nil, err
				}
				n.arr = append(n.arr, e)
			}
			if _, err := dec.Token(); err != nil {
				return nil, err
			}
			return n, nil
		case '{':
			n := &jnode{kind: 'o'}
			for dec.More() {
				kt, err := dec.Token()
				if err != nil {
					return nil, err
				}
				ks, ok := kt.(string)
				if !ok {
					return nil, fmt.Errorf("non-string key")
				}
				e, err := decodeVal(dec)
				if err != nil {
					return nil, err
				}
				n.keys = append(n.keys, ks)
				n.vals = append(n.vals, e)
			}
			if _, err := dec.Token(); err != nil {
				return nil, err
			}
			return n, nil
		}
	}
	return nil, fmt.Errorf("unexpected token %v", t)
}

func decodeTree(src []byte) (*jnode, error) {
	dec := stdjson.NewDecoder(bytes.NewReader(src))
	dec.UseNumber()
	n, err := decodeVal(dec)
	if err != nil {
		return nil, err
	}
	if _, err := dec.Token(); err != io.EOF {
		return nil, fmt.Errorf("trailing data")
	}
	return n, nil
}

// decRat: the exact rational value of a JSON number literal. huge = the
// exponent is too large to materialise (then sign/zero-ness is returned only).
func decRat(lit string) (r *big.Rat, huge bool, zero bool, isInt bool) {
	s := lit
	neg := false
	if strings.HasPrefix(s, "-") {
		neg = true
		s = s[1:]
	}
	mant := s
	exp := new(big.Int)
	if i := strings.IndexAny(s, "eE"); i >= 0 {
		mant = s[:i]
		exp.SetString(strings.TrimPrefix(s[i+1:], "+"), 10)
	}
	frac := 0
	if i := strings.IndexByte(mant, '.'); i >= 0 {
		frac = len(mant) - i - 1
		mant = mant[:i] + mant[i+1:]
	}
	m := new(big.Int)
	m.SetString(mant, 10)
	if m.Sign() == 0 {
		return new(big.Rat), false, true, true
	}
	if neg {
		m.Neg(m)
	}
	exp.Sub(exp, big.NewInt(int64(frac)))
	if exp.CmpAbs(big.NewInt(20000)) > 0 {
		return nil, true, false, exp.Sign() > 0
	}
	e := exp.Int64()
	r = new(big.Rat).SetInt(m)
	p := new(big.Int).Exp(big.NewInt(10), big.NewInt(abs64(e)), nil)
	if e >= 0 {
		r.Mul(r, new(big.Rat).SetInt(p))
	} else {
		r.Quo(r, new(big.Rat).SetInt(p))
	}
	return r, false, false, r.IsInt()
}

func abs64(x int64) int64 {
	if x < 0 {
		return -x
	}
	return x
}

// ---- the pinned-dependency findings, decided on the literal itself ---------------------------------
//
// Both number findings are behaviour of cty.ParseNumberVal (= big.ParseFloat at 512 bits), which hcl
// calls with the literal's text. A failure is filed under them only when (1) the dependency, called
// here directly with the exact literal text, does the very same thing - so hcl added nothing of its
// own - and (2) the literal has the shape the finding describes.

// depNumber is what the pinned dependency makes of the literal text.
func depNumber(lit string) (*big.Float, bool) {
	v, err := cty.ParseNumberVal(lit)
	if err != nil || !v.IsKnown() || v.IsNull() {
		return nil, false
	}
	return v.AsBigFloat(), true
}

func sameBig(a, b *big.Float) bool {
	if a.IsInf() || b.IsInf() {
		return a.IsInf() && b.IsInf() && a.Sign() == b.Sign()
	}
	return a.Cmp(b) == 0
}

// expOf returns the explicit exponent of a JSON number literal (0 when there is none).
func expOf(lit string) *big.Int {
	e := new(big.Int)
	if i := strings.IndexAny(lit, "eE"); i >= 0 {
		e.SetString(strings.TrimPrefix(lit[i+1:], "+"), 10)
	}
	return e
}

// exponentBeyondBigFloat: the text is a valid JSON number, its exponent is out of the range
// big.ParseFloat handles (|e| of about 2^31 and more: 1e2147483647, 1e99999999999) and the dependency
// refuses it.
func exponentBeyondBigFloat(lit string) bool {
	if !stdjson.Valid([]byte(lit)) || len(lit) == 0 || !(lit[0] == '-' || (lit[0] >= '0' && lit[0] <= '9')) {
		return false
	}
	if expOf(lit).CmpAbs(big.NewInt(2000000000)) < 0 {
		return false
	}
	_, err := cty.ParseNumberVal(lit)
	return err != nil
}

// rejectedOnlyForExponent: every error is "Invalid JSON number" and points at a number literal that
// exponentBeyondBigFloat.
func rejectedOnlyForExponent(src []byte, diags hcl.Diagnostics) bool {
	n := 0
	for _, d := range diags {
		if d.Severity != hcl.DiagError {
			continue
		}
		if d.Summary != "Invalid JSON number" || d.Subject == nil {
			return false
		}
		a, b := d.Subject.Start.Byte, d.Subject.End.Byte
		if a < 0 || b > len(src) || a >= b || !exponentBeyondBigFloat(string(src[a:b])) {
			return false
		}
		n++
	}
	return n > 0
}

type oracle struct {
	rep   *hv.Report
	input string
	fails map[string]string // kind -> first detail
}

func (o *oracle) fail(kind, detail string) {
	if _, ok := o.fails[kind]; !ok {
		o.fails[kind] = detail
	}
}

func coqZ(x *big.Int) string {
	if x.Sign() < 0 {
		return "(" + x.String() + ")"
	}
	return x.String()
}

func hexs(s string) string { return hv.Hexs([]byte(s)) }

// canon renders the cty value as a Coq gval, comparing it on the way with the
// independent tree n (n may be nil when the tree could not be built).
func (o *oracle) canon(v cty.Value, n *jnode) string {
	if v.IsMarked() || !v.IsWhollyKnown() && !v.Type().IsTupleType() && !v.Type().IsObjectType() {
		o.fail("literal-mapping-differs", "unknown or marked value "+hv.DumpVal(v))
		return "GDyn"
	}
	if v.IsNull() {
		if v.Type() != cty.DynamicPseudoType || n == nil || n.kind != 'n' {
			o.fail("literal-mapping-differs", "null: got "+hv.DumpVal(v))
		}
		return "GNull"
	}
	ty := v.Type()
	switch {
	case ty == cty.String:
		got := v.AsString()
		if n == nil || n.kind != 's' {
			o.fail("literal-mapping-differs", "string where the JSON value is not a string")
			return "GStr " + hexs(got)
		}
		if got == n.s {
			return "GStr " + hexs(got)
		}
		if got == cty.NormalizeString(n.s) {
			o.fail("string-nfc-normalised", fmt.Sprintf("JSON string %q evaluates to %q (cty NFC normalisation), not verbatim", n.s, got))
			o.rep.Hist("value:string-nfc-changed")
			return "GStrNfc"
		}
		o.fail("literal-mapping-differs", fmt.Sprintf("string: want %q got %q", n.s, got))
		return "GStr " + hexs(got)
	case ty == cty.Number:
		bf := v.AsBigFloat()
		if n == nil || n.kind != 'N' {
			o.fail("literal-mapping-differs", "number where the JSON value is not a number")
			return "GNumInexact"
		}
		exact, huge, zero, isInt := decRat(n.num)
		switch {
		case zero:
			if bf.Sign() != 0 || bf.IsInf() {
				o.fail("literal-mapping-differs", "zero literal "+n.num+" evaluates to "+hv.RatString(bf))
				return "GNumInexact"
			}
			o.rep.Hist("number:exact")
			return "GNum 0 1"
		case bf.IsInf():
			// the finding: a literal beyond big.Float's range becomes +-Inf in the dependency
			if dep, ok := depNumber(n.num); ok && sameBig(dep, bf) && huge && isInt {
				o.fail("number-precision-lost", "literal "+clip(n.num)+" evaluates to "+hv.RatString(bf)+" with no diagnostic (overflow)")
			} else {
				o.fail("literal-mapping-differs", "literal "+clip(n.num)+" evaluates to "+hv.RatString(bf)+", which is not what cty.ParseNumberVal makes of an out-of-range literal")
			}
			o.rep.Hist("number:overflow-to-inf")
			return "GNumInexact"
		case bf.Sign() == 0:
			// the finding: a literal below big.Float's range becomes 0 in the dependency
			if dep, ok := depNumber(n.num); ok && sameBig(dep, bf) && huge && !isInt {
				o.fail("number-precision-lost", "non-zero literal "+clip(n.num)+" evaluates to 0 with no diagnostic (underflow)")
			} else {
				o.fail("literal-mapping-differs", "non-zero literal "+clip(n.num)+" evaluates to 0, which is not what cty.ParseNumberVal makes of it")
			}
			o.rep.Hist("number:underflow-to-zero")
			return "GNumInexact"
		case huge:
			// finite non-zero result for an exponent beyond 20000 digits: cannot be exact at 512 bits
			dep, ok := depNumber(n.num)
			switch {
			case !ok || !sameBig(dep, bf):
				o.fail("literal-mapping-differs", "literal "+clip(n.num)+" evaluates to "+hv.RatString(bf)+", not to the 512-bit value cty.ParseNumberVal gives it")
			case isInt:
				o.fail("number-precision-lost", "integer literal "+clip(n.num)+" is silently rounded to 512 bits")
			}
			o.rep.Hist("number:huge-exponent-rounded")
			return "GNumInexact"
		}
		got, _ := bf.Rat(nil)
		if got.Cmp(exact) == 0 {
			o.rep.Hist("number:exact")
			return "GNum " + coqZ(got.Num()) + " " + got.Denom().String()
		}
		// the value is not the literal's. The finding covers exactly: the dependency's own 512-bit
		// rounding of a literal that does not fit 512 bits. So the value must be the one
		// cty.ParseNumberVal returns for this very text AND lie within 2^-510 (relative) of the exact
		// value; anything else (a wrong digit, a lost sign, an off-by-one) is a mapping error.
		near := new(big.Float).SetPrec(512).SetMode(big.ToNearestEven).SetRat(exact)
		dep, depOK := depNumber(n.num)
		depSame := depOK && sameBig(dep, bf)
		diff := new(big.Rat).Sub(got, exact)
		diff.Abs(diff)
		rel := new(big.Rat).Quo(diff, new(big.Rat).Abs(exact))
		bound := new(big.Rat).SetFrac(big.NewInt(1), new(big.Int).Lsh(big.NewInt(1), 510))
		close := rel.Cmp(bound) <= 0
		if isInt {
			if depSame && close {
				o.fail("number-precision-lost", "integer literal "+clip(n.num)+" is silently rounded to 512 bits (spec.md: an error is produced if an integer value cannot be represented precisely)")
				o.rep.Hist("number:integer-rounded")
			} else {
				o.fail("literal-mapping-differs", "integer literal "+clip(n.num)+" evaluates to "+hv.RatString(bf)+", which is neither its value nor its 512-bit rounding by cty.ParseNumberVal")
				o.rep.Hist("number:integer-wrong")
			}
			return "GNumInexact"
		}
		// a non-integer may be rounded to the nearest representable value
		if near.Cmp(bf) == 0 {
			o.rep.Hist("number:nonint-rounded-to-nearest(spec-allowed)")
		} else {
			switch {
			case close:
			case depSame:
				o.fail("number-precision-lost", "literal "+clip(n.num)+" is off by more than 2^-510 relative")
			default:
				o.fail("literal-mapping-differs", "literal "+clip(n.num)+" evaluates to "+hv.RatString(bf)+": off by more than 2^-510 relative and not what cty.ParseNumberVal returns")
			}
			o.rep.Hist("number:nonint-rounded-not-nearest")
			o.rep.Soft++
		}
		return "GNumInexact"
	case ty == cty.Bool:
		if n == nil || n.kind != 'b' || n.b != v.True() {
			o.fail("literal-mapping-differs", "bool mismatch")
		}
		return "GBool " + hv.CoqBool(v.True())
	case ty.IsTupleType():
		var parts []string
		i := 0
		if n == nil || n.kind != 'a' || len(n.arr) != v.LengthInt() {
			o.fail("literal-mapping-differs", "array does not map to a tuple of the same length")
		}
		for it := v.ElementIterator(); it.Next(); i++ {
			_, ev := it.Element()
			var sub *jnode
			if n != nil && n.kind == 'a' && i < len(n.arr) {
				sub = n.arr[i]
			}
			parts = append(parts, o.canon(ev, sub))
		}
		return "GTuple " + hv.CoqList(parts)
	case ty.IsObjectType():
		attrs := v.AsValueMap()
		var parts []string
		seen := map[string]bool{}
		if n == nil || n.kind != 'o' {
			o.fail("literal-mapping-differs", "object where the JSON value is not an object")
			names := make([]string, 0, len(attrs))
			for k := range attrs {
				names = append(names, k)
			}
			sort.Strings(names)
			for _, k := range names {
				parts = append(parts, "("+hexs(k)+", "+o.canon(attrs[k], nil)+")")
			}
			return "GObj " + hv.CoqList(parts)
		}
		if len(attrs) != len(n.keys) {
			// evaluation reported no error, so every member must have become an attribute
			o.fail("duplicate-name-silently-merged", fmt.Sprintf("JSON object with %d members evaluates without error to an object with %d attributes", len(n.keys), len(attrs)))
		}
		for i, k := range n.keys {
			nk := nfc(k) // reference normal form of the name (dupnf.go), not cty's
			if seen[nk] {
				continue
			}
			seen[nk] = true
			av, ok := attrs[nk]
			if !ok {
				o.fail("literal-mapping-differs", fmt.Sprintf("attribute %q missing", k))
				continue
			}
			parts = append(parts, "("+hexs(k)+", "+o.canon(av, n.vals[i])+")")
		}
		if len(seen) != len(attrs) {
			o.fail("literal-mapping-differs", "object has extra attributes")
		}
		return "GObj " + hv.CoqList(parts)
	}
	o.fail("literal-mapping-differs", "unexpected type "+ty.FriendlyName())
	return "GDyn"
}

// the GCB=Prepend code points of go-textseg v15 (Unicode 15.0)
const prependChars = "\u0600\u0601\u0602\u0603\u0604\u0605\u06dd\u070f\u0890\u0891\u08e2\u0d4e" +
	"\U000110bd\U000110cd\U000111c2\U000111c3\U0001193f\U00011941\U00011a3a" +
	"\U00011a84\U00011a85\U00011a86\U00011a87\U00011a88\U00011a89\U00011d46\U00011f02"

func hasSummary(d hcl.Diagnostics, s string) bool {
	for _, x := range d {
		if x.Summary == s {
			return true
		}
	}
	return false
}

func clip(s string) string {
	if len(s) > 60 {
		return s[:40] + fmt.Sprintf("...(%d bytes)", len(s))
	}
	return s
}

// hasDup: some object in the tree defines a name twice (raw names).
func hasDup(n *jnode) bool {
	switch n.kind {
	case 'a':
		for _, e := range n.arr {
			if hasDup(e) {
				return true
			}
		}
	case 'o':
		seen := map[string]bool{}
		for _, k := range n.keys {
			if seen[k] {
				return true
			}
			seen[k] = true
		}
		for _, e := range n.vals {
			if hasDup(e) {
				return true
			}
		}
	}
	return false
}

// ---- one case ---------------------------------------------------------------------

// c13Case runs the real code on src and returns the Coq case term.
func c13Case(rep *hv.Report, s string) (cs string, err error) {
	src := []byte(s)
	defer func() {
		if p := recover(); p != nil {
			rep.Fail(hv.Failure{Kind: "panic", Detail: fmt.Sprint(p), Input: s})
			err = fmt.Errorf("panic: %v", p)
		}
	}()
	o := &oracle{rep: rep, input: s, fails: map[string]string{}}

	toks := hcljson.VerifScan(src)
	titems := make([]string, len(toks))
	for i, t := range toks {
		titems[i] = fmt.Sprintf("(%d, %d, %d)", int(t.Type), t.Start, t.End)
		if !bytes.Equal(t.Bytes, src[t.Start:t.End]) && !(len(t.Bytes) == 0 && t.Start == t.End) {
			o.fail("token-bytes-not-a-slice", fmt.Sprintf("token %d bytes differ from src[%d:%d]", i, t.Start, t.End))
		}
		if t.Type == 0 {
			rep.Hist("token:invalid")
		}
	}

	expr, diags := hcljson.ParseExpression(src, "t.json")
	var codes []int
	for _, d := range diags {
		c, ok := diagCodes[d.Summary]
		if !ok {
			c = 99
		}
		if d.Severity != hcl.DiagError {
			c = 98
		}
		codes = append(codes, c)
		rep.Hist("diag:" + d.Summary)
	}
	accepted := len(diags) == 0
	_, fdiags := hcljson.Parse(src, "t.json")
	fileOK := !fdiags.HasErrors()

	everr := false
	gval := "GDyn"
	nfTable := "[]"
	stdValid := stdjson.Valid(src)
	if accepted {
		rep.Hist("go:accepted")
		v, vd := expr.Value(nil)
		everr = vd.HasErrors()
		tree, terr := decodeTree(src)
		if !utf8.Valid(src) {
			o.fail("invalid-utf8-in-string", "accepted although the input is not valid UTF-8")
		}
		if terr != nil || !stdValid {
			o.fail("accepts-what-encoding-json-rejects", fmt.Sprintf("encoding/json: valid=%v decoder=%v", stdValid, terr))
			tree = nil
		}
		if tree != nil {
			// names are HCL strings: duplicates byte-wise AND after NFC, both modes (dupnf.go)
			o.checkDuplicateNames(expr, v, vd, tree)
			nfTable = coqNameTable(tree)
		}
		if !everr {
			gval = o.canon(v, tree)
			rep.Hist("value:" + v.Type().FriendlyName())
		}
	} else {
		rep.Hist("go:rejected")
		if stdValid && utf8.Valid(src) {
			// encoding/json (strict about everything but UTF-8) accepts it and it is valid
			// UTF-8: a JSON text is rejected
			kind := "rejects-what-encoding-json-accepts"
			switch {
			case strings.ContainsAny(s, prependChars):
				kind = "rejects-valid-json-grapheme-prepend"
			case rejectedOnlyForExponent(src, diags):
				// decided on the literal the diagnostic points at, not on the diagnostic's text alone
				kind = "rejects-valid-json-number-exponent"
			}
			o.fail(kind, "json.ParseExpression: "+diags.Error())
		}
	}
	if fileOK {
		rep.Hist("go:file-accepted")
	}
	kinds := make([]string, 0, len(o.fails))
	for k := range o.fails {
		kinds = append(kinds, k)
	}
	sort.Strings(kinds)
	for _, k := range kinds {
		rep.Fail(hv.Failure{Kind: k, Detail: o.fails[k], Input: s})
		rep.Hist("oracle-fail:" + k)
	}
	if len(kinds) == 0 {
		rep.Hist("oracle-ok")
	}
	return fmt.Sprintf("mkCase %s %s %s %s %s (%s) %s", hv.Hexs(src), hv.CoqList(titems), hv.CoqZList(codes),
		hv.CoqBool(fileOK), hv.CoqBool(everr), gval, nfTable), nil
}

// ---- full-expression mode -------------------------------------------------------------

func tmplCtx() *hcl.EvalContext {
	return &hcl.EvalContext{
		Variables: map[string]cty.Value{
			"name": cty.StringVal("world"),
			"n":    cty.NumberIntVal(3),
			"c":    cty.True,
			"lst":  cty.TupleVal([]cty.Value{cty.StringVal("a"), cty.StringVal("b")}),
			"obj":  cty.ObjectVal(map[string]cty.Value{"k": cty.StringVal("v")}),
		},
		Functions: map[string]function.Function{"upper": stdlib.UpperFunc},
	}
}

func summaries(d hcl.Diagnostics) string {
	var ss []string
	for _, x := range d {
		ss = append(ss, fmt.Sprintf("%d:%s", x.Severity, x.Summary))
	}
	return strings.Join(ss, "|")
}

func templateCheck(rep *hv.Report, r *hv.Rng, s string) {
	defer func() {
		if p := recover(); p != nil {
			rep.Fail(hv.Failure{Kind: "panic", Detail: fmt.Sprint(p), Input: "template:" + s})
		}
	}()
	ctx := tmplCtx()
	lit := jsonEscape(r, s)
	expr, diags := hcljson.ParseExpression([]byte(lit), "t.json")
	if diags.HasErrors() {
		rep.Fail(hv.Failure{Kind: "template-mode-differs", Detail: "escaped string literal rejected: " + diags.Error(), Input: lit})
		return
	}
	v1, d1 := expr.Value(ctx)
	var v2 cty.Value
	var d2 hcl.Diagnostics
	te, pd := hclsyntax.ParseTemplate([]byte(s), "t.json", hcl.Pos{Line: 1, Column: 2, Byte: 1})
	if pd.HasErrors() {
		v2, d2 = cty.DynamicVal, pd
		rep.Hist("template:parse-error")
	} else {
		v2, d2 = te.Value(ctx)
		d2 = append(pd, d2...)
		if d2.HasErrors() {
			rep.Hist("template:eval-error")
		} else {
			rep.Hist("template:ok")
		}
	}
	a, b := hv.DumpVal(v1), hv.DumpVal(v2)
	if a != b || summaries(d1) != summaries(d2) {
		rep.Fail(hv.Failure{Kind: "template-mode-differs", Detail: fmt.Sprintf("json: %s [%s]  native template: %s [%s]  content %q", a, summaries(d1), b, summaries(d2), s), Input: lit})
		rep.Hist("template:differs")
	}
	// the same content as a property NAME: in full-expression mode names are templates too
	if !d2.HasErrors() && v2.IsKnown() && !v2.IsNull() && v2.Type() == cty.String {
		kexpr, kd := hcljson.ParseExpression([]byte("{"+lit+":1}"), "t.json")
		if !kd.HasErrors() {
			kv, kvd := kexpr.Value(ctx)
			want := hv.DumpVal(cty.ObjectVal(map[string]cty.Value{v2.AsString(): cty.NumberIntVal(1)}))
			if got := hv.DumpVal(kv); kvd.HasErrors() || got != want {
				rep.Fail(hv.Failure{Kind: "template-mode-differs", Detail: fmt.Sprintf("as a property name: json: %s [%s]  want %s  content %q", got, summaries(kvd), want, s), Input: "{" + lit + ":1}"})
			}
			rep.Hist("template:as-name")
		}
	}
	// and in literal mode the content is untouched
	v0, d0 := expr.Value(nil)
	if d0.HasErrors() || v0.Type() != cty.String || v0.AsString() != cty.NormalizeString(s) {
		rep.Fail(hv.Failure{Kind: "literal-mapping-differs", Detail: fmt.Sprintf("literal mode: want %q got %s", s, hv.DumpVal(v0)), Input: lit})
	}
}

// ---- run ------------------------------------------------------------------------------

const strictTail = "Definition strict := Eval vm_compute in map (fun p => (base_index + fst p, snd p)) (strict_disagree cases).\nPrint strict.\n"

func runC13(cfg *hv.RunCfg) error {
	rep := hv.NewReport("C13", cfg.Seed)
	rep.Rule = "grammar-generated JSON texts (every escape form, surrogate pairs and lone surrogates, raw multi-byte and Prepend-class characters, numbers with extreme exponents/precision, nesting to depth 200, all whitespace forms, duplicate names, template sequences in strings) + on 8% of the cases the stream dupnf: objects at top level / in arrays / in objects / deeper with 2-5 properties, two or three of whose names are canonically equivalent but spelled differently (NFC/NFD/mixed forms, singletons, composition exclusions, Hangul syllables against jamo, \\uXXXX and surrogate-pair escapes against raw UTF-8) next to near-miss names that are different HCL strings, each evaluated in literal-only AND full-expression mode + one or two near-miss mutations on 45% of them + hand corpus; non-trivial = at least 3 scanner tokens or an escape sequence; distinct by SHA-256 of the input"
	r := hv.NewRng(cfg.Seed, 13)
	cf := &hv.CaseFile{Dir: cfg.Out, Name: "c13cases",
		Imports: "From Coq Require Import String.\nFrom HclV Require Import Base.Prelude Json.Rfc8259 Json.Scanner Json.Parser Json.Literal Json.JsonCheck.",
		Ctype:   "jcase", Checker: "check_json_cases"}

	var srcs []string
	if cfg.Replay != "" {
		b, err := os.ReadFile(cfg.Replay)
		if err != nil {
			return err
		}
		srcs = []string{string(b)}
	} else {
		srcs = append(srcs, c13Corpus...)
		if extra, err := filepath.Glob("/verif/corpus/C13/*"); err == nil {
			sort.Strings(extra)
			for _, p := range extra {
				if b, err := os.ReadFile(p); err == nil {
					srcs = append(srcs, string(b))
				}
			}
		}
		srcs = append(srcs, c13CorpusDupNames...)
		for i := 0; i < cfg.N; i++ {
			if r.Chance(0.08) {
				// canonically equivalent property names, spelled differently (dupnf.go); kept valid
				srcs = append(srcs, genDupNF(r, rep.Histogram))
				continue
			}
			s := genJSON(r, rep.Histogram)
			if r.Chance(0.45) {
				var name string
				s, name = mutate(r, s)
				rep.Hist("mut:" + name)
				if r.Chance(0.25) {
					s, name = mutate(r, s)
					rep.Hist("mut:" + name)
				}
			} else {
				rep.Hist("unmutated")
			}
			srcs = append(srcs, s)
		}
	}
	for _, s := range srcs {
		cs, err := c13Case(rep, s)
		if err != nil {
			continue
		}
		cf.Add(cs)
		rep.Idx(s)
		rep.Count(s, len(hcljson.VerifScan([]byte(s))) >= 4 || strings.Contains(s, `\`))
		if len(s) < 100 {
			rep.Sample(s)
		}
	}
	if cfg.Replay == "" {
		nt := cfg.N/8 + 100
		if nt > 2000 {
			nt = 2000
		}
		for i := 0; i < nt; i++ {
			templateCheck(rep, r, genTemplate(r, rep.Histogram))
		}
		rep.Notes = append(rep.Notes, fmt.Sprintf("%d template strings checked in full-expression mode against hclsyntax.ParseTemplate", nt))
	}
	names, err := cf.Flush(250)
	if err != nil {
		return err
	}
	// second oracle output: the strict RFC 8259 recogniser vs Go's acceptance
	for _, n := range names {
		p := filepath.Join(cfg.Out, n)
		f, err := os.OpenFile(p, os.O_APPEND|os.O_WRONLY, 0o644)
		if err != nil {
			return err
		}
		if _, err := f.WriteString(strictTail); err != nil {
			f.Close()
			return err
		}
		f.Close()
	}
	rep.Notes = append(rep.Notes,
		"each case file prints `bad` (model/Go disagreements, must be []) and `strict` : list (Z * Z) = [(case index, kind)]: 2 accepts-non-json, 3 rejects-valid-json, 5 rejects-valid-json-number-exponent (known finding, pinned dependency), 6 literal-mapping-differs-from-reference; 1 invalid-utf8-in-string is fixed in /repo and must not occur")
	rep.CaseFiles = names
	return rep.Write(cfg.Out)
}
