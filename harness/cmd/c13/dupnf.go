package main

// C13 - property names are HCL strings.
//
// "Objects with duplicate names are rejected at evaluation": json/structure.go makes a cty
// string of every property name before the duplicate check, in literal-only mode (Value(nil))
// exactly as in full-expression mode, and cty strings are compared after NFC normalisation.
// So {"\u00e9":1,"e\u0301":2}, {"\u212b":1,"\u00c5":2} (ANGSTROM SIGN / A WITH RING),
// a Hangul syllable next to its conjoining jamo, ... define one attribute twice and must be
// reported as `Duplicate object attribute`, never evaluated to an object that silently keeps
// one of the two values.
//
// This file holds
//   * the reference normalisation of a NAME (golang.org/x/text/unicode/norm called directly
//     on the name as encoding/json decodes it: neither hcl nor cty is asked),
//   * the expectation computed from the independent tree: which objects define a name twice
//     (byte-identical / equal only as HCL strings) and how many diagnostics that must give,
//   * the comparison of literal-only mode with full-expression mode,
//   * the generator stream `dupnf`: objects (top level, in arrays, in objects, deeper) with
//     2-5 properties among which two or three names are canonically equivalent but spelled
//     differently (other normalisation form and/or \uXXXX escapes against raw UTF-8,
//     surrogate-pair escapes against 4-byte forms), and near-miss names that are NOT
//     equivalent (compatibility-equivalent only, other case, other mark order).
//
// Not to be confused with the known finding C13-nfc (string VALUES are NFC-normalised by
// cty, so not verbatim): this is about the duplicate detection of NAMES, which the unchanged
// code does correctly.

import (
	"fmt"
	"sort"
	"strings"

	"github.com/hashicorp/hcl/v2"
	"github.com/zclconf/go-cty/cty"
	"golang.org/x/text/unicode/norm"
	"hclverif/hv"
)

// nfc is the reference normal form of a property name.
func nfc(s string) string { return norm.NFC.String(s) }

// ---- expectation from the independent tree ------------------------------------------------------

type dupExpect struct {
	diags   int  // number of `Duplicate object attribute` diagnostics evaluation must report
	rawDup  bool // some object repeats a byte-identical name
	nfOnly  bool // some object has two names that differ as byte strings and are equal as HCL strings
	objects int
}

// scanDups walks the tree; every member whose name (as an HCL string) was defined by an
// earlier member of the same object is one diagnostic.  The value of such a member is still
// evaluated, so nested objects count wherever they are.
func scanDups(n *jnode, e *dupExpect) {
	switch n.kind {
	case 'a':
		for _, x := range n.arr {
			scanDups(x, e)
		}
	case 'o':
		e.objects++
		seenRaw := map[string]bool{}
		seenNF := map[string]bool{}
		for i, k := range n.keys {
			nk := nfc(k)
			if seenNF[nk] {
				e.diags++
				if seenRaw[k] {
					e.rawDup = true
				} else {
					e.nfOnly = true
				}
			}
			seenNF[nk] = true
			seenRaw[k] = true
			scanDups(n.vals[i], e)
		}
	}
}

// nameTable collects the names that are not in NFC already, with their normal form: the
// c_nf field of the Coq case (JsonCheck.v).
func nameTable(n *jnode, out map[string]string) {
	switch n.kind {
	case 'a':
		for _, x := range n.arr {
			nameTable(x, out)
		}
	case 'o':
		for i, k := range n.keys {
			if nk := nfc(k); nk != k {
				out[k] = nk
			}
			nameTable(n.vals[i], out)
		}
	}
}

func coqNameTable(n *jnode) string {
	if n == nil {
		return "[]"
	}
	t := map[string]string{}
	nameTable(n, t)
	ks := make([]string, 0, len(t))
	for k := range t {
		ks = append(ks, k)
	}
	sort.Strings(ks)
	items := make([]string, len(ks))
	for i, k := range ks {
		items[i] = "(" + hexs(k) + ", " + hexs(t[k]) + ")"
	}
	return hv.CoqList(items)
}

// hasTemplateSeq: some string of the tree (name or value) contains a template introducer, so
// full-expression mode legitimately differs from literal-only mode.
func hasTemplateSeq(n *jnode) bool {
	tmpl := func(s string) bool { return strings.Contains(s, "${") || strings.Contains(s, "%{") }
	switch n.kind {
	case 's':
		return tmpl(n.s)
	case 'a':
		for _, x := range n.arr {
			if hasTemplateSeq(x) {
				return true
			}
		}
	case 'o':
		for i, k := range n.keys {
			if tmpl(k) || hasTemplateSeq(n.vals[i]) {
				return true
			}
		}
	}
	return false
}

func countSummary(d hcl.Diagnostics, s string) int {
	c := 0
	for _, x := range d {
		if x.Summary == s && x.Severity == hcl.DiagError {
			c++
		}
	}
	return c
}

const dupSummary = "Duplicate object attribute"

// checkDuplicateNames is the direct oracle for "objects with duplicate names rejected at
// evaluation", names compared as HCL strings, in both evaluation modes.
//
//	v, vd: expr.Value(nil) on the accepted text; tree: the independent decoding of the text.
func (o *oracle) checkDuplicateNames(expr hcl.Expression, v cty.Value, vd hcl.Diagnostics, tree *jnode) {
	var e dupExpect
	scanDups(tree, &e)
	if e.diags > 0 {
		o.rep.Hist("value:duplicate-name-error")
		if e.nfOnly {
			o.rep.Hist("value:duplicate-name-error:names-equal-only-after-nfc")
		}
		if e.rawDup {
			o.rep.Hist("value:duplicate-name-error:byte-identical-names")
		}
	}
	describe := func() string {
		what := "byte-identical names"
		if e.nfOnly && e.rawDup {
			what = "byte-identical names and names equal only after NFC"
		} else if e.nfOnly {
			what = "names that differ as byte strings but are the same HCL string (equal after NFC)"
		}
		return what
	}
	// literal-only mode
	got := countSummary(vd, dupSummary)
	switch {
	case e.diags > 0 && !vd.HasErrors():
		kind := "literal-mapping-differs"
		if !e.rawDup {
			kind = "duplicate-name-not-rejected"
		}
		o.fail(kind, fmt.Sprintf("literal-only mode: %d member(s) redefine a name (%s) but evaluation reports no error; value %s", e.diags, describe(), hv.DumpVal(v)))
	case e.diags == 0 && vd.HasErrors():
		o.fail("literal-mapping-differs", fmt.Sprintf("literal-only mode: no name is defined twice, yet evaluation reports: %s", vd.Error()))
	case got != e.diags:
		kind := "literal-mapping-differs"
		if e.nfOnly && got < e.diags {
			kind = "duplicate-name-not-rejected"
		}
		o.fail(kind, fmt.Sprintf("literal-only mode: want %d `%s` diagnostic(s) (%s), got %d [%s]", e.diags, dupSummary, describe(), got, summaries(vd)))
	case len(vd) != got:
		o.fail("literal-mapping-differs", fmt.Sprintf("literal-only mode: diagnostics other than `%s`: [%s]", dupSummary, summaries(vd)))
	}
	// full-expression mode: without template sequences anywhere it must be the very same
	// outcome - value and diagnostics
	if hasTemplateSeq(tree) {
		o.rep.Hist("modes:not-compared(template-sequence-present)")
		return
	}
	v2, d2 := expr.Value(tmplCtx())
	o.rep.Hist("modes:compared")
	// (RawEquals: cty's structural identity - types, nulls, unknowns, marks, exact numbers;
	// the values are only rendered when they differ, huge numbers are slow to print)
	if !rawEqualsFast(v, v2) || summaries(vd) != summaries(d2) {
		a, b := hv.DumpVal(v), hv.DumpVal(v2)
		kind := "literal-vs-expression-mode-differs"
		if e.nfOnly && countSummary(d2, dupSummary) == e.diags && got < e.diags {
			// expression mode does what the property says and literal mode does not
			kind = "duplicate-name-not-rejected"
		}
		if kind == "literal-vs-expression-mode-differs" && summaries(vd) == summaries(d2) {
			if w, ok := stripLeadingBOMDeep(v); ok && rawEqualsFast(w, v2) {
				// exact cause: expression mode parses every string (and member name) as a
				// template and hclsyntax.scanTokens strips one leading U+FEFF in every scan
				// mode; apart from that the two modes agree (same defect as
				// C16-/C03-json-template-leading-bom)
				kind = "json-template-leading-bom"
			}
		}
		o.fail(kind, fmt.Sprintf("Value(nil): %s [%s]   Value(ctx): %s [%s]   (no template sequence in any string)", a, summaries(vd), b, summaries(d2)))
		o.rep.Hist("modes:differ")
	}
	if c := countSummary(d2, dupSummary); c != e.diags {
		o.fail("literal-mapping-differs", fmt.Sprintf("full-expression mode: want %d `%s` diagnostic(s) (%s), got %d [%s]", e.diags, dupSummary, describe(), c, summaries(d2)))
	}
}

// ---- generator stream dupnf ------------------------------------------------------------------------

// eqClass: rune sequences that are canonically equivalent (one HCL string), pairwise
// different byte strings.  Checked against the reference normalisation at start-up.
type eqClass struct {
	label string
	forms []string
}

var eqClasses = []eqClass{
	{"latin-precomposed", []string{"\u00e9", "e\u0301"}},
	{"latin-precomposed", []string{"\u00f1", "n\u0303"}},
	{"latin-precomposed", []string{"\u00fc", "u\u0308"}},
	{"latin-two-marks", []string{"\u1e69", "s\u0323\u0307", "s\u0307\u0323", "\u1e63\u0307", "\u1e61\u0323"}},
	{"latin-two-marks", []string{"\u01d6", "\u00fc\u0304", "u\u0308\u0304"}},
	{"latin-two-marks", []string{"\u1ed9", "o\u0323\u0302", "o\u0302\u0323", "\u1ecd\u0302", "\u00f4\u0323"}},
	{"mark-reorder", []string{"a\u0323\u0301", "a\u0301\u0323", "\u1ea1\u0301", "\u00e1\u0323"}},
	{"mark-reorder", []string{"q\u0316\u0300", "q\u0300\u0316"}},
	{"angstrom-sign", []string{"\u00c5", "A\u030a", "\u212b"}},
	{"ohm-sign", []string{"\u03a9", "\u2126"}},
	{"kelvin-sign-vs-ascii", []string{"K", "\u212a"}},
	{"greek-question-mark-vs-ascii", []string{";", "\u037e"}},
	{"greek-tonos", []string{"\u03ac", "\u1f71", "\u03b1\u0301"}},
	{"cyrillic", []string{"\u0439", "\u0438\u0306"}},
	{"kana-voiced", []string{"\u304c", "\u304b\u3099"}},
	{"hangul", []string{"\uac00", "\u1100\u1161"}},
	{"hangul", []string{"\uac01", "\u1100\u1161\u11a8", "\uac00\u11a8"}},
	{"hangul", []string{"\ud7a3", "\u1112\u1175\u11c2", "\ud788\u11c2"}},
	{"composition-exclusion", []string{"\u0958", "\u0915\u093c"}},
	{"composition-exclusion", []string{"\ufb1d", "\u05d9\u05b4"}},
	{"composition-exclusion", []string{"\u0344", "\u0308\u0301"}},
	{"singleton", []string{"\u2000", "\u2002"}},
	{"singleton", []string{"\uf900", "\u8c48"}},
	{"singleton", []string{"\u0340", "\u0300"}},
	{"singleton", []string{"\u2329", "\u3008"}},
	{"supplementary", []string{"\U0001d15e", "\U0001d157\U0001d165"}},
	{"supplementary", []string{"\U000110ab", "\U000110a5\U000110ba"}},
	{"supplementary", []string{"\U0002f800", "\u4e3d"}},
	{"supplementary", []string{"\U0001f600\u00e9", "\U0001f600e\u0301"}},
}

// nearMisses: look-alikes that are DIFFERENT HCL strings (compatibility-equivalent only,
// case, base letter, order of marks of the same combining class, invisible characters).
var nearMisses = [][2]string{
	{"\ufb01", "fi"}, {"\u00b5", "\u03bc"}, {"\u2460", "1"}, {"\uff21", "A"}, {"a", "A"}, {"\u00e9", "e"},
	{"\u00e9", "\u00e8"}, {"e\u0301", "e\u0300"}, {"\u0131", "i"}, {"\u017f", "s"}, {"\u2160", "I"}, {"\u1e9b\u0323", "\u1e69"},
	{"a\u0301\u0308", "a\u0308\u0301"}, {"\u00df", "ss"}, {"\u00a0", " "}, {"a", "a\u200d"}, {"k", "k "}, {"\u00c5", "A"},
	{"\u03a9", "\u03c9"}, {"\uac00", "\u3131\u314f"}, {"\uac00", "\uac01"}, {"\u00e9", "\u00c9"}, {"K", "k"},
}

func init() {
	for _, c := range eqClasses {
		for i, a := range c.forms {
			for _, b := range c.forms[:i] {
				if a == b || nfc(a) != nfc(b) {
					panic(fmt.Sprintf("c13 dupnf: class %s: %q and %q must be distinct and canonically equivalent", c.label, a, b))
				}
			}
		}
	}
	for _, p := range nearMisses {
		if nfc(p[0]) == nfc(p[1]) {
			panic(fmt.Sprintf("c13 dupnf: near miss %q / %q is canonically equivalent", p[0], p[1]))
		}
	}
}

// hangulForms: a random Hangul syllable with its decompositions, by the arithmetic of the
// Unicode standard (section 3.12), not by table.
func hangulForms(r *hv.Rng) []string {
	l, v, t := r.Intn(19), r.Intn(21), r.Intn(28)
	lv := rune(0xac00 + (l*21+v)*28)
	forms := []string{string(lv + rune(t)), string(rune(0x1100+l)) + string(rune(0x1161+v))}
	if t > 0 {
		forms[1] += string(rune(0x11a7 + t))
		forms = append(forms, string(lv)+string(rune(0x11a7+t)))
	}
	return forms
}

var nfdRanges = [][2]rune{{0xc0, 0x17f}, {0x1cd, 0x233}, {0x1e00, 0x1eff}, {0x1f00, 0x1fff}, {0x386, 0x3ce}, {0x400, 0x4ff},
	{0x3040, 0x30ff}, {0xf900, 0xfaff}, {0x900, 0x9ff}, {0x2f800, 0x2fa1d}, {0x1100, 0x11ff}, {0x2000, 0x22ff}}

// randomForms: a random character with a canonical decomposition, the decomposition, and the
// composition of the decomposition (different again for composition exclusions).
func randomForms(r *hv.Rng) []string {
	for try := 0; try < 200; try++ {
		rg := nfdRanges[r.Intn(len(nfdRanges))]
		s := string(rg[0] + rune(r.Intn(int(rg[1]-rg[0])+1)))
		d := norm.NFD.String(s)
		if d == s {
			continue
		}
		forms := []string{s, d}
		if c := nfc(d); c != s && c != d {
			forms = append(forms, c)
		}
		return forms
	}
	return nil
}

type dupGen struct {
	*jgen
}

// spell renders s as the inside of a JSON string literal. style: 0 raw UTF-8, 1 every
// non-ASCII character as \uXXXX (surrogate pairs above the BMP), 2 character by character
// at random (ASCII too).
func (g *dupGen) spell(s string, style int) string {
	var sb strings.Builder
	for _, c := range s {
		esc := c < 0x20 || c == '"' || c == '\\'
		switch style {
		case 1:
			esc = esc || c >= 0x80
		case 2:
			esc = esc || g.r.Chance(0.5)
		}
		switch {
		case !esc:
			sb.WriteRune(c)
		case c >= 0x10000:
			c2 := c - 0x10000
			sb.WriteString(`\u` + g.hex4(int(0xd800+(c2>>10))) + `\u` + g.hex4(int(0xdc00+(c2&0x3ff))))
			g.f("dupnf:spelling:surrogate-pair-escape")
		default:
			sb.WriteString(`\u` + g.hex4(int(c)))
		}
	}
	return sb.String()
}

var dupAffixes = []string{"", "", "", "a", "k", "name", "x_", "-", " ", "1", "\u4e2d", "\U0001f600", "caf", "$", "%", "\"", "\\", "/", "\u00df", "e", "\u0301"}
var dupFillers = []string{"a", "b", "c", "k", "k1", "name", "x", "", "e", "A", "\u00e9x", "\u4e2d", "z z", "0", "\u03c9", "\U0001f600"}
var dupScalars = []string{"1", "2", "3", "-0.5", "1e3", "true", "false", "null", `"x"`, `"y"`, `""`, `"\u00e9"`, "[]", "{}", `[1,"y"]`, `{"z":0}`, `[{"a":1,"b":2}]`}

type dupMember struct {
	name  string // the HCL string before spelling (code points)
	lit   string // spelled, inside the quotes
	value string
}

// object renders one object with n members; returns its text.
func (g *dupGen) object(dup bool) string {
	n := 2 + g.r.Intn(4)
	g.f(fmt.Sprintf("dupnf:members=%d", n))
	var forms []string
	label := ""
	switch k := g.r.Intn(10); {
	case k < 6:
		c := eqClasses[g.r.Intn(len(eqClasses))]
		forms, label = c.forms, c.label
	case k < 8:
		forms, label = hangulForms(g.r), "hangul-random"
	default:
		forms, label = randomForms(g.r), "random-decomposable"
		if forms == nil {
			c := eqClasses[0]
			forms, label = c.forms, c.label
		}
	}
	pre := dupAffixes[g.r.Intn(len(dupAffixes))]
	suf := dupAffixes[g.r.Intn(len(dupAffixes))]
	if pre == "$" || pre == "%" {
		// never form a template introducer: the modes are compared on this stream
		suf = strings.TrimPrefix(suf, "{")
	}
	members := make([]dupMember, 0, n)
	used := map[string]bool{} // by normal form
	add := func(name string, style int) {
		members = append(members, dupMember{name: name, lit: g.spell(name, style), value: dupScalars[g.r.Intn(len(dupScalars))]})
		used[nfc(name)] = true
	}
	styleOf := func() int { return g.r.Intn(3) }
	if dup {
		g.f("dupnf:equivalent-names")
		g.f("dupnf:class:" + label)
		// two (sometimes three) different spellings of one HCL string
		perm := g.r.Perm(len(forms))
		cnt := 2
		if len(forms) >= 3 && n >= 3 && g.r.Chance(0.2) {
			cnt = 3
			g.f("dupnf:three-equivalent-names")
		}
		s0 := -1
		for i := 0; i < cnt; i++ {
			st := styleOf()
			if s0 >= 0 && st != s0 {
				g.f("dupnf:spelling:escape-vs-raw")
			}
			s0 = st
			add(pre+forms[perm[i]]+suf, st)
		}
		if g.r.Chance(0.1) {
			// the same code points, spelled differently: equal already after unescaping
			m := members[g.r.Intn(len(members))]
			if len(members) < n {
				members = append(members, dupMember{name: m.name, lit: g.spell(m.name, 2), value: "0"})
				g.f("dupnf:plus-same-code-points-other-escapes")
			}
		}
	} else {
		g.f("dupnf:near-miss-only")
	}
	// near misses and fillers, all different HCL strings
	for tries := 0; len(members) < n && tries < 100; tries++ {
		var name string
		switch k := g.r.Intn(10); {
		case k < 4:
			// both look-alikes side by side when there is room, else one of them
			p := nearMisses[g.r.Intn(len(nearMisses))]
			first := g.r.Intn(2)
			name = pre + p[first] + suf
			other := pre + p[1-first] + suf
			if !used[nfc(name)] && !used[nfc(other)] && len(members)+2 <= n {
				add(other, styleOf())
				g.f("dupnf:near-miss-pair")
			} else if !used[nfc(name)] {
				g.f("dupnf:near-miss-name")
			}
		case k < 5 && len(forms) > 0:
			// the base of the class without its marks, or with one more
			name = pre + forms[0] + g.r.Pick("\u0300", "x", "\u0327") + suf
		default:
			name = dupFillers[g.r.Intn(len(dupFillers))] + g.r.Pick("", "", "1", "_")
		}
		if used[nfc(name)] || strings.Contains(name, "${") || strings.Contains(name, "%{") {
			continue
		}
		add(name, styleOf())
	}
	// shuffle, so the equivalent names are anywhere (adjacent, first/last, apart)
	g.r.Shuffle(len(members), func(i, j int) { members[i], members[j] = members[j], members[i] })
	var sb strings.Builder
	save := g.b
	g.b.Reset()
	g.b.WriteByte('{')
	for i, m := range members {
		if i > 0 {
			g.b.WriteByte(',')
		}
		g.ws()
		g.b.WriteString(`"` + m.lit + `"`)
		g.ws()
		g.b.WriteByte(':')
		g.ws()
		g.b.WriteString(m.value)
		g.ws()
	}
	g.b.WriteByte('}')
	sb.WriteString(g.b.String())
	g.b = save
	return sb.String()
}

// genDupNF returns one valid JSON text of the dupnf stream.
func genDupNF(r *hv.Rng, feat map[string]int) string {
	g := &dupGen{&jgen{r: r, feat: feat}}
	g.f("dupnf:stream")
	obj := g.object(r.Chance(0.8))
	sc := func() string { return dupScalars[r.Intn(len(dupScalars))] }
	switch r.Intn(8) {
	case 0, 1, 2:
		g.f("dupnf:place:top-level")
		return obj
	case 3:
		g.f("dupnf:place:in-array")
		return "[" + sc() + ", " + obj + "," + sc() + "]"
	case 4:
		g.f("dupnf:place:in-object")
		return `{"k": ` + obj + `, "m": ` + sc() + `}`
	case 5:
		g.f("dupnf:place:deep")
		return `{"k": [` + sc() + `, {"m": [[` + obj + `]]}]}`
	case 6:
		g.f("dupnf:place:two-objects")
		return "[" + obj + ", " + g.object(r.Chance(0.5)) + "]"
	default:
		g.f("dupnf:place:value-of-a-redefined-name")
		// the object sits under a name that is itself defined twice: both are reported
		return `{"\u212b": 1, "\u00c5": ` + obj + `}`
	}
}

// hand corpus: the same HCL string twice under different spellings, and look-alikes that are not
var c13CorpusDupNames = []string{
	`{"\u00e9": 1, "e\u0301": 2}`,                               // escapes, NFC then NFD
	"{\"e\u0301\": \"x\", \"\u00e9\": \"y\"}",                   // raw UTF-8, NFD then NFC
	"{\"k\": [{\"\u212b\": true, \"\\u00c5\": false}]}",         // nested; ANGSTROM SIGN raw, A WITH RING escaped
	`{"K": 1, "b": 2, "\u212A": 3}`,                             // KELVIN SIGN is the ASCII letter
	"[{\"\\ud834\\udd5e\": 1, \"\U0001d157\U0001d165\": 2}]",    // surrogate-pair escape of an excluded composite vs raw 4-byte decomposition
	`{"\uac01": 1, "\u1100\u1161\u11a8": 2, "\uac00\u11a8": 3}`, // three spellings: two diagnostics
	`{"\ufb01": 1, "fi": 2, "\u00b5": 3, "\u03bc": 4}`,          // compatibility-equivalent only: four attributes, no error
}

// rawEqualsFast is Value.RawEquals with numbers compared through big.Float.Cmp: cty compares
// numbers by their full decimal text, which takes minutes for an exponent like 1e99999999 read
// from a mutated input.
// stripLeadingBOMDeep removes ONE leading U+FEFF from every string and every attribute name of
// a JSON-shaped value (strings, numbers, bools, nulls, tuples, objects); ok=false when the value
// has another shape or two attribute names collide afterwards.
func stripLeadingBOMDeep(v cty.Value) (cty.Value, bool) {
	if v.IsMarked() || !v.IsKnown() || v.IsNull() {
		return v, !v.IsMarked()
	}
	ty := v.Type()
	switch {
	case ty == cty.String:
		return cty.StringVal(strings.TrimPrefix(v.AsString(), "\ufeff")), true
	case ty.IsPrimitiveType():
		return v, true
	case ty.IsTupleType():
		var elems []cty.Value
		for it := v.ElementIterator(); it.Next(); {
			_, e := it.Element()
			w, ok := stripLeadingBOMDeep(e)
			if !ok {
				return v, false
			}
			elems = append(elems, w)
		}
		return cty.TupleVal(elems), true
	case ty.IsObjectType():
		attrs := map[string]cty.Value{}
		for it := v.ElementIterator(); it.Next(); {
			k, e := it.Element()
			w, ok := stripLeadingBOMDeep(e)
			if !ok {
				return v, false
			}
			name := strings.TrimPrefix(k.AsString(), "\ufeff")
			if _, dup := attrs[name]; dup {
				return v, false
			}
			attrs[name] = w
		}
		return cty.ObjectVal(attrs), true
	}
	return v, false
}

func rawEqualsFast(a, b cty.Value) bool {
	if !a.Type().Equals(b.Type()) || a.IsKnown() != b.IsKnown() || !a.HasSameMarks(b) {
		return false
	}
	a, _ = a.Unmark()
	b, _ = b.Unmark()
	if !a.IsKnown() {
		return true
	}
	if a.IsNull() || b.IsNull() {
		return a.IsNull() == b.IsNull()
	}
	ty := a.Type()
	switch {
	case ty == cty.Number:
		return a.AsBigFloat().Cmp(b.AsBigFloat()) == 0
	case ty.IsPrimitiveType():
		return a.RawEquals(b)
	case ty.IsListType() || ty.IsTupleType() || ty.IsSetType():
		if a.LengthInt() != b.LengthInt() {
			return false
		}
		ai, bi := a.ElementIterator(), b.ElementIterator()
		for ai.Next() && bi.Next() {
			_, av := ai.Element()
			_, bv := bi.Element()
			if !rawEqualsFast(av, bv) {
				return false
			}
		}
		return true
	case ty.IsMapType() || ty.IsObjectType():
		if a.LengthInt() != b.LengthInt() {
			return false
		}
		ai, bi := a.ElementIterator(), b.ElementIterator()
		for ai.Next() && bi.Next() {
			ak, av := ai.Element()
			bk, bv := bi.Element()
			if !ak.RawEquals(bk) || !rawEqualsFast(av, bv) {
				return false
			}
		}
		return true
	}
	return a.RawEquals(b)
}
