package main

// big.go — the SIZE stream of C09 and the writer-side entry points.
//
// "For every configuration that parses without errors" includes configurations with ONE token larger
// than any internal buffer (4 KiB, 8 KiB, 32 KiB, 64 KiB, 1 MiB), files with tens of thousands of
// ordinary tokens, runs of thousands of spaces between tokens and indentation hundreds of levels
// deep. genBig produces them from ordinary generated configurations; c09WriterOracle drives every
// writer-side entry point (Format, File.Bytes, File.WriteTo to counting / failing writers,
// Tokens.WriteTo, Tokens.Bytes) and compares with an independent reference serialisation
// (refWrite: SpacesBefore spaces, then the token's bytes, token by token).
//
// cmd/hclfmt is package main (not importable); its processing path is io.ReadAll + hclwrite.Format
// + one Write of the result, i.e. the Format(src) entry point exercised here.

import (
	"bytes"
	"fmt"
	"hash/fnv"
	"io"
	"sort"
	"strings"

	"github.com/hashicorp/hcl/v2"
	"github.com/hashicorp/hcl/v2/hclsyntax"
	"github.com/hashicorp/hcl/v2/hclwrite"
	"hclverif/hv"
)

// Coq correspondence limits: a case is sent to the Coq model only when the bytes of all its tokens
// and the number of tokens stay within what the ordinary streams produce (reading a case file costs
// ~5-10 KB/s; vm_compute over a megabyte of token bytes is slow). Runs of spaces cost nothing there
// (SpacesBefore is a number), so huge gaps in the INPUT and deep nesting do reach the model.
const (
	coqMaxTokBytes = 2600
	coqMaxToks     = 2000
)

func tokBytesTotal(ts hclwrite.Tokens) int {
	n := 0
	for _, t := range ts {
		n += len(t.Bytes)
	}
	return n
}

func brief(b []byte) string {
	if len(b) > 160 {
		return fmt.Sprintf("%q ... %q (%d bytes)", b[:70], b[len(b)-70:], len(b))
	}
	return fmt.Sprintf("%q", b)
}

// ---- independent reference writer ---------------------------------------------------------------

func refWrite(ts hclwrite.Tokens) []byte {
	n := 0
	for _, t := range ts {
		if t.SpacesBefore > 0 {
			n += t.SpacesBefore
		}
		n += len(t.Bytes)
	}
	out := make([]byte, 0, n)
	for _, t := range ts {
		for i := 0; i < t.SpacesBefore; i++ {
			out = append(out, ' ')
		}
		out = append(out, t.Bytes...)
	}
	return out
}

func firstDiff(a, b []byte) int {
	n := len(a)
	if len(b) < n {
		n = len(b)
	}
	for i := 0; i < n; i++ {
		if a[i] != b[i] {
			return i
		}
	}
	if len(a) != len(b) {
		return n
	}
	return -1
}

func diffDetail(what string, got, want []byte) string {
	i := firstDiff(got, want)
	lo := i - 20
	if lo < 0 {
		lo = 0
	}
	cut := func(b []byte) []byte {
		if lo > len(b) {
			return nil
		}
		hi := lo + 60
		if hi > len(b) {
			hi = len(b)
		}
		return b[lo:hi]
	}
	return fmt.Sprintf("%s: %d bytes, reference %d bytes, first difference at byte %d: got %q, reference %q", what, len(got), len(want), i, cut(got), cut(want))
}

// countWriter accepts everything, in pieces: it keeps what it was given and counts the calls.
type countWriter struct {
	buf   []byte
	calls int
}

func (w *countWriter) Write(p []byte) (int, error) {
	w.calls++
	w.buf = append(w.buf, p...)
	return len(p), nil
}

// shortWriter accepts limit bytes in total; the call that crosses the limit is a short write
// (n < len(p) with io.ErrShortWrite), later calls accept nothing.
type shortWriter struct {
	buf        []byte
	limit      int
	failed     bool
	afterError int
}

func (w *shortWriter) Write(p []byte) (int, error) {
	if w.failed {
		w.afterError++
		return 0, io.ErrShortWrite
	}
	room := w.limit - len(w.buf)
	if len(p) <= room {
		w.buf = append(w.buf, p...)
		return len(p), nil
	}
	w.buf = append(w.buf, p[:room]...)
	w.failed = true
	return room, io.ErrShortWrite
}

func checkWriteTo(what string, wt io.WriterTo, want []byte, salt uint32) (string, string) {
	cw := &countWriter{}
	n, err := wt.WriteTo(cw)
	if err != nil {
		return "writeto-error-on-good-writer", fmt.Sprintf("%s.WriteTo returned %v on a writer that never fails", what, err)
	}
	if !bytes.Equal(cw.buf, want) {
		return "written-bytes-differ-from-tokens", diffDetail(what+".WriteTo wrote", cw.buf, want)
	}
	if n != int64(len(cw.buf)) {
		return "writeto-count-wrong", fmt.Sprintf("%s.WriteTo returned %d, the writer received %d bytes in %d calls", what, n, len(cw.buf), cw.calls)
	}
	// a writer that stops accepting at a content-derived point
	limit := 0
	if len(want) > 0 {
		limit = int(salt % uint32(len(want)+1))
	}
	sw := &shortWriter{limit: limit}
	n, err = wt.WriteTo(sw)
	if limit < len(want) && err == nil {
		return "writeto-swallows-write-error", fmt.Sprintf("%s.WriteTo returned a nil error although the writer reported a short write after %d of %d bytes", what, limit, len(want))
	}
	if limit >= len(want) && err != nil {
		return "writeto-error-on-good-writer", fmt.Sprintf("%s.WriteTo returned %v although the writer accepted all %d bytes", what, err, len(want))
	}
	if n != int64(len(sw.buf)) {
		return "writeto-count-wrong", fmt.Sprintf("%s.WriteTo returned %d, the writer accepted %d bytes (limit %d of %d)", what, n, len(sw.buf), limit, len(want))
	}
	if !bytes.Equal(sw.buf, want[:len(sw.buf)]) {
		return "written-bytes-differ-from-tokens", diffDetail(what+".WriteTo (failing writer) wrote", sw.buf, want[:len(sw.buf)])
	}
	return "", ""
}

type tokensWriterTo struct{ ts hclwrite.Tokens }

func (t tokensWriterTo) WriteTo(w io.Writer) (int64, error) { return t.ts.WriteTo(w) }

// c09WriterOracle: every entry point that turns tokens into bytes must produce exactly the
// concatenation of (SpacesBefore spaces, token bytes) over the tokens it serialises, must report
// the number of bytes it handed to the writer, and must leave earlier results alone.
func c09WriterOracle(src []byte, valid bool) (kind, detail string) {
	defer func() {
		if p := recover(); p != nil {
			kind, detail = "writer-panic", fmt.Sprint(p)
		}
	}()
	h := fnv.New32a()
	h.Write(src)
	salt := h.Sum32()

	// (1) the scanner's tokens as they are (layout of the source: SpacesBefore as large as the gaps)
	toks := hclwrite.VerifLexConfig(src)
	raw := refWrite(toks)
	tb := toks.Bytes()
	if !bytes.Equal(tb, raw) {
		return "written-bytes-differ-from-tokens", diffDetail("Tokens.Bytes() of the source's tokens", tb, raw)
	}
	hold(src, tb)
	if k, d := checkWriteTo("Tokens(source)", tokensWriterTo{toks}, raw, salt); k != "" {
		return k, d
	}
	if valid && !bytes.ContainsAny(src, "\t") && !bytes.HasPrefix(src, []byte("\xef\xbb\xbf")) && !bytes.Equal(raw, src) {
		return "unformatted-tokens-do-not-reproduce-source", diffDetail("Tokens.Bytes() of an unformatted tab-free source", raw, src)
	}

	// (2) Format(src) = serialisation of the formatted tokens
	hclwrite.VerifFormat(toks)
	exp := refWrite(toks)
	out := hclwrite.Format(append([]byte(nil), src...))
	if !bytes.Equal(out, exp) {
		return "written-bytes-differ-from-tokens", diffDetail("Format(src)", out, exp)
	}
	if k, d := checkWriteTo("Tokens(formatted)", tokensWriterTo{toks}, exp, salt*31+7); k != "" {
		return k, d
	}
	if !valid {
		return "", ""
	}

	// (3) the writer's File: Bytes, WriteTo
	f, diags := hclwrite.ParseConfig(append([]byte(nil), src...), "t.hcl", hcl.InitialPos)
	if diags.HasErrors() || f == nil {
		return "", "" // hclsyntax accepted it, the writer's loader did not: C10's business
	}
	ft := hclwrite.VerifFileTokens(f)
	hclwrite.VerifFormat(ft) // what File.WriteTo does to the same tokens
	fexp := refWrite(ft)
	fb := f.Bytes()
	if !bytes.Equal(fb, fexp) {
		return "written-bytes-differ-from-tokens", diffDetail("File.Bytes()", fb, fexp)
	}
	hold(src, fb)
	if k, d := checkWriteTo("File", f, fexp, salt*131+3); k != "" {
		return k, d
	}
	if fb2 := f.Bytes(); !bytes.Equal(fb2, fexp) {
		return "file-bytes-not-repeatable", diffDetail("second File.Bytes()", fb2, fexp)
	}
	if !bytes.Equal(fexp, exp) {
		return "file-bytes-differ-from-format", diffDetail("File.Bytes() against Format(src)", fexp, exp)
	}
	if k, d := checkHeld(); k != "" {
		held = nil
		return k, d
	}
	return "", ""
}

// c09ValuesOracle: the formatted text defines the same attributes with the same values. Every
// attribute expression (at any block depth) is evaluated without a context in the source and in
// the output; both must fail or both must give the same value.
func c09ValuesOracle(src, out []byte) (kind, detail string) {
	defer func() {
		if p := recover(); p != nil {
			kind, detail = "evaluation-panic", fmt.Sprint(p)
		}
	}()
	f1, d1 := hclsyntax.ParseConfig(src, "t.hcl", hcl.InitialPos)
	f2, d2 := hclsyntax.ParseConfig(out, "t.hcl", hcl.InitialPos)
	if d1.HasErrors() || d2.HasErrors() {
		return "", ""
	}
	var walk func(path string, a, b *hclsyntax.Body) (string, string)
	walk = func(path string, a, b *hclsyntax.Body) (string, string) {
		if len(a.Attributes) != len(b.Attributes) || len(a.Blocks) != len(b.Blocks) {
			return "formatted-output-parses-differently", fmt.Sprintf("%s: %d attributes / %d blocks in the source, %d / %d in the output", path, len(a.Attributes), len(a.Blocks), len(b.Attributes), len(b.Blocks))
		}
		names := make([]string, 0, len(a.Attributes))
		for n := range a.Attributes {
			names = append(names, n)
		}
		sort.Strings(names)
		for _, n := range names {
			bn, ok := b.Attributes[n]
			if !ok {
				return "formatted-output-parses-differently", fmt.Sprintf("%s: attribute %s is missing from the output", path, brief([]byte(n)))
			}
			v1, e1 := a.Attributes[n].Expr.Value(nil)
			v2, e2 := bn.Expr.Value(nil)
			if e1.HasErrors() != e2.HasErrors() {
				return "formatted-output-value-differs", fmt.Sprintf("%s: attribute %s evaluates with errors on one side only", path, brief([]byte(n)))
			}
			if !e1.HasErrors() && hv.DumpVal(v1) != hv.DumpVal(v2) {
				return "formatted-output-value-differs", fmt.Sprintf("%s: attribute %s has a different value after formatting", path, brief([]byte(n)))
			}
		}
		for i := range a.Blocks {
			if a.Blocks[i].Type != b.Blocks[i].Type || strings.Join(a.Blocks[i].Labels, "\x00") != strings.Join(b.Blocks[i].Labels, "\x00") {
				return "formatted-output-parses-differently", fmt.Sprintf("%s: block %d has another type or labels", path, i)
			}
			if k, d := walk(fmt.Sprintf("%s/%d", path, i), a.Blocks[i].Body, b.Blocks[i].Body); k != "" {
				return k, d
			}
		}
		return "", ""
	}
	return walk("", f1.Body.(*hclsyntax.Body), f2.Body.(*hclsyntax.Body))
}

// ---- the SIZE generator ---------------------------------------------------------------------------

func parsesOK(s string) bool {
	_, d := hclsyntax.ParseConfig([]byte(s), "t.hcl", hcl.InitialPos)
	return !d.HasErrors()
}

type sizeClass struct {
	label  string
	lo, hi int
	weight int
}

// sizes of ONE token (all of its bytes). The classes sit on the usual buffer sizes (512/1024,
// bufio's 4096, 8192, io.Copy's 32 KiB, 64 KiB) and one far beyond all of them.
var tokenSizes = []sizeClass{
	{"500-1100", 500, 1100, 8},
	{"4000-4200", 4000, 4200, 34},
	{"8191-8193", 8191, 8193, 22},
	{"32767-32769", 32767, 32769, 6},
	{"65535-65537", 65535, 65537, 20},
	{"1MiB", 1 << 20, 1 << 20, 10},
}

// runs of spaces between two tokens of the INPUT: around the 40-byte spaces buffer of
// Tokens.WriteTo as well.
var gapSizes = []sizeClass{
	{"39-41", 39, 41, 10},
	{"79-81", 79, 81, 10},
	{"500-1100", 500, 1100, 10},
	{"4000-4200", 4000, 4200, 30},
	{"8191-8193", 8191, 8193, 15},
	{"65535-65537", 65535, 65537, 15},
	{"1MiB", 1 << 20, 1 << 20, 10},
}

func pickSize(r *hv.Rng, cs []sizeClass, max int) (int, string) {
	tot := 0
	for _, c := range cs {
		if c.lo <= max {
			tot += c.weight
		}
	}
	x := r.Intn(tot)
	for _, c := range cs {
		if c.lo > max {
			continue
		}
		if x < c.weight {
			return c.lo + r.Intn(c.hi-c.lo+1), c.label
		}
		x -= c.weight
	}
	return cs[0].lo, cs[0].label
}

// filler returns exactly n bytes from the given alphabet (entries may be multi-byte); the text is
// not periodic with a short period, so a moved or duplicated piece changes the token.
func filler(r *hv.Rng, n int, alphabet []string, pad string) string {
	if n <= 0 {
		return ""
	}
	// a block of a few hundred random symbols with a running counter keeps generation fast for 1 MiB
	var blk strings.Builder
	for blk.Len() < 257 {
		blk.WriteString(alphabet[r.Intn(len(alphabet))])
	}
	b := blk.String()
	var sb strings.Builder
	sb.Grow(n + 8)
	for k := 0; sb.Len()+len(b)+8 <= n; k++ {
		sb.WriteString(b)
		fmt.Fprintf(&sb, "%d", k)
	}
	for sb.Len() < n {
		sb.WriteString(pad)
	}
	return sb.String()[:n]
}

var (
	textAlphabet  = []string{"a", "b", "c", "x", "y", "z", "Q", "0", "7", " ", " ", ".", ",", "-", "_", "=", "é", "世", "é", ":", ";", "(", "]"}
	asciiAlphabet = []string{"a", "b", "c", "x", "y", "z", "Q", "0", "7", " ", " ", ".", ",", "-", "_", "=", ":", ";", "(", "]"}
	identAlphabet = []string{"a", "b", "c", "x", "y", "z", "q", "0", "7", "_"}
	digitAlphabet = []string{"1", "2", "3", "4", "5", "6", "7", "8", "9", "0"}
)

func textFill(r *hv.Rng, n int) string {
	if r.Chance(0.5) {
		s := filler(r, n, textAlphabet, "x")
		// the cut at n may have split a multi-byte symbol: repair the tail
		for len(s) > 0 && !validTail(s) {
			s = s[:len(s)-1]
		}
		for len(s) < n {
			s += "x"
		}
		return s
	}
	return filler(r, n, asciiAlphabet, "x")
}

func validTail(s string) bool {
	// s ends on a rune boundary (only the last 4 bytes can be affected)
	i := len(s) - 1
	for i > 0 && i > len(s)-4 && s[i]&0xC0 == 0x80 {
		i--
	}
	c := s[i]
	need := 1
	switch {
	case c&0x80 == 0:
		need = 1
	case c&0xE0 == 0xC0:
		need = 2
	case c&0xF0 == 0xE0:
		need = 3
	case c&0xF8 == 0xF0:
		need = 4
	default:
		return false
	}
	return len(s)-i == need
}

type edit struct {
	off int
	ins string
}

func applyEdits(s string, es []edit) string {
	sort.SliceStable(es, func(i, j int) bool { return es[i].off > es[j].off })
	for _, e := range es {
		s = s[:e.off] + e.ins + s[e.off:]
	}
	return s
}

var bigKinds = []string{"strlit", "tmpl-lit", "heredoc-line", "block-comment", "line-comment", "ident", "number", "spaces", "heredoc-marker", "strlit", "block-comment", "heredoc-line"}

var bigKindsOnce = []string{"strlit", "heredoc-line", "block-comment", "ident", "spaces", "line-comment", "tmpl-lit", "number", "heredoc-marker"}

var inflateSeq int

var bigHugeNumbers bool

var noInflateIdent = map[string]bool{"for": true, "in": true, "if": true, "else": true, "endif": true, "endfor": true, "true": true, "false": true, "null": true}

// candidates returns, for one kind, the places in src where an existing token of that kind can be
// inflated in place: (offset where the filler goes, current size of the token / gap).
type place struct{ off, cur int }

func inflatePlaces(src string, kind string) []place {
	toks, _ := hclsyntax.LexConfig([]byte(src), "t.hcl", hcl.InitialPos)
	var out []place
	type frame struct {
		heredoc, tmpl, interp bool
		lits                  []place
	}
	var stack []frame
	prevEnd := 0
	for i, t := range toks {
		st, en := t.Range.Start.Byte, t.Range.End.Byte
		if kind == "spaces" && st > prevEnd && i > 0 {
			out = append(out, place{prevEnd, st - prevEnd})
		}
		prevEnd = en
		inHeredoc := len(stack) > 0 && stack[len(stack)-1].heredoc
		switch t.Type {
		case hclsyntax.TokenOQuote:
			stack = append(stack, frame{tmpl: true})
			if kind == "strlit" && i+1 < len(toks) && toks[i+1].Type == hclsyntax.TokenCQuote {
				out = append(out, place{en, 0})
			}
		case hclsyntax.TokenOHeredoc:
			stack = append(stack, frame{tmpl: true, heredoc: true})
		case hclsyntax.TokenTemplateInterp, hclsyntax.TokenTemplateControl:
			if len(stack) > 0 {
				stack[len(stack)-1].interp = true
			}
			stack = append(stack, frame{})
		case hclsyntax.TokenOBrace, hclsyntax.TokenOBrack, hclsyntax.TokenOParen:
			stack = append(stack, frame{})
		case hclsyntax.TokenCQuote, hclsyntax.TokenCHeredoc:
			if len(stack) > 0 {
				top := stack[len(stack)-1]
				stack = stack[:len(stack)-1]
				if kind == "tmpl-lit" && top.interp {
					out = append(out, top.lits...)
				}
			}
		case hclsyntax.TokenTemplateSeqEnd, hclsyntax.TokenCBrace, hclsyntax.TokenCBrack, hclsyntax.TokenCParen:
			if len(stack) > 0 {
				stack = stack[:len(stack)-1]
			}
		case hclsyntax.TokenQuotedLit:
			if kind == "strlit" {
				out = append(out, place{en, en - st})
			}
			if len(stack) > 0 && stack[len(stack)-1].tmpl {
				stack[len(stack)-1].lits = append(stack[len(stack)-1].lits, place{en, en - st})
			}
		case hclsyntax.TokenStringLit:
			if inHeredoc {
				if kind == "heredoc-line" {
					out = append(out, place{st, en - st})
				}
				stack[len(stack)-1].lits = append(stack[len(stack)-1].lits, place{st, en - st})
			}
		case hclsyntax.TokenComment:
			b := string(t.Bytes)
			if kind == "block-comment" && strings.HasPrefix(b, "/*") {
				out = append(out, place{st + 2, en - st})
			}
			if kind == "line-comment" && strings.HasPrefix(b, "#") {
				out = append(out, place{st + 1, en - st})
			}
			if kind == "line-comment" && strings.HasPrefix(b, "//") {
				out = append(out, place{st + 2, en - st})
			}
		case hclsyntax.TokenIdent:
			if kind == "ident" && !noInflateIdent[string(t.Bytes)] {
				out = append(out, place{en, en - st})
			}
		case hclsyntax.TokenNumberLit:
			if kind == "number" {
				out = append(out, place{st, en - st})
			}
		}
	}
	if kind == "spaces" {
		out = append(out, place{0, 0}, place{len(src), 0})
	}
	return out
}

// topLevelBreaks: offsets just after a line end at bracket depth 0 (outside every block, bracket,
// template), where a whole new item can be placed.
func topLevelBreaks(src string) []int {
	toks, _ := hclsyntax.LexConfig([]byte(src), "t.hcl", hcl.InitialPos)
	depth := 0
	var out []int
	for _, t := range toks {
		switch t.Type {
		case hclsyntax.TokenOBrace, hclsyntax.TokenOBrack, hclsyntax.TokenOParen, hclsyntax.TokenOQuote, hclsyntax.TokenOHeredoc, hclsyntax.TokenTemplateInterp, hclsyntax.TokenTemplateControl:
			depth++
		case hclsyntax.TokenCBrace, hclsyntax.TokenCBrack, hclsyntax.TokenCParen, hclsyntax.TokenCQuote, hclsyntax.TokenCHeredoc, hclsyntax.TokenTemplateSeqEnd:
			depth--
		case hclsyntax.TokenNewline:
			if depth == 0 {
				out = append(out, t.Range.End.Byte)
			}
		case hclsyntax.TokenComment:
			if depth == 0 && bytes.HasSuffix(t.Bytes, []byte("\n")) {
				out = append(out, t.Range.End.Byte)
			}
		}
	}
	return out
}

func fillFor(r *hv.Rng, kind string, n int) string {
	switch kind {
	case "ident", "heredoc-marker":
		return filler(r, n, identAlphabet, "q")
	case "number":
		return filler(r, n, digitAlphabet, "3")
	case "spaces":
		return strings.Repeat(" ", n)
	case "block-comment":
		s := textFill(r, n)
		if r.Chance(0.3) && n > 40 {
			// a comment over several lines
			b := []byte(s)
			for k := 0; k < 3; k++ {
				p := r.Intn(len(b))
				if b[p] < 0x80 {
					b[p] = '\n'
				}
			}
			s = string(b)
		}
		return s
	default:
		return textFill(r, n)
	}
}

var bigSerial int

// freshItem builds a whole new item whose big token has exactly n bytes.
func freshItem(r *hv.Rng, kind string, n int) string {
	bigSerial++
	name := fmt.Sprintf("zzb%d", bigSerial)
	sp := func() string { return r.Pick("", " ", "  ", "   ") }
	eq := sp() + "=" + sp()
	switch kind {
	case "strlit":
		if r.Chance(0.25) {
			return "zzblk" + sp() + "\"" + fillFor(r, kind, n) + "\" {" + "\n" + name + eq + "1\n}\n"
		}
		return name + eq + "\"" + fillFor(r, kind, n) + "\"\n"
	case "tmpl-lit":
		return name + eq + "\"p${ 1 }" + fillFor(r, kind, n) + "${" + sp() + "zz" + sp() + "}q%{ if true }" + "r%{ endif }\"\n"
	case "heredoc-line":
		open := r.Pick("<<EOT", "<<-EOT")
		return name + eq + open + "\nfirst\n" + fillFor(r, kind, n-1) + "\nlast ${ 1 }\n" + r.Pick("", "  ") + "EOT\n"
	case "heredoc-marker":
		m := "M" + fillFor(r, kind, n-4) // "<<" marker "\n"
		return name + eq + "<<" + m + "\nbody\n" + m + "\n"
	case "block-comment":
		c := "/*" + fillFor(r, kind, n-4) + "*/"
		switch r.Intn(3) {
		case 0:
			return c + "\n"
		case 1:
			return name + eq + "1 " + c + " + 2\n"
		default:
			return name + eq + "1 " + c + "\n"
		}
	case "line-comment":
		m := r.Pick("#", "//")
		c := m + strings.ReplaceAll(fillFor(r, kind, n-len(m)-1), "\n", " ") + "\n"
		if r.Chance(0.5) {
			return c
		}
		return name + eq + "1" + sp() + c
	case "ident":
		id := "i" + fillFor(r, kind, n-1)
		switch r.Intn(4) {
		case 0:
			return id + eq + "1\n"
		case 1:
			return name + eq + id + "\n"
		case 2:
			return id + " {\n}\n"
		default:
			return name + eq + id + "(1, 2)\n"
		}
	case "number":
		if r.Chance(0.3) && n > 4 {
			return name + eq + "0." + fillFor(r, kind, n-2) + "\n"
		}
		return name + eq + "1" + fillFor(r, kind, n-1) + "\n"
	default: // spaces
		return name + sp() + "=" + strings.Repeat(" ", n) + "1\n"
	}
}

// inflateOnce puts one big token of the kind into src. Returns the new text and labels.
func inflateOnce(r *hv.Rng, src, kind string, n int) (string, []string) {
	bom := ""
	if strings.HasPrefix(src, "\xef\xbb\xbf") {
		bom, src = src[:3], src[3:]
	}
	pos := r.Pick("first", "middle", "last")
	pickIdx := func(k int) int {
		switch {
		case k <= 1 || pos == "first":
			return 0
		case pos == "last":
			return k - 1
		case k == 2:
			return r.Intn(2)
		default:
			return 1 + r.Intn(k-2) // strictly inside
		}
	}
	if kind != "heredoc-marker" && r.Chance(0.55) {
		if ps := inflatePlaces(src, kind); len(ps) > 0 {
			p := ps[pickIdx(len(ps))]
			if add := n - p.cur; add > 0 {
				ins := fillFor(r, kind, add)
				if kind == "line-comment" {
					ins = strings.ReplaceAll(ins, "\n", " ")
				}
				cand := applyEdits(src, []edit{{p.off, ins}})
				if parsesOK(cand) {
					return bom + cand, []string{"big:how:in-place", "big:pos:" + pos}
				}
			}
		}
	}
	item := freshItem(r, kind, n)
	br := append([]int{0}, topLevelBreaks(src)...)
	end := len(src)
	var off int
	pre := ""
	switch pos {
	case "first":
		off = 0
	case "last":
		off = end
		if end > 0 && src[end-1] != '\n' {
			pre = "\n"
		}
	default:
		off = br[pickIdx(len(br))]
	}
	cand := src[:off] + pre + item + src[off:]
	if !parsesOK(cand) {
		cand = item + src
		pos = "first"
		if !parsesOK(cand) {
			return bom + cand, []string{"big:how:fresh-item", "big:pos:" + pos, "big:does-not-parse"}
		}
	}
	return bom + cand, []string{"big:how:fresh-item", "big:pos:" + pos}
}

func bigBase(r *hv.Rng) string {
	for try := 0; try < 8; try++ {
		s, _ := hv.GenConfig(r)
		if parsesOK(s) && len(s) > 8 {
			return s
		}
	}
	return "a   =     1\nbb=-1\nblk \"l\" {\n  c = [1, 2]\n}\n"
}

func genInflated(r *hv.Rng) (string, []string) {
	src := bigBase(r)
	labels := []string{"big:shape:inflate"}
	k := 1
	if r.Chance(0.35) {
		k = 2
	}
	max := 1 << 20
	for i := 0; i < k; i++ {
		kind := bigKinds[r.Intn(len(bigKinds))]
		var n int
		var sl string
		if kind == "spaces" {
			n, sl = pickSize(r, gapSizes, max)
		} else {
			n, sl = pickSize(r, tokenSizes, max)
		}
		if i == 0 {
			// stratified start: the first inflations of a run go through every kind and every size
			// class once, whatever the seed; after that the draws above stand
			if inflateSeq < len(bigKindsOnce) {
				kind = bigKindsOnce[inflateSeq]
			}
			cs := tokenSizes
			if kind == "spaces" {
				cs = gapSizes
			}
			if inflateSeq < 2*len(cs) {
				c := cs[(inflateSeq*5+len(cs)-1)%len(cs)]
				n, sl = c.lo+r.Intn(c.hi-c.lo+1), c.label
			}
			inflateSeq++
		}
		if kind == "number" && n > 70000 && !(bigHugeNumbers && r.Chance(0.25)) {
			// a megabyte of digits costs ~3 s in math/big on EVERY parse: thorough tier only, and rarely
			n, sl = pickSize(r, tokenSizes, 70000)
		}
		var ls []string
		src, ls = inflateOnce(r, src, kind, n)
		labels = append(labels, "big:kind:"+kind, "big:size:"+sl)
		labels = append(labels, ls...)
		if n >= 65535 {
			max = 9000 // the second big token of a case stays moderate
		}
	}
	if k == 2 {
		labels = append(labels, "big:two-big-tokens")
	}
	return src, labels
}

var validPool []string

func tokenCountLabel(n int) string {
	switch {
	case n < 5000:
		return "under-5k"
	case n < 10000:
		return "5k-10k"
	case n < 25000:
		return "10k-25k"
	case n < 50000:
		return "25k-50k"
	default:
		return "50k+"
	}
}

// genManyTokens: a file of 5,000-50,000 ordinary tokens: generated configurations, each wrapped in
// its own block (names do not collide), pool lines and list/object attributes.
func genManyTokens(r *hv.Rng) (string, []string) {
	target := 5000 + r.Intn(45001)
	var sb strings.Builder
	count := 0
	for i := 0; count < target; i++ {
		var piece string
		switch r.Intn(4) {
		case 0, 1:
			s, _ := hv.GenConfig(r)
			s = strings.TrimPrefix(s, "\xef\xbb\xbf")
			if !parsesOK(s) {
				continue
			}
			if !strings.HasSuffix(s, "\n") {
				s += "\n"
			}
			piece = fmt.Sprintf("g%d %s{\n%s}\n", i, r.Pick("", "\"l\" ", "lbl "), s)
		case 2:
			if validPool == nil {
				for _, l := range linePool { // the pool has lines that are errors on purpose
					if parsesOK(l) {
						validPool = append(validPool, l)
					}
				}
			}
			perm := r.Perm(len(validPool))
			var b strings.Builder
			fmt.Fprintf(&b, "p%d {\n", i)
			for _, j := range perm[:2+r.Intn(6)] {
				b.WriteString(validPool[j])
			}
			b.WriteString("}\n")
			piece = b.String()
		default:
			piece = fmt.Sprintf("attr_%d%s=%s[%d,\"v%d\", { k = %d, l : [for x in y : x.%d] }]%s\n", i, r.Pick("", " ", "   "), r.Pick("", " "), i, i, i, i%7, r.Pick("", " # c", " // d"))
		}
		lt, _ := hclsyntax.LexConfig([]byte(piece), "t.hcl", hcl.InitialPos)
		count += len(lt) - 1
		sb.WriteString(piece)
	}
	return sb.String(), []string{"big:shape:many-tokens", "big:tokens:" + tokenCountLabel(count)}
}

func depthLabel(d int) string {
	switch {
	case d < 100:
		return "under-100"
	case d < 200:
		return "100-199"
	default:
		return "200-300"
	}
}

// genDeep: nesting up to 300 levels (blocks, brackets, objects), written with no / canonical /
// arbitrary indentation in the input.
func genDeep(r *hv.Rng) (string, []string) {
	d := 40 + r.Intn(261)
	style := r.Intn(3)
	ind := func(level int) string {
		switch style {
		case 0:
			return ""
		case 1:
			return strings.Repeat("  ", level)
		default:
			return strings.Repeat(" ", r.Intn(9))
		}
	}
	inner := bigBase(r)
	inner = strings.TrimPrefix(inner, "\xef\xbb\xbf")
	if !strings.HasSuffix(inner, "\n") {
		inner += "\n"
	}
	var sb strings.Builder
	how := r.Pick("blocks", "brackets", "objects", "parens")
	switch how {
	case "blocks":
		for i := 0; i < d; i++ {
			sb.WriteString(ind(i) + fmt.Sprintf("n%d %s{\n", i%7, r.Pick("", "\"l\" ")))
		}
		sb.WriteString(inner)
		for i := d - 1; i >= 0; i-- {
			sb.WriteString(ind(i) + "}\n")
		}
	case "objects":
		sb.WriteString("deep = ")
		for i := 0; i < d; i++ {
			sb.WriteString("{\n" + ind(i+1) + fmt.Sprintf("k%d = ", i%5))
		}
		sb.WriteString("1\n")
		for i := d - 1; i >= 0; i-- {
			sb.WriteString(ind(i) + "}\n")
		}
		sb.WriteString(inner)
	default:
		o, c := "[", "]"
		if how == "parens" {
			o, c = "(", ")"
		}
		sb.WriteString(inner)
		sb.WriteString("deep = ")
		for i := 0; i < d; i++ {
			sb.WriteString(o + "\n" + ind(i+1))
		}
		sb.WriteString("1\n")
		for i := d - 1; i >= 0; i-- {
			sb.WriteString(ind(i) + c + "\n")
		}
	}
	return sb.String(), []string{"big:shape:deep-" + how, "big:depth:" + depthLabel(d)}
}

// genBig: one case of the SIZE stream.
func genBig(r *hv.Rng) (string, []string) {
	switch x := r.Intn(100); {
	case x < 72:
		return genInflated(r)
	case x < 84:
		return genManyTokens(r)
	default:
		s, ls := genDeep(r)
		if r.Chance(0.3) {
			// a deep file with one big token in it
			kind := bigKinds[r.Intn(len(bigKinds))]
			n, sl := pickSize(r, tokenSizes, 70000)
			if kind == "spaces" {
				n, sl = pickSize(r, gapSizes, 70000)
			}
			var l2 []string
			s, l2 = inflateOnce(r, s, kind, n)
			ls = append(ls, "big:kind:"+kind, "big:size:"+sl)
			ls = append(ls, l2...)
		}
		return s, ls
	}
}

// c09BigCorpus: hand cases of the SIZE class (built, not stored: they are long).
func c09BigCorpus() []string {
	long := strings.Repeat("x", 5000)
	return []string{
		"a=1\nb   =  \"" + long + "\"\nc=[1,2]\n",
		"a=1\n/* " + long + " */\nc=[1,2]\n",
		"a=1\nb=<<EOT\n" + long + "\nEOT\nc=[1,2]\n",
		"a = 1 # " + strings.Repeat("long comment ", 700) + "\nbb = 2 # short\n" + strings.Repeat("i", 4090) + " = 3 # t\n",
		"a =" + strings.Repeat(" ", 70000) + "1\n" + strings.Repeat(" ", 300) + "b = 2" + strings.Repeat(" ", 4097) + "\n",
	}
}

// observedSizeLabels: what a SIZE case really contains, measured on the scanner's tokens (the
// generator's intention is in the big:kind / big:size labels): the largest token, the largest gap
// in the input, the largest SpacesBefore the formatter asks the writer for, the number of tokens.
func observedSizeLabels(ts hclwrite.Tokens, valid bool) []string {
	cls := func(n int) string {
		switch {
		case n >= 1<<20:
			return ">=1MiB"
		case n >= 65536:
			return ">=64KiB"
		case n >= 8192:
			return ">=8KiB"
		case n >= 4096:
			return ">=4KiB"
		case n >= 512:
			return ">=512"
		case n > 40:
			return ">40"
		default:
			return "<=40"
		}
	}
	maxTok, maxGap := 0, 0
	for _, t := range ts {
		if len(t.Bytes) > maxTok {
			maxTok = len(t.Bytes)
		}
		if t.SpacesBefore > maxGap {
			maxGap = t.SpacesBefore
		}
	}
	ft := cloneToks(ts)
	hclwrite.VerifFormat(ft)
	maxOut := 0
	for _, t := range ft {
		if t.SpacesBefore > maxOut {
			maxOut = t.SpacesBefore
		}
	}
	v := "big:parses-without-errors"
	if !valid {
		v = "big:has-parse-errors"
	}
	return []string{v, "big:observed:largest-token" + cls(maxTok), "big:observed:largest-input-gap" + cls(maxGap),
		"big:observed:largest-formatted-SpacesBefore" + cls(maxOut), "big:observed:tokens:" + tokenCountLabel(len(ts))}
}
