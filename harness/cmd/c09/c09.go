package main

// C09 — Formatting changes only inter-token spacing and is idempotent.
//
// Correspondence: hclwrite.format (via the verif hook) on (a) the token streams
// of generated configurations and (b) arbitrary token sequences, against the
// Coq model Write/Format.v; exhaustive dump of spaceAfterToken.
// Direct oracle (real code only): token preservation, idempotence, and
// "still parses to the same configuration".

import (
	"bytes"
	"fmt"
	"os"
	"path/filepath"
	"strings"

	"github.com/apparentlymart/go-textseg/v15/textseg"
	"github.com/hashicorp/hcl/v2"
	"github.com/hashicorp/hcl/v2/hclsyntax"
	"github.com/hashicorp/hcl/v2/hclwrite"
	"hclverif/hv"
)

func main() {
	hv.Main(map[string]func(*hv.RunCfg) error{"c09": runC09, "c09table": runC09Table, "c09bytes": runC09Bytes})
}

func gcount(b []byte) int {
	n, _ := textseg.TokenCount(b, textseg.ScanGraphemeClusters)
	return n
}

func coqTok(t *hclwrite.Token) string {
	return fmt.Sprintf("T %s %s %s %s", hv.CoqZ(int(t.Type)), hv.Hexs(t.Bytes), hv.CoqZ(gcount(t.Bytes)), hv.CoqZ(t.SpacesBefore))
}

func cloneToks(ts hclwrite.Tokens) hclwrite.Tokens {
	out := make(hclwrite.Tokens, len(ts))
	for i, t := range ts {
		c := *t
		c.Bytes = append([]byte(nil), t.Bytes...)
		out[i] = &c
	}
	return out
}

func c09Case(ts hclwrite.Tokens) (string, error) { return c09CaseOpt(ts, true) }

// c09CaseOpt: render=false skips printing the Coq term (cases too big for the Coq side); the
// real formatter is run and checked for touching nothing but SpacesBefore either way.
func c09CaseOpt(ts hclwrite.Tokens, render bool) (string, error) {
	in := cloneToks(ts)
	var panicked any
	func() {
		defer func() { panicked = recover() }()
		hclwrite.VerifFormat(ts)
	}()
	if panicked != nil {
		return "", fmt.Errorf("format panicked: %v", panicked)
	}
	items := make([]string, len(in))
	for i, t := range in {
		if render {
			items[i] = coqTok(t)
		}
	}
	sp := make([]int, len(ts))
	for i, t := range ts {
		sp[i] = t.SpacesBefore
		// formatting must not touch anything else (checked here on the real code)
		if t.Type != in[i].Type || !bytes.Equal(t.Bytes, in[i].Bytes) {
			return "", fmt.Errorf("format changed token %d type/bytes", i)
		}
	}
	return fmt.Sprintf("(%s, %s)", hv.CoqList(items), hv.CoqZList(sp)), nil
}

type tokSig struct {
	Type  hclsyntax.TokenType
	Bytes string
}

func lexSig(src []byte) []tokSig {
	toks, _ := hclsyntax.LexConfig(src, "t.hcl", hcl.InitialPos)
	out := make([]tokSig, len(toks))
	for i, t := range toks {
		out[i] = tokSig{t.Type, string(t.Bytes)}
	}
	return out
}

func sigEqual(a, b []tokSig) (bool, int) {
	n := len(a)
	if len(b) < n {
		n = len(b)
	}
	for i := 0; i < n; i++ {
		if a[i] != b[i] {
			return false, i
		}
	}
	if len(a) != len(b) {
		return false, n
	}
	return true, -1
}

// exprDump renders the structure of a parsed body ignoring ranges, used to
// decide "parses to the same configuration".
func bodyDump(b *hclsyntax.Body) string {
	var sb strings.Builder
	hv.DumpBody(&sb, b)
	return sb.String()
}

// held: results of earlier Format calls that the "caller" still holds, with a private copy taken
// when they were returned. The formatter's output is a value: a later call (on any input) must not
// change a result handed out earlier (e.g. through a reused output buffer), nor may Format write
// into its input.
type heldOut struct {
	out, snapshot []byte
	src           string
}

var held []heldOut

func checkHeld() (string, string) {
	for _, h := range held {
		if !bytes.Equal(h.out, h.snapshot) {
			return "format-result-changed-by-later-call",
				fmt.Sprintf("the result of an earlier Format(%s) read %s when returned and reads %s after later Format calls", brief([]byte(h.src)), brief(h.snapshot), brief(h.out))
		}
	}
	return "", ""
}

func hold(src, out []byte) {
	if len(held) >= 8 {
		held = held[1:]
	}
	held = append(held, heldOut{out: out, snapshot: append([]byte(nil), out...), src: string(src)})
}

// c09Oracle runs the property directly on the real code for one source text.
// Returns "" when it holds, else (kind, detail).
func c09Oracle(src []byte) (kind, detail string) {
	_, diags := hclsyntax.ParseConfig(src, "t.hcl", hcl.InitialPos)
	valid := !diags.HasErrors()
	srcCopy := append([]byte(nil), src...)
	out := hclwrite.Format(src)
	if !bytes.Equal(src, srcCopy) {
		return "format-modifies-input", "Format wrote into its argument"
	}
	if k, d := checkHeld(); k != "" {
		held = nil
		return k, d
	}
	hold(src, out)
	if !valid {
		// The property speaks about error-free configurations only; totality
		// on other inputs belongs to C15.
		return "", ""
	}
	a, b := lexSig(src), lexSig(out)
	if ok, i := sigEqual(a, b); !ok {
		k := "token-sequence-changed"
		// classify the known glue hazard: NumberLit immediately before '.'
		if i > 0 && i < len(a) && a[i-1].Type == hclsyntax.TokenNumberLit && a[i].Type == hclsyntax.TokenDot {
			k = "glue-number-dot"
		} else if i < len(a) && i+1 < len(a) && a[i].Type == hclsyntax.TokenNumberLit && a[i+1].Type == hclsyntax.TokenDot {
			k = "glue-number-dot"
		}
		return k, fmt.Sprintf("token %d differs after formatting", i)
	}
	outCopy := append([]byte(nil), out...)
	out2 := hclwrite.Format(out)
	if !bytes.Equal(outCopy, out2) {
		return "not-idempotent", "Format(Format(src)) != Format(src)"
	}
	if k, d := checkHeld(); k != "" {
		held = nil
		return k, d
	}
	hold(out, out2)
	f2, diags2 := hclsyntax.ParseConfig(out, "t.hcl", hcl.InitialPos)
	if diags2.HasErrors() {
		return "formatted-output-has-errors", diags2.Error()
	}
	f1, _ := hclsyntax.ParseConfig(src, "t.hcl", hcl.InitialPos)
	if d1, d2 := bodyDump(f1.Body.(*hclsyntax.Body)), bodyDump(f2.Body.(*hclsyntax.Body)); d1 != d2 {
		return "formatted-output-parses-differently", "structure dump differs"
	}
	return "", ""
}

func randomTokens(r *hv.Rng) hclwrite.Tokens {
	types := []hclsyntax.TokenType{
		hclsyntax.TokenOBrace, hclsyntax.TokenCBrace, hclsyntax.TokenOBrack, hclsyntax.TokenCBrack,
		hclsyntax.TokenOParen, hclsyntax.TokenCParen, hclsyntax.TokenOQuote, hclsyntax.TokenCQuote,
		hclsyntax.TokenOHeredoc, hclsyntax.TokenCHeredoc, hclsyntax.TokenStar, hclsyntax.TokenSlash,
		hclsyntax.TokenPlus, hclsyntax.TokenMinus, hclsyntax.TokenPercent, hclsyntax.TokenEqual,
		hclsyntax.TokenEqualOp, hclsyntax.TokenNotEqual, hclsyntax.TokenLessThan, hclsyntax.TokenAnd,
		hclsyntax.TokenBang, hclsyntax.TokenDot, hclsyntax.TokenComma, hclsyntax.TokenDoubleColon,
		hclsyntax.TokenEllipsis, hclsyntax.TokenFatArrow, hclsyntax.TokenQuestion, hclsyntax.TokenColon,
		hclsyntax.TokenTemplateInterp, hclsyntax.TokenTemplateControl, hclsyntax.TokenTemplateSeqEnd,
		hclsyntax.TokenQuotedLit, hclsyntax.TokenStringLit, hclsyntax.TokenNumberLit, hclsyntax.TokenIdent,
		hclsyntax.TokenComment, hclsyntax.TokenNewline, hclsyntax.TokenEOF, hclsyntax.TokenInvalid, hclsyntax.TokenNil,
	}
	n := r.Intn(30)
	ts := make(hclwrite.Tokens, 0, n+1)
	for i := 0; i < n; i++ {
		ty := types[r.Intn(len(types))]
		// bias towards structure-relevant tokens
		switch r.Intn(6) {
		case 0:
			ty = hclsyntax.TokenNewline
		case 1:
			ty = hclsyntax.TokenIdent
		case 2:
			ty = hclsyntax.TokenEqual
		}
		if ty == hclsyntax.TokenEOF && r.Chance(0.8) {
			ty = hclsyntax.TokenComment
		}
		var b string
		switch ty {
		case hclsyntax.TokenIdent:
			b = r.Pick("a", "in", "foo", "ünï")
		case hclsyntax.TokenComment:
			b = r.Pick("# c\n", "// c\n", "/* c */", "#", "/* a\nb */", "#\n")
		case hclsyntax.TokenNewline:
			b = r.Pick("\n", "\r\n")
		case hclsyntax.TokenNumberLit:
			b = r.Pick("1", "2.5")
		case hclsyntax.TokenQuotedLit, hclsyntax.TokenStringLit:
			b = r.Pick("s", "a b", "é́", "x\n")
		case hclsyntax.TokenEOF:
			b = ""
		default:
			b = string(rune(ty))
		}
		ts = append(ts, &hclwrite.Token{Type: ty, Bytes: []byte(b), SpacesBefore: r.Intn(5)})
	}
	if r.Chance(0.8) {
		ts = append(ts, &hclwrite.Token{Type: hclsyntax.TokenEOF, Bytes: []byte{}, SpacesBefore: r.Intn(3)})
	}
	return ts
}

// spaceTable dumps spaceAfterToken exhaustively over the given type codes, with
// four byte variants per triple (subject "x"/"in" with after "z"; after "e5" / "E0x": the
// exponent-like identifier of fix 7415f41). Order: subject, before, after, variant.
func spaceTable(types []int) string {
	var sb strings.Builder
	for _, s := range types {
		for _, b := range types {
			for _, a := range types {
				for _, v := range [][2]string{{"x", "z"}, {"in", "z"}, {"x", "e5"}, {"in", "E0x"}, {"x", "e-5"}, {"x", "e-x"}} {
					st := &hclwrite.Token{Type: hclsyntax.TokenType(s), Bytes: []byte(v[0])}
					bt := &hclwrite.Token{Type: hclsyntax.TokenType(b), Bytes: []byte("y")}
					at := &hclwrite.Token{Type: hclsyntax.TokenType(a), Bytes: []byte(v[1])}
					if hclwrite.VerifSpaceAfterToken(st, bt, at) {
						sb.WriteByte('1')
					} else {
						sb.WriteByte('0')
					}
				}
			}
		}
	}
	return sb.String()
}

var c09Corpus = []string{
	"a   =     1\nbb=-1\n",
	"x = 1 .5\n",
	"x = a.0 .5\n",
	"x = 1 .e5\n", "x = 1 .e-5\n", "x = 1 .E-5z\n", "x = a.0 .e-1\n", "x = 1 .e-\n", "x = 1 .e-x\n", "x = a.0 .e1\n", "x = 1 .E5x\n", "x = 1 .e\n", "x = 1 .ee5\n", "x = a.0.b\n",
	"a = [for x in [foo]: x]\n",
	"a = foo( 1 , 2 ... )\n",
	"a = b  -  1\nc = ( - 1 )\nd = !  true\n",
	"a = \"${ { a = 1 } }\"\n",
	"block \"l\" {\n# c\n  a = 1 # t\n  bb = 2 // u\n\n  c { d = 1 }\n}\n",
	"a = <<EOT\n  hi ${ x }\nEOT\nb = 1\n",
	"a = <<-EOT\n    hi\n  EOT\n",
	"a = {\n  b = 1\n  cc : 2,\n}\n",
	"a = foo[ 1 ].bar [ 2 ]\n",
	"a = ns :: f (1)\n",
	"a = 1 /* c */ + /* d */ 2\n",
	"a=1",
	"\xef\xbb\xbfa = 1\n",
	"a = x ? - 1 : - 2\n",
	"a = [\n  1,\n  2\n]\nb = 3\n",
	"a = \"%{ if x }y%{ else }z%{ endif }\"\n",
	"a = \"%{~ for x in y ~}${~ x ~}%{~ endfor ~}\"\n",
}

var linePool = []string{
	"a = web.0.id\n", "b = x.0 .y\n", "c = 1 .e5\n", "d = var.sizes.0 .e1\n", "e = 1 .5\n", "f = a.0 .5\n", "g = 1 .e-5\n", "h = x.1.e\n",
	"i = [for in in xs : in]\n", "j = [for x in in : x]\n", "k = in\n", "l = {for k, in in m : k => in}\n", "m = foo(in, in)\n",
	"n = -1\n", "o = a - 1\n", "p = a-1\n", "q = (-1)\n", "r = [-1, - 2]\n", "s = !x\n", "t = a && !b\n", "u = a ? -1 : - 2\n",
	"v = a[0].b\n", "w = a [0] . b\n", "x = a.*.b\n", "y = a[*] . b\n", "z = f (1)\n", "aa = ns::f(1)\n", "ab = ns :: f (1)\n",
	"ac = { a = 1 }\n", "ad = {}\n", "ae = \"${ a }\"\n", "af = \"%{ if a }x%{ endif }\"\n", "ag = [1 , 2 ... ]\n", "ah = f(a ...)\n",
	"ai = 1.e5\n", "aj = x.0.e5\n", "ak = 1 . e5\n", "al = 1 .E0x\n", "am = a.0.1\n", "an = a.0 .1 .e2\n",
	"blk { a = 1 }\n", "blk \"l\" {\n  x = web.0.id\n  y = 1 .e5\n}\n", "# c\n", "/* c */ a2 = 1 // t\n",
}

func runC09(cfg *hv.RunCfg) error {
	rep := hv.NewReport("C09", cfg.Seed)
	rep.Rule = "configurations from the grammar-directed generator in 4 wildness levels (spacing, tabs, CRLF, comments in every legal position, heredocs, templates) + hand corpus; plus arbitrary token sequences fed to the formatter directly; non-trivial = at least 4 tokens and at least one space decision; distinct by SHA-256 of the input; SIZE stream (stream:big, ~3 % of the cases): ONE or TWO tokens of a generated configuration inflated to 500-1100 / 4000-4200 / 8191-8193 / 32767-32769 / 65535-65537 / 1 MiB bytes (string literal, template literal beside interpolations, heredoc line, heredoc marker, block and line comment, identifier, number, run of spaces between tokens) first / in the middle / last in the file, files of 5,000-50,000 ordinary tokens, nesting 40-300 levels deep; every case also goes through Tokens.Bytes/WriteTo, Format, File.Bytes/WriteTo (counting and short-writing writers) against an independent reference serialisation; the Coq correspondence receives only the cases whose token bytes total <= 2600 and that have <= 2000 tokens (the ordinary streams stay below that; histogram coq:not-sent(size) counts the rest, which are checked by the direct oracle only - the Coq theorems quantify over all token lists)"
	r := hv.NewRng(cfg.Seed, 9)
	cf := &hv.CaseFile{Dir: cfg.Out, Name: "c09cases",
		Imports: "From Coq Require Import String.\nFrom HclV Require Import Base.Prelude Write.Format Write.FormatCheck.",
		Ctype:   "list tok * list Z", Checker: "check_format_cases"}

	var srcs []string
	bigLabels := map[int][]string{} // index into srcs -> histogram labels of the SIZE stream
	if cfg.Replay != "" {
		b, err := os.ReadFile(cfg.Replay)
		if err != nil {
			return err
		}
		srcs = []string{string(b)}
	} else {
		srcs = append(srcs, c09Corpus...)
		if extra, err := filepath.Glob("/verif/corpus/C09/*.hcl"); err == nil {
			for _, p := range extra {
				if b, err := os.ReadFile(p); err == nil {
					srcs = append(srcs, string(b))
				}
			}
		}
		// combined sources: several lines from a pool in ONE file, in random order. Spacing decisions
		// that depend on token BYTES (the `in` keyword, a name that reads as an exponent after
		// "<number>.", a dot between numbers) are interleaved with ordinary lines made of the same
		// token TYPES, so any state carried from one decision to the next within a Format call shows.
		for i := 0; i < cfg.N/8; i++ {
			n := 2 + r.Intn(5)
			var sb strings.Builder
			for k := 0; k < n; k++ {
				sb.WriteString(linePool[r.Intn(len(linePool))])
			}
			srcs = append(srcs, sb.String())
			rep.Hist("stream:combined-lines")
		}
		for i := 0; i < cfg.N; i++ {
			s, feat := hv.GenConfig(r)
			for k, v := range feat {
				rep.Histogram["feat:"+k] += v
			}
			if r.Chance(0.1) {
				s = hv.Mutate(r, s)
				rep.Hist("mutated")
			}
			srcs = append(srcs, s)
		}
		// SIZE stream (big.go): single tokens of 4 KiB .. 1 MiB, files of 5,000-50,000 tokens, nesting
		// up to 300 levels, runs of thousands of spaces in the input. Own PRNG stream: the cases above
		// stay what they were.
		rb := hv.NewRng(cfg.Seed, 94)
		bigHugeNumbers = cfg.Tier == "thorough" // a megabyte of digits costs ~10 s per case in math/big
		for _, s := range c09BigCorpus() {
			bigLabels[len(srcs)] = []string{"big:hand-corpus"}
			srcs = append(srcs, s)
		}
		nbig := cfg.N * 3 / 100
		if nbig < 12 {
			nbig = 12
		}
		for i := 0; i < nbig; i++ {
			s, ls := genBig(rb)
			bigLabels[len(srcs)] = append(ls, "stream:big")
			srcs = append(srcs, s)
		}
	}
	for si, s := range srcs {
		src := []byte(s)
		toks := hclwrite.VerifLexConfig(src)
		for _, l := range bigLabels[si] {
			rep.Hist(l)
		}
		if len(bigLabels[si]) > 0 {
			for _, l := range observedSizeLabels(toks, parsesOK(s)) {
				rep.Hist(l)
			}
		}
		// the Coq correspondence gets the cases of ordinary size only (see coqMaxTokBytes in big.go)
		toCoq := tokBytesTotal(toks) <= coqMaxTokBytes && len(toks) <= coqMaxToks
		cs, err := c09CaseOpt(toks, toCoq)
		if err != nil {
			rep.Fail(hv.Failure{Kind: "format-panic-or-mutation", Detail: err.Error(), Input: s})
			continue
		}
		if toCoq {
			cf.Add(cs)
			rep.Idx(s)
		} else {
			rep.Hist("coq:not-sent(size)")
		}
		rep.Count(s, len(toks) >= 4)
		if len(s) < 120 {
			rep.Sample(s)
		}
		kind, detail := c09Oracle(src)
		if kind == "" {
			// writer-side entry points against the independent reference serialisation; values (big.go)
			valid := parsesOK(s)
			kind, detail = c09WriterOracle(src, valid)
			if kind == "" && valid {
				kind, detail = c09ValuesOracle(src, hclwrite.Format(append([]byte(nil), src...)))
			}
		}
		if kind != "" {
			rep.Fail(hv.Failure{Kind: kind, Detail: detail, Input: s})
			rep.Hist("oracle-fail:" + kind)
		} else {
			rep.Hist("oracle-ok")
		}
		if _, d := hclsyntax.ParseConfig(src, "t.hcl", hcl.InitialPos); d.HasErrors() {
			rep.Hist("input:has-parse-errors")
		} else {
			rep.Hist("input:valid")
		}
	}
	// arbitrary token sequences (the model must agree on everything format accepts)
	if cfg.Replay == "" {
		nt := cfg.N / 2
		for i := 0; i < nt; i++ {
			ts := randomTokens(r)
			key := fmt.Sprint(len(ts))
			for _, t := range ts {
				key += fmt.Sprintf("|%d:%s:%d", t.Type, t.Bytes, t.SpacesBefore)
			}
			cs, err := c09Case(ts)
			if err != nil {
				rep.Fail(hv.Failure{Kind: "format-panic-or-mutation", Detail: err.Error(), Input: key})
				continue
			}
			cf.Add(cs)
			rep.Idx("tokens:" + key)
			rep.Count(key, len(ts) >= 4)
			rep.Hist("random-token-sequence")
			// idempotence at token level on the real code
			before := make([]int, len(ts))
			for i, t := range ts {
				before[i] = t.SpacesBefore
			}
			hclwrite.VerifFormat(ts)
			for i, t := range ts {
				if t.SpacesBefore != before[i] {
					rep.Fail(hv.Failure{Kind: "not-idempotent-tokens", Detail: fmt.Sprintf("token %d spaces %d -> %d on second format", i, before[i], t.SpacesBefore), Input: key})
					break
				}
			}
		}
	}
	names, err := cf.Flush(400)
	if err != nil {
		return err
	}
	rep.CaseFiles = names
	return rep.Write(cfg.Out)
}

// runC09Table writes the exhaustive spaceAfterToken table as a Coq case file.
func runC09Table(cfg *hv.RunCfg) error {
	// type codes: read from the generated Coq table's Go twin — all token
	// types of hclsyntax plus one unknown code.
	types := allTokenTypeCodes()
	types = append(types, 7)
	tbl := spaceTable(types)
	var b strings.Builder
	b.WriteString("From Coq Require Import String.\nFrom HclV Require Import Base.Prelude Write.Format Write.FormatCheck.\nOpen Scope string_scope.\nOpen Scope Z_scope.\n")
	fmt.Fprintf(&b, "Definition types : list Z := %s.\n", hv.CoqZList(types))
	// the table is split in chunks to keep string literals moderate
	const chunk = 20000
	var parts []string
	for i := 0; i < len(tbl); i += chunk {
		j := i + chunk
		if j > len(tbl) {
			j = len(tbl)
		}
		parts = append(parts, "\""+tbl[i:j]+"\"")
	}
	fmt.Fprintf(&b, "Definition observed : list string := [\n%s].\n", strings.Join(parts, ";\n"))
	b.WriteString("Definition bad := Eval vm_compute in space_table_mismatches types observed.\nPrint bad.\n")
	rep := hv.NewReport("C09", cfg.Seed)
	rep.Exhaustive["space_after_rows"] = len(tbl)
	rep.Evaluations = len(tbl)
	if err := os.WriteFile(filepath.Join(cfg.Out, "c09table_0.v"), []byte(b.String()), 0o644); err != nil {
		return err
	}
	rep.CaseFiles = []string{"c09table_0.v"}
	b2 := filepath.Join(cfg.Out, "table")
	os.MkdirAll(b2, 0o755)
	return rep.Write(b2)
}

func allTokenTypeCodes() []int {
	return []int{
		int(hclsyntax.TokenOBrace), int(hclsyntax.TokenCBrace), int(hclsyntax.TokenOBrack), int(hclsyntax.TokenCBrack),
		int(hclsyntax.TokenOParen), int(hclsyntax.TokenCParen), int(hclsyntax.TokenOQuote), int(hclsyntax.TokenCQuote),
		int(hclsyntax.TokenOHeredoc), int(hclsyntax.TokenCHeredoc), int(hclsyntax.TokenStar), int(hclsyntax.TokenSlash),
		int(hclsyntax.TokenPlus), int(hclsyntax.TokenMinus), int(hclsyntax.TokenPercent), int(hclsyntax.TokenEqual),
		int(hclsyntax.TokenEqualOp), int(hclsyntax.TokenNotEqual), int(hclsyntax.TokenLessThan), int(hclsyntax.TokenLessThanEq),
		int(hclsyntax.TokenGreaterThan), int(hclsyntax.TokenGreaterThanEq), int(hclsyntax.TokenAnd), int(hclsyntax.TokenOr),
		int(hclsyntax.TokenBang), int(hclsyntax.TokenDot), int(hclsyntax.TokenComma), int(hclsyntax.TokenDoubleColon),
		int(hclsyntax.TokenEllipsis), int(hclsyntax.TokenFatArrow), int(hclsyntax.TokenQuestion), int(hclsyntax.TokenColon),
		int(hclsyntax.TokenTemplateInterp), int(hclsyntax.TokenTemplateControl), int(hclsyntax.TokenTemplateSeqEnd),
		int(hclsyntax.TokenQuotedLit), int(hclsyntax.TokenStringLit), int(hclsyntax.TokenNumberLit), int(hclsyntax.TokenIdent),
		int(hclsyntax.TokenComment), int(hclsyntax.TokenNewline), int(hclsyntax.TokenEOF),
		int(hclsyntax.TokenBitwiseAnd), int(hclsyntax.TokenBitwiseOr), int(hclsyntax.TokenBitwiseNot), int(hclsyntax.TokenBitwiseXor),
		int(hclsyntax.TokenStarStar), int(hclsyntax.TokenApostrophe), int(hclsyntax.TokenBacktick), int(hclsyntax.TokenSemicolon),
		int(hclsyntax.TokenTabs), int(hclsyntax.TokenInvalid), int(hclsyntax.TokenBadUTF8), int(hclsyntax.TokenQuotedNewline),
		int(hclsyntax.TokenNil),
	}
}

// runC09Bytes: byte-level Coq cases for Write/FormatBytesCheck.v. For sources that parse without
// errors: the tokens the real scanner produced (before formatting) and the bytes hclwrite.Format
// returned. Inside Coq the model's write(format ts) must equal those bytes, and the scanner MODEL run
// on them must give back the formatted tokens (types, bytes, SpacesBefore); fb_covered lists the
// cases that fall under the proved theorem (no templates), fb_conjecture_violations must stay empty.
func runC09Bytes(cfg *hv.RunCfg) error {
	rep := hv.NewReport("C09", cfg.Seed)
	rep.Rule = "byte-level cases: hand corpus, combined byte-sensitive lines, generated configurations; only sources that parse without errors; distinct by SHA-256 of the source"
	r := hv.NewRng(cfg.Seed, 909)
	cf := &hv.CaseFile{Dir: cfg.Out, Name: "c09bytes",
		Imports: "From Coq Require Import String.\nFrom HclV Require Import Base.Prelude Write.Format Write.FormatCheck Write.FormatBytes Write.FormatBytesCheck.",
		Ctype:   "list tok * string", Checker: "check_fb_cases",
		Extras:  [][2]string{{"fb_conjecture_violations", "fb_conjecture_violations"}, {"fb_covered", "fb_covered"}}}
	var srcs []string
	if cfg.Replay != "" {
		b, err := os.ReadFile(cfg.Replay)
		if err != nil {
			return err
		}
		srcs = []string{string(b)}
	} else {
		srcs = append(srcs, c09Corpus...)
		for i := 0; i < cfg.N/3; i++ {
			n := 2 + r.Intn(5)
			var sb strings.Builder
			for k := 0; k < n; k++ {
				sb.WriteString(linePool[r.Intn(len(linePool))])
			}
			srcs = append(srcs, sb.String())
		}
		for i := 0; i < cfg.N; i++ {
			s, _ := hv.GenConfig(r)
			srcs = append(srcs, s)
		}
	}
	n := 0
	for _, s := range srcs {
		if n >= cfg.N && cfg.Replay == "" {
			break
		}
		src := []byte(s)
		if bytes.HasPrefix(src, []byte("\xef\xbb\xbf")) {
			continue // lex_main models BOM-free input
		}
		if _, d := hclsyntax.ParseConfig(src, "t.hcl", hcl.InitialPos); d.HasErrors() {
			rep.Hist("input:has-parse-errors(skipped)")
			continue
		}
		toks := hclwrite.VerifLexConfig(src)
		items := make([]string, len(toks))
		for i, t := range toks {
			items[i] = coqTok(t)
		}
		out := hclwrite.Format(append([]byte(nil), src...))
		cf.Add(fmt.Sprintf("(%s, %s)", hv.CoqList(items), hv.Hexs(out)))
		rep.Idx(s)
		rep.Count(s, len(toks) >= 4)
		rep.Hist("input:valid")
		n++
	}
	names, err := cf.Flush(60)
	if err != nil {
		return err
	}
	rep.CaseFiles = names
	b2 := filepath.Join(cfg.Out, "bytes")
	os.MkdirAll(b2, 0o755)
	return rep.Write(b2)
}
