package main

// Coq case files of C17, sharded by SIZE.
//
// A case is the lock-ordered trace of one AnonSymbolExpr, a Coq list literal
// with one element per critical section. coqc overflows its stack on a single
// list literal of some 10^4 elements (observed: a 467 KB and a 2.2 MB trace in
// thorough runs; 183 KB was fine), and slows down on files of several MB. So
//
//   - a long trace is SPLIT at quiescent points (positions where the replayed
//     table is empty: no goroutine has a value in the table, hence every
//     goroutine is between two evaluations) into chunks of at most
//     maxChunkEvents events; every chunk is a complete case for
//     check_trace_case (starts from the empty table, ends with the empty
//     table, each goroutine's operations are whole evaluations). A stretch
//     without a quiescent point that is longer than hardChunkEvents is not
//     emitted (histogram trace:stretch-too-long-for-coq-not-emitted); the Go
//     replay (replayTrace) has judged the whole trace in any case. What the
//     split gives up: a context used by two goroutines in DIFFERENT chunks is
//     seen by the Go replay only;
//   - the files hold at most maxFileCases cases and at most maxFileBytes bytes
//     of case text (caseShards.Flush), base_index keeps the global numbering
//     that report.json's case_index uses.

import (
	"fmt"
	"os"
	"path/filepath"
	"strings"
)

const (
	maxChunkEvents  = 2500  // ~ 50 KB of Coq text
	hardChunkEvents = 6000  // ~ 120 KB: the longest single list literal emitted
	maxChunksPerTr  = 4     // chunks of one trace that go to Coq
	maxFileCases    = 150   // as before
	maxFileBytes    = 350e3 // bytes of case text per file
)

// splitTrace cuts a trace into chunks that end at quiescent points. dropped
// counts the events of stretches that were too long to emit.
func splitTrace(tr []rawEv) (chunks [][]rawEv, dropped int) {
	if len(tr) <= maxChunkEvents {
		return [][]rawEv{tr}, 0
	}
	open := map[int]bool{}
	start, lastQ := 0, -1 // lastQ: end (exclusive) of the last quiescent prefix after start
	flush := func(end int) {
		if end-start > hardChunkEvents {
			dropped += end - start
		} else if end > start {
			chunks = append(chunks, tr[start:end])
		}
		start, lastQ = end, -1
	}
	for i, e := range tr {
		switch e.op {
		case 0:
			open[e.ctx] = true
		case 2:
			delete(open, e.ctx)
		}
		if len(open) == 0 {
			lastQ = i + 1
		}
		if i+1-start >= maxChunkEvents && lastQ > start {
			flush(lastQ)
		}
	}
	if start < len(tr) {
		// the rest: ends where the trace ends (the table is empty there when the
		// trace is legal; if it is not, the checker is meant to see that)
		flush(len(tr))
	}
	return chunks, dropped
}

// caseShards writes the case files (format of hv.CaseFile, one checker).
type caseShards struct {
	Dir, Name, Imports, Ctype, Checker string
	cases                              []string
}

func (c *caseShards) Add(s string) { c.cases = append(c.cases, s) }

// Flush writes the shards; returns the file names and the size of the largest.
func (c *caseShards) Flush() (names []string, largest int, err error) {
	for i, sh := 0, 0; i < len(c.cases) || sh == 0; sh++ {
		j, bytes := i, 0
		for j < len(c.cases) && j-i < maxFileCases && (j == i || bytes+len(c.cases[j]) <= maxFileBytes) {
			bytes += len(c.cases[j])
			j++
		}
		name := fmt.Sprintf("%s_%d.v", c.Name, sh)
		var b strings.Builder
		b.WriteString(c.Imports)
		b.WriteString("\nOpen Scope string_scope.\nOpen Scope Z_scope.\nOpen Scope list_scope.\n")
		fmt.Fprintf(&b, "Definition base_index : Z := %d.\n", i)
		fmt.Fprintf(&b, "Definition cases : list (%s) := [\n", c.Ctype)
		for k := i; k < j; k++ {
			if k > i {
				b.WriteString(";\n")
			}
			b.WriteString(c.cases[k])
		}
		b.WriteString("\n].\n")
		fmt.Fprintf(&b, "Definition bad := Eval vm_compute in map (fun i => base_index + i) (%s cases).\n", c.Checker)
		b.WriteString("Print bad.\n")
		if b.Len() > largest {
			largest = b.Len()
		}
		if err := os.WriteFile(filepath.Join(c.Dir, name), []byte(b.String()), 0o644); err != nil {
			return nil, 0, err
		}
		names = append(names, name)
		i = j
		if i >= len(c.cases) {
			break
		}
	}
	return names, largest, nil
}

// emitTrace sends one trace to the Coq checker, split when long. what names
// the case in report.json's case_index, input is the round's input.
func (rn *runner) emitTrace(tr []rawEv, what, input string) {
	rep := rn.rep
	chunks, dropped := splitTrace(tr)
	if dropped > 0 {
		rep.Hist("trace:stretch-too-long-for-coq-not-emitted")
		rep.Histogram["trace:events-not-emitted(stretch-too-long)"] += dropped
	}
	if len(chunks) > 1 {
		rep.Hist("trace:split-at-quiescent-points")
	}
	for k, ch := range chunks {
		if k >= maxChunksPerTr {
			rep.Histogram["trace:chunks-go-replay-only"] += len(chunks) - k
			break
		}
		il := interleaved(ch)
		rep.Histogram["trace:events"] += len(ch)
		cs := coqCase(ch)
		rn.cf.Add(cs)
		if len(chunks) > 1 {
			rep.Idx(fmt.Sprintf("%s (part %d of %d, trace split at quiescent points) | %s", what, k+1, len(chunks), input))
		} else {
			rep.Idx(what + " | " + input)
		}
		rep.Count(cs, il)
	}
}
