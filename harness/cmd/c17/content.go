package main

// C17, content-extraction part: Body.Content / PartialContent / JustAttributes
// called concurrently
//
//   - with ONE schema object shared by all goroutines, whose Attributes/Blocks
//     slices have SPARE CAPACITY (built with append; or hcldec.ImpliedSchema of a
//     spec with >= 5 block types and several attributes), so that an
//     implementation that appends to the caller's slices writes into a backing
//     array the other goroutines are using;
//   - on fresh bodies and on shared REMAINING bodies returned by PartialContent
//     (chains of two partial steps, so that a remaining body hides >= 2 block
//     types and >= 2 attributes), for native, JSON, merged and
//     dynamic-block-expanded bodies;
//   - comparing every result (attribute names, (type, labels) sequence of the
//     blocks, attribute names one level down, diagnostics) with the result of
//     the same call made alone.
//
// One expanded body is bound to one EvalContext; the library evaluates every
// for_each in a fresh child of it, so a shared expanded body may hold splats in
// its for_each expressions (scenario sharedForEachRound below; since round 4
// also here, together with nested dynamic "sub" blocks over a long collection).
// The second phase (nested.go) shares the bodies of the extracted blocks.

import (
	"encoding/json"
	"fmt"
	"runtime"
	"sort"
	"strings"
	"sync"

	"github.com/hashicorp/hcl/v2"
	"github.com/hashicorp/hcl/v2/ext/dynblock"
	"github.com/hashicorp/hcl/v2/hcldec"
	"github.com/hashicorp/hcl/v2/hclsyntax"
	hcljson "github.com/hashicorp/hcl/v2/json"
	"github.com/zclconf/go-cty/cty"
	"hclverif/hv"
)

type blockTy struct {
	name    string
	labeled bool
}

type contentCfg struct {
	attrs  []string
	types  []blockTy
	native string
	json   string
}

// genContentCfg renders one configuration (native and JSON) with nAttr
// attributes named <prefix>1.. and the given block types; withDyn adds
// `dynamic` blocks (for_each without splats) for some of the types.
func genContentCfg(r *hv.Rng, prefix string, nAttr int, types []blockTy, withDyn bool) contentCfg {
	c := contentCfg{types: types}
	var nb strings.Builder
	jtop := map[string]any{}
	for i := 1; i <= nAttr; i++ {
		name := fmt.Sprintf("%s%d", prefix, i)
		c.attrs = append(c.attrs, name)
		if r.Chance(0.15) {
			continue // attribute absent from the configuration
		}
		switch r.Intn(3) {
		case 0:
			fmt.Fprintf(&nb, "%s = %d\n", name, i)
			jtop[name] = i
		case 1:
			fmt.Fprintf(&nb, "%s = \"v-%s\"\n", name, name)
			jtop[name] = "v-" + name
		default:
			fmt.Fprintf(&nb, "%s = sh\n", name)
			jtop[name] = "${sh}"
		}
	}
	jdyn := map[string]any{}
	for _, t := range types {
		n := r.Intn(3)
		var jblocks []any
		for k := 0; k < n; k++ {
			var inner any = map[string]any{"x": k}
			arrayBody := r.Chance(0.3)
			if arrayBody {
				// the block's body in array form: [{...}, {...}] (JSON side only)
				inner = []any{map[string]any{}, inner, map[string]any{}}[r.Intn(2) : 2+r.Intn(2)]
			}
			if t.labeled {
				lbl := fmt.Sprintf("l%d", k)
				fmt.Fprintf(&nb, "%s \"%s\" {\n  x = %d\n}\n", t.name, lbl, k)
				if arrayBody {
					inner = []any{inner} // below a label an array lists block instances
				}
				jblocks = append(jblocks, map[string]any{lbl: inner})
			} else {
				fmt.Fprintf(&nb, "%s {\n  x = %d\n}\n", t.name, k)
				jblocks = append(jblocks, inner)
			}
		}
		if len(jblocks) > 0 {
			jtop[t.name] = jblocks
		}
		if withDyn && r.Chance(0.5) {
			fe := r.Pick("names", "[\"p\", \"q\"]", "{ a = 1, b = 2 }", "[]", "names[*]", "[objs[*].name[0], objs.*.name[3]]")
			jcontent := map[string]any{"x": "${" + t.name + ".key}", "y": "${" + t.name + ".value}"}
			jd := map[string]any{"for_each": "${" + fe + "}", "content": jcontent}
			fmt.Fprintf(&nb, "dynamic \"%s\" {\n  for_each = %s\n", t.name, fe)
			if t.labeled {
				fmt.Fprintf(&nb, "  labels = [\"d${%s.key}\"]\n", t.name)
				jd["labels"] = []any{"d${" + t.name + ".key}"}
			}
			fmt.Fprintf(&nb, "  content {\n    x = %s.key\n    y = %s.value\n", t.name, t.name)
			if r.Chance(0.45) {
				// a nested dynamic block: its for_each is evaluated by Content on the BODY
				// OF THE GENERATED BLOCK (second phase, nested.go)
				sfe := r.Pick("objs[*].id", "objs.*.name", "[for i, o in objs[*].name : o if i % 7 == 0]", "[for o in objs : o.id if o.id % 9 == 0]", t.name+".value[*]", "[length(objs[*].id), "+t.name+".key]")
				z := "[sub.value, " + t.name + ".key]"
				fmt.Fprintf(&nb, "    dynamic \"sub\" {\n      for_each = %s\n      content {\n        z = %s\n      }\n    }\n", sfe, z)
				jcontent["dynamic"] = map[string]any{"sub": map[string]any{"for_each": "${" + sfe + "}", "content": map[string]any{"z": "${" + z + "}"}}}
			}
			nb.WriteString("  }\n}\n")
			jdyn[t.name] = jd
		}
	}
	if len(jdyn) > 0 {
		jtop["dynamic"] = jdyn
	}
	c.native = nb.String()
	var jroot any = jtop
	if r.Chance(0.5) {
		// the top-level body in array form: the properties spread over 2..4 objects
		keys := hv.SortedKeys(jtop)
		n := 2 + r.Intn(3)
		objs := make([]any, n)
		parts := make([]map[string]any, n)
		for i := range parts {
			parts[i] = map[string]any{}
			objs[i] = parts[i]
		}
		for i, k := range keys {
			parts[i*n/len(keys)][k] = jtop[k]
		}
		jroot = objs
	}
	jb, _ := json.Marshal(jroot)
	c.json = string(jb)
	return c
}

// spare makes sure the slices of a schema have spare capacity (append-built
// slices usually have it; lengths 1, 2, 4, 8 do not).
func spare(s *hcl.BodySchema) *hcl.BodySchema {
	if cap(s.Attributes) == len(s.Attributes) {
		a := make([]hcl.AttributeSchema, len(s.Attributes), len(s.Attributes)+5)
		copy(a, s.Attributes)
		s.Attributes = a
	}
	if cap(s.Blocks) == len(s.Blocks) {
		b := make([]hcl.BlockHeaderSchema, len(s.Blocks), len(s.Blocks)+5)
		copy(b, s.Blocks)
		s.Blocks = b
	}
	return s
}

// mkSchema builds a schema for the given attributes and block types, either by
// plain append or through hcldec.ImpliedSchema.
func mkSchema(attrs []string, types []blockTy, viaHcldec bool) *hcl.BodySchema {
	if viaHcldec {
		spec := hcldec.ObjectSpec{}
		for _, a := range attrs {
			spec[a] = &hcldec.AttrSpec{Name: a, Type: cty.DynamicPseudoType}
		}
		for _, t := range types {
			nested := hcldec.ObjectSpec{"x": &hcldec.AttrSpec{Name: "x", Type: cty.DynamicPseudoType}}
			if t.labeled {
				spec[t.name] = &hcldec.BlockMapSpec{TypeName: t.name, LabelNames: []string{"name"}, Nested: nested}
			} else {
				spec[t.name] = &hcldec.BlockTupleSpec{TypeName: t.name, Nested: nested}
			}
		}
		return spare(hcldec.ImpliedSchema(spec))
	}
	s := &hcl.BodySchema{}
	for _, a := range attrs {
		s.Attributes = append(s.Attributes, hcl.AttributeSchema{Name: a})
	}
	for _, t := range types {
		h := hcl.BlockHeaderSchema{Type: t.name}
		if t.labeled {
			h.LabelNames = []string{"name"}
		}
		s.Blocks = append(s.Blocks, h)
	}
	return spare(s)
}

func dumpDiagsFull(diags hcl.Diagnostics) string {
	if len(diags) == 0 {
		return "diags=0"
	}
	parts := make([]string, len(diags))
	for i, d := range diags {
		subj := ""
		if d.Subject != nil {
			subj = d.Subject.String()
		}
		parts[i] = fmt.Sprintf("%d:%s:%s@%s", d.Severity, d.Summary, d.Detail, subj)
	}
	sort.Strings(parts)
	return fmt.Sprintf("diags=%d[%s]", len(diags), strings.Join(parts, ";"))
}

func dumpAttrNames(a hcl.Attributes) string {
	return "attrs{" + strings.Join(hv.SortedKeys(a), ",") + "}"
}

// dumpBC is the observable of one Content/PartialContent result.
func dumpBC(c *hcl.BodyContent, d hcl.Diagnostics) string {
	var sb strings.Builder
	sb.WriteString(dumpDiagsFull(d))
	if c == nil {
		return sb.String() + " (nil-content)"
	}
	sb.WriteString(" " + dumpAttrNames(c.Attributes) + " blocks[")
	for _, b := range c.Blocks {
		fmt.Fprintf(&sb, "(%s %q", b.Type, b.Labels)
		if b.Body != nil {
			ia, id := b.Body.JustAttributes()
			fmt.Fprintf(&sb, " %s d%d", dumpAttrNames(ia), len(id))
		}
		sb.WriteString(")")
	}
	sb.WriteString("]")
	return sb.String()
}

type contentOp struct {
	name string
	run  func() string
}

// bodyOpsOn lists the calls made concurrently on one body with shared schemas.
func bodyOpsOn(tag string, b hcl.Body, content, partial *hcl.BodySchema) []contentOp {
	return []contentOp{
		{tag + ".Content", func() string { c, d := b.Content(content); return dumpBC(c, d) }},
		{tag + ".PartialContent", func() string {
			c, rem, d := b.PartialContent(partial)
			ra, rd := rem.JustAttributes()
			return dumpBC(c, d) + " remain " + dumpAttrNames(ra) + fmt.Sprintf(" d%d", len(rd))
		}},
		{tag + ".JustAttributes", func() string { a, d := b.JustAttributes(); return dumpAttrNames(a) + " " + dumpDiagsFull(d) }},
	}
}

func safeOp(f func() string) (out string) {
	defer func() {
		if p := recover(); p != nil {
			out = fmt.Sprintf("PANIC: %v", p)
		}
	}()
	return f()
}

// contentObjs: the long collection of the nested dynamic blocks (40 objects).
var contentObjs = func() cty.Value {
	var os []cty.Value
	for i := 0; i < 40; i++ {
		os = append(os, cty.ObjectVal(map[string]cty.Value{"id": cty.NumberIntVal(int64(i)), "name": cty.StringVal(fmt.Sprintf("o%d", i))}))
	}
	return cty.ListVal(os)
}()

var contentBases = []string{"native", "json", "merged", "expand-native", "expand-json", "expand-merged"}

// contentRound runs one round of the content-extraction workload.
func (rn *runner) contentRound(base string, rc roundCfg) {
	rn.round++
	rep, r := rn.rep, rn.r
	rep.Hist("item:content-" + base)
	rep.Hist(fmt.Sprintf("G:%02d", rc.G))
	rep.Hist(fmt.Sprintf("gomaxprocs:%d", rc.procs))

	// block types: at least 6, so that the schemas have >= 5 block types
	nTypes := 6 + r.Intn(3)
	types := make([]blockTy, nTypes)
	for i := range types {
		types[i] = blockTy{name: fmt.Sprintf("t%d", i+1), labeled: r.Chance(0.3)}
	}
	withDyn := strings.HasPrefix(base, "expand")
	ca := genContentCfg(r, "a", 4+r.Intn(3), types, withDyn)
	var cb contentCfg
	merged := strings.HasSuffix(base, "merged")
	if merged {
		cb = genContentCfg(r, "b", 2+r.Intn(3), types, withDyn)
	}
	src := ca.native
	parse := func(c contentCfg, asJSON bool) hcl.Body {
		if asJSON {
			f, d := hcljson.Parse([]byte(c.json), "c.json")
			if f == nil || d.HasErrors() {
				return nil
			}
			return f.Body
		}
		f, d := hclsyntax.ParseConfig([]byte(c.native), "c.hcl", hcl.InitialPos)
		if f == nil || d.HasErrors() {
			return nil
		}
		return f.Body
	}
	// parseRaw parses the configuration AGAIN on every call: the trees of the
	// concurrent phases are fresh ones (first-use discipline, cold.go)
	parseRaw := func() hcl.Body {
		switch {
		case merged:
			b1, b2 := parse(ca, false), parse(cb, true)
			if b1 == nil || b2 == nil {
				return nil
			}
			return hcl.MergeBodies([]hcl.Body{b1, b2})
		case strings.HasSuffix(base, "json"):
			return parse(ca, true)
		default:
			return parse(ca, false)
		}
	}
	switch {
	case merged:
		src = ca.native + "\n# merged with JSON:\n" + cb.json
	case strings.HasSuffix(base, "json"):
		src = ca.json
	}
	if parseRaw() == nil {
		rep.Hist("item:unparseable-skipped")
		return
	}
	input := fmt.Sprintf("#c17 kind=content-%s %s\n%s", base, rc.String(), src)

	allAttrs := append(append([]string{}, ca.attrs...), cb.attrs...)
	// schemas, all shared, all with spare capacity
	viaHcldec := r.Chance(0.5)
	if viaHcldec {
		rep.Hist("schema:hcldec.ImpliedSchema")
	} else {
		rep.Hist("schema:append-built")
	}
	k1 := 2 + r.Intn(2) // block types hidden by the first partial step (>= 2)
	sFull := mkSchema(allAttrs, types, viaHcldec)
	s1 := mkSchema(allAttrs[:2], types[:k1], viaHcldec)
	s2 := mkSchema(allAttrs[2:3], types[k1:k1+1], viaHcldec)
	sRest1 := mkSchema(allAttrs[2:], types[k1:], viaHcldec)
	sRest2 := mkSchema(allAttrs[3:], types[k1+1:], viaHcldec)
	for _, s := range []*hcl.BodySchema{sFull, s1, s2, sRest1, sRest2} {
		if cap(s.Blocks) > len(s.Blocks) && cap(s.Attributes) > len(s.Attributes) {
			rep.Hist("schema:spare-capacity")
		}
	}
	rep.Hist(fmt.Sprintf("schema:block-types:%d", len(sFull.Blocks)))

	sharedCtx := &hcl.EvalContext{Variables: map[string]cty.Value{
		"sh":    cty.StringVal("shared"),
		"names": cty.ListVal([]cty.Value{cty.StringVal("n1"), cty.StringVal("n2"), cty.StringVal("n3")}),
		"objs":  contentObjs,
	}}
	// build makes the shared bodies and the calls on them from FRESH parses: tree
	// A carries the base calls and the goroutines' own chains and is not touched
	// here at all; tree B carries the remainders (making them needs two partial
	// steps on B, so only the remaining bodies themselves are unused).
	build := func() []contentOp {
		rawA, rawB := parseRaw(), parseRaw()
		if rawA == nil || rawB == nil {
			return nil
		}
		mkBase := func(raw hcl.Body, ctx *hcl.EvalContext) hcl.Body {
			if withDyn {
				return dynblock.Expand(raw, ctx)
			}
			return raw
		}
		// shared bodies: the base, the remainder after one partial step, and after two
		b0 := mkBase(rawA, sharedCtx)
		_, r1, _ := mkBase(rawB, sharedCtx).PartialContent(s1)
		_, r2, _ := r1.PartialContent(s2)
		var ops []contentOp
		ops = append(ops, bodyOpsOn("base", b0, sFull, s1)...)
		ops = append(ops, bodyOpsOn("remain1", r1, sRest1, s2)...)
		ops = append(ops, bodyOpsOn("remain2", r2, sRest2, sRest2)...)
		// each goroutine also builds its OWN expansion and remainders, but with the
		// shared schema objects (the usual shape of an application)
		ops = append(ops, contentOp{"own-chain", func() string {
			ctx := sharedCtx.NewChild()
			b := mkBase(rawA, ctx)
			c1, rem1, d1 := b.PartialContent(s1)
			c2, rem2, d2 := rem1.PartialContent(s2)
			c3, d3 := rem2.Content(sRest2)
			c4, d4 := rem1.Content(sRest1)
			return dumpBC(c1, d1) + " / " + dumpBC(c2, d2) + " / " + dumpBC(c3, d3) + " / " + dumpBC(c4, d4)
		}})
		return ops
	}
	// the solo (reference) results come from one build, the concurrent phase
	// below runs on another one
	ops := build()
	if ops == nil {
		rep.Hist("item:unparseable-skipped")
		return
	}

	solo := make([]string, len(ops))
	stable := make([]bool, len(ops))
	for k, op := range ops {
		a, b := safeOp(op.run), safeOp(op.run)
		solo[k], stable[k] = a, a == b
		if a != b {
			rep.Soft++
			rep.Hist("soft:solo-result-not-deterministic:content")
		}
		if strings.HasPrefix(a, "PANIC:") {
			rep.Fail(hv.Failure{Kind: "panic", Detail: "solo " + op.name + ": " + a, Input: input})
		}
		if strings.Contains(a, "diags=0") {
			rep.Hist("content-result:clean")
		} else {
			rep.Hist("content-result:with-diagnostics")
		}
	}
	if rn.round%40 == 0 {
		rep.Sample(map[string]string{"input": input, "solo_remain1_content": trunc(solo[3], 400)})
	}

	old := runtime.GOMAXPROCS(rc.procs)
	defer runtime.GOMAXPROCS(old)
	type diff struct {
		g, op int
		got   string
	}
	var mu sync.Mutex
	var diffs []diff
	if raceEnabled || r.Chance(0.85) {
		if f := build(); f != nil && len(f) == len(ops) {
			ops = f
			rep.Hist("phase:concurrent-on-fresh-parse")
		}
	} else {
		rep.Hist("phase:concurrent-on-warmed-up-tree")
	}
	start := newBarrier(rc.G)
	var wg sync.WaitGroup
	reps := rc.reps * 6
	for g := 0; g < rc.G; g++ {
		wg.Add(1)
		seed := r.Uint64()
		go func(g int) {
			defer wg.Done()
			lr := hv.NewRng(seed, 1800+uint64(g))
			start.arrive()
			for rp := 0; rp < reps; rp++ {
				for i := range ops {
					k := (i + g) % len(ops) // goroutines are at different calls at the same time
					if lr.Chance(0.2) {
						runtime.Gosched()
					}
					if got := safeOp(ops[k].run); got != solo[k] && stable[k] {
						mu.Lock()
						diffs = append(diffs, diff{g, k, got})
						mu.Unlock()
					}
				}
			}
		}(g)
	}
	start.release()
	wg.Wait()
	rep.Histogram["calls:concurrent-content"] += rc.G * reps * len(ops)
	// more first-use rounds, each on its own fresh build
	{
		names := make([]string, len(ops))
		for k, op := range ops {
			names[k] = op.name
		}
		refs := make([][]string, rc.G)
		stables := make([][]bool, rc.G)
		for g := range refs {
			refs[g], stables[g] = solo, stable
		}
		nb := 2
		if raceEnabled {
			nb = 0 // the concurrent phase above already ran on a fresh build; the detector needs no repetition
		}
		rn.coldBursts(func() []opFn {
			cops := build()
			if cops == nil {
				return nil
			}
			out := make([]opFn, len(cops))
			for k, op := range cops {
				run := op.run
				out[k] = opFn{op.name, func(*hcl.EvalContext) string { return safeOp(run) }}
			}
			return out
		}, nb, rc.G, func(int) *hcl.EvalContext { return nil }, refs, stables, names, input)
	}
	// second phase (nested.go): the bodies of the extracted blocks (static, generated,
	// merged, JSON) and the remaining bodies below them are shared
	rn.nestedPhase(&nestedPlan{u: contentUniverse(sFull), what: "content-" + base, build: func() hcl.Body {
		raw := parseRaw()
		if raw != nil && withDyn {
			return dynblock.Expand(raw, sharedCtx)
		}
		return raw
	}}, rc, func(int) *hcl.EvalContext { return sharedCtx.NewChild() }, input)
	if len(diffs) == 0 {
		rep.Hist("oracle-ok")
		rep.Hist("oracle-ok:content")
	}
	for i, d := range diffs {
		kind := "concurrent-result-differs"
		if strings.HasPrefix(d.got, "PANIC:") {
			kind = "panic"
		}
		rep.Hist("oracle-fail:" + kind)
		if i < 2 {
			rep.Fail(hv.Failure{Kind: kind,
				Detail: fmt.Sprintf("goroutine %d call %s with a schema shared by all goroutines: concurrent result %s, alone %s", d.g, ops[d.op].name, trunc(d.got, 700), trunc(solo[d.op], 700)),
				Input:  input})
		}
	}
}

// ---- shared expanded body whose for_each holds a splat ---------------------------
//
// dynblock.Expand(body, ctx) binds the body to ONE EvalContext; Content on it
// evaluates every for_each with that context (expandBody.decodeSpec). When the
// expanded body is shared by several goroutines and a for_each contains a
// splat expression, all goroutines run the same SplatExpr under the SAME
// context pointer: exactly the situation the comment on AnonSymbolExpr.values
// excludes, but here the caller has no way to supply its own context.
// Failures of this scenario get their own kind, "dynblock-foreach-shared-ctx".

const sharedForEachSrc = `dynamic "b" {
  for_each = items[*].name
  content {
    v = b.value
  }
}
`

func (rn *runner) sharedForEachRound(rc roundCfg) {
	rn.round++
	rep := rn.rep
	rep.Hist("scenario:shared-expanded-body-splat-in-for_each")
	f, d := hclsyntax.ParseConfig([]byte(sharedForEachSrc), "s.hcl", hcl.InitialPos)
	if d.HasErrors() {
		return
	}
	var items []cty.Value
	for i := 0; i < 8; i++ {
		items = append(items, cty.ObjectVal(map[string]cty.Value{"name": cty.StringVal(fmt.Sprintf("n%d", i))}))
	}
	ctx := &hcl.EvalContext{Variables: map[string]cty.Value{"items": cty.ListVal(items)}}
	body := dynblock.Expand(f.Body, ctx) // ONE expanded body for all goroutines
	schema := &hcl.BodySchema{Blocks: []hcl.BlockHeaderSchema{{Type: "b"}}}
	dumpOf := func(body hcl.Body) string {
		c, d := body.Content(schema)
		var sb strings.Builder
		sb.WriteString(dumpDiagsFull(d))
		for _, b := range c.Blocks {
			a, _ := b.Body.JustAttributes()
			if at, ok := a["v"]; ok {
				v, _ := at.Expr.Value(ctx)
				sb.WriteString(" " + hv.DumpVal(v))
			}
		}
		return sb.String()
	}
	dump := func() string { return dumpOf(body) }
	// the solo result comes from a SEPARATE parse and expansion: the shared body's
	// first use is the concurrent one
	var solo string
	if f2, d2 := hclsyntax.ParseConfig([]byte(sharedForEachSrc), "s.hcl", hcl.InitialPos); !d2.HasErrors() {
		other := dynblock.Expand(f2.Body, ctx)
		solo = safeOp(func() string { return dumpOf(other) })
		rep.Hist("phase:concurrent-on-fresh-parse")
	} else {
		solo = safeOp(dump)
	}
	input := fmt.Sprintf("#c17 kind=dynblock-foreach-shared-ctx %s\n%s# items = list of 8 objects {name = \"n<i>\"}; ONE dynblock.Expand(body, ctx) result shared by all goroutines, each calling Content(schema{b})\n", rc.String(), sharedForEachSrc)

	old := runtime.GOMAXPROCS(rc.procs)
	defer runtime.GOMAXPROCS(old)
	hclsyntax.VerifAnonSetYield(rc.yield)
	traced := !raceEnabled
	if traced {
		hclsyntax.VerifAnonTrace(true)
	}
	var mu sync.Mutex
	wrong := map[string]int{}
	gidOf := make([]int64, rc.G)
	start := newBarrier(rc.G)
	var wg sync.WaitGroup
	for g := 0; g < rc.G; g++ {
		wg.Add(1)
		go func(g int) {
			defer wg.Done()
			gidOf[g] = hclsyntax.VerifGoroutineID()
			start.arrive()
			for i := 0; i < 40; i++ {
				if got := safeOp(dump); got != solo {
					mu.Lock()
					wrong[got]++
					mu.Unlock()
				}
			}
		}(g)
	}
	start.release()
	wg.Wait()
	hclsyntax.VerifAnonSetYield(0)
	sharedCtx := ""
	if traced {
		hclsyntax.VerifAnonTrace(false)
		owner := map[int]int64{}
		for _, e := range hclsyntax.VerifAnonEvents() {
			if o, ok := owner[e.Ctx]; ok && o != e.Goroutine && sharedCtx == "" {
				sharedCtx = fmt.Sprintf("trace: context %d of symbol %d is used by goroutines %d and %d", e.Ctx, e.Sym, o, e.Goroutine)
			}
			owner[e.Ctx] = e.Goroutine
		}
	}
	if len(wrong) == 0 && sharedCtx == "" {
		rep.Hist("scenario:shared-foreach:nothing-observed")
		return
	}
	n, example := 0, ""
	for k, v := range wrong {
		n += v
		if example == "" || k < example {
			example = k
		}
	}
	rep.Hist("oracle-fail:dynblock-foreach-shared-ctx")
	rep.Fail(hv.Failure{Kind: "dynblock-foreach-shared-ctx",
		Detail: fmt.Sprintf("%d of %d concurrent Content calls on the shared expanded body returned a result different from the solo result; e.g. %s, alone %s; %s", n, rc.G*40, trunc(example, 500), trunc(solo, 500), sharedCtx),
		Input:  input})
}
