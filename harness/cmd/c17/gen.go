package main

// Generators for C17: evaluation scopes that differ per goroutine, and a pool
// of expressions / bodies that exercise SplatExpr (the only construct with
// per-evaluation state inside the shared syntax tree) in every position.

import (
	"encoding/json"
	"fmt"
	"math/rand/v2"
	"runtime"
	"strings"
	"sync"

	"github.com/hashicorp/hcl/v2"
	"github.com/zclconf/go-cty/cty"
	"github.com/zclconf/go-cty/cty/function"
	"github.com/zclconf/go-cty/cty/function/stdlib"
	"hclverif/hv"
)

// ---- scopes -----------------------------------------------------------------

var objTy = cty.Object(map[string]cty.Type{
	"name":   cty.String,
	"id":     cty.Number,
	"tags":   cty.List(cty.String),
	"nested": cty.List(cty.Object(map[string]cty.Type{"v": cty.Number})),
})

func mkObj(salt, i int) cty.Value {
	nt := (salt + i) % 4
	tags := make([]cty.Value, 0, nt)
	for k := 0; k < nt; k++ {
		tags = append(tags, cty.StringVal(fmt.Sprintf("t%d-%d-%d", salt, i, k)))
	}
	tv := cty.ListValEmpty(cty.String)
	if len(tags) > 0 {
		tv = cty.ListVal(tags)
	}
	nn := (salt*3 + i) % 3
	nested := make([]cty.Value, 0, nn)
	for k := 0; k < nn; k++ {
		nested = append(nested, cty.ObjectVal(map[string]cty.Value{"v": cty.NumberIntVal(int64(salt*1000 + i*10 + k))}))
	}
	nv := cty.ListValEmpty(cty.Object(map[string]cty.Type{"v": cty.Number}))
	if len(nested) > 0 {
		nv = cty.ListVal(nested)
	}
	return cty.ObjectVal(map[string]cty.Value{
		"name":   cty.StringVal(fmt.Sprintf("g%d-n%d", salt, i)),
		"id":     cty.NumberIntVal(int64(salt*100 + i)),
		"tags":   tv,
		"nested": nv,
	})
}

// longVars: the long collections of a scope (nested.go: for_each expressions
// whose splat loops run over 30..100 elements): big, a list of 30..100
// objects, and groups, a list of 2..3 objects {name, members = list of 30..64
// objects}. Immutable values, built once per salt.
var longCache sync.Map

type longVals struct{ big, groups cty.Value }

func longVars(salt int) (big, groups cty.Value) {
	if v, ok := longCache.Load(salt); ok {
		lv := v.(longVals)
		return lv.big, lv.groups
	}
	n, mm := 30+(salt*17)%71, 35
	if raceEnabled {
		// the detector reports an unsynchronised access whatever the timing: the
		// loops need not be long to widen a window, and every step costs ~10x
		n, mm = 30+salt%4, 3
	}
	objs := make([]cty.Value, n)
	for i := range objs {
		objs[i] = mkObj(salt+11, i)
	}
	var gs []cty.Value
	for g := 0; g < 2+salt%2; g++ {
		m := 30 + (salt*7+g*13)%mm
		ms := make([]cty.Value, m)
		for i := range ms {
			ms[i] = mkObj(salt+g+1, i)
		}
		gs = append(gs, cty.ObjectVal(map[string]cty.Value{"name": cty.StringVal(fmt.Sprintf("grp%d-%d", salt, g)), "members": cty.ListVal(ms)}))
	}
	lv := longVals{cty.ListVal(objs), cty.ListVal(gs)}
	longCache.Store(salt, lv)
	return lv.big, lv.groups
}

// mkVars builds the variables of one goroutine's scope. Everything depends on
// salt, including the LENGTH of the collections, so that a value leaking from
// another goroutine's evaluation changes the result.
func mkVars(salt int) map[string]cty.Value {
	n := salt % 5
	objs := make([]cty.Value, 0, n)
	for i := 0; i < n; i++ {
		objs = append(objs, mkObj(salt, i))
	}
	xs := cty.ListValEmpty(objTy)
	if n > 0 {
		xs = cty.ListVal(objs)
	}
	big := make([]cty.Value, 0, 6)
	for i := 0; i < 3+salt%4; i++ {
		big = append(big, mkObj(salt+7, i))
	}
	partialObj := cty.ObjectVal(map[string]cty.Value{
		"name": cty.UnknownVal(cty.String), "id": cty.NumberIntVal(int64(salt)),
		"tags": cty.UnknownVal(cty.List(cty.String)), "nested": cty.ListValEmpty(cty.Object(map[string]cty.Type{"v": cty.Number})),
	})
	bigV, groupsV := longVars(salt)
	return map[string]cty.Value{
		"big":     bigV,
		"groups":  groupsV,
		"xs":      xs,
		"ys":      cty.ListVal(big),
		"tup":     cty.TupleVal([]cty.Value{mkObj(salt, 9), cty.ObjectVal(map[string]cty.Value{"name": cty.StringVal(fmt.Sprintf("b%d", salt)), "id": cty.StringVal("str"), "tags": cty.EmptyTupleVal}), mkObj(salt+1, 1)}),
		"st":      cty.SetVal([]cty.Value{cty.StringVal(fmt.Sprintf("s%da", salt)), cty.StringVal(fmt.Sprintf("s%db", salt)), cty.StringVal("common")}),
		"one":     mkObj(salt, 42),
		"nul":     cty.NullVal(objTy),
		"nullist": cty.NullVal(cty.List(objTy)),
		"unk":     cty.UnknownVal(cty.List(objTy)),
		"unkref":  cty.UnknownVal(cty.List(objTy)).Refine().NotNull().CollectionLengthLowerBound(salt % 3).CollectionLengthUpperBound(salt%3 + 2).NewValue(),
		"unkone":  cty.UnknownVal(objTy),
		"unktup":  cty.UnknownVal(cty.Tuple([]cty.Type{objTy, cty.Object(map[string]cty.Type{"name": cty.Number})})),
		"dyn":     cty.DynamicVal,
		"mk":      cty.ListVal(big).Mark("secret"),
		"mp":      cty.MapVal(map[string]cty.Value{"a": mkObj(salt, 1), "b": mkObj(salt, 2)}),
		"emp":     cty.ListValEmpty(objTy),
		"emptup":  cty.EmptyTupleVal,
		"partial": cty.ListVal([]cty.Value{mkObj(salt, 0), partialObj, cty.UnknownVal(objTy)}),
		"idx":     cty.NumberIntVal(int64(salt % 2)),
		"salt":    cty.NumberIntVal(int64(salt)),
		"str":     cty.StringVal(fmt.Sprintf("scalar-%d", salt)),
	}
}

// yieldFunc returns its argument unchanged and sometimes yields the processor:
// it lets the harness put scheduling points INSIDE an evaluation (between the
// setValue and the clearValue of an enclosing splat).
var yieldFunc = function.New(&function.Spec{
	Params: []function.Parameter{{Name: "v", Type: cty.DynamicPseudoType, AllowNull: true, AllowUnknown: true, AllowDynamicType: true, AllowMarked: true}},
	Type:   func(args []cty.Value) (cty.Type, error) { return args[0].Type(), nil },
	Impl: func(args []cty.Value, retType cty.Type) (cty.Value, error) {
		if rand.IntN(2) == 0 {
			runtime.Gosched()
		}
		return args[0], nil
	},
})

func mkFuncs() map[string]function.Function {
	return map[string]function.Function{
		"upper":   stdlib.UpperFunc,
		"join":    stdlib.JoinFunc,
		"length":  stdlib.LengthFunc,
		"concat":  stdlib.ConcatFunc,
		"flatten": stdlib.FlattenFunc,
		"yield":   yieldFunc,
	}
}

// mkCtx builds the evaluation context of goroutine g for the given topology.
// Shared parents are only ever read.
func mkCtx(topo string, shared *hcl.EvalContext, sharedMid *hcl.EvalContext, salt int) *hcl.EvalContext {
	switch topo {
	case "root": // nothing shared
		return &hcl.EvalContext{Variables: mkVars(salt), Functions: mkFuncs()}
	case "grandchild": // shared -> sharedMid (shared, empty) -> own
		c := sharedMid.NewChild()
		c.Variables = mkVars(salt)
		return c
	case "ownmid": // shared -> own mid with the variables -> own empty leaf
		m := shared.NewChild()
		m.Variables = mkVars(salt)
		return m.NewChild()
	default: // "child": shared -> own
		c := shared.NewChild()
		c.Variables = mkVars(salt)
		return c
	}
}

var topologies = []string{"child", "child", "child", "grandchild", "ownmid", "root", "fresh", "nilctx"}

// ---- expressions -------------------------------------------------------------

// hand corpus: every path of SplatExpr.Value, in every syntactic position
var exprCorpus = []string{
	"xs[*].name",
	"xs.*.name",
	"xs[*]",
	"xs[*].tags[*]",
	"xs[*].nested[*].v",
	"ys[*].nested[*].v[*]",
	"xs.*.tags.0",
	"ys[*].tags[idx]",
	"ys[*].tags[yield(idx)]",
	"ys[*].nested[length(one[*].id) - 1]",
	"[for x in xs[*].name : upper(x)]",
	"[for x in ys : x.tags[*]]",
	"[for x in ys : yield(x).nested[*].v]",
	"{ for k, x in ys[*].name : k => x }",
	"idx == 0 ? xs[*].id : tup[*].id",
	"idx == 0 ? ys[*].tags[*] : ys.*.name",
	"\"ids: ${join(\",\", ys[*].name)}\"",
	"\"%{ for x in ys[*].name }${x},%{ endfor }\"",
	"<<EOT\n%{ for x in ys[*].tags ~}\n${join(\"+\", x[*])}\n%{ endfor ~}\nEOT\n",
	"one[*].name",
	"one.*.tags",
	"str[*]",
	"nul[*].name",
	"nul.*.name",
	"nullist[*].name",
	"unk[*].name",
	"unk[*].tags[*]",
	"unkref[*].id",
	"unkone[*].name",
	"unkone[*].missing",
	"unktup[*].name",
	"dyn[*].x",
	"mk[*].name",
	"mk[*].tags[*]",
	"mp[*].name",
	"mp[*]",
	"emp[*].name",
	"emp[*].tags[*]",
	"emptup[*]",
	"emptup[*].x",
	"st[*]",
	"tup[*].name",
	"tup[*].id",
	"tup[*].tags[*]",
	"xs[*].missing",
	"ys[*].missing",
	"tup[*].missing",
	"nosuch[*].name",
	"nosuch.*.name.x",
	"partial[*].name",
	"partial[*].tags[*]",
	"length(xs[*].id)",
	"concat(ys[*].tags...)",
	"flatten(ys[*].nested[*].v)",
	"[ys[*].id, xs[*].id, one[*].id]",
	"{ a = xs[*].name, b = ys.*.id }",
	"yield(ys)[*].name",
	"[[1, 2], [3]][*][*]",
	"[{ a = 1 }, { a = 2 }][*].a",
	"{ a = 1 }[*].a",
	"null[*]",
	"[for x in [[1, 2], [3, 4]] : x[*]]",
	"ys[*].name[*]",
	"xs[*].tags[*][*]",
}

// sources: mostly ones that evaluate without errors (so that results carry
// data that differs per goroutine), some that take the error / unknown /
// null / dynamic paths of SplatExpr.Value
var srcVars = []string{
	"xs", "xs", "xs", "ys", "ys", "ys", "ys", "tup", "tup", "one", "one", "mk", "mk", "st", "nul", "emp", "partial",
	"unk", "unkref", "unkone", "unktup", "dyn", "mp", "emptup", "nullist", "str", "nosuch"}
var attrSteps = []string{".name", ".name", ".id", ".id", ".tags", ".tags", ".nested", ".missing"}

type exprGen struct {
	r     *hv.Rng
	feat  map[string]int
	typed float64 // probability that a splat is rendered by typedSplat
}

func (g *exprGen) f(s string) { g.feat[s]++ }

func (g *exprGen) source(depth int) string {
	switch {
	case depth > 0 && g.r.Chance(0.08):
		g.f("src:yield-call")
		return "yield(" + g.r.Pick(srcVars...) + ")"
	case depth > 0 && g.r.Chance(0.06):
		g.f("src:tuple-cons")
		return "[" + g.r.Pick("one", "nul", "unkone") + ", " + g.r.Pick("one", "tup[0]") + "]"
	case depth > 0 && g.r.Chance(0.05):
		g.f("src:for")
		return "[for x in " + g.r.Pick("xs", "ys") + " : x]"
	}
	return g.r.Pick(srcVars...)
}

// typedSplat renders a splat whose traversal follows the types of the scope
// (object lists xs/ys/mk/partial/unk..., objects one/nul/unkone), so that it
// evaluates without errors and its result carries per-goroutine data.
func (g *exprGen) typedSplat(depth int) string {
	var b strings.Builder
	src := g.r.Pick("xs", "xs", "ys", "ys", "ys", "mk", "partial", "unk", "unkref", "emp", "one", "one", "nul", "unkone", "tup")
	if depth > 0 && g.r.Chance(0.1) {
		src = "yield(" + src + ")"
		g.f("src:yield-call")
	}
	b.WriteString(src)
	full := g.r.Chance(0.75) || src == "tup"
	if full {
		b.WriteString("[*]")
		g.f("splat:full")
	} else {
		b.WriteString(".*")
		g.f("splat:attr")
	}
	g.f("splat:typed")
	switch g.r.Intn(6) {
	case 0:
		// the whole element
	case 1:
		b.WriteString(".name")
	case 2:
		b.WriteString(".id")
	case 3:
		b.WriteString(".tags")
		if src != "tup" && full {
			switch g.r.Intn(4) {
			case 0:
				b.WriteString("[*]")
				g.f("splat:nested")
			case 1:
				b.WriteString(g.r.Pick("[*][*]", "[*][*][*]"))
				g.f("splat:nested")
				g.f("splat:nested-on-scalar")
			}
		}
	case 4:
		if src == "tup" {
			b.WriteString(".name")
		} else if full {
			b.WriteString(".nested[*].v")
			g.f("splat:nested")
			if g.r.Chance(0.3) {
				b.WriteString("[*]")
			}
		} else {
			b.WriteString(".nested")
		}
	default:
		if src == "tup" || !full {
			b.WriteString(".id")
		} else {
			b.WriteString(".nested")
			if g.r.Chance(0.5) {
				b.WriteString("[*]")
				g.f("splat:nested")
			}
		}
	}
	return b.String()
}

// splat renders SRC followed by a splat and its traversal
func (g *exprGen) splat(depth int) string {
	if g.r.Chance(g.typed) {
		return g.typedSplat(depth)
	}
	var b strings.Builder
	b.WriteString(g.source(depth))
	full := g.r.Chance(0.75)
	if full {
		b.WriteString("[*]")
		g.f("splat:full")
	} else {
		b.WriteString(".*")
		g.f("splat:attr")
	}
	g.f("splat:untyped")
	nsteps := g.r.Small(4)
	nested := 0
	for i := 0; i < nsteps; i++ {
		switch k := g.r.Intn(10); {
		case k < 5:
			b.WriteString(g.r.Pick(attrSteps...))
		case k < 6:
			if full {
				b.WriteString("[0]")
			} else {
				b.WriteString(".0")
			}
			g.f("step:index-lit")
		case k < 8 && full:
			b.WriteString("[*]")
			nested++
			g.f("splat:nested")
		case k < 9 && full:
			g.f("step:index-expr")
			if depth > 0 && g.r.Chance(0.3) {
				g.f("step:index-expr-with-splat")
				b.WriteString("[length(" + g.splat(depth-1) + ") - 1]")
			} else {
				b.WriteString(g.r.Pick("[idx]", "[yield(idx)]", "[salt - salt]"))
			}
		default:
			b.WriteString(".v")
		}
	}
	return b.String()
}

func (g *exprGen) expr(depth int) string {
	if depth <= 0 {
		return g.splat(0)
	}
	switch g.r.Intn(14) {
	case 0:
		g.f("wrap:for-tuple")
		return "[for x in " + g.expr(depth-1) + " : " + g.r.Pick("x", "yield(x)", "x[*]", "[x, idx]") + "]"
	case 1:
		g.f("wrap:for-body-splat")
		return "[for x in " + g.r.Pick("xs", "ys", "tup") + " : x" + g.r.Pick(".tags[*]", ".nested[*].v", "[*].name", ".tags.*") + "]"
	case 2:
		g.f("wrap:for-object")
		return "{ for k, x in " + g.expr(depth-1) + " : \"k${k}\" => x }"
	case 3:
		g.f("wrap:conditional")
		return g.r.Pick("idx == 0", "salt > 3", "length(xs) > 2") + " ? " + g.expr(depth-1) + " : " + g.expr(depth-1)
	case 4:
		g.f("wrap:template-interp")
		return "\"a ${join(\",\", " + g.r.Pick("xs", "ys", "one") + "[*].name)} b ${length(" + g.expr(depth-1) + ")}\""
	case 5:
		g.f("wrap:template-for")
		return "\"%{ for x in " + g.r.Pick("xs[*].name", "ys.*.name", "ys[*].tags[0]", "one[*].name") + " }<${x}>%{ endfor }\""
	case 6:
		g.f("wrap:call")
		return g.r.Pick("length", "yield", "flatten") + "(" + g.expr(depth-1) + ")"
	case 7:
		g.f("wrap:tuple-cons")
		return "[" + g.expr(depth-1) + ", " + g.expr(depth-1) + "]"
	case 8:
		g.f("wrap:object-cons")
		return "{ a = " + g.expr(depth-1) + ", b = " + g.splat(0) + " }"
	case 9:
		g.f("wrap:binop")
		return "length(" + g.expr(depth-1) + ") + length(" + g.splat(0) + ")"
	case 10:
		g.f("wrap:paren-splat")
		return "(" + g.expr(depth-1) + ")[*]"
	default:
		return g.splat(depth)
	}
}

func genExpr(r *hv.Rng) (string, map[string]int) {
	g := &exprGen{r: r, feat: map[string]int{}, typed: []float64{0.2, 0.6, 0.95}[r.Intn(3)]}
	return g.expr(r.Small(3)), g.feat
}

// ---- bodies -------------------------------------------------------------------

type bodyTexts struct {
	native string
	json   string
	dyn    bool
}

func jstr(expr string) string {
	b, _ := json.Marshal("${" + expr + "}")
	return string(b)
}

// genBody renders the same configuration in native and JSON syntax. The
// expressions are single-line (no heredocs) so that they can be wrapped in a
// JSON template string.
func genBody(r *hv.Rng, withDyn bool) (bodyTexts, map[string]int) {
	feat := map[string]int{}
	g := &exprGen{r: r, feat: feat, typed: []float64{0.5, 0.9, 1.0}[r.Intn(3)]}
	e := func() string {
		for {
			s := g.expr(r.Small(2))
			if !strings.Contains(s, "\n") {
				return s
			}
		}
	}
	nblk := 1 + r.Intn(3)
	var nb, jb strings.Builder
	e1, e2 := e(), e()
	fmt.Fprintf(&nb, "name = %s\nfirst = %s\n", e1, e2)
	// JSON side: object forms, or (arrayForms) the same configuration with the
	// top-level body, the block bodies and the label level of "dynamic" written
	// as arrays of objects
	arrayForms := r.Chance(0.5)
	if arrayForms {
		feat["body:json-array-forms"]++
		fmt.Fprintf(&jb, "[{\"name\": %s}, {\"first\": %s, \"blk\": [", jstr(e1), jstr(e2))
	} else {
		fmt.Fprintf(&jb, "{\"name\": %s, \"first\": %s, \"blk\": [", jstr(e1), jstr(e2))
	}
	for i := 0; i < nblk; i++ {
		v, w := e(), e()
		fmt.Fprintf(&nb, "blk {\n  v = %s\n  inner {\n    w = %s\n  }\n}\n", v, w)
		if i > 0 {
			jb.WriteString(", ")
		}
		if arrayForms && r.Chance(0.7) {
			fmt.Fprintf(&jb, "[{\"v\": %s}, {\"inner\": [[{}, {\"w\": %s}]]}]", jstr(v), jstr(w))
		} else {
			fmt.Fprintf(&jb, "{\"v\": %s, \"inner\": {\"w\": %s}}", jstr(v), jstr(w))
		}
	}
	// nested dynamic blocks (nested.go), the same fragment in both syntaxes
	var frag *fragBody
	if withDyn && r.Chance(0.42) {
		frag = dynFragment(r, feat)
		feat["body:nested-dynamic-fragment"]++
		for _, s := range frag.stats {
			jb.WriteString(", " + s.body.jsonBody(r, arrayForms))
		}
	}
	jb.WriteString("]")
	if withDyn {
		fe := r.Pick("xs[*].name", "ys[*].name", "ys.*.id", "one[*].name", "emp[*].name", "st[*]", "tup[*].name", "ys[*].tags")
		k := e()
		inner := r.Pick("dblk.value", "dblk.value[*]", "[dblk.key, dblk.value]", "yield(dblk.value)")
		fmt.Fprintf(&nb, "dynamic \"dblk\" {\n  for_each = %s\n  content {\n    v = %s\n    k = %s\n  }\n}\n", fe, inner, k)
		fragDyn := ""
		if frag != nil {
			var nf strings.Builder
			frag.native(&nf, "")
			nb.WriteString(nf.String())
			var ds []string
			for _, d := range frag.dyns {
				ds = append(ds, d.json(r, arrayForms))
			}
			fragDyn = "\"blk\": [" + strings.Join(ds, ", ") + "]"
		}
		if arrayForms {
			fmt.Fprintf(&jb, "}, {\"dynamic\": [{}, {\"dblk\": [[{\"for_each\": %s}, {\"content\": [[{\"v\": %s}, {\"k\": %s}]]}]]}", jstr(fe), jstr(inner), jstr(k))
			if fragDyn != "" {
				jb.WriteString(", {" + fragDyn + "}")
			}
			jb.WriteString("]")
		} else {
			fmt.Fprintf(&jb, ", \"dynamic\": {\"dblk\": {\"for_each\": %s, \"content\": {\"v\": %s, \"k\": %s}}", jstr(fe), jstr(inner), jstr(k))
			if fragDyn != "" {
				jb.WriteString(", " + fragDyn)
			}
			jb.WriteString("}")
		}
		feat["body:dynamic-block"]++
		if frag == nil && r.Chance(0.3) {
			// a dynamic block nested in a static block, iterating over a splat of the outer iterator
			fmt.Fprintf(&nb, "dynamic \"blk\" {\n  for_each = ys\n  iterator = it\n  content {\n    v = it.value.tags[*]\n    dynamic \"inner\" {\n      for_each = it.value.nested[*].v\n      content {\n        w = [inner.value, it.value.tags[*]]\n      }\n    }\n  }\n}\n")
			feat["body:nested-dynamic"]++
		}
	}
	jb.WriteString("}")
	if arrayForms {
		jb.WriteString("]")
	}
	return bodyTexts{native: nb.String(), json: jb.String(), dyn: withDyn}, feat
}
