package main

// C17 — A parsed configuration can be evaluated concurrently.
//
// What this harness does with the REAL code (built with -tags verif):
//
//   - parses a pool of expressions and bodies rich in splat expressions (hand
//     corpus, grammar-directed generator, mutated stream; native syntax, JSON
//     syntax, dynamic-block expansion) ONCE, then
//   - runs G goroutines (2..16), each with its OWN *hcl.EvalContext (children
//     of shared parents allowed, variables different per goroutine), that use
//     the SAME parsed objects at the same time: Expression.Value/Variables and
//     the static-analysis helpers, Body.Content/PartialContent,
//     dynblock.Expand, hcldec.Decode/Variables;
//   - DIRECT ORACLE: every result (value via hv.DumpVal, diagnostics) must
//     equal the result of the same call made alone
//     (Failure kinds "concurrent-result-differs", "panic");
//   - FIRST-USE discipline (cold.go): the solo reference results come from a
//     SEPARATE parse of the same source; the goroutines, released together by
//     a barrier, work on a tree nothing has used since the parser returned it
//     (plus further rounds, each on its own fresh parse), so that state a
//     node initialises lazily on its first use is initialised concurrently;
//     JSON configurations in every encoding form (bodies / label levels as
//     arrays of objects, arrays of bodies, nested, wide) with content
//     extraction, hcldec, gohcl and dynblock calls (kind json-forms);
//   - records, through the hook in hclsyntax/anon_hook_verif.go, every critical
//     section of every AnonSymbolExpr (events are taken while valuesLock is
//     held, so their order is the lock order), replays each trace in Go
//     (Failure kind "trace-illegal") and emits it as a Coq case for
//     Conc/AnonSymCheck.v (check_trace_cases), which replays it on the model.
//
// Sub-command c17race runs the same workload in a child process built with the
// race detector and reports "WARNING: DATA RACE" as Failure kind "data-race".
//
// NOT covered by the model side: data races in the sense of the Go memory
// model are runtime behaviour the Gallina model cannot exhibit; the race
// detector run is supporting evidence only (it sees the schedules that
// happened, not all schedules).

import (
	"fmt"
	"os"
	"path/filepath"
	"runtime"
	"sort"
	"strings"
	"sync"

	"github.com/hashicorp/hcl/v2"
	"github.com/hashicorp/hcl/v2/ext/dynblock"
	"github.com/hashicorp/hcl/v2/hcldec"
	"github.com/hashicorp/hcl/v2/hclsyntax"
	hcljson "github.com/hashicorp/hcl/v2/json"
	"github.com/zclconf/go-cty/cty"
	"hclverif/hv"
)

func main() {
	hv.Main(map[string]func(*hv.RunCfg) error{"c17": runC17, "c17race": runC17Race})
}

// ---- items: things parsed once and shared ----------------------------------------

type opFn struct {
	name string
	run  func(ctx *hcl.EvalContext) string
}

type item struct {
	kind string
	src  string
	ops  []opFn
	feat map[string]int
	// fresh parses src again and returns the same calls on the NEW tree (nil when
	// that fails): the concurrent phases run on trees nothing has used before,
	// the solo reference results come from a different parse (cold.go)
	fresh func() []opFn
}

func dumpDiags(diags hcl.Diagnostics) string {
	if len(diags) == 0 {
		return "diags=0"
	}
	parts := make([]string, len(diags))
	for i, d := range diags {
		subj := ""
		if d.Subject != nil {
			subj = d.Subject.String()
		}
		parts[i] = fmt.Sprintf("%d:%s@%s", d.Severity, d.Summary, subj)
	}
	sort.Strings(parts)
	return fmt.Sprintf("diags=%d[%s]", len(diags), strings.Join(parts, ";"))
}

func dumpTraversals(ts []hcl.Traversal) string {
	parts := make([]string, len(ts))
	for i, t := range ts {
		parts[i] = hv.DumpTraversal(t)
	}
	return "vars[" + strings.Join(parts, " | ") + "]"
}

func dumpTraversalsSorted(ts []hcl.Traversal) string {
	parts := make([]string, len(ts))
	for i, t := range ts {
		parts[i] = hv.DumpTraversal(t)
	}
	sort.Strings(parts)
	return "vars{" + strings.Join(parts, " | ") + "}"
}

func exprOps(e hcl.Expression) []opFn {
	return []opFn{
		{"value", func(ctx *hcl.EvalContext) string {
			v, d := e.Value(ctx)
			return hv.DumpVal(v) + " " + dumpDiags(d)
		}},
		{"variables", func(ctx *hcl.EvalContext) string { return dumpTraversals(e.Variables()) }},
		{"static", func(ctx *hcl.EvalContext) string {
			var sb strings.Builder
			l, d := hcl.ExprList(e)
			fmt.Fprintf(&sb, "list=%d %s;", len(l), dumpDiags(d))
			m, d := hcl.ExprMap(e)
			fmt.Fprintf(&sb, "map=%d %s;", len(m), dumpDiags(d))
			t, d := hcl.AbsTraversalForExpr(e)
			fmt.Fprintf(&sb, "abs=%s %s;", hv.DumpTraversal(t), dumpDiags(d))
			_, d = hcl.ExprCall(e)
			fmt.Fprintf(&sb, "call %s", dumpDiags(d))
			return sb.String()
		}},
		{"value", func(ctx *hcl.EvalContext) string {
			v, d := e.Value(ctx)
			return hv.DumpVal(v) + " " + dumpDiags(d)
		}},
	}
}

var innerSchema = &hcl.BodySchema{Attributes: []hcl.AttributeSchema{{Name: "w"}}}
var blkSchema = &hcl.BodySchema{
	Attributes: []hcl.AttributeSchema{{Name: "v"}},
	Blocks:     []hcl.BlockHeaderSchema{{Type: "inner"}},
}
var topSchema = &hcl.BodySchema{
	Attributes: []hcl.AttributeSchema{{Name: "name", Required: true}, {Name: "first"}},
	Blocks:     []hcl.BlockHeaderSchema{{Type: "blk"}, {Type: "dblk"}},
}
var partialSchema = &hcl.BodySchema{
	Attributes: []hcl.AttributeSchema{{Name: "first"}},
	Blocks:     []hcl.BlockHeaderSchema{{Type: "blk"}},
}

var decSpec = hcldec.ObjectSpec{
	"name":  &hcldec.AttrSpec{Name: "name", Type: cty.DynamicPseudoType},
	"first": &hcldec.AttrSpec{Name: "first", Type: cty.DynamicPseudoType},
	"blks": &hcldec.BlockTupleSpec{TypeName: "blk", Nested: hcldec.ObjectSpec{
		"v": &hcldec.AttrSpec{Name: "v", Type: cty.DynamicPseudoType},
		"inner": &hcldec.BlockTupleSpec{TypeName: "inner", Nested: hcldec.ObjectSpec{
			"w": &hcldec.AttrSpec{Name: "w", Type: cty.DynamicPseudoType},
		}},
	}},
	"dblks": &hcldec.BlockTupleSpec{TypeName: "dblk", Nested: hcldec.ObjectSpec{
		"v": &hcldec.AttrSpec{Name: "v", Type: cty.DynamicPseudoType},
		"k": &hcldec.AttrSpec{Name: "k", Type: cty.DynamicPseudoType},
	}},
}

func dumpContent(sb *strings.Builder, c *hcl.BodyContent, ctx *hcl.EvalContext, depth int) {
	if c == nil {
		sb.WriteString("(nil-content)")
		return
	}
	names := hv.SortedKeys(c.Attributes)
	for _, n := range names {
		v, d := c.Attributes[n].Expr.Value(ctx)
		fmt.Fprintf(sb, "(attr %s %s %s)", n, hv.DumpVal(v), dumpDiags(d))
	}
	for _, b := range c.Blocks {
		fmt.Fprintf(sb, "(block %s %v", b.Type, b.Labels)
		if depth > 0 {
			schema := blkSchema
			if b.Type == "inner" {
				schema = innerSchema
			} else if b.Type == "dblk" {
				schema = &hcl.BodySchema{Attributes: []hcl.AttributeSchema{{Name: "v"}, {Name: "k"}}}
			}
			cc, d := b.Body.Content(schema)
			sb.WriteString(" " + dumpDiags(d) + " ")
			dumpContent(sb, cc, ctx, depth-1)
		}
		sb.WriteString(")")
	}
}

func bodyOps(shared hcl.Body, dyn bool) []opFn {
	get := func(ctx *hcl.EvalContext) hcl.Body {
		if dyn {
			return dynblock.Expand(shared, ctx)
		}
		return shared
	}
	return []opFn{
		{"content", func(ctx *hcl.EvalContext) string {
			c, d := get(ctx).Content(topSchema)
			var sb strings.Builder
			sb.WriteString(dumpDiags(d) + " ")
			dumpContent(&sb, c, ctx, 2)
			return sb.String()
		}},
		{"partial", func(ctx *hcl.EvalContext) string {
			c, remain, d := get(ctx).PartialContent(partialSchema)
			var sb strings.Builder
			sb.WriteString(dumpDiags(d) + " ")
			dumpContent(&sb, c, ctx, 2)
			// the remainder must still hold what was not asked for
			c2, _, d2 := remain.PartialContent(&hcl.BodySchema{Attributes: []hcl.AttributeSchema{{Name: "name"}, {Name: "first"}}, Blocks: []hcl.BlockHeaderSchema{{Type: "blk"}, {Type: "dblk"}}})
			sb.WriteString(" remain " + dumpDiags(d2) + " ")
			dumpContent(&sb, c2, ctx, 1)
			return sb.String()
		}},
		{"decode", func(ctx *hcl.EvalContext) string {
			v, d := hcldec.Decode(get(ctx), decSpec, ctx)
			return hv.DumpVal(v) + " " + dumpDiags(d)
		}},
		{"decode-variables", func(ctx *hcl.EvalContext) string {
			// hcldec walks ObjectSpec (a Go map): the order of the result is
			// left to map iteration, so it is canonicalised away (DESIGN 2.4)
			if dyn {
				return dumpTraversalsSorted(dynblock.VariablesHCLDec(shared, decSpec))
			}
			return dumpTraversalsSorted(hcldec.Variables(shared, decSpec))
		}},
		{"decode", func(ctx *hcl.EvalContext) string {
			v, d := hcldec.Decode(get(ctx), decSpec, ctx)
			return hv.DumpVal(v) + " " + dumpDiags(d)
		}},
	}
}

// mkItem parses src according to kind. Returns nil when nothing usable came out.
func mkItem(kind, src string) *item {
	it := mkItemOnce(kind, src)
	if it != nil {
		it.fresh = func() []opFn {
			if again := mkItemOnce(kind, src); again != nil {
				return again.ops
			}
			return nil
		}
	}
	return it
}

func mkItemOnce(kind, src string) *item {
	it := &item{kind: kind, src: src, feat: map[string]int{}}
	switch kind {
	case "expr-native":
		e, d := hclsyntax.ParseExpression([]byte(src), "e.hcl", hcl.InitialPos)
		if e == nil {
			return nil
		}
		if d.HasErrors() {
			it.feat["parse:errors"]++
		}
		it.ops = exprOps(e)
	case "expr-template":
		e, d := hclsyntax.ParseTemplate([]byte(src), "t.tmpl", hcl.InitialPos)
		if e == nil {
			return nil
		}
		if d.HasErrors() {
			it.feat["parse:errors"]++
		}
		it.ops = exprOps(e)
	case "expr-json":
		e, d := hcljson.ParseExpression([]byte(src), "e.json")
		if e == nil || d.HasErrors() {
			return nil
		}
		it.ops = exprOps(e)
	case "body-native", "body-native-dyn":
		f, d := hclsyntax.ParseConfig([]byte(src), "b.hcl", hcl.InitialPos)
		if f == nil || f.Body == nil {
			return nil
		}
		if d.HasErrors() {
			it.feat["parse:errors"]++
		}
		it.ops = bodyOps(f.Body, kind == "body-native-dyn")
	case "body-json", "body-json-dyn":
		f, d := hcljson.Parse([]byte(src), "b.json")
		if f == nil || f.Body == nil || d.HasErrors() {
			return nil
		}
		it.ops = bodyOps(f.Body, kind == "body-json-dyn")
	default:
		return nil
	}
	return it
}

// ---- one concurrent round ---------------------------------------------------------

type roundCfg struct {
	G        int
	reps     int
	topo     string
	sameVars bool
	procs    int
	yield    int
}

func (rc roundCfg) String() string {
	return fmt.Sprintf("G=%d reps=%d topo=%s samevars=%v gomaxprocs=%d yield=%d", rc.G, rc.reps, rc.topo, rc.sameVars, rc.procs, rc.yield)
}

func safeRun(f func(*hcl.EvalContext) string, ctx *hcl.EvalContext) (out string) {
	defer func() {
		if p := recover(); p != nil {
			out = fmt.Sprintf("PANIC: %v", p)
		}
	}()
	return f(ctx)
}

type rawEv struct {
	tid, op, ctx, parent int
	dig                  uint64
}

// replayTrace is the Go-side check of one symbol's trace (independent of Coq):
// ownership of contexts, every Get sees the last Set of its context (0 when
// absent), and the table is empty at the end.
func replayTrace(evs []rawEv) string {
	table := map[int]uint64{}
	owner := map[int]int{}
	for i, e := range evs {
		if e.ctx <= 0 {
			return fmt.Sprintf("event %d: no context id", i)
		}
		if o, ok := owner[e.ctx]; ok && o != e.tid {
			return fmt.Sprintf("event %d: context %d used by goroutines %d and %d", i, e.ctx, o, e.tid)
		}
		owner[e.ctx] = e.tid
		switch e.op {
		case 0:
			table[e.ctx] = e.dig
		case 1:
			if want := table[e.ctx]; want != e.dig {
				return fmt.Sprintf("event %d: goroutine %d read digest %d from context %d, the table holds %d", i, e.tid, e.dig, e.ctx, want)
			}
		case 2:
			delete(table, e.ctx)
		}
	}
	if len(table) != 0 {
		return fmt.Sprintf("%d entries left in the table at the end of the round", len(table))
	}
	return ""
}

func interleaved(evs []rawEv) bool {
	open := map[int]int{} // ctx -> tid, for contexts that hold a value
	for _, e := range evs {
		for _, t := range open {
			if t != e.tid {
				return true
			}
		}
		switch e.op {
		case 0:
			open[e.ctx] = e.tid
		case 2:
			delete(open, e.ctx)
		}
	}
	return false
}

// coqCase renders a trace as a Coq term of type list raw_event
// (Conc/AnonSymCheck.v). The 62-bit value hashes are renamed injectively, per
// trace, to 1, 2, 3, ... in order of first occurrence (0 stays 0 = "absent"):
// the checker only compares digests for equality, and small numerals keep the
// case files cheap to type-check.
func coqCase(evs []rawEv) string {
	ids := map[uint64]int{0: 0}
	parts := make([]string, len(evs))
	for i, e := range evs {
		d, ok := ids[e.dig]
		if !ok {
			d = len(ids)
			ids[e.dig] = d
		}
		parts[i] = fmt.Sprintf("(%d,%d,%d,%d)", e.tid, e.op, e.ctx, d)
	}
	return "[" + strings.Join(parts, "; ") + "]"
}

// readable form for failure reports
func showTrace(evs []rawEv) string {
	parts := make([]string, len(evs))
	for i, e := range evs {
		parts[i] = fmt.Sprintf("(g%d %s c%d %d)", e.tid, [...]string{"set", "get", "clear"}[e.op%3], e.ctx, e.dig)
	}
	return strings.Join(parts, " ")
}

type runner struct {
	rep   *hv.Report
	cf    *hv.CaseFile
	r     *hv.Rng
	round int
}

// collect turns the recorder's events into per-symbol traces. gids maps
// runtime goroutine ids to harness thread ids.
func (rn *runner) collect(it *item, rc roundCfg, phase string, gids map[int64]int, maxSingles int) {
	evs := hclsyntax.VerifAnonEvents()
	bySym := map[int][]rawEv{}
	var syms []int
	for _, e := range evs {
		tid, ok := gids[e.Goroutine]
		if !ok {
			rn.rep.Fail(hv.Failure{Kind: "trace-illegal", Detail: fmt.Sprintf("event from unknown goroutine %d", e.Goroutine), Input: it.input(rc)})
			tid = 1000 + int(e.Goroutine)
		}
		if _, seen := bySym[e.Sym]; !seen {
			syms = append(syms, e.Sym)
		}
		bySym[e.Sym] = append(bySym[e.Sym], rawEv{tid: tid, op: e.Op, ctx: e.Ctx, parent: e.Parent, dig: e.Digest})
		switch e.Op {
		case 0:
			rn.rep.Hist("event:set")
		case 1:
			if e.Digest == 0 {
				rn.rep.Hist("event:get-absent")
			} else {
				rn.rep.Hist("event:get")
			}
		case 2:
			rn.rep.Hist("event:clear")
		}
	}
	singles := 0
	for _, s := range syms {
		tr := bySym[s]
		if msg := replayTrace(tr); msg != "" {
			rn.rep.Fail(hv.Failure{Kind: "trace-illegal", Detail: phase + ": " + msg + "; trace " + trunc(showTrace(tr), 4000), Input: it.input(rc)})
			rn.rep.Hist("oracle-fail:trace-illegal")
		}
		tids := map[int]bool{}
		ctxs := map[int]bool{}
		for _, e := range tr {
			tids[e.tid] = true
			ctxs[e.ctx] = true
		}
		if len(tids) < 2 {
			singles++
			if singles > maxSingles {
				rn.rep.Hist("trace:single-goroutine-not-emitted")
				continue
			}
		}
		if len(tr) > 400 && !rn.r.Chance(0.2) {
			// every trace is replayed in Go above; the long ones are only
			// sampled for the Coq replay (case files are type-checked terms)
			rn.rep.Hist("trace:long-not-emitted")
			continue
		}
		il := interleaved(tr)
		switch {
		case phase == "solo":
			rn.rep.Hist("case:solo-phase")
		case il:
			rn.rep.Hist("case:concurrent-interleaved")
		case len(tids) >= 2:
			rn.rep.Hist("case:concurrent-serial")
		default:
			rn.rep.Hist("case:concurrent-single-goroutine")
		}
		if len(ctxs) > len(tids) {
			rn.rep.Hist("trace:has-extra-contexts(probe/for/fresh)")
		}
		rn.rep.Histogram["trace:events"] += len(tr)
		cs := coqCase(tr)
		rn.cf.Add(cs)
		rn.rep.Idx(fmt.Sprintf("round %d %s sym %d | %s", rn.round, phase, s, it.input(rc)))
		rn.rep.Count(cs, il)
	}
}

func (it *item) input(rc roundCfg) string {
	return fmt.Sprintf("#c17 kind=%s %s\n%s", it.kind, rc.String(), it.src)
}

func (rn *runner) runRound(it *item, rc roundCfg) {
	rn.round++
	rep := rn.rep
	rep.Hist("item:" + it.kind)
	rep.Hist("topo:" + rc.topo)
	rep.Hist(fmt.Sprintf("G:%02d", rc.G))
	rep.Hist(fmt.Sprintf("gomaxprocs:%d", rc.procs))
	for k, v := range it.feat {
		rep.Histogram["feat:"+k] += v
	}
	topo := rc.topo
	if topo == "nilctx" && !strings.HasPrefix(it.kind, "expr-") {
		topo = "child"
	}

	shared := &hcl.EvalContext{Functions: mkFuncs(), Variables: map[string]cty.Value{"sh": cty.StringVal("shared")}}
	sharedMid := shared.NewChild()
	ctxs := make([]*hcl.EvalContext, rc.G)
	for g := range ctxs {
		salt := g + 1
		if rc.sameVars {
			salt = 3
		}
		switch topo {
		case "nilctx":
			ctxs[g] = nil
		case "fresh":
			ctxs[g] = mkCtx("child", shared, sharedMid, salt)
		default:
			ctxs[g] = mkCtx(topo, shared, sharedMid, salt)
		}
	}
	evalCtx := func(g int) *hcl.EvalContext {
		if topo == "fresh" {
			return ctxs[g].NewChild()
		}
		return ctxs[g]
	}

	// solo results (twice, to detect results that are not a function of the input)
	hclsyntax.VerifAnonSetYield(0)
	traceSolo := !raceEnabled && rn.r.Chance(0.25)
	if traceSolo {
		hclsyntax.VerifAnonTrace(true)
	}
	solo := make([][]string, rc.G)
	stable := make([][]bool, rc.G)
	for g := 0; g < rc.G; g++ {
		solo[g] = make([]string, len(it.ops))
		stable[g] = make([]bool, len(it.ops))
		for k, op := range it.ops {
			a := safeRun(op.run, evalCtx(g))
			b := safeRun(op.run, evalCtx(g))
			solo[g][k] = a
			stable[g][k] = a == b
			if a != b {
				rep.Soft++
				rep.Hist("soft:solo-result-not-deterministic:" + op.name)
			}
			if strings.HasPrefix(a, "PANIC:") {
				rep.Fail(hv.Failure{Kind: "panic", Detail: "solo " + op.name + ": " + a, Input: it.input(rc)})
				rep.Hist("oracle-fail:panic")
			}
			if g == 0 {
				switch {
				case !strings.Contains(a, "diags="):
					rep.Hist("result:" + op.name)
				case !strings.Contains(strings.ReplaceAll(a, "diags=0", ""), "diags="):
					rep.Hist("result:" + op.name + ":clean")
				default:
					rep.Hist("result:" + op.name + ":with-diagnostics")
				}
				if strings.Contains(a, "(unk ") {
					rep.Hist("result:contains-unknown")
				}
				if strings.Contains(a, "(mark ") {
					rep.Hist("result:contains-marked")
				}
			}
		}
	}
	if traceSolo {
		hclsyntax.VerifAnonTrace(false)
		rn.collect(it, rc, "solo", map[int64]int{hclsyntax.VerifGoroutineID(): 0}, 1)
	}
	if rn.round <= 6 || rn.r.Chance(0.01) {
		rep.Sample(map[string]string{"input": it.input(rc), "solo_result_goroutine_0": trunc(strings.Join(solo[0], " || "), 400)})
	}

	// concurrent phase
	old := runtime.GOMAXPROCS(rc.procs)
	defer runtime.GOMAXPROCS(old)
	hclsyntax.VerifAnonSetYield(rc.yield)
	// Under the race detector most rounds run WITHOUT the recorder: its mutex
	// orders the critical sections of different goroutines (happens-before),
	// which could hide a race from the detector.
	traced := !raceEnabled || rn.r.Chance(0.25)
	if traced {
		hclsyntax.VerifAnonTrace(true)
	} else {
		rep.Hist("race-build:untraced-round")
	}
	type diff struct {
		g, rep, op int
		got        string
	}
	var mu sync.Mutex
	var diffs []diff
	gidOf := make([]int64, rc.G)
	// FIRST-USE discipline (cold.go): the goroutines work on a tree parsed just
	// now, which nothing has used yet; solo[][] above came from another parse of
	// the same source. A share of the rounds keeps the warmed-up tree.
	ops := it.ops
	if it.fresh != nil && (raceEnabled || rn.r.Chance(0.85)) {
		if f := it.fresh(); f != nil && len(f) == len(it.ops) {
			ops = f
			rep.Hist("phase:concurrent-on-fresh-parse")
		}
	} else {
		rep.Hist("phase:concurrent-on-warmed-up-tree")
	}
	start := newBarrier(rc.G)
	var wg sync.WaitGroup
	seeds := make([]uint64, rc.G)
	for g := range seeds {
		seeds[g] = rn.r.Uint64()
	}
	for g := 0; g < rc.G; g++ {
		wg.Add(1)
		go func(g int) {
			defer wg.Done()
			gidOf[g] = hclsyntax.VerifGoroutineID()
			lr := hv.NewRng(seeds[g], 1700+uint64(g))
			start.arrive()
			for rp := 0; rp < rc.reps; rp++ {
				for k, op := range ops {
					if lr.Chance(0.3) {
						runtime.Gosched()
					}
					got := safeRun(op.run, evalCtx(g))
					if got != solo[g][k] && stable[g][k] {
						mu.Lock()
						diffs = append(diffs, diff{g, rp, k, got})
						mu.Unlock()
					}
				}
			}
		}(g)
	}
	start.release()
	wg.Wait()
	hclsyntax.VerifAnonTrace(false)
	// more first-use rounds, each on its own fresh parse (not traced)
	if it.fresh != nil {
		names := make([]string, len(it.ops))
		for k, op := range it.ops {
			names[k] = op.name
		}
		nb := 2
		if raceEnabled {
			nb = 0 // the concurrent phase above already ran on a fresh parse; the detector needs no repetition
		}
		rn.coldBursts(it.fresh, nb, rc.G, evalCtx, solo, stable, names, it.input(rc))
	}
	hclsyntax.VerifAnonSetYield(0)

	rep.Histogram["calls:concurrent"] += rc.G * rc.reps * len(it.ops)
	if len(diffs) == 0 {
		rep.Hist("oracle-ok")
	}
	for i, d := range diffs {
		kind := "concurrent-result-differs"
		if strings.HasPrefix(d.got, "PANIC:") {
			kind = "panic"
		}
		rep.Hist("oracle-fail:" + kind)
		if i < 3 {
			rep.Fail(hv.Failure{Kind: kind,
				Detail: fmt.Sprintf("goroutine %d rep %d op %s: concurrent result %s, alone %s", d.g, d.rep, it.ops[d.op].name, trunc(d.got, 600), trunc(solo[d.g][d.op], 600)),
				Input:  it.input(rc)})
		}
	}
	if traced {
		gids := map[int64]int{}
		for g, id := range gidOf {
			gids[id] = g + 1
		}
		rn.collect(it, rc, "concurrent", gids, 2)
	}
}

func trunc(s string, n int) string {
	if len(s) > n {
		return s[:n] + "..."
	}
	return s
}

func (rn *runner) randomRound() roundCfg {
	r := rn.r
	procsChoices := []int{1, 2, 4, runtime.NumCPU(), runtime.NumCPU()}
	return roundCfg{
		G:        2 + r.Intn(15),
		reps:     1 + r.Small(3),
		topo:     topologies[r.Intn(len(topologies))],
		sameVars: r.Chance(0.25),
		procs:    procsChoices[r.Intn(len(procsChoices))],
		yield:    []int{0, 50, 200, 500}[r.Intn(4)],
	}
}

// coldRoundCfg: a round configuration for the first-use workloads (at least 4
// goroutines: the point is that several make the FIRST call at once).
func (rn *runner) coldRoundCfg() roundCfg {
	rc := rn.randomRound()
	if rc.G < 4 {
		rc.G += 4
	}
	if rc.topo == "nilctx" {
		rc.topo = "child"
	}
	return rc
}

// parseReplay reads "#c17 kind=K ..." + source as written by item.input.
func parseReplay(b []byte) (kind, src string) {
	s := string(b)
	kind = "expr-native"
	if strings.HasPrefix(s, "#c17 ") {
		nl := strings.IndexByte(s, '\n')
		if nl < 0 {
			nl = len(s) - 1
		}
		for _, f := range strings.Fields(s[:nl]) {
			if strings.HasPrefix(f, "kind=") {
				kind = strings.TrimPrefix(f, "kind=")
			}
		}
		s = s[nl+1:]
	}
	return kind, s
}

// runC17 runs the workload in a child process (same binary, C17_CHILD=1): a
// broken lock discipline can end in "fatal error: concurrent map writes",
// which recover() cannot catch; the parent then still writes a report with a
// Failure of kind "panic" instead of leaving bin/check without evidence.
func runC17(cfg *hv.RunCfg) error {
	if os.Getenv("C17_CHILD") != "" {
		return runC17Workload(cfg)
	}
	exit, log, err := runChild("", cfg, nil)
	if err != nil {
		return err
	}
	if exit == 0 {
		return nil
	}
	return writeCrashReport(cfg, exit, log)
}

func runC17Workload(cfg *hv.RunCfg) error {
	rep := hv.NewReport("C17", cfg.Seed)
	rep.Rule = "one case = the complete, lock-ordered trace of ONE AnonSymbolExpr during one round in which G goroutines (2..16, own contexts, shared parents) evaluate the same parsed object concurrently (plus some single-goroutine traces of the preceding solo phase); items: hand corpus of splat expressions covering every path of SplatExpr.Value, grammar-directed splat expressions (attr/full/nested splats inside for, conditional, template, call, index key), a mutated stream, the same in JSON syntax, native/JSON bodies decoded with hcldec, dynamic-block expansion; non-trivial = some goroutine executed a critical section while another goroutine's value was in the table; distinct by SHA-256 of the trace"
	rep.Notes = append(rep.Notes,
		"every round also runs the direct oracle: each concurrent call's result equals the result of the same call made alone",
		"first-use discipline: the solo reference comes from a separate parse of the same source; the concurrent phases run on freshly parsed trees whose very first use is concurrent (goroutines released by a barrier), see histogram keys phase:*, first-use:*, forms:*",
		"NOT covered: Go memory-model data races cannot be exhibited by the Gallina model; see sub-command c17race (race detector, supporting evidence only)",
		fmt.Sprintf("race detector compiled in: %v", raceEnabled))
	rn := &runner{rep: rep, r: hv.NewRng(cfg.Seed, 17)}
	rn.cf = &hv.CaseFile{Dir: cfg.Out, Name: "c17cases",
		Imports: "From HclV Require Import Base.Prelude Conc.AnonSym Conc.AnonSymCheck.",
		Ctype:   "list raw_event", Checker: "check_trace_cases"}

	if cfg.Replay != "" {
		b, err := os.ReadFile(cfg.Replay)
		if err != nil {
			return err
		}
		kind, src := parseReplay(b)
		if kind == "json-forms" {
			// first-use workload: every round parses the source afresh
			w := formsWorkload(src, "", nil)
			if w.build() == nil {
				return fmt.Errorf("replay input does not parse as JSON configuration")
			}
			for i := 0; i < 20; i++ {
				rn.coldRounds(w, rn.coldRoundCfg(), 4*formsRounds(src))
			}
			names, err := rn.cf.Flush(150)
			if err != nil {
				return err
			}
			rep.CaseFiles = names
			return rep.Write(cfg.Out)
		}
		it := mkItem(kind, src)
		if it == nil {
			return fmt.Errorf("replay input does not parse as %s", kind)
		}
		for i := 0; i < 60; i++ {
			rn.runRound(it, rn.randomRound())
		}
	} else {
		// hand corpus first: each expression in native syntax, a few in JSON
		var corpus []string
		corpus = append(corpus, exprCorpus...)
		if extra, err := filepath.Glob("/verif/corpus/C17/*.hcl"); err == nil {
			sort.Strings(extra)
			for _, p := range extra {
				if b, err := os.ReadFile(p); err == nil {
					corpus = append(corpus, strings.TrimRight(string(b), "\n"))
				}
			}
		}
		for i, s := range corpus {
			if it := mkItem("expr-native", s); it != nil {
				rc := rn.randomRound()
				if i%3 == 0 {
					rc.topo = "child"
				}
				rn.runRound(it, rc)
			}
			if i%4 == 0 && !strings.Contains(s, "\n") {
				if it := mkItem("expr-json", jstr(s)); it != nil {
					rn.runRound(it, rn.randomRound())
				}
			}
		}
		for _, dyn := range []bool{false, true, true} {
			bt, feat := genBody(rn.r, dyn)
			kn, kj := "body-native", "body-json"
			if dyn {
				kn, kj = "body-native-dyn", "body-json-dyn"
			}
			for _, p := range [][2]string{{kn, bt.native}, {kj, bt.json}} {
				if it := mkItem(p[0], p[1]); it != nil {
					it.feat = feat
					rn.runRound(it, rn.randomRound())
				}
			}
		}
		// JSON encoding forms, first use concurrent (cold.go): hand corpus, then
		// generated ones (this part does not depend on -n: c17race runs it too)
		for _, s := range formsCorpus {
			rn.coldRounds(formsWorkload(s, "", map[string]int{"forms:hand-corpus": 1}), rn.coldRoundCfg(), 2*formsRounds(s))
		}
		for i := 0; i < 16; i++ {
			forceWide := 0
			if i < 2 {
				forceWide = i + 1 // one wide array-form body, one wide label array in every run
			}
			src, expect, feat := genJSONFormsW(rn.r, forceWide)
			rn.coldRounds(formsWorkload(src, expect, feat), rn.coldRoundCfg(), formsRounds(src))
		}
		// content extraction with shared schemas, on fresh and remaining bodies
		for _, base := range contentBases {
			rn.contentRound(base, rn.randomRound())
		}
		// one expanded body (one context) shared by all goroutines, splat in for_each
		for i := 0; i < 2; i++ {
			rc := rn.randomRound()
			if rc.G < 6 {
				rc.G = 6
			}
			rn.sharedForEachRound(rc)
		}
		// generated rounds
		for i := 0; i < cfg.N; i++ {
			var it *item
			var feat map[string]int
			k := rn.r.Intn(26)
			if k >= 23 {
				src, expect, feat := genJSONForms(rn.r)
				rn.coldRounds(formsWorkload(src, expect, feat), rn.coldRoundCfg(), formsRounds(src))
				continue
			}
			if k >= 20 {
				rn.contentRound(contentBases[rn.r.Intn(len(contentBases))], rn.randomRound())
				continue
			}
			switch {
			case k < 9:
				var s string
				s, feat = genExpr(rn.r)
				if rn.r.Chance(0.1) {
					s = hv.Mutate(rn.r, s)
					feat["mutated"]++
				}
				it = mkItem("expr-native", s)
			case k < 10:
				var s string
				s, feat = genExpr(rn.r)
				it = mkItem("expr-template", "pre ${join(\",\", ys[*].name)} %{ for x in "+s+" }[${length(ys[*].id)}]%{ endfor } post")
			case k < 12:
				var s string
				s, feat = genExpr(rn.r)
				if strings.Contains(s, "\n") {
					s = "ys[*].name"
				}
				if rn.r.Chance(0.3) {
					it = mkItem("expr-json", "["+jstr(s)+", {\"k\": "+jstr("xs[*].tags[*]")+"}]")
				} else {
					it = mkItem("expr-json", jstr(s))
				}
			case k < 15:
				var bt bodyTexts
				bt, feat = genBody(rn.r, false)
				if rn.r.Chance(0.6) {
					it = mkItem("body-native", bt.native)
				} else {
					it = mkItem("body-json", bt.json)
				}
			default:
				var bt bodyTexts
				bt, feat = genBody(rn.r, true)
				if rn.r.Chance(0.65) {
					it = mkItem("body-native-dyn", bt.native)
				} else {
					it = mkItem("body-json-dyn", bt.json)
				}
			}
			if it == nil {
				rep.Hist("item:unparseable-skipped")
				continue
			}
			for k, v := range feat {
				it.feat[k] += v
			}
			rn.runRound(it, rn.randomRound())
		}
	}
	names, err := rn.cf.Flush(150)
	if err != nil {
		return err
	}
	rep.CaseFiles = names
	return rep.Write(cfg.Out)
}
