package main

// c17race: the C17 workload under the Go race detector.
//
// The binary that bin/check builds is not a race build (bin/check exports
// CGO_ENABLED=0 and -race needs cgo), so this sub-command builds one itself:
//
//	cd <harness module> && CGO_ENABLED=1 go build -race -tags verif -o <out>/c17.race ./cmd/c17
//
// (works offline here; -race with CGO_ENABLED=0 fails with "-race requires
// cgo"), then runs `<out>/c17.race c17 -seed S -n N -out <out>` as a child
// process with GORACE=halt_on_error=0, reads the child's report.json and adds
// one Failure of kind "data-race" per distinct detector report ("WARNING: DATA
// RACE"), or of kind "panic" when the child died (e.g. "fatal error:
// concurrent map writes", which recover() cannot catch).
//
// The race detector only judges the schedules that actually happened: a clean
// run is supporting evidence, not a proof of race freedom.

import (
	"bytes"
	"encoding/json"
	"fmt"
	"os"
	"os/exec"
	"path/filepath"
	"regexp"
	"runtime"
	"strings"

	"hclverif/hv"
)

func harnessDir() string {
	if d := os.Getenv("VERIF_HARNESS_DIR"); d != "" {
		return d
	}
	// .../harness/cmd/c17/race.go -> .../harness
	if _, file, _, ok := runtime.Caller(0); ok && filepath.IsAbs(file) {
		d := filepath.Dir(filepath.Dir(filepath.Dir(file)))
		if _, err := os.Stat(filepath.Join(d, "go.mod")); err == nil {
			return d
		}
	}
	return "/verif/harness"
}

func childEnv(extra ...string) []string {
	var env []string
	for _, kv := range os.Environ() {
		if strings.HasPrefix(kv, "CGO_ENABLED=") || strings.HasPrefix(kv, "GORACE=") || strings.HasPrefix(kv, "GOSUMDB=") || strings.HasPrefix(kv, "GOTOOLCHAIN=") {
			continue
		}
		env = append(env, kv)
	}
	return append(env, extra...)
}

var frameRe = regexp.MustCompile(`(?m)^  (\S+)\(\)\n`)

// raceSignature: the first frames of the two conflicting accesses, a stable
// summary used as the Failure input (for matching known findings).
func raceSignature(block string) string {
	var fr []string
	for _, m := range frameRe.FindAllStringSubmatch(block, -1) {
		if strings.HasPrefix(m[1], "runtime.") || strings.HasPrefix(m[1], "sync.") || strings.HasPrefix(m[1], "internal/") {
			continue
		}
		fr = append(fr, m[1])
		if len(fr) == 4 {
			break
		}
	}
	return strings.Join(fr, " <- ")
}

// runChild runs the c17 workload in a child process (bin, or this binary when
// bin is empty) and returns its exit code and what it wrote to stderr.
func runChild(bin string, cfg *hv.RunCfg, env []string) (int, string, error) {
	if bin == "" {
		self, err := os.Executable()
		if err != nil {
			return 0, "", err
		}
		bin = self
	}
	abs, err := filepath.Abs(cfg.Out)
	if err != nil {
		return 0, "", err
	}
	args := []string{"c17", "-seed", fmt.Sprint(cfg.Seed), "-n", fmt.Sprint(cfg.N), "-out", abs, "-tier", cfg.Tier}
	if cfg.Replay != "" {
		args = append(args, "-replay", cfg.Replay)
	}
	os.Remove(filepath.Join(abs, "report.json"))
	cmd := exec.Command(bin, args...)
	cmd.Env = childEnv(append([]string{"C17_CHILD=1"}, env...)...)
	var stderr bytes.Buffer
	cmd.Stderr = &stderr
	cmd.Stdout = os.Stdout
	if runErr := cmd.Run(); runErr != nil {
		if ee, ok := runErr.(*exec.ExitError); ok {
			return ee.ExitCode(), stderr.String(), nil
		}
		return 0, "", runErr
	}
	os.Stderr.Write(stderr.Bytes())
	return 0, stderr.String(), nil
}

// writeCrashReport: the child died (fatal error, os.Exit != 0) without a usable report.
func writeCrashReport(cfg *hv.RunCfg, exit int, log string) error {
	rep := hv.NewReport("C17", cfg.Seed)
	tail := log
	if i := strings.Index(tail, "fatal error:"); i >= 0 {
		tail = tail[i:]
	}
	rep.Notes = append(rep.Notes, fmt.Sprintf("workload process exited with code %d before writing its report", exit))
	rep.Fail(hv.Failure{Kind: "panic", Detail: fmt.Sprintf("workload process exited with code %d: %s", exit, trunc(tail, 3000)), Input: "c17 workload process"})
	rep.Hist("oracle-fail:panic")
	return rep.Write(cfg.Out)
}

func runC17Race(cfg *hv.RunCfg) error {
	abs, err := filepath.Abs(cfg.Out)
	if err != nil {
		return err
	}
	bin, err := os.Executable()
	if err != nil {
		return err
	}
	buildNote := "the running harness binary is itself a -race build"
	if !raceEnabled {
		bin = filepath.Join(abs, "c17.race")
		cmd := exec.Command("go", "build", "-race", "-tags", "verif", "-o", bin, "./cmd/c17")
		cmd.Dir = harnessDir()
		cmd.Env = childEnv("CGO_ENABLED=1", "GOFLAGS=-mod=mod", "GOPROXY=off")
		out, err := cmd.CombinedOutput()
		if err != nil {
			return fmt.Errorf("go build -race failed in %s: %v\n%s", cmd.Dir, err, out)
		}
		buildNote = "built " + bin + " with CGO_ENABLED=1 go build -race -tags verif in " + cmd.Dir
	}
	exit, log, err := runChild(bin, cfg, []string{"GORACE=halt_on_error=0 exitcode=66"})
	if err != nil {
		return err
	}
	os.Remove(filepath.Join(abs, "c17.race"))

	rep := hv.NewReport("C17", cfg.Seed)
	rpt := filepath.Join(abs, "report.json")
	if b, err := os.ReadFile(rpt); err == nil {
		if err := json.Unmarshal(b, rep); err != nil {
			return fmt.Errorf("child report unreadable: %v", err)
		}
		if rep.Histogram == nil {
			rep.Histogram = map[string]int{}
		}
	}
	rep.Notes = append(rep.Notes, "c17race: "+buildNote, fmt.Sprintf("c17race: child exit code %d", exit),
		"the race detector judges only the schedules that happened: supporting evidence, not a proof")
	os.WriteFile(filepath.Join(abs, "race-stderr.txt"), []byte(log), 0o644)
	blocks := strings.Split(log, "WARNING: DATA RACE")
	seen := map[string]bool{}
	for _, b := range blocks[1:] {
		if end := strings.Index(b, "\n==================\n"); end >= 0 {
			b = b[:end]
		}
		sig := raceSignature(b)
		rep.Hist("race-detector:report")
		if seen[sig] {
			continue
		}
		seen[sig] = true
		rep.Fail(hv.Failure{Kind: "data-race", Detail: "WARNING: DATA RACE" + trunc(b, 3000), Input: sig})
	}
	if len(blocks) == 1 {
		rep.Hist("race-detector:clean")
	}
	if exit != 0 && exit != 66 {
		tail := log
		if i := strings.Index(tail, "fatal error:"); i >= 0 {
			tail = tail[i:]
		}
		rep.Fail(hv.Failure{Kind: "panic", Detail: fmt.Sprintf("race-build child exited with code %d: %s", exit, trunc(tail, 3000)), Input: "c17race child process"})
	}
	if exit == 66 && len(blocks) == 1 {
		rep.Fail(hv.Failure{Kind: "data-race", Detail: "child exited with the race detector's exit code but no report was captured: " + trunc(log, 2000), Input: "c17race child process"})
	}
	return rep.Write(abs)
}
