package main

// C17, FIRST-USE part: lazily initialised state in a parsed tree.
//
// A cache that a shared node fills in place on its first use (memoised
// flattening, lazily built maps, once-initialisation without sync) makes the
// FIRST concurrent use of a tree differ from solo use, while every later
// (warm) use looks fine. The workloads of c17.go / content.go used to make
// every call alone first ON THE SAME TREE (to obtain the reference result),
// which warms every such cache before the goroutines start. This file holds
//
//   - the "cold" discipline used by all workloads: the reference results come
//     from SEPARATE parses of the same source, and each concurrent round runs
//     on a tree that nothing has touched since the parser returned it; the
//     goroutines are released together by a barrier (all arrived, then one
//     atomic flag), many fresh parses per item (coldRounds, coldBursts);
//   - a generator of JSON configurations in EVERY encoding form the JSON
//     syntax has for bodies and block labels (jsonForms): body as an object
//     or as an array of >= 2 objects (also empty ones, also the same block
//     type split over several objects), label levels as objects or as arrays
//     of objects, block instances as a single object or as arrays of bodies,
//     array-form bodies inside instance arrays, two nesting levels, dynamic
//     blocks, and "wide" arrays (40..300 objects), with the ops: content
//     extraction (deep), partial content + remainder, JustAttributes,
//     hcldec.Decode / Variables, gohcl.DecodeBody, dynblock.Expand + content;
//   - an INDEPENDENT expectation for the deep content of valid generated
//     configurations, computed from the abstract configuration by the
//     renderer (not by json.body): the solo reference itself is checked
//     against it (Failure kind "content-differs-from-expectation").
//
// Failure kinds stay: "concurrent-result-differs", "panic" (and "data-race"
// from c17race, which runs this workload too).

import (
	"encoding/json"
	"fmt"
	"os"
	"runtime"
	"sort"
	"strings"
	"sync"
	"sync/atomic"
	"time"

	"github.com/hashicorp/hcl/v2"
	"github.com/hashicorp/hcl/v2/ext/dynblock"
	"github.com/hashicorp/hcl/v2/gohcl"
	"github.com/hashicorp/hcl/v2/hcldec"
	"github.com/hashicorp/hcl/v2/hclsyntax"
	hcljson "github.com/hashicorp/hcl/v2/json"
	"github.com/zclconf/go-cty/cty"
	"hclverif/hv"
)

// ---- barrier ------------------------------------------------------------------

// barrier releases n goroutines as close to simultaneously as the scheduler
// allows: every goroutine announces itself, then waits for the release. When
// every goroutine can have a processor of its own (and the race detector is
// off) they wait spinning on one flag, so that they leave within nanoseconds
// of each other; otherwise they block on a channel that release closes.
type barrier struct {
	ready sync.WaitGroup
	spin  bool
	goFlg atomic.Bool
	ch    chan struct{}
}

func newBarrier(n int) *barrier {
	b := &barrier{ch: make(chan struct{}), spin: !raceEnabled && n < runtime.GOMAXPROCS(0)}
	b.ready.Add(n)
	return b
}

// arrive is called by each goroutine; it returns when release was called.
func (b *barrier) arrive() {
	b.ready.Done()
	if !b.spin {
		<-b.ch
		return
	}
	for !b.goFlg.Load() {
	}
}

// release waits until all goroutines have arrived and lets them go.
func (b *barrier) release() {
	b.ready.Wait()
	b.goFlg.Store(true)
	close(b.ch)
}

// ---- abstract configurations and their JSON encodings ---------------------------

type absAttr struct {
	name string
	val  string // JSON text of the value
}

type absBlock struct {
	typ    string
	labels []string
	body   *absBody
}

type absBody struct {
	attrs  []absAttr
	blocks []*absBlock
}

// universe of the generated configurations
var (
	formsTopAttrs = []string{"a1", "a2", "a3", "a4"}
	formsLeaf     = &hcl.BodySchema{Attributes: []hcl.AttributeSchema{{Name: "z"}}}
	formsNested   = &hcl.BodySchema{
		Attributes: []hcl.AttributeSchema{{Name: "x"}, {Name: "y"}, {Name: "z"}}, // z: content of a nested dynamic "n"/"k"
		Blocks:     []hcl.BlockHeaderSchema{{Type: "n"}, {Type: "k", LabelNames: []string{"name"}}, {Type: "dynamic", LabelNames: []string{"type"}}},
	}
	formsDyn = &hcl.BodySchema{
		Attributes: []hcl.AttributeSchema{{Name: "for_each"}, {Name: "iterator"}, {Name: "labels"}},
		Blocks:     []hcl.BlockHeaderSchema{{Type: "content"}},
	}
	formsTop, formsTopWide, formsPartial, formsRest = mkFormsSchemas()
)

const formsWideMax = 300

func mkFormsSchemas() (top, wide, partial, rest *hcl.BodySchema) {
	blocks := []hcl.BlockHeaderSchema{
		{Type: "u"},
		{Type: "l", LabelNames: []string{"name"}},
		{Type: "m", LabelNames: []string{"kind", "name"}},
		{Type: "dynamic", LabelNames: []string{"type"}},
	}
	top = &hcl.BodySchema{Blocks: blocks}
	for _, a := range formsTopAttrs {
		top.Attributes = append(top.Attributes, hcl.AttributeSchema{Name: a})
	}
	wide = &hcl.BodySchema{Blocks: blocks, Attributes: append([]hcl.AttributeSchema{}, top.Attributes...)}
	for i := 1; i <= formsWideMax; i++ {
		wide.Attributes = append(wide.Attributes, hcl.AttributeSchema{Name: fmt.Sprintf("w%d", i)})
	}
	partial = &hcl.BodySchema{
		Attributes: []hcl.AttributeSchema{{Name: "a1"}, {Name: "a3"}},
		Blocks:     []hcl.BlockHeaderSchema{blocks[1]},
	}
	rest = &hcl.BodySchema{
		Attributes: append([]hcl.AttributeSchema{{Name: "a2"}, {Name: "a4"}}, wide.Attributes[4:]...),
		Blocks:     []hcl.BlockHeaderSchema{blocks[0], blocks[2], blocks[3]},
	}
	return
}

func formsChildSchema(typ string) *hcl.BodySchema {
	switch typ {
	case "n", "k":
		return formsLeaf
	case "dynamic":
		return formsDyn
	}
	return formsNested // u, l, m, content
}

// jsonForms renders abstract bodies as JSON, choosing an encoding form at
// every level, and computes alongside what the deep content dump of the
// rendered text must be (for valid configurations).
type jsonForms struct {
	r     *hv.Rng
	feat  map[string]int
	array float64 // probability of the array form at each choice
	valid bool    // false once a deliberately mistyped element was emitted
}

func (f *jsonForms) hit(s string) { f.feat[s]++ }

type jprop struct {
	key, text, exp string
	newObj         bool // must not share an object with the previous property of the same key
}

func jq(s string) string { b, _ := json.Marshal(s); return string(b) }

// expBody is the expected deep dump of a body (format of dumpDeep).
func expBody(attrNames []string, blocksExp string) string {
	n := append([]string{}, attrNames...)
	sort.Strings(n)
	return "diags=0 attrs{" + strings.Join(n, ",") + "} blocks[" + blocksExp + "]"
}

// body renders b in object form or as an array of objects.
func (f *jsonForms) body(b *absBody, mayArray bool) (text, exp string) {
	arrayForm := mayArray && f.r.Chance(f.array)
	// block properties: one per type (first-occurrence order), in array form sometimes split in two
	var props []jprop
	var types []string
	byType := map[string][]*absBlock{}
	for _, blk := range b.blocks {
		if _, ok := byType[blk.typ]; !ok {
			types = append(types, blk.typ)
		}
		byType[blk.typ] = append(byType[blk.typ], blk)
	}
	for _, t := range types {
		bs := byType[t]
		if arrayForm && len(bs) >= 2 && f.r.Chance(0.35) {
			cut := 1 + f.r.Intn(len(bs)-1)
			t1, e1 := f.level(bs[:cut], 0)
			t2, e2 := f.level(bs[cut:], 0)
			props = append(props, jprop{key: t, text: t1, exp: e1}, jprop{key: t, text: t2, exp: e2, newObj: true})
			f.hit("forms:block-type-split-over-objects")
			continue
		}
		tx, ex := f.level(bs, 0)
		props = append(props, jprop{key: t, text: tx, exp: ex})
	}
	// attributes at random positions between them
	var names []string
	for _, a := range b.attrs {
		names = append(names, a.name)
		at := f.r.Intn(len(props) + 1)
		props = append(props, jprop{})
		copy(props[at+1:], props[at:])
		props[at] = jprop{key: a.name, text: a.val}
	}
	var blocksExp strings.Builder
	for _, p := range props {
		blocksExp.WriteString(p.exp)
	}
	exp = expBody(names, blocksExp.String())

	obj := func(ps []jprop) string {
		parts := make([]string, len(ps))
		for i, p := range ps {
			parts[i] = jq(p.key) + ": " + p.text
		}
		return "{" + strings.Join(parts, ", ") + "}"
	}
	if !arrayForm {
		f.hit("forms:body-object")
		return obj(props), exp
	}
	// array form: the properties, in order, distributed over >= 2 objects
	nObj := 2 + f.r.Small(2)
	if len(props) > 4 && f.r.Chance(0.5) {
		nObj = len(props) // one property per object (the usual machine-generated form)
	}
	idx := make([]int, len(props))
	for i := range props {
		idx[i] = f.r.Intn(nObj)
	}
	sort.Ints(idx)
	for i := 1; i < len(props); i++ {
		if props[i].newObj {
			// find the other half (the nearest earlier property with the same key)
			for j := i - 1; j >= 0; j-- {
				if props[j].key == props[i].key {
					if idx[i] <= idx[j] {
						delta := idx[j] - idx[i] + 1
						for k := i; k < len(props); k++ {
							idx[k] += delta
						}
					}
					break
				}
			}
		}
	}
	if len(idx) > 0 && idx[len(idx)-1] >= nObj {
		nObj = idx[len(idx)-1] + 1
	}
	elems := make([]string, nObj)
	for o := 0; o < nObj; o++ {
		var ps []jprop
		for i, p := range props {
			if idx[i] == o {
				ps = append(ps, p)
			}
		}
		if len(ps) == 0 {
			f.hit("forms:empty-object-in-array")
		}
		elems[o] = obj(ps)
	}
	if f.r.Chance(0.04) {
		// a mistyped element: reported by a diagnostic, everything else must still come out
		at := f.r.Intn(len(elems) + 1)
		elems = append(elems[:at], append([]string{f.r.Pick("null", "7", "\"s\"", "[]")}, elems[at:]...)...)
		f.valid = false
		f.hit("forms:mistyped-array-element")
	}
	f.hit("forms:body-array")
	f.hit(fmt.Sprintf("forms:body-array-objects:%s", sizeClass(len(elems))))
	return "[" + strings.Join(elems, ", ") + "]", exp
}

func sizeClass(n int) string {
	switch {
	case n <= 1:
		return "1"
	case n <= 3:
		return "2-3"
	case n <= 9:
		return "4-9"
	case n <= 39:
		return "10-39"
	}
	return "40+"
}

// level renders the blocks bs (all of one type) below label level lv.
func (f *jsonForms) level(bs []*absBlock, lv int) (text, exp string) {
	if lv == len(bs[0].labels) {
		// block instances
		if len(bs) == 1 && !f.r.Chance(f.array*0.6) {
			f.hit("forms:instance-single-object")
			t, e := f.body(bs[0].body, false)
			return t, "(" + bs[0].typ + " " + fmt.Sprintf("%q", bs[0].labels) + " " + e + ")"
		}
		f.hit("forms:instances-array")
		parts := make([]string, len(bs))
		var eb strings.Builder
		for i, b := range bs {
			t, e := f.body(b.body, true)
			if strings.HasPrefix(t, "[") {
				f.hit("forms:array-body-inside-instance-array")
			}
			parts[i] = t
			eb.WriteString("(" + b.typ + " " + fmt.Sprintf("%q", b.labels) + " " + e + ")")
		}
		return "[" + strings.Join(parts, ", ") + "]", eb.String()
	}
	// a label level
	if !f.r.Chance(f.array) {
		// object form: one property per distinct label, blocks grouped by label
		var labels []string
		groups := map[string][]*absBlock{}
		for _, b := range bs {
			l := b.labels[lv]
			if _, ok := groups[l]; !ok {
				labels = append(labels, l)
			}
			groups[l] = append(groups[l], b)
		}
		parts := make([]string, len(labels))
		var eb strings.Builder
		for i, l := range labels {
			t, e := f.level(groups[l], lv+1)
			parts[i] = jq(l) + ": " + t
			eb.WriteString(e)
		}
		f.hit("forms:labels-object")
		return "{" + strings.Join(parts, ", ") + "}", eb.String()
	}
	// array form: consecutive runs of blocks with the same label form one property;
	// the properties are distributed, in order, over objects (a label may repeat in
	// a later object)
	type run struct {
		label string
		bs    []*absBlock
	}
	var runs []run
	for _, b := range bs {
		l := b.labels[lv]
		if n := len(runs); n > 0 && runs[n-1].label == l && f.r.Chance(0.5) {
			runs[n-1].bs = append(runs[n-1].bs, b)
			continue
		}
		runs = append(runs, run{l, []*absBlock{b}})
	}
	var elems []string
	var cur []string
	curKeys := map[string]bool{}
	var eb strings.Builder
	flush := func() {
		elems = append(elems, "{"+strings.Join(cur, ", ")+"}")
		cur, curKeys = nil, map[string]bool{}
	}
	for _, rn := range runs {
		t, e := f.level(rn.bs, lv+1)
		if len(cur) > 0 && (curKeys[rn.label] || f.r.Chance(0.7)) {
			flush()
		}
		cur = append(cur, jq(rn.label)+": "+t)
		curKeys[rn.label] = true
		eb.WriteString(e)
	}
	flush()
	if len(elems) < 2 || f.r.Chance(0.1) {
		at := f.r.Intn(len(elems) + 1)
		elems = append(elems[:at], append([]string{"{}"}, elems[at:]...)...)
		f.hit("forms:empty-object-in-array")
	}
	f.hit("forms:labels-array")
	f.hit(fmt.Sprintf("forms:labels-array-objects:%s", sizeClass(len(elems))))
	return "[" + strings.Join(elems, ", ") + "]", eb.String()
}

var formsAttrVals = []string{
	"1", "true", "\"plain\"", "[1, 2]", "{\"k\": \"v\"}", "null",
	"\"${sh}\"", "\"${salt}\"", "\"${str}\"", "\"${xs[*].name}\"", "\"${length(ys[*].id)}\"",
	"\"pre-${one.name}\"", "[\"${idx}\", \"${tup[*].name}\"]",
}

func (f *jsonForms) attrVal() string { return formsAttrVals[f.r.Intn(len(formsAttrVals))] }

func (f *jsonForms) leafBody() *absBody {
	b := &absBody{}
	if f.r.Chance(0.8) {
		b.attrs = append(b.attrs, absAttr{"z", f.attrVal()})
	}
	return b
}

func (f *jsonForms) nestedBody(depth int) *absBody {
	b := &absBody{}
	for _, n := range []string{"x", "y"} {
		if f.r.Chance(0.7) {
			b.attrs = append(b.attrs, absAttr{n, f.attrVal()})
		}
	}
	if depth > 0 {
		for i, n := 0, f.r.Small(3); i < n; i++ {
			if f.r.Chance(0.5) {
				b.blocks = append(b.blocks, &absBlock{typ: "n", body: f.leafBody()})
			} else {
				b.blocks = append(b.blocks, &absBlock{typ: "k", labels: []string{f.r.Pick("p", "q", "r")}, body: f.leafBody()})
			}
		}
	}
	return b
}

// genFormsCfg generates one abstract configuration. wide > 0 asks for that
// many extra attributes w1.. (array-form body with one property per object)
// or that many labelled blocks.
func (f *jsonForms) genCfg(wide int, wideLabels bool) *absBody {
	top := &absBody{}
	for _, a := range formsTopAttrs {
		if f.r.Chance(0.7) {
			top.attrs = append(top.attrs, absAttr{a, f.attrVal()})
		}
	}
	if wide > 0 && !wideLabels {
		for i := 1; i <= wide && i <= formsWideMax; i++ {
			top.attrs = append(top.attrs, absAttr{fmt.Sprintf("w%d", i), fmt.Sprint(i)})
		}
	}
	nb := 1 + f.r.Small(5)
	for i := 0; i < nb; i++ {
		switch f.r.Intn(3) {
		case 0:
			top.blocks = append(top.blocks, &absBlock{typ: "u", body: f.nestedBody(1)})
		case 1:
			top.blocks = append(top.blocks, &absBlock{typ: "l", labels: []string{f.r.Pick("p", "q", "r", "s")}, body: f.nestedBody(1)})
		default:
			top.blocks = append(top.blocks, &absBlock{typ: "m", labels: []string{f.r.Pick("ka", "kb"), f.r.Pick("p", "q", "r")}, body: f.nestedBody(1)})
		}
	}
	if wide > 0 && wideLabels {
		for i := 0; i < wide; i++ {
			top.blocks = append(top.blocks, &absBlock{typ: "l", labels: []string{fmt.Sprintf("t%d", i)}, body: &absBody{attrs: []absAttr{{"x", fmt.Sprint(i)}}}})
		}
	}
	if f.r.Chance(0.3) {
		fe := f.r.Pick("xs[*].name", "ys[*].name", "[\\\"p\\\", \\\"q\\\"]", "one[*].name", "emp[*].name")
		content := &absBody{attrs: []absAttr{{"x", "\"${u.key}\""}, {"y", "\"${u.value}\""}}}
		if f.r.Chance(0.4) {
			content.blocks = append(content.blocks, &absBlock{typ: "n", body: &absBody{attrs: []absAttr{{"z", "\"${u.value}\""}}}})
		}
		if f.r.Chance(0.6) {
			// nested dynamic blocks (second phase, nested.go): the for_each holds splats
			// over long collections, the labels come from both iterators
			for i, n := 0, 1+f.r.Small(1); i < n; i++ {
				typ := f.r.Pick("n", "k")
				ife := f.r.Pick("big[*].id", "[for i, n in big.*.name : n if i % 9 == 0]", "[for i, v in flatten(big[*].nested[*].v) : v if i % 12 == 0]", "[for x in big[*].id : x if x % 6 == 0]",
					"groups[0].members[*].name", "[for i, t in concat(big[*].tags...) : t if i % 10 == 0]", "ys[*].tags[*]", "[u.key, u.value]", "{ for m in big[*] : m.name => m.id if m.id % 7 == 0 }")
				dyn := &absBody{
					attrs:  []absAttr{{"for_each", "\"${" + ife + "}\""}},
					blocks: []*absBlock{{typ: "content", body: &absBody{attrs: []absAttr{{"z", f.r.Pick("\"${u.key}-${"+typ+".key}\"", "\"${"+typ+".value}\"", "[\"${u.value}\", \"${"+typ+".key}\"]")}}}}},
				}
				if typ == "k" {
					dyn.attrs = append(dyn.attrs, absAttr{"labels", f.r.Pick("[\"${u.key}.${k.key}\"]", "[\"l${k.key}\"]")})
				}
				content.blocks = append(content.blocks, &absBlock{typ: "dynamic", labels: []string{typ}, body: dyn})
			}
			f.hit("forms:nested-dynamic-block")
		}
		top.blocks = append(top.blocks, &absBlock{typ: "dynamic", labels: []string{"u"}, body: &absBody{
			attrs:  []absAttr{{"for_each", "\"${" + fe + "}\""}},
			blocks: []*absBlock{{typ: "content", body: content}},
		}})
		f.hit("forms:dynamic-block")
	}
	return top
}

// genJSONForms returns the JSON text of a generated configuration, the
// expected deep content dump ("" when the text holds a deliberately mistyped
// element), and the feature counts.
func genJSONForms(r *hv.Rng) (src, expect string, feat map[string]int) {
	return genJSONFormsW(r, 0)
}

// genJSONFormsW: forceWide 1 asks for a wide array-form body, 2 for a wide
// array-form label level, 0 leaves it to chance.
func genJSONFormsW(r *hv.Rng, forceWide int) (src, expect string, feat map[string]int) {
	f := &jsonForms{r: r, feat: map[string]int{}, array: []float64{0.35, 0.6, 0.9}[r.Intn(3)], valid: true}
	wide, wideLabels := 0, false
	if r.Chance(0.12) || forceWide > 0 {
		wide = 40 + r.Intn(formsWideMax-40)
		wideLabels = r.Chance(0.5)
		if forceWide > 0 {
			wideLabels = forceWide == 2
		}
		f.array = 1.0
		if wideLabels {
			f.hit("forms:wide-label-array")
		} else {
			f.hit("forms:wide-body-array")
		}
	}
	cfg := f.genCfg(wide, wideLabels)
	src, expect = f.body(cfg, true)
	if !f.valid {
		expect = ""
	}
	if strings.Contains(src, "[[") {
		f.hit("forms:nested-arrays")
	}
	return src, expect, f.feat
}

// hand corpus of encoding forms (each form at least once, small)
var formsCorpus = []string{
	// labels as an array of single-property objects; bodies as objects
	`{"a1": 1, "l": [{"p": {"x": 1}}, {"q": {"x": 2}}, {"r": {"x": "${salt}"}}]}`,
	// top-level body as an array of objects; one block whose body is an array of objects
	`[{"a1": "${sh}"}, {"a2": 2, "u": [[{"x": 1}, {"y": "${str}"}, {"n": {"z": 3}}]]}, {"a3": true}]`,
	// two label levels, both as arrays; instances as arrays of array-form bodies
	`{"m": [{"ka": [{"p": [[{"x": 1}, {"y": 2}], {"x": 3}]}, {"q": {"y": 4}}]}, {"kb": [{"p": [{"x": 5}, [{"x": 6}, {"k": [{"p": {"z": 1}}, {"q": {"z": 2}}]}]]}]}]}`,
	// the same block type in several objects of an array-form body; a dynamic block in array form
	`[{"u": {"x": 1}}, {"u": [{"y": 2}, {"x": 3}], "a4": "${xs[*].name}"}, {"dynamic": [{"u": [{"for_each": "${ys[*].name}"}, {"content": [{"x": "${u.key}"}, {"y": "${u.value}"}]}]}]}]`,
}

// ---- ops on one parsed forms configuration ------------------------------------------

// dumpDeep is the deep content dump of a body: Content with the schema of the
// universe at every level (format matched by expBody).
func dumpDeep(b hcl.Body, schema *hcl.BodySchema) string {
	c, d := b.Content(schema)
	return dumpDeepContent(c, d)
}

func dumpDeepContent(c *hcl.BodyContent, d hcl.Diagnostics) string {
	var sb strings.Builder
	sb.WriteString(dumpDiagsFull(d))
	if c == nil {
		return sb.String() + " (nil-content)"
	}
	sb.WriteString(" " + dumpAttrNames(c.Attributes) + " blocks[")
	for _, blk := range c.Blocks {
		fmt.Fprintf(&sb, "(%s %q ", blk.Type, blk.Labels)
		sb.WriteString(dumpDeep(blk.Body, formsChildSchema(blk.Type)))
		sb.WriteString(")")
	}
	sb.WriteString("]")
	return sb.String()
}

var formsSpec = hcldec.ObjectSpec{
	"a1": &hcldec.AttrSpec{Name: "a1", Type: cty.DynamicPseudoType},
	"a2": &hcldec.AttrSpec{Name: "a2", Type: cty.DynamicPseudoType},
	"a3": &hcldec.AttrSpec{Name: "a3", Type: cty.DynamicPseudoType},
	"a4": &hcldec.AttrSpec{Name: "a4", Type: cty.DynamicPseudoType},
	"us": &hcldec.BlockTupleSpec{TypeName: "u", Nested: formsNestedSpec},
	"ls": &hcldec.BlockObjectSpec{TypeName: "l", LabelNames: []string{"name"}, Nested: formsNestedSpec},
	"ms": &hcldec.BlockObjectSpec{TypeName: "m", LabelNames: []string{"kind", "name"}, Nested: formsNestedSpec},
}

var formsNestedSpec = hcldec.ObjectSpec{
	"x":  &hcldec.AttrSpec{Name: "x", Type: cty.DynamicPseudoType},
	"y":  &hcldec.AttrSpec{Name: "y", Type: cty.DynamicPseudoType},
	"ns": &hcldec.BlockTupleSpec{TypeName: "n", Nested: hcldec.ObjectSpec{"z": &hcldec.AttrSpec{Name: "z", Type: cty.DynamicPseudoType}}},
	"ks": &hcldec.BlockObjectSpec{TypeName: "k", LabelNames: []string{"name"}, Nested: hcldec.ObjectSpec{"z": &hcldec.AttrSpec{Name: "z", Type: cty.DynamicPseudoType}}},
}

type gohclLeaf struct {
	Z      cty.Value `hcl:"z,optional"`
	Remain hcl.Body  `hcl:",remain"`
}

type gohclNested struct {
	X      cty.Value      `hcl:"x,optional"`
	Y      hcl.Expression `hcl:"y,optional"`
	N      []gohclLeaf    `hcl:"n,block"`
	Remain hcl.Body       `hcl:",remain"`
}

type gohclLabelled struct {
	Name   string    `hcl:"name,label"`
	X      cty.Value `hcl:"x,optional"`
	Remain hcl.Body  `hcl:",remain"`
}

type gohclTop struct {
	A1     cty.Value       `hcl:"a1,optional"`
	A2     hcl.Expression  `hcl:"a2,optional"`
	U      []gohclNested   `hcl:"u,block"`
	L      []gohclLabelled `hcl:"l,block"`
	Remain hcl.Body        `hcl:",remain"`
}

func dumpValPtr(v cty.Value) string {
	if v == cty.NilVal {
		return "(absent)"
	}
	return hv.DumpVal(v)
}

func dumpRemain(b hcl.Body) string {
	if b == nil {
		return "(nil-remain)"
	}
	a, d := b.JustAttributes()
	return dumpAttrNames(a) + fmt.Sprintf(" d%d", len(d))
}

func dumpGohcl(t *gohclTop, d hcl.Diagnostics, ctx *hcl.EvalContext) string {
	var sb strings.Builder
	sb.WriteString(dumpDiags(d) + " a1=" + dumpValPtr(t.A1))
	if t.A2 != nil {
		v, vd := t.A2.Value(ctx)
		sb.WriteString(" a2=" + hv.DumpVal(v) + " " + dumpDiags(vd))
	}
	for _, u := range t.U {
		sb.WriteString(" (u x=" + dumpValPtr(u.X))
		if u.Y != nil {
			v, vd := u.Y.Value(ctx)
			sb.WriteString(" y=" + hv.DumpVal(v) + " " + dumpDiags(vd))
		}
		for _, n := range u.N {
			sb.WriteString(" (n z=" + dumpValPtr(n.Z) + " " + dumpRemain(n.Remain) + ")")
		}
		sb.WriteString(" " + dumpRemain(u.Remain) + ")")
	}
	for _, l := range t.L {
		sb.WriteString(" (l " + l.Name + " x=" + dumpValPtr(l.X) + " " + dumpRemain(l.Remain) + ")")
	}
	sb.WriteString(" remain " + dumpRemain(t.Remain))
	return sb.String()
}

// formsOps parses src afresh and returns the calls made on the new tree.
func formsOps(src string) []opFn {
	f, d := hcljson.Parse([]byte(src), "forms.json")
	if f == nil || f.Body == nil || d.HasErrors() {
		return nil
	}
	body := f.Body
	top := formsTop
	if strings.Contains(src, "\"w1\"") {
		top = formsTopWide
	}
	ops := []opFn{
		{"content-deep", func(ctx *hcl.EvalContext) string { return dumpDeep(body, top) }},
		{"partial+remain", func(ctx *hcl.EvalContext) string {
			c, rem, d := body.PartialContent(formsPartial)
			return dumpDeepContent(c, d) + " remain " + dumpDeep(rem, formsRest)
		}},
		{"just-attributes", func(ctx *hcl.EvalContext) string {
			a, d := body.JustAttributes()
			return dumpAttrNames(a) + " " + dumpDiagsFull(d)
		}},
		{"hcldec.Decode", func(ctx *hcl.EvalContext) string {
			v, d := hcldec.Decode(dynblock.Expand(body, ctx), formsSpec, ctx)
			return hv.DumpVal(v) + " " + dumpDiags(d)
		}},
		{"hcldec.Variables", func(ctx *hcl.EvalContext) string {
			return dumpTraversalsSorted(dynblock.VariablesHCLDec(body, formsSpec))
		}},
		{"gohcl.DecodeBody", func(ctx *hcl.EvalContext) string {
			var t gohclTop
			d := gohcl.DecodeBody(body, ctx, &t)
			return dumpGohcl(&t, d, ctx)
		}},
		{"dynblock.Expand+content", func(ctx *hcl.EvalContext) string {
			return dumpDeep(dynblock.Expand(body, ctx), top)
		}},
	}
	if len(src) > 1500 {
		// wide configurations: the extraction calls only (decoding hundreds of
		// attributes the spec does not know mostly measures the diagnostics code)
		return ops[:3]
	}
	return ops
}

// ---- the cold discipline ------------------------------------------------------------

type coldWorkload struct {
	kind, src string
	build     func() []opFn     // a FRESH parse of src and the calls on it; nil when src does not parse
	expect    map[string]string // op name -> independently computed expected result
	feat      map[string]int
	exprLike  bool
	nested    func(r *hv.Rng) *nestedPlan // second phase (nested.go); nil = none
}

func (w *coldWorkload) input(rc roundCfg) string {
	return fmt.Sprintf("#c17 kind=%s %s\n%s", w.kind, rc.String(), w.src)
}

// mkCtxs builds the evaluation contexts of the goroutines of one round (same
// construction as runRound).
func mkCtxs(rc roundCfg, exprLike bool) func(g int) *hcl.EvalContext {
	topo := rc.topo
	if topo == "nilctx" && !exprLike {
		topo = "child"
	}
	shared := &hcl.EvalContext{Functions: mkFuncs(), Variables: map[string]cty.Value{"sh": cty.StringVal("shared")}}
	sharedMid := shared.NewChild()
	ctxs := make([]*hcl.EvalContext, rc.G)
	for g := range ctxs {
		salt := g + 1
		if rc.sameVars {
			salt = 3
		}
		switch topo {
		case "nilctx":
			ctxs[g] = nil
		case "fresh":
			ctxs[g] = mkCtx("child", shared, sharedMid, salt)
		default:
			ctxs[g] = mkCtx(topo, shared, sharedMid, salt)
		}
	}
	return func(g int) *hcl.EvalContext {
		if topo == "fresh" {
			return ctxs[g].NewChild()
		}
		return ctxs[g]
	}
}

type coldDiff struct {
	round, g, op int
	got          string
}

// coldBurst runs ONE concurrent round on the tree behind ops, which must not
// have been used before: G goroutines, released together, each making every
// call once, starting at call `first` (all at the same one, or staggered).
func coldBurst(ops []opFn, G int, evalCtx func(int) *hcl.EvalContext, first int, stagger bool, ref [][]string, stable [][]bool, round int) []coldDiff {
	var mu sync.Mutex
	var diffs []coldDiff
	bar := newBarrier(G)
	var wg sync.WaitGroup
	for g := 0; g < G; g++ {
		wg.Add(1)
		go func(g int) {
			defer wg.Done()
			ctx := evalCtx(g)
			at := first
			if stagger {
				at += g
			}
			bar.arrive()
			for i := range ops {
				k := (at + i) % len(ops)
				got := safeRun(ops[k].run, ctx)
				if got != ref[g][k] && stable[g][k] {
					mu.Lock()
					if len(diffs) < 50 {
						diffs = append(diffs, coldDiff{round, g, k, got})
					}
					mu.Unlock()
				}
			}
		}(g)
	}
	bar.release()
	wg.Wait()
	return diffs
}

var coldProcs = []int{runtime.NumCPU(), 4, runtime.NumCPU(), 2, 8, 1}

// soloRefs computes the reference results on SEPARATE parses: once in call
// order on one parse, once in reverse order on another one (a result that is
// not the same on both is not compared, as in runRound).
func soloRefs(rep *hv.Report, build func() []opFn, G int, evalCtx func(int) *hcl.EvalContext, input string) (ref [][]string, stable [][]bool, names []string) {
	a, b := build(), build()
	if a == nil || b == nil || len(a) != len(b) {
		return nil, nil, nil
	}
	ref = make([][]string, G)
	stable = make([][]bool, G)
	for g := 0; g < G; g++ {
		ref[g] = make([]string, len(a))
		stable[g] = make([]bool, len(a))
		ctx := evalCtx(g)
		for k := range a {
			ref[g][k] = safeRun(a[k].run, ctx)
		}
		for k := len(b) - 1; k >= 0; k-- {
			second := safeRun(b[k].run, ctx)
			stable[g][k] = second == ref[g][k]
			if !stable[g][k] {
				rep.Soft++
				rep.Hist("soft:solo-result-not-deterministic:" + a[k].name)
			}
			if strings.HasPrefix(ref[g][k], "PANIC:") && g == 0 {
				rep.Fail(hv.Failure{Kind: "panic", Detail: "solo " + a[k].name + ": " + ref[g][k], Input: input})
				rep.Hist("oracle-fail:panic")
			}
		}
	}
	for _, op := range a {
		names = append(names, op.name)
	}
	return ref, stable, names
}

func (rn *runner) reportColdDiffs(diffs []coldDiff, names []string, ref [][]string, input, what string) {
	rep := rn.rep
	for i, d := range diffs {
		kind := "concurrent-result-differs"
		if strings.HasPrefix(d.got, "PANIC:") {
			kind = "panic"
		}
		rep.Hist("oracle-fail:" + kind)
		rep.Hist("oracle-fail:first-use:" + kind)
		if i < 3 {
			rep.Fail(hv.Failure{Kind: kind,
				Detail: fmt.Sprintf("%s, fresh parse %d, goroutine %d call %s: concurrent result %s, alone (on a separate parse) %s", what, d.round, d.g, names[d.op], trunc(d.got, 600), trunc(ref[d.g][d.op], 600)),
				Input:  input})
		}
	}
}

// coldRounds runs `rounds` first-use rounds of one workload.
func (rn *runner) coldRounds(w *coldWorkload, rc roundCfg, rounds int) {
	rn.round++
	if os.Getenv("C17_TIMING") != "" {
		t0 := time.Now()
		defer func() {
			fmt.Fprintf(os.Stderr, "timing %s %d bytes G=%d: %v\n", w.kind, len(w.src), rc.G, time.Since(t0))
		}()
	}
	rep := rn.rep
	if w.feat["forms:nested-dynamic-block"] > 0 && rc.G > 8 {
		rc.G = 8 // long loops
	}
	rep.Hist("item:" + w.kind)
	rep.Hist(fmt.Sprintf("G:%02d", rc.G))
	for k, v := range w.feat {
		rep.Histogram["feat:"+k] += v
	}
	input := w.input(rc)
	evalCtx := mkCtxs(rc, w.exprLike)
	ref, stable, names := soloRefs(rep, w.build, rc.G, evalCtx, input)
	if ref == nil {
		rep.Hist("item:unparseable-skipped")
		return
	}
	for k, name := range names {
		if want, ok := w.expect[name]; ok && want != "" {
			rep.Hist("expectation:checked")
			if ref[0][k] != want {
				rep.Hist("oracle-fail:content-differs-from-expectation")
				rep.Fail(hv.Failure{Kind: "content-differs-from-expectation",
					Detail: fmt.Sprintf("call %s made alone returned %s, the generator's abstract configuration says %s", name, trunc(ref[0][k], 900), trunc(want, 900)),
					Input:  input})
			}
		}
		switch {
		case !strings.Contains(strings.ReplaceAll(ref[0][k], "diags=0", ""), "diags="):
			rep.Hist("result:" + name + ":clean")
		default:
			rep.Hist("result:" + name + ":with-diagnostics")
		}
	}
	if rn.r.Chance(0.03) || rn.round <= 3 {
		rep.Sample(map[string]string{"input": input, "solo_result_goroutine_0": trunc(strings.Join(ref[0], " || "), 400)})
	}
	old := runtime.GOMAXPROCS(0)
	defer runtime.GOMAXPROCS(old)
	var diffs []coldDiff
	hclsyntax.VerifAnonSetYield(rc.yield)
	defer hclsyntax.VerifAnonSetYield(0)
	for i := 0; i < rounds; i++ {
		ops := w.build()
		if ops == nil {
			break
		}
		runtime.GOMAXPROCS(coldProcs[i%len(coldProcs)])
		first := rn.r.Intn(len(ops))
		stagger := rn.r.Chance(0.35)
		diffs = append(diffs, coldBurst(ops, rc.G, evalCtx, first, stagger, ref, stable, i)...)
		rep.Hist("first-use:rounds")
		rep.Hist("first-use:first-call:" + names[first])
		rep.Histogram["calls:concurrent-first-use"] += rc.G * len(ops)
	}
	if len(diffs) == 0 {
		rep.Hist("oracle-ok")
		rep.Hist("oracle-ok:first-use")
	}
	rn.reportColdDiffs(diffs, names, ref, input, "first use of a freshly parsed tree")
	// second phase (nested.go): nested bodies and expressions extracted once, then shared
	if w.nested != nil {
		if p := w.nested(rn.r); p != nil {
			runtime.GOMAXPROCS(rc.procs)
			rn.nestedPhase(p, rc, evalCtx, input)
		}
	}
}

// coldBursts is the first-use supplement of runRound / contentRound: n more
// concurrent rounds, each on a fresh parse, compared with the solo results
// (which come from a different parse).
func (rn *runner) coldBursts(build func() []opFn, n int, G int, evalCtx func(int) *hcl.EvalContext, ref [][]string, stable [][]bool, names []string, input string) {
	rep := rn.rep
	var diffs []coldDiff
	old := runtime.GOMAXPROCS(0)
	defer runtime.GOMAXPROCS(old)
	for i := 0; i < n; i++ {
		ops := build()
		if ops == nil || len(ops) != len(names) {
			return
		}
		runtime.GOMAXPROCS(coldProcs[i%len(coldProcs)])
		first := rn.r.Intn(len(ops))
		diffs = append(diffs, coldBurst(ops, G, evalCtx, first, rn.r.Chance(0.35), ref, stable, i)...)
		rep.Hist("first-use:rounds")
		rep.Histogram["calls:concurrent-first-use"] += G * len(ops)
	}
	if len(diffs) == 0 {
		rep.Hist("oracle-ok:first-use")
	}
	rn.reportColdDiffs(diffs, names, ref, input, "first use of a freshly parsed tree")
}

func formsWorkload(src, expect string, feat map[string]int) *coldWorkload {
	w := &coldWorkload{kind: "json-forms", src: src, feat: feat, build: func() []opFn { return formsOps(src) },
		nested: func(r *hv.Rng) *nestedPlan { return formsPlan(r, src) }}
	if expect != "" {
		w.expect = map[string]string{"content-deep": expect}
	}
	return w
}

// formsRounds: number of fresh parses per generated forms item.
func formsRounds(src string) int {
	n := 12
	if raceEnabled {
		n = 2 // the detector reports an unsynchronised first use whatever the timing
	}
	if len(src) > 1500 {
		n /= 2
	}
	if strings.Contains(src, "${big") || strings.Contains(src, " big") || strings.Contains(src, "groups[") {
		n = (n + 2) / 3 // nested dynamic blocks over the long collections: one call is thousands of splat iterations
	}
	return n
}
