package main

// The CALLER of the writer API, as far as ownership of arguments and results
// goes. The property speaks about what the file contains after a history of
// edits "whatever the caller does" with the slices it passed in or got back:
// every operation must behave as if it had copied its arguments, and whatever a
// reader returns must be safe to modify.
//
// Three callers (tcase.Caller):
//
//	0  fresh      every call gets freshly allocated arguments, results are only read
//	1  aliasing   raw-token / label / traversal arguments of successive calls are cut from
//	              ONE backing array per argument type with spare capacity (the Go idioms
//	              `append(prefix[:k], ...)` in a loop and "template slice whose elements are
//	              overwritten between calls"): a later call's argument overwrites the memory
//	              an earlier call was given. Everything the API returns is scribbled over.
//	2  scribbling as 1, and right after every call the argument slice itself is scribbled
//	              over (cells replaced by junk, reordered, zeroed).
//
// All of this happens at SLICE level (cells of []*Token, []string, hcl.Traversal,
// []byte, maps): every cell written is a freshly allocated value, so two places
// of the tree never share a *Token through the harness. The map/list mirror and
// the Coq model never see any of it (they get their own freshly lexed tokens), so
// the existing oracles decide: readers vs mirror, reparse vs mirror, untouched
// items keep their tokens, observed token stream vs model.
//
// NOT part of the property (decided, not an oversight): the *Token structs and
// the byte arrays behind Token.Bytes are shared between caller and tree by
// design - Tokens is []*Token, BuildTokens returns the tree's own token pointers,
// NewExpressionRaw promises a copy of the slice only, and File.Bytes() itself
// formats in place (rewrites SpacesBefore of token structs the caller may still
// hold). A caller that mutates a token struct it passed in or got back changes
// the file; the harness never does that.
//
// In addition the caller checks that a call did not WRITE into the slice it was
// given or into its spare capacity (kind api-wrote-into-caller-memory).

import (
	"fmt"

	"github.com/hashicorp/hcl/v2"
	"github.com/hashicorp/hcl/v2/hclsyntax"
	"github.com/hashicorp/hcl/v2/hclwrite"
)

const (
	callerFresh     = 0
	callerAliasing  = 1
	callerScribbler = 2
)

func callerName(m int) string {
	switch m {
	case callerAliasing:
		return "aliasing"
	case callerScribbler:
		return "aliasing+scribbling"
	}
	return "fresh"
}

type callerStats struct {
	opsAliasedArg    int // ops whose slice argument reused memory handed to an earlier call
	opsSharedArg     int // ops whose slice argument was cut from the shared backing array (incl. the first)
	opsScribbledArg  int // ops whose slice argument was scribbled over after the call
	opsScribbledRes  int // ops after which the results of the readers were scribbled over
	tokArgs          int
	labelArgs        int
	travArgs         int
	partialOverlap   int // token argument started in the middle of the previous one
	resultSlices     int // slices/maps returned by the API that were scribbled over
	viaCalls         int // raw-token arguments built through TokensForTuple / FunctionCall / Object from shared pieces
	appendRawRetains int // Body.AppendUnstructuredTokens kept the caller's slice (probe-and-restore)
}

type caller struct {
	mode int
	n    int // slice arguments handed out so far

	arena    hclwrite.Tokens // full-capacity view of the token backing array
	lastOff  int
	lastLen  int
	tokCalls int

	labels     []string
	labelCalls int
	trav       hcl.Traversal
	travCalls  int

	out   hclwrite.Tokens // shared `to` buffer for BuildTokens(to)
	parts hclwrite.Tokens // shared backing array for the element arguments of TokensForTuple/FunctionCall/Object

	// the argument of the call in flight
	curToks  hclwrite.Tokens
	curSnap  hclwrite.Tokens // arena cells before the call
	curLbls  []string
	curLSnap []string
	curTrav  hcl.Traversal

	stats callerStats
	wrote []string // api-wrote-into-caller-memory findings
}

func newCaller(mode int) *caller {
	if mode == callerFresh {
		return nil
	}
	return &caller{mode: mode}
}

const arenaCap = 96

func junkTok(i int) *hclwrite.Token {
	// never a token the scanner produces: if it reaches the file, neither readers nor reparse agree with the mirror
	return &hclwrite.Token{Type: hclsyntax.TokenInvalid, Bytes: []byte(fmt.Sprintf("\x00SCRIBBLED%d\x00", i))}
}

// tokens returns an argument equal to fresh (same token values, fresh *Token
// cells) cut from the shared backing array.
func (cl *caller) tokens(fresh hclwrite.Tokens) hclwrite.Tokens {
	if cl == nil || len(fresh) == 0 {
		return fresh
	}
	off := 0
	switch cl.n % 3 {
	case 1: // the next argument starts inside the previous one: partial overlap
		off = cl.lastOff + cl.lastLen/2
	case 2: // template: same start as before
		off = cl.lastOff
	}
	if cl.arena == nil || off+len(fresh)+1 > cap(cl.arena) {
		if len(fresh)+1 <= cap(cl.arena) {
			off = 0
		} else {
			c := arenaCap
			if c < 2*len(fresh)+8 {
				c = 2*len(fresh) + 8
			}
			cl.arena = make(hclwrite.Tokens, c)
			for i := range cl.arena {
				cl.arena[i] = junkTok(i)
			}
			off = 0
			cl.tokCalls = 0
		}
	}
	// what a Go caller writes: arg := append(arena[off:off], fresh...), spare capacity behind it
	arg := append(cl.arena[off:off], fresh...)
	if cl.tokCalls > 0 {
		cl.stats.opsAliasedArg++
		if off > cl.lastOff && off < cl.lastOff+cl.lastLen {
			cl.stats.partialOverlap++
		}
	}
	cl.stats.opsSharedArg++
	cl.stats.tokArgs++
	cl.tokCalls++
	cl.n++
	cl.lastOff, cl.lastLen = off, len(fresh)
	cl.curToks = arg
	cl.curSnap = append(hclwrite.Tokens{}, cl.arena[:cap(cl.arena)]...)
	return arg
}

func (cl *caller) labelArg(ls []string) []string {
	if cl == nil || len(ls) == 0 {
		return ls
	}
	if cl.labels == nil || len(ls)+1 > cap(cl.labels) {
		cl.labels = make([]string, 2*len(ls)+8)
		for i := range cl.labels {
			cl.labels[i] = "\x00spare"
		}
		cl.labelCalls = 0
	}
	arg := append(cl.labels[:0], ls...)
	if cl.labelCalls > 0 {
		cl.stats.opsAliasedArg++
	}
	cl.stats.opsSharedArg++
	cl.stats.labelArgs++
	cl.labelCalls++
	cl.n++
	cl.curLbls = arg
	cl.curLSnap = append([]string{}, cl.labels[:cap(cl.labels)]...)
	return arg
}

func (cl *caller) travArg(t hcl.Traversal) hcl.Traversal {
	if cl == nil || len(t) == 0 {
		return t
	}
	if cl.trav == nil || len(t)+1 > cap(cl.trav) {
		cl.trav = make(hcl.Traversal, 2*len(t)+8)
		cl.travCalls = 0
	}
	arg := append(cl.trav[:0], t...)
	if cl.travCalls > 0 {
		cl.stats.opsAliasedArg++
	}
	cl.stats.opsSharedArg++
	cl.stats.travArgs++
	cl.travCalls++
	cl.n++
	cl.curTrav = arg
	return arg
}

// abandonTokens gives the token backing array up (the tree was found to hold on
// to it; writing to it again would only repeat the same finding in other words).
func (cl *caller) abandonTokens() {
	cl.arena, cl.curToks, cl.curSnap = nil, nil, nil
	cl.lastOff, cl.lastLen, cl.tokCalls = 0, 0, 0
}

func scribbleTokens(ts hclwrite.Tokens, variant int) {
	switch variant % 3 {
	case 0: // overwrite
		for i := range ts {
			ts[i] = junkTok(i)
		}
	case 1: // reorder (and overwrite what reordering leaves in place)
		for i, j := 0, len(ts)-1; i < j; i, j = i+1, j-1 {
			ts[i], ts[j] = ts[j], ts[i]
		}
		if len(ts) > 0 {
			ts[0] = junkTok(0)
		}
	default: // zero
		for i := range ts {
			ts[i] = nil
		}
	}
}

// afterCall: the call returned. Did it write into the caller's memory? Then the
// scribbling caller overwrites what it passed in.
func (cl *caller) afterCall(what string) {
	if cl == nil {
		return
	}
	scribbled := false
	if cl.curToks != nil {
		full := cl.arena[:cap(cl.arena)]
		for i := range full {
			if full[i] != cl.curSnap[i] {
				cl.wrote = append(cl.wrote, fmt.Sprintf("%s changed cell %d of the token slice it was given (len %d, cap %d)", what, i-cl.lastOff, cl.lastLen, cap(cl.arena)-cl.lastOff))
				break
			}
		}
		if cl.mode == callerScribbler {
			scribbleTokens(cl.curToks, cl.n)
			scribbled = true
		}
		cl.curToks, cl.curSnap = nil, nil
	}
	if cl.curLbls != nil {
		full := cl.labels[:cap(cl.labels)]
		for i := range full {
			if full[i] != cl.curLSnap[i] {
				cl.wrote = append(cl.wrote, fmt.Sprintf("%s changed cell %d of the label slice it was given", what, i))
				break
			}
		}
		if cl.mode == callerScribbler {
			for i := range cl.curLbls {
				switch cl.n % 3 {
				case 0:
					cl.curLbls[i] = "SCRIBBLED"
				case 1:
					cl.curLbls[i] = "scribbled\"${x}"
				default:
					cl.curLbls[i] = ""
				}
			}
			scribbled = true
		}
		cl.curLbls, cl.curLSnap = nil, nil
	}
	if cl.curTrav != nil {
		if cl.mode == callerScribbler {
			for i := range cl.curTrav {
				switch cl.n % 3 {
				case 0:
					cl.curTrav[i] = hcl.TraverseAttr{Name: "SCRIBBLED"}
				case 1:
					cl.curTrav[i] = hcl.TraverseRoot{Name: "scribbled"}
				default:
					cl.curTrav[i] = nil
				}
			}
			scribbled = true
		}
		cl.curTrav = nil
	}
	if scribbled {
		cl.stats.opsScribbledArg++
	}
}

// ---- results ---------------------------------------------------------------------------

// built: BuildTokens(to) into the caller's own shared buffer, then the result is
// scribbled over (the cells the call appended and the buffer's prefix).
func (cl *caller) built(bt func(hclwrite.Tokens) hclwrite.Tokens) {
	if cl.out == nil {
		cl.out = make(hclwrite.Tokens, 0, 512)
	}
	k := cl.stats.resultSlices % 3
	to := cl.out[:0]
	for i := 0; i < k; i++ {
		to = append(to, junkTok(i))
	}
	r := bt(to)
	scribbleTokens(r, cl.stats.resultSlices)
	cl.stats.resultSlices++
}

func (cl *caller) scribbleAttr(a *hclwrite.Attribute) {
	if a == nil {
		return
	}
	cl.built(a.BuildTokens)
	e := a.Expr()
	cl.built(e.BuildTokens)
	r := e.BuildTokens(nil)
	scribbleTokens(r, cl.stats.resultSlices)
	vs := e.Variables()
	for i := range vs {
		cl.built(vs[i].BuildTokens)
		vs[i] = nil
	}
	cl.stats.resultSlices += 2
}

func (cl *caller) scribbleBlock(k *hclwrite.Block) {
	if k == nil {
		return
	}
	ls := k.Labels()
	for i := range ls {
		ls[i] = "SCRIBBLED"
	}
	cl.stats.resultSlices++
	cl.built(k.BuildTokens)
	cl.scribbleBody(k.Body())
}

func (cl *caller) scribbleBody(b *hclwrite.Body) {
	if b == nil {
		return
	}
	attrs := b.Attributes()
	for name, a := range attrs {
		cl.scribbleAttr(a)
		delete(attrs, name)
	}
	attrs["scribbled"] = nil
	blocks := b.Blocks()
	for _, k := range blocks {
		cl.scribbleBlock(k)
	}
	for i := range blocks {
		blocks[i] = nil
	}
	cl.built(b.BuildTokens)
	cl.stats.resultSlices += 2
}

// scribbleResults: what the call returned and what every reader of the file
// returns now is modified by the caller. format: also File.Bytes() (formats the
// tree's tokens in place: never on the instance whose spacing is observed).
func (in *inst) scribbleResults(res *opResult, format bool) {
	cl := in.cl
	if cl == nil {
		return
	}
	defer func() { recover() }() // a reader that panics is the oracle's business
	if res != nil && res.attr != nil {
		cl.scribbleAttr(res.attr)
	}
	cl.scribbleBody(in.f.Body())
	for _, k := range in.shelf {
		cl.scribbleBlock(k)
	}
	cl.built(in.f.BuildTokens)
	if format {
		bs := in.f.Bytes()
		for i := range bs {
			bs[i] = 'Z'
		}
		cl.stats.resultSlices++
	}
	cl.stats.opsScribbledRes++
}

// ---- Body.AppendUnstructuredTokens: probe and restore --------------------------------------

// appendRawRetains decides, right after body.AppendUnstructuredTokens(arg), whether
// the tree holds on to the caller's slice: one cell of arg is replaced, the node
// the call appended is looked at through the dump hook, the cell is put back.
func (in *inst) appendRawRetains(path []int, arg hclwrite.Tokens) (retained bool) {
	if len(arg) == 0 {
		return false
	}
	defer func() {
		if recover() != nil {
			retained = false
		}
	}()
	orig := arg[0]
	probe := junkTok(-1)
	arg[0] = probe
	defer func() { arg[0] = orig }()
	b := dumpBodyAt(in, path)
	if b == nil || len(b.Children) == 0 {
		return false
	}
	last := b.Children[len(b.Children)-1]
	return last.Kind == "Tokens" && len(last.Tokens) > 0 && last.Tokens[0] == probe
}

// ---- raw-token arguments built through the public generator functions --------------------

// rawRefTokens: the tokens a raw-token operation is MEANT to pass, computed
// without the API under test: the scanner's tokens of o.Raw, or (o.Via) the
// documented output of TokensForTuple / TokensForFunctionCall / TokensForObject
// put together by hand from freshly lexed pieces and spaced by the formatter.
func rawRefTokens(o hop) hclwrite.Tokens {
	if o.Via == "" {
		return lexTokens(o.Raw)
	}
	tk := func(ty hclsyntax.TokenType, s string) *hclwrite.Token {
		return &hclwrite.Token{Type: ty, Bytes: []byte(s)}
	}
	var ts hclwrite.Tokens
	switch o.Via {
	case "tuple":
		ts = append(ts, tk(hclsyntax.TokenOBrack, "["))
		for i, p := range o.Parts {
			if i > 0 {
				ts = append(ts, tk(hclsyntax.TokenComma, ","))
			}
			ts = append(ts, lexTokens(p)...)
		}
		ts = append(ts, tk(hclsyntax.TokenCBrack, "]"))
	case "call":
		ts = append(ts, tk(hclsyntax.TokenIdent, o.Fn), tk(hclsyntax.TokenOParen, "("))
		for i, p := range o.Parts {
			if i > 0 {
				ts = append(ts, tk(hclsyntax.TokenComma, ","))
			}
			ts = append(ts, lexTokens(p)...)
		}
		ts = append(ts, tk(hclsyntax.TokenCParen, ")"))
	case "object":
		ts = append(ts, tk(hclsyntax.TokenOBrace, "{"))
		if len(o.Parts) >= 2 {
			ts = append(ts, tk(hclsyntax.TokenNewline, "\n"))
		}
		for i := 0; i+1 < len(o.Parts); i += 2 {
			ts = append(ts, lexTokens(o.Parts[i])...)
			ts = append(ts, tk(hclsyntax.TokenEqual, "="))
			ts = append(ts, lexTokens(o.Parts[i+1])...)
			ts = append(ts, tk(hclsyntax.TokenNewline, "\n"))
		}
		ts = append(ts, tk(hclsyntax.TokenCBrace, "}"))
	default:
		panic("unknown via " + o.Via)
	}
	hclwrite.VerifFormat(ts)
	return ts
}

// piece: one element argument of a generator function, cut from a second shared
// backing array (all pieces of one call lie side by side in it).
func (cl *caller) piece(fresh hclwrite.Tokens, off *int) hclwrite.Tokens {
	if cl == nil {
		return fresh
	}
	if *off+len(fresh)+1 > cap(cl.parts) {
		cl.parts = make(hclwrite.Tokens, 2*(*off+len(fresh))+32)
		*off = 0
		// (pieces handed out before for THIS call stay valid in the old array)
	}
	p := append(cl.parts[*off:*off:*off+len(fresh)+1], fresh...)
	*off += len(fresh) + 1
	return p
}

// rawArg: the raw-token argument of o as the caller of this instance builds it.
func (in *inst) rawArg(o hop) hclwrite.Tokens {
	cl := in.cl
	if o.Via == "" {
		return cl.tokens(lexTokens(o.Raw))
	}
	off := 0
	pieces := make([]hclwrite.Tokens, len(o.Parts), len(o.Parts)+2)
	for i, p := range o.Parts {
		pieces[i] = cl.piece(lexTokens(p), &off)
	}
	var r hclwrite.Tokens
	switch o.Via {
	case "tuple":
		r = hclwrite.TokensForTuple(pieces)
	case "call":
		r = hclwrite.TokensForFunctionCall(o.Fn, pieces...)
	case "object":
		attrs := make([]hclwrite.ObjectAttrTokens, 0, len(pieces)/2+1)
		for i := 0; i+1 < len(pieces); i += 2 {
			attrs = append(attrs, hclwrite.ObjectAttrTokens{Name: pieces[i], Value: pieces[i+1]})
		}
		r = hclwrite.TokensForObject(attrs)
		if cl != nil {
			for i := range attrs {
				attrs[i] = hclwrite.ObjectAttrTokens{Name: hclwrite.Tokens{junkTok(i)}}
			}
		}
	default:
		panic("unknown via " + o.Via)
	}
	if cl == nil {
		return r
	}
	// the generator function has returned: its arguments are the caller's again
	cl.stats.viaCalls++
	if cl.mode == callerScribbler {
		for i, p := range pieces {
			scribbleTokens(p, cl.n+i)
			pieces[i] = nil
		}
	}
	arg := cl.tokens(r) // copies the cells of r into the shared array ...
	scribbleTokens(r, cl.n)
	cl.stats.resultSlices++ // ... and r itself, a result of the API, is scribbled over
	return arg
}
