package main

// C12 — Any sequence of writer-API edits leaves a valid file that matches the edits.
//
// Correspondence: every history is executed on the real hclwrite tree; the
// initial tree (hook VerifDumpFile), the operations and, after EVERY step, the
// tokens before formatting (hook VerifFileTokens), the readers' answers
// (Attributes/GetAttribute/Expr, Blocks/Type/Labels/Body, recursively) and the
// panic flag are printed as a Coq case for Write/TreeCheck.v.
//
// Direct oracle (real code only, against the Go-side mirror in mirror.go):
// readers agree with the mirror; hclsyntax.ParseConfig(file.Bytes()) has no
// errors and the same attributes/blocks/labels as the mirror; items not named
// by an operation keep their exact tokens; no panic; the heap invariants
// reported by the dump hook hold.

import (
	"encoding/json"
	"fmt"
	"math/big"
	"os"
	"path/filepath"
	"sort"
	"strings"

	"github.com/hashicorp/hcl/v2"
	"github.com/hashicorp/hcl/v2/hclsyntax"
	"github.com/hashicorp/hcl/v2/hclwrite"
	"github.com/zclconf/go-cty/cty"
	"hclverif/hv"
)

func main() { hv.Main(map[string]func(*hv.RunCfg) error{"c12": runC12}) }

// ---- executing a history on the real code -----------------------------------------

type inst struct {
	f     *hclwrite.File
	shelf []*hclwrite.Block
	cl    *caller // nil: every call gets fresh arguments (caller.go)
	agree agreeStats // what the readers-agree oracle compared on this instance (agree.go)
}

func newInst(c *tcase) *inst {
	if c.Parsed {
		src := []byte(c.Src)
		f, diags := hclwrite.ParseConfig(src, "", hcl.InitialPos)
		if diags.HasErrors() {
			panic("initial text does not parse: " + diags.Error())
		}
		if c.Caller != callerFresh {
			// the source buffer is the caller's again (caller.go)
			for i := range src {
				src[i] = 'Z'
			}
		}
		return &inst{f: f, cl: newCaller(c.Caller)}
	}
	return &inst{f: hclwrite.NewEmptyFile(), cl: newCaller(c.Caller)}
}

func (in *inst) bodyAt(p []int) *hclwrite.Body {
	b := in.f.Body()
	for _, i := range p {
		bl := b.Blocks()
		if i < 0 || i >= len(bl) {
			return nil
		}
		b = bl[i].Body()
	}
	return b
}

// result of one operation as seen by the caller of the API
type opResult struct {
	attr     *hclwrite.Attribute
	hasAttr  bool // the call returns *Attribute
	flag     bool
	hasFlag  bool // the call returns bool
	panicked any
	retained bool // Body.AppendUnstructuredTokens kept the caller's slice (aliasing callers only)
}

func (in *inst) apply(o hop) (res opResult) {
	defer func() {
		if r := recover(); r != nil {
			res.panicked = r
		}
		// the call is over: the arguments are the caller's again (caller.go)
		in.cl.afterCall(o.String())
	}()
	b := in.bodyAt(o.Path)
	if b == nil {
		return
	}
	switch o.Kind {
	case opSetVal:
		res.attr, res.hasAttr = b.SetAttributeValue(o.Name, o.value()), true
	case opSetTrav:
		res.attr, res.hasAttr = b.SetAttributeTraversal(o.Name, in.cl.travArg(o.traversal())), true
	case opSetRaw:
		res.attr, res.hasAttr = b.SetAttributeRaw(o.Name, in.rawArg(o)), true
	case opRename:
		res.flag, res.hasFlag = b.RenameAttribute(o.Name, o.To), true
	case opRemoveAttr:
		res.attr, res.hasAttr = b.RemoveAttribute(o.Name), true
	case opAppendNewBlock:
		b.AppendNewBlock(o.Name, in.cl.labelArg(o.Labels))
	case opRemoveBlock:
		bl := b.Blocks()
		if o.Index >= 0 && o.Index < len(bl) {
			res.flag, res.hasFlag = b.RemoveBlock(bl[o.Index]), true
			in.shelf = append(in.shelf, bl[o.Index])
		}
	case opAppendBlock:
		if o.Index >= 0 && o.Index < len(in.shelf) {
			k := in.shelf[o.Index]
			in.shelf = append(in.shelf[:o.Index:o.Index], in.shelf[o.Index+1:]...)
			b.AppendBlock(k)
		}
	case opSetType:
		bl := b.Blocks()
		if o.Index >= 0 && o.Index < len(bl) {
			bl[o.Index].SetType(o.Name)
		}
	case opSetLabels:
		bl := b.Blocks()
		if o.Index >= 0 && o.Index < len(bl) {
			bl[o.Index].SetLabels(in.cl.labelArg(o.Labels))
		}
	case opAppendNewline:
		b.AppendNewline()
	case opAppendRaw:
		arg := in.cl.tokens(lexTokens(o.Raw))
		b.AppendUnstructuredTokens(arg)
		if in.cl != nil && in.appendRawRetains(o.Path, arg) {
			// the tree holds on to the caller's slice: reported under its own kind; the caller leaves
			// that memory alone from now on so that the rest of the history stays meaningful
			res.retained = true
			in.cl.stats.appendRawRetains++
			in.cl.abandonTokens()
		}
	case opClear:
		b.Clear()
	}
	return
}

// ---- printing Coq terms ------------------------------------------------------------

func coqTok(t *hclwrite.Token) string {
	return fmt.Sprintf("T %s %s %s", hv.CoqZ(int(t.Type)), hv.Hexs(t.Bytes), hv.CoqZ(t.SpacesBefore))
}

func coqToks(ts hclwrite.Tokens) string {
	items := make([]string, len(ts))
	for i, t := range ts {
		items[i] = coqTok(t)
	}
	return hv.CoqList(items)
}

func hbytes(s string) string { return "(H " + hv.Hexs([]byte(s)) + ")" }

// token stream encoding shared with TreeCheck.enc_toks
func encToks(ts hclwrite.Tokens) []byte {
	var out []byte
	for _, t := range ts {
		ty, sp, n := int(t.Type), t.SpacesBefore, len(t.Bytes)
		out = append(out, byte(ty>>16), byte(ty>>8), byte(ty), byte(sp>>8), byte(sp), byte(n>>16), byte(n>>8), byte(n))
		out = append(out, t.Bytes...)
	}
	return out
}

type coqPrinter struct {
	unesc map[string]bool // raw quoted-literal bytes seen
	err   error
}

func (p *coqPrinter) fail(format string, args ...any) {
	if p.err == nil {
		p.err = fmt.Errorf(format, args...)
	}
}

func (p *coqPrinter) noteQuoted(ts hclwrite.Tokens) {
	for _, t := range ts {
		if t.Type == hclsyntax.TokenQuotedLit {
			p.unesc[string(t.Bytes)] = true
		}
	}
}

func (p *coqPrinter) leaf(n *hclwrite.VerifNode) string {
	switch n.Kind {
	case "Tokens", "number":
		return "LTokens " + coqToks(n.Tokens)
	case "comments":
		return "LComments " + coqToks(n.Tokens)
	case "identifier":
		if len(n.Tokens) != 1 {
			p.fail("identifier with %d tokens", len(n.Tokens))
			return "LTokens []"
		}
		return "LIdent (" + coqTok(n.Tokens[0]) + ")"
	case "quoted":
		p.noteQuoted(n.Tokens)
		return "LQuoted " + coqToks(n.Tokens)
	case "Expression":
		return "LExpr " + coqToks(n.Tokens)
	}
	p.fail("unexpected leaf kind %s", n.Kind)
	return "LTokens []"
}

func (p *coqPrinter) handle(n *hclwrite.VerifNode, name string) int {
	i, ok := n.Handles[name]
	if !ok {
		p.fail("missing handle %s", name)
		return 0
	}
	if i == -2 {
		p.fail("handle %s is stale in an initial tree", name)
		return 0
	}
	return i + 1 // ids are positions + 1; nil (-1) becomes 0
}

func (p *coqPrinter) leaves(ch []*hclwrite.VerifNode) string {
	items := make([]string, len(ch))
	for i, c := range ch {
		items[i] = fmt.Sprintf("(%d, %s)", i+1, p.leaf(c))
	}
	return hv.CoqList(items)
}

func (p *coqPrinter) itemIDs(ch []*hclwrite.VerifNode) string {
	var ids []int
	for i, c := range ch {
		if c.InItems {
			ids = append(ids, i+1)
		}
	}
	return hv.CoqZList(ids)
}

func (p *coqPrinter) attr(n *hclwrite.VerifNode) string {
	return fmt.Sprintf("mkAttr %s %d %d %d %d", p.leaves(n.Children),
		p.handle(n, "leadComments"), p.handle(n, "name"), p.handle(n, "expr"), p.handle(n, "lineComments"))
}

func (p *coqPrinter) block(n *hclwrite.VerifNode) string {
	bi := -1
	for i, c := range n.Children {
		if c.Kind == "Body" {
			if bi >= 0 {
				p.fail("block with two bodies")
			}
			bi = i
		}
	}
	if bi < 0 {
		p.fail("block without body")
		return "new_block [] []"
	}
	kl := func(from, to int) string {
		var items []string
		for i := from; i < to; i++ {
			c := n.Children[i]
			if c.Kind == "blockLabels" {
				items = append(items, fmt.Sprintf("(%d, KLabels (mkLabels %s %s))", i+1, p.leaves(c.Children), p.itemIDs(c.Children)))
			} else {
				items = append(items, fmt.Sprintf("(%d, KLeaf (%s))", i+1, p.leaf(c)))
			}
		}
		return hv.CoqList(items)
	}
	return fmt.Sprintf("mkBlock %s %d (%s) %s %d %d %d %d %d %d",
		kl(0, bi), bi+1, p.body(n.Children[bi]), kl(bi+1, len(n.Children)),
		p.handle(n, "leadComments"), p.handle(n, "typeName"), p.handle(n, "labels"),
		p.handle(n, "open"), p.handle(n, "body"), p.handle(n, "close"))
}

func (p *coqPrinter) body(n *hclwrite.VerifNode) string {
	items := make([]string, len(n.Children))
	for i, c := range n.Children {
		switch c.Kind {
		case "Tokens":
			items[i] = fmt.Sprintf("(%d, ITokens %s)", i+1, coqToks(c.Tokens))
		case "Attribute":
			items[i] = fmt.Sprintf("(%d, IAttr (%s))", i+1, p.attr(c))
		case "Block":
			items[i] = fmt.Sprintf("(%d, IBlock (%s))", i+1, p.block(c))
		default:
			p.fail("unexpected body child kind %s", c.Kind)
		}
	}
	return fmt.Sprintf("mkBody %s %s", hv.CoqList(items), p.itemIDs(n.Children))
}

func (p *coqPrinter) state(d *hclwrite.VerifNode, shelf []*hclwrite.Block) string {
	bi, ok := d.Handles["body"]
	if !ok || bi < 0 || bi >= len(d.Children) || d.Children[bi].Kind != "Body" {
		p.fail("file without body")
		return ""
	}
	var pre, post hclwrite.Tokens
	for i, c := range d.Children {
		if i == bi {
			continue
		}
		if c.Kind != "Tokens" {
			p.fail("unexpected file child kind %s", c.Kind)
		}
		if i < bi {
			pre = append(pre, c.Tokens...)
		} else {
			post = append(post, c.Tokens...)
		}
	}
	sh := make([]string, len(shelf))
	for i, k := range shelf {
		sh[i] = p.block(hclwrite.VerifDumpBlock(k))
	}
	return fmt.Sprintf("mkState %s (%s) %s %s", coqToks(pre), p.body(d.Children[bi]), coqToks(post), hv.CoqList(sh))
}

// labelToks: the tokens blockLabels.Replace generates for each label (an input of
// the model: generate.go and the scanner are not part of it). They are taken from
// the real code path: the labels node of NewBlock("x", labels).
func (p *coqPrinter) labelToks(ls []string) string {
	items := make([]string, 0, len(ls))
	d := hclwrite.VerifDumpBlock(hclwrite.NewBlock("x", ls))
	for _, c := range d.Children {
		if c.Kind != "blockLabels" {
			continue
		}
		for _, l := range c.Children {
			if l.Kind != "quoted" || !l.InItems {
				p.fail("unexpected label node %s written by the API", l.Kind)
			}
			p.noteQuoted(l.Tokens)
			items = append(items, coqToks(l.Tokens))
		}
	}
	if len(items) != len(ls) {
		p.fail("NewBlock wrote %d label nodes for %d labels", len(items), len(ls))
	}
	return hv.CoqList(items)
}

func (p *coqPrinter) op(o hop) string {
	path := hv.CoqZList(o.Path)
	switch o.Kind {
	case opSetVal:
		return fmt.Sprintf("OSetAttr %s %s %s", path, hbytes(o.Name), coqToks(hclwrite.NewExpressionLiteral(o.value()).BuildTokens(nil)))
	case opSetTrav:
		return fmt.Sprintf("OSetAttr %s %s %s", path, hbytes(o.Name), coqToks(hclwrite.NewExpressionAbsTraversal(o.traversal()).BuildTokens(nil)))
	case opSetRaw:
		return fmt.Sprintf("OSetAttr %s %s %s", path, hbytes(o.Name), coqToks(rawRefTokens(o)))
	case opRename:
		return fmt.Sprintf("ORenameAttr %s %s %s", path, hbytes(o.Name), hbytes(o.To))
	case opRemoveAttr:
		return fmt.Sprintf("ORemoveAttr %s %s", path, hbytes(o.Name))
	case opAppendNewBlock:
		return fmt.Sprintf("OAppendNewBlock %s %s %s", path, hbytes(o.Name), p.labelToks(o.Labels))
	case opRemoveBlock:
		return fmt.Sprintf("ORemoveBlock %s %s", path, hv.CoqZ(o.Index))
	case opAppendBlock:
		return fmt.Sprintf("OAppendBlock %s %s", path, hv.CoqZ(o.Index))
	case opSetType:
		return fmt.Sprintf("OSetType %s %s %s", path, hv.CoqZ(o.Index), hbytes(o.Name))
	case opSetLabels:
		return fmt.Sprintf("OSetLabels %s %s %s", path, hv.CoqZ(o.Index), p.labelToks(o.Labels))
	case opAppendNewline:
		return fmt.Sprintf("OAppendRaw %s [T %d \"0a\" 0]", path, int(hclsyntax.TokenNewline))
	case opAppendRaw:
		return fmt.Sprintf("OAppendRaw %s %s", path, coqToks(lexTokens(o.Raw)))
	case opClear:
		return fmt.Sprintf("OClear %s", path)
	}
	return "?"
}

// observeBody: the readers' answers, recursively (attributes sorted by name)
func observeBody(b *hclwrite.Body) string {
	attrs := b.Attributes()
	names := make([]string, 0, len(attrs))
	for n := range attrs {
		names = append(names, n)
	}
	sort.Strings(names)
	as := make([]string, len(names))
	for i, n := range names {
		a := b.GetAttribute(n)
		as[i] = fmt.Sprintf("(%s, %s)", hv.Hexs([]byte(n)), hv.Hexs(encToks(a.Expr().BuildTokens(nil))))
	}
	bl := b.Blocks()
	bs := make([]string, len(bl))
	for i, k := range bl {
		ls := k.Labels()
		lh := make([]string, len(ls))
		for j, l := range ls {
			lh[j] = hv.Hexs([]byte(l))
		}
		bs[i] = fmt.Sprintf("(%s, %s, %s)", hv.Hexs([]byte(k.Type())), hv.CoqList(lh), observeBody(k.Body()))
	}
	return fmt.Sprintf("OB %s %s", hv.CoqList(as), hv.CoqList(bs))
}

func be3(n int) []byte         { return []byte{byte(n >> 16), byte(n >> 8), byte(n)} }
func serBytes(b []byte) []byte { return append(be3(len(b)), b...) }

// serBody: canonical bytes of the readers' answers, shared with TreeCheck.ser_bobs
func serBody(b *hclwrite.Body) []byte {
	attrs := b.Attributes()
	names := make([]string, 0, len(attrs))
	for n := range attrs {
		names = append(names, n)
	}
	sort.Strings(names)
	out := append([]byte{65}, be3(len(names))...)
	for _, n := range names {
		out = append(out, serBytes([]byte(n))...)
		out = append(out, serBytes(encToks(b.GetAttribute(n).Expr().BuildTokens(nil)))...)
	}
	bl := b.Blocks()
	out = append(out, 66)
	out = append(out, be3(len(bl))...)
	for _, k := range bl {
		out = append(out, serBytes([]byte(k.Type()))...)
		ls := k.Labels()
		out = append(out, be3(len(ls))...)
		for _, l := range ls {
			out = append(out, serBytes([]byte(l))...)
		}
		out = append(out, serBody(k.Body())...)
	}
	return out
}

// checksum shared with TreeCheck.fp: bytes packed 24 at a time (leading 1),
// [n; S0; S1; S2] exact integer sums
func fp(bs []byte) string {
	n := 0
	s0, s1, s2 := new(big.Int), new(big.Int), new(big.Int)
	for i := 0; i < len(bs); i += 24 {
		j := i + 24
		if j > len(bs) {
			j = len(bs)
		}
		e := new(big.Int).SetBytes(append([]byte{1}, bs[i:j]...))
		n++
		s0.Add(s0, e)
		s1.Add(s1, s0)
		s2.Add(s2, s1)
	}
	return fmt.Sprintf("[%d; %s; %s; %s]", n, s0, s1, s2)
}

// observe: the observation of instance in, as an exact Coq term (full) and as
// the bytes that go into the case's checksum
func observe(in *inst, full bool) (s string, sum []byte, panicked any) {
	defer func() {
		if r := recover(); r != nil {
			panicked = r
			s = "ObsPanic"
		}
	}()
	toks := hclwrite.VerifFileTokens(in.f)
	if full {
		return fmt.Sprintf("ObsOk %s (%s)", hv.Hexs(encToks(toks)), observeBody(in.f.Body())), nil, nil
	}
	sum = append(encToks(toks), 255)
	sum = append(sum, serBody(in.f.Body())...)
	sum = append(sum, 254)
	return "ObsSum", sum, nil
}

func (p *coqPrinter) unescTable() string {
	keys := make([]string, 0, len(p.unesc))
	for k := range p.unesc {
		keys = append(keys, k)
	}
	sort.Strings(keys)
	items := make([]string, len(keys))
	for i, k := range keys {
		s, diags := hclsyntax.ParseStringLiteralToken(hclsyntax.Token{Type: hclsyntax.TokenQuotedLit, Bytes: []byte(k)})
		if diags.HasErrors() {
			items[i] = fmt.Sprintf("(%s, None)", hv.Hexs([]byte(k)))
		} else {
			items[i] = fmt.Sprintf("(%s, Some %s)", hv.Hexs([]byte(k)), hv.Hexs([]byte(s)))
		}
	}
	return hv.CoqList(items)
}

func wrapObs(s string) string {
	if strings.Contains(s, " ") {
		return "(" + s + ")"
	}
	return s
}

// ---- the direct oracle ------------------------------------------------------------------

type sigMap map[any]string

func collectItems(b *hclwrite.Body, into sigMap) {
	for _, a := range b.Attributes() {
		into[a] = tokSig(a.BuildTokens(nil))
	}
	for _, k := range b.Blocks() {
		into[k] = tokSig(k.BuildTokens(nil))
		collectItems(k.Body(), into)
	}
}

func collectAll(in *inst) (m sigMap) {
	m = sigMap{}
	defer func() { recover() }()
	collectItems(in.f.Body(), m)
	for _, k := range in.shelf {
		m[k] = tokSig(k.BuildTokens(nil))
		collectItems(k.Body(), m)
	}
	return m
}

// touchedBy: the items an operation names: the target item and the blocks that
// enclose the target body.
func touchedBy(in *inst, o hop) (t map[any]bool) {
	t = map[any]bool{}
	defer func() { recover() }()
	b := in.f.Body()
	for _, i := range o.Path {
		bl := b.Blocks()
		if i < 0 || i >= len(bl) {
			return
		}
		t[bl[i]] = true
		b = bl[i].Body()
	}
	switch o.Kind {
	case opSetVal, opSetTrav, opSetRaw, opRename, opRemoveAttr:
		if a := b.GetAttribute(o.Name); a != nil {
			t[a] = true
		}
	case opRemoveBlock, opSetType, opSetLabels:
		bl := b.Blocks()
		if o.Index >= 0 && o.Index < len(bl) {
			t[bl[o.Index]] = true
		}
	case opClear:
		m := sigMap{}
		collectItems(b, m)
		for k := range m {
			t[k] = true
		}
	}
	return
}

func endsLine(ts hclwrite.Tokens) bool {
	if len(ts) == 0 {
		return true
	}
	l := ts[len(ts)-1]
	if l.Type == hclsyntax.TokenNewline {
		return true
	}
	return l.Type == hclsyntax.TokenComment && len(l.Bytes) > 0 && l.Bytes[len(l.Bytes)-1] == '\n'
}

func flatTokens(n *hclwrite.VerifNode) hclwrite.Tokens {
	if len(n.Children) == 0 {
		return n.Tokens
	}
	var out hclwrite.Tokens
	for _, c := range n.Children {
		out = append(out, flatTokens(c)...)
	}
	return out
}

// bodyUnterminated: the tokens in front of the place where an appended item
// would go do not end a line (file without final newline, one-line block).
// lastChildUnterminated: the last child of the body at path (post-state) does not end its line.
func lastChildUnterminated(in *inst, path []int) (un bool) {
	defer func() {
		if recover() != nil {
			un = false
		}
	}()
	d := hclwrite.VerifDumpFile(in.f)
	target, _ := bodyNodeAt(d, path)
	if target == nil || len(target.Children) == 0 {
		return false
	}
	return !endsLine(flatTokens(target.Children[len(target.Children)-1]))
}

func bodyUnterminated(in *inst, path []int) (un bool) {
	defer func() { recover() }()
	d := hclwrite.VerifDumpFile(in.f)
	cur := d.Children[d.Handles["body"]]
	var before hclwrite.Tokens
	for i := 0; i < d.Handles["body"]; i++ {
		before = append(before, flatTokens(d.Children[i])...)
	}
	for _, i := range path {
		n := 0
		var blk *hclwrite.VerifNode
		for _, c := range cur.Children {
			if c.Kind == "Block" && c.InItems {
				if n == i {
					blk = c
					break
				}
				n++
			}
		}
		if blk == nil {
			return false
		}
		before = nil
		for _, c := range blk.Children {
			if c.Kind == "Body" {
				cur = c
				break
			}
			before = append(before, flatTokens(c)...)
		}
	}
	if len(cur.Children) > 0 {
		return !endsLine(flatTokens(cur))
	}
	return !endsLine(before)
}

// dumpBodyAt returns the dump of the body at the given path and the tokens that
// precede it inside its block (nil for the root body).
func dumpBodyAt(in *inst, path []int) (cur *hclwrite.VerifNode) {
	defer func() {
		if recover() != nil {
			cur = nil
		}
	}()
	d := hclwrite.VerifDumpFile(in.f)
	cur = d.Children[d.Handles["body"]]
	for _, i := range path {
		n := 0
		var blk *hclwrite.VerifNode
		for _, c := range cur.Children {
			if c.Kind == "Block" && c.InItems {
				if n == i {
					blk = c
					break
				}
				n++
			}
		}
		if blk == nil {
			return nil
		}
		cur = nil
		for _, c := range blk.Children {
			if c.Kind == "Body" {
				cur = c
				break
			}
		}
		if cur == nil {
			return nil
		}
	}
	return cur
}

// removesBraceLineComment: the operation removes the FIRST child of a nested
// body and that child starts with a comment token, i.e. the comment written
// after the opening brace (`b { # c`), which the loader files as the lead
// comment of the first item although it is the line end of the brace line.
func removesBraceLineComment(in *inst, o hop) bool {
	if len(o.Path) == 0 || (o.Kind != opRemoveAttr && o.Kind != opRemoveBlock) {
		return false
	}
	b := dumpBodyAt(in, o.Path)
	if b == nil || len(b.Children) == 0 {
		return false
	}
	// ... and it really is ON the brace line: the block's tokens in front of the body do not end the line
	// (`b {` newline `# c` is an ordinary lead comment on its own line: not the finding)
	if _, open := bodyNodeAt(hclwrite.VerifDumpFile(in.f), o.Path); endsLine(open) {
		return false
	}
	first := b.Children[0]
	ts := flatTokens(first)
	if !first.InItems || len(ts) == 0 || ts[0].Type != hclsyntax.TokenComment {
		return false
	}
	switch o.Kind {
	case opRemoveAttr:
		if first.Kind != "Attribute" {
			return false
		}
		i := first.Handles["name"]
		return i >= 0 && i < len(first.Children) && len(first.Children[i].Tokens) == 1 && string(first.Children[i].Tokens[0].Bytes) == o.Name
	case opRemoveBlock:
		return first.Kind == "Block" && o.Index == 0
	}
	return false
}

// bodyNodeAt finds, inside ONE dump, the body at path and the tokens of its block that precede it (the
// opening brace; nil for the root body).
func bodyNodeAt(d *hclwrite.VerifNode, path []int) (cur *hclwrite.VerifNode, open hclwrite.Tokens) {
	defer func() {
		if recover() != nil {
			cur, open = nil, nil
		}
	}()
	cur = d.Children[d.Handles["body"]]
	for _, i := range path {
		n := 0
		var blk *hclwrite.VerifNode
		for _, c := range cur.Children {
			if c.Kind == "Block" && c.InItems {
				if n == i {
					blk = c
					break
				}
				n++
			}
		}
		if blk == nil {
			return nil, nil
		}
		cur, open = nil, nil
		for _, c := range blk.Children {
			if c.Kind == "Body" {
				cur = c
				break
			}
			open = append(open, flatTokens(c)...)
		}
		if cur == nil {
			return nil, nil
		}
	}
	return cur, open
}

// repairedClean decides whether a reparse failure is explained by one of the two pinned line-break
// findings and by nothing else: the tree of instance b is serialised again with the missing line breaks
// put back - a newline after the opening brace of the body at path when the brace line is not terminated,
// and (beforeLast) a newline in front of the body's last child, the item just appended - and that text
// must parse and agree with the mirror in every respect checkReparse looks at.
func repairedClean(b *inst, m *mirror, path []int, beforeLast bool, afterLastOpt ...bool) (clean bool) {
	afterLast := len(afterLastOpt) > 0 && afterLastOpt[0]
	defer func() {
		if recover() != nil {
			clean = false
		}
	}()
	d := hclwrite.VerifDumpFile(b.f)
	target, open := bodyNodeAt(d, path)
	if target == nil {
		return false
	}
	afterBrace := len(path) > 0 && !endsLine(open)
	if !afterBrace && !beforeLast && !afterLast {
		return false
	}
	nl := func() *hclwrite.Token { return &hclwrite.Token{Type: hclsyntax.TokenNewline, Bytes: []byte{'\n'}} }
	var toks hclwrite.Tokens
	var walk func(n *hclwrite.VerifNode)
	walk = func(n *hclwrite.VerifNode) {
		if n == target {
			if afterBrace {
				toks = append(toks, nl())
			}
			for i, c := range n.Children {
				if beforeLast && i == len(n.Children)-1 && !(afterBrace && i == 0) {
					toks = append(toks, nl())
				}
				walk(c)
				if afterLast && i == len(n.Children)-1 {
					toks = append(toks, nl())
				}
			}
			return
		}
		if len(n.Children) == 0 {
			for _, t := range n.Tokens {
				toks = append(toks, &hclwrite.Token{Type: t.Type, Bytes: t.Bytes, SpacesBefore: t.SpacesBefore})
			}
			return
		}
		for _, c := range n.Children {
			walk(c)
		}
	}
	walk(d)
	hclwrite.VerifFormat(toks)
	sf, diags := hclsyntax.ParseConfig(toks.Bytes(), "", hcl.InitialPos)
	if diags.HasErrors() {
		return false
	}
	var rf []oracleFail
	checkReparse(sf.Body.(*hclsyntax.Body), m.root, "", &rf)
	return len(rf) == 0
}

func collectProblems(n *hclwrite.VerifNode, path string, out *[]string) {
	for _, p := range n.Problems {
		*out = append(*out, path+n.Kind+": "+p)
	}
	for i, c := range n.Children {
		collectProblems(c, fmt.Sprintf("%s%s[%d].", path, n.Kind, i), out)
	}
}

func anyMirror(b *mBody, f func(*mItem, *mBody) bool) bool {
	if f(nil, b) {
		return true
	}
	for _, it := range b.items {
		if f(it, nil) {
			return true
		}
		if it.isBlock && anyMirror(it.body, f) {
			return true
		}
	}
	return false
}

var fatalKinds = map[string]bool{
	"remove-item-owning-brace-line-comment": true,
	"clear-leaves-items":                    true, "append-after-unterminated-item": true, "reparse-error": true,
	"append-block-without-trailing-newline": true,
	"reparse-differs": true, "panic": true, "wf-broken": true, "reader-disagrees": true, "untouched-changed": true,
}

type caseResult struct {
	coq      string
	fails    []oracleFail // at most one per kind, the first
	failStep map[string]int
	steps    int
	panicked bool
	err      error
	cstats   callerStats // what the aliasing / scribbling caller did (instance B)
	astats   agreeStats  // what the readers-agree oracle compared (instance B)
}

func (r *caseResult) has(kind string) bool { _, ok := r.failStep[kind]; return ok }

// runCase executes one case on two independent instances of the real tree:
// A is only observed (never formatted), B is the one the oracle works on
// (Bytes() formats tokens in place, which would otherwise leak into A's
// SpacesBefore observations).
func runCase(c *tcase, emit bool, full bool) (res *caseResult) {
	res = &caseResult{failStep: map[string]int{}}
	defer func() {
		if r := recover(); r != nil {
			res.err = fmt.Errorf("harness: %v", r)
		}
	}()
	a, b := newInst(c), newInst(c)
	defer func() {
		if b.cl != nil {
			res.cstats = b.cl.stats
		}
		res.astats = b.agree
	}()
	m := newMirror()
	if c.Parsed {
		m.loadSource(c.Src)
	}
	for _, o := range c.Pre {
		ra, rb := a.apply(o), b.apply(o)
		if ra.panicked != nil || rb.panicked != nil {
			res.err = fmt.Errorf("panic while building the initial file: %v", ra.panicked)
			return
		}
		m.apply(o)
		a.scribbleResults(&ra, false)
		b.scribbleResults(&rb, true)
	}
	pr := &coqPrinter{unesc: map[string]bool{}}
	var init, obs0 string
	var hist []string
	var sum []byte
	if emit {
		init = pr.state(hclwrite.VerifDumpFile(a.f), a.shelf)
		obs0, sum, _ = observe(a, full)
	}
	oracleOn := true
	report := func(step int, fs []oracleFail) {
		for _, f := range fs {
			if !res.has(f.kind) {
				res.failStep[f.kind] = step
				f.detail = fmt.Sprintf("after step %d: %s", step, f.detail)
				res.fails = append(res.fails, f)
			}
			if fatalKinds[f.kind] {
				oracleOn = false
			}
		}
	}
	// the oracle on the initial file
	report(0, oracleStep(b, m, nil, nil, nil, false, false))
	for i, o := range c.Ops {
		step := i + 1
		res.steps = step
		// instance B first: what it needs from the pre-state
		var before sigMap
		var touched map[any]bool
		unterminated, braceComment := false, false
		if oracleOn {
			before = collectAll(b)
			touched = touchedBy(b, o)
			unterminated = bodyUnterminated(b, o.Path)
			braceComment = removesBraceLineComment(b, o)
		}
		wasRetyped := false
		if o.Kind == opSetType {
			if mb := m.bodyAt(o.Path); mb != nil {
				if bl := mb.blocks(); o.Index >= 0 && o.Index < len(bl) {
					wasRetyped = bl[o.Index].retyped
				}
			}
		}
		mb := m.bodyAt(o.Path)
		hadName, hadTo := false, false
		if mb != nil {
			hadName, hadTo = mb.has(o.Name), mb.has(o.To)
		}
		ra := a.apply(o)
		rb := b.apply(o)
		m.apply(o)
		if ra.panicked == nil && rb.panicked == nil {
			// the caller modifies everything the API handed back BEFORE anything is observed
			a.scribbleResults(&ra, false)
			b.scribbleResults(&rb, true)
		}
		if emit {
			ob := "ObsPanic"
			if ra.panicked != nil {
				sum = append(sum, 253)
			} else {
				var p any
				var sb []byte
				ob, sb, p = observe(a, full)
				sum = append(sum, sb...)
				if p != nil && oracleOn {
					report(step, []oracleFail{{"panic", fmt.Sprintf("a reader panicked: %v", p)}})
				}
			}
			hist = append(hist, fmt.Sprintf("(%s, %s)", pr.op(o), ob))
		}
		if (ra.panicked != nil) != (rb.panicked != nil) {
			res.err = fmt.Errorf("the two instances disagree on panicking at step %d", step)
			return
		}
		if rb.panicked != nil {
			res.panicked = true
			kind := "panic"
			if o.Kind == opSetType && wasRetyped && strings.Contains(fmt.Sprint(rb.panicked), "can't replace node that is not in a list") {
				kind = "settype-stale-handle"
			}
			if oracleOn || kind == "settype-stale-handle" {
				report(step, []oracleFail{{kind, fmt.Sprintf("%s panicked: %v", o.String(), rb.panicked)}})
			}
			break
		}
		if !oracleOn {
			continue
		}
		var fs []oracleFail
		// ownership (caller.go)
		if rb.retained {
			fs = append(fs, oracleFail{"append-unstructured-keeps-caller-slice", fmt.Sprintf("%s: the body keeps the very slice the caller passed (a later write to that slice by the caller rewrites the file); SetAttributeRaw copies", o.String())})
		}
		if b.cl != nil {
			for _, w := range b.cl.wrote {
				fs = append(fs, oracleFail{"api-wrote-into-caller-memory", w})
			}
			b.cl.wrote = nil
		}
		// what the call returned
		if mb != nil {
			switch o.Kind {
			case opSetVal, opSetTrav, opSetRaw:
				if rb.attr == nil {
					fs = append(fs, oracleFail{"set-returns-nil", fmt.Sprintf("%s returned nil (attribute existed before: %v)", o.String(), hadName)})
				} else if rb.attr != b.bodyAt(o.Path).GetAttribute(o.Name) {
					fs = append(fs, oracleFail{"reader-disagrees", o.String() + " did not return the attribute GetAttribute finds"})
				}
			case opRename:
				if want := hadName && !hadTo; rb.hasFlag && rb.flag != want {
					fs = append(fs, oracleFail{"reader-disagrees", fmt.Sprintf("%s returned %v, expected %v", o.String(), rb.flag, want)})
				}
			case opRemoveAttr:
				if (rb.attr != nil) != hadName {
					fs = append(fs, oracleFail{"reader-disagrees", fmt.Sprintf("%s returned nil=%v, attribute existed=%v", o.String(), rb.attr == nil, hadName)})
				}
			case opRemoveBlock:
				if rb.hasFlag && !rb.flag {
					fs = append(fs, oracleFail{"reader-disagrees", o.String() + " returned false for a block of that body"})
				}
			}
		}
		appendish := false
		switch o.Kind {
		case opSetVal, opSetTrav, opSetRaw:
			appendish = !hadName
		case opAppendNewBlock, opAppendBlock, opAppendRaw, opAppendNewline:
			appendish = true
		}
		sfs := oracleStep(b, m, before, touched, &o, unterminated && appendish, braceComment)
		fs = append(fs, sfs...)
		report(step, fs)
	}
	if emit {
		if pr.err != nil {
			res.err = pr.err
			return
		}
		ck := "[]"
		if !full {
			ck = fp(sum)
		}
		res.coq = fmt.Sprintf("mkCase\n (%s)\n %s\n %s\n %s\n %s", init, pr.unescTable(), wrapObs(obs0), hv.CoqList(hist), ck)
	}
	return
}

// oracleStep checks the property on instance b after one step.
func oracleStep(b *inst, m *mirror, before sigMap, touched map[any]bool, o *hop, unterminatedAppend, braceComment bool) (fs []oracleFail) {
	defer func() {
		if r := recover(); r != nil {
			fs = append(fs, oracleFail{"panic", fmt.Sprintf("a reader panicked: %v", r)})
		}
	}()
	// heap invariants (the real-code counterpart of wf_preserved)
	var probs []string
	collectProblems(hclwrite.VerifDumpFile(b.f), "", &probs)
	for _, k := range b.shelf {
		collectProblems(hclwrite.VerifDumpBlock(k), "shelf.", &probs)
	}
	anyRetyped := anyMirror(m.root, func(it *mItem, _ *mBody) bool { return it != nil && it.retyped })
	for _, k := range m.shelf {
		anyRetyped = anyRetyped || k.retyped || anyMirror(k.body, func(it *mItem, _ *mBody) bool { return it != nil && it.retyped })
	}
	anyCleared := anyMirror(m.root, func(_ *mItem, mb *mBody) bool { return mb != nil && mb.cleared })
	for _, p := range probs {
		switch {
		case strings.Contains(p, "handle typeName points at a detached node") && anyRetyped:
			fs = append(fs, oracleFail{"settype-stale-handle", p})
		case strings.Contains(p, "member(s) not in the child list") && anyCleared:
			fs = append(fs, oracleFail{"clear-leaves-items", p})
		default:
			fs = append(fs, oracleFail{"wf-broken", p})
		}
	}
	// readers
	checkReaders(b.f.Body(), m.root, "", &fs)
	readersOnly := false // the only fatal failures so far: readers vs mirror
	for _, f := range fs {
		if fatalKinds[f.kind] {
			if f.kind != "reader-disagrees" {
				return fs
			}
			readersOnly = true
		}
	}
	// serialise, parse again
	out := b.f.Bytes()
	sf, diags := hclsyntax.ParseConfig(out, "", hcl.InitialPos)
	if readersOnly {
		// the readers disagree with the MIRROR: say as well whether they disagree with the FILE (agree.go;
		// neither side of that comparison is the mirror), then stop as before
		if !diags.HasErrors() {
			b.agree.steps++
			checkAgree(b.f.Body(), sf.Body.(*hclsyntax.Body), out, "", &fs, &b.agree)
		}
		return fs
	}
	// A reparse failure gets one of the two known kinds only when the step has the call-site shape of the
	// finding (computed on the pre-state by the caller) AND putting the missing line break(s) back makes
	// the very same tree serialise to a text that parses and agrees with the mirror (repairedClean):
	// anything else that is wrong with the output keeps the generic kind.
	knownKind := ""
	decided := false
	known := func() string {
		if !decided && o != nil {
			decided = true
			switch {
			case unterminatedAppend && repairedClean(b, m, o.Path, true):
				knownKind = "append-after-unterminated-item"
			case braceComment && repairedClean(b, m, o.Path, false):
				knownKind = "remove-item-owning-brace-line-comment"
			case o.Kind == opAppendBlock && lastChildUnterminated(b, o.Path) && repairedClean(b, m, o.Path, unterminatedAppend, true):
				// a detached block whose own text does not end with a line break (it was the last item of
				// a file without a final newline) is appended: whatever follows it - the parent's closing
				// brace - is glued to its closing brace. Known only when a line break after the appended
				// block (and before it, if the body was unterminated too) repairs the output completely.
				knownKind = "append-block-without-trailing-newline"
			}
		}
		return knownKind
	}
	if diags.HasErrors() {
		kind := "reparse-error"
		if k := known(); k != "" {
			kind = k
		}
		fs = append(fs, oracleFail{kind, fmt.Sprintf("%s in %q", diags.Error(), out)})
		return fs
	}
	var rf []oracleFail
	checkReparse(sf.Body.(*hclsyntax.Body), m.root, "", &rf)
	for _, f := range rf {
		if k := known(); k != "" {
			f.kind = k
		}
		f.detail += fmt.Sprintf(" in %q", out)
		fs = append(fs, f)
	}
	// readers of the live tree vs the file, read without hclwrite (agree.go); a step already filed under one of
	// the pinned line-break findings has a file that is known not to be the tree
	if !(len(rf) > 0 && known() != "") {
		var af []oracleFail
		b.agree.steps++
		checkAgree(b.f.Body(), sf.Body.(*hclsyntax.Body), out, "", &af, &b.agree)
		for _, f := range af {
			f.detail += fmt.Sprintf(" in %q", out)
			fs = append(fs, f)
		}
	}
	// untouched items keep their tokens
	if before != nil {
		after := collectAll(b)
		for k, sig := range before {
			if touched[k] {
				continue
			}
			now, ok := after[k]
			if !ok {
				fs = append(fs, oracleFail{"untouched-changed", fmt.Sprintf("%s: an item not named by the operation disappeared (%s)", o.String(), sig)})
			} else if now != sig {
				fs = append(fs, oracleFail{"untouched-changed", fmt.Sprintf("%s: tokens of an item not named by the operation changed from %s to %s", o.String(), sig, now)})
			}
		}
	}
	return fs
}

// ---- shrinking ---------------------------------------------------------------------------

func stillFails(c *tcase, kind string) bool {
	r := runCase(c, false, false)
	return r.err == nil && r.has(kind)
}

func shrink(c *tcase, kind string) *tcase {
	cur := *c
	budget := 400
	try := func(n *tcase) bool {
		if budget <= 0 {
			return false
		}
		budget--
		if n.Parsed {
			if _, d := hclsyntax.ParseConfig([]byte(n.Src), "", hcl.InitialPos); d.HasErrors() {
				return false
			}
		}
		if stillFails(n, kind) {
			cur = *n
			return true
		}
		return false
	}
	// cut the history after the failing step
	if r := runCase(&cur, false, false); r.err == nil && r.has(kind) {
		if s := r.failStep[kind]; s < len(cur.Ops) {
			n := cur
			n.Ops = append([]hop{}, cur.Ops[:s]...)
			try(&n)
		}
	}
	for changed := true; changed; {
		changed = false
		for i := len(cur.Ops) - 1; i >= 0; i-- {
			n := cur
			n.Ops = append(append([]hop{}, cur.Ops[:i]...), cur.Ops[i+1:]...)
			if try(&n) {
				changed = true
			}
		}
		for i := len(cur.Pre) - 1; i >= 0; i-- {
			n := cur
			n.Pre = append(append([]hop{}, cur.Pre[:i]...), cur.Pre[i+1:]...)
			if try(&n) {
				changed = true
			}
		}
		if cur.Parsed {
			n := cur
			n.Parsed, n.Src = false, ""
			if try(&n) {
				changed = true
				continue
			}
			lines := strings.SplitAfter(cur.Src, "\n")
			for i := len(lines) - 1; i >= 0 && len(lines) > 1; i-- {
				n := cur
				n.Src = strings.Join(append(append([]string{}, lines[:i]...), lines[i+1:]...), "")
				if try(&n) {
					changed = true
					lines = strings.SplitAfter(cur.Src, "\n")
				}
			}
		}
		// simplify arguments
		for i := range cur.Ops {
			o := cur.Ops[i]
			if o.Kind == opSetTrav || o.Kind == opSetRaw || (o.Kind == opSetVal && string(o.Val) != "1") {
				n := cur
				n.Ops = append([]hop{}, cur.Ops...)
				v, t := valJSON(cty.NumberIntVal(1))
				n.Ops[i] = hop{Kind: opSetVal, Path: o.Path, Name: o.Name, Val: v, ValTy: t}
				if try(&n) {
					changed = true
				}
			}
			if len(o.Labels) > 0 {
				n := cur
				n.Ops = append([]hop{}, cur.Ops...)
				o2 := o
				o2.Labels = nil
				n.Ops[i] = o2
				if try(&n) {
					changed = true
				}
			}
		}
	}
	return &cur
}

// ---- corpus ----------------------------------------------------------------------------------

func num(n int64) (json.RawMessage, json.RawMessage) { return valJSON(cty.NumberIntVal(n)) }

func corpus() []*tcase {
	v1, t1 := num(1)
	v2, t2 := num(2)
	set := func(p []int, name string) hop { return hop{Kind: opSetVal, Path: p, Name: name, Val: v1, ValTy: t1} }
	set2 := func(p []int, name string) hop { return hop{Kind: opSetVal, Path: p, Name: name, Val: v2, ValTy: t2} }
	return []*tcase{
		// DESIGN §9 #1
		{Ops: []hop{{Kind: opAppendNewBlock, Name: "a", Labels: []string{"l"}}, {Kind: opSetType, Index: 0, Name: "b"}, {Kind: opSetType, Index: 0, Name: "c"}}},
		// DESIGN §9 #3
		{Parsed: true, Src: "a \"a$b\" \"x%y\" \"ok\" \"$\" \"p$${q}\" {\n}\n", Ops: []hop{set(nil, "k"), {Kind: opSetLabels, Index: 0, Labels: []string{"a$b"}}}},
		{Ops: []hop{set(nil, "a"), {Kind: opClear}, set2(nil, "a"), set(nil, "c")}},
		{Ops: []hop{set(nil, "a"), set2(nil, "a"), {Kind: opRename, Name: "a", To: "b"}, {Kind: opRename, Name: "zz", To: "b"}, {Kind: opRemoveAttr, Name: "b"}, {Kind: opRemoveAttr, Name: "b"}, set(nil, "b")}},
		{Ops: []hop{{Kind: opAppendNewBlock, Name: "r", Labels: []string{"x", "y"}}, set([]int{0}, "a"), {Kind: opAppendNewBlock, Path: []int{0}, Name: "n"}, set([]int{0, 0}, "deep"),
			{Kind: opRemoveBlock, Index: 0}, {Kind: opAppendNewline}, {Kind: opAppendBlock, Index: 0}, {Kind: opSetLabels, Index: 0, Labels: []string{"z"}}}},
		{Parsed: true, Src: "# lead\na = 1 # line\n\nb \"l\" {\n  # inner\n  c = [1, 2]\n}\n", Ops: []hop{set2(nil, "a"), {Kind: opRename, Name: "a", To: "z"}, set([]int{0}, "c"), set([]int{0}, "d"), {Kind: opRemoveAttr, Name: "z"}}},
		{Parsed: true, Src: "a = 1", Ops: []hop{set(nil, "b")}},
		{Parsed: true, Src: "b { a = 1 }\n", Ops: []hop{set([]int{0}, "c")}},
		{Parsed: true, Src: "b {}\n", Ops: []hop{set([]int{0}, "c")}},
		{Parsed: true, Src: "a = 1 # c", Ops: []hop{set(nil, "b")}},
		// comment on the line of the opening brace is filed as lead comment of the first item
		{Parsed: true, Src: "b { # c\n  a = 1\n  z = 2\n}\n", Ops: []hop{{Kind: opRemoveAttr, Path: []int{0}, Name: "a"}}},
		// a label containing an escaped template introducer after the same character
		{Ops: []hop{{Kind: opAppendNewBlock, Name: "a", Labels: []string{"$${x}"}}}},
		{Ops: []hop{{Kind: opSetRaw, Name: "a", Raw: "1 + 2"}, {Kind: opSetTrav, Name: "b", Trav: "var.x[0].y"}, {Kind: opAppendRaw, Raw: "# c\n"}, {Kind: opSetRaw, Name: "a", Raw: "foo(a, b)"}}},
		// ownership (caller.go): `append(prefix, ident(name))` in a loop - three attributes whose raw tokens come from one array
		{Caller: callerAliasing, Parsed: true, Src: "# inputs\nregion = var.region # keep first\n\nsettings {\n  # per-environment values\n  enabled = true\n}\n",
			Ops: []hop{{Kind: opSetRaw, Path: []int{0}, Name: "zone", Raw: "var.zone"}, {Kind: opSetRaw, Path: []int{0}, Name: "tier", Raw: "var.tier"}, {Kind: opSetRaw, Path: []int{0}, Name: "owner", Raw: "var.owner"}}},
		// a template slice patched between two edits of different attributes, then an edit that touches neither expression
		{Caller: callerAliasing, Ops: []hop{{Kind: opSetRaw, Name: "first", Via: "call", Fn: "lookup", Parts: []string{"local.table", "key0"}},
			{Kind: opSetRaw, Name: "second", Via: "call", Fn: "lookup", Parts: []string{"local.table", "key1"}}, {Kind: opRename, Name: "second", To: "other"}}},
		// every slice-taking call once, arguments and results scribbled over after each call
		{Caller: callerScribbler, Ops: []hop{{Kind: opAppendNewBlock, Name: "r", Labels: []string{"x", "y"}}, {Kind: opSetLabels, Index: 0, Labels: []string{"p", "q", "r"}},
			{Kind: opSetTrav, Name: "t", Trav: "var.x[0].y"}, {Kind: opSetRaw, Name: "a", Raw: "1 + 2"}, {Kind: opSetRaw, Path: []int{0}, Name: "o", Via: "object", Parts: []string{"k", "1", "(a.b)", "[1, 2]"}},
			{Kind: opSetRaw, Name: "u", Via: "tuple", Parts: []string{"a", "f(1)"}}, {Kind: opAppendRaw, Raw: "# c\n"}, {Kind: opAppendNewBlock, Path: []int{0}, Name: "n", Labels: []string{"l"}},
			{Kind: opSetTrav, Path: []int{0}, Name: "t2", Trav: "local.a.b"}, {Kind: opRemoveAttr, Name: "a"}, {Kind: opRemoveBlock, Index: 0}, {Kind: opAppendBlock, Index: 0}}},
		{Caller: callerScribbler, Parsed: true, Src: "a = [for x in y : x] # c\nb \"l\" {\n  c = 1\n}\n", Ops: []hop{{Kind: opSetRaw, Name: "z", Raw: "var.z"}, {Kind: opSetRaw, Path: []int{0}, Name: "c", Raw: "var.c"},
			{Kind: opSetLabels, Index: 0, Labels: []string{"m"}}, {Kind: opSetRaw, Name: "z2", Raw: "var.z2"}}},
		// arbitrary Unicode arguments (unicode.go, agree.go): the file carries the NFC form of a label, the readers must too
		{Parsed: true, Src: "# sites served by this host\nsite \"plain\" {\n  root = \"/srv/plain\" # keep\n}\n\nsite \"other\" {\n  root = \"/srv/other\"\n}\n",
			Ops: []hop{{Kind: opSetLabels, Index: 0, Labels: []string{"simple"}}, {Kind: opSetLabels, Index: 0, Labels: []string{"cafe\u0301"}}, set([]int{0}, "root"),
				{Kind: opAppendNewBlock, Name: "alias", Labels: []string{"cafe\u0301", "www"}}, {Kind: opAppendNewBlock, Path: []int{2}, Name: "target", Labels: []string{"cafe\u0301"}}}},
		// Hangul jamo, singletons, a supplementary-plane character NFC decomposes, NFKC-only text (unchanged), bytes that are not UTF-8;
		// two blocks whose labels differ as given and are equal as written
		{Ops: []hop{{Kind: opAppendNewBlock, Name: "b", Labels: []string{"\u1100\u1161\u11a8", "\u212b"}}, {Kind: opAppendNewBlock, Name: "b", Labels: []string{"\uac01", "\u00c5"}},
			{Kind: opAppendNewBlock, Name: "b", Labels: []string{"\U0001D15E", "\ufb01\u2460", "\xff", "a\xc3", "\U000E0001"}}, {Kind: opSetLabels, Index: 1, Labels: []string{"a\u0301\u0323", "\u0344${x}"}},
			{Kind: opSetType, Index: 2, Name: "cafe\u0301"}, {Kind: opRemoveBlock, Index: 0}, {Kind: opAppendBlock, Path: []int{0}, Index: 0}, {Kind: opSetLabels, Path: []int{0}, Index: 0, Labels: []string{"e\u0301\x80"}}}},
		// labels of the source text are nobody's to normalise; names are written as given
		{Caller: callerScribbler, Parsed: true, Src: "b \"cafe\u0301\" \"e\\u0301\" {\n  cafe\u0301 = 1\n}\nb \"caf\u00e9\" {\n}\n",
			Ops: []hop{set([]int{0}, "caf\u00e9"), {Kind: opSetLabels, Index: 1, Labels: []string{"cafe\u0301", "e\u0301"}}, {Kind: opRename, Path: []int{0}, Name: "cafe\u0301", To: "\u1100\u1161"},
				{Kind: opSetTrav, Path: []int{1}, Name: "t", Trav: "cafe\u0301.\u1100\u1161[\"\u1100\u1161\"]"}, {Kind: opSetLabels, Index: 0, Labels: []string{"\U0001F600", "x"}}}},
	}
}

// ---- main loop -----------------------------------------------------------------------------

func lenBucket(n int) string {
	switch {
	case n <= 3:
		return "1-3"
	case n <= 8:
		return "4-8"
	case n <= 16:
		return "9-16"
	case n <= 28:
		return "17-28"
	}
	return "29-40"
}

// the open findings (registered in known_findings.json under exactly these
// kinds); every other kind is reported in full
var knownKinds = map[string]bool{"append-after-unterminated-item": true, "remove-item-owning-brace-line-comment": true, "append-block-without-trailing-newline": true}

func runC12(cfg *hv.RunCfg) error {
	rep := hv.NewReport("C12", cfg.Seed)
	rep.Rule = "histories of 1-40 writer-API operations (set by value/traversal/raw tokens - lexed or built through TokensForTuple/FunctionCall/Object -, rename, remove, append new/shelved block, remove block, SetType, SetLabels, AppendNewline/AppendUnstructuredTokens, Clear; bodies addressed through Blocks()[i].Body() to depth 4; in about a fifth of the label-setting calls the labels are arbitrary byte strings: not NFC (combining marks in any order, Hangul jamo, singleton decompositions), supplementary-plane, NFC-stable text NFKC would change, not UTF-8 - the mirror holds x/text NFC + U+FFFD per invalid byte; non-NFC string values, object keys, identifiers and traversal steps) on an empty file, a file built through the API, or a file parsed from generated text with lead/line/inline comments, bare/quoted/escaped/template-character labels, CRLF, one-line blocks and missing final newline; 60% of the generated histories are run by an aliasing caller (token/label/traversal arguments of successive calls cut from one backing array with spare capacity, every result of every reader modified after each call; 35%: arguments scribbled over after each call as well), 10% contain a run of shared-prefix raw sets of distinct attributes (may exceed 40 operations); after every step the readers of the live tree (Type/Labels/FirstMatchingBlock/Attributes/GetAttribute/Expr tokens) are compared with hclsyntax.ParseConfig(Bytes()) as well as with the mirror; hand corpus first; non-trivial = at least one operation changes the item structure; distinct by SHA-256 of the case"
	r := hv.NewRng(cfg.Seed, 12)
	cf := &hv.CaseFile{Dir: cfg.Out, Name: "c12cases",
		Imports: "From Coq Require Import String.\nFrom HclV Require Import Base.Prelude Write.Format Write.Tree Write.TreeCheck.",
		Ctype:   "tcase", Checker: "check_tree_cases"}

	var cases []*tcase
	if cfg.Replay != "" {
		b, err := os.ReadFile(cfg.Replay)
		if err != nil {
			return err
		}
		c := &tcase{}
		if err := json.Unmarshal(b, c); err != nil {
			return fmt.Errorf("replay file is not a C12 case (JSON): %v", err)
		}
		cases = []*tcase{c}
	} else {
		cases = append(cases, corpus()...)
		if extra, err := filepath.Glob("/verif/corpus/C12/*.json"); err == nil {
			sort.Strings(extra)
			for _, p := range extra {
				if b, err := os.ReadFile(p); err == nil {
					c := &tcase{}
					if json.Unmarshal(b, c) == nil {
						cases = append(cases, c)
					}
				}
			}
		}
		for i := 0; i < cfg.N; i++ {
			cases = append(cases, genCase(r, rep.Histogram))
		}
	}

	type found struct {
		c *tcase
		f oracleFail
	}
	byKind := map[string][]found{}
	nExact := len(cases) - cfg.N // hand corpus and replays: exact observations
	if cfg.Replay != "" || os.Getenv("C12_FULL") != "" {
		nExact = len(cases)
	}
	for ci, c := range cases {
		res := runCase(c, true, ci < nExact)
		if res.err != nil {
			rep.Fail(hv.Failure{Kind: "harness-error", Detail: res.err.Error(), Input: c.JSON()})
			rep.Hist("harness-error")
			continue
		}
		cf.Add(res.coq)
		rep.Idx(c.JSON())
		structural := false
		for _, o := range c.Ops {
			rep.Hist("op:" + o.Kind)
			if o.Kind != opAppendNewline && o.Kind != opAppendRaw {
				structural = true
			}
		}
		rep.Count(c.JSON(), structural)
		rep.Hist("history-length:" + lenBucket(len(c.Ops)))
		// ownership: what the caller of this case did with its arguments and the results
		rep.Hist("caller-mode:" + callerName(c.Caller))
		cs := res.cstats
		if cs.opsSharedArg > 0 {
			rep.Hist("caller:case-with-args-cut-from-shared-array")
		}
		if cs.opsAliasedArg > 0 {
			rep.Hist("caller:case-with-aliased-args(memory of an earlier argument reused)")
		}
		if cs.opsScribbledArg > 0 {
			rep.Hist("caller:case-with-scribbled-args")
		}
		if cs.opsAliasedArg > 0 || cs.opsScribbledArg > 0 {
			rep.Hist("caller:case-with-aliased-or-scribbled-args")
		}
		if cs.opsScribbledRes > 0 {
			rep.Hist("caller:case-with-scribbled-results")
		}
		for k, v := range map[string]int{
			"caller:ops-with-aliased-arg": cs.opsAliasedArg, "caller:ops-with-scribbled-arg": cs.opsScribbledArg,
			"caller:ops-followed-by-scribbling-all-results": cs.opsScribbledRes, "caller:arg:tokens": cs.tokArgs,
			"caller:arg:labels": cs.labelArgs, "caller:arg:traversal": cs.travArgs, "caller:arg:tokens-partial-overlap": cs.partialOverlap,
			"caller:arg:tokens-built-via-TokensFor*": cs.viaCalls, "caller:result-slices-scribbled": cs.resultSlices,
			"caller:append-unstructured-kept-caller-slice": cs.appendRawRetains} {
			if v > 0 {
				rep.Histogram[k] += v
			}
		}
		// readers-agree oracle (agree.go): how much was compared
		for k, v := range map[string]int{"readers-agree:steps-compared": res.astats.steps, "readers-agree:block-type+labels-comparisons": res.astats.blocks,
			"readers-agree:block-comparisons-with-non-ascii-file-labels": res.astats.uni, "readers-agree:FirstMatchingBlock-lookups-with-file-labels": res.astats.fmb,
			"readers-agree:attribute-name+expression-bytes-comparisons": res.astats.attrs} {
			if v > 0 {
				rep.Histogram[k] += v
			}
		}
		// arbitrary Unicode arguments (unicode.go), counted on the operations that are executed
		for _, o := range c.Ops {
			if o.Kind != opAppendNewBlock && o.Kind != opSetLabels {
				continue
			}
			rep.Hist("op:label-setting")
			special, changed := false, false
			for _, l := range o.Labels {
				special = special || nonNFCorNonBMP(l)
				changed = changed || changedByWriter(l)
			}
			if special {
				rep.Hist("op:label-setting:with-non-nfc-or-non-bmp-label")
			}
			if changed {
				rep.Hist("op:label-setting:with-label-the-writer-must-change(non-nfc/not-utf8)")
			}
		}
		if res.panicked {
			rep.Hist("history-ended-by-panic")
		}
		if len(c.Ops) <= 4 {
			rep.Sample(c.Pretty())
		}
		if len(res.fails) == 0 {
			rep.Hist("oracle-ok")
		}
		for _, f := range res.fails {
			rep.Hist("oracle-fail:" + f.kind)
			byKind[f.kind] = append(byKind[f.kind], found{c, f})
		}
	}
	// report: unknown kinds first and in full, then a few of each known shape;
	// the first of every kind is shrunk to a minimal history
	kinds := hv.SortedKeys(byKind)
	sort.SliceStable(kinds, func(i, j int) bool { return !knownKinds[kinds[i]] && knownKinds[kinds[j]] })
	for _, k := range kinds {
		limit := 40
		if knownKinds[k] {
			limit = 3
		}
		for i, fd := range byKind[k] {
			if i >= limit {
				break
			}
			fl := hv.Failure{Kind: k, Detail: fd.f.detail, Input: fd.c.JSON()}
			if i == 0 && cfg.Replay == "" {
				min := shrink(fd.c, k)
				mr := runCase(min, false, false)
				det := fd.f.detail
				for _, f := range mr.fails {
					if f.kind == k {
						det = f.detail
					}
				}
				fl = hv.Failure{Kind: k, Detail: det, Input: min.JSON(),
					Extra: map[string]string{"minimal_history": min.Pretty(), "found_in": fd.c.JSON()}}
			}
			rep.Fail(fl)
		}
	}
	names, err := cf.Flush(100)
	if err != nil {
		return err
	}
	rep.CaseFiles = names
	return rep.Write(cfg.Out)
}
