package main

// readers-agree oracle (class of seed C12-r4): after EVERY step the readers of
// the live tree must tell the same story as the file the tree serialises to.
//
// The file side is read WITHOUT hclwrite: hclsyntax.ParseConfig(File.Bytes())
// gives block types, labels, attribute names and the source range of every
// attribute expression. The live side is what the accessors under test return:
// Blocks() / Type() / Labels() / FirstMatchingBlock, Attributes() /
// GetAttribute / Expr().BuildTokens. Neither side involves the mirror, so the
// comparison holds for every argument string whatever the harness believes the
// writer should have done with it (normalisation, U+FFFD, escapes).
//
//   - same number of blocks, in the same order; Type() and Labels() equal the
//     file's type and labels (byte for byte);
//   - FirstMatchingBlock(type, labels) asked with what the FILE says returns the
//     first live block whose file counterpart has that type and those labels;
//   - same attribute names; GetAttribute(name) finds each; the bytes of
//     Expr().BuildTokens are the bytes of the expression in the file (the tree
//     of the oracle's instance has just been formatted in place by Bytes(), so
//     the spacing agrees as well; leading spaces of the first token are the gap
//     after "="; comment tokens at either end of a raw-token argument are outside
//     the expression the parser finds and are left out on the live side).

import (
	"bytes"
	"fmt"
	"sort"

	"github.com/hashicorp/hcl/v2/hclsyntax"
	"github.com/hashicorp/hcl/v2/hclwrite"
)

type agreeStats struct {
	steps  int // steps after which the comparison ran
	blocks int // Type()/Labels() comparisons
	fmb    int // FirstMatchingBlock lookups with the file's labels
	attrs  int // attribute name + expression byte comparisons
	uni    int // block comparisons whose file labels are not ASCII
}

const kindAgree = "readers-disagree-with-file"

func nonASCII(ls []string) bool {
	for _, l := range ls {
		for i := 0; i < len(l); i++ {
			if l[i] >= 0x80 {
				return true
			}
		}
	}
	return false
}

func checkAgree(live *hclwrite.Body, sb *hclsyntax.Body, src []byte, path string, out *[]oracleFail, st *agreeStats) {
	add := func(format string, args ...any) {
		*out = append(*out, oracleFail{kindAgree, "body" + path + ": " + fmt.Sprintf(format, args...)})
	}
	// attributes
	attrs := live.Attributes()
	var got, want []string
	for n := range attrs {
		got = append(got, n)
	}
	for n := range sb.Attributes {
		want = append(want, n)
	}
	sort.Strings(got)
	sort.Strings(want)
	if !eqStrings(got, want) {
		add("Attributes() has names %+q, the serialised file has %+q", got, want)
	} else {
		for _, n := range want {
			st.attrs++
			a := live.GetAttribute(n)
			if a == nil {
				add("GetAttribute(%+q) = nil, the serialised file has that attribute", n)
				continue
			}
			rng := sb.Attributes[n].Expr.Range()
			if rng.Start.Byte < 0 || rng.End.Byte > len(src) || rng.Start.Byte > rng.End.Byte {
				continue
			}
			fileBytes := src[rng.Start.Byte:rng.End.Byte]
			// comment tokens at either end of what the caller passed as "the expression" (SetAttributeRaw takes
			// any tokens) are not part of the expression the parser finds; comments inside it are
			lt := a.Expr().BuildTokens(nil)
			for len(lt) > 0 && lt[0].Type == hclsyntax.TokenComment {
				lt = lt[1:]
			}
			for len(lt) > 0 && lt[len(lt)-1].Type == hclsyntax.TokenComment {
				lt = lt[:len(lt)-1]
			}
			liveBytes := bytes.TrimLeft(lt.Bytes(), " ")
			if !bytes.Equal(liveBytes, fileBytes) {
				add("attribute %+q: Expr().BuildTokens gives %+q, the expression in the serialised file is %+q", n, liveBytes, fileBytes)
			}
		}
	}
	// blocks
	blocks := live.Blocks()
	if len(blocks) != len(sb.Blocks) {
		add("Blocks() has %d blocks, the serialised file has %d", len(blocks), len(sb.Blocks))
		return
	}
	for i, bl := range blocks {
		fb := sb.Blocks[i]
		st.blocks++
		if nonASCII(fb.Labels) {
			st.uni++
		}
		if t := bl.Type(); t != fb.Type {
			add("block %d: Type() = %+q, the serialised file has %+q", i, t, fb.Type)
		}
		if ls := bl.Labels(); !eqStrings(ls, fb.Labels) {
			add("block %d (%s): Labels() = %+q, the serialised file has %+q", i, fb.Type, ls, fb.Labels)
		}
		// what the file says this block is called must find it (or an earlier block the file calls the same)
		first := i
		for j := 0; j < i; j++ {
			if sb.Blocks[j].Type == fb.Type && eqStrings(sb.Blocks[j].Labels, fb.Labels) {
				first = j
				break
			}
		}
		st.fmb++
		if gotB := live.FirstMatchingBlock(fb.Type, append([]string{}, fb.Labels...)); gotB != blocks[first] {
			what := "nil"
			if gotB != nil {
				what = "another block"
				for j, o := range blocks {
					if o == gotB {
						what = fmt.Sprintf("Blocks()[%d]", j)
					}
				}
			}
			add("FirstMatchingBlock(%+q, %+q) - type and labels of block %d in the serialised file - returns %s, expected Blocks()[%d]", fb.Type, fb.Labels, i, what, first)
		}
		checkAgree(bl.Body(), fb.Body, src, fmt.Sprintf("%s.%d", path, i), out, st)
	}
}
