package main

// The Go-side mirror: the "simple map/list model" of the property statement.
// A body is an ordered list of attributes and blocks; every operation is the
// obvious list edit. It is written against the documented behaviour of the
// hclwrite API only and shares nothing with the Coq model.

import (
	"fmt"
	"sort"
	"strings"

	"github.com/hashicorp/hcl/v2"
	"github.com/hashicorp/hcl/v2/hclsyntax"
	"github.com/hashicorp/hcl/v2/hclwrite"
	"github.com/zclconf/go-cty/cty"
	"github.com/zclconf/go-cty/cty/convert"
	"hclverif/hv"
)

type mItem struct {
	isBlock bool
	// attribute
	name     string
	exprSig  string     // expected (type, bytes) sequence of Expr().BuildTokens
	exprDump string     // expected structure of the expression when the file is parsed again
	val      *cty.Value // set by SetAttributeValue: the reparsed expression must evaluate to it
	// block
	typ    string
	labels []string
	body   *mBody
	// bookkeeping for classifying the two known defects
	retyped   bool // SetType has been applied to this block
	srcLabels bool // labels are still those of the parsed source text
}

type mBody struct {
	items   []*mItem
	cleared bool // Clear() was applied while the body had items
}

type mirror struct {
	root        *mBody
	shelf       []*mItem
	everRemoved map[string]bool
}

func newMirror() *mirror { return &mirror{root: &mBody{}, everRemoved: map[string]bool{}} }

func (b *mBody) attrs() []*mItem {
	var out []*mItem
	for _, it := range b.items {
		if !it.isBlock {
			out = append(out, it)
		}
	}
	return out
}
func (b *mBody) blocks() []*mItem {
	var out []*mItem
	for _, it := range b.items {
		if it.isBlock {
			out = append(out, it)
		}
	}
	return out
}
func (b *mBody) find(name string) *mItem {
	for _, it := range b.items {
		if !it.isBlock && it.name == name {
			return it
		}
	}
	return nil
}
func (b *mBody) has(name string) bool { return b.find(name) != nil }
func (b *mBody) remove(x *mItem) {
	for i, it := range b.items {
		if it == x {
			b.items = append(b.items[:i:i], b.items[i+1:]...)
			return
		}
	}
}

func (m *mirror) bodyAt(p []int) *mBody {
	b := m.root
	for _, i := range p {
		bl := b.blocks()
		if i < 0 || i >= len(bl) {
			return nil
		}
		b = bl[i].body
	}
	return b
}

// ---- expected expressions ------------------------------------------------------

func tokSig(ts hclwrite.Tokens) string {
	var sb strings.Builder
	for _, t := range ts {
		fmt.Fprintf(&sb, "%d:%x ", int(t.Type), t.Bytes)
	}
	return sb.String()
}

func lexTokens(src string) hclwrite.Tokens {
	ts := hclwrite.VerifLexConfig([]byte(src))
	if n := len(ts); n > 0 && ts[n-1].Type == hclsyntax.TokenEOF {
		ts = ts[:n-1]
	}
	return ts
}

func exprDumpOf(src []byte) string {
	e, diags := hclsyntax.ParseExpression(src, "", hcl.InitialPos)
	if diags.HasErrors() {
		return "(unparseable " + diags.Error() + ")"
	}
	return hv.DumpExprS(e)
}

// opExprTokens: the tokens the documentation promises for each Set variant,
// built with the public generator functions.
func opExprTokens(o hop) hclwrite.Tokens {
	switch o.Kind {
	case opSetVal:
		return hclwrite.TokensForValue(o.value())
	case opSetTrav:
		return hclwrite.TokensForTraversal(o.traversal())
	case opSetRaw:
		return rawRefTokens(o)
	}
	return nil
}

func (it *mItem) setExpr(o hop) {
	ts := opExprTokens(o)
	it.exprSig = tokSig(ts)
	it.exprDump = exprDumpOf(ts.Bytes())
	it.val = nil
	if o.Kind == opSetVal {
		v := o.value()
		it.val = &v
	}
}

// ---- loading the initial text ---------------------------------------------------

func (m *mirror) loadSource(src string) {
	f, diags := hclsyntax.ParseConfig([]byte(src), "", hcl.InitialPos)
	if diags.HasErrors() {
		panic("initial text does not parse: " + diags.Error())
	}
	m.root = loadBody(f.Body.(*hclsyntax.Body), []byte(src))
}

func loadBody(sb *hclsyntax.Body, src []byte) *mBody {
	type ent struct {
		pos int
		it  *mItem
	}
	var es []ent
	for name, a := range sb.Attributes {
		rng := a.Expr.Range()
		esrc := src[rng.Start.Byte:rng.End.Byte]
		it := &mItem{name: name, exprSig: tokSig(lexTokens(string(esrc))), exprDump: hv.DumpExprS(a.Expr)}
		es = append(es, ent{a.SrcRange.Start.Byte, it})
	}
	for _, bl := range sb.Blocks {
		it := &mItem{isBlock: true, typ: bl.Type, labels: append([]string{}, bl.Labels...), body: loadBody(bl.Body, src), srcLabels: true}
		es = append(es, ent{bl.TypeRange.Start.Byte, it})
	}
	sort.Slice(es, func(i, j int) bool { return es[i].pos < es[j].pos })
	b := &mBody{}
	for _, e := range es {
		b.items = append(b.items, e.it)
	}
	return b
}

// ---- the operations ------------------------------------------------------------------

func (m *mirror) apply(o hop) {
	b := m.bodyAt(o.Path)
	if b == nil {
		return
	}
	switch o.Kind {
	case opSetVal, opSetTrav, opSetRaw:
		it := b.find(o.Name)
		if it == nil {
			it = &mItem{name: o.Name}
			b.items = append(b.items, it)
		}
		it.setExpr(o)
	case opRename:
		it := b.find(o.Name)
		if it != nil && !b.has(o.To) {
			it.name = o.To
		}
	case opRemoveAttr:
		if it := b.find(o.Name); it != nil {
			b.remove(it)
			m.everRemoved[o.Name] = true
		}
	case opAppendNewBlock:
		b.items = append(b.items, &mItem{isBlock: true, typ: o.Name, labels: refNormAll(o.Labels), body: &mBody{}}) // unicode.go: the form the file must carry
	case opRemoveBlock:
		bl := b.blocks()
		if o.Index >= 0 && o.Index < len(bl) {
			b.remove(bl[o.Index])
			m.shelf = append(m.shelf, bl[o.Index])
		}
	case opAppendBlock:
		if o.Index >= 0 && o.Index < len(m.shelf) {
			k := m.shelf[o.Index]
			m.shelf = append(m.shelf[:o.Index:o.Index], m.shelf[o.Index+1:]...)
			b.items = append(b.items, k)
		}
	case opSetType:
		bl := b.blocks()
		if o.Index >= 0 && o.Index < len(bl) {
			bl[o.Index].typ = o.Name
			bl[o.Index].retyped = true
		}
	case opSetLabels:
		bl := b.blocks()
		if o.Index >= 0 && o.Index < len(bl) {
			bl[o.Index].labels = refNormAll(o.Labels)
			bl[o.Index].srcLabels = false
		}
	case opAppendNewline, opAppendRaw:
	case opClear:
		if len(b.items) > 0 {
			b.cleared = true
		}
		b.items = nil
	}
}

// ---- comparing the real file with the mirror -------------------------------------------

type oracleFail struct {
	kind   string
	detail string
}

func eqStrings(a, b []string) bool {
	if len(a) != len(b) {
		return false
	}
	for i := range a {
		if a[i] != b[i] {
			return false
		}
	}
	return true
}

func hasTemplChar(s string) bool { return strings.ContainsAny(s, "$%") }

// onlyTemplDropped: got is want minus some labels that all contain a template
// introducer character (such labels lex into several QuotedLit tokens in
// source text).
func onlyTemplDropped(got, want []string) bool {
	i := 0
	for _, w := range want {
		if i < len(got) && got[i] == w {
			i++
			continue
		}
		if !hasTemplChar(w) {
			return false
		}
	}
	return i == len(got) && len(got) < len(want)
}

// onlyEscapedIntroducerDiffers: same length, and every differing label contains
// an escaped template introducer preceded by the same character ("$${", "%%{").
func onlyEscapedIntroducerDiffers(got, want []string) bool {
	if len(got) != len(want) {
		return false
	}
	for i := range got {
		if got[i] != want[i] && !strings.Contains(want[i], "$${") && !strings.Contains(want[i], "%%{") {
			return false
		}
	}
	return true
}

// checkReaders compares the API's own accessors with the mirror, recursively.
// exempt: known-defect classes already reported in this history.
func checkReaders(b *hclwrite.Body, mb *mBody, path string, out *[]oracleFail) {
	add := func(kind, format string, args ...any) {
		*out = append(*out, oracleFail{kind, "body" + path + ": " + fmt.Sprintf(format, args...)})
	}
	attrs := b.Attributes()
	var got []string
	for n := range attrs {
		got = append(got, n)
	}
	sort.Strings(got)
	var want []string
	for _, it := range mb.attrs() {
		want = append(want, it.name)
	}
	sort.Strings(want)
	if !eqStrings(got, want) {
		kind := "reader-disagrees"
		if mb.cleared {
			kind = "clear-leaves-items"
		}
		add(kind, "Attributes() has names %q, expected %q", got, want)
	} else {
		for _, it := range mb.attrs() {
			a := b.GetAttribute(it.name)
			if a == nil {
				add("reader-disagrees", "GetAttribute(%q) = nil", it.name)
				continue
			}
			if a != attrs[it.name] {
				add("reader-disagrees", "GetAttribute(%q) != Attributes()[%q]", it.name, it.name)
			}
			if sig := tokSig(a.Expr().BuildTokens(nil)); sig != it.exprSig {
				add("reader-disagrees", "attribute %q: Expr() tokens %s, expected %s", it.name, sig, it.exprSig)
			}
		}
	}
	for _, n := range []string{"absent_name", "zz9"} {
		if !mb.has(n) && b.GetAttribute(n) != nil {
			add("reader-disagrees", "GetAttribute(%q) != nil for an absent name", n)
		}
	}
	blocks := b.Blocks()
	mbl := mb.blocks()
	if len(blocks) != len(mbl) {
		add("reader-disagrees", "Blocks() has %d blocks, expected %d", len(blocks), len(mbl))
		return
	}
	staleType := false
	for i, bl := range blocks {
		mk := mbl[i]
		if t := bl.Type(); t != mk.typ {
			if mk.retyped {
				staleType = true
				add("settype-stale-handle", "block %d: Type() = %q after SetType(%q)", i, t, mk.typ)
			} else {
				add("reader-disagrees", "block %d: Type() = %q, expected %q", i, t, mk.typ)
			}
		}
		if ls := bl.Labels(); !eqStrings(ls, mk.labels) {
			if mk.srcLabels && onlyTemplDropped(ls, mk.labels) {
				add("label-with-template-char-dropped", "block %d: Labels() = %q, the source has %q", i, ls, mk.labels)
			} else if !mk.srcLabels && onlyEscapedIntroducerDiffers(ls, mk.labels) {
				add("label-escaped-introducer-misread", "block %d: Labels() = %q after SetLabels/AppendNewBlock(%q)", i, ls, mk.labels)
			} else {
				add("reader-disagrees", "block %d: Labels() = %+q, expected %+q", i, ls, mk.labels)
			}
		}
		checkReaders(bl.Body(), mk.body, fmt.Sprintf("%s.%d", path, i), out)
	}
	// FirstMatchingBlock agrees with the first mirror block of the same type and labels
	if !staleType {
		for i, mk := range mbl {
			if !eqStrings(blocks[i].Labels(), mk.labels) {
				continue // already reported through Labels()
			}
			first := -1
			for j, o := range mbl {
				if o.typ == mk.typ && eqStrings(o.labels, mk.labels) {
					first = j
					break
				}
			}
			skip := false
			for j := 0; j < first; j++ {
				if !eqStrings(blocks[j].Labels(), mbl[j].labels) {
					skip = true
				}
			}
			if skip {
				continue
			}
			if got := b.FirstMatchingBlock(mk.typ, mk.labels); got != blocks[first] {
				add("reader-disagrees", "FirstMatchingBlock(%q, %q) is not Blocks()[%d]", mk.typ, mk.labels, first)
			}
		}
		if b.FirstMatchingBlock("no_such_type", nil) != nil {
			add("reader-disagrees", "FirstMatchingBlock of an absent type is not nil")
		}
	}
}

// checkReparse compares the parsed serialisation with the mirror, recursively.
func checkReparse(sb *hclsyntax.Body, mb *mBody, path string, out *[]oracleFail) {
	add := func(format string, args ...any) {
		*out = append(*out, oracleFail{"reparse-differs", "body" + path + ": " + fmt.Sprintf(format, args...)})
	}
	var got, want []string
	for n := range sb.Attributes {
		got = append(got, n)
	}
	for _, it := range mb.attrs() {
		want = append(want, it.name)
	}
	sort.Strings(got)
	sort.Strings(want)
	if !eqStrings(got, want) {
		add("the file has attributes %q, expected %q", got, want)
	} else {
		// source order of attributes
		order := append([]string{}, got...)
		sort.Slice(order, func(i, j int) bool {
			return sb.Attributes[order[i]].SrcRange.Start.Byte < sb.Attributes[order[j]].SrcRange.Start.Byte
		})
		var worder []string
		for _, it := range mb.attrs() {
			worder = append(worder, it.name)
		}
		if !eqStrings(order, worder) {
			add("attribute order in the file is %q, expected %q", order, worder)
		}
		for _, it := range mb.attrs() {
			a := sb.Attributes[it.name]
			if d := hv.DumpExprS(a.Expr); d != it.exprDump {
				add("attribute %q parses as %s, expected %s", it.name, d, it.exprDump)
			}
			if it.val != nil {
				v, diags := a.Expr.Value(nil)
				if diags.HasErrors() {
					add("attribute %q: value does not evaluate: %s", it.name, diags.Error())
				} else if cv, err := convert.Convert(v, it.val.Type()); err != nil || !cv.RawEquals(*it.val) {
					add("attribute %q evaluates to %s, was set to %s", it.name, hv.DumpVal(v), hv.DumpVal(*it.val))
				}
			}
		}
	}
	mbl := mb.blocks()
	if len(sb.Blocks) != len(mbl) {
		add("the file has %d blocks, expected %d", len(sb.Blocks), len(mbl))
		return
	}
	for i, bl := range sb.Blocks {
		mk := mbl[i]
		if bl.Type != mk.typ || !eqStrings(bl.Labels, mk.labels) {
			add("block %d is %q %q, expected %q %q", i, bl.Type, bl.Labels, mk.typ, mk.labels)
		}
		checkReparse(bl.Body, mk.body, fmt.Sprintf("%s.%d", path, i), out)
	}
	// relative order of attributes and blocks
	var gotKinds, wantKinds []string
	type ent struct {
		pos int
		k   string
	}
	var es []ent
	for n, a := range sb.Attributes {
		es = append(es, ent{a.SrcRange.Start.Byte, "a:" + n})
	}
	for _, bl := range sb.Blocks {
		es = append(es, ent{bl.TypeRange.Start.Byte, "b:" + bl.Type})
	}
	sort.Slice(es, func(i, j int) bool { return es[i].pos < es[j].pos })
	for _, e := range es {
		gotKinds = append(gotKinds, e.k)
	}
	for _, it := range mb.items {
		if it.isBlock {
			wantKinds = append(wantKinds, "b:"+it.typ)
		} else {
			wantKinds = append(wantKinds, "a:"+it.name)
		}
	}
	if eqStrings(got, want) && !eqStrings(gotKinds, wantKinds) {
		add("item order in the file is %q, expected %q", gotKinds, wantKinds)
	}
}
