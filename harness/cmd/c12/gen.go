package main

// Generators for C12: initial files (text with comments, nested blocks, odd
// labels), values, traversals, raw expression tokens and operation histories.
// A history is generated against the Go-side mirror (the simple map/list model
// of the property), so that most operations hit existing items and paths; the
// result is an explicit, replayable list of operations.

import (
	"encoding/json"
	"fmt"
	"math/big"
	"strings"

	"github.com/hashicorp/hcl/v2"
	"github.com/hashicorp/hcl/v2/hclsyntax"
	"github.com/hashicorp/hcl/v2/hclwrite"
	"github.com/zclconf/go-cty/cty"
	ctyjson "github.com/zclconf/go-cty/cty/json"
	"hclverif/hv"
)

// ---- operations ----------------------------------------------------------------

const (
	opSetVal         = "set-val"
	opSetTrav        = "set-trav"
	opSetRaw         = "set-raw"
	opRename         = "rename"
	opRemoveAttr     = "remove-attr"
	opAppendNewBlock = "append-new-block"
	opRemoveBlock    = "remove-block"
	opAppendBlock    = "append-block"
	opSetType        = "set-type"
	opSetLabels      = "set-labels"
	opAppendNewline  = "append-newline"
	opAppendRaw      = "append-raw"
	opClear          = "clear"
)

// hop is one operation of a history. All fields are plain data (replayable).
type hop struct {
	Kind   string          `json:"kind"`
	Path   []int           `json:"path"`             // body path: Blocks()[i].Body() ...
	Name   string          `json:"name,omitempty"`   // attribute name / block type
	To     string          `json:"to,omitempty"`     // rename target
	Val    json.RawMessage `json:"val,omitempty"`    // cty value (ctyjson)
	ValTy  json.RawMessage `json:"valty,omitempty"`  // its type
	Trav   string          `json:"trav,omitempty"`   // absolute traversal, source text
	Raw    string          `json:"raw,omitempty"`    // expression / comment source text to be lexed
	Labels labelList       `json:"labels,omitempty"` // block labels (unicode.go: any byte string; non-UTF-8 ones travel as {"hex": ...})
	Index  int             `json:"index,omitempty"`  // block index in Blocks() / shelf index
	// set-raw only: the caller builds the tokens with a public generator function
	// ("tuple", "call", "object") from the pieces Parts (source text, lexed) instead of lexing Raw
	Via   string   `json:"via,omitempty"`
	Fn    string   `json:"fn,omitempty"`
	Parts []string `json:"parts,omitempty"`
}

func (o hop) String() string {
	p := fmt.Sprint(o.Path)
	switch o.Kind {
	case opSetVal:
		return fmt.Sprintf("body%s.SetAttributeValue(%q, %s)", p, o.Name, o.Val)
	case opSetTrav:
		return fmt.Sprintf("body%s.SetAttributeTraversal(%q, %s)", p, o.Name, o.Trav)
	case opSetRaw:
		switch o.Via {
		case "tuple":
			return fmt.Sprintf("body%s.SetAttributeRaw(%q, TokensForTuple(lex each of %q))", p, o.Name, o.Parts)
		case "call":
			return fmt.Sprintf("body%s.SetAttributeRaw(%q, TokensForFunctionCall(%q, lex each of %q))", p, o.Name, o.Fn, o.Parts)
		case "object":
			return fmt.Sprintf("body%s.SetAttributeRaw(%q, TokensForObject(name/value pairs, lex each of %q))", p, o.Name, o.Parts)
		}
		return fmt.Sprintf("body%s.SetAttributeRaw(%q, lex(%q))", p, o.Name, o.Raw)
	case opRename:
		return fmt.Sprintf("body%s.RenameAttribute(%q, %q)", p, o.Name, o.To)
	case opRemoveAttr:
		return fmt.Sprintf("body%s.RemoveAttribute(%q)", p, o.Name)
	case opAppendNewBlock:
		return fmt.Sprintf("body%s.AppendNewBlock(%q, %q)", p, o.Name, o.Labels)
	case opRemoveBlock:
		return fmt.Sprintf("body%s.RemoveBlock(Blocks()[%d]) -> shelf", p, o.Index)
	case opAppendBlock:
		return fmt.Sprintf("body%s.AppendBlock(shelf[%d])", p, o.Index)
	case opSetType:
		return fmt.Sprintf("body%s.Blocks()[%d].SetType(%q)", p, o.Index, o.Name)
	case opSetLabels:
		return fmt.Sprintf("body%s.Blocks()[%d].SetLabels(%q)", p, o.Index, o.Labels)
	case opAppendNewline:
		return fmt.Sprintf("body%s.AppendNewline()", p)
	case opAppendRaw:
		return fmt.Sprintf("body%s.AppendUnstructuredTokens(lex(%q))", p, o.Raw)
	case opClear:
		return fmt.Sprintf("body%s.Clear()", p)
	}
	return "?"
}

// tcase is one replayable case.
type tcase struct {
	Parsed bool   `json:"parsed"` // initial file = hclwrite.ParseConfig(Src); else NewEmptyFile
	Src    string `json:"src"`
	Pre    []hop  `json:"pre,omitempty"` // operations applied before the first observation ("generated via the API")
	Ops    []hop  `json:"ops"`
	// who owns what (caller.go): 0 every call gets fresh arguments; 1 slice arguments of successive calls are
	// cut from one shared backing array, results are scribbled over; 2 as 1 and arguments are scribbled over after the call
	Caller int `json:"caller,omitempty"`
}

func (c *tcase) JSON() string {
	b, _ := json.Marshal(c)
	return string(b)
}

func (c *tcase) Pretty() string {
	var sb strings.Builder
	if c.Caller != callerFresh {
		fmt.Fprintf(&sb, "// caller: %s (slice arguments share one backing array; see harness/cmd/c12/caller.go)\n", callerName(c.Caller))
	}
	if c.Parsed {
		fmt.Fprintf(&sb, "f := ParseConfig(%q)\n", c.Src)
	} else {
		sb.WriteString("f := NewEmptyFile()\n")
	}
	for _, o := range c.Pre {
		sb.WriteString(o.String() + "\n")
	}
	for _, o := range c.Ops {
		sb.WriteString(o.String() + "\n")
	}
	return sb.String()
}

func valJSON(v cty.Value) (json.RawMessage, json.RawMessage) {
	tb, err := ctyjson.MarshalType(v.Type())
	if err != nil {
		panic(err)
	}
	vb, err := ctyjson.Marshal(v, v.Type())
	if err != nil {
		panic(err)
	}
	return vb, tb
}

func (o hop) value() cty.Value {
	ty, err := ctyjson.UnmarshalType(o.ValTy)
	if err != nil {
		panic(err)
	}
	v, err := ctyjson.Unmarshal(o.Val, ty)
	if err != nil {
		panic(err)
	}
	return v
}

func (o hop) traversal() hcl.Traversal {
	t, diags := hclsyntax.ParseTraversalAbs([]byte(o.Trav), "", hcl.InitialPos)
	if diags.HasErrors() {
		panic("bad traversal " + o.Trav + ": " + diags.Error())
	}
	return t
}

// ---- pools -----------------------------------------------------------------------

var attrNames = []string{"a", "b", "foo", "bar", "count", "tags", "name", "x1", "a-b", "_u", "k_2", "ünï", "in", "for", "null",
	// identifiers are written and read back as given: a name that is not NFC and its NFC form are two names
	"cafe\u0301", "caf\u00e9", "\u1100\u1161", "\u212b"}
var blockTypes = []string{"resource", "b", "data", "locals", "x", "a", "dynamic", "cafe\u0301", "\uac00"}
var goodLabels = []string{"l", "aws_instance", "a b", "", `q"r`, "ünï", "tab\tx", "nl\nx", "x.y", "z"}
var templLabels = []string{"a$b", "x%y", "p${q}", "%{if}", "$", "100%", "$${x}"}
var commentTexts = []string{"c", " todo: x = 1", " a { b }", " \"q", " ${x}", " é", "", " spaced  out "}

var valStrings = []string{"", "s", "a b", "${x}", "%{if}", `q"r`, `back\slash`, "ünï", "line\nbreak", "tab\t", "$", "100%", "\u0001", "long string value here"}

func genVal(r *hv.Rng, depth int) cty.Value {
	k := r.Intn(12)
	if depth >= 2 && k >= 6 {
		k = r.Intn(6)
	}
	switch k {
	case 0, 1:
		switch r.Intn(5) {
		case 0:
			return cty.NumberFloatVal(float64(r.Intn(1000)) / 8)
		case 1:
			return cty.NumberIntVal(-int64(r.Intn(100)))
		case 2:
			f, _ := new(big.Float).SetString("123456789012345678901234567890")
			return cty.NumberVal(f)
		}
		return cty.NumberIntVal(int64(r.Intn(200)))
	case 2, 3:
		if r.Chance(0.2) {
			// unicode.go: cty.StringVal normalises what the caller gives it; what is written must read back as that
			return cty.StringVal(genUniValid(r))
		}
		return cty.StringVal(valStrings[r.Intn(len(valStrings))])
	case 4:
		return cty.BoolVal(r.Chance(0.5))
	case 5:
		return cty.NullVal(cty.String)
	case 6:
		n := r.Small(3)
		if n == 0 {
			return cty.ListValEmpty(cty.String)
		}
		vs := make([]cty.Value, n)
		num := r.Chance(0.5)
		for i := range vs {
			if num {
				vs[i] = cty.NumberIntVal(int64(r.Intn(50)))
			} else {
				vs[i] = cty.StringVal(valStrings[r.Intn(len(valStrings))])
			}
		}
		return cty.ListVal(vs)
	case 7:
		n := 1 + r.Small(2)
		vs := make([]cty.Value, n)
		for i := range vs {
			vs[i] = cty.StringVal(valStrings[r.Intn(len(valStrings))])
		}
		return cty.SetVal(vs)
	case 8:
		n := r.Small(3)
		if n == 0 {
			return cty.MapValEmpty(cty.Number)
		}
		m := map[string]cty.Value{}
		for i := 0; i < n; i++ {
			m[r.Pick("k", "a b", "x1", "ünï", "1x", "a.b", "cafe\u0301", "\u1100\u1161\u11a8", "\U0001D15E")] = cty.NumberIntVal(int64(r.Intn(9)))
		}
		return cty.MapVal(m)
	case 9:
		n := r.Small(3)
		vs := make([]cty.Value, n)
		for i := range vs {
			vs[i] = genVal(r, depth+1)
		}
		return cty.TupleVal(vs)
	default:
		n := r.Small(3)
		m := map[string]cty.Value{}
		for i := 0; i < n; i++ {
			m[r.Pick("k", "name", "a b", "x1", "in", "1x", "if", "cafe\u0301", "\u212b", "\ufb01")] = genVal(r, depth+1)
		}
		return cty.ObjectVal(m)
	}
}

func genTraversal(r *hv.Rng) string {
	var sb strings.Builder
	sb.WriteString(r.Pick("var", "local", "a", "module", "each", "ünï", "cafe\u0301"))
	n := r.Small(4)
	for i := 0; i < n; i++ {
		switch r.Intn(4) {
		case 0, 1:
			sb.WriteString("." + r.Pick("name", "id", "x1", "a-b", "in", "cafe\u0301", "\u1100\u1161"))
		case 2:
			fmt.Fprintf(&sb, "[%d]", r.Intn(5))
		default:
			sb.WriteString(`["` + r.Pick("k", "a b", "x", "cafe\u0301", "\u1100\u1161\u11a8", "\U0001D15E", "\ufb01") + `"]`)
		}
	}
	return sb.String()
}

var rawExprs = []string{
	"1 + 2", "foo(a, b)", "[for x in y : x]", `"str ${v}"`, "a ? b : c", "{ a = 1 }", "var.x", "!true",
	"-1", "[1, 2, 3]", `"plain"`, "a.b[0].c", "f(x...)", "null", "(1 + 2) * 3", `"%{ if c }y%{ endif }"`,
	"x == y && z", "{ for k, v in m : k => v }", "a[*].id", "1",
}

func exprParses(s string) bool {
	_, d := hclsyntax.ParseConfig([]byte("x = "+s+"\n"), "", hcl.InitialPos)
	return !d.HasErrors()
}

func genRawExpr(r *hv.Rng) string {
	if r.Chance(0.3) {
		for i := 0; i < 4; i++ {
			s, _ := hv.GenExprText(r)
			// keep it on one logical item: it must parse as an attribute value
			if exprParses(s) {
				return s
			}
		}
	}
	return rawExprs[r.Intn(len(rawExprs))]
}

// ---- initial text -----------------------------------------------------------------

type textGen struct {
	r    *hv.Rng
	b    strings.Builder
	feat map[string]int
	odd  bool // allow layouts that leave a body's last item without a newline
}

func (g *textGen) comment() {
	switch g.r.Intn(3) {
	case 0:
		g.b.WriteString("#" + g.r.Pick(commentTexts...) + "\n")
	case 1:
		g.b.WriteString("//" + g.r.Pick(commentTexts...) + "\n")
	default:
		g.b.WriteString("/*" + g.r.Pick(commentTexts...) + "*/\n")
	}
	g.feat["init:lead-comment"]++
}

func (g *textGen) lineEnd() {
	if g.r.Chance(0.2) {
		g.b.WriteString(" " + g.r.Pick("#", "//") + g.r.Pick(commentTexts...) + "\n")
		g.feat["init:line-comment"]++
		return
	}
	if g.r.Chance(0.05) {
		g.b.WriteString(" /* c */")
	}
	if g.r.Chance(0.05) {
		g.b.WriteString("\r\n")
		g.feat["init:crlf"]++
		return
	}
	g.b.WriteString("\n")
}

func (g *textGen) label() string {
	switch x := g.r.Intn(20); {
	case x < 6:
		g.feat["init:bare-label"]++
		return g.r.Pick("l", "foo", "a-b", "x1")
	case x < 7:
		g.feat["init:template-char-label"]++
		return `"` + g.r.Pick("a$b", "x%y", "$", "p$${q}", "100%", "%%{x}") + `"`
	default:
		if g.r.Chance(0.12) {
			// labels of the SOURCE are not normalised by anybody: the readers give the bytes of the text
			g.feat["init:non-nfc-or-non-bmp-label"]++
			return `"` + g.r.Pick("cafe\u0301", "\u1100\u1161\u11a8", "\u212b", "\U0001D15E", "\U0001F600", `e\u0301`, `\U0001D15E`, "\ufb01") + `"`
		}
		return `"` + g.r.Pick("l", "a b", "ü", `q\"q`, "x.y", "", "aws_instance", `t\tx`, `ué`) + `"`
	}
}

func (g *textGen) body(level int, n int) {
	ind := strings.Repeat("  ", level)
	used := map[string]bool{}
	for i := 0; i < n; i++ {
		for g.r.Chance(0.15) {
			g.b.WriteString(ind)
			g.comment()
		}
		if g.r.Chance(0.1) {
			g.b.WriteString("\n")
		}
		g.b.WriteString(ind)
		if g.r.Chance(0.6) || level >= 3 {
			name := attrNames[g.r.Intn(len(attrNames))]
			if used[name] {
				name = fmt.Sprintf("%s_%d", name, i)
			}
			used[name] = true
			g.b.WriteString(name)
			g.b.WriteString(g.r.Pick(" = ", "=", "   =  ", " /* c */ = "))
			g.b.WriteString(genRawExpr(g.r))
			g.lineEnd()
			g.feat["init:attr"]++
		} else {
			g.b.WriteString(blockTypes[g.r.Intn(len(blockTypes))])
			nl := g.r.Small(3)
			for j := 0; j < nl; j++ {
				g.b.WriteString(" " + g.label())
			}
			g.b.WriteString(" {")
			g.feat["init:block"]++
			switch x := g.r.Intn(20); {
			case x < 1 && g.odd:
				g.b.WriteString("}")
				g.feat["init:empty-oneline-block"]++
			case x < 2 && g.odd:
				g.b.WriteString(" " + g.r.Pick("a", "zz") + " = 1 }")
				g.feat["init:oneline-block"]++
			default:
				g.lineEnd()
				g.body(level+1, g.r.Small(4))
				g.b.WriteString(ind + "}")
			}
			g.lineEnd()
		}
	}
	for g.r.Chance(0.1) {
		g.b.WriteString(ind)
		g.comment()
	}
}

func genText(r *hv.Rng, feat map[string]int) string {
	for try := 0; try < 20; try++ {
		g := &textGen{r: r, feat: map[string]int{}, odd: r.Chance(0.12)}
		g.body(0, 1+r.Small(5))
		s := g.b.String()
		if g.odd && r.Chance(0.5) {
			s = strings.TrimRight(s, "\r\n")
			g.feat["init:no-final-newline"]++
		}
		if _, d := hclsyntax.ParseConfig([]byte(s), "", hcl.InitialPos); d.HasErrors() {
			continue
		}
		// C12 starts from a file that was loaded without loss; whether loading
		// is lossless is property C10 (e.g. `foo[true]` loses its key there).
		if !loadsLosslessly(s) {
			feat["init:rejected-lossy-load(C10)"]++
			continue
		}
		for k, v := range g.feat {
			feat[k] += v
		}
		return s
	}
	return "a = 1\n"
}

func loadsLosslessly(src string) bool {
	f, diags := hclwrite.ParseConfig([]byte(src), "", hcl.InitialPos)
	if diags.HasErrors() {
		return false
	}
	return tokSig(hclwrite.VerifFileTokens(f)) == tokSig(hclwrite.VerifLexConfig([]byte(src)))
}

// ---- histories -------------------------------------------------------------------

type histGen struct {
	r    *hv.Rng
	m    *mirror
	feat map[string]int
	// knobs (per history)
	allowSetType bool
	allowClear   bool
	allowTempl   bool
}

func (g *histGen) pickPath() []int {
	var p []int
	b := g.m.root
	for {
		bl := b.blocks()
		if len(bl) == 0 || !g.r.Chance(0.55) {
			return p
		}
		i := g.r.Intn(len(bl))
		p = append(p, i)
		b = bl[i].body
	}
}

func (g *histGen) attrName(b *mBody, wantExisting float64) string {
	at := b.attrs()
	if len(at) > 0 && g.r.Chance(wantExisting) {
		return at[g.r.Intn(len(at))].name
	}
	return attrNames[g.r.Intn(len(attrNames))]
}

func (g *histGen) labels() []string {
	n := g.r.Small(3)
	// arbitrary Unicode arguments (unicode.go): in about a fifth of the label-setting calls every label is
	// drawn from the non-NFC / Hangul jamo / singleton / supplementary-plane / NFKC-only / not-UTF-8 alphabet
	uni := g.r.Chance(0.22)
	if uni && n == 0 {
		n = 1
	}
	ls := make([]string, n)
	g.feat["arg:label-setting-call"]++
	defer func() {
		special, changed := false, false
		for _, l := range ls {
			if c := uniClass(l); c != ucPlain {
				g.feat["arg:label:"+c]++
			}
			special = special || nonNFCorNonBMP(l)
			changed = changed || changedByWriter(l)
		}
		if special {
			g.feat["arg:label-setting-call-with-non-nfc-or-non-bmp-label"]++
		}
		if changed {
			g.feat["arg:label-setting-call-with-label-the-writer-must-change(non-nfc/not-utf8)"]++
		}
	}()
	for i := range ls {
		if uni && (i == 0 || g.r.Chance(0.7)) {
			ls[i] = genUniString(g.r)
			continue
		}
		if g.allowTempl && g.r.Chance(0.3) {
			ls[i] = templLabels[g.r.Intn(len(templLabels))]
			g.feat["arg:template-char-label"]++
		} else {
			ls[i] = goodLabels[g.r.Intn(len(goodLabels))]
		}
	}
	return ls
}

func (g *histGen) setOp(p []int, name string) hop {
	switch g.r.Intn(3) {
	case 0:
		v, t := valJSON(genVal(g.r, 0))
		return hop{Kind: opSetVal, Path: p, Name: name, Val: v, ValTy: t}
	case 1:
		return hop{Kind: opSetTrav, Path: p, Name: name, Trav: genTraversal(g.r)}
	default:
		if g.r.Chance(0.2) {
			return g.viaOp(p, name)
		}
		return hop{Kind: opSetRaw, Path: p, Name: name, Raw: genRawExpr(g.r)}
	}
}

var viaPieces = []string{"a", "1", "var.x", `"s"`, "f(1)", "[1, 2]", "x + 1", "local.table", "true", `"${v}"`, "a[0].b"}
var viaNames = []string{"k", "name", `"q r"`, "(a.b)", "x1"}

// viaOp: SetAttributeRaw with tokens built through TokensForTuple / TokensForFunctionCall / TokensForObject
func (g *histGen) viaOp(p []int, name string) hop {
	o := hop{Kind: opSetRaw, Path: p, Name: name, Via: g.r.Pick("tuple", "call", "object")}
	n := g.r.Small(4)
	g.feat["arg:raw-via-"+o.Via]++
	switch o.Via {
	case "call":
		o.Fn = g.r.Pick("lookup", "f", "max", "ünï")
		fallthrough
	case "tuple":
		for i := 0; i < n; i++ {
			o.Parts = append(o.Parts, viaPieces[g.r.Intn(len(viaPieces))])
		}
	default:
		used := map[string]bool{}
		for i := 0; i < n; i++ {
			k := viaNames[g.r.Intn(len(viaNames))]
			if used[k] {
				continue
			}
			used[k] = true
			o.Parts = append(o.Parts, k, viaPieces[g.r.Intn(len(viaPieces))])
		}
	}
	return o
}

// aliasRun: the shape in which a library that keeps (part of) an argument slice shows even with a caller
// that never scribbles: 2-5 consecutive raw-token sets of DISTINCT, new attributes of one body whose
// expressions share a prefix (`var.` + name, `lookup(local.table, ` + key + `)`), interleaved with the
// other slice-taking calls (labels, traversal, unstructured tokens).
func (g *histGen) aliasRun() []hop {
	p := g.pickPath()
	b := g.m.bodyAt(p)
	n := 2 + g.r.Intn(4)
	templ := g.r.Intn(3)
	var out []hop
	emit := func(o hop) {
		g.m.apply(o)
		out = append(out, o)
	}
	for i := 0; i < n; i++ {
		name := fmt.Sprintf("%s_%d", g.r.Pick("zone", "tier", "owner", "key"), i)
		if b.has(name) {
			continue
		}
		switch templ {
		case 0:
			emit(hop{Kind: opSetRaw, Path: p, Name: name, Raw: "var." + name})
		case 1:
			emit(hop{Kind: opSetRaw, Path: p, Name: name, Raw: fmt.Sprintf("lookup(local.table, key%d)", i)})
		default:
			emit(hop{Kind: opSetRaw, Path: p, Name: name, Via: "call", Fn: "lookup", Parts: []string{"local.table", fmt.Sprintf("key%d", i)}})
		}
		switch g.r.Intn(6) {
		case 0:
			emit(hop{Kind: opAppendRaw, Path: p, Raw: g.r.Pick("# c\n", "// note\n", "/* x */\n")})
		case 1:
			emit(hop{Kind: opAppendNewBlock, Path: p, Name: blockTypes[g.r.Intn(len(blockTypes))], Labels: g.labels()})
		case 2:
			emit(hop{Kind: opSetTrav, Path: p, Name: name + "_t", Trav: genTraversal(g.r)})
		}
	}
	return out
}

// next generates one operation against the current mirror state and applies it
// to the mirror.
func (g *histGen) next(last *hop) hop {
	p := g.pickPath()
	if len(p) > 0 {
		g.feat["op-in-nested-body"]++
		g.feat[fmt.Sprintf("op-depth:%d", len(p))]++
	}
	b := g.m.bodyAt(p)
	var o hop
	// repeat on the same item
	if last != nil && g.r.Chance(0.15) {
		switch last.Kind {
		case opSetVal, opSetTrav, opSetRaw:
			o = g.setOp(last.Path, last.Name)
			g.feat["repeat-on-same-item"]++
			g.m.apply(o)
			return o
		case opSetType, opSetLabels:
			if g.r.Chance(0.5) && g.allowSetType {
				o = hop{Kind: opSetType, Path: last.Path, Index: last.Index, Name: blockTypes[g.r.Intn(len(blockTypes))]}
			} else {
				o = hop{Kind: opSetLabels, Path: last.Path, Index: last.Index, Labels: g.labels()}
			}
			g.feat["repeat-on-same-item"]++
			g.m.apply(o)
			return o
		}
	}
	nb := len(b.blocks())
	for {
		switch x := g.r.Intn(100); {
		case x < 30:
			name := g.attrName(b, 0.5)
			if !b.has(name) && g.m.everRemoved[name] {
				g.feat["remove-then-readd-attr"]++
			}
			o = g.setOp(p, name)
		case x < 38:
			from := g.attrName(b, 0.8)
			to := g.attrName(b, 0.25)
			if !b.has(from) {
				g.feat["absent-name"]++
			} else if b.has(to) {
				g.feat["rename-onto-existing"]++
			}
			o = hop{Kind: opRename, Path: p, Name: from, To: to}
		case x < 48:
			name := g.attrName(b, 0.8)
			if !b.has(name) {
				g.feat["absent-name"]++
			}
			o = hop{Kind: opRemoveAttr, Path: p, Name: name}
		case x < 62:
			o = hop{Kind: opAppendNewBlock, Path: p, Name: blockTypes[g.r.Intn(len(blockTypes))], Labels: g.labels()}
		case x < 69:
			if nb == 0 && !g.r.Chance(0.1) {
				continue
			}
			i := 0
			if nb > 0 {
				i = g.r.Intn(nb)
			}
			if g.r.Chance(0.05) {
				i = nb // out of range: no-op
				g.feat["absent-block-index"]++
			}
			o = hop{Kind: opRemoveBlock, Path: p, Index: i}
		case x < 74:
			if len(g.m.shelf) == 0 {
				continue
			}
			g.feat["remove-then-readd-block"]++
			o = hop{Kind: opAppendBlock, Path: p, Index: g.r.Intn(len(g.m.shelf))}
		case x < 80:
			if nb == 0 || !g.allowSetType {
				continue
			}
			o = hop{Kind: opSetType, Path: p, Index: g.r.Intn(nb), Name: blockTypes[g.r.Intn(len(blockTypes))]}
		case x < 89:
			if nb == 0 {
				continue
			}
			o = hop{Kind: opSetLabels, Path: p, Index: g.r.Intn(nb), Labels: g.labels()}
		case x < 94:
			o = hop{Kind: opAppendNewline, Path: p}
		case x < 97:
			o = hop{Kind: opAppendRaw, Path: p, Raw: g.r.Pick("# c\n", "// note\n", "\n\n", "/* x */\n")}
		default:
			if !g.allowClear {
				continue
			}
			o = hop{Kind: opClear, Path: p}
		}
		break
	}
	g.m.apply(o)
	return o
}

// genCase generates one case.
func genCase(r *hv.Rng, feat map[string]int) *tcase {
	c := &tcase{}
	m := newMirror()
	g := &histGen{r: r, m: m, feat: feat,
		allowSetType: true, allowClear: r.Chance(0.4), allowTempl: r.Chance(0.5)}
	switch x := r.Intn(10); {
	case x < 2:
		feat["init:empty"]++
	case x < 4:
		feat["init:api-generated"]++
		save1, save2 := g.allowSetType, g.allowClear
		g.allowSetType, g.allowClear = false, false
		n := 1 + r.Small(8)
		var last *hop
		for i := 0; i < n; i++ {
			o := g.next(last)
			c.Pre = append(c.Pre, o)
			last = &c.Pre[len(c.Pre)-1]
		}
		g.allowSetType, g.allowClear = save1, save2
	default:
		feat["init:parsed"]++
		c.Parsed = true
		c.Src = genText(r, feat)
		m.loadSource(c.Src)
	}
	n := 1 + r.Intn(8)
	if r.Chance(0.4) {
		n = 1 + r.Intn(40)
	}
	// the caller (ownership of arguments and results)
	switch x := r.Intn(100); {
	case x < 40:
		c.Caller = callerFresh
	case x < 65:
		c.Caller = callerAliasing
	default:
		c.Caller = callerScribbler
	}
	runAt := -1
	if r.Chance(0.1) {
		runAt = r.Intn(n)
		if c.Caller == callerFresh {
			c.Caller = callerAliasing
		}
		feat["shape:alias-run(shared-prefix raw sets of distinct attributes)"]++
	}
	var last *hop
	for i := 0; i < n; i++ {
		if i == runAt {
			c.Ops = append(c.Ops, g.aliasRun()...)
			last = nil
		}
		o := g.next(last)
		c.Ops = append(c.Ops, o)
		last = &c.Ops[len(c.Ops)-1]
	}
	return c
}
