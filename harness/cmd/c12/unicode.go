package main

// Arbitrary Unicode arguments (class of seed C12-r4).
//
// Every label string handed to SetLabels / NewBlock / AppendNewBlock passes
// through cty.StringVal when its tokens are generated: it is written in Unicode
// normalisation form C, and a byte that is not part of a valid UTF-8 sequence
// is written as U+FFFD. The property says that the readers of the live tree
// agree with the file after every edit FOR EVERY ARGUMENT STRING, so the
// alphabet of labels (and of string values, object keys, traversal steps,
// identifiers) must contain strings that such a step changes, and the map/list
// mirror must hold the form the FILE carries, computed without the library
// under test: refNorm below (golang.org/x/text/unicode/norm + one U+FFFD per
// invalid byte). Text that is already NFC must come back unchanged, including
// text that NFKC would change (ligatures, circled digits, half-width kana).
//
// labelList keeps a case replayable although JSON strings cannot carry invalid
// UTF-8: a label that is not valid UTF-8 is written as {"hex": "..."}.

import (
	"encoding/hex"
	"encoding/json"
	"fmt"
	"strings"
	"unicode/utf8"

	"golang.org/x/text/unicode/norm"
	"hclverif/hv"
)

type labelList []string

type hexLabel struct {
	Hex string `json:"hex"`
}

func (ls labelList) MarshalJSON() ([]byte, error) {
	items := make([]any, len(ls))
	for i, l := range ls {
		if utf8.ValidString(l) {
			items[i] = l
		} else {
			items[i] = hexLabel{hex.EncodeToString([]byte(l))}
		}
	}
	return json.Marshal(items)
}

func (ls *labelList) UnmarshalJSON(b []byte) error {
	var raw []json.RawMessage
	if err := json.Unmarshal(b, &raw); err != nil {
		return err
	}
	if raw == nil {
		*ls = nil
		return nil
	}
	out := make(labelList, len(raw))
	for i, m := range raw {
		var s string
		if err := json.Unmarshal(m, &s); err == nil {
			out[i] = s
			continue
		}
		var h hexLabel
		if err := json.Unmarshal(m, &h); err != nil {
			return fmt.Errorf("label %d: neither a string nor {\"hex\": ...}", i)
		}
		bs, err := hex.DecodeString(h.Hex)
		if err != nil {
			return err
		}
		out[i] = string(bs)
	}
	*ls = out
	return nil
}

// refNorm: the string a file carries for the argument string s of a
// label-setting call (reference; shares nothing with hclwrite).
func refNorm(s string) string {
	s = norm.NFC.String(s)
	if utf8.ValidString(s) {
		return s
	}
	var sb strings.Builder
	for i := 0; i < len(s); {
		r, n := utf8.DecodeRuneInString(s[i:])
		if r == utf8.RuneError && n <= 1 {
			sb.WriteRune(utf8.RuneError)
			i++
			continue
		}
		sb.WriteString(s[i : i+n])
		i += n
	}
	return sb.String()
}

func refNormAll(ls []string) []string {
	out := make([]string, len(ls))
	for i, l := range ls {
		out[i] = refNorm(l)
	}
	return out
}

// classes of an argument string (histogram)
const (
	ucPlain    = ""
	ucNonNFC   = "non-nfc"      // refNorm changes it (valid UTF-8)
	ucInvalid  = "invalid-utf8" // refNorm changes it (U+FFFD)
	ucNonBMP   = "non-bmp(nfc)" // contains a supplementary-plane character, already NFC
	ucNFKCOnly = "nfc-stable-nfkc-would-change"
	ucOtherNFC = "non-ascii(nfc)"
)

func uniClass(s string) string {
	if !utf8.ValidString(s) {
		return ucInvalid
	}
	if refNorm(s) != s {
		return ucNonNFC
	}
	ascii := true
	for _, r := range s {
		if r >= 0x10000 {
			return ucNonBMP
		}
		if r >= 0x80 {
			ascii = false
		}
	}
	if norm.NFKC.String(s) != s {
		return ucNFKCOnly
	}
	if !ascii {
		return ucOtherNFC
	}
	return ucPlain
}

// changedByWriter: the file will not carry the caller's bytes.
func changedByWriter(s string) bool { return refNorm(s) != s }

func nonNFCorNonBMP(s string) bool {
	switch uniClass(s) {
	case ucNonNFC, ucInvalid, ucNonBMP:
		return true
	}
	return false
}

// fixed pool: every mechanism at least once (escapes only: the source file itself
// must not depend on the normalisation form an editor saves it in)
var uniLabels = []string{
	// combining marks after base letters (canonical composition)
	"cafe\u0301", "u\u0308ni\u0308", "A\u030a", "n\u0303o", "o\u0302\u0301",
	// marks in non-canonical order (reordered, then composed)
	"a\u0301\u0323", "q\u0307\u0323", "e\u0301\u0323\u0327",
	// Hangul jamo (algorithmic composition)
	"\u1100\u1161", "\u1100\u1161\u11a8", "\u1112\u1161\u11ab\u1100\u1173\u11af", "\uac00\u11a8",
	// singleton and multi-character canonical decompositions
	"\u212b", "\u2126", "\u0344", "\u0340x", "\u0343", "\u2000", "\u1f71", "\u0958", "\u2adc", "\u0f43",
	// supplementary plane: stable, changed by NFC, not printable (written as \U escape)
	"\U0001F600", "x\U00010400y", "\U0001D15E", "\U0002F800", "\U000E0001", "\U0001F1E9\U0001F1EA", "e\u0301\U0001F600", "\U000110A5\U000110BA",
	// already NFC, NFKC would change: must come back unchanged
	"\ufb01n", "\u2460", "\uff76", "x\u00b2", "\u00b5m", "\u2160V", "\u3392", "\u1e9b\u0323",
	// already NFC, not ASCII
	"caf\u00e9", "\uac01", "\u00df", "\u4e3d", "\u0301x", "a\u200db", "\u202eabc",
	// with the characters the label codec treats specially
	"e\u0301${x}", "$${\u1100\u1161}", "\"\u212b\"", "%{A\u030a}", "tab\te\u0301", "nl\n\u1100\u1161", "\\u0065\u0301",
	// not UTF-8
	"\xff", "a\xc3", "\xed\xa0\x80", "e\xff\u0301", "\xe2\x82", "\xc0\xaf", "caf\xe9", "e\u0301\x80",
}

var uniBases = []string{"a", "e", "o", "u", "A", "n", "c", "s", "q", "x", "\u00e6", "\u03b1", "\u0438", "\u05d3", "\u0915", "\u00e9", "\u1ea1"}
var uniMarks = []string{"\u0300", "\u0301", "\u0302", "\u0303", "\u0308", "\u030a", "\u0323", "\u0327", "\u0328", "\u0307", "\u0345", "\u093c", "\u05b4", "\u0334"}
var uniSupp = []string{"\U0001F600", "\U00010400", "\U0001D15E", "\U0001D1BB", "\U0002F800", "\U0002F81A", "\U000E0001", "\U0001F468\u200d\U0001F469", "\U00020000", "\U0010FFFD"}
var uniCompat = []string{"\ufb01", "\u2460", "\uff76", "\u00b2", "\u00b5", "\u2160", "\u3392", "\u00bd", "\u2122", "\ufe64"}
var uniBad = []string{"\xff", "\xc3", "\x80", "\xed\xa0\x80", "\xf4\x90\x80\x80", "\xe2\x82", "\xc0\xaf"}

// genUniString: a random string of the class, 1-4 clusters long.
func genUniString(r *hv.Rng) string {
	if r.Chance(0.45) {
		return uniLabels[r.Intn(len(uniLabels))]
	}
	var sb strings.Builder
	n := 1 + r.Small(3)
	for i := 0; i < n; i++ {
		switch x := r.Intn(20); {
		case x < 8: // base + 1-3 combining marks, any order
			sb.WriteString(uniBases[r.Intn(len(uniBases))])
			for k := 1 + r.Small(2); k > 0; k-- {
				sb.WriteString(uniMarks[r.Intn(len(uniMarks))])
			}
		case x < 11: // Hangul L V (T)
			sb.WriteRune(rune(0x1100 + r.Intn(19)))
			sb.WriteRune(rune(0x1161 + r.Intn(21)))
			if r.Chance(0.5) {
				sb.WriteRune(rune(0x11a8 + r.Intn(27)))
			}
		case x < 14:
			sb.WriteString(uniSupp[r.Intn(len(uniSupp))])
		case x < 16:
			sb.WriteString(uniCompat[r.Intn(len(uniCompat))])
		case x < 17:
			sb.WriteString(uniBad[r.Intn(len(uniBad))])
		case x < 18:
			sb.WriteString(r.Pick("${", "%{", "$", "\"", "\\", " ", "\t"))
		default:
			sb.WriteString(r.Pick("l", "x", "ab", "z9"))
		}
	}
	return sb.String()
}

// genUniValid: as genUniString, valid UTF-8 only (strings that travel as JSON /
// source text: values, object keys, traversal steps).
func genUniValid(r *hv.Rng) string {
	for i := 0; i < 8; i++ {
		if s := genUniString(r); utf8.ValidString(s) {
			return s
		}
	}
	return "cafe\u0301"
}

// identifiers that are not NFC / not ASCII: attribute names, block types and
// traversal steps are written as they are given (no normalisation), and the
// scanner reads them back as they are
var uniIdents = []string{"cafe\u0301", "\u1100\u1161", "\u212b", "a\ufb01", "x\u0301\u0323", "\uac01_1", "u\u0308ni\u0308"}
