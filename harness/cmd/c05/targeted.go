package main

// targeted.go: a stream aimed at the places where the abstract (unknown) evaluation COMMITS to
// something the concrete evaluations may contradict: result types chosen from unknown or dynamic
// arms, refinements computed from bounds and prefixes, length bounds of splats and for expressions,
// short-circuit decisions. The scope is fixed (every kind of unknown), the expression is composed from
// atoms and one-hole contexts; consumers such as == make a type or refinement difference observable.
import (
	"strings"

	"hclverif/hv"

	"github.com/hashicorp/hcl/v2"
	"github.com/zclconf/go-cty/cty"
)

func tgtScope() *hcl.EvalContext {
	n := func(i int64) cty.Value { return cty.NumberIntVal(i) }
	return &hcl.EvalContext{Functions: hv.HarnessFuncs, Variables: map[string]cty.Value{
		"du": cty.DynamicVal,
		"us": cty.UnknownVal(cty.String),
		"up": cty.UnknownVal(cty.String).Refine().NotNull().StringPrefix("he").NewValue(),
		"un": cty.UnknownVal(cty.Number),
		"ur": cty.UnknownVal(cty.Number).Refine().NotNull().NumberRangeInclusive(n(0), n(1)).NewValue(),
		"ux": cty.UnknownVal(cty.Number).Refine().NotNull().NumberRangeLowerBound(n(1), false).NewValue(),
		"uy": cty.UnknownVal(cty.Number).Refine().NotNull().NumberRangeUpperBound(n(1), false).NumberRangeLowerBound(n(0), true).NewValue(),
		"comb": cty.StringVal("\u0301tat"), "uml": cty.StringVal("\u0308"), "plain": cty.StringVal("xyz"),
		"ub": cty.UnknownVal(cty.Bool),
		"ul": cty.UnknownVal(cty.List(cty.Number)).Refine().NotNull().CollectionLengthLowerBound(1).CollectionLengthUpperBound(2).NewValue(),
		"um": cty.UnknownVal(cty.Map(cty.String)),
		"uo": cty.UnknownVal(cty.Object(map[string]cty.Type{"a": cty.Number})),
		"mp": cty.MapVal(map[string]cty.Value{"a": cty.StringVal("b"), "he": cty.StringVal("1")}),
		"l":  cty.ListVal([]cty.Value{n(10), n(20)}),
		"ls": cty.ListVal([]cty.Value{cty.StringVal("p"), cty.UnknownVal(cty.String)}),
		"mt": cty.TupleVal([]cty.Value{n(1), cty.StringVal("a"), cty.UnknownVal(cty.Bool)}),
		"o":  cty.ObjectVal(map[string]cty.Value{"a": n(1), "b": cty.UnknownVal(cty.String)}),
	}}
}

var tgtAtoms = []string{"du", "us", "up", "un", "ur", "ux", "uy", "ux", "uy", "ub", "ul", "um", "uo", "mp[us]", "mp[up]", "l[ur]", "l[un]", "mt[ur]", "ls[1]", "o.b", "uo.a",
	"ul[0]", "um[\"a\"]", "ul[*]", "[for x in ul : x]", "{for k, v in um : k => v}", "\"${us}\"", "\"x-${up}\"", "ur + 1", "un * 0", "ur < 5", "us == \"a\"",
	"ub && false", "ub || true", "[ur, 1]", "{a = us}", "[du]", "mt[ur]"}

var tgtCtx = []string{"false ? H : 1", "true ? 1 : H", "true ? \"1\" : H", "false ? H : l", "ub ? H : l", "ub ? H : 1", "ub ? [H] : l", "true ? [1] : [H]",
	"(H) == 1", "(H) == \"1\"", "(H) != null", "[H][0]", "\"${H}\"", "\"a${H}b\"", "[for x in H : x]", "[for x in l : x if H]", "H[*]", "sum(H...)", "first(H...)",
	"H ? 1 : 2", "H || true", "false && H", "!H", "-H", "H + 1 > 0", "H < 2", "{(H) = 1}", "upper(H)", "isnull(H)", "H[0]", "l[H]", "mp[H]", "length_of_H",
	"[H, H]", "{a = H}", "H == H", "[for x in [H] : x][0]", "\"%{ if H }a%{ else }b%{ endif }\"", "\"%{ for x in H }${x}%{ endfor }\""}

var tgtCond = []string{"ub ? H : 1", "ub ? 1 : H", "ub ? H : 0", "ub ? H : ur", "ub ? ux : H", "ub ? H : uy", "us == \"a\" ? H : 1", "false ? H : 1", "true ? 1 : H", "true ? \"1\" : H", "false ? H : l", "ub ? H : l", "ub ? H : 1", "ub ? [H] : l", "true ? [1] : [H]",
	"false ? [H] : l", "true ? {a = 1} : {a = H}", "ub ? {a = H} : {a = 1}", "ur < 5 ? H : 1"}
var tgtCons = []string{"(H) == 1", "(H) == \"1\"", "(H) != null", "[H][0]", "\"${H}\"", "\"a${H}b\"", "(H) == [10, 20]", "(H)[0] == 10", "H == H", "isnull(H)",
	"[for x in [H] : x][0]", "(H) == {a = 1}", "{a = H}.a == 1"}

func wrapH(c, h string) string {
	if c == "length_of_H" {
		c = "[for x in H : 1]"
	}
	if !strings.HasPrefix(h, "[") && !strings.HasPrefix(h, "{") && !strings.HasPrefix(h, "\"") && strings.ContainsAny(h, " ?") {
		h = "(" + h + ")"
	}
	return strings.ReplaceAll(c, "H", h)
}

func tgtExpr(r *hv.Rng) string {
	e := tgtAtoms[r.Intn(len(tgtAtoms))]
	for d := r.Intn(2); d > 0; d-- {
		e = wrapH(tgtCtx[r.Intn(len(tgtCtx))], e)
	}
	if r.Chance(0.6) {
		e = wrapH(tgtCond[r.Intn(len(tgtCond))], e)
	}
	if r.Chance(0.7) {
		e = wrapH(tgtCons[r.Intn(len(tgtCons))], e)
	}
	if r.Chance(0.2) {
		e = wrapH(tgtCtx[r.Intn(len(tgtCtx))], e)
	}
	return e
}

// tgtLongTemplate: a template whose KNOWN leading text is about as long as the 128-byte cap that
// TemplateExpr.Value puts on the string-prefix refinement, with the cut falling at or next to a part
// boundary where the next known part begins with a combining mark (NFC composes it with the last
// letter of the previous part), a multi-byte rune straddling the cut, or plain text; then an unknown.
func tgtLongTemplate(r *hv.Rng) string {
	n := 116 + r.Intn(24)
	var sb strings.Builder
	sb.WriteString("\"")
	fill := r.Pick("d", "d", "é", "日", "ab")
	for sb.Len()-1 < n-1 {
		sb.WriteString(fill)
	}
	sb.WriteString(r.Pick("e", "e", "a", "u", "x"))
	sb.WriteString(r.Pick("${comb}", "${comb}", "${uml}", "${plain}", "\u0301", ""))
	sb.WriteString(r.Pick("/", "", "-", "${plain}"))
	sb.WriteString(r.Pick("${us}", "${up}", "${un}", "${du}", "${ub ? us : \"k\"}"))
	sb.WriteString(r.Pick("", "tail", "${comb}"))
	sb.WriteString("\"")
	return sb.String()
}
