// Command c05: direct oracle for C05 "Evaluation with unknown values soundly approximates every
// concrete evaluation", on the real code.
//
// For a generated expression and a scope with unknown values (typed, refined, dynamic; nested inside
// collections) the expression is evaluated ABSTRACTLY; the unknowns are then replaced several times by
// concrete values of their types that satisfy their refinements and the expression is evaluated
// CONCRETELY. When both evaluations are error-free the concrete result must be consistent with the
// abstract one (after converting the abstract result to the concrete result's type every known part is
// equal, every typed unknown part has the concrete part's type, every refinement of an unknown part is
// satisfied), and a scope without unknown values never yields an unknown value.
package main

import (
	"fmt"
	"os"
	"strings"

	"hclverif/hv"

	"github.com/hashicorp/hcl/v2"
	"github.com/hashicorp/hcl/v2/hclsyntax"
	"github.com/zclconf/go-cty/cty"
	"github.com/zclconf/go-cty/cty/convert"
)

func main() { hv.Main(map[string]func(*hv.RunCfg) error{"c05": run}) }

// satisfies reports whether the known (or null) value c meets the refinements of the unknown value u.
// Returns a description of the violated refinement, or "".
func satisfies(u, c cty.Value) string {
	if u.IsKnown() || !c.IsKnown() {
		return ""
	}
	r := u.Range()
	if c.IsNull() {
		if r.DefinitelyNotNull() {
			return "not-null refinement, concrete value is null"
		}
		return ""
	}
	ty := c.Type()
	switch {
	case ty == cty.String && u.Type() == cty.String:
		if p := r.StringPrefix(); p != "" && !strings.HasPrefix(c.AsString(), p) {
			return fmt.Sprintf("string prefix %q, concrete value %q", p, c.AsString())
		}
	case ty == cty.Number && u.Type() == cty.Number:
		lo, loInc := r.NumberLowerBound()
		hi, hiInc := r.NumberUpperBound()
		// an infinite bound is no bound
		if lo.IsKnown() && !lo.IsNull() && !lo.RawEquals(cty.NegativeInfinity) {
			if c.LessThan(lo).True() || (!loInc && c.Equals(lo).True()) {
				return fmt.Sprintf("number lower bound %s (inclusive %v), concrete %s", lo.AsBigFloat().String(), loInc, c.AsBigFloat().String())
			}
		}
		if hi.IsKnown() && !hi.IsNull() && !hi.RawEquals(cty.PositiveInfinity) {
			if c.GreaterThan(hi).True() || (!hiInc && c.Equals(hi).True()) {
				return fmt.Sprintf("number upper bound %s (inclusive %v), concrete %s", hi.AsBigFloat().String(), hiInc, c.AsBigFloat().String())
			}
		}
	case (ty.IsCollectionType() || ty.IsTupleType()) && u.Type().IsCollectionType():
		n := c.LengthInt()
		if lo := r.LengthLowerBound(); n < lo {
			return fmt.Sprintf("length lower bound %d, concrete length %d", lo, n)
		}
		if hi := r.LengthUpperBound(); n > hi {
			return fmt.Sprintf("length upper bound %d, concrete length %d", hi, n)
		}
	}
	return ""
}

// consistent compares an abstract result a with a concrete result c. Returns (kind, detail) or "".
func consistent(a, c cty.Value, path string) (string, string) {
	a, _ = a.Unmark()
	c, _ = c.Unmark()
	if !c.IsKnown() {
		return "unknown-from-known-scope", path + ": the concrete evaluation produced an unknown value " + hv.DumpVal(c)
	}
	if !a.IsKnown() {
		at := a.Type()
		if at != cty.DynamicPseudoType {
			// the typed unknown must have the concrete part's type (after conversion of the abstract result)
			if !at.Equals(c.Type()) {
				conv, err := convert.Convert(a, c.Type())
				if err != nil {
					return "unknown-part-type-differs", fmt.Sprintf("%s: abstract unknown of type %s, concrete value of type %s (no conversion: %v)", path, at.FriendlyName(), c.Type().FriendlyName(), err)
				}
				a = conv
			}
		}
		if s := satisfies(a, c); s != "" {
			return "refinement-violated", path + ": " + s + "; abstract " + hv.DumpVal(a) + " concrete " + hv.DumpVal(c)
		}
		return "", ""
	}
	// a is known (possibly containing unknown parts)
	if !a.Type().Equals(c.Type()) {
		conv, err := convert.Convert(a, c.Type())
		if err != nil {
			return "known-part-type-differs", fmt.Sprintf("%s: abstract %s cannot be converted to the concrete type %s: %v", path, hv.DumpVal(a), c.Type().FriendlyName(), err)
		}
		a = conv
		if !a.IsKnown() {
			return consistent(a, c, path)
		}
	}
	if a.IsNull() || c.IsNull() {
		if a.IsNull() != c.IsNull() {
			return "known-part-differs", fmt.Sprintf("%s: abstract %s, concrete %s", path, hv.DumpVal(a), hv.DumpVal(c))
		}
		return "", ""
	}
	ty := a.Type()
	switch {
	case ty.IsPrimitiveType():
		if !a.RawEquals(c) {
			return "known-part-differs", fmt.Sprintf("%s: abstract %s, concrete %s", path, hv.DumpVal(a), hv.DumpVal(c))
		}
	case ty.IsSetType():
		if a.IsWhollyKnown() {
			if !a.RawEquals(c) {
				return "known-part-differs", fmt.Sprintf("%s: abstract %s, concrete %s", path, hv.DumpVal(a), hv.DumpVal(c))
			}
		}
		// a set with unknown members: members cannot be aligned (and may coalesce); only the length bound is checked
		if a.LengthInt() < c.LengthInt() {
			return "known-part-differs", fmt.Sprintf("%s: abstract set has %d members, concrete %d", path, a.LengthInt(), c.LengthInt())
		}
	case ty.IsListType() || ty.IsTupleType():
		if a.LengthInt() != c.LengthInt() {
			return "known-part-differs", fmt.Sprintf("%s: abstract length %d, concrete length %d", path, a.LengthInt(), c.LengthInt())
		}
		ai, ci := a.ElementIterator(), c.ElementIterator()
		i := 0
		for ai.Next() && ci.Next() {
			_, av := ai.Element()
			_, cv := ci.Element()
			if k, d := consistent(av, cv, fmt.Sprintf("%s[%d]", path, i)); k != "" {
				return k, d
			}
			i++
		}
	case ty.IsMapType() || ty.IsObjectType():
		if a.LengthInt() != c.LengthInt() {
			return "known-part-differs", fmt.Sprintf("%s: abstract has %d keys, concrete %d", path, a.LengthInt(), c.LengthInt())
		}
		for it := a.ElementIterator(); it.Next(); {
			k, av := it.Element()
			ks := k.AsString()
			var cv cty.Value
			if ty.IsObjectType() {
				if !c.Type().HasAttribute(ks) {
					return "known-part-differs", path + ": concrete object lacks attribute " + ks
				}
				cv = c.GetAttr(ks)
			} else {
				if c.HasIndex(k).False() {
					return "known-part-differs", path + ": concrete map lacks key " + ks
				}
				cv = c.Index(k)
			}
			if kk, d := consistent(av, cv, path+"."+ks); kk != "" {
				return kk, d
			}
		}
	}
	return "", ""
}

// concretise replaces every unknown (sub)value of v by a known value of its type meeting its refinements.
func concretise(g *hv.EvalGen, v cty.Value, changed *bool) cty.Value {
	if v.IsMarked() {
		u, m := v.Unmark()
		return concretise(g, u, changed).WithMarks(m)
	}
	if !v.IsKnown() {
		*changed = true
		ty := v.Type()
		saveU, saveM := g.Unknowns, g.Marks
		g.Unknowns, g.Marks = 0, 0
		defer func() { g.Unknowns, g.Marks = saveU, saveM }()
		var c cty.Value
		for i := 0; i < 60; i++ {
			c = g.GenValue(ty)
			if !c.IsWhollyKnown() {
				continue
			}
			if satisfies(v, c) == "" {
				return c
			}
		}
		// construct one that fits: strings by prefix, numbers by bound, collections by length
		r := v.Range()
		switch {
		case ty == cty.String:
			return cty.StringVal(r.StringPrefix() + "z")
		case ty == cty.Number:
			lo, _ := r.NumberLowerBound()
			hi, _ := r.NumberUpperBound()
			if lo.IsKnown() && hi.IsKnown() && !lo.IsNull() && !hi.IsNull() && lo.LessThan(hi).True() {
				return lo.Add(hi).Divide(cty.NumberIntVal(2))
			}
			if lo.IsKnown() && !lo.IsNull() {
				return lo.Add(cty.NumberIntVal(1))
			}
			if hi.IsKnown() && !hi.IsNull() {
				return hi.Subtract(cty.NumberIntVal(1))
			}
		case ty.IsListType():
			n := r.LengthLowerBound()
			vs := make([]cty.Value, n)
			for i := range vs {
				vs[i] = g.GenValue(ty.ElementType())
			}
			if n == 0 {
				return cty.ListValEmpty(ty.ElementType())
			}
			return cty.ListVal(vs)
		}
		return c
	}
	if v.IsNull() {
		return v
	}
	ty := v.Type()
	switch {
	case ty.IsListType() || ty.IsTupleType() || ty.IsSetType():
		if v.LengthInt() == 0 {
			return v
		}
		var vs []cty.Value
		for it := v.ElementIterator(); it.Next(); {
			_, e := it.Element()
			vs = append(vs, concretise(g, e, changed))
		}
		switch {
		case ty.IsListType():
			return cty.ListVal(vs)
		case ty.IsSetType():
			return cty.SetVal(vs)
		}
		return cty.TupleVal(vs)
	case ty.IsMapType() || ty.IsObjectType():
		if v.LengthInt() == 0 {
			return v
		}
		m := map[string]cty.Value{}
		for it := v.ElementIterator(); it.Next(); {
			k, e := it.Element()
			m[k.AsString()] = concretise(g, e, changed)
		}
		if ty.IsMapType() {
			return cty.MapVal(m)
		}
		return cty.ObjectVal(m)
	}
	return v
}

func exclusivise(r *hv.Rng, v cty.Value) cty.Value {
	if v.IsMarked() {
		u, m := v.Unmark()
		return exclusivise(r, u).WithMarks(m)
	}
	if !v.IsKnown() && v.Type() == cty.Number {
		rg := v.Range()
		lo, _ := rg.NumberLowerBound()
		hi, _ := rg.NumberUpperBound()
		if !rg.DefinitelyNotNull() || !lo.IsKnown() || !hi.IsKnown() || lo.RawEquals(cty.NegativeInfinity) || hi.RawEquals(cty.PositiveInfinity) || !r.Chance(0.5) {
			return v
		}
		// widen by one on the side made exclusive so that the range stays non-empty
		b := cty.UnknownVal(cty.Number).Refine().NotNull()
		switch r.Intn(3) {
		case 0:
			b = b.NumberRangeLowerBound(lo.Subtract(cty.NumberIntVal(1)), false).NumberRangeUpperBound(hi, true)
		case 1:
			b = b.NumberRangeLowerBound(lo, true).NumberRangeUpperBound(hi.Add(cty.NumberIntVal(1)), false)
		default:
			b = b.NumberRangeLowerBound(lo.Subtract(cty.NumberIntVal(1)), false).NumberRangeUpperBound(hi.Add(cty.NumberIntVal(1)), false)
		}
		return b.NewValue()
	}
	if !v.IsKnown() || v.IsNull() {
		return v
	}
	ty := v.Type()
	switch {
	case ty.IsListType() || ty.IsTupleType():
		if v.LengthInt() == 0 {
			return v
		}
		var vs []cty.Value
		for it := v.ElementIterator(); it.Next(); {
			_, e := it.Element()
			vs = append(vs, exclusivise(r, e))
		}
		if ty.IsListType() {
			return cty.ListVal(vs)
		}
		return cty.TupleVal(vs)
	case ty.IsMapType() || ty.IsObjectType():
		if v.LengthInt() == 0 {
			return v
		}
		m := map[string]cty.Value{}
		for it := v.ElementIterator(); it.Next(); {
			k, e := it.Element()
			m[k.AsString()] = exclusivise(r, e)
		}
		if ty.IsMapType() {
			return cty.MapVal(m)
		}
		return cty.ObjectVal(m)
	}
	return v
}

func cloneCtx(ctx *hcl.EvalContext, f func(v cty.Value) cty.Value) *hcl.EvalContext {
	if ctx == nil {
		return nil
	}
	var out *hcl.EvalContext
	if p := ctx.Parent(); p != nil {
		out = cloneCtx(p, f).NewChild()
	} else {
		out = &hcl.EvalContext{}
	}
	out.Functions = ctx.Functions
	if ctx.Variables != nil {
		out.Variables = map[string]cty.Value{}
		for _, k := range hv.SortedKeys(ctx.Variables) {
			out.Variables[k] = f(ctx.Variables[k])
		}
	}
	return out
}

// nfcSensitive: the expression concatenates strings whose junction may compose under NFC (cty.StringVal
// normalises; the Coq model concatenates bytes): a combining mark in the text or in a scope string.
func nfcSensitive(text string, ctx *hcl.EvalContext) bool {
	comb := func(s string) bool {
		for _, c := range s {
			if c >= 0x0300 && c <= 0x036F {
				return true
			}
		}
		return false
	}
	if comb(text) {
		return true
	}
	found := false
	e, pd := hclsyntax.ParseExpression([]byte(text), "e.hcl", hcl.InitialPos)
	if pd.HasErrors() {
		return false
	}
	used := map[string]bool{}
	for _, t := range e.Variables() {
		used[t.RootName()] = true
	}
	for c := ctx; c != nil && !found; c = c.Parent() {
		for name, v := range c.Variables {
			if !used[name] {
				continue
			}
			cty.Walk(v, func(_ cty.Path, x cty.Value) (bool, error) {
				x, _ = x.Unmark()
				if x.IsKnown() && !x.IsNull() && x.Type() == cty.String && comb(x.AsString()) {
					found = true
				}
				return true, nil
			})
		}
	}
	return found
}

func refs(v cty.Value) string {
	u, _ := v.Unmark()
	return hv.DumpRefinements(u)
}

func scopeDump(ctx *hcl.EvalContext) string {
	var sb strings.Builder
	for c := ctx; c != nil; c = c.Parent() {
		sb.WriteString("{")
		for _, k := range hv.SortedKeys(c.Variables) {
			sb.WriteString(k + "=" + hv.DumpVal(c.Variables[k]) + refs(c.Variables[k]) + "; ")
		}
		sb.WriteString("} ")
	}
	return sb.String()
}

func evalSafe(e hclsyntax.Expression, ctx *hcl.EvalContext) (v cty.Value, d hcl.Diagnostics, p any) {
	defer func() {
		if r := recover(); r != nil {
			p = r
		}
	}()
	v, d = e.Value(ctx)
	return
}

// ---- the two conditional findings (proved as refutations in Eval/UnknownSound.v) -----------------------
//
// (1) an arm whose ABSTRACT value is an unknown of the dynamic pseudo-type: ConditionalExpr plans no
//     conversion ("the final result type is still unknown") and returns the other arm as it is, while
//     every concrete run unifies the two arm types and converts.
// (2) an unselected arm that is fine abstractly but FAILS concretely (or the reverse): its diagnostics
//     are dropped, its residual DynamicVal changes the result type.
type condW struct {
	f      func(ce *hclsyntax.ConditionalExpr, ctx func(*hcl.EvalContext) *hcl.EvalContext) bool
	locals []map[string]struct{}
	found  bool
}

func (w *condW) child(ctx *hcl.EvalContext) *hcl.EvalContext {
	if len(w.locals) == 0 {
		return ctx
	}
	c := ctx.NewChild()
	c.Variables = map[string]cty.Value{}
	for _, m := range w.locals {
		for k := range m {
			c.Variables[k] = cty.DynamicVal
		}
	}
	return c
}

func (w *condW) Enter(n hclsyntax.Node) hcl.Diagnostics {
	switch t := n.(type) {
	case hclsyntax.ChildScope:
		w.locals = append(w.locals, t.LocalNames)
	case *hclsyntax.ConditionalExpr:
		func() {
			defer func() { recover() }()
			if w.f(t, w.child) {
				w.found = true
			}
		}()
	}
	return nil
}

func (w *condW) Exit(n hclsyntax.Node) hcl.Diagnostics {
	if _, ok := n.(hclsyntax.ChildScope); ok {
		w.locals = w.locals[:len(w.locals)-1]
	}
	return nil
}

func condDynArm(e hclsyntax.Expression, ctxA *hcl.EvalContext) bool {
	w := &condW{f: func(ce *hclsyntax.ConditionalExpr, ch func(*hcl.EvalContext) *hcl.EvalContext) bool {
		for _, arm := range []hclsyntax.Expression{ce.TrueResult, ce.FalseResult} {
			v, d := arm.Value(ch(ctxA))
			v, _ = v.Unmark()
			// an unknown part of the dynamic pseudo-type anywhere in the arm's abstract value: the arm's
			// type is not settled, yet the result type (and the conversion of the other arm) is
			if !d.HasErrors() && v.Type().HasDynamicTypes() && !v.IsWhollyKnown() {
				return true
			}
		}
		return false
	}}
	hclsyntax.Walk(e, w)
	return w.found
}

func condDroppedArmFails(e hclsyntax.Expression, ctxA, ctxC *hcl.EvalContext) bool {
	w := &condW{f: func(ce *hclsyntax.ConditionalExpr, ch func(*hcl.EvalContext) *hcl.EvalContext) bool {
		var resid [2]cty.Type // the failing unselected arm's residual type, abstract and concrete
		k := 0
		fails := func(ctx *hcl.EvalContext) (bool, bool) {
			k++
			resid[k-1] = cty.NilType
			cv, cd := ce.Condition.Value(ch(ctx))
			if cd.HasErrors() {
				return false, false
			}
			cv, _ = cv.Unmark()
			if !cv.IsKnown() {
				_, td := ce.TrueResult.Value(ch(ctx))
				_, fd := ce.FalseResult.Value(ch(ctx))
				return td.HasErrors() || fd.HasErrors(), true
			}
			if cv.IsNull() || cv.Type() != cty.Bool {
				return false, false
			}
			other := ce.FalseResult
			if cv.False() {
				other = ce.TrueResult
			}
			ov, od := other.Value(ch(ctx))
			if od.HasErrors() {
				resid[k-1] = ov.Type()
			}
			return od.HasErrors(), true
		}
		fa, da := fails(ctxA)
		fc, dc := fails(ctxC)
		if da && dc && fa && fc && resid[0] != cty.NilType && resid[1] != cty.NilType && !resid[0].Equals(resid[1]) {
			// fails in both runs, with residual values of different types: the dropped failure still
			// decides the result type differently (st unknown set: st.*.a leaves list(dyn); st null: dyn)
			return true
		}
		return da && dc && fa != fc
	}}
	hclsyntax.Walk(e, w)
	return w.found
}

var corpus = []string{
	// the refutation witnesses of Eval/UnknownSound.v and variations
	`(false ? d : 1) == 1`, `false ? d : 1`, `(true ? 1 : d) == 1`, `[true ? 1 : d][0] == 1`, `"${false ? d : 1}" == "1"`,
	`(true ? 1 : mp[s]) == "1"`, `true ? 1 : mp[s]`, `(false ? l[n] : "x") == "x"`, `(true ? [1] : [l[n]])[0]`,
	`b ? d : 1`, `b ? (false ? d : 1) : 2`, `[for x in [1, 2] : (false ? d : x)]`,
	`b ? n : m`, `b ? l : []`, `"a${s}b"`, `"${s}"`, `l[*]`, `l[n]`, `mp[s]`, `o.a`, `tp[0]`, `[for v in l : v]`, `{for k, v in mp : k => v}`,
	`[for v in l : v if b]`, `b || d`, `b && d`, `n + m`, `n < m`, `s == t`, `!b`, `-n`, `upper(s)`, `sum(l...)`, `first(l...)`, `isnull(s)`,
	`l[*].a`, `o.*.a`, `[s, n][m]`, `{(s) = n}`, `"%{ if b }x%{ else }y%{ endif }"`, `"%{ for x in l }${x}%{ endfor }"`, `b ? "a${s}" : "b"`,
	`d ? l : l`, `b ? 1 : 2`, `b ? n : null`, `l[0]`, `mp["a"]`, `length_unknown`, `b ? [1, 2] : [3]`, `b ? {a = 1} : {a = "x"}`,
}

func run(cfg *hv.RunCfg) error {
	rep := hv.NewReport("C05", cfg.Seed)
	rep.Rule = "typed expression generator over scopes in which ~25% of the leaf values are unknown (typed, dynamically typed, refined: not-null, string prefix, numeric bounds, length bounds; nested inside collections); each error-free abstract evaluation is compared with 4 concretisations (every unknown replaced by a known value of its type meeting its refinements); plus the converse on the concrete scopes; non-trivial = the scope has an unknown value and the abstract result is not wholly known; distinct by SHA-256 of (scope, text)"
	r := hv.NewRng(cfg.Seed, 505)
	cf := &hv.CaseFile{Dir: cfg.Out, Name: "c05cases",
		Imports: "From Coq Require Import QArith String.\nFrom HclV Require Import Base.Prelude Cty.Values Cty.Convert Cty.Ops Eval.Impl Eval.Funcs Eval.UnknownSound_Check.",
		Ctype:   "c05case", Checker: "check_c05_cases",
		Extras:  [][2]string{{"violations", "c05_violations"}, {"skipped", "c05_skipped"}}}
	var texts []string
	if cfg.Replay != "" {
		b, err := os.ReadFile(cfg.Replay)
		if err != nil {
			return err
		}
		texts = append(texts, string(b))
	} else {
		texts = append(texts, corpus...)
		for i := 0; i < cfg.N; i++ {
			if i%3 == 2 {
				texts = append(texts, "\x00tgt")
			} else {
				texts = append(texts, "")
			}
		}
	}
	for _, text := range texts {
		g := hv.NewEvalGen(r)
		g.Marks, g.Unknowns, g.Nulls = 0.04, 0.25, 0.03
		ctxA := g.GenScope()
		// half of the refined unknown numbers of a generated scope get EXCLUSIVE bounds (the shared
		// generator only produces inclusive ones): the inclusiveness flags take part in the merge of
		// the two arms of a conditional with an unknown condition
		ctxA = cloneCtx(ctxA, func(v cty.Value) cty.Value { return exclusivise(r, v) })
		inPrefix := ""
		if text == "\x00tgt" {
			ctxA = tgtScope()
			if r.Chance(0.15) {
				text = tgtLongTemplate(r)
				rep.Hist("stream:targeted-long-template-prefix")
			} else {
				text = tgtExpr(r)
			}
			inPrefix = "tgt: "
			rep.Hist("stream:targeted")
		} else if strings.HasPrefix(text, "tgt: ") {
			// replay form of a targeted case
			ctxA = tgtScope()
			text = strings.TrimPrefix(text, "tgt: ")
			inPrefix = "tgt: "
		}
		if text == "" {
			text = g.GenTopExpr()
		}
		e, pd := hclsyntax.ParseExpression([]byte(text), "e.hcl", hcl.InitialPos)
		if pd.HasErrors() {
			rep.Hist("parse-error")
			continue
		}
		vA, dA, pA := evalSafe(e, ctxA)
		if pA != nil {
			rep.Fail(hv.Failure{Kind: "panic", Detail: fmt.Sprint(pA), Input: text, Extra: map[string]string{"scope": scopeDump(ctxA)}})
			continue
		}
		key := text + "##" + scopeDump(ctxA)
		if dA.HasErrors() {
			rep.Count(key, false)
			rep.Hist("abstract:error")
			continue
		}
		nontrivial := !vA.IsWhollyKnown()
		rep.Count(key, nontrivial)
		if nontrivial {
			rep.Hist("abstract:result-has-unknown-parts")
			if vA.IsKnown() {
				rep.Hist("abstract:known-with-unknown-parts")
			} else if refs(vA) != "" {
				rep.Hist("abstract:refined-unknown")
			} else if vA.Type() == cty.DynamicPseudoType {
				rep.Hist("abstract:dynamic-unknown")
			} else {
				rep.Hist("abstract:typed-unknown")
			}
		} else {
			rep.Hist("abstract:wholly-known")
		}
		if len(text) < 60 && nontrivial {
			rep.Sample(text)
		}
		for k := 0; k < 4; k++ {
			changed := false
			ctxC := cloneCtx(ctxA, func(v cty.Value) cty.Value { return concretise(g, v, &changed) })
			if !changed && k > 0 {
				break
			}
			vC, dC, pC := evalSafe(e, ctxC)
			if pC != nil {
				rep.Fail(hv.Failure{Kind: "panic", Detail: fmt.Sprint(pC), Input: text, Extra: map[string]string{"scope": scopeDump(ctxC)}})
				break
			}
			rep.Evaluations++
			if k == 0 {
				// the Coq case: both scopes, the expression, both observed outcomes
				info := &hv.ValInfo{}
				ca, cc := hv.CoqCtx(ctxA, info), hv.CoqCtx(ctxC, info)
				es := hv.CoqExpr(e, info)
				va, vc := hv.CoqVal(vA, info), hv.CoqVal(vC, info)
				mode := 0
				ra, rc := hv.NumRisk(e, ctxA), hv.NumRisk(e, ctxC)
				if info.Inexact || ra == 1 || rc == 1 {
					mode = 1
					rep.Hist("mode:type-only(inexact number)")
				}
				if ra == 2 || rc == 2 || info.Unsupported || nfcSensitive(text, ctxA) {
					mode = 2
					rep.Hist("mode:skipped(outside the model universe)")
				}
				cf.Add(fmt.Sprintf("mkC05 %s\n  %s\n  %s\n  %d %s %s\n  %s %s", ca, cc, es, mode, va, hv.CoqDiagSummaries(dA), vc, hv.CoqDiagSummaries(dC)))
				rep.Idx(inPrefix + text + "   ## abstract: " + scopeDump(ctxA) + "   ## concrete: " + scopeDump(ctxC))
			}
			if dC.HasErrors() {
				rep.Hist("concrete:error")
				continue
			}
			rep.Hist("concrete:ok")
			kind, detail := consistent(vA, vC, "result")
			if kind != "" {
				switch {
				case condDynArm(e, ctxA):
					kind = "cond-dynamic-unknown-arm"
				case condDroppedArmFails(e, ctxA, ctxC):
					kind = "cond-unselected-arm-fails-concretely"
				}
				rep.Hist("fail:" + kind)
				rep.Fail(hv.Failure{Kind: kind, Detail: detail, Input: inPrefix + text,
					Extra: map[string]string{"abstract_scope": scopeDump(ctxA), "concrete_scope": scopeDump(ctxC), "abstract": hv.DumpVal(vA) + refs(vA), "concrete": hv.DumpVal(vC)}})
				break
			}
		}
	}
	names, err := cf.Flush(120)
	if err != nil {
		return err
	}
	rep.CaseFiles = names
	return rep.Write(cfg.Out)
}
