package main

// Second half of the property: applying schemas to the (possibly partial) body
// and evaluating / statically analysing parse results in generated scopes is
// panic-free and its diagnostics carry in-bounds ranges. Content / PartialContent
// / JustAttributes are judged on every result; evaluation and static analysis
// are judged on error-free parses and only counted ("erroneous:…" histogram
// keys) on erroneous ones, as the property text draws the line.

import (
	"fmt"
	"regexp"
	"sort"

	"github.com/hashicorp/hcl/v2"
	"github.com/hashicorp/hcl/v2/hclsyntax"
	"github.com/zclconf/go-cty/cty"
	"github.com/zclconf/go-cty/cty/function"
	"hclverif/hv"
)

// guard runs f under recover; a panic is a failure of the given kind when strict
// and a histogram count otherwise.
func (c *checker) guard(kind, entry, what string, strict bool, f func()) (ok bool) {
	c.setStage(entry + " / " + what)
	defer func() {
		if p := recover(); p != nil {
			ok = false
			if strict {
				c.fail(kind, entry, fmt.Sprintf("%s panicked: %v [%s]", what, p, hclFrames()))
			} else {
				c.hist("erroneous:" + kind)
			}
		}
	}()
	f()
	return true
}

var identRe = regexp.MustCompile(`[A-Za-z_][A-Za-z0-9_-]*`)

// sourceIdents: up to 10 distinct identifier-like words of the input.
func (c *checker) sourceIdents() []string {
	if c.idents != nil {
		return c.idents
	}
	src := c.src
	if len(src) > 4000 {
		src = src[:4000]
	}
	seen := map[string]bool{}
	out := []string{}
	for _, m := range identRe.FindAll(src, 60) {
		if s := string(m); !seen[s] && len(s) < 40 {
			seen[s] = true
			out = append(out, s)
			if len(out) == 10 {
				break
			}
		}
	}
	c.idents = out
	return out
}

// genSchema draws a schema over the given names plus fresh ones: attributes
// (required or not), blocks with 0..2 labels.
func (c *checker) genSchema(names []string) *hcl.BodySchema {
	s := &hcl.BodySchema{}
	attr, blk := map[string]bool{}, map[string]bool{}
	addAttr := func(n string, req bool) {
		if !attr[n] && !blk[n] {
			attr[n] = true
			s.Attributes = append(s.Attributes, hcl.AttributeSchema{Name: n, Required: req})
		}
	}
	addBlock := func(n string, labels int) {
		if !attr[n] && !blk[n] {
			blk[n] = true
			s.Blocks = append(s.Blocks, hcl.BlockHeaderSchema{Type: n, LabelNames: []string{"l0", "l1", "l2"}[:labels]})
		}
	}
	for _, n := range names {
		switch c.r.Intn(6) {
		case 0:
		case 1, 2:
			addAttr(n, c.r.Chance(0.3))
		case 3:
			addBlock(n, 0)
		default:
			addBlock(n, c.r.Intn(3))
		}
	}
	if c.r.Chance(0.5) {
		addAttr("c15_required", true)
	}
	if c.r.Chance(0.3) {
		addBlock("c15_block", c.r.Intn(2))
	}
	return s
}

type bodyBudget struct{ bodies, exprs int }

func (c *checker) bodyChecks(entry string, b hcl.Body, errFree bool, bd bounds) {
	budget := &bodyBudget{bodies: 10, exprs: 10}
	c.bodyRec(entry, b, errFree, bd, 0, budget)
}

func (c *checker) bodyRec(entry string, b hcl.Body, errFree bool, bd bounds, depth int, budget *bodyBudget) {
	if budget.bodies <= 0 || isNil(b) {
		return
	}
	budget.bodies--
	c.res.checks++
	var names []string
	var exprs []hcl.Expression
	// JustAttributes
	var attrs hcl.Attributes
	var diags hcl.Diagnostics
	if c.guard("content-panic", entry, "JustAttributes", true, func() { attrs, diags = b.JustAttributes() }) {
		c.checkDiags("content-", entry+" JustAttributes", diags, bd, false, true)
		c.hist("content:JustAttributes")
		for n, a := range attrs {
			names = append(names, n)
			if a == nil || isNil(a.Expr) {
				c.fail("nil-result", entry, "JustAttributes: attribute "+n+" is nil or has a nil expression")
			}
		}
		sort.Strings(names)
		for _, n := range names {
			if a := attrs[n]; a != nil && !isNil(a.Expr) {
				exprs = append(exprs, a.Expr)
			}
		}
	}
	if nb, ok := b.(*hclsyntax.Body); ok {
		for _, bl := range nb.Blocks {
			names = append(names, bl.Type)
		}
	}
	names = append(names, c.sourceIdents()...)
	if len(names) > 14 {
		names = names[:14]
	}
	// Content and PartialContent under generated schemas
	var blocks hcl.Blocks
	for k := 0; k < 2; k++ {
		schema := c.genSchema(names)
		if k == 1 && c.r.Chance(0.3) {
			schema = &hcl.BodySchema{}
		}
		var content *hcl.BodyContent
		var remain hcl.Body
		what := "Content"
		if k == 1 {
			what = "PartialContent"
		}
		ok := c.guard("content-panic", entry, what, true, func() {
			if k == 0 {
				content, diags = b.Content(schema)
			} else {
				content, remain, diags = b.PartialContent(schema)
			}
		})
		if !ok {
			continue
		}
		c.hist("content:" + what)
		c.checkDiags("content-", entry+" "+what, diags, bd, false, true)
		if content != nil {
			for _, n := range hv.SortedKeys(content.Attributes) {
				if a := content.Attributes[n]; a == nil || isNil(a.Expr) {
					c.fail("nil-result", entry, what+": attribute "+n+" is nil or has a nil expression")
				} else if len(exprs) < 8 {
					exprs = append(exprs, a.Expr)
				}
			}
			for _, bl := range content.Blocks {
				if bl == nil || isNil(bl.Body) {
					c.fail("nil-result", entry, what+": nil block or nil block body")
				} else {
					blocks = append(blocks, bl)
				}
			}
		} else {
			c.hist("content:nil-content")
		}
		if k == 1 && !isNil(remain) {
			// the remainder is a body like any other: two-step application
			c.guard("content-panic", entry, "remain.JustAttributes", true, func() {
				_, d := remain.JustAttributes()
				c.checkDiags("content-", entry+" remain.JustAttributes", d, bd, false, true)
			})
			c.guard("content-panic", entry, "remain.Content", true, func() {
				_, d := remain.Content(c.genSchema(names))
				c.checkDiags("content-", entry+" remain.Content", d, bd, false, true)
			})
			c.guard("content-panic", entry, "remain.MissingItemRange", true, func() { _ = remain.MissingItemRange() })
		}
	}
	c.guard("content-panic", entry, "MissingItemRange", true, func() {
		if bad := rangeProblem(b.MissingItemRange(), bd); bad != "" {
			c.hist("content:MissingItemRange-" + bad)
		}
	})
	for _, e := range exprs {
		if budget.exprs <= 0 {
			break
		}
		budget.exprs--
		c.exprChecks(entry, e, errFree, bd, 0)
	}
	if depth < 3 {
		for i, bl := range blocks {
			if i >= 4 {
				break
			}
			c.bodyRec(entry, bl.Body, errFree, bd, depth+1, budget)
		}
	}
}

// ---- evaluation -----------------------------------------------------------------------------------

var evalFuncs = func() map[string]function.Function {
	m := map[string]function.Function{}
	for k, f := range hv.HarnessFuncs {
		m[k] = f
	}
	m["f"] = hv.HarnessFuncs["first"]
	m["min"] = hv.HarnessFuncs["sum"]
	m["concat"] = hv.HarnessFuncs["first"]
	m["ns::f"] = hv.HarnessFuncs["upper"]
	m["a::b::c"] = hv.HarnessFuncs["pair"]
	return m
}()

// scopes builds evaluation contexts whose variables are the roots the
// expression refers to, with values of every kind (unknown, marked, null,
// nested), and the degenerate contexts: nil, nil maps, child frames.
func (c *checker) scopes(vars []hcl.Traversal) []*hcl.EvalContext {
	seen := map[string]bool{}
	var roots []string
	for _, t := range vars {
		if len(t) > 0 && !t.IsRelative() {
			if n := t.RootName(); !seen[n] {
				seen[n] = true
				roots = append(roots, n)
			}
		}
	}
	if len(roots) > 12 {
		roots = roots[:12]
	}
	out := []*hcl.EvalContext{nil}
	for k := 0; k < 2; k++ {
		g := hv.NewEvalGen(c.r)
		g.Unknowns, g.Marks, g.Nulls = 0.15, 0.15, 0.08
		vals := map[string]cty.Value{}
		for _, n := range roots {
			if c.r.Chance(0.1) {
				continue
			}
			vals[n] = g.GenValue(g.GenType(2))
		}
		ctx := &hcl.EvalContext{Variables: vals, Functions: evalFuncs}
		switch c.r.Intn(10) {
		case 0:
			ctx.Functions = nil
		case 1:
			ctx.Variables = nil
		case 2:
			ctx = ctx.NewChild()
		case 3:
			ch := ctx.NewChild()
			ch.Variables = map[string]cty.Value{}
			for _, n := range roots {
				if c.r.Chance(0.3) {
					ch.Variables[n] = g.GenValue(g.GenType(1))
				}
			}
			ctx = ch
		case 4:
			for _, n := range roots {
				vals[n] = cty.DynamicVal
			}
		}
		out = append(out, ctx)
	}
	return out
}

func (c *checker) exprChecks(entry string, e hcl.Expression, errFree bool, bd bounds, depth int) {
	c.res.checks++
	var vars []hcl.Traversal
	c.guard("eval-panic", entry, "Variables", errFree, func() { vars = e.Variables() })
	c.guard("eval-panic", entry, "Range", errFree, func() { _, _ = e.Range(), e.StartRange() })
	// static analysis
	var list []hcl.Expression
	var pairs []hcl.KeyValuePair
	var call *hcl.StaticCall
	static := func(what string, f func() hcl.Diagnostics) {
		c.guard("static-panic", entry, what, errFree, func() {
			c.checkDiags("static-", entry+" "+what, f(), bd, false, errFree)
		})
	}
	static("AbsTraversalForExpr", func() hcl.Diagnostics { _, d := hcl.AbsTraversalForExpr(e); return d })
	static("RelTraversalForExpr", func() hcl.Diagnostics { _, d := hcl.RelTraversalForExpr(e); return d })
	static("ExprList", func() (d hcl.Diagnostics) { list, d = hcl.ExprList(e); return })
	static("ExprMap", func() (d hcl.Diagnostics) { pairs, d = hcl.ExprMap(e); return })
	static("ExprCall", func() (d hcl.Diagnostics) { call, d = hcl.ExprCall(e); return })
	static("ExprAsKeyword", func() hcl.Diagnostics { _ = hcl.ExprAsKeyword(e); _ = hcl.UnwrapExpression(e); return nil })
	// evaluation
	var ctxs []*hcl.EvalContext
	if !c.guard("eval-panic", entry, "scope generation", false, func() { ctxs = c.scopes(vars) }) {
		ctxs = []*hcl.EvalContext{nil}
	}
	for i, ctx := range ctxs {
		what := "Value(nil)"
		if ctx != nil {
			what = fmt.Sprintf("Value(scope %d)", i)
		}
		c.guard("eval-panic", entry, what, errFree, func() {
			v, d := e.Value(ctx)
			c.checkDiags("eval-", entry+" "+what, d, bd, false, errFree)
			if v == cty.NilVal {
				if errFree {
					c.fail("nil-result", entry, what+" returned cty.NilVal")
				} else {
					c.hist("erroneous:nil-value")
				}
			}
			if errFree {
				c.hist("eval:on-error-free-parse")
			} else {
				c.hist("eval:on-erroneous-parse")
			}
		})
	}
	if depth < 2 {
		next := []hcl.Expression{}
		if len(list) > 0 {
			next = append(next, list[0])
		}
		if len(pairs) > 0 {
			next = append(next, pairs[0].Key, pairs[0].Value)
		}
		if call != nil && len(call.Arguments) > 0 {
			next = append(next, call.Arguments[0])
		}
		for _, x := range next {
			if !isNil(x) {
				c.exprChecks(entry, x, errFree, bd, depth+1)
			}
		}
	}
}

func (c *checker) traversalChecks(entry string, t hcl.Traversal, errFree bool, bd bounds) {
	c.res.checks++
	c.guard("eval-panic", entry, "traversal accessors", errFree, func() {
		_ = t.IsRelative()
		_ = t.SourceRange()
		_, _ = t.SimpleSplit().Abs, t.RootName()
	})
	for _, step := range t {
		if _, splat := step.(hcl.TraverseSplat); splat {
			// "Traversals that include splats cannot be automatically traversed by HCL
			// using the TraversalAbs or TraversalRel methods" (documented)
			c.hist("traversal:with-splat-not-traversed")
			return
		}
	}
	for i, ctx := range c.scopes([]hcl.Traversal{t}) {
		c.guard("eval-panic", entry, fmt.Sprintf("TraverseAbs(scope %d)", i), errFree, func() {
			_, d := t.TraverseAbs(ctx)
			c.checkDiags("eval-", entry+" TraverseAbs", d, bd, false, errFree)
		})
	}
}
