package main

// The per-input oracle of c15: every parsing entry point is called twice on
// separate copies of the input under recover(); the two (result, diagnostics)
// pairs are compared by a full structural dump (hv.DeepDump); the diagnostics
// and the result are then judged against the clauses of the property.

import (
	"bytes"
	"crypto/sha256"
	"fmt"
	"os"
	"path/filepath"
	"reflect"
	"runtime/debug"
	"sort"
	"strings"
	"sync"
	"sync/atomic"

	"github.com/hashicorp/hcl/v2"
	"github.com/hashicorp/hcl/v2/hclparse"
	"github.com/hashicorp/hcl/v2/hclsyntax"
	"github.com/hashicorp/hcl/v2/hclwrite"
	hcljson "github.com/hashicorp/hcl/v2/json"
	"github.com/zclconf/go-cty/cty"
	"hclverif/hv"
)

const fileName = "c15-input.hcl"

// result is what checking one input produced; it is merged into the report by
// the main goroutine (a checker that hangs never touches the report).
type result struct {
	fails      []hv.Failure
	hist       map[string]int
	checks     int  // (input, entry point) pairs checked
	nontrivial bool // some entry point reported an error diagnostic
}

type checker struct {
	in     input
	src    []byte
	r      *hv.Rng
	res    *result
	stage  *atomic.Pointer[string]
	start  hcl.Pos // start position handed to the entry points that take one
	tmpDir string
	files  bool // also run the file-reading entry points
	idents []string
}

func (c *checker) hist(k string) { c.res.hist[k]++ }

func (c *checker) fail(kind, entry, detail string) {
	if len(detail) > 1500 {
		detail = detail[:1500] + "…"
	}
	c.res.fails = append(c.res.fails, hv.Failure{Kind: kind, Detail: entry + ": " + detail, Input: c.in.src,
		Extra: map[string]string{"entry": entry, "stream": c.in.stream,
			"start": fmt.Sprintf("%d:%d@%d", c.start.Line, c.start.Column, c.start.Byte)}})
}

func (c *checker) setStage(s string) { c.stage.Store(&s) }

// hclFrames extracts the frames of a panic's stack that lie in hcl or go-cty.
func hclFrames() string {
	var out []string
	lines := strings.Split(string(debug.Stack()), "\n")
	for i := 0; i+1 < len(lines); i++ {
		l := lines[i]
		if (strings.HasPrefix(l, "github.com/hashicorp/hcl") || strings.HasPrefix(l, "github.com/zclconf/go-cty")) && strings.HasPrefix(lines[i+1], "\t") {
			fn := l
			if j := strings.LastIndex(fn, "("); j > 0 {
				fn = fn[:j]
			}
			loc := strings.TrimSpace(lines[i+1])
			if j := strings.Index(loc, " +0x"); j > 0 {
				loc = loc[:j]
			}
			out = append(out, fn+" "+filepath.Base(loc))
			if len(out) == 5 {
				break
			}
		}
	}
	return strings.Join(out, " < ")
}

func isNil(x any) bool {
	if x == nil {
		return true
	}
	v := reflect.ValueOf(x)
	switch v.Kind() {
	case reflect.Pointer, reflect.Map, reflect.Slice, reflect.Interface, reflect.Func:
		return v.IsNil()
	}
	return false
}

// ---- diagnostics ------------------------------------------------------------------------------

type bounds struct {
	lo, hi int
	fn     string
}

// checkDiags judges every diagnostic: severity, summary, nil-ness of Subject and
// Context as diagnostic.go documents it ("If Context is set then Subject should
// always also be set", Context "should fully contain Subject"), and every range
// inside [lo, hi] of the file name given. prefix is "" for parse diagnostics and
// "content-" / "eval-" / "static-" for the later phases; strict=false only counts.
func (c *checker) checkDiags(prefix, entry string, diags hcl.Diagnostics, b bounds, needSubject, strict bool) {
	report := func(kind, detail string) {
		if strict {
			c.fail(prefix+kind, entry, detail)
		} else {
			c.hist("erroneous:" + prefix + kind)
		}
	}
	for i, d := range diags {
		if d == nil {
			report("diag-malformed", fmt.Sprintf("diagnostic %d is nil", i))
			continue
		}
		if d.Severity != hcl.DiagError && d.Severity != hcl.DiagWarning {
			report("diag-malformed", fmt.Sprintf("diagnostic %d %q has severity %d", i, d.Summary, d.Severity))
		}
		if d.Summary == "" {
			report("diag-malformed", fmt.Sprintf("diagnostic %d has an empty summary (detail %q)", i, d.Detail))
		}
		if d.Subject == nil {
			if d.Context != nil {
				report("diag-malformed", fmt.Sprintf("diagnostic %d %q has a Context but no Subject", i, d.Summary))
			} else if needSubject {
				report("diag-malformed", fmt.Sprintf("diagnostic %d %q has no source range", i, d.Summary))
			} else {
				c.hist(prefix + "diag:no-subject")
			}
		}
		for _, rg := range []struct {
			name string
			r    *hcl.Range
		}{{"Subject", d.Subject}, {"Context", d.Context}} {
			if rg.r == nil {
				continue
			}
			r := *rg.r
			if bad := rangeProblem(r, b); bad != "" {
				kind := "diag-range-out-of-bounds"
				switch {
				case r == (hcl.Range{}):
					kind += "/zero-range" // a Range that was never filled in
				case d.Summary == "Invalid JSON string" && bad == "ends past the end of the input":
					kind += "/json-string-error-offset"
				}
				report(kind, fmt.Sprintf("diagnostic %d %q: %s %s: %s (input occupies bytes [%d,%d] of %q)", i, d.Summary, rg.name, fmtRange(r), bad, b.lo, b.hi, b.fn))
			}
		}
		if d.Subject != nil && d.Context != nil {
			if d.Context.Start.Byte > d.Subject.Start.Byte || d.Subject.End.Byte > d.Context.End.Byte {
				// diagnostic.go says a Context "should fully contain Subject"; the property only asks for
				// ranges inside the input, so this is counted, not reported (placeholder blocks of
				// hclsyntax have OpenBraceRange = TypeRange, which makes the label diagnostics do this)
				c.hist(prefix + "diag:context-excludes-subject(" + d.Summary + ")")
			}
		}
	}
}

func fmtRange(r hcl.Range) string {
	return fmt.Sprintf("%s:%d:%d@%d-%d:%d@%d", r.Filename, r.Start.Line, r.Start.Column, r.Start.Byte, r.End.Line, r.End.Column, r.End.Byte)
}

func rangeProblem(r hcl.Range, b bounds) string {
	switch {
	case r.Filename != b.fn:
		return "file name differs from the one given"
	case r.Start.Byte < b.lo:
		return "starts before the input"
	case r.End.Byte > b.hi:
		return "ends past the end of the input"
	case r.Start.Byte > r.End.Byte:
		return "start after end"
	case r.Start.Line < 1 || r.End.Line < 1 || r.Start.Column < 1 || r.End.Column < 1:
		return "line or column below 1"
	case r.End.Line < r.Start.Line:
		return "end line before start line"
	}
	return ""
}

// ---- one entry point, called twice ---------------------------------------------------------------

type callFn func(src []byte) (any, hcl.Diagnostics)

func safeCall(f callFn, src []byte) (res any, diags hcl.Diagnostics, panicked string) {
	defer func() {
		if p := recover(); p != nil {
			panicked = fmt.Sprintf("%v [%s]", p, hclFrames())
		}
	}()
	res, diags = f(src)
	return
}

func firstDiff(a, b []byte) string {
	n := len(a)
	if len(b) < n {
		n = len(b)
	}
	i := 0
	for i < n && a[i] == b[i] {
		i++
	}
	lo := i - 60
	if lo < 0 {
		lo = 0
	}
	cut := func(x []byte) string {
		hi := i + 60
		if hi > len(x) {
			hi = len(x)
		}
		return string(x[lo:hi])
	}
	return fmt.Sprintf("dumps differ at byte %d: first …%s… second …%s…", i, cut(a), cut(b))
}

var dumpPool = sync.Pool{New: func() any { return new(bytes.Buffer) }}

// entry runs one entry point: panic, determinism, input untouched, diagnostics.
// It returns the first call's result, its diagnostics and the digest of the structural dump.
func (c *checker) entry(name string, b bounds, f callFn) (res any, diags hcl.Diagnostics, dump []byte, ok bool) {
	c.setStage(name)
	c.res.checks++
	in1 := append([]byte(nil), c.src...)
	res, diags, p := safeCall(f, in1)
	if p != "" {
		c.fail("panic", name, p)
		c.hist("ep:" + name + ":panic")
		return nil, nil, nil, false
	}
	if !bytes.Equal(in1, c.src) {
		c.fail("nondeterministic", name, "the input slice was modified by the call")
	}
	in2 := append([]byte(nil), c.src...)
	res2, diags2, p2 := safeCall(f, in2)
	if p2 != "" {
		c.fail("nondeterministic", name, "second call on an equal input panicked: "+p2)
		return res, diags, nil, true
	}
	// the dumps can be large (they contain the source bytes more than once), so
	// their buffers are reused and only a digest is handed on: SHA-256 of the
	// dump, then one byte telling whether a json invalidVal node occurs in it
	b1, b2 := dumpPool.Get().(*bytes.Buffer), dumpPool.Get().(*bytes.Buffer)
	b1.Reset()
	b2.Reset()
	hv.DeepDump(b1, res)
	hv.DeepDump(b1, diags)
	hv.DeepDump(b2, res2)
	hv.DeepDump(b2, diags2)
	if !bytes.Equal(b1.Bytes(), b2.Bytes()) {
		c.fail("nondeterministic", name, firstDiff(b1.Bytes(), b2.Bytes()))
	}
	sum := sha256.Sum256(b1.Bytes())
	dump = append(sum[:], 0)
	if bytes.Contains(b1.Bytes(), []byte("json.invalidVal")) {
		dump[32] = 1
	}
	dumpPool.Put(b1)
	dumpPool.Put(b2)
	c.checkDiags("", name, diags, b, true, true)
	if diags.HasErrors() {
		c.res.nontrivial = true
		c.hist("ep:" + name + ":error")
	} else {
		c.hist("ep:" + name + ":error-free")
	}
	return res, diags, dump, true
}

// ---- native AST scan ------------------------------------------------------------------------------

// astScan walks a native AST looking for nil nodes (contract: never nil, "the
// caller may attempt to do analysis of a partial result") and for placeholders
// (what makes a result unusable): ExprSyntaxError, literal placeholders that are
// not literals (cty.DynamicVal / unknown), empty traversals, blocks whose brace
// ranges are the type name's.
type astScan struct {
	nilNode     string
	placeholder string
	exprs       int
	leaves      []hcl.Range // ranges of the nodes that hold names and numbers (see unheld)
}

func (a *astScan) steps(t hcl.Traversal) {
	for _, st := range t {
		if !isNil(st) {
			a.leaves = append(a.leaves, st.SourceRange())
		}
	}
}

func (a *astScan) setNil(s string) {
	if a.nilNode == "" {
		a.nilNode = s
	}
}

func (a *astScan) setPH(s string) {
	if a.placeholder == "" {
		a.placeholder = s
	}
}

func (a *astScan) body(b *hclsyntax.Body, path string) {
	if b == nil {
		a.setNil(path + ": nil *Body")
		return
	}
	names := make([]string, 0, len(b.Attributes))
	for n := range b.Attributes {
		names = append(names, n)
	}
	sort.Strings(names)
	for _, n := range names {
		at := b.Attributes[n]
		if at == nil {
			a.setNil(path + ": nil attribute " + n)
			continue
		}
		a.leaves = append(a.leaves, at.NameRange)
		a.expr(at.Expr, path+"/"+n)
	}
	for i, bl := range b.Blocks {
		p := fmt.Sprintf("%s/%d", path, i)
		if bl == nil {
			a.setNil(p + ": nil *Block")
			continue
		}
		p += ":" + bl.Type
		a.leaves = append(a.leaves, bl.TypeRange)
		a.leaves = append(a.leaves, bl.LabelRanges...)
		if bl.OpenBraceRange == bl.TypeRange {
			a.setPH(p + ": block without braces (placeholder body)")
		}
		if len(bl.Labels) != len(bl.LabelRanges) {
			a.setPH(p + ": label / label range count mismatch")
		}
		a.body(bl.Body, p)
	}
}

func (a *astScan) expr(e hclsyntax.Expression, path string) {
	if isNil(e) {
		a.setNil(path + ": nil expression")
		return
	}
	a.exprs++
	sub := func(x hclsyntax.Expression, name string) { a.expr(x, path+"."+name) }
	opt := func(x hclsyntax.Expression, name string) {
		if !isNil(x) {
			a.expr(x, path+"."+name)
		}
	}
	switch x := e.(type) {
	case *hclsyntax.ExprSyntaxError:
		a.setPH(path + ": ExprSyntaxError")
	case *hclsyntax.LiteralValueExpr:
		a.leaves = append(a.leaves, x.SrcRange)
		if x.Val == cty.NilVal || !x.Val.IsWhollyKnown() {
			a.setPH(path + ": literal placeholder " + x.Val.GoString())
		}
	case *hclsyntax.ScopeTraversalExpr:
		a.steps(x.Traversal)
		if len(x.Traversal) == 0 {
			a.setPH(path + ": empty traversal")
		}
	case *hclsyntax.RelativeTraversalExpr:
		a.steps(x.Traversal)
		sub(x.Source, "Source")
	case *hclsyntax.FunctionCallExpr:
		a.leaves = append(a.leaves, x.NameRange)
		if x.Name == "" {
			a.setPH(path + ": call without a name")
		}
		for i, y := range x.Args {
			sub(y, fmt.Sprintf("Args[%d]", i))
		}
	case *hclsyntax.ConditionalExpr:
		sub(x.Condition, "Condition")
		sub(x.TrueResult, "TrueResult")
		sub(x.FalseResult, "FalseResult")
	case *hclsyntax.IndexExpr:
		sub(x.Collection, "Collection")
		sub(x.Key, "Key")
	case *hclsyntax.TupleConsExpr:
		for i, y := range x.Exprs {
			sub(y, fmt.Sprintf("Exprs[%d]", i))
		}
	case *hclsyntax.ObjectConsExpr:
		for i, it := range x.Items {
			sub(it.KeyExpr, fmt.Sprintf("Items[%d].Key", i))
			sub(it.ValueExpr, fmt.Sprintf("Items[%d].Value", i))
		}
	case *hclsyntax.ObjectConsKeyExpr:
		sub(x.Wrapped, "Wrapped")
	case *hclsyntax.ForExpr:
		if x.ValVar == "" {
			a.setPH(path + ": for without a value variable")
		}
		sub(x.CollExpr, "CollExpr")
		opt(x.KeyExpr, "KeyExpr")
		sub(x.ValExpr, "ValExpr")
		opt(x.CondExpr, "CondExpr")
	case *hclsyntax.SplatExpr:
		sub(x.Source, "Source")
		sub(x.Each, "Each")
		if x.Item == nil {
			a.setNil(path + ": splat without Item")
		}
	case *hclsyntax.AnonSymbolExpr:
	case *hclsyntax.BinaryOpExpr:
		if x.Op == nil {
			a.setNil(path + ": binary operation without Op")
		}
		sub(x.LHS, "LHS")
		sub(x.RHS, "RHS")
	case *hclsyntax.UnaryOpExpr:
		if x.Op == nil {
			a.setNil(path + ": unary operation without Op")
		}
		sub(x.Val, "Val")
	case *hclsyntax.TemplateExpr:
		for i, y := range x.Parts {
			sub(y, fmt.Sprintf("Parts[%d]", i))
		}
	case *hclsyntax.TemplateJoinExpr:
		sub(x.Tuple, "Tuple")
	case *hclsyntax.TemplateWrapExpr:
		sub(x.Wrapped, "Wrapped")
	case *hclsyntax.ParenthesesExpr:
		sub(x.Expression, "Expression")
	default:
		a.setPH(fmt.Sprintf("%s: unknown node type %T", path, e))
	}
}

// uncovered returns the first significant token (not a newline, comment or EOF)
// of toks that starts outside every one of the ranges: source content that an
// error-free result silently lacks.
func uncovered(toks hclsyntax.Tokens, ranges []hcl.Range) string {
	for _, t := range toks {
		switch t.Type {
		case hclsyntax.TokenNewline, hclsyntax.TokenComment, hclsyntax.TokenEOF:
			continue
		}
		in := false
		for _, r := range ranges {
			if r.Start.Byte <= t.Range.Start.Byte && t.Range.Start.Byte < r.End.Byte {
				in = true
				break
			}
		}
		if !in {
			return fmt.Sprintf("token %s %q at byte %d is in no item of the result", t.Type, t.Bytes, t.Range.Start.Byte)
		}
	}
	return ""
}

// unheld returns the first identifier or number token that starts in none of
// the leaf ranges (literals, traversal steps, function names, attribute names,
// block types and labels): a name or number of the source that an error-free
// result does not hold anywhere. Keywords and the iterator names of for
// expressions / directives, which the AST keeps as plain strings without
// ranges, are skipped.
func unheld(toks hclsyntax.Tokens, leaves []hcl.Range, lo, n int) string {
	diff := make([]int, n+2)
	for _, r := range leaves {
		s, e := r.Start.Byte-lo, r.End.Byte-lo
		if s < 0 || e > n || s >= e {
			continue
		}
		diff[s]++
		diff[e]--
	}
	depth := 0
	held := make([]bool, n+1)
	for i := 0; i <= n; i++ {
		depth += diff[i]
		held[i] = depth > 0
	}
	inFor := false
	var prev hclsyntax.TokenType
	for _, t := range toks {
		switch t.Type {
		case hclsyntax.TokenNewline, hclsyntax.TokenComment:
			continue
		case hclsyntax.TokenIdent, hclsyntax.TokenNumberLit:
			name := string(t.Bytes)
			skip := false
			switch {
			case inFor:
				skip = true
				if name == "in" {
					inFor = false
				}
			case name == "for" && (prev == hclsyntax.TokenOBrack || prev == hclsyntax.TokenOBrace || prev == hclsyntax.TokenTemplateControl):
				inFor, skip = true, true
			case name == "if" || name == "else" || name == "endif" || name == "endfor":
				skip = true
			}
			if at := t.Range.Start.Byte - lo; !skip && at >= 0 && at <= n && !held[at] {
				return fmt.Sprintf("token %s %q at byte %d is held by no node of the result", t.Type, t.Bytes, t.Range.Start.Byte)
			}
		default:
			if inFor && t.Type != hclsyntax.TokenComma {
				inFor = false
			}
		}
		prev = t.Type
	}
	return ""
}

var invalidTokenTypes = map[hclsyntax.TokenType]bool{
	hclsyntax.TokenBitwiseAnd: true, hclsyntax.TokenBitwiseOr: true, hclsyntax.TokenBitwiseNot: true, hclsyntax.TokenBitwiseXor: true,
	hclsyntax.TokenStarStar: true, hclsyntax.TokenApostrophe: true, hclsyntax.TokenBacktick: true, hclsyntax.TokenSemicolon: true,
	hclsyntax.TokenTabs: true, hclsyntax.TokenInvalid: true, hclsyntax.TokenBadUTF8: true, hclsyntax.TokenQuotedNewline: true, hclsyntax.TokenNil: true,
}

// ---- all entry points on one input -----------------------------------------------------------------

func (c *checker) all() {
	src := c.src
	st := c.start
	nb := bounds{st.Byte, st.Byte + len(src), fileName} // entry points taking a start position
	zb := bounds{0, len(src), fileName}                 // entry points that start at byte 0
	if st != hcl.InitialPos {
		c.hist("start:arbitrary")
	}

	// -- scanners
	var cfgToks, tplToks hclsyntax.Tokens
	for _, lx := range []struct {
		name string
		f    func([]byte, string, hcl.Pos) (hclsyntax.Tokens, hcl.Diagnostics)
	}{{"hclsyntax.LexConfig", hclsyntax.LexConfig}, {"hclsyntax.LexExpression", hclsyntax.LexExpression}, {"hclsyntax.LexTemplate", hclsyntax.LexTemplate}} {
		lx := lx
		res, diags, _, ok := c.entry(lx.name, nb, func(s []byte) (any, hcl.Diagnostics) { return lx.f(s, fileName, st) })
		if !ok {
			continue
		}
		toks := res.(hclsyntax.Tokens)
		if len(toks) == 0 || toks[len(toks)-1].Type != hclsyntax.TokenEOF {
			c.fail("nil-result", lx.name, fmt.Sprintf("%d tokens, no final EOF token", len(toks)))
			continue
		}
		if lx.name == "hclsyntax.LexConfig" {
			cfgToks = toks
		} else if lx.name == "hclsyntax.LexTemplate" {
			tplToks = toks
		}
		for _, t := range toks {
			if invalidTokenTypes[t.Type] {
				c.hist("unusable:" + lx.name)
				if !diags.HasErrors() {
					c.fail("unusable-without-error", lx.name, fmt.Sprintf("token %s %q at byte %d and no error diagnostic", t.Type, t.Bytes, t.Range.Start.Byte))
				}
				break
			}
		}
	}

	// -- native configuration
	var nativeDump []byte
	if res, diags, dump, ok := c.entry("hclsyntax.ParseConfig", nb, func(s []byte) (any, hcl.Diagnostics) {
		f, d := hclsyntax.ParseConfig(s, fileName, st)
		return f, d
	}); ok {
		nativeDump = dump
		c.summaries("native", diags)
		f := res.(*hcl.File)
		if f == nil || isNil(f.Body) {
			c.fail("nil-result", "hclsyntax.ParseConfig", "nil *hcl.File or nil Body")
		} else if body, isNative := f.Body.(*hclsyntax.Body); !isNative {
			c.fail("nil-result", "hclsyntax.ParseConfig", fmt.Sprintf("Body is a %T, documented as *hclsyntax.Body", f.Body))
		} else {
			if !bytes.Equal(f.Bytes, src) {
				c.fail("nondeterministic", "hclsyntax.ParseConfig", "File.Bytes differs from the input")
			}
			a := &astScan{}
			a.body(body, "root")
			c.judgeAST("hclsyntax.ParseConfig", a, diags, func() string {
				var rs []hcl.Range
				for _, at := range body.Attributes {
					rs = append(rs, at.SrcRange)
				}
				for _, bl := range body.Blocks {
					rs = append(rs, hcl.RangeBetween(bl.TypeRange, bl.CloseBraceRange))
				}
				if u := uncovered(cfgToks, rs); u != "" {
					return u
				}
				return unheld(cfgToks, a.leaves, st.Byte, len(src))
			})
			if a.nilNode == "" {
				c.bodyChecks("hclsyntax.ParseConfig", f.Body, !diags.HasErrors(), nb)
			}
		}
	}

	// -- native expression and template
	for _, px := range []struct {
		name string
		f    func([]byte, string, hcl.Pos) (hclsyntax.Expression, hcl.Diagnostics)
		toks hclsyntax.Tokens
	}{{"hclsyntax.ParseExpression", hclsyntax.ParseExpression, cfgToks}, {"hclsyntax.ParseTemplate", hclsyntax.ParseTemplate, tplToks}} {
		px := px
		res, diags, _, ok := c.entry(px.name, nb, func(s []byte) (any, hcl.Diagnostics) {
			e, d := px.f(s, fileName, st)
			return e, d
		})
		if !ok {
			continue
		}
		c.summaries("native", diags)
		e, _ := res.(hclsyntax.Expression)
		if isNil(e) {
			c.fail("nil-result", px.name, "nil expression")
			continue
		}
		a := &astScan{}
		a.expr(e, "root")
		c.judgeAST(px.name, a, diags, func() string {
			if u := uncovered(px.toks, []hcl.Range{e.Range()}); u != "" {
				return u
			}
			return unheld(px.toks, a.leaves, st.Byte, len(src))
		})
		if a.nilNode == "" {
			c.exprChecks(px.name, e, !diags.HasErrors(), nb, 0)
		}
	}

	// -- native traversals
	for _, tx := range []struct {
		name string
		f    func([]byte, string, hcl.Pos) (hcl.Traversal, hcl.Diagnostics)
	}{{"hclsyntax.ParseTraversalAbs", hclsyntax.ParseTraversalAbs}, {"hclsyntax.ParseTraversalPartial", hclsyntax.ParseTraversalPartial}} {
		tx := tx
		res, diags, _, ok := c.entry(tx.name, nb, func(s []byte) (any, hcl.Diagnostics) {
			t, d := tx.f(s, fileName, st)
			return t, d
		})
		if !ok {
			continue
		}
		t := res.(hcl.Traversal)
		problem := ""
		for i, step := range t {
			if isNil(step) {
				c.fail("nil-result", tx.name, fmt.Sprintf("step %d is nil", i))
				problem = "nil step"
			}
			if ix, isIx := step.(hcl.TraverseIndex); isIx && (ix.Key == cty.NilVal || !ix.Key.IsWhollyKnown() || ix.Key.IsNull()) {
				problem = fmt.Sprintf("step %d has the placeholder key %s", i, ix.Key.GoString())
			}
			if _, isRoot := step.(hcl.TraverseRoot); isRoot != (i == 0) {
				problem = fmt.Sprintf("step %d: root step expected exactly at position 0", i)
			}
		}
		if len(t) == 0 {
			problem = "empty traversal"
		} else if problem == "" {
			problem = uncovered(cfgToks, []hcl.Range{t.SourceRange()})
		}
		if problem != "" {
			c.hist("unusable:" + tx.name)
			if !diags.HasErrors() {
				c.fail("unusable-without-error", tx.name, problem+" and no error diagnostic")
			}
		} else {
			c.traversalChecks(tx.name, t, !diags.HasErrors(), nb)
		}
	}

	// -- JSON
	jsonFile := func(name string, b bounds, f func([]byte) (*hcl.File, hcl.Diagnostics)) []byte {
		res, diags, dump, ok := c.entry(name, b, func(s []byte) (any, hcl.Diagnostics) {
			file, d := f(s)
			return file, d
		})
		if !ok {
			return nil
		}
		c.summaries("json", diags)
		file := res.(*hcl.File)
		if file == nil || isNil(file.Body) {
			c.fail("nil-result", name, "nil *hcl.File or nil Body")
			return dump
		}
		if !bytes.Equal(file.Bytes, src) {
			c.fail("nondeterministic", name, "File.Bytes differs from the input")
		}
		c.judgeJSON(name, dump, diags)
		c.bodyChecks(name, file.Body, !diags.HasErrors(), b)
		return dump
	}
	jsonDump := jsonFile("json.Parse", zb, func(s []byte) (*hcl.File, hcl.Diagnostics) { return hcljson.Parse(s, fileName) })
	jsonFile("json.ParseWithStartPos", nb, func(s []byte) (*hcl.File, hcl.Diagnostics) { return hcljson.ParseWithStartPos(s, fileName, st) })
	jsonExpr := func(name string, b bounds, f func([]byte) (hcl.Expression, hcl.Diagnostics)) {
		res, diags, dump, ok := c.entry(name, b, func(s []byte) (any, hcl.Diagnostics) {
			e, d := f(s)
			return e, d
		})
		if !ok {
			return
		}
		c.summaries("json", diags)
		e, _ := res.(hcl.Expression)
		if isNil(e) {
			c.fail("nil-result", name, "nil expression")
			return
		}
		c.judgeJSON(name, dump, diags)
		c.exprChecks(name, e, !diags.HasErrors(), b, 0)
	}
	jsonExpr("json.ParseExpression", zb, func(s []byte) (hcl.Expression, hcl.Diagnostics) { return hcljson.ParseExpression(s, fileName) })
	jsonExpr("json.ParseExpressionWithStartPos", nb, func(s []byte) (hcl.Expression, hcl.Diagnostics) {
		return hcljson.ParseExpressionWithStartPos(s, fileName, st)
	})

	// -- writer loader and formatter
	if res, diags, _, ok := c.entry("hclwrite.ParseConfig", nb, func(s []byte) (any, hcl.Diagnostics) {
		f, d := hclwrite.ParseConfig(s, fileName, st)
		return f, d
	}); ok {
		f := res.(*hclwrite.File)
		switch {
		case f == nil && !diags.HasErrors():
			c.fail("unusable-without-error", "hclwrite.ParseConfig", "nil *File and no error diagnostic")
		case f == nil:
			// hclwrite/parser.go: "If the parsing step produces any errors, the returned
			// File is nil because we can't reliably extract tokens from the partial AST"
			c.hist("writer:nil-file-on-error")
			c.fail("writer-nil-file-on-error", "hclwrite.ParseConfig", fmt.Sprintf("returns a nil *File together with %d diagnostics (first: %s); the property asks every entry point for a non-nil partial result", len(diags), diags[0].Summary))
		default:
			c.setStage("hclwrite.File methods")
			func() {
				defer func() {
					if p := recover(); p != nil {
						c.fail("panic", "hclwrite.File methods", fmt.Sprintf("%v [%s]", p, hclFrames()))
					}
				}()
				_ = f.Bytes() // formats; fidelity of the saved bytes is C10's business
				_ = f.BuildTokens(nil)
				var walk func(b *hclwrite.Body, depth int)
				walk = func(b *hclwrite.Body, depth int) {
					for _, at := range b.Attributes() {
						_ = at.Expr().BuildTokens(nil)
						_ = at.Expr().Variables()
					}
					for _, bl := range b.Blocks() {
						_ = bl.Type()
						_ = bl.Labels()
						if depth < 50 {
							walk(bl.Body(), depth+1)
						}
					}
				}
				walk(f.Body(), 0)
			}()
		}
	}
	if res, _, _, ok := c.entry("hclwrite.Format", zb, func(s []byte) (any, hcl.Diagnostics) { return hclwrite.Format(s), nil }); ok {
		out, _ := res.([]byte)
		if len(out) == 0 && len(bytes.TrimSpace(bytes.TrimPrefix(src, []byte("\xef\xbb\xbf")))) > 0 {
			c.hist("format:empty-output-for-non-blank-input")
		}
		c.setStage("hclwrite.Format twice")
		if _, _, p := safeCall(func(s []byte) (any, hcl.Diagnostics) { return hclwrite.Format(s), nil }, append([]byte(nil), out...)); p != "" {
			c.fail("panic", "hclwrite.Format", "on its own output: "+p)
		}
	}

	// -- hclparse.Parser
	c.parserChecks("hclparse.Parser.ParseHCL", zb, nativeDump, st == hcl.InitialPos,
		func(p *hclparse.Parser, s []byte, fn string) (*hcl.File, hcl.Diagnostics) { return p.ParseHCL(s, fn) })
	c.parserChecks("hclparse.Parser.ParseJSON", zb, jsonDump, true,
		func(p *hclparse.Parser, s []byte, fn string) (*hcl.File, hcl.Diagnostics) { return p.ParseJSON(s, fn) })
	if c.files {
		c.fileChecks()
	}
}

// judgeAST applies the nil-result and unusable-without-error clauses to a native result.
func (c *checker) judgeAST(name string, a *astScan, diags hcl.Diagnostics, coverage func() string) {
	if a.nilNode != "" {
		c.fail("nil-result", name, a.nilNode)
	}
	problem := a.placeholder
	if problem == "" && !diags.HasErrors() {
		problem = coverage()
	}
	if problem != "" {
		c.hist("unusable:" + name)
		if !diags.HasErrors() {
			c.fail("unusable-without-error", name, problem+" and no error diagnostic")
		}
	}
}

// judgeJSON: the JSON tree is private; its placeholder node type (invalidVal,
// "used as a placeholder where a value is needed for a valid parse tree but the
// input was invalid") shows in the structural dump.
func (c *checker) judgeJSON(name string, dump []byte, diags hcl.Diagnostics) {
	if len(dump) == 33 && dump[32] == 1 {
		c.hist("unusable:" + name)
		if !diags.HasErrors() {
			c.fail("unusable-without-error", name, "the result holds an invalidVal placeholder and there is no error diagnostic")
		}
	}
}

func (c *checker) summaries(family string, diags hcl.Diagnostics) {
	seen := map[string]bool{}
	for _, d := range diags {
		if d == nil || seen[d.Summary] {
			continue
		}
		seen[d.Summary] = true
		s := d.Summary
		if strings.HasPrefix(s, "Unexpected ") && strings.HasSuffix(s, " directive") {
			s = "Unexpected X directive"
		}
		if strings.HasPrefix(s, "Extra characters in ") {
			s = "Extra characters in X marker"
		}
		c.hist("diag:" + family + ":" + s)
	}
}

// parserChecks: hclparse.Parser must give what the underlying parser gives, keep
// the file in its registry and return the same object (with no diagnostics, as
// documented) when asked again.
func (c *checker) parserChecks(name string, b bounds, directDump []byte, comparable bool, f func(*hclparse.Parser, []byte, string) (*hcl.File, hcl.Diagnostics)) {
	_, _, dump, ok := c.entry(name, b, func(s []byte) (any, hcl.Diagnostics) {
		file, d := f(hclparse.NewParser(), s, fileName)
		return file, d
	})
	if !ok {
		return
	}
	if comparable && directDump != nil && !bytes.Equal(dump, directDump) {
		c.fail("nondeterministic", name, "the structural dump differs from that of the direct parse of the same bytes")
	}
	c.setStage(name + " registry")
	func() {
		defer func() {
			if p := recover(); p != nil {
				c.fail("panic", name, fmt.Sprintf("registry: %v [%s]", p, hclFrames()))
			}
		}()
		p := hclparse.NewParser()
		f1, _ := f(p, append([]byte(nil), c.src...), fileName)
		f2, d2 := f(p, append([]byte(nil), c.src...), fileName)
		if f1 == nil {
			c.fail("nil-result", name, "nil *hcl.File")
			return
		}
		if f1 != f2 || len(d2) != 0 {
			c.fail("nondeterministic", name, fmt.Sprintf("asking the same parser again: same file object %v, %d diagnostics", f1 == f2, len(d2)))
		}
		if p.Files()[fileName] != f1 || !bytes.Equal(p.Sources()[fileName], c.src) {
			c.fail("nondeterministic", name, "Files()/Sources() do not hold the parsed file")
		}
	}()
}

var fileCounter atomic.Int64

// fileChecks runs the entry points that read the bytes from a file.
func (c *checker) fileChecks() {
	path := filepath.Join(c.tmpDir, fmt.Sprintf("in-%d", fileCounter.Add(1)))
	if err := os.WriteFile(path, c.src, 0o644); err != nil {
		c.hist("files:write-error")
		return
	}
	defer os.Remove(path)
	fb := bounds{0, len(c.src), path}
	for _, fx := range []struct {
		name string
		f    func() (*hcl.File, hcl.Diagnostics)
	}{
		{"hclparse.Parser.ParseHCLFile", func() (*hcl.File, hcl.Diagnostics) { return hclparse.NewParser().ParseHCLFile(path) }},
		{"hclparse.Parser.ParseJSONFile", func() (*hcl.File, hcl.Diagnostics) { return hclparse.NewParser().ParseJSONFile(path) }},
		{"json.ParseFile", func() (*hcl.File, hcl.Diagnostics) { return hcljson.ParseFile(path) }},
	} {
		fx := fx
		res, _, _, ok := c.entry(fx.name, fb, func([]byte) (any, hcl.Diagnostics) {
			f, d := fx.f()
			return f, d
		})
		if ok {
			if f := res.(*hcl.File); f == nil || isNil(f.Body) {
				c.fail("nil-result", fx.name, "nil *hcl.File or nil Body for a readable file")
			} else if !bytes.Equal(f.Bytes, c.src) {
				c.fail("nondeterministic", fx.name, "File.Bytes differs from the file's content")
			}
		}
	}
}
