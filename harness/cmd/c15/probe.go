package main

// Stack probes. The parsers are recursive-descent without a depth limit, and a
// Go stack overflow is a fatal error that no recover() sees: it would take the
// harness down with it. Inputs nested deeper than maxDepth are therefore only
// ever parsed in a CHILD process (this same binary, C15_CHILD=probe:<family>),
// which calls each entry point of the family once and prints "probe-ok". The
// parent turns a child that died of "goroutine stack exceeds …-byte limit" into
// a failure of kind stack-overflow, and a child that outlives its budget into a
// hang. -replay shields itself the same way before checking in-process.

import (
	"bytes"
	"context"
	"fmt"
	"os"
	"os/exec"
	"path/filepath"
	"strings"
	"time"

	"github.com/hashicorp/hcl/v2"
	"github.com/hashicorp/hcl/v2/hclsyntax"
	"github.com/hashicorp/hcl/v2/hclwrite"
	hcljson "github.com/hashicorp/hcl/v2/json"
	"hclverif/hv"
)

type probe struct {
	name, family string
	src          string
}

func stackProbes(thorough bool) []probe {
	rep := strings.Repeat
	ps := []probe{{"tuple x100000", "native", rep("[", 100000)}}
	if thorough {
		ps = append(ps,
			probe{"paren-in-config x100000", "native", "x = " + rep("(", 100000)},
			probe{"template x100000", "native", rep("\"${", 100000)},
			probe{"object x100000", "native", rep("{a=", 100000)})
		// not probed: 100000 nested blocks (no overflow; hclwrite.Format's output is
		// inherently quadratic in the depth) and JSON (the JSON parser overflows only
		// near 1,000,000 levels and needs quadratic time to get there: 60000 levels
		// take 18 s per call)
	}
	return ps
}

// runProbeChild is the child side: every entry point of the family once, under
// recover (an ordinary panic is reported by the in-process run, not here).
func runProbeChild(cfg *hv.RunCfg, family string) error {
	src, err := os.ReadFile(cfg.Replay)
	if err != nil {
		return err
	}
	call := func(name string, f func()) {
		defer func() {
			if p := recover(); p != nil {
				fmt.Printf("probe-panic %s: %v\n", name, p)
			}
		}()
		fmt.Printf("probe-start %s\n", name)
		f()
		fmt.Printf("probe-done %s\n", name)
	}
	if family == "native" || family == "all" {
		call("hclsyntax.LexConfig", func() { hclsyntax.LexConfig(src, fileName, hcl.InitialPos) })
		call("hclsyntax.ParseExpression", func() { hclsyntax.ParseExpression(src, fileName, hcl.InitialPos) })
		call("hclsyntax.ParseConfig", func() { hclsyntax.ParseConfig(src, fileName, hcl.InitialPos) })
		call("hclsyntax.ParseTemplate", func() { hclsyntax.ParseTemplate(src, fileName, hcl.InitialPos) })
		call("hclsyntax.ParseTraversalAbs", func() { hclsyntax.ParseTraversalAbs(src, fileName, hcl.InitialPos) })
		call("hclwrite.ParseConfig", func() { hclwrite.ParseConfig(src, fileName, hcl.InitialPos) })
		call("hclwrite.Format", func() { hclwrite.Format(src) })
	}
	if family == "json" || family == "all" {
		call("json.Parse", func() { hcljson.Parse(src, fileName) })
		call("json.ParseExpression", func() { hcljson.ParseExpression(src, fileName) })
	}
	fmt.Println("probe-ok")
	return nil
}

// runProbe runs one input in a child; returns a failure (or nil) and the number
// of entry points the child got through.
func runProbe(p probe, tmpDir string, budget time.Duration) (*hv.Failure, int) {
	path := filepath.Join(tmpDir, fmt.Sprintf("probe-%d", fileCounter.Add(1)))
	if err := os.WriteFile(path, []byte(p.src), 0o644); err != nil {
		return &hv.Failure{Kind: "harness", Detail: err.Error()}, 0
	}
	defer os.Remove(path)
	exe, err := os.Executable()
	if err != nil {
		return &hv.Failure{Kind: "harness", Detail: err.Error()}, 0
	}
	ctx, cancel := context.WithTimeout(context.Background(), budget)
	defer cancel()
	cmd := exec.CommandContext(ctx, exe, "c15", "-replay", path, "-out", tmpDir)
	cmd.Env = append(os.Environ(), "C15_CHILD=probe:"+p.family)
	var stdout, stderr bytes.Buffer
	cmd.Stdout, cmd.Stderr = &stdout, &stderr
	runErr := cmd.Run()
	done := strings.Count(stdout.String(), "probe-done ")
	last := "none" // the entry point that was running when the child ended
	if i := strings.LastIndex(stdout.String(), "probe-start "); i >= 0 {
		last = strings.TrimSpace(strings.SplitN(stdout.String()[i+len("probe-start "):], "\n", 2)[0])
	}
	extra := map[string]string{"entry": last, "stream": "stack-probe:" + p.name}
	switch {
	case ctx.Err() == context.DeadlineExceeded:
		return &hv.Failure{Kind: "hang", Detail: fmt.Sprintf("stack probe %s (%d bytes): child still running after %s, inside %s", p.name, len(p.src), budget, last), Input: p.src, Extra: extra}, done
	case runErr != nil:
		msg := stderr.String()
		if i := strings.Index(msg, "\n\n"); i > 0 {
			msg = msg[:i]
		}
		if len(msg) > 400 {
			msg = msg[:400]
		}
		kind := "crash"
		if strings.Contains(stderr.String(), "stack exceeds") || strings.Contains(stderr.String(), "stack overflow") {
			kind = "stack-overflow"
		}
		return &hv.Failure{Kind: kind, Detail: fmt.Sprintf("stack probe %s (%d bytes): the process died (%v) inside %s: %s", p.name, len(p.src), runErr, last, strings.ReplaceAll(msg, "\n", " | ")), Input: p.src, Extra: extra}, done
	case strings.Contains(stdout.String(), "probe-panic"):
		return nil, done // recoverable panics are the in-process oracle's business
	}
	return nil, done
}
