package main

// C15 — All front ends are total, deterministic and report well-formed
// diagnostics: the DIRECT ORACLE on the real code. (The parser-model theorems
// are in coq/theories/Parse; the model-vs-code correspondence is cmd/cparse.)
//
// For every input byte string, every parsing entry point is run under recover()
// inside a goroutine with a finite time budget; see check.go for the clauses
// and post.go for schema application, evaluation and static analysis.
//
// Failure kinds: panic, hang, nondeterministic, nil-result,
// unusable-without-error, diag-malformed, diag-range-out-of-bounds,
// content-panic, content-diag-malformed, content-diag-range-out-of-bounds,
// eval-panic, eval-diag-malformed, eval-diag-range-out-of-bounds, static-panic,
// static-diag-*, writer-nil-file-on-error.

import (
	"fmt"
	"hash/fnv"
	"os"
	"path/filepath"
	"runtime"
	"runtime/debug"
	"runtime/pprof"
	"sort"
	"strconv"
	"strings"
	"sync"
	"sync/atomic"
	"time"

	"github.com/hashicorp/hcl/v2"
	"hclverif/hv"
)

func main() { hv.Main(map[string]func(*hv.RunCfg) error{"c15": runC15}) }

func hash64(s string) uint64 {
	h := fnv.New64a()
	h.Write([]byte(s))
	return h.Sum64()
}

// checkOne checks one input in a goroutine of its own; if it does not finish in
// time the input is reported as a hang at the stage it had reached (the
// goroutine is abandoned; it only ever writes to its own result).
func checkOne(in input, seed uint64, tmpDir string, forceFiles bool, timeout time.Duration) *result {
	stage := &atomic.Pointer[string]{}
	s0 := "start"
	stage.Store(&s0)
	done := make(chan *result, 1)
	go func() {
		// everything random about the checks of an input is derived from the run's
		// seed and the input's bytes, so -replay <bytes> repeats them exactly
		r := hv.NewRng(seed, hash64(in.src))
		c := &checker{in: in, src: []byte(in.src), r: r, res: &result{hist: map[string]int{}}, stage: stage, tmpDir: tmpDir, start: hcl.InitialPos}
		if r.Chance(0.2) {
			c.start = hcl.Pos{Line: 1 + r.Intn(500), Column: 1 + r.Intn(120), Byte: r.Intn(5000)}
		}
		c.files = forceFiles || r.Chance(0.03)
		defer func() {
			if p := recover(); p != nil { // a bug of the harness itself, or a panic outside every guard
				c.fail("panic", "harness:"+*stage.Load(), fmt.Sprintf("%v [%s]", p, hclFrames()))
				done <- c.res
			}
		}()
		c.all()
		done <- c.res
	}()
	select {
	case res := <-done:
		return res
	case <-time.After(timeout):
		// a parsing entry point that does not return is the property's "hang"; the
		// later phases get kinds of their own (evaluation may legitimately be slow:
		// go-cty renders 1e-999999 as a million digits in quadratic time)
		st := *stage.Load()
		kind := "hang"
		if strings.Contains(st, " / ") {
			kind = "eval-hang"
			for _, w := range []string{"JustAttributes", "Content", "MissingItemRange"} {
				if strings.Contains(st, w) {
					kind = "content-hang"
				}
			}
		}
		return &result{hist: map[string]int{kind: 1}, checks: 1,
			fails: []hv.Failure{{Kind: kind, Detail: fmt.Sprintf("%s: no result after %s", st, timeout), Input: in.src, Extra: map[string]string{"entry": st, "stream": in.stream}}}}
	}
}

func runC15(cfg *hv.RunCfg) error {
	rep := hv.NewReport("C15", cfg.Seed)
	rep.Rule = "every input byte string goes through every parsing entry point (hclsyntax Lex*/ParseConfig/ParseExpression/ParseTemplate/ParseTraversalAbs/ParseTraversalPartial, json Parse/ParseWithStartPos/ParseExpression/ParseExpressionWithStartPos, hclwrite ParseConfig/Format, hclparse.Parser ParseHCL/ParseJSON and, for a sample, the *File variants), each called twice on separate copies under recover() with a time budget, a random start position for a fifth of the inputs; then Content/PartialContent/JustAttributes with generated schemas (names from the input plus fresh ones; recursively into child blocks), Variables/Value in generated scopes (unknown, marked, null values; nil context; nil maps; child frames) and hcl.AbsTraversalForExpr/RelTraversalForExpr/ExprList/ExprMap/ExprCall. Inputs: hand corpus (recovery paths of both parsers, each native entry also wrapped as attribute value / block content / interpolation / JSON template); exhaustive byte strings of length <= 2 (thorough: 3) over a 45-byte alphabet; then -n generated inputs: 22% valid native configs/expressions/templates/heredocs/traversals (hv.GenConfig, hv.GenExprText, hv.EvalGen, cparse's template generators), 32% mutations of those (bit flips, deletions, truncation at token boundaries, unbalanced/duplicated brackets-quotes-heredoc markers-template sequences, NUL / invalid UTF-8 / BOM / lone CR / U+2028 / U+0085 insertions, long tokens), 8% valid JSON (objects, array roots, expressions; template strings, duplicate keys, \"//\" keys), 17% mutated JSON, 6% random bytes, 11% token soup, 2% nesting 1..3000 levels deep of 18 constructs (closed, unclosed, unopened), 2% single long tokens; finally stack probes (100000-fold nesting, parsed in a child process so that a fatal stack overflow is observed instead of suffered; quick: 1, thorough: 4). evaluations = (input, entry point or body/expression analysed) pairs; non-trivial = some entry point reported an error diagnostic; distinct by SHA-256 of the input"

	if ch := os.Getenv("C15_CHILD"); strings.HasPrefix(ch, "probe:") {
		return runProbeChild(cfg, strings.TrimPrefix(ch, "probe:"))
	}
	timeout := 120 * time.Second
	if ms, err := strconv.Atoi(os.Getenv("C15_TIMEOUT_MS")); err == nil && ms > 0 { // testing aid for the hang path
		timeout = time.Duration(ms) * time.Millisecond
	}
	debug.SetGCPercent(400)                    // the structural dumps are short-lived garbage; memory is not scarce
	if pf := os.Getenv("C15_PROF"); pf != "" { // debugging aid: CPU profile of the run
		if f, err := os.Create(pf); err == nil {
			pprof.StartCPUProfile(f)
			defer pprof.StopCPUProfile()
		}
	}
	var inputs []input
	nExh := 0
	if cfg.Replay != "" {
		b, err := os.ReadFile(cfg.Replay)
		if err != nil {
			return err
		}
		inputs = []input{{string(b), "replay"}}
	} else {
		inputs = append(inputs, corpus()...)
		if extra, err := filepath.Glob("/verif/corpus/C15/*"); err == nil {
			sort.Strings(extra)
			for _, p := range extra {
				if b, err := os.ReadFile(p); err == nil {
					inputs = append(inputs, input{string(b), "corpus:file"})
				}
			}
		}
		maxLen := 2
		if cfg.Tier == "thorough" {
			maxLen = 3
		}
		for _, s := range exhaustive(maxLen) {
			inputs = append(inputs, input{s, "exhaustive"})
			nExh++
		}
		rep.Exhaustive[fmt.Sprintf("byte strings of length <= %d over a %d-byte alphabet, every entry point", maxLen, len(exhaustiveAlphabet))] = nExh
		r := hv.NewRng(cfg.Seed, 15)
		for i := 0; i < cfg.N; i++ {
			inputs = append(inputs, genInput(r))
		}
	}

	tmpDir, err := os.MkdirTemp("", "c15-")
	if err != nil {
		return err
	}
	defer os.RemoveAll(tmpDir)

	if cfg.Replay != "" {
		// shield: a replayed input may be one that overflows the stack
		if f, _ := runProbe(probe{"replay", "all", inputs[0].src}, tmpDir, 15*time.Minute); f != nil {
			rep.Count(inputs[0].src, true)
			rep.Hist("fail:" + f.Kind)
			rep.Fail(*f)
			return rep.Write(cfg.Out)
		}
	}

	results := make([]*result, len(inputs))
	jobs := make(chan int)
	var wg sync.WaitGroup
	workers := runtime.NumCPU()
	if workers > 16 {
		workers = 16
	}
	for w := 0; w < workers; w++ {
		wg.Add(1)
		go func() {
			defer wg.Done()
			for i := range jobs {
				t0 := time.Now()
				results[i] = checkOne(inputs[i], cfg.Seed, tmpDir, cfg.Replay != "", timeout)
				if el := time.Since(t0); el > 400*time.Millisecond && os.Getenv("C15_SLOW") != "" {
					fmt.Fprintf(os.Stderr, "slow: %s %s len=%d %.40q\n", el, inputs[i].stream, len(inputs[i].src), inputs[i].src)
				}
			}
		}()
	}
	for i := range inputs {
		jobs <- i
	}
	close(jobs)
	wg.Wait()

	// merge, in input order
	total := 0
	kept := map[string]int{}
	for i, res := range results {
		in := inputs[i]
		rep.Count(in.src, res.nontrivial)
		total += res.checks
		rep.Hist("stream:" + in.stream)
		if res.nontrivial {
			rep.Hist("input:some-entry-point-reports-errors")
		} else {
			rep.Hist("input:error-free-for-every-entry-point")
		}
		for k, v := range res.hist {
			rep.Histogram[k] += v
		}
		if (cfg.Replay != "" || !strings.HasPrefix(in.stream, "corpus") && in.stream != "exhaustive") && len(in.src) > 8 && len(in.src) < 90 && i%7 == 0 {
			rep.Sample(in.stream + ": " + in.src)
		}
		seen := map[string]bool{}
		for _, f := range res.fails {
			key := f.Kind + "@" + f.Extra["entry"]
			if seen[key] {
				continue // one failure per kind and entry point per input
			}
			seen[key] = true
			rep.Hist("fail:" + key)
			if kept[key] < 4 { // the corpus runs first, so these are the short ones
				kept[key]++
				rep.Fail(f)
			}
		}
		if len(res.fails) == 0 {
			rep.Hist("oracle-ok")
		}
	}
	if cfg.Replay == "" {
		for _, p := range stackProbes(cfg.Tier == "thorough") {
			f, done := runProbe(p, tmpDir, 10*time.Minute)
			total += done
			rep.Count(p.src, true)
			rep.Hist("stream:stack-probe:" + p.name)
			if f != nil {
				rep.Hist("fail:" + f.Kind + "@" + f.Extra["entry"])
				rep.Fail(*f)
			} else {
				rep.Hist("stack-probe-ok")
			}
		}
	}
	rep.Evaluations = total
	rep.Notes = append(rep.Notes,
		"failures are listed at most 4 per (kind, entry point); histogram keys fail:<kind>@<entry> count all of them",
		"erroneous:* histogram keys count evaluation / static-analysis events on parse results that came with error diagnostics (outside the property; never failures)",
		fmt.Sprintf("time budget per input %s; nesting depth of generated inputs bounded by %d", timeout, maxDepth))
	return rep.Write(cfg.Out)
}
