package main

// Input streams of c15. Everything is drawn from the one hv.Rng handed in, in a
// fixed order, so a run is reproducible from its seed; every input is only a
// byte string, so a failure replays from the bytes alone.
//
// The template / heredoc / traversal text generators are copies of the ones of
// cmd/cparse (gen.go) so that both commands see the same native texts.

import (
	"fmt"
	"strings"

	"github.com/hashicorp/hcl/v2"
	"github.com/hashicorp/hcl/v2/hclsyntax"
	"hclverif/hv"
)

type input struct {
	src    string
	stream string // histogram key: which generator produced it
}

// ---- native templates / heredocs / traversals (after cmd/cparse/gen.go) ---------------------

var tplLits = []string{"a", "hello ", " ", "  ", "x y", "é", "日本", "\n", "\n  ", "  \n", "\t", "$${", "%%{", "$", "%", "$$", "1.5", "{", "}", "#", "//", "\"", "\\", "\\n", "'", "é", " ́x", "\r\n", "\r"}

type tplGen struct {
	r      *hv.Rng
	b      strings.Builder
	depth  int
	quoted bool
}

func (g *tplGen) lit() {
	c := tplLits[g.r.Intn(len(tplLits))]
	if g.quoted {
		switch c {
		case "\"":
			c = "\\\""
		case "\\":
			c = "\\\\"
		case "\n", "\n  ", "  \n", "\r\n", "\r":
			c = g.r.Pick("\\n", "\\r\\n", " ")
		}
	}
	g.b.WriteString(c)
}

func (g *tplGen) exprText() string {
	if g.r.Chance(0.6) {
		return g.r.Pick("x", "a.b", "1", "f(x)", "[1, 2]", "a ? b : c", "a[0]", "\"s\"", "a.*.b", "!a", "x + 1", "null", "\"in ${y}\"")
	}
	for i := 0; i < 20; i++ {
		s, _ := hv.GenExprText(g.r)
		if g.quoted && (strings.ContainsAny(s, "\n\r#") || strings.Contains(s, "//")) {
			continue
		}
		if len(s) > 120 {
			continue
		}
		return s
	}
	return "x"
}

func (g *tplGen) open(intro string) {
	g.b.WriteString(intro)
	if g.r.Chance(0.2) {
		g.b.WriteString("~")
	}
	g.b.WriteString(g.r.Pick("", " ", "  "))
}

func (g *tplGen) close() {
	g.b.WriteString(g.r.Pick("", " "))
	if g.r.Chance(0.2) {
		g.b.WriteString("~")
	}
	g.b.WriteString("}")
}

func (g *tplGen) parts() {
	n := g.r.Small(5)
	for i := 0; i < n; i++ {
		switch x := g.r.Intn(12); {
		case x < 6:
			g.lit()
		case x < 9 || g.depth > 2:
			g.open("${")
			g.b.WriteString(g.exprText())
			g.close()
		case x < 11:
			g.depth++
			g.open("%{")
			g.b.WriteString("if " + g.exprText())
			g.close()
			g.parts()
			if g.r.Chance(0.4) {
				g.open("%{")
				g.b.WriteString("else")
				g.close()
				g.parts()
			}
			g.open("%{")
			g.b.WriteString("endif")
			g.close()
			g.depth--
		default:
			g.depth++
			g.open("%{")
			if g.r.Chance(0.3) {
				g.b.WriteString("for k, v in " + g.exprText())
			} else {
				g.b.WriteString("for v in " + g.exprText())
			}
			g.close()
			g.parts()
			g.open("%{")
			g.b.WriteString("endfor")
			g.close()
			g.depth--
		}
		if s := g.b.String(); strings.HasSuffix(s, "$") || strings.HasSuffix(s, "%") {
			g.b.WriteString(" ")
		}
	}
}

func genTemplate(r *hv.Rng) string {
	g := &tplGen{r: r}
	g.parts()
	return g.b.String()
}

func genQuoted(r *hv.Rng) string {
	g := &tplGen{r: r, quoted: true}
	g.parts()
	return "\"" + g.b.String() + "\""
}

func genHeredoc(r *hv.Rng) string {
	marker := r.Pick("EOT", "EOF", "E_1")
	flush := r.Chance(0.5)
	nl := "\n"
	if r.Chance(0.15) {
		nl = "\r\n"
	}
	var b strings.Builder
	if flush {
		b.WriteString("<<-" + marker + nl)
	} else {
		b.WriteString("<<" + marker + nl)
	}
	lines := r.Small(5)
	for i := 0; i < lines; i++ {
		switch r.Intn(8) {
		case 0:
		case 1:
			b.WriteString(strings.Repeat(" ", r.Intn(4)))
		default:
			b.WriteString(r.Pick("", " ", "  ", "    ", "\t", " \t", "  ́"))
			g := &tplGen{r: r, depth: 1}
			g.parts()
			s := strings.ReplaceAll(strings.ReplaceAll(g.b.String(), "\r\n", " "), "\r", " ")
			if nl == "\r\n" {
				s = strings.ReplaceAll(s, "\n", "\r\n")
			}
			b.WriteString(s)
		}
		b.WriteString(nl)
	}
	if flush {
		b.WriteString(strings.Repeat(" ", r.Intn(4)))
	}
	b.WriteString(marker + nl)
	return b.String()
}

func genTraversalText(r *hv.Rng) string {
	var b strings.Builder
	b.WriteString(r.Pick("a", "foo", "var", "ünï", "a-b", "_x"))
	n := r.Small(6)
	for i := 0; i < n; i++ {
		if r.Chance(0.1) {
			b.WriteString(r.Pick(" ", "\n", " /* c */ "))
		}
		switch r.Intn(9) {
		case 0, 1, 2:
			b.WriteString("." + r.Pick("b", "name", "in", "x1"))
		case 3, 4:
			b.WriteString(fmt.Sprintf("[%d]", r.Intn(10)))
		case 5:
			b.WriteString("[" + r.Pick("1.5", "1e2", "007") + "]")
		case 6:
			b.WriteString("[\"" + r.Pick("k", "a b", "", "ü", "x\\ny", "$${", "a\\\"b") + "\"]")
		case 7:
			b.WriteString("[*]")
		case 8:
			b.WriteString(r.Pick(".0", ".*", "[x]", "[\"${a}\"]", "[ 1 ]", "[\n2\n]"))
		}
	}
	return b.String()
}

// ---- stream 1: valid native text -----------------------------------------------------------------

func genValidNative(r *hv.Rng) input {
	switch x := r.Intn(20); {
	case x < 8:
		s, _ := hv.GenConfig(r)
		return input{s, "valid:config"}
	case x < 11:
		s, _ := hv.GenExprText(r)
		return input{s, "valid:expr"}
	case x < 13:
		g := hv.NewEvalGen(r)
		g.GenScope()
		return input{g.GenTopExpr(), "valid:expr-typed"}
	case x < 15:
		return input{genQuoted(r), "valid:quoted-template"}
	case x < 16:
		s := genHeredoc(r)
		if r.Chance(0.3) {
			s = "[" + s + ", 1]"
		}
		return input{s, "valid:heredoc"}
	case x < 18:
		return input{genTemplate(r), "valid:template"}
	default:
		return input{genTraversalText(r), "valid:traversal"}
	}
}

// ---- stream 2: mutations ---------------------------------------------------------------------------

// specials are the byte sequences the mutators splice in.
var specials = []string{
	// invalid UTF-8
	"\xff", "\xc3", "\xe2\x82", "\xf0\x9f", "\x80", "\xc0\x80", "\xed\xa0\x80", "\xf8", "\xc4A", "\xf4\x90\x80\x80",
	// BOM, NUL, controls, unusual white space and line separators
	"\xef\xbb\xbf", "\x00", "\x00\x00", "\t", "\x7f", "\v", "\f", "\u00a0", "\u2028", "\u2029", "\u0085", "\ufeff", "\u3000",
	// CR / LF mixtures
	"\r", "\r\n", "\n\r", "\r\r\n", "\n", "\n\n",
	// combining / joiner sequences
	"á", "́", "؀", "‍", "\U0001F468‍\U0001F469", "\U0001F1EF\U0001F1F5",
	// template sequences
	"${", "%{", "~}", "}", "{", "\"", "$${", "%%{", "$", "%", "${~", "%{~", "$%{", "\\\"", "\\", "%{if", "%{ else }", "%{ endif }", "%{ endfor }", "%{ for x in ", "${\"", "\"${",
	// heredocs
	"<<EOT\n", "<<-EOT\n", "EOT\n", "EOT", "  EOT  \n", "EOT\r\n", "<<", "<<-", "<<EOT", "<<E\n${<<F\nx\nF\n}\nE\n",
	// comments
	"/*", "*/", "#", "//", "/**/",
	// brackets and operators
	"(", ")", "[", "]", "[*]", ".*", "...", "..", "=>", "::", ":::", "&&", "||", "&", "|", "^", "~", "==", "!=", "<=", ">=", "=", "?", ":", ",", ".", ";", "'", "`", "@", "**",
	// keywords and numbers
	"for", "in", "if", "else", "endif", "endfor", "null", "true", "1e", "1.", "1.5.e-3", "0x1F", "1e400", "00", "-",
	// JSON
	"{\"a\":", "\":", ",\"", "\\u", "\\ud800", "[{", "}]", "tru", "nul", "NaN",
}

var openers = []string{"{", "[", "(", "\"", "${", "%{", "<<EOT\n", "/*", "\"${", "%{if x}", "%{for x in y}", "[for x in ", "{for k, v in "}
var closers = []string{"}", "]", ")", "\"", "~}", "EOT\n", "*/", "%{endif}", "%{endfor}", "}}", "]]", "))"}

func spliceAt(b []byte, p int, s string) []byte {
	out := make([]byte, 0, len(b)+len(s))
	out = append(out, b[:p]...)
	out = append(out, s...)
	return append(out, b[p:]...)
}

func longToken(r *hv.Rng) string {
	n := []int{300, 5000, 70000}[r.Intn(3)]
	switch r.Intn(8) {
	case 0:
		return strings.Repeat("a", n)
	case 1:
		return strings.Repeat("9", n)
	case 2:
		return "\"" + strings.Repeat("s", n) + "\""
	case 3:
		return "/*" + strings.Repeat("c", n) + "*/"
	case 4:
		return "#" + strings.Repeat("c", n) + "\n"
	case 5:
		return strings.Repeat(" ", n)
	case 6:
		return strings.Repeat("\n", n/10)
	default:
		return "0." + strings.Repeat("3", n/4) + "e" + fmt.Sprint(r.Intn(400))
	}
}

// boundaries returns the byte offsets of the starts and ends of the native
// tokens of s, plus the offsets just inside quotes, templates and heredocs.
func boundaries(s string) []int {
	toks, _ := hclsyntax.LexConfig([]byte(s), "g", hcl.InitialPos)
	var out []int
	for _, t := range toks {
		out = append(out, t.Range.Start.Byte, t.Range.End.Byte)
		if n := len(t.Bytes); n > 1 {
			out = append(out, t.Range.Start.Byte+1, t.Range.End.Byte-1)
		}
	}
	return out
}

// mutateNative applies 1..3 mutations; the name of the first is returned.
func mutateNative(r *hv.Rng, s string) (string, string) {
	b := []byte(s)
	first := ""
	k := 1 + r.Small(2)
	for i := 0; i < k; i++ {
		name := ""
		p := r.Intn(len(b) + 1)
		switch x := r.Intn(20); {
		case x < 2: // flip bits of one byte
			name = "byteflip"
			if p < len(b) {
				b[p] ^= byte(1 << r.Intn(8))
			}
		case x < 3:
			name = "randombyte"
			if p < len(b) {
				b[p] = byte(r.Intn(256))
			}
		case x < 5:
			name = "delete"
			q := p + 1 + r.Small(6)
			if q > len(b) {
				q = len(b)
			}
			b = append(b[:p:p], b[q:]...)
		case x < 8: // truncate at a token boundary, a boundary just inside a token, or anywhere
			name = "truncate"
			if bs := boundaries(string(b)); len(bs) > 0 && r.Chance(0.8) {
				p = bs[r.Intn(len(bs))]
				if p > len(b) {
					p = len(b)
				}
			}
			b = b[:p]
		case x < 11:
			name = "insert-special"
			b = spliceAt(b, p, specials[r.Intn(len(specials))])
		case x < 12:
			name = "replace-special"
			if p < len(b) {
				b = append(spliceAt(b[:p], p, specials[r.Intn(len(specials))]), b[p+1:]...)
			}
		case x < 14: // one more opener / closer than the text balances
			name = "unbalance"
			if bs := boundaries(string(b)); len(bs) > 0 {
				p = bs[r.Intn(len(bs))]
				if p > len(b) {
					p = len(b)
				}
			}
			if r.Chance(0.5) {
				b = spliceAt(b, p, openers[r.Intn(len(openers))])
			} else {
				b = spliceAt(b, p, closers[r.Intn(len(closers))])
			}
		case x < 15: // duplicate a span (duplicated brackets, quotes, markers, sequences)
			name = "duplicate-span"
			q := p + 1 + r.Small(8)
			if q > len(b) {
				q = len(b)
			}
			b = spliceAt(b, q, string(b[p:q]))
		case x < 16: // delete one bracket-like byte somewhere
			name = "drop-bracket"
			var idx []int
			for j, c := range b {
				if strings.IndexByte("{}[]()\"$%<", c) >= 0 {
					idx = append(idx, j)
				}
			}
			if len(idx) > 0 {
				j := idx[r.Intn(len(idx))]
				b = append(b[:j:j], b[j+1:]...)
			}
		case x < 17: // newline style from p on
			name = "newline-style"
			nl := r.Pick("\r\n", "\r", "\n\r", " ", "\u0085")
			b = append(b[:p:p], []byte(strings.ReplaceAll(string(b[p:]), "\n", nl))...)
		case x < 18:
			name = "bom-at-odd-place"
			b = spliceAt(b, p, "\xef\xbb\xbf")
		case x < 19:
			name = "long-token"
			b = spliceAt(b, p, longToken(r))
		default:
			name = "hv.Mutate"
			b = []byte(hv.Mutate(r, string(b)))
		}
		if first == "" {
			first = name
		}
	}
	return string(b), first
}

// ---- stream 3: JSON ----------------------------------------------------------------------------------

type jsonGen struct {
	r *hv.Rng
	b strings.Builder
}

func (g *jsonGen) ws() {
	if g.r.Chance(0.2) {
		g.b.WriteString(g.r.Pick(" ", "\n", "  ", "\t", "\r\n", "\n  "))
	}
}

var jsonKeys = []string{"a", "b", "foo", "name", "count", "//", "resource", "variable", "tags", "ünï", "a-b", "", "for", "${k}", "x y", "0", "a.b", "\\u0061", "\\\"q", "dynamic", "content"}
var jsonStrs = []string{"", "s", "hello", "${x}", "${a.b[0]}", "a ${upper(s)} b", "%{ if b }y%{ endif }", "%{ for v in l }${v}%{ endfor }", "$${lit}", "%%{lit}", "${", "%{", "${x", "${\"q\"}", "\\n", "\\u00e9", "\\ud83d\\ude00", "é", "日本", "1", "true", "a.b", "x[0]", "${1 + }", "${a ? b}", "~}", "${~ x ~}", "\\\"", "\\\\", "<<EOT"}

func (g *jsonGen) str(pool []string) {
	g.b.WriteString("\"" + pool[g.r.Intn(len(pool))] + "\"")
}

func (g *jsonGen) number() {
	g.b.WriteString(g.r.Pick("0", "1", "-1", "12", "2.5", "-0.25", "1e2", "1E+2", "1e-3", "123456789012345678901234567890", "0.1", "1e400", "-0", "3.0e0"))
}

func (g *jsonGen) value(depth int) {
	g.ws()
	x := g.r.Intn(14)
	if depth > 4 && x < 7 {
		x = 7 + g.r.Intn(7)
	}
	switch {
	case x < 4:
		g.object(depth + 1)
	case x < 7:
		g.b.WriteString("[")
		n := g.r.Small(4)
		for i := 0; i < n; i++ {
			if i > 0 {
				g.b.WriteString(",")
			}
			g.value(depth + 1)
		}
		g.ws()
		g.b.WriteString("]")
	case x < 10:
		g.str(jsonStrs)
	case x < 12:
		g.number()
	default:
		g.b.WriteString(g.r.Pick("true", "false", "null"))
	}
	g.ws()
}

func (g *jsonGen) object(depth int) {
	g.b.WriteString("{")
	n := g.r.Small(5)
	var used []string
	for i := 0; i < n; i++ {
		if i > 0 {
			g.b.WriteString(",")
		}
		g.ws()
		if len(used) > 0 && g.r.Chance(0.12) { // duplicate key
			g.b.WriteString(used[g.r.Intn(len(used))])
		} else {
			k := "\"" + jsonKeys[g.r.Intn(len(jsonKeys))] + "\""
			used = append(used, k)
			g.b.WriteString(k)
		}
		g.ws()
		g.b.WriteString(":")
		g.value(depth)
	}
	g.ws()
	g.b.WriteString("}")
}

func genJSON(r *hv.Rng) input {
	g := &jsonGen{r: r}
	if r.Chance(0.03) {
		g.b.WriteString("\xef\xbb\xbf")
	}
	switch x := r.Intn(10); {
	case x < 6:
		g.ws()
		g.object(0)
		g.ws()
		return input{g.b.String(), "valid:json-object"}
	case x < 7: // array of objects at the root
		g.b.WriteString("[")
		n := g.r.Small(3)
		for i := 0; i < n; i++ {
			if i > 0 {
				g.b.WriteString(",")
			}
			g.object(1)
		}
		g.b.WriteString("]")
		return input{g.b.String(), "valid:json-array-root"}
	default:
		g.value(1)
		return input{g.b.String(), "valid:json-expression"}
	}
}

var jsonSpecials = []string{"{", "}", "[", "]", ":", ",", "\"", "\\", "\\u", "\\ud800", "\\x", "=", "//", "/*", "#", "'", "tru", "nul", "NaN", "Infinity", "undefined", "-", "+", ".", "e", "E", "01", "1.", "1e", "\n", "\r", "\t", "\x00", "\xff", "\xc3", "\xef\xbb\xbf", " ", "؀", "${", "%{", "}}", "]]", "{{", "[[", ",,", "::", "\"\"", "\"a\" \"b\"", "\"a\":1 \"b\":2"}

func mutateJSON(r *hv.Rng, s string) (string, string) {
	b := []byte(s)
	first := ""
	k := 1 + r.Small(2)
	for i := 0; i < k; i++ {
		name := ""
		p := r.Intn(len(b) + 1)
		switch x := r.Intn(12); {
		case x < 3:
			name = "json-truncate"
			b = b[:p]
		case x < 6:
			name = "json-insert-special"
			b = spliceAt(b, p, jsonSpecials[r.Intn(len(jsonSpecials))])
		case x < 8:
			name = "json-delete"
			q := p + 1 + r.Small(4)
			if q > len(b) {
				q = len(b)
			}
			b = append(b[:p:p], b[q:]...)
		case x < 9:
			name = "json-drop-structural"
			var idx []int
			for j, c := range b {
				if strings.IndexByte("{}[]:,\"", c) >= 0 {
					idx = append(idx, j)
				}
			}
			if len(idx) > 0 {
				j := idx[r.Intn(len(idx))]
				b = append(b[:j:j], b[j+1:]...)
			}
		case x < 10:
			name = "json-byteflip"
			if p < len(b) {
				b[p] ^= byte(1 << r.Intn(8))
			}
		case x < 11:
			name = "json-swap-structural"
			var idx []int
			for j, c := range b {
				if strings.IndexByte("{}[]:,", c) >= 0 {
					idx = append(idx, j)
				}
			}
			if len(idx) > 0 {
				b[idx[r.Intn(len(idx))]] = "{}[]:,="[r.Intn(7)]
			}
		default:
			name = "json-long-token"
			b = spliceAt(b, p, r.Pick(strings.Repeat("9", 5000), "\""+strings.Repeat("s", 50000)+"\"", strings.Repeat(" ", 20000), strings.Repeat("x", 3000)))
		}
		if first == "" {
			first = name
		}
	}
	return string(b), first
}

// ---- stream 4: random bytes and token soup ----------------------------------------------------------------

const soupBytes = "{}[]()\"$%<>=.,:?*/#\\\n\r\t a1e-~!&|;'`_"

func genRandomBytes(r *hv.Rng) input {
	n := 1 + r.Intn(12)
	b := make([]byte, n)
	for i := range b {
		switch r.Intn(3) {
		case 0:
			b[i] = byte(r.Intn(256))
		case 1:
			b[i] = byte(0x20 + r.Intn(0x5f))
		default:
			b[i] = soupBytes[r.Intn(len(soupBytes))]
		}
	}
	return input{string(b), "random:bytes"}
}

func genSoup(r *hv.Rng) input {
	var sb strings.Builder
	n := 1 + r.Intn(9)
	for i := 0; i < n; i++ {
		if r.Chance(0.35) {
			sb.WriteString(r.Pick("a", "foo", "x = 1", " ", "\n", "b", "0", "12", "\"s\"", "[1, 2]", "f(x)", "a.b[0]", "a {", "}", "\"k\":", "{\"a\":1}", "= ", "b \"l\" {"))
		} else {
			sb.WriteString(specials[r.Intn(len(specials))])
		}
	}
	return input{sb.String(), "random:token-soup"}
}

// ---- stream 5: deep nesting ----------------------------------------------------------------------------------

// maxDepth bounds generated nesting: the parsers, the evaluator and the writer
// loader are recursive and a Go stack overflow cannot be recovered from, so the
// harness stays far below what a 1 GB goroutine stack holds (measured: about
// 2 KB of stack per nesting level).
const maxDepth = 3000

func genDeep(r *hv.Rng) input {
	d := []int{64, 300, 1000, maxDepth}[r.Intn(4)]
	if r.Chance(0.3) {
		d = 1 + r.Intn(maxDepth)
	}
	rep := strings.Repeat
	var s string
	kind := ""
	switch r.Intn(18) {
	case 0:
		kind, s = "tuple", rep("[", d)+"1"+rep("]", d)
	case 1:
		kind, s = "paren", rep("(", d)+"a"+rep(")", d)
	case 2:
		kind, s = "object", rep("{a=", d)+"1"+rep("}", d)
	case 3:
		kind, s = "block", rep("b {\n", d)+rep("}\n", d)
	case 4:
		kind, s = "template", rep("\"${", d)+"a"+rep("}\"", d)
	case 5:
		kind, s = "unary", rep("-", d)+"1"
	case 6:
		kind, s = "not", rep("!", d)+"a"
	case 7:
		kind, s = "attr-steps", "a"+rep(".b", d)
	case 8:
		kind, s = "index-steps", "a"+rep("[0]", d)
	case 9:
		kind, s = "call", rep("f(", d)+"1"+rep(")", d)
	case 10:
		kind, s = "conditional", rep("a ? b : ", d)+"c"
	case 11:
		kind, s = "binary", rep("1 + ", d)+"1"
	case 12:
		kind, s = "json-array", rep("[", d)+rep("]", d)
	case 13:
		kind, s = "json-object", rep("{\"a\":", d)+"1"+rep("}", d)
	case 14:
		kind, s = "for", rep("[for x in ", d)+"y"+rep(": x]", d)
	case 15:
		kind, s = "template-if", "\""+rep("%{if a}", d)+rep("%{endif}", d)+"\""
	case 16:
		kind, s = "splat", "a"+rep("[*].b", d)
	default:
		kind, s = "index-expr", "a"+rep("[b", d)+rep("]", d)
	}
	stream := "deep:" + kind
	switch r.Intn(6) {
	case 0: // only the openers
		s = s[:len(s)/2]
		stream += "-unclosed"
	case 1: // only the closers
		s = s[len(s)/2:]
		stream += "-unopened"
	case 2:
		s = "x = " + s + "\n"
		stream += "-in-config"
	}
	return input{s, stream}
}

// ---- the mixture -----------------------------------------------------------------------------------------------

func genInput(r *hv.Rng) input {
	switch x := r.Intn(100); {
	case x < 22:
		return genValidNative(r)
	case x < 54:
		in := genValidNative(r)
		s, m := mutateNative(r, in.src)
		return input{s, "mutated:" + m}
	case x < 62:
		return genJSON(r)
	case x < 76:
		in := genJSON(r)
		s, m := mutateJSON(r, in.src)
		return input{s, "mutated:" + m}
	case x < 79: // native mutations on JSON and vice versa
		in := genJSON(r)
		s, m := mutateNative(r, in.src)
		return input{s, "mutated:json/" + m}
	case x < 85:
		return genRandomBytes(r)
	case x < 96:
		return genSoup(r)
	case x < 98:
		return genDeep(r)
	default:
		return input{longToken(r), "long-token"}
	}
}

// exhaustiveAlphabet: the reduced alphabet of the exhaustive stream.
var exhaustiveAlphabet = []byte("{}[]()\"$%<>=.,:?*/#\\\n\r\t a1e0-~!&|;'`_+\x00\xff\xc3\xa9\xef\xbb\xbf")

// exhaustive returns every byte string over the alphabet of length <= maxLen.
func exhaustive(maxLen int) []string {
	out := []string{""}
	prev := []string{""}
	for l := 1; l <= maxLen; l++ {
		var next []string
		for _, p := range prev {
			for _, c := range exhaustiveAlphabet {
				next = append(next, p+string([]byte{c}))
			}
		}
		out = append(out, next...)
		prev = next
	}
	return out
}
