package main

// Hand corpus of c15: inputs aimed at the recovery paths of hclsyntax/parser.go
// (recover, recoverOver, recoverAfterBodyItem, placeholder bodies and
// expressions, ExprSyntaxError), parser_template.go (unbalanced directives,
// flush heredocs, strip markers), parser_traversal.go, the recover closures of
// json/parser.go, the string error range of json parseString, and
// hclwrite/parser.go (which partitions tokens by the ranges of the native AST).
// Every entry runs through every entry point.

import "strings"

var corpusNative = []string{
	// --- nothing / almost nothing
	"", " ", "\n", "\r", "\r\n", "\t", "\x00", "\xef\xbb\xbf", "\xef\xbb", "\xef\xbb\xbf\xef\xbb\xbf", "\xff", "\xc3", "\u2028", "\u0085", "a", "1", "=", "{", "}", "[", "]", "(", ")", "\"", "'", "`", "$", "%", "${", "%{", "<<", "<<-", "#", "//", "/*", "/", "*/", ".", "..", "...", ",", ":", "::", "?", "=>", "!", "-", "~", "&", "|", "^", ";", "\\", "@",
	// --- unterminated constructs at the end of input
	"\"a", "\"a\\", "\"\\", "\"${", "\"${a", "\"${a}", "\"%{", "\"%{if", "\"%{if a", "\"%{if a}", "\"%{if a}b", "\"%{for", "\"%{for x", "\"%{for x in", "\"%{for x in y", "\"%{for x in y}", "\"${\"", "\"${\"${", "\"$", "\"%", "\"$$", "\"$${", "\"a\nb\"", "\"a\r\"",
	"<<EOT", "<<EOT\n", "<<EOT\nfoo", "<<EOT\nfoo\n", "<<EOT\nfoo\nEOT", "<<-EOT\n  x", "<<-EOT\n  x\n  EOT", "<<EOT\n${", "<<EOT\n${a", "<<EOT\n%{if a}\n", "<<EOT\n%{if a}\nEOT\n", "<<EOT\r\nfoo\r\nEOT\r\n", "<<EOT\rfoo\rEOT\r", "<<E", "<<E\n", "<<E\nE", "<<E\nE\n", "<<é\né\n", "<<-\n", "<< EOT\nEOT\n", "<<EOT x\nEOT\n", "<<EOT\nEOT x\n", "<<EOT\n EOT\n", "<<-EOT\n \t x\n\t  y\n EOT\n", "<<-EOT\n\n\n EOT\n", "<<-EOT\n ́a\n  b\nEOT\n", "<<-EOT\n  ${a}\n b\n  EOT\n", "<<-EOT\n\u0085a\nEOT\n", "<<-EOT\n\u2003\u2003a\n\u2003b\nEOT\n",
	"/* a", "/* a *", "/*/", "#a", "//a", "# a\r", "/* \xff */", "#\xff",
	"a = [", "a = [1", "a = [1,", "a = {", "a = {b", "a = {b =", "a = {b = 1", "a = {b = 1,", "a = (", "a = (1", "a = f(", "a = f(1", "a = f(1,", "a = f(1...", "a = x.", "a = x[", "a = x[0", "a = x[*", "a = x.*", "a = x.*.", "a = [for", "a = [for x", "a = [for x in", "a = [for x in y", "a = [for x in y:", "a = {for k, v in y: k =>", "a = {for k, v in y: k => v...", "a = {for k, v in y: k => v if",
	"a {", "a {\n", "a \"b", "a \"b\"", "a \"b\" {", "a \"b\" {\n c = 1", "a b c d e", "a \"${b}\" {}", "a {}{}", "a { b { c {", "a {\n}}", "a { b = 1", "a { b = 1 c = 2 }", "a { b = 1, c = 2 }", "a { b = 1\n}", "a { b {} }", "a { b = }", "a { = }", "a { }x", "a {}\nb", "a { b = { }", "a = 1 }", "a = ", "a =", "a = \n", "a = #c\n", "a = /* c */\n", "a\n= 1", "a ==", "a = = 1", "a = 1 = 2", "a = 1, b = 2", "a = 1 b = 2", "a = b c", "a = 1\na = 2\n", "a.b = 1", "a[0] = 1", "\"a\" = 1", "1 = 2", "a = 1;", "a: 1", "{a = 1}", "[a]",
	// --- function-call selectors (ExprSyntaxError, recoverOver)
	"a::", "a::b", "a::b::", "a::1", "a::(1)", "a::b c", "a::b (", "a::b\n(1)", "a:::b()", "x = a::\ny = 1\n", "x = a::b\ny = (1)\n", "x = { k = a:: }\n", "x = { k = a::b, j = 1 }\n", "x = [a::b, (1)]\n", "x = \"${a::}\"\n", "x = \"${a::b}(\"\n", "f(a::)", "f(a::b)", "f(a::b())", "{a = b::}", "{a = b::, c = 1}", "[for x in a:: : x]",
	// --- object constructor recovery
	"{a}", "{a=}", "{=1}", "{a=1 b=2}", "{a=1,,b=2}", "{,}", "{a b}", "{a\n=1}", "{a=1\n,b=2}", "{a.b.c=1}", "{(a)=1}", "{(a=1}", "{a=(}", "{a=[}", "{a=[1,}", "{for=1}", "{for}", "{for x}", "{ a = b. }", "{ a = b[ }", "{ a = \"${\" }", "{ a = \" }", "{a=1}}", "{{a=1}}", "{a={b={c=", "{\n\n", "{a = 1\n\n", "{\"a\" = }",
	// --- tuple / index / splat / traversal recovery
	"[,]", "[1,,2]", "[1 2]", "[1\n2]", "[1;2]", "[[", "]]", "[]]", "[[]", "[1,]]", "a[", "a[]", "a[1 2]", "a[*", "a[* ]", "a[*]]", "a[*].", "a[*][", "a[*].b[", "a.*.", "a.*.0", "a.*[", "a.0.", "a.0.0.0", "a.-1", "a.1e5", "a. b", "a.\nb", "a .b", "a.b.", "a..b", "a.[0]", "a[0].", "a[\"", "a[\"k", "a[\"k\"", "a[\"${k}\"]", "a[\"k\" \"j\"]", "a[1.5.2]", "a[1e]", "a[1e5]", "a[00]", "a[-1]", "a[- 1]", "a[99999999999999999999]", "a[0x1]", "a[true]", "a[null]", "a[b][c", "1.x", "1[0]", "\"s\".x", "null.x", "(a).", "(a)[", "f().", "f()[",
	// --- operators
	"1 +", "+ 1", "* 1", "1 + * 2", "1 + + 2", "1 - - 2", "!", "!!", "-", "--", "- -", "a ?", "a ? b", "a ? b :", "a ? : c", "? b : c", "a ? b : c ?", "a ? b ? c", "a ?? b", "a && ", "a &&& b", "a & b", "a | b", "a ^ b", "~a", "a ** b", "a === b", "a !== b", "a <> b", "a =< b", "a => b", "a <= ", ">= a", "a == == b", "1 2", "a b", "a \"b\"", "\"a\" b", "\"a\" \"b\"", "(1 2)", "()", "(", ")", "(()", "())", "(1))", "((1)",
	// --- template directives
	"\"%{}\"", "\"%{ }\"", "\"%{~}\"", "\"%{~ ~}\"", "\"${}\"", "\"${ }\"", "\"${~}\"", "\"${~ ~}\"", "\"%{if}\"", "\"%{if }\"", "\"%{else}\"", "\"%{endif}\"", "\"%{endfor}\"", "\"%{for}\"", "\"%{for x}\"", "\"%{for x,}\"", "\"%{for x, y}\"", "\"%{for x in}\"", "\"%{for 1 in y}\"", "\"%{for x, 1 in y}\"", "\"%{if a}%{else}%{else}%{endif}\"", "\"%{if a}%{endfor}\"", "\"%{for x in y}%{else}%{endfor}\"", "\"%{for x in y}%{endif}\"", "\"%{if a}%{for x in y}%{endif}%{endfor}\"", "\"%{if a b}c%{endif}\"", "\"%{if a}c%{endif b}\"", "\"%{foo}\"", "\"%{1}\"", "\"%{\"\"}\"", "\"%{if \"}\"", "\"${a b}\"", "\"${a:b}\"", "\"${a\"b\"}\"", "\"${a\nb}\"", "\"${\n}\"", "\"${ # c\n}\"", "\"${a}${\"", "\"${a}%{\"", "\"~}\"", "\"${a~}\"", "\"${a ~ }\"", "\"${~a~}~}\"", "\"$${a} %%{b} $ % $$ %% $$$ {\"", "\"\\q\"", "\"\\u12\"", "\"\\U0000\"", "\"\\UFFFFFFFF\"", "\"\\ud800\"", "\"\\\"", "\"\\\n\"", "\"\xff\"", "\"\x00\"", "\"${\"\xff\"}\"",
	// --- bare templates (ParseTemplate)
	"${", "${a", "${a}", "${a}}", "}", "~}", "%{if a}", "%{endif}", "%{ else }", "%{if a}x%{else}", "a${b}c%{if d}e", "$${", "%%{", "$", "%", "a\r\nb", "a\rb", "${\"\n\"}", "%{for x in y}${x}", "%{if a}%{if b}%{endif}",
	// --- odd bytes at odd places
	"a = 1\x00", "a\x00 = 1", "a = \"\x00\"", "a = 1\n\xef\xbb\xbfb = 2\n", "a\xef\xbb\xbf = 1", "a = \"\xef\xbb\xbf\"", "\xef\xbb\xbfa = 1", "\xef\xbb\xbf\"", "\xef\xbb\xbf<<EOT\n", "a = 1\rb = 2\r", "a = 1\r\rb = 2", "a = [\r1\r]", "a = 1\u2028b = 2", "a = \"\u2028\"", "a = 1\u0085", "a\u00a0= 1", "a = 1 \xff", "a = \xc3(", "\xc3\xa9 = 1", "é { }", "a = \xed\xa0\x80", "a \"\xff\" {}", "a = <<\xff\n\xff\n", "“a”", "a = “b”", "a = ‘b’", "a = 'b'", "a = `b`", "\ta = 1", "a =\t1",
	// --- numbers
	"1e", "1e+", "1.", "1.e5", ".5", "1..2", "1.5.2", "0x10", "1_000", "1e400", "1e99999", "1e-9999", "00", "007", "1a", "1.a", "1e5e5", "123456789012345678901234567890123456789012345678901234567890",
	// --- hclwrite loader shapes (valid, but awkward to partition)
	"a = 1 # c", "a = 1 /* c */", "/* c */ a = 1", "a /* c */ = 1\n", "a = /* c */ 1\n", "b /* c */ {}\n", "b \"l\" /* c */ \"m\" {}\n", "b { /* c */ }\n", "b {} # c", "b {\n} # c\n", "b { a = 1 } # c\n", "a = [ # c\n 1, # d\n]\n", "a = <<EOT\nEOT\n# c\n", "a = (\n1\n)", "a = 1\n\n\n", "\n\n\na = 1", "a=1", "b{}", "b{a=1}", "a = f(\n)\n", "a = x\n.y\n", "a = x[\n0\n]\n", "a = x.*.y\n", "a = x[*].y\n", "a = x.0.1\n", "a = \"${x}\"\n", "a = \"${\"${x}\"}\"\n", "a = \"%{if x}${y}%{endif}\"\n",
}

var corpusJSON = []string{
	"{}", "[]", "[{}]", "[{},{}]", "{\"a\":1}", "{\"a\":{\"b\":{\"c\":[1,2,{\"d\":null}]}}}", "null", "true", "1", "\"s\"", "[1]", "[[]]", "[[{}]]",
	"{", "[", "{\"a\"", "{\"a\":", "{\"a\":1", "{\"a\":1,", "{\"a\":1,}", "[1,]", "[1", "[1,", "{\"a\" 1}", "{\"a\"=1}", "{\"a\";1}", "{1:2}", "{null:1}", "{[]:1}", "{{}:1}", "{\"a\":}", "{\"a\":]", "{\"a\":,}", "{,}", "[,]", "{:}", "[:]", "{\"a\":1 \"b\":2}", "[1 2]", "[1:2]", "[1}", "{\"a\":1]", "{\"a\":[}", "{\"a\":{]", "{\"a\":[1}", "{\"a\":{\"b\":1]", "[[}", "{\"a\":1}}", "{\"a\":1}x", "{}{}", "[][]", "{} []", "1 2", "\"a\" \"b\"", "}", "]", ":", ",", "}{", "][",
	"\"abc", "\"", "\"\\", "\"\\\"", "\"\\u", "\"\\u12", "\"\\u12\"", "\"\\ud800\"", "\"\\x\"", "\"\\a\"", "\"a\nb\"", "\"a\rb\"", "\"a\tb\"", "\"\x00\"", "\"\xff\"", "\"\xc3\"", "\"\xc3", "{\"\\", "{\"a\\", "{\"a\":\"\\", "{\"a\":\"b", "{\"a\":\"\\u", "[\"\\q\"]", "{\"\\q\":1}", "{\"a\":\"\\q\"}", "\"é\\q\"", "\"日本語\\q\"", "\"\\q", "{\"k\":\"v\\", "'a'", "`a`", "“a”",
	"tru", "truee", "nul", "nulll", "fals", "NaN", "Infinity", "-Infinity", "undefined", "True", "NULL", "nil", "yes",
	"-", "+1", "1.", ".1", "1e", "1e+", "01", "-01", "0x1", "1_0", "--1", "1.5.2", "1e400", "1e99999999", "-0", "1E2", "123456789012345678901234567890.123456789012345678901234567890e-10",
	"/* c */ {}", "// c\n{}", "# c\n{}", "{} // c", "{\"//\":\"c\"}", "{\"//\":{\"a\":1},\"b\":2}", "[{\"//\":1}]",
	"\xef\xbb\xbf{}", "\xef\xbb\xbf", "{\xef\xbb\xbf}", "{}\xef\xbb\xbf", "\xff", "{\xff}", "{\"a\":\xff}", "\x00", "{}\x00", "{ \r\n\t}", "{\r}", "{\u2028}", "{\u00a0}", "\n\n{\n\n}\n\n",
	"{\"a\":1,\"a\":2}", "{\"a\":{},\"a\":{}}", "{\"a\":[],\"a\":{}}", "{\"a\":null}", "{\"a\":[null]}", "{\"a\":[[1]]}", "{\"a\":[{},1]}", "{\"a\":[{\"b\":{}},[]]}",
	"{\"a\":\"${\"}", "{\"a\":\"${x\"}", "{\"a\":\"${x}\"}", "{\"a\":\"%{if}\"}", "{\"a\":\"%{if x}\"}", "{\"a\":\"%{endif}\"}", "{\"a\":\"${x.}\"}", "{\"a\":\"${a::}\"}", "{\"a\":\"${[for}\"}", "{\"${a}\":1}", "{\"${\":1}", "{\"a\":\"\\u0024{x}\"}", "{\"a\":\"$\\u007bx}\"}", "{\"a\":\"${\\\"x\\\"}\"}", "{\"a\":\"${\\n}\"}", "{\"a\":\"\\n${x\\n}\"}", "{\"a\":\"é${x\"}", "{\"a\":\"\\u00e9${x\"}", "{\"a\":\"\\ud83d\\ude00${\"}", "\"${\"", "\"${x\"", "\"%{\"", "\"é${\"", "\"\\u00e9${\"", "\"\\t\\t\\t${\"", "[\"${x\", \"%{y\"]",
	"{\"a\":\"<<EOT\\nx\\nEOT\\n\"}", "{\"a\":\"${<<EOT\\nx\\nEOT\\n}\"}",
}

// corpus returns all hand inputs: the two tables above, a few constructions
// that are easier to compute than to write down, and each native entry wrapped
// as an attribute value, a block body and a template interpolation.
func corpus() []input {
	var out []input
	for _, s := range corpusNative {
		out = append(out, input{s, "corpus:native"})
	}
	for _, s := range corpusJSON {
		out = append(out, input{s, "corpus:json"})
	}
	rep := strings.Repeat
	computed := []string{
		rep("[", 200), rep("]", 200), rep("{", 200), rep("}", 200), rep("(", 200), rep(")", 200), rep("\"${", 100), rep("%{if a}", 100), rep("<<EOT\n", 50), rep("a {\n", 200), rep("a = {\n", 200),
		rep("\"", 201), rep("\\", 101), rep("$", 100) + "{", rep("%", 100) + "{", rep("/*", 100), rep("*/", 100), rep("\r", 100), rep("\xef\xbb\xbf", 50), rep("\x00", 100), rep("\xff", 100), rep("́", 200),
		"a = " + rep("x", 60000), "a = " + rep("1", 10000), "a = \"" + rep("s", 60000), "#" + rep("c", 60000), "/*" + rep("c", 60000), rep("a = 1\n", 3000), rep("a {}\n", 3000), rep(" ", 60000), rep("\n", 15000),
		"{\"a\":\"" + rep("s", 60000), "[" + rep("1,", 6000) + "1]", "{" + rep("\"a\":1,", 2000) + "\"a\":1}", rep("[", 200) + rep("}", 200), rep("{\"a\":", 200),
	}
	for _, s := range computed {
		out = append(out, input{s, "corpus:computed"})
	}
	for _, s := range corpusNative {
		if len(s) == 0 || len(s) > 40 {
			continue
		}
		out = append(out,
			input{"x = " + s + "\ny = 1\n", "corpus:wrapped-attr"},
			input{"b {\n  x = " + s + "\n}\nc = 1\n", "corpus:wrapped-block"},
			input{"x = \"a${" + s + "}b\"\n", "corpus:wrapped-interp"},
			input{"{\"x\":\"${" + strings.NewReplacer("\\", "\\\\", "\"", "\\\"", "\n", "\\n", "\r", "\\r", "\t", "\\t").Replace(s) + "}\"}", "corpus:wrapped-json-template"})
	}
	return out
}
