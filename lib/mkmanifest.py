#!/usr/bin/env python3
"""Regenerates MANIFEST.json from lib/props.py and lib/manifest_text.py."""
import json, os, sys
ROOT = os.path.dirname(os.path.dirname(os.path.abspath(__file__)))
sys.path.insert(0, os.path.join(ROOT, 'lib'))
from props import PROPS
from manifest_text import TEXT, NOT_APPLICABLE, HOOK_COMMITS

ALL = ['C%02d' % i for i in range(1, 21)]
checks = []
for pid in ALL:
    if pid not in PROPS or pid not in TEXT:
        continue
    t = TEXT[pid]
    checks.append(dict(
        property_id=pid,
        quick_cmd='bin/check %s quick' % pid,
        thorough_cmd='bin/check %s thorough' % pid,
        evidence_file='/verif/evidence/%s.json' % pid,
        replay_cmd_template='bin/check %s --replay {path}' % pid,
        engine='coq-model+correspondence',
        level_claimed=dict(category='proof', text=t['level'], design_ref=t['design_ref']),
        level_note=t['note'],
        technique=t['technique'],
    ))
na = [dict(property_id=p, reason=r) for p, r in NOT_APPLICABLE.items() if p not in [c['property_id'] for c in checks]]
m = dict(
    version=1,
    setup_cmd='bin/setup',
    hooks=dict(
        guard='verif',
        enable='go build -tags verif (harness module /verif/harness with replace github.com/hashicorp/hcl/v2 => /repo)',
        baseline_off_cmd='cd /repo && GOFLAGS=-mod=mod GOPROXY=off go test -json -vet=off -count=1 -timeout 25m ./...',
        source_commits=HOOK_COMMITS,
        add_only=True,
    ),
    engines=[dict(name='coq-model+correspondence', path='/verif/bin/check',
                  serves_properties=[c['property_id'] for c in checks],
                  kind_free_text='Coq 8.16.1 theorems over executable Gallina models (coq/theories), tables regenerated from /repo by tools/gentables, differential correspondence Go harness vs model evaluated by vm_compute, direct oracles on the real code for the violation search')],
    checks=checks,
    notes='See DESIGN.md. Every claimed property is decided by Coq theorems about a model plus a checked model/implementation correspondence; properties not yet built are listed under not_applicable with the reason "not yet built" (none is inapplicable in principle).',
    not_applicable=na,
)
json.dump(m, open(os.path.join(ROOT, 'MANIFEST.json'), 'w'), indent=1)
print('checks:', [c['property_id'] for c in checks], 'na:', [x['property_id'] for x in na])
