"""Texts for MANIFEST.json, per property."""
HOOK_COMMITS = ['38a46f2', '3202107', '9a6c05b']

TEXT = {
 'C09': dict(
  level='Machine-checked Coq theorems over an executable model of hclwrite/format.go (Write/Format.v), for ALL token sequences of any length: format changes only SpacesBefore (types, bytes, comments, heredoc content preserved in order), format is idempotent, and the output is independent of the input layout. The model is tied to the code on every run: token codes regenerated from token.go, spaceAfterToken compared exhaustively (all type triples x in-flag, 351k rows), format compared on generated configurations and arbitrary token sequences. The byte-level part (re-lexing the output gives the same tokens, same parse) is not proved yet; it is decided by the direct oracle on the real code and labelled partial.',
  design_ref='DESIGN.md §5 C09',
  note='Trusted: Coq kernel + vm_compute; gentables translator; Go harness + FormatCheck.v comparison; verif hook file. Modelled not verified: the scanner (the model consumes the implementation\'s token stream), textseg grapheme counts. No axioms (Print Assumptions: closed under the global context).',
  technique='Coq proof (induction over token lists) + exhaustive/differential model-code correspondence'),
}

TEXT['C17'] = dict(
  level='Machine-checked Coq theorems (std++ gmap) over a model of the only shared mutable state of a parsed tree, AnonSymbolExpr.values under valuesLock: for ANY number of goroutines, ANY schedule and ANY (even adaptive, data-dependent) evaluation strategies, if every EvalContext is used by one goroutine only, each goroutine observes exactly what it observes running alone, and the table is empty again after complete splat programs (no leak between evaluations). The tie to the code is checked on every run: a table regenerated from the Go source lists every access to .values and its lock (ops_guarded fails to compile if an access is added or a lock removed), and recorded lock-ordered traces of real concurrent evaluations are replayed on the model (legal history, splat-shaped per-goroutine programs). Partial: Go memory-model data races cannot be exhibited by the model; go -race on the same workload is supporting evidence only.',
  design_ref='DESIGN.md §5 C17',
  note='Trusted: Coq kernel, gentables (go/ast), Go harness + AnonSymCheck.v, hook files (add-only; empty without tag). Modelled not verified: Go runtime/scheduler/memory model, sync.RWMutex. No axioms.',
  technique='Coq proof (induction over schedules) + regenerated lock table + trace replay; race detector as supporting evidence')

TEXT['C10'] = dict(
  level='Machine-checked Coq theorems over an executable model of the hclwrite loader (hclwrite/parser.go: partition*, parseBody/Item/Attribute/Block/Labels/Expression/Traversal/TraversalStep): every partition function conserves the token list for ANY range; for ANY token list and ANY native AST ranges satisfying ranges_wf (what an error-free hclsyntax parse guarantees: nested, ordered, token-aligned ranges), loading succeeds without a modelled panic and flattening the tree gives back exactly the input tokens (index keys of every literal kind, comments anywhere); the tree exposes exactly the attributes, blocks, labels (multi-token labels included) and traversals of the native AST at every depth; File.Bytes = write(format(tokens)) using C09s formatter model. Tied to the code on every run by differential execution (tree shape, tokens, accessors) and a direct oracle on the real code (Bytes == Format(src), token preservation, accessor completeness, no panic).',
  design_ref='DESIGN.md §5 C10',
  note='Trusted: Coq kernel, Go harness + LoaderCheck.v, hook files. Modelled not verified: hclsyntax scanner/parser (their output is the model input; ranges_wf checked per case). No axioms.',
  technique='Coq proof (induction over body trees and traversals) + differential model-code correspondence')

NOT_APPLICABLE = {p: 'not yet built in this round (the design in DESIGN.md applies; no check is registered until its floor exists)' for p in ['C%02d' % i for i in range(1, 21)]}
