"""Texts for MANIFEST.json, per property."""
HOOK_COMMITS = ['38a46f2']

TEXT = {
 'C09': dict(
  level='Machine-checked Coq theorems over an executable model of hclwrite/format.go (Write/Format.v), for ALL token sequences of any length: format changes only SpacesBefore (types, bytes, comments, heredoc content preserved in order), format is idempotent, and the output is independent of the input layout. The model is tied to the code on every run: token codes regenerated from token.go, spaceAfterToken compared exhaustively (all type triples x in-flag, 351k rows), format compared on generated configurations and arbitrary token sequences. The byte-level part (re-lexing the output gives the same tokens, same parse) is not proved yet; it is decided by the direct oracle on the real code and labelled partial.',
  design_ref='DESIGN.md §5 C09',
  note='Trusted: Coq kernel + vm_compute; gentables translator; Go harness + FormatCheck.v comparison; verif hook file. Modelled not verified: the scanner (the model consumes the implementation\'s token stream), textseg grapheme counts. No axioms (Print Assumptions: closed under the global context).',
  technique='Coq proof (induction over token lists) + exhaustive/differential model-code correspondence'),
}

NOT_APPLICABLE = {p: 'not yet built in this round (the design in DESIGN.md applies; no check is registered until its floor exists)' for p in ['C%02d' % i for i in range(1, 21)]}
