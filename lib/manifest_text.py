"""Texts for MANIFEST.json, per property."""
HOOK_COMMITS = ['38a46f2', '3202107', '9a6c05b', 'e8ea72d', 'a4f0878']

TEXT = {
 'C09': dict(
  level='Machine-checked Coq theorems over an executable model of hclwrite/format.go (Write/Format.v), for ALL token sequences of any length: format changes only SpacesBefore (types, bytes, comments, heredoc content preserved in order), format is idempotent, and the output is independent of the input layout. The model is tied to the code on every run: token codes regenerated from token.go, spaceAfterToken compared exhaustively (all type triples x in-flag, 351k rows), format compared on generated configurations and arbitrary token sequences. The byte-level part (re-lexing the output gives the same tokens, same parse) is not proved yet; it is decided by the direct oracle on the real code and labelled partial.',
  design_ref='DESIGN.md §5 C09',
  note='Trusted: Coq kernel + vm_compute; gentables translator; Go harness + FormatCheck.v comparison; verif hook file. Modelled not verified: the scanner (the model consumes the implementation\'s token stream), textseg grapheme counts. No axioms (Print Assumptions: closed under the global context).',
  technique='Coq proof (induction over token lists) + exhaustive/differential model-code correspondence'),
}

TEXT['C17'] = dict(
  level='Machine-checked Coq theorems (std++ gmap) over a model of the only shared mutable state of a parsed tree, AnonSymbolExpr.values under valuesLock: for ANY number of goroutines, ANY schedule and ANY (even adaptive, data-dependent) evaluation strategies, if every EvalContext is used by one goroutine only, each goroutine observes exactly what it observes running alone, and the table is empty again after complete splat programs (no leak between evaluations). The tie to the code is checked on every run: a table regenerated from the Go source lists every access to .values and its lock (ops_guarded fails to compile if an access is added or a lock removed), and recorded lock-ordered traces of real concurrent evaluations are replayed on the model (legal history, splat-shaped per-goroutine programs). Partial: Go memory-model data races cannot be exhibited by the model; go -race on the same workload is supporting evidence only.',
  design_ref='DESIGN.md §5 C17',
  note='Trusted: Coq kernel, gentables (go/ast), Go harness + AnonSymCheck.v, hook files (add-only; empty without tag). Modelled not verified: Go runtime/scheduler/memory model, sync.RWMutex. No axioms.',
  technique='Coq proof (induction over schedules) + regenerated lock table + trace replay; race detector as supporting evidence')

TEXT['C10'] = dict(
  level='Machine-checked Coq theorems over an executable model of the hclwrite loader (hclwrite/parser.go: partition*, parseBody/Item/Attribute/Block/Labels/Expression/Traversal/TraversalStep): every partition function conserves the token list for ANY range; for ANY token list and ANY native AST ranges satisfying ranges_wf (what an error-free hclsyntax parse guarantees: nested, ordered, token-aligned ranges), loading succeeds without a modelled panic and flattening the tree gives back exactly the input tokens (index keys of every literal kind, comments anywhere); the tree exposes exactly the attributes, blocks, labels (multi-token labels included) and traversals of the native AST at every depth; File.Bytes = write(format(tokens)) using C09s formatter model. Tied to the code on every run by differential execution (tree shape, tokens, accessors) and a direct oracle on the real code (Bytes == Format(src), token preservation, accessor completeness, no panic).',
  design_ref='DESIGN.md §5 C10',
  note='Trusted: Coq kernel, Go harness + LoaderCheck.v, hook files. Modelled not verified: hclsyntax scanner/parser (their output is the model input; ranges_wf checked per case). No axioms.',
  technique='Coq proof (induction over body trees and traversals) + differential model-code correspondence')

TEXT['C04'] = dict(
  level='Machine-checked Coq theorems stated ONCE against an abstract body interface (Lawful) and instantiated for executable models of hclsyntax.Body, json.body (over ANY JSON value) and mergedBodies (over ANY lawful children, so nested and mixed-syntax merges): every matching attribute/block is returned exactly once, blocks in source order per type; exhaustive processing reports exactly the non-matching visible items; the partial remainder is the original minus the consumed items; and the spec.md law: partial(S1) then content(S2) on the remainder equals content(S1 u S2) for name-disjoint schemata, generalised by induction to any k >= 2 parts. Tied to the code on every run by differential execution of generated partial/content histories over native, JSON, merged and dynblock-expanded bodies, plus a direct oracle of the laws on the real code.',
  design_ref='DESIGN.md §5 C04',
  note='Trusted: Coq kernel, Go harness + BodyCheck.v. Modelled not verified: parsers producing the bodies. expandBody/unknownBody: no proved law (checker model + oracle). No axioms.',
  technique='Coq proof (laws against an interface, induction over schema parts) + differential correspondence')

TEXT['C07'] = dict(
  level='Machine-checked Coq theorems over the calibrated evaluator model (Eval/Impl.v) and the model of hclsyntax.Variables (Eval/Vars.v), for the WHOLE expression language, any context chain and any fuel: if two contexts agree on the reported root names (and function tables) the evaluation result - value AND diagnostics - is identical (coincidence); hence pruning every frame to the reported roots changes nothing and changing an unreported variable changes nothing; names bound by for expressions / template for directives are never reported except through a free occurrence in the collection expression. The model is tied to the code by the ceval correspondence (value, diagnostics and Variables() compared on generated cases). JSON expressions, hcldec.Variables and the dynblock walkers are decided per run by a direct oracle on the real code (pruned / perturbed scopes).',
  design_ref='DESIGN.md §5 C07',
  note='Trusted: Coq kernel, Go harness + EvalCheck.v. Modelled not verified: go-cty. Partial: JSON/hcldec/dynblock walkers by oracle only. No axioms.',
  technique='Coq proof (induction on evaluator fuel with local-scope generalisation) + differential correspondence + direct oracle')

TEXT['C14'] = dict(
  level='Machine-checked Coq theorems: (a) a GENERIC longest-match scanner engine with Ragel semantics (modes, call stack, fhold, error state) tiles ANY input for ANY rule set - tokens in source order, non-overlapping, bytes = source slice, exactly one EOF at the end, gaps exactly the matches of non-emitting rules; for the HCL rule sets (transcribed from scan_tokens.rl, Unicode identifier tables regenerated from unicode_derived.rl) every gap is spaces/tabs and scanning never runs out of fuel or panics, for every input and all three entry modes; (b) for ANY start position, source and grapheme segmentation, if tokens tile with blank gaps and token boundaries are cluster boundaries, every Start/End that the emitToken model computes equals the canonical position (count newlines and clusters up to the offset); the same for hcl.RangeScanner, which provably agrees with the lexer convention. The model is tied to the running code (Ragel-generated DFA) by differential testing of token streams and positions on every run; range fidelity of parsed nodes is decided by the direct oracle.',
  design_ref='DESIGN.md §5 C14',
  note='Trusted: Coq kernel, gentables (unicode tables), Go harness + LexCheck.v. Modelled not verified: scan_tokens.go generated tables, go-textseg (oracle input). Partial: part (c) range fidelity by oracle only. No axioms.',
  technique='Coq proof (generic scanner tiling by induction; position invariant) + regenerated Unicode tables + differential correspondence')

TEXT['C11'] = dict(
  level='Machine-checked Coq theorems over models of escapeQuotedStringLit, the stringTemplate scanner and ParseStringLiteralToken: for EVERY is_print (with is_print of the brace character true) and EVERY string of Unicode scalar values, the escaped text contains no raw newline, is scanned as literal tokens only (no template introducer survives) and un-escapes to exactly the UTF-8 of the string; generated value tokens are balanced, keys are identifiers or codec-correct quoted strings, a generated mapping is never read as a for expression; traversal tokens have the documented shape; labels written through the API read back (freshly built and after reloading) for ALL labels. Tied to the code on every run by differential execution (escape, tokens, unescape, scanner pieces, labels; exhaustive small-alphabet scanner inputs; exhaustive rune table in Go). The end-to-end value round trip through the real parser/evaluator is decided by the direct oracle.',
  design_ref='DESIGN.md §5 C11',
  note='Trusted: Coq kernel, Go harness + GenerateCheck.v, hook file. Parameters (not axioms): is_print, valid_ident. Modelled not verified: big.Float formatting, go-cty iteration/NFC, parser+evaluator. No axioms.',
  technique='Coq proof (string codec by induction over runes; token-shape lemmas) + exhaustive/differential correspondence + direct oracle')

TEXT['C20'] = dict(
  level='Machine-checked Coq theorems over the calibrated evaluator model: whenever an expression has a static traversal (plain shape), evaluating it in ANY context gives the same value and error-ness as applying the traversal to the context; the keyword and object-key deviations are stated exactly with witnesses; static list / map / call parts evaluate to the elements / pairs / arguments of the whole (later duplicate key wins); for EVERY type of the constraint language (primitives, any, list/set/map, tuple, object with identifier attribute names, nested arbitrarily) get_type(type_expr ty) = ty. Static.v / TypeExpr.v are tied to the code by differential execution on every run; the stand-alone traversal parser and the TEXT round trip of types (native and JSON) are decided by the direct oracle on the real code.',
  design_ref='DESIGN.md §5 C20',
  note='Trusted: Coq kernel, Go harness + StaticCheck.v/TypeExprCheck.v, evaluator model (ceval correspondence). Partial: parser-dependent statements by oracle only. No axioms.',
  technique='Coq proof (induction on expressions / types) + differential correspondence + direct oracle')

NOT_APPLICABLE = {p: 'not yet built in this round (the design in DESIGN.md applies; no check is registered until its floor exists)' for p in ['C%02d' % i for i in range(1, 21)]}
