"""Per-property configuration for bin/check."""

KERNEL = 'Coq 8.16.1 kernel (coqc, full .vo build via coq_makefile; vm_compute used for model evaluation and finite sweeps; native_compute not used)'
HARNESS = 'Go harness /verif/harness (feeds the same inputs to the real code and prints what it observed as Coq case files) and the hand-written checkers *Check.v that compare model output with it'
GEN = 'translator tools/gentables (Go, go/ast): regenerates coq/theories/Gen/*.v from /repo on every run'

PROPS = {
    'C09': dict(
        title='Formatting changes only inter-token spacing and is idempotent',
        runs=[
            dict(cmd='c09', n_quick=1200, n_thorough=20000, thorough_seeds=3, replayable=True),
            dict(cmd='c09table', n_quick=1, n_thorough=1, report='table/report.json'),
        ],
        trusted_base=[KERNEL, GEN + ' (token type codes from hclsyntax/token.go)', HARNESS,
                      'hook hclwrite/verif_hooks.go (build tag verif): VerifFormat/VerifSpaceAfterToken/VerifLexConfig call the unexported functions unchanged',
                      'modelled, not verified: hclsyntax scanner (the model takes the implementation\'s own token stream), go-textseg grapheme counts (oracle input gcols), bytes.Buffer/WriteTo'],
        assumptions=['the formatter model Write/Format.v is the code: checked on every run by differential execution (generated configs, arbitrary token sequences) and exhaustively for spaceAfterToken over all token-type triples',
                     'byte-level claims (re-lexing the formatted output yields the same tokens; it parses to the same configuration) are NOT proved: they are decided per run by the direct oracle on the real code'],
        partial=['format_bytes_stable: byte-level idempotence and re-lexing stability need the scanner model (see DESIGN C09); currently only checked by the direct oracle'],
        refuted=[],
    ),
}
