"""Per-property configuration for bin/check."""

KERNEL = 'Coq 8.16.1 kernel (coqc, full .vo build via coq_makefile; vm_compute used for model evaluation and finite sweeps; native_compute not used)'
HARNESS = 'Go harness /verif/harness (feeds the same inputs to the real code and prints what it observed as Coq case files) and the hand-written checkers *Check.v that compare model output with it'
GEN = 'translator tools/gentables (Go, go/ast): regenerates coq/theories/Gen/*.v from /repo on every run'

PROPS = {
    'C09': dict(
        title='Formatting changes only inter-token spacing and is idempotent',
        runs=[
            dict(cmd='c09', n_quick=1200, n_thorough=20000, thorough_seeds=3, replayable=True),
            dict(cmd='c09table', n_quick=1, n_thorough=1, report='table/report.json'),
        ],
        trusted_base=[KERNEL, GEN + ' (token type codes from hclsyntax/token.go)', HARNESS,
                      'hook hclwrite/verif_hooks.go (build tag verif): VerifFormat/VerifSpaceAfterToken/VerifLexConfig call the unexported functions unchanged',
                      'modelled, not verified: hclsyntax scanner (the model takes the implementation\'s own token stream), go-textseg grapheme counts (oracle input gcols), bytes.Buffer/WriteTo'],
        assumptions=['the formatter model Write/Format.v is the code: checked on every run by differential execution (generated configs, arbitrary token sequences) and exhaustively for spaceAfterToken over all token-type triples',
                     'byte-level claims (re-lexing the formatted output yields the same tokens; it parses to the same configuration) are NOT proved: they are decided per run by the direct oracle on the real code'],
        partial=['format_bytes_stable: byte-level idempotence and re-lexing stability need the scanner model (see DESIGN C09); currently only checked by the direct oracle'],
        refuted=[],
    ),
    'C17': dict(
        title='A parsed configuration can be evaluated concurrently',
        runs=[
            dict(cmd='c17', n_quick=200, n_thorough=3000, thorough_seeds=3, replayable=False, timeout=3000),
            dict(cmd='c17race', n_quick=40, n_thorough=600, thorough_seeds=2, timeout=3000),
        ],
        trusted_base=[KERNEL + '; std++ gmap', GEN + ' (Gen/AnonOps.v: every function of hclsyntax that touches AnonSymbolExpr.values and whether it holds valuesLock, via go/ast)', HARNESS,
                      'hook hclsyntax/anon_hook_verif.go + 6 added call lines in expression.go (empty inlined functions without the tag): records the lock-ordered operation trace',
                      'Go race detector (go build -race) as supporting evidence only',
                      'modelled, not verified: the Go runtime (scheduler, memory model), sync.RWMutex, map implementation'],
        assumptions=['the only shared mutable state of a parsed tree is AnonSymbolExpr.values (checked syntactically by the regenerated table ops_guarded, and by the direct oracle: concurrent results equal solo results)',
                     'each concurrent evaluation uses its own EvalContext (the documented contract); shared parents are only read',
                     'Go memory-model data races are runtime behaviour an executable Gallina model cannot exhibit: the claim is PARTIAL there; the race detector run is supporting evidence'],
        partial=['data-race freedom in the Go memory model: not provable in the model; checked per run by go -race on the same workload'],
        refuted=[],
    ),
    'C10': dict(
        title='Loading a file into the writer AST and saving it loses nothing',
        runs=[dict(cmd='c10', n_quick=1500, n_thorough=30000, thorough_seeds=3, replayable=True)],
        trusted_base=[KERNEL, GEN + ' (token type codes)', HARNESS,
                      'hook hclwrite/loader_verif.go (read-only export of the loaded tree shape) and hclwrite/verif_hooks.go (VerifFileTokens)',
                      'modelled, not verified: hclsyntax scanner and parser (their tokens and node ranges are INPUT to the loader model; ranges_wf — what an error-free parse guarantees — is checked on every case, not proved)'],
        assumptions=['the loader model Write/Loader.v is hclwrite/parser.go: checked on every run by differential execution (tree shape, flattened tokens, accessors)',
                     'ranges_wf holds for every error-free parse (checked per case: ranges_wf <-> Go lost no tokens)',
                     'label text is compared as raw literal bytes; unescaping belongs to C11'],
        partial=['that hclsyntax always produces ranges satisfying ranges_wf is checked per case, not proved (needs the parser model)'],
        refuted=[],
    ),
}
