module gentables

go 1.24.0
