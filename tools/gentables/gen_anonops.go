package main

// genAnonOps (property C17): lists every function of package hclsyntax that
// reads or writes the field `values` of AnonSymbolExpr — the only mutable state
// a parsed syntax tree shares between evaluations — and says whether each such
// function performs all its accesses under `valuesLock`.
//
// Output: coq/theories/Gen/AnonOps.v
//
//	Definition anon_ops : list (string * bool (*writes*) * bool (*locked*)) := [...]
//
// consumed by Conc/AnonSymProofs.v (Lemma ops_guarded, by vm_compute).
//
// The analysis is syntactic (go/ast, no type checking), deliberately strict:
//
//   - an access is any selector expression `<recv>.values`, or a key `values`
//     in a composite literal of type AnonSymbolExpr (counted as an unguarded
//     write). The generator aborts unless `values` is a field of exactly one
//     struct of the package (AnonSymbolExpr), so the selector is unambiguous.
//   - write = the selector is assigned, indexed on the left of an assignment or
//     of ++/--, passed to the builtins delete/clear, or has its address taken;
//     everything else is a read.
//   - "locked" for one access = in the innermost enclosing function (a closure
//     counts as its own function), some block that encloses the access contains,
//     BEFORE the statement holding the access, the statement
//     `<recv>.valuesLock.Lock()` (or `RLock()`, accepted for reads only) on the
//     same receiver expression, and the matching `Unlock()`/`RUnlock()` is either
//     deferred in that block between the lock and the access, or is a later
//     statement of that block with no matching unlock in between.
//   - a function is "locked" when all its accesses are.
//
// Not covered: aliases (`m := e.values` under the lock, used after unlocking),
// copies of the whole struct, accesses through reflection/unsafe, and anything
// the Go memory model says beyond mutual exclusion.

import (
	"fmt"
	"go/ast"
	"go/token"
	"go/types"
	"os"
	"path/filepath"
	"sort"
	"strings"
)

func init() { generators = append(generators, genAnonOps) }

const anonStruct = "AnonSymbolExpr"
const anonField = "values"
const anonLock = "valuesLock"

type anonAccess struct {
	fn     string
	write  bool
	locked bool
	pos    token.Position
}

// lockCall recognises `<recv>.valuesLock.<Method>()` and returns recv, method.
func lockCall(e ast.Expr) (recv string, method string, ok bool) {
	call, isCall := e.(*ast.CallExpr)
	if !isCall || len(call.Args) != 0 {
		return "", "", false
	}
	sel, isSel := call.Fun.(*ast.SelectorExpr)
	if !isSel {
		return "", "", false
	}
	inner, isSel2 := sel.X.(*ast.SelectorExpr)
	if !isSel2 || inner.Sel.Name != anonLock {
		return "", "", false
	}
	return types.ExprString(inner.X), sel.Sel.Name, true
}

func stmtLock(s ast.Stmt) (recv, method string, deferred, ok bool) {
	switch st := s.(type) {
	case *ast.ExprStmt:
		recv, method, ok = lockCall(st.X)
		return recv, method, false, ok
	case *ast.DeferStmt:
		recv, method, ok = lockCall(st.Call)
		return recv, method, true, ok
	}
	return "", "", false, false
}

func stmtList(n ast.Node) []ast.Stmt {
	switch b := n.(type) {
	case *ast.BlockStmt:
		return b.List
	case *ast.CaseClause:
		return b.Body
	case *ast.CommClause:
		return b.Body
	}
	return nil
}

// guarded decides the "locked" predicate for an access with the given
// receiver, given the path of AST nodes from the enclosing function body down
// to the access.
func guarded(path []ast.Node, recv string, write bool) bool {
	for i, n := range path {
		list := stmtList(n)
		if list == nil || i+1 >= len(path) {
			continue
		}
		// index of the statement of this block that contains the access
		idx := -1
		for k, s := range list {
			if s == path[i+1] {
				idx = k
				break
			}
		}
		if idx < 0 {
			continue
		}
		// scan the statements before it, tracking the lock state
		held := ""        // "", "Lock", "RLock"
		released := false // a matching unlock is guaranteed (deferred)
		for k := 0; k < idx; k++ {
			r, m, deferred, ok := stmtLock(list[k])
			if !ok || r != recv {
				continue
			}
			switch {
			case !deferred && (m == "Lock" || m == "RLock"):
				held, released = m, false
			case deferred && held == "Lock" && m == "Unlock", deferred && held == "RLock" && m == "RUnlock":
				released = true
			case !deferred && (m == "Unlock" || m == "RUnlock"):
				held, released = "", false
			}
		}
		if held == "" || (write && held != "Lock") {
			continue
		}
		if !released {
			// look for a later explicit unlock in the same block
			want := "Unlock"
			if held == "RLock" {
				want = "RUnlock"
			}
			for k := idx + 1; k < len(list); k++ {
				r, m, deferred, ok := stmtLock(list[k])
				if ok && !deferred && r == recv && m == want {
					released = true
					break
				}
			}
		}
		if released {
			return true
		}
	}
	return false
}

func genAnonOps() {
	dir := filepath.Join(repo, "hclsyntax")
	ents, err := os.ReadDir(dir)
	die(err)
	var paths []string
	for _, e := range ents {
		n := e.Name()
		if e.IsDir() || !strings.HasSuffix(n, ".go") || strings.HasSuffix(n, "_test.go") {
			continue
		}
		// the verif hook files only exist to observe; they are compiled only
		// with the verif tag and are not part of what ships
		if strings.HasSuffix(n, "_verif.go") || n == "verif_hooks.go" {
			continue
		}
		paths = append(paths, filepath.Join(dir, n))
	}
	sort.Strings(paths)

	type parsed struct {
		fset *token.FileSet
		file *ast.File
	}
	var files []parsed
	for _, p := range paths {
		fset, f := parseFile(p)
		files = append(files, parsed{fset, f})
	}

	// 1. `values` must be a field of exactly one struct: AnonSymbolExpr, which
	//    must also have the lock field.
	var owners []string
	hasLock := false
	for _, pf := range files {
		ast.Inspect(pf.file, func(n ast.Node) bool {
			ts, ok := n.(*ast.TypeSpec)
			if !ok {
				return true
			}
			st, ok := ts.Type.(*ast.StructType)
			if !ok {
				return true
			}
			for _, fld := range st.Fields.List {
				for _, nm := range fld.Names {
					if nm.Name == anonField {
						owners = append(owners, ts.Name.Name)
					}
					if nm.Name == anonLock && ts.Name.Name == anonStruct {
						hasLock = true
					}
				}
			}
			return true
		})
	}
	if len(owners) != 1 || owners[0] != anonStruct {
		die(fmt.Errorf("anonops: field %q is expected in exactly one struct (%s) of package hclsyntax, found in %v", anonField, anonStruct, owners))
	}
	if !hasLock {
		die(fmt.Errorf("anonops: struct %s has no field %s", anonStruct, anonLock))
	}

	// 2. collect the accesses
	var accs []anonAccess
	for _, pf := range files {
		var stack []ast.Node
		ast.Inspect(pf.file, func(n ast.Node) bool {
			if n == nil {
				stack = stack[:len(stack)-1]
				return true
			}
			stack = append(stack, n)
			var recv string
			isLit := false
			switch x := n.(type) {
			case *ast.SelectorExpr:
				if x.Sel.Name != anonField {
					return true
				}
				recv = types.ExprString(x.X)
			case *ast.KeyValueExpr:
				id, ok := x.Key.(*ast.Ident)
				if !ok || id.Name != anonField || len(stack) < 2 {
					return true
				}
				cl, ok := stack[len(stack)-2].(*ast.CompositeLit)
				if !ok {
					return true
				}
				if t, ok := cl.Type.(*ast.Ident); !ok || t.Name != anonStruct {
					return true
				}
				isLit = true
			default:
				return true
			}
			// innermost enclosing function and the path below its body
			fi := -1
			for i := len(stack) - 1; i >= 0; i-- {
				switch stack[i].(type) {
				case *ast.FuncDecl, *ast.FuncLit:
					fi = i
				}
				if fi >= 0 {
					break
				}
			}
			name := "<package level>"
			var path []ast.Node
			if fi >= 0 {
				path = stack[fi+1:]
				// name: nearest FuncDecl, plus a marker for closures
				for i := fi; i >= 0; i-- {
					if fd, ok := stack[i].(*ast.FuncDecl); ok {
						name = fd.Name.Name
						if fd.Recv != nil && len(fd.Recv.List) == 1 {
							name = strings.TrimPrefix(types.ExprString(fd.Recv.List[0].Type), "*") + "." + name
						}
						break
					}
				}
				if _, isClosure := stack[fi].(*ast.FuncLit); isClosure {
					name += fmt.Sprintf(".func@%d", pf.fset.Position(stack[fi].Pos()).Line)
				}
			}
			write := isLit
			if !isLit && len(stack) >= 2 {
				sel := n.(ast.Expr)
				parent := stack[len(stack)-2]
				target := sel // the expression whose role decides read/write
				if ix, ok := parent.(*ast.IndexExpr); ok && ix.X == sel && len(stack) >= 3 {
					target = ix
					parent = stack[len(stack)-3]
				}
				switch p := parent.(type) {
				case *ast.AssignStmt:
					for _, l := range p.Lhs {
						if l == target {
							write = true
						}
					}
				case *ast.IncDecStmt:
					write = p.X == target
				case *ast.UnaryExpr:
					write = p.Op == token.AND
				case *ast.CallExpr:
					if id, ok := p.Fun.(*ast.Ident); ok && (id.Name == "delete" || id.Name == "clear") && len(p.Args) > 0 && p.Args[0] == target {
						write = true
					}
				case *ast.RangeStmt:
					write = p.Key == target || p.Value == target
				}
			}
			locked := false
			if !isLit && fi >= 0 {
				locked = guarded(path, recv, write)
			}
			accs = append(accs, anonAccess{fn: name, write: write, locked: locked, pos: pf.fset.Position(n.Pos())})
			return true
		})
	}

	// 3. per function
	type row struct{ writes, locked bool }
	rows := map[string]*row{}
	for _, a := range accs {
		r := rows[a.fn]
		if r == nil {
			r = &row{locked: true}
			rows[a.fn] = r
		}
		r.writes = r.writes || a.write
		r.locked = r.locked && a.locked
	}
	names := make([]string, 0, len(rows))
	for n := range rows {
		names = append(names, n)
	}
	sort.Strings(names)

	var b strings.Builder
	fmt.Fprintf(&b, "(* GENERATED by tools/gentables (gen_anonops.go) from hclsyntax/*.go, non-test files (sha256/16 %s). Do not edit.\n", srcHash(paths...))
	b.WriteString("   Every function of package hclsyntax that reads or writes AnonSymbolExpr.values:\n")
	b.WriteString("   (name, writes, locked); locked = every access in the function is preceded by\n")
	b.WriteString("   valuesLock.Lock() (or RLock() for reads) with a deferred or later matching unlock.\n")
	for _, a := range accs {
		fmt.Fprintf(&b, "     %s:%d %s write=%v locked=%v\n", filepath.Base(a.pos.Filename), a.pos.Line, a.fn, a.write, a.locked)
	}
	b.WriteString("*)\n")
	b.WriteString("From Coq Require Import String List.\nImport ListNotations.\nOpen Scope string_scope.\n\n")
	b.WriteString("Definition anon_ops : list (string * bool (*writes*) * bool (*locked*)) :=\n  [")
	for i, n := range names {
		if i > 0 {
			b.WriteString(";\n   ")
		}
		coqb := func(x bool) string {
			if x {
				return "true"
			}
			return "false"
		}
		fmt.Fprintf(&b, "(\"%s\", %s, %s)", strings.ReplaceAll(n, "\"", "\"\""), coqb(rows[n].writes), coqb(rows[n].locked))
	}
	b.WriteString("].\n")
	// second table of this file (gen_sharedwrites.go): every write into memory
	// that may be shared, in code reachable from the using API
	b.WriteString(sharedWritesCoq())
	writeIfChanged(filepath.Join(outDir, "AnonOps.v"), b.String())
}
